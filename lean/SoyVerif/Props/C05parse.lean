/-
  C05 (parser part): parsing any token list terminates; C19 (parser part): every error the
  parser reports is positioned at one of the tokens it was given.

  `parseFile pf (exprFuel items) items` is the model of `parse.SoyFile` on the items of the
  lexer (Model/FileParser.lean; tied to /repo/parse/parse.go by the C05parse correspondence:
  on the real lexer's tokens and composed with the lexer model).

  * `parse_total` — for EVERY token list (not only lexer output) the file parser never
    returns `fuelOut` with the fuel `fuelFor |items| = 8·|items| + 64` (and `exprFuel` for the
    embedded expression parser): every loop of parse.go consumes a real token per iteration
    or stops — including on the zero items of the closed channel.  Measure: `mu`, the number
    of tokens ahead (backed-up ones included) whose type is not `tInvalid`, `tEOF` or `tError`;
    each function needs at most `8·mu + 20` fuel (Lemmas/ParserExprSafe, FileParserLoops,
    FileParserBlocks).
  * `parse_err_at_token` — on ANY token list an error `err pos` is positioned at a token of the
    list or at the zero item (position 0): `t.errorf` only ever reads `t.token[0]`/`t.token[1]`.
  * `parse_err_at_lexed_token`, `lex_shape`, `parse_source_err_at_token` — on a token list of
    the lexer's shape (ends with its only EOF / Error item, no invalid item) the position is
    that of a token of the list, never 0:0 of the zero item; the lexer's lists have that shape.
  * `parse_no_panic_of_wf`, `lex_wf`, `parse_source_no_panic` — no Go runtime panic: the parser
    does not panic on tokens whose values are long enough for its slices, the lexer only sends
    such tokens, hence lexer ∘ parser never panics, on any input.
  * `parse_source_total` — the composition with the lexer model terminates for every input.
  * `leak`: `fileEntry` drains or consumes everything except after a runtime panic.
-/
import SoyVerif.Lemmas.FileParserBlocks

namespace SoyVerif.Props.C05
open SoyVerif SoyVerif.Model SoyVerif.Model.Parser SoyVerif.Model.FileParser SoyVerif.Lemmas.ParserSafe

/-- the nested lexer of parseQuotedExpr delivers tokens the parser can slice -/
def LexWF : Prop :=
  ∀ (str : Bytes) (is : List Item), Lex.lexAll str true = .items is → ∀ it ∈ is, WFItem it

/-- the shape the lexer gives a token stream (`lex_shape`): not empty, ends with an EOF or
    Error item, and no EOF, Error or invalid item before that -/
def LexShape (items : List Item) : Prop :=
  items ≠ [] ∧ (∀ x ∈ items.dropLast, real x = 1) ∧ (∀ x, items.getLast? = some x → valid x ∧ real x = 0)

/-- the run of the file parser's top loop satisfies the program logic's judgement; under `EL.eof`
    ("the EOF item is only ever the last item") a successful run has received every item;
    under `EL.lex` (`LexShape`) no error is positioned at the zero item of the closed channel -/
theorem top_safe (pf : Bytes → Option UInt64) (AP : Prop) (EL : Lvl) (S : Item → Prop) (hz : S Item.zero) (items : List Item)
    (hs : ∀ x ∈ items, S x) (hwf : ∀ it, S it → AP ∨ WFItem it)
    (hlex : ∀ (str : Bytes) (is : List Item), Lex.lexAll str true = .items is → ∀ it ∈ is, AP ∨ WFItem it)
    (hel : EL.eof → ∀ x ∈ items.dropLast, x.typ ≠ .tEOF) (hlx : EL.lex → LexShape items) :
    FSafe AP EL S (itemListLoop pf (exprFuel items) (FileParser.fuelFor items.length) [.tEOF] none .nil)
      { p := Parser.initState items } (fun r st' => listOK r ∧ (EL.eof → st'.p.rest = []) ∧ NP S r) := by
  have hmu := mu_init items
  have ih := fileSpecs_all AP EL S pf (exprFuel items) items.length hz
      (by unfold exprFuel Parser.fuelFor; omega) hwf hlex (8 * items.length + 63)
  have h := itemListLoop_ok0 AP EL S pf (exprFuel items) items.length hz
      (by unfold exprFuel Parser.fuelFor; omega) hwf hlex ih
      [.tEOF] none .nil { p := Parser.initState items } ⟨childrenOK_nil, NPL_nil, fun p h => by cases h⟩ (inv_init S items hz hs hel hlx) hmu
      (by show 8 * mu (Parser.initState items) + 20 ≤ _; omega)
  have hfu : FileParser.fuelFor items.length = 8 * items.length + 63 + 1 := rfl
  rw [hfu]
  apply h.mono
  intro r st' ⟨⟨hl, hnp⟩, hi, hpc, _, hu⟩
  refine ⟨hl, fun hEL => ?_, hnp⟩
  have hj := hi.2.1 hEL
  have ht : (top st'.p).typ = .tEOF := by simpa using hu
  unfold top at ht
  split at ht
  · exact hj.2.1 ht
  · exact hj.2.2 ht

/-- the file parser terminates on every token list -/
theorem parse_total (pf : Bytes → Option UInt64) (items : List Item) :
    parseFile pf (exprFuel items) items ≠ .error .fuelOut := by
  have h := top_safe pf True ⟨False, False⟩ (fun _ => True) trivial items (fun _ _ => trivial)
    (fun _ _ => Or.inl trivial) (fun _ _ _ _ _ => Or.inl trivial) (fun h => absurd h id) (fun h => absurd h id)
  unfold FSafe at h
  unfold parseFile
  simp only [StateT.run]
  intro hc
  split at hc
  · exact absurd hc (by simp)
  · exact absurd hc (by simp)
  · rename_i e he
    rw [he] at h
    simp only [Except.error.injEq] at hc
    subst hc
    exact h

/-- every parse error is positioned at a token of the list (or at the zero item).  `ErrAt it pos`: at
    the token's position — or, for stray text between the params of a {call} / the cases of a {switch}
    (reported through `atTextStart` since /repo ac1c871), at the first non-blank character of that Text
    token -/
theorem parse_err_at_token (pf : Bytes → Option UInt64) (items : List Item) (pos : Nat)
    (h : parseFile pf (exprFuel items) items = .error (.err pos)) :
    pos = 0 ∨ ∃ it ∈ items, ErrAt it pos := by
  have hsafe := top_safe pf True ⟨False, False⟩ (fun it => it ∈ items ∨ it = Item.zero) (Or.inr rfl) items (fun x hx => Or.inl hx)
    (fun _ _ => Or.inl trivial) (fun _ _ _ _ _ => Or.inl trivial) (fun h => absurd h id) (fun h => absurd h id)
  unfold FSafe at hsafe
  unfold parseFile at h
  simp only [StateT.run] at h
  split at h
  · exact absurd h (by simp)
  · exact absurd h (by simp)
  · rename_i e he
    rw [he] at hsafe
    simp only [Except.error.injEq] at h
    subst h
    obtain ⟨it, hit, hp⟩ := hsafe.1
    rcases hit with hm | hz
    · exact Or.inr ⟨it, hm, hp⟩
    · subst hz; exact Or.inl hp.zero

/-- on a token stream of the lexer's shape every parse error is positioned at one of ITS
    tokens — never at the zero item (position 0) that the closed channel yields: the parser
    stops at the EOF / Error item that ends the stream, and `unexpected` reports the position
    of the token it was given, not that of a look-ahead read since (/repo 518abbf) -/
theorem parse_err_at_lexed_token (pf : Bytes → Option UInt64) (items : List Item) (pos : Nat)
    (hshape : LexShape items)
    (h : parseFile pf (exprFuel items) items = .error (.err pos)) :
    ∃ it ∈ items, ErrAt it pos := by
  have hsafe := top_safe pf True ⟨False, True⟩ (fun it => it ∈ items ∨ it = Item.zero) (Or.inr rfl) items (fun x hx => Or.inl hx)
    (fun _ _ => Or.inl trivial) (fun _ _ _ _ _ => Or.inl trivial) (fun h => absurd h id) (fun _ => hshape)
  unfold FSafe at hsafe
  unfold parseFile at h
  simp only [StateT.run] at h
  split at h
  · exact absurd h (by simp)
  · exact absurd h (by simp)
  · rename_i e he
    rw [he] at hsafe
    simp only [Except.error.injEq] at h
    subst h
    obtain ⟨it, hit, hv, hp⟩ := hsafe.2 trivial
    rcases hit with hm | hz
    · exact ⟨it, hm, hp⟩
    · subst hz; exact absurd rfl hv

/-- no Go runtime panic in the file parser on well-formed tokens: the two-token array is never
    indexed out of range, no `tok.val[1:]` / `tok.val[2:]` slices an empty value, `rawtext`
    stays in bounds, and no type assertion of parsePlural / placeholderize fails -/
theorem parse_no_panic_of_wf (pf : Bytes → Option UInt64) (items : List Item)
    (hwf : ∀ it ∈ items, WFItem it) (hlex : LexWF) :
    parseFile pf (exprFuel items) items ≠ .error .panic := by
  have h := top_safe pf False ⟨False, False⟩ (fun it => it ∈ items ∨ it = Item.zero) (Or.inr rfl) items (fun x hx => Or.inl hx)
    (fun it hit => by
      rcases hit with h | h
      · exact Or.inr (hwf it h)
      · subst h; exact Or.inr wf_zero)
    (fun str is hl it hit => Or.inr (hlex str is hl it hit)) (fun h => absurd h id) (fun h => absurd h id)
  unfold FSafe at h
  unfold parseFile
  simp only [StateT.run]
  intro hc
  split at hc
  · exact absurd hc (by simp)
  · rename_i r st' hnl he
    rw [he] at h
    have h := h.1
    cases r <;> simp only [listOK] at h
    exact hnl _ _ rfl
  · rename_i e he
    rw [he] at h
    simp only [Except.error.injEq] at hc
    subst hc
    exact h

theorem wf_of_itemOK {it : Item} (h : Lex.itemOK it = true) : WFItem it := by
  simp only [Lex.itemOK, Lex.sliced1, Lex.sliced2, Bool.and_eq_true, Bool.or_eq_true, Bool.not_eq_true',
    decide_eq_true_eq, beq_eq_false_iff_ne, beq_iff_eq] at h
  replace h := h.1
  constructor
  · intro ht hv
    rcases h.1 with h1 | h1
    · rcases ht with ht | ht | ht <;> simp [ht] at h1
    · rw [hv] at h1; simp at h1
  · intro ht
    rcases h.2 with h2 | h2
    · rcases ht with ht | ht <;> simp [ht] at h2
    · exact h2

theorem mem_dropLast_or_last {α : Type} (xs : List α) (x : α) (h : x ∈ xs) :
    x ∈ xs.dropLast ∨ xs.getLast? = some x := by
  induction xs with
  | nil => simp at h
  | cons y r ih =>
    cases r with
    | nil => simp at h; right; simp [h]
    | cons z r' =>
      simp only [List.mem_cons] at h
      rcases h with rfl | h
      · left; simp [List.dropLast]
      · have := ih (by simpa using h)
        rcases this with h1 | h1
        · left; simp only [List.dropLast_cons₂, List.mem_cons]; exact Or.inr h1
        · right; simpa [List.getLast?_cons_cons] using h1

/-- every token the lexer model sends is long enough for the slices the parser takes of it -/
theorem lex_wf (input : Bytes) (exprMode : Bool) (is : List Item)
    (h : Lex.lexAll input exprMode = .items is) : ∀ it ∈ is, WFItem it := by
  obtain ⟨is', hl, ⟨e, hlast, hty⟩, _, hok, _⟩ := lex_items input exprMode
  rw [h] at hl
  simp only [Lex.LexResult.items.injEq] at hl
  subst hl
  intro it hit
  rcases mem_dropLast_or_last is it hit with h1 | h1
  · exact wf_of_itemOK (hok it h1)
  · rw [hlast] at h1
    simp only [Option.some.injEq] at h1
    subst h1
    constructor <;> intro ht <;> rcases hty with h | h <;> simp [h] at ht

/-- the EOF item is only ever the last item of the lexer -/
theorem lex_eof_last (input : Bytes) (exprMode : Bool) (is : List Item)
    (h : Lex.lexAll input exprMode = .items is) : ∀ it ∈ is.dropLast, it.typ ≠ .tEOF := by
  obtain ⟨is', hl, _, _, hok, _⟩ := lex_items input exprMode
  rw [h] at hl
  simp only [Lex.LexResult.items.injEq] at hl
  subst hl
  intro it hit
  have := hok it hit
  simp only [Lex.itemOK, Lex.notEnd, Bool.and_eq_true, bne_iff_ne, ne_eq] at this
  exact this.2.1.1

/-- the token stream of the lexer has the shape `LexShape`: it is not empty, its last item is
    the EOF item or an Error item, and no item before that is an EOF, Error or invalid item -/
theorem lex_shape (input : Bytes) (exprMode : Bool) (is : List Item)
    (h : Lex.lexAll input exprMode = .items is) : LexShape is := by
  obtain ⟨is', hl, ⟨last, hlast, hty⟩, _, hok, _⟩ := lex_items input exprMode
  rw [h] at hl
  simp only [Lex.LexResult.items.injEq] at hl
  subst hl
  refine ⟨?_, ?_, ?_⟩
  · intro he; rw [he] at hlast; simp at hlast
  · intro it hit
    have := hok it hit
    simp only [Lex.itemOK, Lex.notEnd, Bool.and_eq_true, bne_iff_ne, ne_eq] at this
    unfold real midT
    simp [this.2.1.1, this.2.1.2, this.2.2]
  · intro x hx
    rw [hlast] at hx
    simp only [Option.some.injEq] at hx
    subst hx
    unfold valid real midT
    rcases hty with h | h <;> simp [h]

theorem lexWF : LexWF := fun str is h => lex_wf str true is h

/-- lexer model ∘ parser model: no Go runtime panic on any input -/
theorem parse_source_no_panic (pf : Bytes → Option UInt64) (input : Bytes) :
    parseSource pf input ≠ .error .panic := by
  unfold parseSource
  obtain ⟨is, hl, _⟩ := lex_items input false
  rw [hl]
  exact parse_no_panic_of_wf pf is (lex_wf input false is hl) lexWF

/-- lexer model ∘ parser model terminates on every input -/
theorem parse_source_total (pf : Bytes → Option UInt64) (input : Bytes) :
    parseSource pf input ≠ .error .fuelOut := by
  unfold parseSource
  obtain ⟨is, hl, _⟩ := lex_items input false
  rw [hl]
  exact parse_total pf is

/-- lexer model ∘ parser model: every error is positioned at a token of the lexer — a parser
    error at the token `unexpected` was given or at the parser's current token, a lexical
    error at the Error item; never at the zero item that the closed channel yields.  (`ErrAt`: at the
    token's position, or at the first non-blank character of a stray Text token.) -/
theorem parse_source_err_at_token (pf : Bytes → Option UInt64) (input : Bytes) (pos : Nat)
    (h : parseSource pf input = .error (.err pos)) :
    ∃ is, Lex.lexAll input false = .items is ∧ ∃ it ∈ is, ErrAt it pos := by
  unfold parseSource at h
  obtain ⟨is, hl, _⟩ := lex_items input false
  rw [hl] at h
  exact ⟨is, hl, parse_err_at_lexed_token pf is pos (lex_shape input false is hl) h⟩

end SoyVerif.Props.C05
