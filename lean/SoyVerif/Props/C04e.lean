/-
  C04 — the converse direction for the command fragment of Props/C04d (partial): where the reference
  semantics renders a text, the emitted JavaScript does not THROW.

  `expr_no_throw`: if the JavaScript text of an expression of the fragment throws (a TypeError: a
  property of null / undefined, `.length` of null / undefined — the only errors of Spec/JsSemRef), then
  the specification does not give the Soy expression a value (it is an error there too, or open).
  `gen_complete_cmds_partial`: if `refCmds` renders the commands to `t`, then running the emitted
  statements from a related environment either completes — and then (Props/C04d) with the buffer
  holding the old content followed by `t` — or leaves the common subset (`unspec`: an inexact
  integer, a print of a list, fuel); it never throws.
-/
import SoyVerif.Props.C04d

namespace SoyVerif.Props.C04e
open SoyVerif SoyVerif.Model SoyVerif.Model.JsGen SoyVerif.Spec.JsSemRef SoyVerif.Spec.JsStmt
open SoyVerif.Spec.JsSem (JsOp exact)
open SoyVerif.Props.C04 (opOf)
open SoyVerif.Props.C04c (toAst accAst toJsV EnvRel fn1Of fn2Of Globals GlobalsAre IjRel GlobRel)

set_option linter.unusedSectionVars false

section Dev
variable [Globals] {ent : Spec.Eval.Binds}
open SoyVerif.Props.C04d
open SoyVerif.Spec.Eval (Val Out)

/-! ## expressions -/

theorem jbind_error {o : JOut} {f : JVal → JOut} (h : o.bind f = .error) :
    o = .error ∨ ∃ x, o = .val x ∧ f x = .error := by
  cases o with
  | val x => exact Or.inr ⟨x, rfl, h⟩
  | error => exact Or.inl rfl
  | unspec => cases h

theorem out_bind_not_val {α β : Type} {o : Out α} {f : α → Out β} (h : ∀ a, o ≠ .val a) : ∀ b, o.bind f ≠ .val b := by
  intro b hb
  cases o with
  | val a => exact h a rfl
  | error => cases hb
  | unspec => cases hb

theorem numRes_ne_error (i : Int) : numRes i ≠ .error := by
  unfold numRes; split <;> simp

theorem binop_ne_error (op : JsOp) (a b : JVal) : binop op a b ≠ .error := by
  intro h
  cases op <;> cases a <;> cases b <;> simp only [binop, numRes, isStr, toStr?, Bool.or_self, Bool.or_true, Bool.or_false,
    Bool.false_eq_true, if_false, if_true, reduceCtorEq] at h
  all_goals (repeat' (split at h)) <;> cases h

/-- an access on a base that corresponds: a TypeError in JavaScript is no value in the specification -/
theorem accAst_no_throw (env : SEnv) (jenv : JEnv) : ∀ (acc : AccessList) (x j : JsExpr) (base : Val) (jx : JVal),
    accAst acc x = some j → eval jenv x = .val jx → toJsV base = some jx → eval jenv j = .error →
    ∀ v, Spec.Eval.evalAcc env acc base ≠ .val v
  | .nil, x, j, base, jx, h, hx, _, he => by
    simp only [accAst, Option.some.injEq] at h; subst h
    rw [hx] at he; cases he
  | .cons (.key p ns k) rest, x, j, base, jx, h, hx, hb, he => by
    unfold accAst at h
    split at h
    · cases h
    · rename_i hk
      have hk' : k.isEmpty = false := by simpa using hk
      cases ns with
      | false =>
        simp only [Bool.false_eq_true, if_false] at h
        -- does the member access itself throw?
        cases hm : getMember jx k with
        | error =>
          intro v hv
          unfold Spec.Eval.evalAcc at hv
          cases jx <;> simp [getMember] at hm
          · have := C04c.toJsV_undefined hb; subst this
            simp [Spec.Eval.access] at hv
          · have := C04c.toJsV_null hb; subst this
            simp [Spec.Eval.access] at hv
        | val jm =>
          have hmem : eval jenv (.member x k) = .val jm := by unfold eval; rw [hx]; exact hm
          obtain ⟨v1, hacc, hv1⟩ := C04c.member_corr base jx jm k hk' hb hm
          intro v hv
          unfold Spec.Eval.evalAcc at hv
          simp only [hacc] at hv
          exact accAst_no_throw env jenv rest (.member x k) j v1 jm h hmem hv1 he v hv
        | unspec =>
          -- the rest is evaluated on `unspec`: the whole is `unspec`, not an error
          exfalso
          have hmem : eval jenv (.member x k) = .unspec := by unfold eval; rw [hx]; exact hm
          exact accAst_unspec jenv rest (.member x k) j h hmem he
      | true =>
        simp only [if_true] at h
        cases rest with
        | cons _ _ => cases h
        | nil =>
          simp only [Option.some.injEq] at h; subst h
          exfalso
          unfold eval at he
          rw [hx] at he
          simp only [JOut.bind] at he
          split at he
          · cases he
          · rename_i hn
            unfold eval at he
            rw [hx] at he
            simp only [JOut.bind] at he
            cases jx <;> simp [getMember, isNullish] at he hn
  | .cons (.index p ns i) rest, x, j, base, jx, h, hx, hb, he => by
    unfold accAst at h
    split at h
    · cases h
    · rename_i hi
      cases ns with
      | false =>
        simp only [Bool.false_eq_true, if_false] at h
        cases hm : getIndex jx i with
        | error =>
          intro v hv
          unfold Spec.Eval.evalAcc at hv
          cases jx <;> simp [getIndex, hi] at hm
          · have := C04c.toJsV_undefined hb; subst this
            simp [Spec.Eval.access] at hv
          · have := C04c.toJsV_null hb; subst this
            simp [Spec.Eval.access] at hv
        | val jm =>
          have hmem : eval jenv (.index x i) = .val jm := by unfold eval; rw [hx]; exact hm
          obtain ⟨v1, hacc, hv1⟩ := C04c.index_corr base jx jm i hi hb hm
          intro v hv
          unfold Spec.Eval.evalAcc at hv
          simp only [hacc] at hv
          exact accAst_no_throw env jenv rest (.index x i) j v1 jm h hmem hv1 he v hv
        | unspec =>
          exfalso
          have hmem : eval jenv (.index x i) = .unspec := by unfold eval; rw [hx]; exact hm
          exact accAst_unspec jenv rest (.index x i) j h hmem he
      | true =>
        simp only [if_true] at h
        cases rest with
        | cons _ _ => cases h
        | nil =>
          simp only [Option.some.injEq] at h; subst h
          exfalso
          unfold eval at he
          rw [hx] at he
          simp only [JOut.bind] at he
          split at he
          · cases he
          · rename_i hn
            unfold eval at he
            rw [hx] at he
            simp only [JOut.bind] at he
            cases jx <;> simp [getIndex, isNullish, hi] at he hn
  | .cons (.expr _ _ _) _, _, _, _, _, h, _, _, _ => by simp [accAst] at h
where
  /-- accesses on an `unspec` base stay `unspec` -/
  accAst_unspec (jenv : JEnv) : ∀ (acc : AccessList) (x j : JsExpr), accAst acc x = some j → eval jenv x = .unspec →
      eval jenv j = .error → False
    | .nil, x, j, h, hx, he => by
      simp only [accAst, Option.some.injEq] at h; subst h
      rw [hx] at he; cases he
    | .cons (.key p ns k) rest, x, j, h, hx, he => by
      unfold accAst at h
      split at h
      · cases h
      · cases ns with
        | false =>
          simp only [Bool.false_eq_true, if_false] at h
          exact accAst_unspec jenv rest (.member x k) j h (by unfold eval; rw [hx]; rfl) he
        | true =>
          simp only [if_true] at h
          cases rest with
          | cons _ _ => cases h
          | nil =>
            simp only [Option.some.injEq] at h; subst h
            unfold eval at he
            rw [hx] at he
            cases he
    | .cons (.index p ns i) rest, x, j, h, hx, he => by
      unfold accAst at h
      split at h
      · cases h
      · cases ns with
        | false =>
          simp only [Bool.false_eq_true, if_false] at h
          exact accAst_unspec jenv rest (.index x i) j h (by unfold eval; rw [hx]; rfl) he
        | true =>
          simp only [if_true] at h
          cases rest with
          | cons _ _ => cases h
          | nil =>
            simp only [Option.some.injEq] at h; subst h
            unfold eval at he
            rw [hx] at he
            cases he
    | .cons (.expr _ _ _) _, _, _, h, _, _ => by simp [accAst] at h

theorem apply1_error {f : Fn1} {ja : JVal} (h : apply1 f ja = .error) : f = .length ∧ (ja = .undefined ∨ ja = .null) := by
  cases f <;> cases ja <;> simp [apply1, numRes] at h <;> first | exact ⟨rfl, Or.inl rfl⟩ | exact ⟨rfl, Or.inr rfl⟩ | (split at h <;> cases h)

theorem apply2_ne_error (f : Fn2) (a b : JVal) : apply2 f a b ≠ .error := by
  cases f <;> cases a <;> cases b <;> simp [apply2]

theorem bind_const_ne_error {o : JOut} {b : JVal} (h : o ≠ .error) : (o.bind fun _ => JOut.val b) ≠ .error := by
  cases o <;> simp [JOut.bind] at h ⊢

/-- the loop tests compare numeric variables: they do not throw -/
theorem loop_ne_error {jenv : JEnv} (sc : Scope) (name : Bytes) (args : ExprList) (j : JsExpr)
    (h : C04c.loopAst sc name args = some j) : eval jenv j ≠ .error := by
  cases args with
  | nil => simp [C04c.loopAst] at h
  | cons a r =>
    cases r with
    | cons _ _ => cases a <;> simp [C04c.loopAst] at h
    | nil =>
      cases a with
      | dataRef dp key acc =>
        cases acc with
        | cons _ _ => simp [C04c.loopAst] at h
        | nil =>
          simp only [C04c.loopAst] at h
          split at h
          · simp only [Option.map_eq_some_iff] at h
            obtain ⟨idx, _, rfl⟩ := h
            simp only [eval]
            split <;> simp
          · split at h
            · simp only [Option.map_eq_some_iff] at h
              obtain ⟨idx, _, rfl⟩ := h
              simp only [eval]
              split <;> simp
            · cases hf : Scope.loopFrame sc.stack key with
              | none => simp [hf] at h
              | some f =>
                simp only [hf, Option.bind_some, C04c.lastAst] at h
                split at h
                · split at h
                  · simp only [Option.some.injEq] at h; subst h
                    simp only [eval]
                    split
                    · exact bind_const_ne_error (numRes_ne_error _)
                    · simp
                  · cases h
                · split at h
                  · simp only [Option.some.injEq] at h; subst h
                    simp only [eval]
                    split
                    · exact bind_const_ne_error (numRes_ne_error _)
                    · simp
                  · cases h
      | _ => simp [C04c.loopAst] at h

/-- PARTIAL (C04, converse at the expression level): under the environment relation, if the JavaScript
    text of an expression of the fragment THROWS, the specification gives the expression no value. -/
theorem expr_no_throw (sc : Scope) (env : SEnv) (jenv : JEnv) (hrel : EnvRel ent sc env jenv) :
    ∀ (e : Expr) (j : JsExpr), toAst sc e = some j → eval jenv j = .error → ∀ v, Spec.Eval.eval env e ≠ .val v
  | .null _, j, h, hj => by
    simp only [toAst, Option.some.injEq] at h; subst h
    simp [eval] at hj
  | .bool _ b, j, h, hj => by
    simp only [toAst, Option.some.injEq] at h; subst h
    simp [eval] at hj
  | .int _ v, j, h, hj => by
    simp only [toAst, Option.some.injEq] at h; subst h
    unfold eval at hj
    split at hj <;> cases hj
  | .str _ _ v, j, h, hj => by
    simp only [toAst, Option.some.injEq] at h; subst h
    simp [eval] at hj
  | .float _ _, _, h, _ => by simp [toAst] at h
  | .global _ name, j, h, hj => by
    unfold toAst at h
    cases hg : assocGet? Globals.tbl name with
    | none => simp [hg] at h
    | some v =>
      simp only [hg] at h
      cases v <;> simp only [C04c.globalAst, Option.some.injEq, reduceCtorEq] at h <;> subst h <;> unfold eval at hj
      · cases hj
      · cases hj
      · split at hj <;> cases hj
      · cases hj
  | .list _ _, _, h, _ => by simp [toAst] at h
  | .map _ _, _, h, _ => by simp [toAst] at h
  | .neg _ a, j, h, hj => by
    simp only [toAst, Option.map_eq_some_iff] at h
    obtain ⟨ja, ha, rfl⟩ := h
    unfold eval at hj
    rcases jbind_error hj with hea | ⟨x, _, hx⟩
    · have := expr_no_throw sc env jenv hrel a ja ha hea
      simp only [Spec.Eval.eval]
      exact out_bind_not_val this
    · cases x <;> simp at hx
      exact absurd hx (numRes_ne_error _)
  | .not _ a, j, h, hj => by
    simp only [toAst, Option.map_eq_some_iff] at h
    obtain ⟨ja, ha, rfl⟩ := h
    unfold eval at hj
    rcases jbind_error hj with hea | ⟨x, _, hx⟩
    · have := expr_no_throw sc env jenv hrel a ja ha hea
      simp only [Spec.Eval.eval]
      exact out_bind_not_val this
    · cases hx
  | .tern _ c a b, j, h, hj => by
    unfold toAst at h
    cases hjc : toAst sc c with
    | none => simp [hjc] at h
    | some jc =>
      cases hja : toAst sc a with
      | none => simp [hjc, hja] at h
      | some ja =>
        cases hjb : toAst sc b with
        | none => simp [hjc, hja, hjb] at h
        | some jb =>
          simp only [hjc, hja, hjb, Option.some.injEq] at h
          subst h
          unfold eval at hj
          simp only [Spec.Eval.eval]
          rcases jbind_error hj with hec | ⟨vc, hec, hx⟩
          · exact out_bind_not_val (expr_no_throw sc env jenv hrel c jc hjc hec)
          · obtain ⟨v, hv, hvj⟩ := C04c.gen_correct_refs_partial sc env jenv hrel c jc vc hjc hec
            have ht := C04c.truthy_toBoolean v vc hvj
            rw [hv]
            simp only [Spec.Eval.Out.bind, ht]
            split at hx
            · rename_i htb
              simp only [htb, if_true]
              exact expr_no_throw sc env jenv hrel a ja hja hx
            · rename_i htb
              simp only [htb, if_false]
              exact expr_no_throw sc env jenv hrel b jb hjb hx
  | .bin op _ a b, j, h, hj => by
    unfold toAst at h
    cases hja : toAst sc a with
    | none => cases op <;> simp [hja] at h
    | some ja =>
      cases hjb : toAst sc b with
      | none => cases op <;> simp [hja, hjb] at h
      | some jb =>
        have iha := expr_no_throw sc env jenv hrel a ja hja
        have ihb := expr_no_throw sc env jenv hrel b jb hjb
        have sa := fun va => C04c.gen_correct_refs_partial sc env jenv hrel a ja va hja
        cases hop : opOf op with
        | none =>
          cases op <;> simp [opOf] at hop
          · simp [hja, hjb, opOf] at h
          · -- elvis
            simp only [hja, hjb, Option.some.injEq] at h
            subst h
            unfold eval at hj
            simp only [Spec.Eval.eval]
            rcases jbind_error hj with hea | ⟨va, hea, hx⟩
            · exact out_bind_not_val (iha hea)
            · obtain ⟨v, hv, hvj⟩ := sa va hea
              rw [hv]
              simp only [Spec.Eval.Out.bind]
              by_cases hn : isNullish va = true
              · simp only [hn, if_true] at hx
                rcases (C04c.nullish_iff hvj).mp hn with rfl | rfl <;> exact ihb hx
              · simp only [hn, Bool.false_eq_true, if_false] at hx
                rw [hea] at hx
                cases hx
        | some jo =>
          by_cases hand : jo = .and
          · subst hand
            cases op <;> simp [opOf] at hop
            simp only [hja, hjb, opOf, Option.some.injEq] at h
            subst h
            unfold eval at hj
            simp only [Spec.Eval.eval]
            rcases jbind_error hj with hea | ⟨va, hea, hx⟩
            · exact out_bind_not_val (iha hea)
            · obtain ⟨v, hv, hvj⟩ := sa va hea
              rw [hv]
              simp only [Spec.Eval.Out.bind]
              cases va <;> simp at hx
              rename_i x
              have := C04c.toJsV_bool hvj
              subst this
              cases x with
              | false => simp at hx
              | true =>
                simp only at hx
                rcases jbind_error hx with heb | ⟨vb, _, hy⟩
                · simp only [Spec.Eval.truthy, if_true]
                  exact out_bind_not_val (ihb heb)
                · cases vb <;> simp at hy
          · by_cases hor : jo = .or
            · subst hor
              cases op <;> simp [opOf] at hop
              simp only [hja, hjb, opOf, Option.some.injEq] at h
              subst h
              unfold eval at hj
              simp only [Spec.Eval.eval]
              rcases jbind_error hj with hea | ⟨va, hea, hx⟩
              · exact out_bind_not_val (iha hea)
              · obtain ⟨v, hv, hvj⟩ := sa va hea
                rw [hv]
                simp only [Spec.Eval.Out.bind]
                cases va <;> simp at hx
                rename_i x
                have := C04c.toJsV_bool hvj
                subst this
                cases x with
                | true => simp at hx
                | false =>
                  simp only at hx
                  rcases jbind_error hx with heb | ⟨vb, _, hy⟩
                  · simp only [Spec.Eval.truthy, Bool.false_eq_true, if_false]
                    exact out_bind_not_val (ihb heb)
                  · cases vb <;> simp at hy
            · have hstrict : eval jenv (.bin jo ja jb) =
                  (eval jenv ja).bind fun va => (eval jenv jb).bind fun vb => binop jo va vb := by
                cases jo <;> first | rfl | exact absurd rfl hand | exact absurd rfl hor
              have hj' : eval jenv (.bin jo ja jb) = .error := by
                cases op <;> simp [opOf] at hop <;> subst hop <;>
                  (simp only [hja, hjb, opOf, Option.some.injEq] at h; subst h; exact hj)
              rw [hstrict] at hj'
              have hspec : Spec.Eval.eval env (.bin op 0 a b) =
                  (Spec.Eval.eval env a).bind fun va => (Spec.Eval.eval env b).bind fun vb => Spec.Eval.binop op va vb := by
                cases op <;> simp [opOf] at hop <;> first
                  | exact absurd hop.symm hand
                  | exact absurd hop.symm hor
                  | simp [Spec.Eval.eval]
              intro v hv
              have hv' : ((Spec.Eval.eval env a).bind fun va => (Spec.Eval.eval env b).bind fun vb => Spec.Eval.binop op va vb) = .val v := by
                rw [← hspec]
                cases op <;> simp [opOf] at hop <;> first
                  | exact absurd hop.symm hand
                  | exact absurd hop.symm hor
                  | (simp only [Spec.Eval.eval] at hv ⊢; exact hv)
              rcases jbind_error hj' with hea | ⟨va, hea, hx⟩
              · exact out_bind_not_val (iha hea) v hv'
              · obtain ⟨v1, hv1, _⟩ := sa va hea
                rw [hv1] at hv'
                simp only [Spec.Eval.Out.bind] at hv'
                rcases jbind_error hx with heb | ⟨vb, _, hy⟩
                · exact out_bind_not_val (ihb heb) v hv'
                · exact binop_ne_error _ _ _ hy
  | .dataRef dpos key acc, j, h, hj => by
    unfold toAst at h
    split at h
    · rename_i hkij
      simp only [Option.map_eq_some_iff] at h
      obtain ⟨j0, hacc, rfl⟩ := h
      have hj0 : eval jenv j0 = .error := by
        cases hns : anyNullSafe acc <;> simp only [hns, Bool.false_eq_true, if_false, if_true] at hj
        · exact hj
        · unfold eval at hj; exact hj
      have hk : (key == Spec.Eval.sIj) = true := by simpa [C04c.sIj, Spec.Eval.sIj] using hkij
      have hir := hrel.2.2.2.1
      unfold IjRel at hir
      cases hij : env.ij with
      | none => intro v; simp [Spec.Eval.eval, hk, hij]
      | some kvs =>
        simp only [hij] at hir
        obtain ⟨jk, hjk, hje⟩ := hir
        have hspec : Spec.Eval.eval env (.dataRef dpos key acc) = Spec.Eval.evalAcc env acc (.map kvs) := by
          simp [Spec.Eval.eval, hk, hij]
        rw [hspec]
        exact accAst_no_throw env jenv acc .ijData j0 (.map kvs) (.obj jk) hacc (by simp [eval, hje]) (by simp [C04c.toJsV, hjk]) hj0
    split at h
    · cases h
    · rename_i hij
      simp only [Option.map_eq_some_iff] at h
      obtain ⟨j0, hacc, rfl⟩ := h
      have hj0 : eval jenv j0 = .error := by
        cases hns : anyNullSafe acc <;> simp only [hns, Bool.false_eq_true, if_false, if_true] at hj
        · exact hj
        · unfold eval at hj; exact hj
      have hij1 : ¬ ((key == C04c.sIj) = true) := fun hh => hij (by simp [hh])
      have hdollar : key.contains 36 = false := by
        cases hc : key.contains 36 with
        | false => rfl
        | true => exact absurd (by rw [hc]; simp) hij
      have hkey : key ≠ C04c.sIj := by simpa using hij1
      have hspec : Spec.Eval.eval env (.dataRef dpos key acc) = Spec.Eval.evalAcc env acc (env.lookup key) := by
        have : (key == Spec.Eval.sIj) = false := by simpa [C04c.sIj, Spec.Eval.sIj] using hij1
        simp [Spec.Eval.eval, this]
      rw [hspec]
      have hr := hrel.1 key hkey hdollar
      cases hl : sc.lookup key with
      | none =>
        simp only [hl] at hr hacc
        exact accAst_no_throw env jenv acc (.optData key) j0 (env.lookup key) _ hacc (by simp [eval]) hr hj0
      | some g =>
        simp only [hl] at hr hacc
        obtain ⟨kv, hfind, hkv⟩ := hr
        exact accAst_no_throw env jenv acc (.local g) j0 (env.lookup key) kv.2 hacc (by simp [eval, hfind]) hkv hj0
  | .func p name args, j, h, hj => by
    unfold toAst at h
    split at h
    · exact absurd hj (loop_ne_error sc name args j h)
    cases args with
    | nil => simp at h
    | cons a r =>
      cases r with
      | nil =>
        simp only at h
        cases hf : fn1Of name with
        | none => simp [hf] at h
        | some f1 =>
          cases hja : toAst sc a with
          | none => simp [hf, hja] at h
          | some ja =>
            simp only [hf, hja, Option.some.injEq] at h
            subst h
            unfold eval at hj
            have hloop := C04c.isLoopFn_fn1 hf
            intro v hv
            simp only [Spec.Eval.eval, hloop, Bool.false_eq_true, if_false, Spec.Eval.evalList] at hv
            rcases jbind_error hj with hea | ⟨va, hea, hx⟩
            · exact out_bind_not_val (out_bind_not_val (expr_no_throw sc env jenv hrel a ja hja hea)) v hv
            · obtain ⟨w, hw, hwj⟩ := C04c.gen_correct_refs_partial sc env jenv hrel a ja va hja hea
              obtain ⟨rfl, hnull⟩ := apply1_error hx
              have hname : name = C04c.sLength := by
                unfold fn1Of at hf
                repeat (first | (split at hf; (first | (rename_i hn; have := C04c.beq_true_eq hn; subst this; first | rfl | cases hf) )) | cases hf)
              subst hname
              rw [hw] at hv
              simp only [Spec.Eval.Out.bind] at hv
              rcases hnull with rfl | rfl
              · have := C04c.toJsV_undefined hwj; subst this
                simp [C04c.applyFn_length] at hv
              · have := C04c.toJsV_null hwj; subst this
                simp [C04c.applyFn_length] at hv
      | cons b r2 =>
        cases r2 with
        | cons _ _ => simp at h
        | nil =>
          simp only at h
          cases hf : fn2Of name with
          | none => simp [hf] at h
          | some f2 =>
            cases hja : toAst sc a with
            | none => simp [hf, hja] at h
            | some ja =>
              cases hjb : toAst sc b with
              | none => simp [hf, hja, hjb] at h
              | some jb =>
                simp only [hf, hja, hjb, Option.some.injEq] at h
                subst h
                unfold eval at hj
                have hloop := C04c.isLoopFn_fn2 hf
                intro v hv
                simp only [Spec.Eval.eval, hloop, Bool.false_eq_true, if_false, Spec.Eval.evalList] at hv
                rcases jbind_error hj with hea | ⟨va, hea, hx⟩
                · exact out_bind_not_val (out_bind_not_val (expr_no_throw sc env jenv hrel a ja hja hea)) v hv
                · obtain ⟨w, hw, _⟩ := C04c.gen_correct_refs_partial sc env jenv hrel a ja va hja hea
                  rw [hw] at hv
                  simp only [Spec.Eval.Out.bind] at hv
                  rcases jbind_error hx with heb | ⟨vb, _, hy⟩
                  · exact out_bind_not_val (out_bind_not_val (out_bind_not_val (expr_no_throw sc env jenv hrel b jb hjb heb))) v hv
                  · exact apply2_ne_error _ _ _ hy

/-! ## statements -/

theorem withVal_error {o : JOut} {k : JVal → SRes} (h : withVal o k = .error) : o = .error ∨ ∃ v, o = .val v ∧ k v = .error := by
  cases o with
  | val v => exact Or.inr ⟨v, rfl, h⟩
  | error => exact Or.inl rfl
  | unspec => cases h

theorem sres_bind_error {r : SRes} {k : JEnv → SRes} (h : r.bind k = .error) : r = .error ∨ ∃ e1, r = .ok e1 ∧ k e1 = .error := by
  cases r with
  | ok e1 => exact Or.inr ⟨e1, rfl, h⟩
  | error => exact Or.inl rfl
  | unspec => cases h

theorem appendTo_ne_error {buf : Bytes} {jenv : JEnv} {out : Bytes} (hb : BufIs buf jenv out) (v : JVal) :
    appendTo jenv buf v ≠ .error := by
  intro h
  unfold appendTo at h
  have he : eval jenv (.local buf) = .val (.str out) := by
    unfold BufIs at hb
    simp [eval, hb]
  rw [he] at h
  rcases withVal_error h with h | ⟨_, _, h⟩
  · cases h
  · rcases withVal_error h with h | ⟨_, _, h⟩
    · exact binop_ne_error _ _ _ h
    · cases h

section
variable (F : Bytes → List Expr → JVal → JOut) (G : Callee)

theorem applyCalls_unspec : ∀ (ds : List Directive), applyCalls F ds .unspec = .unspec
  | [] => rfl
  | d :: ds => by
    show applyCalls F ds (JOut.unspec.bind (F d.name d.args)) = .unspec
    exact applyCalls_unspec ds

theorem applyCalls_error_in : ∀ (ds : List Directive), applyCalls F ds .error = .error
  | [] => rfl
  | d :: ds => by
    show applyCalls F ds (JOut.error.bind (F d.name d.args)) = .error
    exact applyCalls_error_in ds

variable (R : RefCtx) (ae : Autoescape) (buf : Bytes)

def CmdNe (c : Cmd) : Prop :=
  ∀ (fuel : Nat) (sc : Scope) (r : JsStmts × Scope) (env : SEnv) (jenv : JEnv) (out : Bytes),
    toCmd ae buf c sc = some r → ScOk sc → GoodBuf sc buf → EnvRel R.entry sc env jenv → BufIs buf jenv out →
    execStmts F G fuel r.1 jenv = .error → ∀ x, refCmd F R ae c env ≠ .val x

def BlockNe (b : Block) : Prop :=
  ∀ (fuel : Nat) (sc : Scope) (r : JsStmts × Scope) (env : SEnv) (jenv : JEnv) (out : Bytes),
    toBlock ae buf b sc = some r → ScOk sc → GoodBuf sc buf → EnvRel R.entry sc env jenv → BufIs buf jenv out →
    execStmts F G fuel r.1 jenv = .error → ∀ x, refBlock F R ae b env ≠ .val x

def BodyNe (b : Block) : Prop :=
  ∀ (fuel : Nat) (sc : Scope) (r : JsStmts × Scope) (env : SEnv) (jenv : JEnv) (out : Bytes),
    toBody ae buf b sc = some r → ScOk sc → GoodBuf sc buf → EnvRel R.entry sc env jenv → BufIs buf jenv out →
    execStmts F G fuel r.1 jenv = .error → ∀ x, refBlock F R ae b env ≠ .val x

def CmdsNe (cs : CmdList) : Prop :=
  ∀ (fuel : Nat) (sc : Scope) (r : JsStmts × Scope) (env : SEnv) (jenv : JEnv) (out : Bytes),
    toCmds ae buf cs sc = some r → ScOk sc → GoodBuf sc buf → EnvRel R.entry sc env jenv → BufIs buf jenv out →
    execStmts F G fuel r.1 jenv = .error → ∀ x, refCmds F R ae cs env ≠ .val x

def CondsNe (cs : CondList) : Prop :=
  ∀ (fuel : Nat) (sc : Scope) (r : JsConds × Scope) (env : SEnv) (jenv : JEnv) (out : Bytes),
    toConds ae buf cs sc = some r → ScOk sc → GoodBuf sc buf → EnvRel R.entry sc env jenv → BufIs buf jenv out →
    execConds F G fuel r.1 jenv = .error → ∀ x, refConds F R ae cs env ≠ .val x

def CasesNe (cs : CaseList) : Prop :=
  ∀ (fuel : Nat) (sc : Scope) (r : JsCases × Scope) (env : SEnv) (jenv : JEnv) (out : Bytes) (sv : Val) (jv : JVal),
    toCases ae buf cs sc = some r → ScOk sc → GoodBuf sc buf → EnvRel R.entry sc env jenv → BufIs buf jenv out → toJsV sv = some jv →
    execCases F G fuel r.1 jv jenv = .error → ∀ x, refCases F R ae cs sv env ≠ .val x

theorem rawText_ne (p : Nat) (t : Bytes) : CmdNe F G R ae buf (.rawText p t) := by
  intro fuel sc r env jenv out h hs hg hrel hb hx
  simp only [toCmd, Option.some.injEq] at h; subst h
  rw [execStmts_one] at hx
  simp only [execStmt] at hx
  exact absurd hx (appendTo_ne_error hb _)

theorem print_ne (p : Nat) (arg : Expr) (dirs : List Directive) : CmdNe F G R ae buf (.print p arg dirs) := by
  intro fuel sc r env jenv out h hs hg hrel hb hx
  unfold toCmd at h
  split at h
  · rename_i hok
    split at h
    · rename_i j ck hj hc
      simp only [Option.some.injEq] at h; subst h
      rw [execStmts_one] at hx
      simp only [execStmt] at hx
      simp only [refCmd]
      rcases withVal_error hx with hx | ⟨v, _, hx⟩
      · cases hjv : eval jenv j with
        | error => exact out_bind_not_val (expr_no_throw sc env jenv hrel arg j hj hjv)
        | unspec => rw [hjv, applyCalls_unspec] at hx; cases hx
        | val jv =>
          obtain ⟨v, hv, hvj⟩ := C04c.gen_correct_refs_partial sc env jenv hrel arg j jv hj hjv
          have hgo := applyCalls_goPrint F ae dirs ck hc hok (.val jv)
          rw [hjv] at hx
          rw [hx] at hgo
          intro x hxv
          simp [hv, Spec.Eval.Out.bind, refPrint, refPrintJs, hvj, hgo] at hxv
      · exact absurd hx (appendTo_ne_error hb _)
    · cases h
  · cases h

theorem letValue_ne (p : Nat) (x : Bytes) (e : Expr) : CmdNe F G R ae buf (.letValue p x e) := by
  intro fuel sc r env jenv out h hs hg hrel hb hx
  unfold toCmd at h
  split at h
  · cases h
  · split at h
    · rename_i j hj
      simp only [Option.some.injEq] at h; subst h
      rw [execStmts_one] at hx
      simp only [execStmt] at hx
      simp only [refCmd]
      rcases withVal_error hx with hx | ⟨v, _, hx⟩
      · exact out_bind_not_val (expr_no_throw sc env jenv hrel e j hj hx)
      · cases hx
    · cases h

theorem ifc_ne (p : Nat) (conds : CondList) (ih : CondsNe F G R ae buf conds) : CmdNe F G R ae buf (.ifc p conds) := by
  intro fuel sc r env jenv out h hs hg hrel hb hx
  unfold toCmd at h
  split at h
  · rename_i rc hrc
    simp only [Option.some.injEq] at h; subst h
    rw [execStmts_one] at hx
    simp only [execStmt] at hx
    simp only [refCmd]
    exact out_bind_not_val (ih fuel sc rc env jenv out hrc hs hg hrel hb hx)
  · cases h

theorem block_ne (p : Nat) (cmds : CmdList) (ih : CmdsNe F G R ae buf cmds) : BlockNe F G R ae buf (.mk p cmds) := by
  intro fuel sc r env jenv out h hs hg hrel hb hx
  unfold toBlock at h
  split at h
  · rename_i rc hrc
    simp only [Option.some.injEq] at h; subst h
    have hrel' : EnvRel R.entry sc.push env jenv := envRel_push hrel
    simp only [refBlock]
    exact ih fuel sc.push rc env jenv out hrc (scOk_push hs.2) (goodBuf_push hg) hrel' hb hx
  · cases h

theorem body_ne (p : Nat) (cmds : CmdList) (ih : CmdsNe F G R ae buf cmds) : BodyNe F G R ae buf (.mk p cmds) := by
  intro fuel sc r env jenv out h hs hg hrel hb hx
  unfold toBody at h
  simp only [refBlock]
  exact ih fuel sc r env jenv out h hs hg hrel hb hx

theorem cmds_nil_ne : CmdsNe F G R ae buf .nil := by
  intro fuel sc r env jenv out h hs hg hrel hb hx
  simp only [toCmds, Option.some.injEq] at h; subst h
  simp [execStmts] at hx

theorem conds_nil_ne : CondsNe F G R ae buf .nil := by
  intro fuel sc r env jenv out h hs hg hrel hb hx
  simp only [toConds, Option.some.injEq] at h; subst h
  simp [execConds] at hx

theorem conds_some_ne (p : Nat) (c : Expr) (body : Block) (rest : CondList) (ih1 : BlockNe F G R ae buf body)
    (ih2 : CondsNe F G R ae buf rest) : CondsNe F G R ae buf (.cons p (some c) body rest) := by
  intro fuel sc r env jenv out h hs hg hrel hb hx
  unfold toConds at h
  simp only at h
  split at h
  · rename_i j rb hj hbk
    split at h
    · rename_i rr hr
      simp only [Option.some.injEq] at h; subst h
      simp only [execConds] at hx
      simp only [refConds]
      rcases withVal_error hx with hx | ⟨jv, hjv, hx⟩
      · exact out_bind_not_val (expr_no_throw sc env jenv hrel c j hj hx)
      · obtain ⟨v, hv, hvj⟩ := C04c.gen_correct_refs_partial sc env jenv hrel c j jv hj hjv
        have htr := C04c.truthy_toBoolean v jv hvj
        rw [hv]
        simp only [Spec.Eval.Out.bind, htr]
        by_cases hc : toBoolean jv = true
        · simp only [hc, if_true] at hx ⊢
          exact ih1 fuel sc rb env jenv out hbk hs hg hrel hb hx
        · simp only [hc, Bool.false_eq_true, if_false] at hx ⊢
          obtain ⟨a1, a2⟩ := toBlock_scope ae body buf sc rb hbk hs
          exact ih2 fuel rb.2 rr env jenv out hr (scOk_of_stack hs a1 a2) (goodBuf_of_stack hg a1 a2) (envRel_stack hrel a1) hb hx
    · cases h
  · cases h

theorem conds_else_ne (p : Nat) (body : Block) (rest : CondList) (ih1 : BlockNe F G R ae buf body) :
    CondsNe F G R ae buf (.cons p none body rest) := by
  intro fuel sc r env jenv out h hs hg hrel hb hx
  unfold toConds at h
  simp only at h
  split at h
  · rename_i rb hbk
    simp only [Option.some.injEq] at h; subst h
    simp only [execConds] at hx
    simp only [refConds]
    exact ih1 fuel sc rb env jenv out hbk hs hg hrel hb hx
  · cases h


theorem cmds_cons_ne (hG : CallRel G R) (c : Cmd) (rest : CmdList) (ih1 : CmdNe F G R ae buf c) (ih2 : CmdsNe F G R ae buf rest) :
    CmdsNe F G R ae buf (.cons c rest) := by
  intro fuel sc r env jenv out h hs hg hrel hb hx
  unfold toCmds at h
  split at h
  · cases h
  · rename_i r1 h1
    split at h
    · cases h
    · rename_i r2 h2
      simp only [Option.some.injEq] at h; subst h
      rw [execStmts_append] at hx
      simp only [refCmds]
      rcases sres_bind_error hx with hx | ⟨e1, hx1, hx2⟩
      · exact out_bind_not_val (ih1 fuel sc r1 env jenv out h1 hs hg hrel hb hx)
      · obtain ⟨t1, env1, ht1, hrel1, hb1, _⟩ := cmd_ok F G R ae hG c buf fuel sc r1 env jenv e1 out h1 hs hg hrel hb hx1
        obtain ⟨a1, _, _⟩ := toCmd_scope ae c buf sc r1 h1 hs
        rw [ht1]
        simp only [Spec.Eval.Out.bind]
        exact out_bind_not_val (ih2 fuel r1.2 r2 env1 e1 (out ++ t1) h2 a1 (toCmd_good ae c buf sc r1 h1 hs buf hg) hrel1 hb1 hx2)

/-! ### switch -/

/-- a label that throws: `matchAny` has no value -/
theorem matchLabels_error {sc : Scope} {env : SEnv} {jenv : JEnv} (hrel : EnvRel ent sc env jenv) {sv : Val} {jv : JVal}
    (hsv : toJsV sv = some jv) : ∀ (values : List Expr) (js : List JsExpr), astList sc values = some js →
    matchLabels jenv jv js = some (.inl .error) → ∀ b, Spec.Eval.matchAny env sv values ≠ .val b
  | [], js, h, hm => by
    simp only [astList, Option.some.injEq] at h; subst h
    simp [matchLabels] at hm
  | v :: r, js, h, hm => by
    unfold astList at h
    cases hj : toAst sc v with
    | none => simp [hj] at h
    | some j =>
      cases hr : astList sc r with
      | none => simp [hj, hr] at h
      | some jr =>
        simp only [hj, hr, Option.some.injEq] at h; subst h
        unfold matchLabels at hm
        simp only [Spec.Eval.matchAny]
        cases hw : eval jenv j with
        | val w =>
          simp only [hw] at hm
          obtain ⟨vw, hvw, hvwj⟩ := C04c.gen_correct_refs_partial sc env jenv hrel v j w hj hw
          rw [hvw]
          simp only [Spec.Eval.Out.bind]
          cases hse : strictEq jv w with
          | none => simp [hse] at hm
          | some c =>
            rw [strictEq_corr hsv hvwj hse]
            cases c with
            | true => simp [hse] at hm
            | false =>
              simp only [hse] at hm
              simp only [Bool.false_eq_true, if_false]
              exact matchLabels_error hrel hsv r jr hr hm
        | error => exact out_bind_not_val (expr_no_throw sc env jenv hrel v j hj hw)
        | unspec => simp [hw] at hm

theorem cases_nil_ne : CasesNe F G R ae buf .nil := by
  intro fuel sc r env jenv out sv jv h hs hg hrel hb hsv hx
  simp only [toCases, Option.some.injEq] at h; subst h
  simp [execCases] at hx

theorem cases_cons_ne (p : Nat) (values : List Expr) (body : Block) (rest : CaseList) (ih1 : BlockNe F G R ae buf body)
    (ih2 : CasesNe F G R ae buf rest) : CasesNe F G R ae buf (.cons p values body rest) := by
  intro fuel sc r env jenv out sv jv h hs hg hrel hb hsv hx
  unfold toCases at h
  obtain ⟨rbv, hrb, hc⟩ := caseJoin_some h
  rcases hc with ⟨rfl, _, rfl⟩ | ⟨hne, js, rr, hjs, hrr, rfl⟩
  · simp only [execCases] at hx
    simp only [refCases, List.isEmpty_nil, if_true]
    exact ih1 fuel sc rbv env jenv out hrb hs hg hrel hb hx
  · have hem : values.isEmpty = false := by cases values <;> simp at hne ⊢
    simp only [execCases] at hx
    simp only [refCases, hem, Bool.false_eq_true, if_false]
    cases hm : matchLabels jenv jv js with
    | none => simp [hm] at hx
    | some res =>
      cases res with
      | inl o =>
        cases o with
        | error => exact out_bind_not_val (matchLabels_error hrel hsv values js hjs hm)
        | val _ => simp [hm] at hx
        | unspec => simp [hm] at hx
      | inr b =>
        have hany := matchLabels_corr hrel hsv values js b hjs hm
        rw [hany]
        simp only [Spec.Eval.Out.bind]
        cases b with
        | true =>
          simp only [hm] at hx
          simp only [if_true]
          exact ih1 fuel sc rbv env jenv out hrb hs hg hrel hb hx
        | false =>
          simp only [hm] at hx
          simp only [Bool.false_eq_true, if_false]
          obtain ⟨a1, a2⟩ := toBlock_scope ae body buf sc rbv hrb hs
          exact ih2 fuel rbv.2 rr env jenv out sv jv hrr (scOk_of_stack hs a1 a2) (goodBuf_of_stack hg a1 a2) (envRel_stack hrel a1) hb hsv hx

theorem switch_ne (p : Nat) (value : Expr) (cases : CaseList) (ih : CasesNe F G R ae buf cases) :
    CmdNe F G R ae buf (.switch p value cases) := by
  intro fuel sc r env jenv out h hs hg hrel hb hx
  unfold toCmd at h
  split at h
  · rename_i j rc hj hrc
    simp only [Option.some.injEq] at h; subst h
    rw [execStmts_one] at hx
    simp only [execStmt] at hx
    simp only [refCmd]
    rcases withVal_error hx with hx | ⟨jv, hjv, hx⟩
    · exact out_bind_not_val (expr_no_throw sc env jenv hrel value j hj hx)
    · obtain ⟨sv, hsv, hsvj⟩ := C04c.gen_correct_refs_partial sc env jenv hrel value j jv hj hjv
      rw [hsv]
      simp only [Spec.Eval.Out.bind]
      exact out_bind_not_val (ih fuel sc rc env jenv out sv jv hrc hs hg hrel hb hsvj hx)
  · cases h

/-! ### foreach -/

/-- the state in which the foreach loop starts -/
theorem foreach_e3 {sc : Scope} (hs : ScOk sc) (hg : GoodBuf sc buf) (v : Bytes) (hv : v.contains 36 = false) (env : SEnv) (jenv : JEnv)
    (out : Bytes) (hrel : EnvRel ent sc env jenv) (hb : BufIs buf jenv out) (js : List JVal) (xl xn xi : Bytes)
    (hxl : xl = Scope.jsname v b!"List" (sc.n + 1)) (hxn : xn = Scope.jsname v b!"Limit" (sc.n + 1))
    (hxi : xi = Scope.jsname v b!"Index" (sc.n + 1)) (e3 : JEnv)
    (he3 : e3 = setLocal (setLocal (setLocal jenv xl (.arr js)) xn (.num js.length)) xi (.num 0)) :
    EnvRel ent sc env e3 ∧ BufIs buf e3 out ∧ Keeps buf sc.n jenv e3 ∧
      e3.locals.find? (·.1 == xl) = some (xl, .arr js) ∧ e3.locals.find? (·.1 == xn) = some (xn, .num js.length) ∧
      e3.locals.find? (·.1 == xi) = some (xi, .num ((0 : Nat) : Int)) := by
  subst he3
  have uL : IsUse b!"List" := Or.inr (Or.inl rfl)
  have uN : IsUse b!"Limit" := Or.inr (Or.inr (Or.inl rfl))
  have uI : IsUse b!"Index" := Or.inr (Or.inr (Or.inr (Or.inl rfl)))
  have nb : ∀ u, IsUse u → Scope.jsname v u (sc.n + 1) ≠ buf :=
    fun u hu e => hg.1 v u (sc.n + 1) hv hu (Nat.lt_succ_self _) e.symm
  have ne_xn_xl : xl ≠ xn := by
    rw [hxl, hxn]; intro e; have := (jsname_inj_all hv hv uL uN e).2.1; simp at this
  have ne_xi_xl : xl ≠ xi := by
    rw [hxl, hxi]; intro e; have := (jsname_inj_all hv hv uL uI e).2.1; simp at this
  have ne_xi_xn : xn ≠ xi := by
    rw [hxn, hxi]; intro e; have := (jsname_inj_all hv hv uN uI e).2.1; simp at this
  have k1 : Keeps buf sc.n jenv (setLocal jenv xl (.arr js)) := by
    rw [hxl]; exact keeps_setNew buf sc.n jenv hv uL (Nat.lt_succ_self _) _
  have k2 : Keeps buf sc.n (setLocal jenv xl (.arr js)) (setLocal (setLocal jenv xl (.arr js)) xn (.num js.length)) := by
    rw [hxn]; exact keeps_setNew buf sc.n _ hv uN (Nat.lt_succ_self _) _
  have k3 : Keeps buf sc.n (setLocal (setLocal jenv xl (.arr js)) xn (.num js.length))
      (setLocal (setLocal (setLocal jenv xl (.arr js)) xn (.num js.length)) xi (.num 0)) := by
    rw [hxi]; exact keeps_setNew buf sc.n _ hv uI (Nat.lt_succ_self _) _
  have k123 := (k1.trans k2 (Nat.le_refl _)).trans k3 (Nat.le_refl _)
  refine ⟨envRel_keep (sc' := sc) hrel k123 hs.2 (Nat.le_refl _) hg.2 rfl, ?_, k123, ?_, ?_, find_setLocal_eq _ _ _⟩
  · unfold BufIs
    rw [find_setLocal_ne _ xi buf _ (by rw [hxi]; exact (nb _ uI).symm),
      find_setLocal_ne _ xn buf _ (by rw [hxn]; exact (nb _ uN).symm),
      find_setLocal_ne _ xl buf _ (by rw [hxl]; exact (nb _ uL).symm)]
    exact hb
  · rw [find_setLocal_ne _ xi xl _ ne_xi_xl, find_setLocal_ne _ xn xl _ ne_xn_xl]; exact find_setLocal_eq _ _ _
  · rw [find_setLocal_ne _ xi xn _ ne_xi_xn]; exact find_setLocal_eq _ _ _

/-- an iteration that throws: `loopSpec` has no value -/
theorem loop_ne {sc : Scope} (hs : ScOk sc) (hg : GoodBuf sc buf) (v : Bytes) (hv : v.contains 36 = false) (body : Block)
    (rb : JsStmts × Scope) (hrb : toBody ae buf body (sc.pushForEach v).2 = some rb) (ihb : BodyOk F G R ae buf body)
    (ihn : BodyNe F G R ae buf body)
    (env : SEnv) (xs : List Val) (js : List JVal) (hxs : C04c.toJsList xs = some js) (fuel last : Nat)
    (hexl : exact (js.length : Int) = true) (hlast : xs ≠ [] → xs.length = last + 1)
    (lv xl xn xi : Bytes) (hlv : lv = Scope.jsname v [] (sc.n + 1)) (hxl : xl = Scope.jsname v b!"List" (sc.n + 1))
    (hxn : xn = Scope.jsname v b!"Limit" (sc.n + 1)) (hxi : xi = Scope.jsname v b!"Index" (sc.n + 1)) :
    ∀ (rest : List Val) (i : Nat), xs.drop i = rest → ∀ (k : Nat) (e : JEnv) (out : Bytes),
      EnvRel R.entry sc env e → BufIs buf e out →
      e.locals.find? (·.1 == xl) = some (xl, .arr js) →
      e.locals.find? (·.1 == xn) = some (xn, .num js.length) →
      e.locals.find? (·.1 == xi) = some (xi, .num i) →
      execLoop (execStmts F G fuel (.cons (.varIndex lv xl xi) rb.1)) xi xn k e = .error →
      ∀ t, Spec.Eval.loopSpec (refBlock F R ae body) env v last rest i ≠ .val t := by
  have uL : IsUse b!"List" := Or.inr (Or.inl rfl)
  have uN : IsUse b!"Limit" := Or.inr (Or.inr (Or.inl rfl))
  have uI : IsUse b!"Index" := Or.inr (Or.inr (Or.inr (Or.inl rfl)))
  have u0 : IsUse [] := Or.inl rfl
  have ne_lv_xl : xl ≠ lv := by
    rw [hxl, hlv]; intro e; have := (jsname_inj_all hv hv uL u0 e).2.1; simp at this
  have ne_lv_xn : xn ≠ lv := by
    rw [hxn, hlv]; intro e; have := (jsname_inj_all hv hv uN u0 e).2.1; simp at this
  have ne_lv_xi : xi ≠ lv := by
    rw [hxi, hlv]; intro e; have := (jsname_inj_all hv hv uI u0 e).2.1; simp at this
  have ne_xi_xl : xl ≠ xi := by
    rw [hxl, hxi]; intro e; have := (jsname_inj_all hv hv uL uI e).2.1; simp at this
  have ne_xi_xn : xn ≠ xi := by
    rw [hxn, hxi]; intro e; have := (jsname_inj_all hv hv uN uI e).2.1; simp at this
  have nb : ∀ u, IsUse u → Scope.jsname v u (sc.n + 1) ≠ buf :=
    fun u hu e => hg.1 v u (sc.n + 1) hv hu (Nat.lt_succ_self _) e.symm
  have hlen := C04c.toJsList_length xs js hxs
  obtain ⟨hs1, _, hn1⟩ := scOk_pushForEach hs v hv
  intro rest
  induction rest with
  | nil =>
    intro i hd k e out hrel hb h1 h2 h3 hx
    have hle : xs.length ≤ i := List.drop_eq_nil_iff.mp hd
    cases k with
    | zero => simp [execLoop] at hx
    | succ k =>
      unfold execLoop at hx
      rcases withVal_error hx with hc | ⟨c, hc, hx⟩
      · rw [cond_lt h3 h2] at hc; cases hc
      · rw [cond_lt h3 h2] at hc
        simp only [JOut.val.injEq] at hc
        subst hc
        have : decide ((i : Int) < (js.length : Int)) = false := by
          simp only [decide_eq_false_iff_not]; omega
        simp only [this, toBoolean, Bool.false_eq_true, if_false] at hx
        cases hx
  | cons item rest' ih =>
    intro i hd k e out hrel hb h1 h2 h3 hx
    have hlt : i < xs.length := by
      apply Nat.lt_of_not_le
      intro hge
      rw [List.drop_eq_nil_of_le hge] at hd
      cases hd
    rw [List.drop_eq_getElem_cons hlt] at hd
    simp only [List.cons.injEq] at hd
    obtain ⟨hitem, hrest⟩ := hd
    cases k with
    | zero => simp [execLoop] at hx
    | succ k =>
      unfold execLoop at hx
      rcases withVal_error hx with hc | ⟨c, hc, hx⟩
      · rw [cond_lt h3 h2] at hc; cases hc
      rw [cond_lt h3 h2] at hc
      simp only [JOut.val.injEq] at hc
      subst hc
      have : decide ((i : Int) < (js.length : Int)) = true := by
        simp only [decide_eq_true_eq]; omega
      simp only [this, toBoolean, if_true] at hx
      -- the item and the body's environment
      have hjitem : toJsV item = some (js.getD i .undefined) := by
        have := C04c.toJsList_getD xs js i hxs
        rw [List.getD_eq_getElem?_getD, List.getElem?_eq_getElem hlt, Option.getD_some, hitem] at this
        exact this
      have hrel_a : EnvRel R.entry (sc.pushForEach v).2
          { (env.bind v item) with loops := (v, i, last) :: env.loops } (setLocal e lv (js.getD i .undefined)) := by
        have hne : xs ≠ [] := by intro e0; rw [e0] at hlt; cases hlt
        rw [hlv]
        exact envRel_foreach_iter hs v hv env e hrel item _ hjitem i last js.length
          (exact_le (by omega) (by omega) hexl) (by have := hlast hne; omega) (by rw [← hxn]; exact h2) (by rw [← hxi]; exact h3)
      have hb_a : BufIs buf (setLocal e lv (js.getD i .undefined)) out := by
        unfold BufIs
        rw [find_setLocal_ne e lv buf _ (by rw [hlv]; exact (nb _ (Or.inl rfl)).symm)]
        exact hb
      simp only [Spec.Eval.loopSpec]
      rcases sres_bind_error hx with hbody | ⟨eb, hbody, hx⟩
      · -- the body throws
        simp only [execStmts] at hbody
        rcases sres_bind_error hbody with hea | ⟨ea, hea, hbody⟩
        · simp only [execStmt] at hea
          rcases withVal_error hea with hv' | ⟨_, _, hv'⟩
          · rw [indexVar_eval h1 h3] at hv'; cases hv'
          · cases hv'
        · simp only [execStmt] at hea
          obtain ⟨vi, hvi, hea⟩ := withVal_ok hea
          rw [indexVar_eval h1 h3] at hvi
          simp only [JOut.val.injEq] at hvi
          subst hvi
          simp only [SRes.ok.injEq] at hea
          subst hea
          exact out_bind_not_val (ihn fuel _ rb _ _ out hrb hs1 (goodBuf_pushForEach hg v hv) hrel_a hb_a hbody)
      · -- the body completes, a later iteration throws
        simp only [execStmts] at hbody
        obtain ⟨ea, hea, hbody⟩ := sres_bind_ok hbody
        simp only [execStmt] at hea
        obtain ⟨vi, hvi, hea⟩ := withVal_ok hea
        rw [indexVar_eval h1 h3] at hvi
        simp only [JOut.val.injEq] at hvi
        subst hvi
        simp only [SRes.ok.injEq] at hea
        subst hea
        obtain ⟨ti, hti, hb_b, hk_b⟩ := ihb fuel _ rb _ _ eb out hrb hs1 (goodBuf_pushForEach hg v hv) hrel_a hb_a hbody
        rw [hn1] at hk_b
        have oI : Old (sc.n + 1) xi := by rw [hxi]; exact old_jsname hv uI (Nat.le_refl _)
        have oL : Old (sc.n + 1) xl := by rw [hxl]; exact old_jsname hv uL (Nat.le_refl _)
        have oN : Old (sc.n + 1) xn := by rw [hxn]; exact old_jsname hv uN (Nat.le_refl _)
        have h3b : eb.locals.find? (·.1 == xi) = some (xi, .num i) := by
          rw [hk_b.2.2 xi (by rw [hxi]; exact nb _ uI) oI, find_setLocal_ne e lv xi _ ne_lv_xi]; exact h3
        have h1b : eb.locals.find? (·.1 == xl) = some (xl, .arr js) := by
          rw [hk_b.2.2 xl (by rw [hxl]; exact nb _ uL) oL, find_setLocal_ne e lv xl _ ne_lv_xl]; exact h1
        have h2b : eb.locals.find? (·.1 == xn) = some (xn, .num js.length) := by
          rw [hk_b.2.2 xn (by rw [hxn]; exact nb _ uN) oN, find_setLocal_ne e lv xn _ ne_lv_xn]; exact h2
        rw [eval_local h3b] at hx
        rcases withVal_error hx with hx | ⟨v0, hv0, hx⟩
        · cases hx
        simp only [JOut.val.injEq] at hv0
        subst hv0
        rcases withVal_error hx with hx | ⟨r, hr, hx⟩
        · simp only [incr] at hx
          exact absurd hx (numRes_ne_error _)
        simp only [incr] at hr
        obtain ⟨_, rfl⟩ := C04c.numRes_val hr
        have hcast : ((i : Int) + 1) = ((i + 1 : Nat) : Int) := by omega
        rw [hcast] at hx
        have hk_a : Keeps buf sc.n e (setLocal e lv (js.getD i .undefined)) := by
          rw [hlv]; exact keeps_setNew buf sc.n e hv u0 (Nat.lt_succ_self _) _
        have hk_c : Keeps buf sc.n eb (setLocal eb xi (.num ((i + 1 : Nat) : Int))) := by
          rw [hxi]; exact keeps_setNew buf sc.n eb hv uI (Nat.lt_succ_self _) _
        have hk_ec : Keeps buf sc.n e (setLocal eb xi (.num ((i + 1 : Nat) : Int))) :=
          (hk_a.trans (hk_b.mono (Nat.le_succ _)) (Nat.le_refl _)).trans hk_c (Nat.le_refl _)
        have hrel_c := envRel_keep (sc' := sc) hrel hk_ec hs.2 (Nat.le_refl _) hg.2 rfl
        have hb_c : BufIs buf (setLocal eb xi (.num ((i + 1 : Nat) : Int))) (out ++ ti) := by
          unfold BufIs
          rw [find_setLocal_ne eb xi buf _ (by rw [hxi]; exact (nb _ uI).symm)]
          exact hb_b
        have h1c : (setLocal eb xi (.num ((i + 1 : Nat) : Int))).locals.find? (·.1 == xl) = some (xl, .arr js) := by
          rw [find_setLocal_ne eb xi xl _ ne_xi_xl]; exact h1b
        have h2c : (setLocal eb xi (.num ((i + 1 : Nat) : Int))).locals.find? (·.1 == xn) = some (xn, .num js.length) := by
          rw [find_setLocal_ne eb xi xn _ ne_xi_xn]; exact h2b
        rw [hti]
        simp only [Spec.Eval.Out.bind]
        exact out_bind_not_val (ih (i + 1) hrest k _ (out ++ ti) hrel_c hb_c h1c h2c (find_setLocal_eq _ _ _) hx)

/-! ### for … in range(…) -/

/-- a loop that throws has compared two numbers -/
theorem loop_first' {body : JEnv → SRes} {i lim step idx : Bytes} {k : Nat} {e : JEnv} {vi vl : JVal}
    (hx : execLoopStep body i lim step idx k e = .error) (h1 : e.locals.find? (·.1 == i) = some (i, vi))
    (h2 : e.locals.find? (·.1 == lim) = some (lim, vl)) : ∃ a l, vi = .num a ∧ vl = .num l := by
  cases k with
  | zero => simp [execLoopStep] at hx
  | succ k =>
    unfold execLoopStep at hx
    have : eval e (.bin .lt (.local i) (.local lim)) = binop .lt vi vl := by
      simp [eval, JOut.bind, h1, h2]
    rw [this] at hx
    rcases withVal_error hx with hc | ⟨c, hc, _⟩
    · exact absurd hc (binop_ne_error _ _ _)
    · cases vi <;> cases vl <;> simp [binop] at hc
      exact ⟨_, _, rfl, rfl⟩

theorem range_loop_ne {sc : Scope} (hs : ScOk sc) (hg : GoodBuf sc buf) (v : Bytes) (hv : v.contains 36 = false) (body : Block)
    (rb : JsStmts × Scope) (hrb : toBody ae buf body (sc.pushForRange v).2 = some rb) (ihb : BodyOk F G R ae buf body)
    (ihn : BodyNe F G R ae buf body)
    (env : SEnv) (l s : Int) (hspos : 0 < s) (fuel last : Nat)
    (lv xn xs xi : Bytes) (hlv : lv = Scope.jsname v [] (sc.n + 1)) (hxn : xn = Scope.jsname v b!"Limit" (sc.n + 1))
    (hxs : xs = Scope.jsname v b!"Step" (sc.n + 1)) (hxi : xi = Scope.jsname v b!"Index" (sc.n + 1)) :
    ∀ (k : Nat) (a : Int) (idx : Nat) (e : JEnv) (out : Bytes),
      exact a = true → exact (idx : Int) = true → (a < l → idx + (rangeItems a l s).length = last + 1) →
      EnvRel R.entry sc env e → BufIs buf e out →
      e.locals.find? (·.1 == xn) = some (xn, .num l) →
      e.locals.find? (·.1 == xs) = some (xs, .num s) →
      e.locals.find? (·.1 == xi) = some (xi, .num idx) →
      e.locals.find? (·.1 == lv) = some (lv, .num a) →
      execLoopStep (execStmts F G fuel rb.1) lv xn xs xi k e = .error →
      ∀ t, Spec.Eval.loopSpec (refBlock F R ae body) env v last (rangeItems a l s) idx ≠ .val t := by
  have uN : IsUse b!"Limit" := Or.inr (Or.inr (Or.inl rfl))
  have uS : IsUse b!"Step" := Or.inr (Or.inr (Or.inr (Or.inr rfl)))
  have uI : IsUse b!"Index" := Or.inr (Or.inr (Or.inr (Or.inl rfl)))
  have u0 : IsUse [] := Or.inl rfl
  have ne_lv_xn : xn ≠ lv := by
    rw [hxn, hlv]; intro e; have := (jsname_inj_all hv hv uN u0 e).2.1; simp at this
  have ne_lv_xs : xs ≠ lv := by
    rw [hxs, hlv]; intro e; have := (jsname_inj_all hv hv uS u0 e).2.1; simp at this
  have ne_lv_xi : xi ≠ lv := by
    rw [hxi, hlv]; intro e; have := (jsname_inj_all hv hv uI u0 e).2.1; simp at this
  have ne_xi_xn : xn ≠ xi := by
    rw [hxn, hxi]; intro e; have := (jsname_inj_all hv hv uN uI e).2.1; simp at this
  have ne_xi_xs : xs ≠ xi := by
    rw [hxs, hxi]; intro e; have := (jsname_inj_all hv hv uS uI e).2.1; simp at this
  have nb : ∀ u, IsUse u → Scope.jsname v u (sc.n + 1) ≠ buf :=
    fun u hu e => hg.1 v u (sc.n + 1) hv hu (Nat.lt_succ_self _) e.symm
  obtain ⟨hs1, _, hn1⟩ := scOk_pushForRange hs v hv
  intro k
  induction k with
  | zero => intro a idx e out _ _ _ _ _ _ _ _ _ hx; simp [execLoopStep] at hx
  | succ k ih =>
    intro a idx e out hexa hexi hlen hrel hb h2 hst hix h3 hx
    unfold execLoopStep at hx
    rcases withVal_error hx with hc | ⟨c, hc, hx⟩
    · rw [cond_lt h3 h2] at hc; cases hc
    rw [cond_lt h3 h2] at hc
    simp only [JOut.val.injEq] at hc
    subst hc
    by_cases hlt : a < l
    · have : decide (a < l) = true := by simpa using hlt
      simp only [this, toBoolean, if_true] at hx
      have hitems := rangeItems_step a l s hspos hlt
      have hlen' := hlen hlt
      rw [hitems, List.length_cons] at hlen'
      have hdec : decide (l ≤ a + s) = (idx == last) := by
        by_cases hnx : a + s < l
        · have h1 := rangeItems_step (a + s) l s hspos hnx
          rw [h1, List.length_cons] at hlen'
          have e1 : decide (l ≤ a + s) = false := by simp; omega
          have e2 : (idx == last) = false := by simp; omega
          rw [e1, e2]
        · have h1 := rangeItems_done (a + s) l s hspos hnx
          rw [h1, List.length_nil] at hlen'
          have e1 : decide (l ≤ a + s) = true := by simp; omega
          have e2 : (idx == last) = true := by simp; omega
          rw [e1, e2]
      have hrel_a : EnvRel R.entry (sc.pushForRange v).2
          { (env.bind v (.int a)) with loops := (v, idx, last) :: env.loops } e :=
        envRel_forrange sc env e v hv a s l idx last hrel hexa hexi (by rw [← hlv]; exact h3) (by rw [← hxs]; exact hst)
          (by rw [← hxn]; exact h2) (by rw [← hxi]; exact hix) hdec
      rw [hitems]
      simp only [Spec.Eval.loopSpec]
      rcases sres_bind_error hx with hbody | ⟨eb, hbody, hx⟩
      · exact out_bind_not_val (ihn fuel _ rb _ _ out hrb hs1 (goodBuf_pushForRange hg v hv) hrel_a hb hbody)
      · obtain ⟨ti, hti, hb_b, hk_b⟩ := ihb fuel _ rb _ _ eb out hrb hs1 (goodBuf_pushForRange hg v hv) hrel_a hb hbody
        rw [hn1] at hk_b
        have oV : Old (sc.n + 1) lv := by rw [hlv]; exact old_jsname hv u0 (Nat.le_refl _)
        have oN : Old (sc.n + 1) xn := by rw [hxn]; exact old_jsname hv uN (Nat.le_refl _)
        have oS : Old (sc.n + 1) xs := by rw [hxs]; exact old_jsname hv uS (Nat.le_refl _)
        have oI : Old (sc.n + 1) xi := by rw [hxi]; exact old_jsname hv uI (Nat.le_refl _)
        have h3b : eb.locals.find? (·.1 == lv) = some (lv, .num a) := by
          rw [hk_b.2.2 lv (by rw [hlv]; exact nb _ u0) oV]; exact h3
        have h2b : eb.locals.find? (·.1 == xn) = some (xn, .num l) := by
          rw [hk_b.2.2 xn (by rw [hxn]; exact nb _ uN) oN]; exact h2
        have hsb : eb.locals.find? (·.1 == xs) = some (xs, .num s) := by
          rw [hk_b.2.2 xs (by rw [hxs]; exact nb _ uS) oS]; exact hst
        have hib : eb.locals.find? (·.1 == xi) = some (xi, .num idx) := by
          rw [hk_b.2.2 xi (by rw [hxi]; exact nb _ uI) oI]; exact hix
        have hadd : eval eb (.bin .add (.local lv) (.local xs)) = numRes (a + s) := by
          simp [eval, JOut.bind, binop, h3b, hsb]
        rw [hadd] at hx
        rcases withVal_error hx with hx | ⟨r, hr, hx⟩
        · exact absurd hx (numRes_ne_error _)
        obtain ⟨hexa', rfl⟩ := C04c.numRes_val hr
        have hib2 : (setLocal eb lv (.num (a + s))).locals.find? (·.1 == xi) = some (xi, .num idx) := by
          rw [find_setLocal_ne eb lv xi _ ne_lv_xi]; exact hib
        rw [eval_local hib2] at hx
        rcases withVal_error hx with hx | ⟨v0, hv0, hx⟩
        · cases hx
        simp only [JOut.val.injEq] at hv0
        subst hv0
        rcases withVal_error hx with hx | ⟨r2, hr2, hx⟩
        · simp only [incr] at hx; exact absurd hx (numRes_ne_error _)
        simp only [incr] at hr2
        obtain ⟨hexi', rfl⟩ := C04c.numRes_val hr2
        have hcast : ((idx : Int) + 1) = ((idx + 1 : Nat) : Int) := by omega
        rw [hcast] at hx hexi'
        have hlen2 : a + s < l → (idx + 1) + (rangeItems (a + s) l s).length = last + 1 := by
          intro _; omega
        have hk_c : Keeps buf sc.n eb (setLocal eb lv (.num (a + s))) := by
          rw [hlv]; exact keeps_setNew buf sc.n eb hv u0 (Nat.lt_succ_self _) _
        have hk_d : Keeps buf sc.n (setLocal eb lv (.num (a + s)))
            (setLocal (setLocal eb lv (.num (a + s))) xi (.num ((idx + 1 : Nat) : Int))) := by
          rw [hxi]; exact keeps_setNew buf sc.n _ hv uI (Nat.lt_succ_self _) _
        have hk_ec := ((hk_b.mono (Nat.le_succ _)).trans hk_c (Nat.le_refl _)).trans hk_d (Nat.le_refl _)
        have hrel_c := envRel_keep (sc' := sc) hrel hk_ec hs.2 (Nat.le_refl _) hg.2 rfl
        have hb_c : BufIs buf (setLocal (setLocal eb lv (.num (a + s))) xi (.num ((idx + 1 : Nat) : Int))) (out ++ ti) := by
          unfold BufIs
          rw [find_setLocal_ne _ xi buf _ (by rw [hxi]; exact (nb _ uI).symm),
            find_setLocal_ne eb lv buf _ (by rw [hlv]; exact (nb _ u0).symm)]
          exact hb_b
        have h2c : (setLocal (setLocal eb lv (.num (a + s))) xi (.num ((idx + 1 : Nat) : Int))).locals.find? (·.1 == xn) =
            some (xn, .num l) := by
          rw [find_setLocal_ne _ xi xn _ ne_xi_xn, find_setLocal_ne eb lv xn _ ne_lv_xn]; exact h2b
        have hsc : (setLocal (setLocal eb lv (.num (a + s))) xi (.num ((idx + 1 : Nat) : Int))).locals.find? (·.1 == xs) =
            some (xs, .num s) := by
          rw [find_setLocal_ne _ xi xs _ ne_xi_xs, find_setLocal_ne eb lv xs _ ne_lv_xs]; exact hsb
        have h3c : (setLocal (setLocal eb lv (.num (a + s))) xi (.num ((idx + 1 : Nat) : Int))).locals.find? (·.1 == lv) =
            some (lv, .num (a + s)) := by
          rw [find_setLocal_ne _ xi lv _ ne_lv_xi.symm]; exact find_setLocal_eq _ _ _
        rw [hti]
        simp only [Spec.Eval.Out.bind]
        exact out_bind_not_val (ih (a + s) (idx + 1) _ (out ++ ti) hexa' hexi' hlen2 hrel_c hb_c h2c hsc (find_setLocal_eq _ _ _) h3c hx)
    · have : decide (a < l) = false := by simpa using hlt
      simp only [this, toBoolean, Bool.false_eq_true, if_false] at hx
      cases hx

/-- if the `range(…)` call has a value, so have its limit and its start -/
theorem range_args_val (env : SEnv) (pf : Nat) (args : ExprList) (l : Expr) (hl : rangeLimit args = some l) (w : Val)
    (hw : Spec.Eval.eval env (.func pf b!"range" args) = .val w) :
    (∃ w1, Spec.Eval.eval env l = .val w1) ∧ (∃ w2, Spec.Eval.eval env (rangeInit args) = .val w2) := by
  have hloop : Spec.Eval.isLoopFn b!"range" = false := rfl
  simp only [Spec.Eval.eval, hloop, Bool.false_eq_true, if_false] at hw
  obtain ⟨vs, hvs, _⟩ := out_bind_val hw
  cases args with
  | nil => simp [rangeLimit] at hl
  | cons x r =>
    cases r with
    | nil =>
      simp only [rangeLimit, Option.some.injEq] at hl; subst hl
      simp only [Spec.Eval.evalList] at hvs
      obtain ⟨w1, hw1, _⟩ := out_bind_val hvs
      exact ⟨⟨w1, hw1⟩, ⟨.int 0, by simp [rangeInit, litInt, Spec.Eval.eval]⟩⟩
    | cons y r2 =>
      cases r2 with
      | nil =>
        simp only [rangeLimit, Option.some.injEq] at hl; subst hl
        simp only [Spec.Eval.evalList] at hvs
        obtain ⟨w1, hw1, hvs⟩ := out_bind_val hvs
        obtain ⟨ws, hws, _⟩ := out_bind_val hvs
        obtain ⟨w2, hw2, _⟩ := out_bind_val hws
        exact ⟨⟨w2, hw2⟩, ⟨w1, hw1⟩⟩
      | cons z r3 =>
        cases r3 with
        | nil =>
          simp only [rangeLimit, Option.some.injEq] at hl; subst hl
          simp only [Spec.Eval.evalList] at hvs
          obtain ⟨w1, hw1, hvs⟩ := out_bind_val hvs
          obtain ⟨ws, hws, _⟩ := out_bind_val hvs
          obtain ⟨w2, hw2, _⟩ := out_bind_val hws
          exact ⟨⟨w2, hw2⟩, ⟨w1, hw1⟩⟩
        | cons _ _ => simp [rangeLimit] at hl

theorem range_ne (p : Nat) (v : Bytes) (list : Expr) (body : Block) (ihb : BodyOk F G R ae buf body) (ihn : BodyNe F G R ae buf body) :
    ∀ (fuel : Nat) (sc : Scope) (r : JsStmts × Scope) (env : SEnv) (jenv : JEnv) (out : Bytes),
      rangeJoin v list sc (toBody ae buf body (sc.pushForRange v).2) true = some r → ScOk sc → GoodBuf sc buf → EnvRel R.entry sc env jenv →
      BufIs buf jenv out → execStmts F G fuel r.1 jenv = .error → ∀ x, refCmd F R ae (.forc p v list body none) env ≠ .val x := by
  intro fuel sc r env jenv out h hs hg hrel hb hx
  obtain ⟨hv, _, args, l, c, jl, ji, rbv, pc, hr, hl, hinc, hpos, hjl, hji, hrb, rfl⟩ := rangeJoin_some h
  obtain ⟨pf, rfl⟩ := isRangeCall_some hr
  have uN : IsUse b!"Limit" := Or.inr (Or.inr (Or.inl rfl))
  have uS : IsUse b!"Step" := Or.inr (Or.inr (Or.inr (Or.inr rfl)))
  have uI : IsUse b!"Index" := Or.inr (Or.inr (Or.inr (Or.inl rfl)))
  have u0 : IsUse [] := Or.inl rfl
  have nb : ∀ u, IsUse u → Scope.jsname v u (sc.n + 1) ≠ buf :=
    fun u hu e => hg.1 v u (sc.n + 1) hv hu (Nat.lt_succ_self _) e.symm
  have hd : ∀ {u u' : Bytes}, IsUse u → IsUse u' → u ≠ u' → Scope.jsname v u (sc.n + 1) ≠ Scope.jsname v u' (sc.n + 1) :=
    fun hu hu' hne e => hne (jsname_inj_all hv hv hu hu' e).2.1
  have hNS : Scope.jsname v b!"Limit" (sc.n + 1) ≠ Scope.jsname v b!"Step" (sc.n + 1) := hd uN uS (by decide)
  have hNV : Scope.jsname v b!"Limit" (sc.n + 1) ≠ Scope.jsname v [] (sc.n + 1) := hd uN u0 (by decide)
  have hNI : Scope.jsname v b!"Limit" (sc.n + 1) ≠ Scope.jsname v b!"Index" (sc.n + 1) := hd uN uI (by decide)
  have hSV : Scope.jsname v b!"Step" (sc.n + 1) ≠ Scope.jsname v [] (sc.n + 1) := hd uS u0 (by decide)
  have hSI : Scope.jsname v b!"Step" (sc.n + 1) ≠ Scope.jsname v b!"Index" (sc.n + 1) := hd uS uI (by decide)
  have hVI : Scope.jsname v [] (sc.n + 1) ≠ Scope.jsname v b!"Index" (sc.n + 1) := hd u0 uI (by decide)
  simp only [rangeStmts, JsStmts.one, execStmts] at hx
  simp only [refCmd]
  have harg := range_args_val env pf args l hl
  rcases sres_bind_error hx with h1 | ⟨e1, h1, hx⟩
  · simp only [execStmt] at h1
    rcases withVal_error h1 with h1 | ⟨_, _, h1⟩
    · exact out_bind_not_val (fun w hw => by
        obtain ⟨w1, hw1⟩ := (harg w hw).1
        exact expr_no_throw sc env jenv hrel l jl hjl h1 w1 hw1)
    · cases h1
  simp only [execStmt] at h1
  obtain ⟨jlim, hjlim, h1⟩ := withVal_ok h1
  simp only [SRes.ok.injEq] at h1
  subst h1
  obtain ⟨vlim, hvlim, hlimj⟩ := C04c.gen_correct_refs_partial sc env jenv hrel l jl jlim hjl hjlim
  rcases sres_bind_error hx with h2 | ⟨e2, h2, hx⟩
  · simp only [execStmt] at h2
    rcases withVal_error h2 with h2 | ⟨_, _, h2⟩
    · unfold eval at h2; split at h2 <;> cases h2
    · cases h2
  simp only [execStmt] at h2
  obtain ⟨jstep, hjstep, h2⟩ := withVal_ok h2
  simp only [SRes.ok.injEq] at h2
  subst h2
  have hstepv : jstep = .num c := by
    unfold eval at hjstep
    split at hjstep
    · simp only [JOut.val.injEq] at hjstep; exact hjstep.symm
    · cases hjstep
  subst hstepv
  have k1 : Keeps buf sc.n jenv (setLocal jenv (Scope.jsname v b!"Limit" (sc.n + 1)) jlim) :=
    keeps_setNew buf sc.n jenv hv uN (Nat.lt_succ_self _) _
  have k2 : Keeps buf sc.n _ (setLocal (setLocal jenv (Scope.jsname v b!"Limit" (sc.n + 1)) jlim)
      (Scope.jsname v b!"Step" (sc.n + 1)) (.num c)) := keeps_setNew buf sc.n _ hv uS (Nat.lt_succ_self _) _
  have k12 := k1.trans k2 (Nat.le_refl _)
  have hrel2 := envRel_keep (sc' := sc) hrel k12 hs.2 (Nat.le_refl _) hg.2 rfl
  rcases sres_bind_error hx with h3 | ⟨e3, _, hx⟩
  case inr => cases hx
  simp only [execStmt] at h3
  rcases withVal_error h3 with h3 | ⟨jinit, hjinit, h3⟩
  · exact out_bind_not_val (fun w hw => by
      obtain ⟨w2, hw2⟩ := (harg w hw).2
      exact expr_no_throw sc env _ hrel2 _ ji hji h3 w2 hw2)
  obtain ⟨vinit, hvinit, hinitj⟩ := C04c.gen_correct_refs_partial sc env _ hrel2 _ ji jinit hji hjinit
  have k3 : Keeps buf sc.n _ (setLocal (setLocal (setLocal jenv (Scope.jsname v b!"Limit" (sc.n + 1)) jlim)
      (Scope.jsname v b!"Step" (sc.n + 1)) (.num c)) (Scope.jsname v [] (sc.n + 1)) jinit) :=
    keeps_setNew buf sc.n _ hv u0 (Nat.lt_succ_self _) _
  have k4 : Keeps buf sc.n _ (setLocal (setLocal (setLocal (setLocal jenv (Scope.jsname v b!"Limit" (sc.n + 1)) jlim)
      (Scope.jsname v b!"Step" (sc.n + 1)) (.num c)) (Scope.jsname v [] (sc.n + 1)) jinit)
      (Scope.jsname v b!"Index" (sc.n + 1)) (.num 0)) := keeps_setNew buf sc.n _ hv uI (Nat.lt_succ_self _) _
  have k1234 := (k12.trans k3 (Nat.le_refl _)).trans k4 (Nat.le_refl _)
  have hrel4 := envRel_keep (sc' := sc) hrel k1234 hs.2 (Nat.le_refl _) hg.2 rfl
  have fN : (setLocal (setLocal (setLocal (setLocal jenv (Scope.jsname v b!"Limit" (sc.n + 1)) jlim)
      (Scope.jsname v b!"Step" (sc.n + 1)) (.num c)) (Scope.jsname v [] (sc.n + 1)) jinit)
      (Scope.jsname v b!"Index" (sc.n + 1)) (.num 0)).locals.find? (·.1 == Scope.jsname v b!"Limit" (sc.n + 1)) =
      some (Scope.jsname v b!"Limit" (sc.n + 1), jlim) := by
    rw [find_setLocal_ne _ _ _ _ hNI, find_setLocal_ne _ _ _ _ hNV, find_setLocal_ne _ _ _ _ hNS]; exact find_setLocal_eq _ _ _
  have fS : (setLocal (setLocal (setLocal (setLocal jenv (Scope.jsname v b!"Limit" (sc.n + 1)) jlim)
      (Scope.jsname v b!"Step" (sc.n + 1)) (.num c)) (Scope.jsname v [] (sc.n + 1)) jinit)
      (Scope.jsname v b!"Index" (sc.n + 1)) (.num 0)).locals.find? (·.1 == Scope.jsname v b!"Step" (sc.n + 1)) =
      some (Scope.jsname v b!"Step" (sc.n + 1), .num c) := by
    rw [find_setLocal_ne _ _ _ _ hSI, find_setLocal_ne _ _ _ _ hSV]; exact find_setLocal_eq _ _ _
  have fV : (setLocal (setLocal (setLocal (setLocal jenv (Scope.jsname v b!"Limit" (sc.n + 1)) jlim)
      (Scope.jsname v b!"Step" (sc.n + 1)) (.num c)) (Scope.jsname v [] (sc.n + 1)) jinit)
      (Scope.jsname v b!"Index" (sc.n + 1)) (.num 0)).locals.find? (·.1 == Scope.jsname v [] (sc.n + 1)) =
      some (Scope.jsname v [] (sc.n + 1), jinit) := by
    rw [find_setLocal_ne _ _ _ _ hVI]; exact find_setLocal_eq _ _ _
  obtain ⟨a, lim, rfl, rfl⟩ := loop_first' h3 fV fN
  obtain ⟨rfl, hexa⟩ := C04c.toJsV_num hinitj
  obtain ⟨rfl, _⟩ := C04c.toJsV_num hlimj
  have hb4 : BufIs buf (setLocal (setLocal (setLocal (setLocal jenv (Scope.jsname v b!"Limit" (sc.n + 1)) (.num lim))
      (Scope.jsname v b!"Step" (sc.n + 1)) (.num c)) (Scope.jsname v [] (sc.n + 1)) (.num a))
      (Scope.jsname v b!"Index" (sc.n + 1)) (.num 0)) out := by
    unfold BufIs
    rw [find_setLocal_ne _ _ buf _ (nb _ uI).symm, find_setLocal_ne _ _ buf _ (nb _ u0).symm,
      find_setLocal_ne _ _ buf _ (nb _ uS).symm, find_setLocal_ne _ _ buf _ (nb _ uN).symm]
    exact hb
  have hne := range_loop_ne F G R ae buf hs hg v hv body rbv hrb ihb ihn env lim c hpos fuel
    ((rangeItems a lim c).length - 1) _ _ _ _ rfl rfl rfl rfl fuel a 0 _ out hexa (by decide)
    (fun hlt => by rw [rangeItems_step a lim c hpos hlt]; simp) hrel4 hb4 fN fS (find_setLocal_eq _ _ _) fV h3
  have hev : Spec.Eval.eval env (.func pf b!"range" args) = .val (.list (rangeItems a lim c)) := by
    rw [range_eval env pf args l a lim c hl hvinit hvlim (by rw [hinc]; simp [Spec.Eval.eval]), rangeSpec_val a lim c hpos]
  rw [hev]
  simp only [Spec.Eval.Out.bind]
  cases hitems : rangeItems a lim c with
  | nil =>
    rw [hitems] at hne
    exact absurd (by simp [Spec.Eval.loopSpec]) (hne [])
  | cons x xs' =>
    rw [hitems] at hne
    simp only [List.isEmpty_cons, Bool.false_eq_true, if_false]
    exact out_bind_not_val hne

/-! ### the loop commands -/

/-- the two declarations in front of a foreach loop: if one throws, the specification has no list -/
theorem foreach_prefix_ne {sc : Scope} (env : SEnv) (jenv : JEnv) (hrel : EnvRel ent sc env jenv) (list : Expr) (j : JsExpr)
    (hj : toAst sc list = some j) (fuel : Nat) (xl xn : Bytes) (rest : JEnv → SRes)
    (hx : ((execStmt F G fuel (.var xl j) jenv).bind fun e1 => (execStmt F G fuel (.varLength xn xl) e1).bind rest) = .error) :
    (∀ w, Spec.Eval.eval env list ≠ .val (.list w)) ∨
      ∃ e1 e2, execStmt F G fuel (.var xl j) jenv = .ok e1 ∧ execStmt F G fuel (.varLength xn xl) e1 = .ok e2 ∧ rest e2 = .error := by
  rcases sres_bind_error hx with h1 | ⟨e1, h1, hx⟩
  · left
    simp only [execStmt] at h1
    rcases withVal_error h1 with h1 | ⟨_, _, h1⟩
    · intro w hw; exact expr_no_throw sc env jenv hrel list j hj h1 _ hw
    · cases h1
  rcases sres_bind_error hx with h2 | ⟨e2, h2, hx⟩
  · left
    have h1' := h1
    simp only [execStmt] at h1
    obtain ⟨jl, hjl, h1⟩ := withVal_ok h1
    simp only [SRes.ok.injEq] at h1
    subst h1
    obtain ⟨lvv, hlvv, hlj⟩ := C04c.gen_correct_refs_partial sc env jenv hrel list j jl hj hjl
    simp only [execStmt] at h2
    rcases withVal_error h2 with h2 | ⟨_, _, h2⟩
    · have hlen : eval (setLocal jenv xl jl) (.call1 .length (.local xl)) = apply1 .length jl := by
        simp [eval, JOut.bind, setLocal]
      rw [hlen] at h2
      obtain ⟨_, hnull⟩ := apply1_error h2
      intro w hw
      rw [hlvv] at hw
      simp only [Out.val.injEq] at hw
      subst hw
      rcases hnull with rfl | rfl <;> simp [C04c.toJsV] at hlj <;> (obtain ⟨_, _, h⟩ := hlj; cases h)
    · cases h2
  · exact Or.inr ⟨e1, e2, h1, h2, hx⟩

theorem forc_none_ne (p : Nat) (v : Bytes) (list : Expr) (body : Block) (ihb : BodyOk F G R ae buf body)
    (ihn : BodyNe F G R ae buf body) : CmdNe F G R ae buf (.forc p v list body none) := by
  intro fuel sc r env jenv out h hs hg hrel hb hx
  unfold toCmd at h
  rcases loopJoin_some h with h | h
  case inr => exact range_ne F G R ae buf p v list body ihb ihn fuel sc r env jenv out h hs hg hrel hb hx
  obtain ⟨hv, _, j, rbv, hj, hrb, he⟩ := forcJoin_some h
  simp only at he
  subst he
  simp only [foreachStmts, JsStmts.one, execStmts] at hx
  simp only [refCmd]
  rcases foreach_prefix_ne F G env jenv hrel list j hj fuel _ _ _ hx with hno | ⟨e1, e2, h1, h2, hx⟩
  · intro x hxv
    obtain ⟨lv, hlv, hxv⟩ := out_bind_val hxv
    cases lv <;> simp at hxv
    exact hno _ hlv
  obtain ⟨xs, js, hev, hxs, hexl, _, _, _, he2, _, _⟩ := foreach_core F G R ae buf hs hg v hv list j hj body rbv hrb ihb env jenv out
    hrel hb fuel _ _ _ _ rfl rfl rfl rfl e1 e2 h1 h2
  rcases sres_bind_error hx with h3 | ⟨e3, _, hx⟩
  case inr => cases hx
  simp only [execStmt] at h3
  rw [he2] at h3
  obtain ⟨r3, b3, _, f1, f2, f3⟩ := foreach_e3 buf hs hg v hv env jenv out hrel hb js _ _ _ rfl rfl rfl _ rfl
  have hne := loop_ne F G R ae buf hs hg v hv body rbv hrb ihb ihn env xs js hxs fuel (xs.length - 1) hexl
      (fun hne => by have := List.length_pos_iff.mpr hne; omega) _ _ _ _ rfl rfl rfl rfl
    xs 0 List.drop_zero fuel _ out r3 b3 f1 f2 f3 h3
  rw [hev]
  simp only [Spec.Eval.Out.bind]
  cases xs with
  | nil => exact absurd (by simp [Spec.Eval.loopSpec]) (hne [])
  | cons x xs' =>
    simp only [List.isEmpty_cons, Bool.false_eq_true, if_false]
    exact out_bind_not_val hne

theorem forc_some_ne (p : Nat) (v : Bytes) (list : Expr) (body ie : Block) (ihb : BodyOk F G R ae buf body)
    (ihn : BodyNe F G R ae buf body) (ihe : BlockNe F G R ae buf ie) : CmdNe F G R ae buf (.forc p v list body (some ie)) := by
  intro fuel sc r env jenv out h hs hg hrel hb hx
  unfold toCmd at h
  rcases loopJoin_ie_some h with h | ⟨r0, re, hr0, hre, rfl⟩
  case inr =>
    -- a range loop, then `if (index == 0) {…}`
    rw [execStmts_append] at hx
    rcases sres_bind_error hx with hx1 | ⟨e1, hx1, hx2⟩
    · -- the loop throws: the reference has no text for the loop, with or without an `{ifempty}`
      have hne := range_ne F G R ae buf p v list body ihb ihn fuel sc r0 env jenv out hr0 hs hg hrel hb hx1
      intro x hxv
      simp only [refCmd] at hxv hne
      obtain ⟨lv, hlv, hxv⟩ := out_bind_val hxv
      rw [hlv] at hne
      simp only [Spec.Eval.Out.bind] at hne
      cases lv <;> simp only [reduceCtorEq] at hxv
      rename_i xs
      cases xs with
      | nil => exact hne ([], env) (by simp)
      | cons y ys =>
        simp only [List.isEmpty_cons, Bool.false_eq_true, if_false] at hxv hne
        exact hne x hxv
    · obtain ⟨xs, text, hev, ht, hrel1, hb1, hk1, hfi⟩ := range_core F G R ae buf v list body ihb fuel sc r0 env jenv e1 out hr0 hs hg hrel hb hx1
      obtain ⟨hv, _, args, l, c, jl, ji, rbv, pc, _, _, _, _, _, _, hrb, hr0e⟩ := rangeJoin_some hr0
      have hst : r0.2.stack = sc.stack := by
        rw [hr0e]
        obtain ⟨p1, p2, _⟩ := scOk_pushForRange hs v hv
        obtain ⟨_, b2, _⟩ := toBody_scope ae body buf _ rbv hrb p1
        simp only [Scope.pop]; rw [b2, p2]
      have hn : sc.n ≤ r0.2.n := by
        rw [hr0e]
        obtain ⟨p1, _, p3⟩ := scOk_pushForRange hs v hv
        obtain ⟨_, _, b3⟩ := toBody_scope ae body buf _ rbv hrb p1
        simp only [Scope.pop]; omega
      have hs' : ScOk r0.2 := scOk_of_stack hs hst hn
      rw [execStmts_one] at hx2
      simp only [execStmt] at hx2
      have hcz : eval e1 (.loopFirst (sc.pushForRange v).1.2.2.2) = .val (.bool ((xs.length : Int) == 0)) := by
        simp [eval, localNum, hfi]
      rw [hcz] at hx2
      simp only [withVal] at hx2
      cases xs with
      | nil =>
        simp only [List.length_nil, Int.natCast_zero, beq_self_eq_true, toBoolean, if_true] at hx2
        simp only at ht
        subst ht
        have hne := ihe fuel _ re env e1 (out ++ []) hre hs' (goodBuf_of_stack hg hst hn) hrel1 hb1 hx2
        simp only [refCmd, hev, Spec.Eval.Out.bind, List.isEmpty_nil, if_true]
        exact out_bind_not_val hne
      | cons y ys =>
        have hne0 : ((((y :: ys).length : Nat) : Int) == 0) = false := by simp; omega
        simp only [hne0, toBoolean, Bool.false_eq_true, if_false] at hx2
        cases hx2
  obtain ⟨hv, _, j, rbv, hj, hrb, he⟩ := forcJoin_some h
  simp only at he
  obtain ⟨re, hre, rfl⟩ := he
  simp only [foreachStmts, JsStmts.one, execStmts] at hx
  simp only [refCmd]
  rcases foreach_prefix_ne F G env jenv hrel list j hj fuel _ _ _ hx with hno | ⟨e1, e2, h1, h2, hx⟩
  · intro x hxv
    obtain ⟨lv, hlv, hxv⟩ := out_bind_val hxv
    cases lv <;> simp at hxv
    exact hno _ hlv
  obtain ⟨xs, js, hev, hxs, hexl, hrel2, hb2, _, he2, hfn, _⟩ := foreach_core F G R ae buf hs hg v hv list j hj body rbv hrb ihb
    env jenv out hrel hb fuel _ _ _ _ rfl rfl rfl rfl e1 e2 h1 h2
  have hlen := C04c.toJsList_length xs js hxs
  have hst : rbv.2.pop.stack = sc.stack := by
    obtain ⟨_, p2, _⟩ := scOk_pushForEach hs v hv
    obtain ⟨_, b2, _⟩ := toBody_scope ae body buf _ rbv hrb (scOk_pushForEach hs v hv).1
    simp only [Scope.pop]; rw [b2, p2]
  have hn : sc.n ≤ rbv.2.pop.n := by
    obtain ⟨_, _, p3⟩ := scOk_pushForEach hs v hv
    obtain ⟨_, _, b3⟩ := toBody_scope ae body buf _ rbv hrb (scOk_pushForEach hs v hv).1
    simp only [Scope.pop]; omega
  have hs' : ScOk rbv.2.pop := scOk_of_stack hs hst hn
  rcases sres_bind_error hx with h3 | ⟨e3, _, hx⟩
  case inr => cases hx
  simp only [execStmt] at h3
  rcases withVal_error h3 with hc | ⟨c, hc, h3⟩
  · rw [show eval e2 (.bin .gt (.local (sc.pushForEach v).1.2.2.1) (.num 0)) = _ from cond_gt0 hfn] at hc
    cases hc
  rw [show eval e2 (.bin .gt (.local (sc.pushForEach v).1.2.2.1) (.num 0)) = _ from cond_gt0 hfn] at hc
  simp only [JOut.val.injEq] at hc
  subst hc
  rw [hev]
  simp only [Spec.Eval.Out.bind]
  by_cases hpos : (0 : Int) < (js.length : Int)
  · have : decide ((0 : Int) < (js.length : Int)) = true := by simpa using hpos
    simp only [this, toBoolean, if_true, execStmts] at h3
    rcases sres_bind_error h3 with h4 | ⟨e4, _, h3⟩
    case inr => cases h3
    simp only [execStmt] at h4
    rw [he2] at h4
    obtain ⟨r3, b3, _, f1, f2, f3⟩ := foreach_e3 buf hs hg v hv env jenv out hrel hb js _ _ _ rfl rfl rfl _ rfl
    have hne := loop_ne F G R ae buf hs hg v hv body rbv hrb ihb ihn env xs js hxs fuel (xs.length - 1) hexl
      (fun hne => by have := List.length_pos_iff.mpr hne; omega) _ _ _ _ rfl rfl rfl rfl
      xs 0 List.drop_zero fuel _ out r3 b3 f1 f2 f3 h4
    cases xs with
    | nil => simp only [List.length_nil] at hlen; omega
    | cons x xs' =>
      simp only [List.isEmpty_cons, Bool.false_eq_true, if_false]
      exact out_bind_not_val hne
  · have : decide ((0 : Int) < (js.length : Int)) = false := by simpa using hpos
    simp only [this, toBoolean, Bool.false_eq_true, if_false] at h3
    have hrel2' : EnvRel R.entry rbv.2.pop env e2 := envRel_stack hrel2 hst
    have hne := ihe fuel _ re env e2 out hre hs' (goodBuf_of_stack hg hst hn) hrel2' hb2 h3
    cases xs with
    | nil =>
      simp only [List.isEmpty_nil, if_true]
      exact out_bind_not_val hne
    | cons x xs' => simp only [List.length_cons] at hlen; omega

theorem letContent_ne (p : Nat) (name : Bytes) (body : Block) (ih : ∀ buf', BlockNe F G R ae buf' body) :
    CmdNe F G R ae buf (.letContent p name body) := by
  intro fuel sc r env jenv out h hs hg hrel hb hx
  unfold toCmd at h
  obtain ⟨hname, rbv, hrb, rfl⟩ := letJoin_some h
  have hs' : ScOk (sc.genname name).2 := scOk_of_stack hs rfl (Nat.le_succ _)
  have hg' : GoodBuf (sc.genname name).2 (sc.genname name).1 :=
    ⟨old_jsname hname (Or.inl rfl) (Nat.le_refl _), fun f hf kv hkv => (hs.2 f hf kv hkv).2 name [] (sc.n + 1) hname (Or.inl rfl)
      (Nat.lt_succ_self _)⟩
  simp only [execStmts] at hx
  rcases sres_bind_error hx with h1 | ⟨e1, h1, hx⟩
  · simp [execStmt] at h1
  simp only [execStmt, SRes.ok.injEq] at h1
  subst h1
  have k1 : Keeps buf sc.n jenv (setLocal jenv (sc.genname name).1 (.str [])) :=
    keeps_setNew buf sc.n jenv hname (Or.inl rfl) (Nat.lt_succ_self _) _
  have hrel1 : EnvRel R.entry (sc.genname name).2 env (setLocal jenv (sc.genname name).1 (.str [])) :=
    envRel_keep hrel k1 hs.2 (Nat.le_refl _) hg.2 rfl
  simp only [refCmd]
  exact out_bind_not_val (ih (sc.genname name).1 fuel _ rbv env _ [] hrb hs' hg' hrel1 (find_setLocal_eq _ _ _) hx)

/-! ### css, debugger -/

theorem css_none_ne (p : Nat) (suffix : Bytes) : CmdNe F G R ae buf (.css p none suffix) := by
  intro fuel sc r env jenv out h hs hg hrel hb hx
  simp only [toCmd, Option.some.injEq] at h; subst h
  rw [execStmts_one] at hx
  simp only [execStmt] at hx
  exact absurd hx (appendTo_ne_error hb _)

theorem css_some_ne (p : Nat) (e : Expr) (suffix : Bytes) : CmdNe F G R ae buf (.css p (some e) suffix) := by
  intro fuel sc r env jenv out h hs hg hrel hb hx x hx'
  simp only [toCmd] at h
  split at h
  · rename_i j hj
    simp only [Option.some.injEq] at h; subst h
    simp only [refCmd] at hx'
    obtain ⟨v, hv, _⟩ := out_bind_val hx'
    simp only [execStmts] at hx
    rcases sres_bind_error hx with hx1 | ⟨e1, hx1, hx2⟩
    · simp only [execStmt] at hx1
      rcases withVal_error hx1 with hve | ⟨jv, hjv, hx1⟩
      · exact expr_no_throw sc env jenv hrel e j hj hve v hv
      · cases hs' : toStr? jv with
        | none => simp [hs'] at hx1
        | some s =>
          simp only [hs'] at hx1
          exact appendTo_ne_error hb _ hx1
    · simp only [execStmt] at hx1
      obtain ⟨jv, hjv, hx1⟩ := withVal_ok hx1
      cases hs' : toStr? jv with
      | none => simp [hs'] at hx1
      | some s =>
        simp only [hs'] at hx1
        obtain ⟨s1, _, rfl⟩ := appendTo_ok hb hx1
        rw [execStmts_one] at hx2
        simp only [execStmt] at hx2
        exact appendTo_ne_error (bufIs_setBuf _ _ _) _ hx2
  · cases h

theorem debugger_ne (p : Nat) : CmdNe F G R ae buf (.debugger p) := by
  intro fuel sc r env jenv out h hs hg hrel hb hx
  simp only [toCmd, Option.some.injEq] at h; subst h
  rw [execStmts_one] at hx
  simp [execStmt] at hx

/-! ### msg (no bundle) -/

def PartsNe (ps : MsgParts) : Prop :=
  ∀ (fuel : Nat) (sc : Scope) (r : JsStmts × Scope) (env : SEnv) (jenv : JEnv) (out : Bytes),
    toParts ae buf ps sc = some r → ScOk sc → GoodBuf sc buf → EnvRel R.entry sc env jenv → BufIs buf jenv out →
    execStmts F G fuel r.1 jenv = .error → ∀ x, refParts F R ae ps env ≠ .val x

def PhNe (b : MsgPhBody) : Prop :=
  ∀ (fuel : Nat) (sc : Scope) (r : JsStmts × Scope) (env : SEnv) (jenv : JEnv) (out : Bytes),
    toPh ae buf b sc = some r → ScOk sc → GoodBuf sc buf → EnvRel R.entry sc env jenv → BufIs buf jenv out →
    execStmts F G fuel r.1 jenv = .error → ∀ x, refPh F R ae b env ≠ .val x

theorem ph_tag_ne (p : Nat) (t : Bytes) : PhNe F G R ae buf (.htmlTag p t) := by
  intro fuel sc r env jenv out h hs hg hrel hb hx
  have := rawText_ne F G R ae buf p t fuel sc r env jenv out (by simpa [toPh, toCmd] using h) hs hg hrel hb hx
  simpa [refPh, refCmd] using this

theorem ph_cmd_ne (c : Cmd) (ih : CmdNe F G R ae buf c) : PhNe F G R ae buf (.cmd c) := by
  intro fuel sc r env jenv out h hs hg hrel hb hx
  unfold toPh at h
  simpa [refPh] using ih fuel sc r env jenv out h hs hg hrel hb hx

theorem parts_nil_ne : PartsNe F G R ae buf .nil := by
  intro fuel sc r env jenv out h hs hg hrel hb hx
  simp only [toParts, Option.some.injEq] at h; subst h
  simp [execStmts] at hx

theorem parts_ph_ne (p : Nat) (name : Bytes) (body : MsgPhBody) (rest : MsgParts) (ihok : PhOk F G R ae buf body)
    (ih1 : PhNe F G R ae buf body) (ih2 : PartsNe F G R ae buf rest) : PartsNe F G R ae buf (.ph p name body rest) := by
  intro fuel sc r env jenv out h hs hg hrel hb hx
  unfold toParts at h
  obtain ⟨a, b, ha, hb2, rfl⟩ := phJoin_some h
  rw [execStmts_append] at hx
  simp only [refParts]
  rcases sres_bind_error hx with hx | ⟨e1, hx1, hx2⟩
  · exact out_bind_not_val (ih1 fuel sc a env jenv out ha hs hg hrel hb hx)
  · obtain ⟨t1, env1, ht1, hrel1, hb1, _⟩ := ihok fuel sc a env jenv e1 out ha hs hg hrel hb hx1
    obtain ⟨a1, _, _⟩ := toPh_scope ae body buf sc a ha hs
    rw [ht1]
    simp only [Spec.Eval.Out.bind]
    exact out_bind_not_val (ih2 fuel a.2 b env1 e1 (out ++ t1) hb2 a1 (toPh_good ae body buf sc a ha hs buf hg) hrel1 hb1 hx2)

theorem parts_text_ne (p : Nat) (t : Bytes) (rest : MsgParts) (ih2 : PartsNe F G R ae buf rest) :
    PartsNe F G R ae buf (.text p t rest) := by
  intro fuel sc r env jenv out h hs hg hrel hb hx x
  have h' : toParts ae buf (.ph p [] (.htmlTag p t) rest) sc = some r := by
    unfold toParts at h ⊢
    simpa [toPh] using h
  have := parts_ph_ne F G R ae buf p [] (.htmlTag p t) rest (ph_tag_ok F G R ae buf p t) (ph_tag_ne F G R ae buf p t) ih2
    fuel sc r env jenv out h' hs hg hrel hb hx x
  simp only [refParts, refPh, Spec.Eval.Out.bind] at this ⊢
  exact this

/-- the `{case n}` clauses of a plural: a clause that throws is a case the reference does not render -/
def PCasesNe (cs : PluralCases) : Prop :=
  ∀ (fuel : Nat) (sc : Scope) (r : JsPlural × Scope) (env : SEnv) (jenv : JEnv) (out : Bytes) (i : Int),
    toPCases ae buf cs sc = some r → ScOk sc → GoodBuf sc buf → EnvRel R.entry sc env jenv → BufIs buf jenv out →
    execPlural F G fuel r.1 i jenv = some .error → ∃ ro, refPlural F R ae cs i env = some ro ∧ ∀ x, ro ≠ .val x

theorem pcases_nil_ne : PCasesNe F G R ae buf .nil := by
  intro fuel sc r env jenv out i h hs hg hrel hb hx
  simp only [toPCases, Option.some.injEq] at h; subst h
  simp [execPlural] at hx

theorem pcases_cons_ne (p : Nat) (v : Int) (bp : Nat) (body : MsgParts) (rest : PluralCases) (ih1 : PartsNe F G R ae buf body)
    (ih2 : PCasesNe F G R ae buf rest) : PCasesNe F G R ae buf (.cons p v bp body rest) := by
  intro fuel sc r env jenv out i h hs hg hrel hb hx
  unfold toPCases at h
  obtain ⟨rb, rr, hrb, hst, hrr, rfl⟩ := pcaseJoin_some h
  obtain ⟨a1, _, a3⟩ := toParts_scope ae body buf sc rb hrb hs
  simp only [execPlural] at hx
  simp only [refPlural]
  by_cases hex : SoyVerif.Spec.JsSem.exact v = true
  · simp only [hex, if_true] at hx
    by_cases hiv : (i == v) = true
    · simp only [hiv, if_true] at hx ⊢
      simp only [Option.some.injEq] at hx
      exact ⟨_, rfl, ih1 fuel sc rb env jenv out hrb hs hg hrel hb hx⟩
    · simp only [hiv, Bool.false_eq_true, if_false] at hx ⊢
      exact ih2 fuel rb.2 rr env jenv out i hrr a1 (goodBuf_of_stack hg hst a3) (envRel_stack hrel hst) hb hx
  · simp only [hex, Bool.false_eq_true, if_false] at hx
    cases hx

theorem parts_plural_ne (p : Nat) (vn : Bytes) (value : Expr) (cases : PluralCases) (dp : Nat) (dflt rest : MsgParts)
    (okc : PCasesOk F G R ae buf cases) (okd : PartsOk F G R ae buf dflt)
    (nec : PCasesNe F G R ae buf cases) (ned : PartsNe F G R ae buf dflt) (ner : PartsNe F G R ae buf rest) :
    PartsNe F G R ae buf (.plural p vn value cases dp dflt rest) := by
  intro fuel sc r env jenv out h hs hg hrel hb hx x hx'
  unfold toParts at h
  obtain ⟨j, rc, rd, rr, hj, hrc, hrd, hstd, hrr, rfl⟩ := pluralJoin_some h
  obtain ⟨c1, c2, c3⟩ := toPCases_scope ae cases buf sc rc hrc hs
  obtain ⟨d1, _, d3⟩ := toParts_scope ae dflt buf rc.2 rd hrd c1
  have hgc : GoodBuf rc.2 buf := goodBuf_of_stack hg c2 c3
  have hgd : GoodBuf rd.2 buf := goodBuf_of_stack hg hstd (Nat.le_trans c3 d3)
  simp only [refParts] at hx'
  obtain ⟨vv, hvv, hx'⟩ := out_bind_val hx'
  simp only [execStmts] at hx
  rcases sres_bind_error hx with hx1 | ⟨e1, hx1, hx2⟩
  · -- the switch throws
    simp only [execStmt] at hx1
    rcases withVal_error hx1 with hve | ⟨jv, hjv, hx1⟩
    · exact expr_no_throw sc env jenv hrel value j hj hve vv hvv
    · obtain ⟨vv', hvv', hvj⟩ := C04c.gen_correct_refs_partial sc env jenv hrel value j jv hj hjv
      rw [hvv] at hvv'
      simp only [Out.val.injEq] at hvv'
      subst hvv'
      cases jv with
      | num i =>
        have := toJsV_int hvj
        subst this
        simp only at hx1 hx'
        obtain ⟨r1, h1, _⟩ := out_bind_val hx'
        cases hp : execPlural F G fuel rc.1 i jenv with
        | some res =>
          rw [hp] at hx1
          simp only at hx1
          subst hx1
          obtain ⟨ro, hro, hne⟩ := nec fuel sc rc env jenv out i hrc hs hg hrel hb hp
          rw [hro] at h1
          exact hne r1 h1
        | none =>
          rw [hp] at hx1
          simp only at hx1
          have hn := (okc fuel sc rc env jenv out i hrc hs hg hrel hb).1 hp
          rw [hn] at h1
          simp only at h1
          exact ned fuel rc.2 rd env jenv out hrd c1 hgc (envRel_stack hrel c2) hb hx1 r1 h1
      | undefined => cases hx1
      | null => cases hx1
      | bool _ => cases hx1
      | str _ => cases hx1
      | arr _ => cases hx1
      | obj _ => cases hx1
  · -- the switch completed; the rest throws
    have hone : execStmts F G fuel (.cons (.pluralS j rc.1 rd.1) .nil) jenv = .ok e1 := by
      simp only [execStmts, hx1, SRes.bind]
    have hpart : toParts ae buf (.plural p vn value cases dp dflt .nil) sc = some (.cons (.pluralS j rc.1 rd.1) .nil, rd.2) := by
      unfold toParts
      simp [pluralJoin, hj, hrc, hrd, hstd, toParts]
    obtain ⟨t1, env1, ht1, hrel1, hb1, _⟩ := parts_plural_ok F G R ae buf p vn value cases dp dflt .nil okc okd
      (parts_nil_ok F G R ae buf) fuel sc _ env jenv e1 out hpart hs hg hrel hb hone
    simp only [refParts, hvv, Spec.Eval.Out.bind] at ht1
    cases vv <;> simp only [reduceCtorEq] at ht1 hx'
    rename_i i
    obtain ⟨r1, h1, hx'⟩ := out_bind_val hx'
    rw [h1] at ht1
    simp only [Spec.Eval.Out.bind, List.append_nil, Out.val.injEq, Prod.mk.injEq] at ht1
    obtain ⟨r2, h2, _⟩ := out_bind_val hx'
    obtain ⟨e1t, e1e⟩ := ht1
    rw [e1e] at h2
    rw [← e1t] at hb1
    exact ner fuel rd.2 rr env1 e1 (out ++ r1.1) hrr d1 hgd hrel1 hb1 hx2 r2 h2

theorem msg_ne (p id : Nat) (m d : Bytes) (bp : Nat) (body : MsgParts) (ih : PartsNe F G R ae buf body) :
    CmdNe F G R ae buf (.msg p id m d bp body) := by
  intro fuel sc r env jenv out h hs hg hrel hb hx
  unfold toCmd at h
  obtain ⟨rb, hrb, rfl⟩ := msgJoin_some h
  simp only [refCmd]
  exact out_bind_not_val (ih fuel sc.push rb env jenv out hrb (scOk_push hs.2) (goodBuf_push hg) (envRel_push hrel) hb hx)

/-! ### call -/

/-- the callee oracle throws only where the reference's `call` does not render -/
def CallRelE : Prop :=
  ∀ (name : Bytes) (ce : Spec.Eval.CallEnv) (jd : List (Bytes × JVal)) (jij : Option (List (Bytes × JVal))),
    C04c.toJsKvs ce.entry = some jd → IjRel ce.ij jij → GlobRel ce.globals → G name (.obj jd) jij = .error →
    ∀ callee out, Registry.lookup R.reg name = some callee → R.call callee ce ≠ .val out

/-- the params of a call: where the statements that fill the content params' buffers throw, or the `key: value`
    list throws when evaluated afterwards, the reference has no params -/
def ParamsNe (ps : ParamList) : Prop :=
  ∀ (fuel : Nat) (sc : Scope) (r : JsStmts × List (Bytes × JsExpr) × Scope) (env : SEnv) (jenv : JEnv),
    toParams ae ps sc = some r → ScOk sc → EnvRel R.entry sc env jenv →
    (execStmts F G fuel r.1 jenv = .error → ∀ bs, refParams F R ae ps env ≠ .val bs) ∧
    (∀ (jenvF jenv2 : JEnv) (acc : List (Bytes × JVal)), execStmts F G fuel r.1 jenv = .ok jenvF →
      KeepsAll r.2.2.n jenvF jenv2 → evalParams jenv2 r.2.1 acc = .inl .error → ∀ bs, refParams F R ae ps env ≠ .val bs)

theorem params_nil_ne : ParamsNe F G R ae .nil := by
  intro fuel sc r env jenv h hs hrel
  simp only [toParams, Option.some.injEq] at h; subst h
  refine ⟨fun hx => by simp [execStmts] at hx, fun _ _ _ _ _ hev => by simp [evalParams] at hev⟩

theorem params_value_ne (p : Nat) (key : Bytes) (e : Expr) (rest : ParamList) (ihok : ParamsOk F G R ae rest)
    (iht : ParamsNe F G R ae rest) : ParamsNe F G R ae (.value p key e rest) := by
  intro fuel sc r env jenv h hs hrel
  unfold toParams at h
  obtain ⟨j, rr, hj, hrr, hr⟩ := valueParamJoin_some h rfl
  simp only [Option.some.injEq] at hr; subst hr
  obtain ⟨t1, t2⟩ := iht fuel sc rr env jenv hrr hs hrel
  obtain ⟨_, b2⟩ := toParams_scope ae rest sc rr hrr hs
  refine ⟨?_, ?_⟩
  · intro hx bs hbs
    simp only [refParams] at hbs
    obtain ⟨v, _, hbs⟩ := out_bind_val hbs
    obtain ⟨r', hr', _⟩ := out_bind_val hbs
    exact t1 hx r' hr'
  · intro jenvF jenv2 acc hx hk2 hev bs hbs
    simp only [refParams] at hbs
    obtain ⟨v, hv, hbs⟩ := out_bind_val hbs
    obtain ⟨r', hr', _⟩ := out_bind_val hbs
    obtain ⟨kt, _⟩ := ihok fuel sc rr env jenv jenvF hrr hs hrel hx
    have hrel2 : EnvRel R.entry sc env jenv2 := envRel_keepAll hrel (kt.trans hk2 b2) hs.2 (Nat.le_refl _) rfl
    simp only [evalParams] at hev
    cases hjv : eval jenv2 j with
    | error => exact expr_no_throw sc env jenv2 hrel2 e j hj hjv v hv
    | unspec => rw [hjv] at hev; simp at hev
    | val jv =>
      rw [hjv] at hev
      exact t2 jenvF jenv2 ((key, jv) :: acc) hx hk2 hev r' hr'

theorem params_content_ne (p : Nat) (key : Bytes) (body : Block) (rest : ParamList)
    (ihb : ∀ buf', BlockOk F G R ae buf' body) (ihn : ∀ buf', BlockNe F G R ae buf' body)
    (ihok : ParamsOk F G R ae rest) (iht : ParamsNe F G R ae rest) : ParamsNe F G R ae (.content p key body rest) := by
  intro fuel sc r env jenv h hs hrel
  unfold toParams at h
  obtain ⟨rb, rr, hrb, hrr, rfl⟩ := contentParamJoin_some h
  have hname : (b!"param" : Bytes).contains 36 = false := by decide
  refine ⟨?_, ?_⟩
  · intro hx bs hbs
    simp only [refParams] at hbs
    obtain ⟨text', ht', hbs⟩ := out_bind_val hbs
    obtain ⟨r', hr', _⟩ := out_bind_val hbs
    rw [execStmts_append] at hx
    rcases sres_bind_error hx with h1 | ⟨e1, h1, hx2⟩
    · -- the body throws
      have hs' : ScOk (sc.genname b!"param").2 := scOk_of_stack hs rfl (Nat.le_succ _)
      have hg' : GoodBuf (sc.genname b!"param").2 (sc.genname b!"param").1 :=
        ⟨old_jsname hname (Or.inl rfl) (Nat.le_refl _), fun f hf kv hkv => (hs.2 f hf kv hkv).2 b!"param" [] (sc.n + 1) hname
          (Or.inl rfl) (Nat.lt_succ_self _)⟩
      simp only [execStmts] at h1
      rcases sres_bind_error h1 with h0 | ⟨e0, h0, h1⟩
      · simp [execStmt] at h0
      simp only [execStmt, SRes.ok.injEq] at h0
      subst h0
      have k1 : Keeps (sc.genname b!"param").1 sc.n jenv (setLocal jenv (sc.genname b!"param").1 (.str [])) :=
        keeps_setNew _ sc.n jenv hname (Or.inl rfl) (Nat.lt_succ_self _) _
      have hrel1 : EnvRel R.entry (sc.genname b!"param").2 env (setLocal jenv (sc.genname b!"param").1 (.str [])) :=
        envRel_keep hrel k1 hs.2 (Nat.le_refl _) hg'.2 rfl
      exact ihn (sc.genname b!"param").1 fuel _ rb env _ [] hrb hs' hg' hrel1 (find_setLocal_eq _ _ _) h1 text' ht'
    · obtain ⟨text, ht, hb', hka, hrelt, hs1, a2', _⟩ := content_param_run F G R ae body ihb hrb hs hrel h1
      exact (iht fuel rb.2 rr env e1 hrr hs1 hrelt).1 hx2 r' hr'
  · intro jenvF jenv2 acc hx hk2 hev bs hbs
    simp only [refParams] at hbs
    obtain ⟨text', ht', hbs⟩ := out_bind_val hbs
    obtain ⟨r', hr', _⟩ := out_bind_val hbs
    rw [execStmts_append] at hx
    obtain ⟨e1, h1, hx2⟩ := sres_bind_ok hx
    obtain ⟨text, ht, hb', hka, hrelt, hs1, a2', _⟩ := content_param_run F G R ae body ihb hrb hs hrel h1
    obtain ⟨_, b2⟩ := toParams_scope ae rest rb.2 rr hrr hs1
    obtain ⟨kt, _⟩ := ihok fuel rb.2 rr env e1 jenvF hrr hs1 hrelt hx2
    simp only [evalParams] at hev
    rw [content_param_find a2' b2 hb' kt hk2] at hev
    exact (iht fuel rb.2 rr env e1 hrr hs1 hrelt).2 jenvF jenv2 _ hx2 hk2 hev r' hr'

theorem base_ne {sc : Scope} {env : SEnv} {jenv : JEnv} (hrel : EnvRel R.entry sc env jenv) {allData : Bool}
    {data : Option Expr} {base : DataBase} (hbase : callBase sc allData data = some base)
    (hbv : evalBase jenv base = .error) : ∀ bd, refBase R allData data env ≠ .val bd := by
  cases allData <;> cases data <;> simp only [callBase, Option.some.injEq, Option.map_eq_some_iff, reduceCtorEq] at hbase
  · subst hbase; simp [evalBase] at hbv
  · obtain ⟨j, hj, rfl⟩ := hbase
    simp only [evalBase] at hbv
    intro bd hbd
    simp only [refBase, Bool.false_eq_true, if_false] at hbd
    obtain ⟨v, hv, _⟩ := out_bind_val hbd
    exact expr_no_throw sc env jenv hrel _ j hj hbv v hv
  · subst hbase; simp [evalBase] at hbv

theorem call_ne (hGe : CallRelE G R) (p : Nat) (name : Bytes) (allData : Bool) (data : Option Expr)
    (params : ParamList) (ihok : ParamsOk F G R ae params) (ihne : ParamsNe F G R ae params) :
    CmdNe F G R ae buf (.call p name allData data params) := by
  intro fuel sc r env jenv out h hs hg hrel hb hx x hx'
  unfold toCmd at h
  obtain ⟨base, rp, hbase, hrp, rfl⟩ := callJoin_some h
  simp only [refCmd] at hx'
  cases hlk : Registry.lookup R.reg name with
  | none => simp [hlk] at hx'
  | some callee =>
    simp only [hlk] at hx'
    obtain ⟨bd, hbd, hx'⟩ := out_bind_val hx'
    obtain ⟨bs, hbs, hx'⟩ := out_bind_val hx'
    obtain ⟨outc, hc, _⟩ := out_bind_val hx'
    obtain ⟨n1, n2⟩ := ihne fuel sc rp env jenv hrp hs hrel
    rw [execStmts_append] at hx
    rcases sres_bind_error hx with hx1 | ⟨jenvF, hx1, hx2⟩
    · exact n1 hx1 bs hbs
    · rw [execStmts_one] at hx2
      simp only [execStmt] at hx2
      obtain ⟨kp, hpp⟩ := ihok fuel sc rp env jenv jenvF hrp hs hrel hx1
      have hrelF : EnvRel R.entry sc env jenvF := envRel_keepAll hrel kp hs.2 (Nat.le_refl _) rfl
      have hbF : BufIs buf jenvF out := by unfold BufIs; rw [kp.2.2 buf hg.1]; exact hb
      rcases withVal_error hx2 with hbe | ⟨bv, hbv, hx2⟩
      · exact base_ne R hrelF hbase hbe bd hbd
      · cases bv with
        | obj bkvs =>
          cases hep : evalParams jenvF rp.2.1 [] with
          | inl o =>
            rw [hep] at hx2
            cases o with
            | error => exact n2 jenvF jenvF [] hx1 (KeepsAll.refl _ _) hep bs hbs
            | unspec => cases hx2
            | val _ => cases hx2
          | inr extra =>
            rw [hep] at hx2
            simp only at hx2
            obtain ⟨bs', jbs, hr, hjb, he⟩ := hpp jenvF [] extra (KeepsAll.refl _ _) hep
            simp only [List.append_nil] at he; subst he
            rw [hbs] at hr
            simp only [Out.val.injEq] at hr; subst hr
            obtain ⟨bd', hbd', hbj⟩ := base_ok R hrelF hbase hbv
            rw [hbd] at hbd'
            simp only [Out.val.injEq] at hbd'; subst hbd'
            rcases withVal_error hx2 with hge | ⟨rv, _, hx2⟩
            · exact hGe name ⟨bs ++ bd, env.ij, env.globals⟩ (extra ++ bkvs) jenvF.ijData (toJsKvs_append _ _ _ _ hjb hbj)
                hrelF.2.2.2.1 hrelF.2.2.2.2 hge callee outc hlk hc
            · exact appendTo_ne_error hbF rv hx2
        | undefined => cases hx2
        | null => cases hx2
        | bool _ => cases hx2
        | num _ => cases hx2
        | str _ => cases hx2
        | arr _ => cases hx2

variable (hG : CallRel G R) (hGe : CallRelE G R)
include hG hGe

mutual
  theorem cmd_ne : ∀ (c : Cmd) (buf : Bytes), CmdNe F G R ae buf c
    | .rawText p t, buf => rawText_ne F G R ae buf p t
    | .print p arg dirs, buf => print_ne F G R ae buf p arg dirs
    | .letValue p x e, buf => letValue_ne F G R ae buf p x e
    | .ifc p conds, buf => ifc_ne F G R ae buf p conds (conds_ne conds buf)
    | .switch p value cases, buf => switch_ne F G R ae buf p value cases (cases_ne cases buf)
    | .forc p v list body none, buf => forc_none_ne F G R ae buf p v list body (body_ok' F G R ae hG body buf) (body_ne' body buf)
    | .forc p v list body (some ie), buf =>
      forc_some_ne F G R ae buf p v list body ie (body_ok' F G R ae hG body buf) (body_ne' body buf) (block_ne' ie buf)
    | .letContent p name body, buf => letContent_ne F G R ae buf p name body (fun b' => block_ne' body b')
    | .msg p id m d bp body, buf => msg_ne F G R ae buf p id m d bp body (parts_ne body buf)
    | .css p none suffix, buf => css_none_ne F G R ae buf p suffix
    | .css p (some e) suffix, buf => css_some_ne F G R ae buf p e suffix
    | .debugger p, buf => debugger_ne F G R ae buf p
    | .log .., _ => fun _ _ _ _ _ _ h => by simp [toCmd] at h
    | .call p name allData data params, buf =>
      call_ne F G R ae buf hGe p name allData data params (params_ok F G R ae hG params) (params_ne params)
    | .headerParam .., _ => fun _ _ _ _ _ _ h => by simp [toCmd] at h
    | .namespace .., _ => fun _ _ _ _ _ _ h => by simp [toCmd] at h
    | .template .., _ => fun _ _ _ _ _ _ h => by simp [toCmd] at h
    | .soyDoc .., _ => fun _ _ _ _ _ _ h => by simp [toCmd] at h
  theorem parts_ne : ∀ (ps : MsgParts) (buf : Bytes), PartsNe F G R ae buf ps
    | .nil, buf => parts_nil_ne F G R ae buf
    | .text p t rest, buf => parts_text_ne F G R ae buf p t rest (parts_ne rest buf)
    | .ph p name body rest, buf =>
      parts_ph_ne F G R ae buf p name body rest (ph_ok F G R ae hG body buf) (ph_ne body buf) (parts_ne rest buf)
    | .plural p vn value cases dp dflt rest, buf =>
      parts_plural_ne F G R ae buf p vn value cases dp dflt rest (pcases_ok F G R ae hG cases buf) (parts_ok F G R ae hG dflt buf)
        (pcases_ne cases buf) (parts_ne dflt buf) (parts_ne rest buf)
  theorem pcases_ne : ∀ (cs : PluralCases) (buf : Bytes), PCasesNe F G R ae buf cs
    | .nil, buf => pcases_nil_ne F G R ae buf
    | .cons p v bp body rest, buf => pcases_cons_ne F G R ae buf p v bp body rest (parts_ne body buf) (pcases_ne rest buf)
  theorem ph_ne : ∀ (b : MsgPhBody) (buf : Bytes), PhNe F G R ae buf b
    | .htmlTag p t, buf => ph_tag_ne F G R ae buf p t
    | .cmd c, buf => ph_cmd_ne F G R ae buf c (cmd_ne c buf)
  theorem params_ne : ∀ (ps : ParamList), ParamsNe F G R ae ps
    | .nil => params_nil_ne F G R ae
    | .value p key e rest => params_value_ne F G R ae p key e rest (params_ok F G R ae hG rest) (params_ne rest)
    | .content p key body rest =>
      params_content_ne F G R ae p key body rest (fun b' => block_ok' F G R ae hG body b') (fun b' => block_ne' body b')
        (params_ok F G R ae hG rest) (params_ne rest)
  theorem body_ne' : ∀ (b : Block) (buf : Bytes), BodyNe F G R ae buf b
    | .mk p cmds, buf => body_ne F G R ae buf p cmds (cmds_ne cmds buf)
  theorem block_ne' : ∀ (b : Block) (buf : Bytes), BlockNe F G R ae buf b
    | .mk p cmds, buf => block_ne F G R ae buf p cmds (cmds_ne cmds buf)
  theorem cmds_ne : ∀ (cs : CmdList) (buf : Bytes), CmdsNe F G R ae buf cs
    | .nil, buf => cmds_nil_ne F G R ae buf
    | .cons c rest, buf => cmds_cons_ne F G R ae buf hG c rest (cmd_ne c buf) (cmds_ne rest buf)
  theorem cases_ne : ∀ (cs : CaseList) (buf : Bytes), CasesNe F G R ae buf cs
    | .nil, buf => cases_nil_ne F G R ae buf
    | .cons p values body rest, buf => cases_cons_ne F G R ae buf p values body rest (block_ne' body buf) (cases_ne rest buf)
  theorem conds_ne : ∀ (cs : CondList) (buf : Bytes), CondsNe F G R ae buf cs
    | .nil, buf => conds_nil_ne F G R ae buf
    | .cons p (some c) body rest, buf => conds_some_ne F G R ae buf p c body rest (block_ne' body buf) (conds_ne rest buf)
    | .cons p none body rest, buf => conds_else_ne F G R ae buf p body rest (block_ne' body buf)
end

/-- PARTIAL (C04, the converse for the command fragment): if the reference semantics renders the commands
    to `t` in `env`, then running the emitted statements from a related JavaScript environment — any
    fuel, any interpretation `F` of the directive functions — either COMPLETES with the buffer holding its
    old content followed by exactly `t`, or leaves the common subset (`unspec`: an integer a double does
    not hold exactly, a print of a list or a map, a comparison outside the subset, the loop bound
    `fuel`).  It never throws.  `{call}`: under `CallRel` and `CallRelE` (the callee's function returns the text the
    reference's `call` renders, and throws only where `call` does not render). -/
theorem gen_complete_cmds_partial (cmds : CmdList) (sc : Scope) (r : JsStmts × Scope) (h : toCmds ae buf cmds sc = some r)
    (env : SEnv) (jenv : JEnv) (out : Bytes) (hs : ScOk sc) (hg : GoodBuf sc buf) (hrel : EnvRel R.entry sc env jenv)
    (hb : BufIs buf jenv out) (t : Bytes) (ht : refCmds F R ae cmds env = .val t) (fuel : Nat) :
    (∃ jenv', execStmts F G fuel r.1 jenv = .ok jenv' ∧ BufIs buf jenv' (out ++ t)) ∨ execStmts F G fuel r.1 jenv = .unspec := by
  cases hx : execStmts F G fuel r.1 jenv with
  | ok jenv' =>
    obtain ⟨text, ht', hb', _⟩ := cmds_ok F G R ae hG cmds buf fuel sc r env jenv jenv' out h hs hg hrel hb hx
    rw [ht] at ht'
    simp only [Out.val.injEq] at ht'
    subst ht'
    exact Or.inl ⟨jenv', rfl, hb'⟩
  | error => exact absurd ht (cmds_ne F G R ae hG hGe cmds buf fuel sc r env jenv out h hs hg hrel hb hx t)
  | unspec => exact Or.inr rfl

/-- the same, read as "no TypeError where the reference renders" -/
theorem gen_no_throw_cmds_partial (cmds : CmdList) (sc : Scope) (r : JsStmts × Scope)
    (h : toCmds ae buf cmds sc = some r) (env : SEnv) (jenv : JEnv) (out : Bytes) (hs : ScOk sc) (hg : GoodBuf sc buf)
    (hrel : EnvRel R.entry sc env jenv) (hb : BufIs buf jenv out) (t : Bytes) (ht : refCmds F R ae cmds env = .val t) (fuel : Nat) :
    execStmts F G fuel r.1 jenv ≠ .error := by
  intro hx
  exact cmds_ne F G R ae hG hGe cmds buf fuel sc r env jenv out h hs hg hrel hb hx t ht

end

/-! ## the callee oracle, discharged: calls to any depth

  The oracle the call theorems assume (`CallRel`, `CallRelE`) instantiated with what a generated function DOES —
  `genCall`: look the template up, run the statements of its body (`toCmds` from a fresh scope) from `opt_data` = the
  data object and `output = ''`, return `output` (the function header `opt_data = opt_data || {}`, `var output = ''`,
  `return output` is read into this definition, it is not generator output the theorems talk about) — against the
  reference `refCall`: the callee's body rendered by `refCmds` in the environment its data makes.  Both are indexed
  by the nesting depth of calls they allow; `calls_correct` proves the two hypotheses by induction on it. -/

section
variable (F : Bytes → List Expr → JVal → JOut) (reg : Registry.Reg) (fuel : Nat)

/-- the autoescape mode in force for a template -/
def tmplAe (t : Registry.Tmpl) : Autoescape := if t.autoescape != .unspecified then t.autoescape else t.nsAutoescape

def blockCmds : Block → CmdList
  | .mk _ cmds => cmds

/-- the reference's `call`, by depth: the body of the callee in the environment of its data -/
def refCall : Nat → Registry.Tmpl → Spec.Eval.CallEnv → Out Bytes
  | 0, _, _ => .unspec
  | d + 1, t, ce =>
    refCmds F ⟨reg, ce.entry, refCall d⟩ (tmplAe t) (blockCmds t.body)
      { vars := ce.entry, loops := [], ij := ce.ij, globals := ce.globals }

/-- what the body of a generated function computes from the data object `kvs`, given the functions it may call -/
def genBody (G : Callee) (t : Registry.Tmpl) (kvs : List (Bytes × JVal)) (ij : Option (List (Bytes × JVal))) : JOut :=
  match toCmds (tmplAe t) b!"output" (blockCmds t.body) ⟨[[]], 0⟩ with
  | some r =>
    (match execStmts F G fuel r.1 ⟨kvs, ij, [(b!"output", .str [])]⟩ with
      | .ok e =>
        (match e.locals.find? (·.1 == b!"output") with
          | some (_, .str out) => .val (.str out)
          | _ => .unspec)
      | .error => .error
      | .unspec => .unspec)
  | none => .unspec

/-- the generated functions, by depth -/
def genCall : Nat → Callee
  | 0, _, _, _ => .unspec
  | d + 1, name, data, ij =>
    match data with
    | .obj kvs =>
      (match Registry.lookup reg name with
        | some t => genBody F fuel (genCall d) t kvs ij
        | none => .unspec)
    | _ => .unspec

theorem scOk_fresh (n : Nat) : ScOk ⟨[[]], n⟩ := by
  refine ⟨by simp, ?_⟩
  intro f hf kv hkv
  simp only [List.mem_singleton] at hf
  subst hf
  cases hkv

/-- the callee oracle and the reference's call agree at every depth: the two hypotheses of the call theorems hold
    for the generated functions themselves -/
theorem calls_correct : ∀ (d : Nat) (e : Spec.Eval.Binds),
    CallRel (genCall F reg fuel d) ⟨reg, e, refCall F reg d⟩ ∧ CallRelE (genCall F reg fuel d) ⟨reg, e, refCall F reg d⟩
  | 0, e => ⟨fun _ _ _ _ _ _ _ _ h => by simp [genCall] at h, fun _ _ _ _ _ _ _ h => by simp [genCall] at h⟩
  | d + 1, e => by
    have ih := calls_correct d
    refine ⟨?_, ?_⟩
    · intro name ce jd jij r hj hij hgl hg
      simp only [genCall] at hg
      cases hl : Registry.lookup reg name with
      | none => simp [hl] at hg
      | some t =>
        simp only [hl, genBody] at hg
        split at hg
        · rename_i rr hrr
          split at hg
          · rename_i jenv' hx
            have hbody := gen_correct_body_partial F (genCall F reg fuel d) ⟨reg, ce.entry, refCall F reg d⟩ (tmplAe t)
              (ih ce.entry).1 (blockCmds t.body) 0 rr hrr
              { vars := ce.entry, loops := [], ij := ce.ij, globals := ce.globals } jd jij rfl hj hij hgl jenv' fuel hx
            obtain ⟨text, ht, hb⟩ := hbody
            unfold BufIs at hb
            rw [hb] at hg
            simp only [JOut.val.injEq] at hg
            exact ⟨t, text, rfl, ht, hg.symm⟩
          · cases hg
          · cases hg
        · cases hg
    · intro name ce jd jij hj hij hgl hg callee out hlk
      simp only [Registry.lookup] at hlk
      simp only [genCall, Registry.lookup, hlk, genBody] at hg
      split at hg
      · rename_i rr hrr
        split at hg
        · split at hg <;> cases hg
        · rename_i hx
          intro hc
          have hrel : EnvRel ce.entry ⟨[[]], 0⟩ { vars := ce.entry, loops := [], ij := ce.ij, globals := ce.globals }
              ⟨jd, jij, [(b!"output", .str [])]⟩ :=
            C04c.envRel_params _ { vars := ce.entry, loops := [], ij := ce.ij, globals := ce.globals } _
              (fun k => by simp [Scope.lookup, Scope.lookupIn, frameGet?]) hj hij hgl
          exact gen_no_throw_cmds_partial F (genCall F reg fuel d) ⟨reg, ce.entry, refCall F reg d⟩ (tmplAe callee) b!"output"
            (ih ce.entry).1 (ih ce.entry).2 (blockCmds callee.body) ⟨[[]], 0⟩ rr hrr _ _ [] (scOk_fresh 0)
            (goodBuf_plain 0 _ (by decide)) hrel (by simp [BufIs]) out hc fuel hx
        · cases hg
      · cases hg

/-- PARTIAL (C04, a template with the templates it calls, to any depth): the body of a template of the fragment, its
    `{call}`s answered by the generated functions themselves (`genCall`, depth `d`) — when its statements complete,
    `output` holds what the reference renders with the callees' bodies as `call` (`refCall`, the shape of
    Spec/Eval.renderTmpl).  No hypothesis about the callees is left: `calls_correct` supplies it. -/
theorem gen_correct_program_partial (ae : Autoescape) (d : Nat) (body : CmdList) (n : Nat) (r : JsStmts × Scope)
    (h : toCmds ae b!"output" body ⟨[[]], n⟩ = some r) (env : SEnv) (optData : List (Bytes × JVal))
    (ij : Option (List (Bytes × JVal))) (hdata : C04c.toJsKvs env.vars = some optData) (hij : IjRel env.ij ij)
    (hgl : GlobRel env.globals) (jenv' : JEnv) (fuel' : Nat)
    (hx : execStmts F (genCall F reg fuel d) fuel' r.1 ⟨optData, ij, [(b!"output", .str [])]⟩ = .ok jenv') :
    ∃ text, refCmds F ⟨reg, env.vars, refCall F reg d⟩ ae body env = .val text ∧ BufIs b!"output" jenv' text :=
  gen_correct_body_partial F (genCall F reg fuel d) ⟨reg, env.vars, refCall F reg d⟩ ae (calls_correct F reg fuel d env.vars).1
    body n r h env optData ij rfl hdata hij hgl jenv' fuel' hx

/-- … and the converse: where the reference renders, the statements complete with that text or leave the common
    subset; no callee throws -/
theorem gen_complete_program_partial (ae : Autoescape) (d : Nat) (body : CmdList) (r : JsStmts × Scope)
    (h : toCmds ae b!"output" body ⟨[[]], 0⟩ = some r) (env : SEnv) (optData : List (Bytes × JVal))
    (ij : Option (List (Bytes × JVal))) (hdata : C04c.toJsKvs env.vars = some optData) (hij : IjRel env.ij ij)
    (hgl : GlobRel env.globals) (fuel' : Nat) (t : Bytes)
    (ht : refCmds F ⟨reg, env.vars, refCall F reg d⟩ ae body env = .val t) :
    (∃ jenv', execStmts F (genCall F reg fuel d) fuel' r.1 ⟨optData, ij, [(b!"output", .str [])]⟩ = .ok jenv' ∧
      BufIs b!"output" jenv' t) ∨
    execStmts F (genCall F reg fuel d) fuel' r.1 ⟨optData, ij, [(b!"output", .str [])]⟩ = .unspec := by
  have hrel : EnvRel env.vars ⟨[[]], 0⟩ env ⟨optData, ij, [(b!"output", .str [])]⟩ :=
    C04c.envRel_params _ env _ (fun k => by simp [Scope.lookup, Scope.lookupIn, frameGet?]) hdata hij hgl
  have := gen_complete_cmds_partial F (genCall F reg fuel d) ⟨reg, env.vars, refCall F reg d⟩ ae b!"output"
    (calls_correct F reg fuel d env.vars).1 (calls_correct F reg fuel d env.vars).2 body ⟨[[]], 0⟩ r h env _ [] (scOk_fresh 0)
    (goodBuf_plain 0 _ (by decide)) hrel (by simp [BufIs]) t ht fuel'
  simpa using this

end

end Dev

/-! ## non-vacuity -/

section Examples
open SoyVerif.Spec.Eval (Val Out)
open SoyVerif.Props.C04d
local instance : Globals := exGlobals


/-- `A{$m.q.z}B` -/
def throwCmds : CmdList :=
  .cons (.rawText 0 b!"A") (.cons (.print 0 (.dataRef 0 b!"m" (.cons (.key 0 false b!"q") (.cons (.key 0 false b!"z") .nil))) [])
    (.cons (.rawText 0 b!"B") .nil))

def throwRun (m : JVal) : Option SRes :=
  (toCmds .off b!"output" throwCmds ⟨[[]], 0⟩).map fun r =>
    execStmts sampleF noCall 5 r.1 ⟨[(b!"m", m)], none, [(b!"output", .str [])]⟩

-- `q` missing: JavaScript throws (a property of undefined), and the reference semantics has no text either
example : (throwRun (.obj [(b!"a", .num 1)])).map (fun r => match r with | .error => true | _ => false) = some true := rfl
example : refCmds sampleF noRef .off throwCmds
    { vars := [(b!"m", .map [(b!"a", .int 1)])], loops := [], ij := none, globals := [] } = .error := rfl
-- `q` present: the reference renders, so (gen_complete_cmds_partial) the statements do not throw — they complete
example : refCmds sampleF noRef .off throwCmds
    { vars := [(b!"m", .map [(b!"q", .map [(b!"z", .int 7)])])], loops := [], ij := none, globals := [] } = .val b!"A7B" := rfl
example : (throwRun (.obj [(b!"q", .obj [(b!"z", .num 7)])])).map (fun r => match r with
    | .ok e => (e.locals.find? (·.1 == b!"output")).map (·.2)
    | _ => none) = some (some (.str b!"A7B")) := rfl

/-- the template `sem.c`: `{$p}:{$c|noAutoescape}:{$a}` -/
def calleeT : Registry.Tmpl :=
  { (default : Registry.Tmpl) with
    name := b!"sem.c", autoescape := .on, nsAutoescape := .on,
    body := .mk 0 (.cons (.print 0 (.dataRef 0 b!"p" .nil) []) (.cons (.rawText 0 b!":")
      (.cons (.print 0 (.dataRef 0 b!"c" .nil) [⟨0, b!"noAutoescape", []⟩]) (.cons (.rawText 0 b!":")
      (.cons (.print 0 (.dataRef 0 b!"a" .nil) []) .nil))))) }

-- `sampleCall` (Props/C04d: `[{call sem.c data="all"}{param p: $a + 1 /}{param c}<{$a}>{/param}{/call}]`) with the
-- generated function of `sem.c` as the callee: the run, the reference, and `gen_correct_program_partial` on it
example : (match toCmds .on b!"output" sampleCall ⟨[[]], 0⟩ with
    | some r => (match execStmts sampleF (genCall sampleF [calleeT] 10 2) 10 r.1 (sampleJEnv 5) with
      | .ok e => (e.locals.find? (·.1 == b!"output")).map (·.2)
      | _ => none)
    | none => none) = some (.str b!"[6:<5>:5]") := rfl

example : refCmds sampleF ⟨[calleeT], (sampleEnv 5).vars, refCall sampleF [calleeT] 2⟩ .on sampleCall (sampleEnv 5) =
    .val b!"[6:<5>:5]" := rfl

example (a : Int) (ha : SoyVerif.Spec.JsSem.exact a = true) (jenv' : JEnv) (r : JsStmts × Scope)
    (h : toCmds .on b!"output" sampleCall ⟨[[]], 0⟩ = some r)
    (hx : execStmts sampleF (genCall sampleF [calleeT] 10 2) 10 r.1 (sampleJEnv a) = .ok jenv') :
    ∃ text, refCmds sampleF ⟨[calleeT], (sampleEnv a).vars, refCall sampleF [calleeT] 2⟩ .on sampleCall (sampleEnv a) = .val text ∧
      BufIs b!"output" jenv' text :=
  gen_correct_program_partial sampleF [calleeT] 10 .on 2 sampleCall 0 r h (sampleEnv a) _ none
    (by simp [sampleEnv, C04c.toJsKvs, C04c.toJsV, ha]) rfl (exGlobRel _) jenv' 10 hx

-- depth 0 allows no call: the semantics says nothing (`unspec`), and so does the reference
example : (match toCmds .on b!"output" sampleCall ⟨[[]], 0⟩ with
    | some r => (match execStmts sampleF (genCall sampleF [calleeT] 10 0) 10 r.1 (sampleJEnv 5) with
      | .unspec => true
      | _ => false)
    | none => false) = true := rfl

end Examples

end SoyVerif.Props.C04e
