/-
  C15 (source level): template bodies made of text and print tags, from the BYTES to the nodes.

  `Body := List Piece`, a piece being a stretch of text or a print tag `{$ident}`.  For every
  well-formed body `b` (`WF`: text pieces non-empty, ASCII, without `{` `}`, a `/` only when the
  byte after it is neither `/` nor `*`; identifiers `[A-Za-z_][A-Za-z0-9_]*`; no two text pieces
  adjacent) `body_source_spec` states what `parse.SoyFile` does with the source `srcOf b`:

  * the lexer (`lexAll`) sends `itemsOf 0 b`: one Text item per text piece that is not dropped —
    a piece is dropped iff it is all whitespace with a line break (`allSpaceWithNewline`, cf.
    `textItems_nil_whitespace` of Props/C15b) — positioned at the end of the piece, the three items
    LeftDelim / DollarIdent / RightDelim per tag, and the EOF item;
  * the parser (`parseFile`, through `itemList` / `textOrTag`) builds `nodesOf 0 b`: for every text
    piece that is not dropped and whose `joinLines t false false` is not empty the node
    `RawText (joinLines t false false)` at the end position of the piece, for every tag the Print
    node of the data reference, in the order of the pieces.  Both trim flags are false (there are
    no comments in this family).

  `body_source_spec_comments` (second part) is the same for bodies that also contain block comments
  `/*c*/`: a Comment item per comment, no node for it, and the text piece directly before / after a
  comment is normalised with `trimAfter` / `trimBefore` (`cnodesOf`).

  Built on the cut theorems of Props/C15b (`lexText_cut_open`, `lexText_cut_eof`,
  `lexText_cut_block`, `textOrTag_text_spec`) and exact evaluations of the six state functions a tag runs through.
-/
import SoyVerif.Props.C15b

namespace SoyVerif.Props.C15c
open SoyVerif SoyVerif.Model SoyVerif.Model.Parser SoyVerif.Model.FileParser SoyVerif.Lemmas.ParserSafe
open SoyVerif.Spec SoyVerif.Props.C15b
open Lex

/-! ## the primitives on an explicit lexer record -/

theorem next_mk (inp : Array UInt8) (q : Nat) (s w : Int) (dd : Bool) (ts : Int) (le : Item) (its : Array Item)
    (c : Nat) (hq : q < inp.size) (hb : byteAt inp q = c) (hc : c < 128) :
    (Lexer.mk inp q s w dd ts le its).next = some ((c : Int), Lexer.mk inp ((q + 1 : Nat) : Int) s 1 dd ts le its) := by
  have h := next_ascii (l := Lexer.mk inp q s w dd ts le its) (by show (0 : Int) ≤ q; omega)
    (by show (q : Int) < (inp.size : Int); omega) (by show byteAt inp (q : Int).toNat < 128; simp; omega)
  rw [h]
  simp only [Int.toNat_natCast, hb, Int.natCast_add, Int.cast_ofNat_Int]

theorem next_mk_eof (inp : Array UInt8) (q : Nat) (s w : Int) (dd : Bool) (ts : Int) (le : Item) (its : Array Item)
    (hq : inp.size ≤ q) :
    (Lexer.mk inp q s w dd ts le its).next = some (eof, Lexer.mk inp q s 0 dd ts le its) := by
  rw [next_eof (by show (inp.size : Int) ≤ (q : Int); omega)]

theorem backup_mk (inp : Array UInt8) (q : Nat) (s : Int) (dd : Bool) (ts : Int) (le : Item) (its : Array Item) :
    (Lexer.mk inp ((q + 1 : Nat) : Int) s 1 dd ts le its).backup = Lexer.mk inp q s 1 dd ts le its := by
  simp only [Lexer.backup, Int.natCast_add, Int.cast_ofNat_Int, Int.add_sub_cancel]

theorem emit_mk (inp : Array UInt8) (a q : Nat) (w : Int) (dd : Bool) (ts : Int) (le : Item) (its : Array Item)
    (t : ItemType) (h1 : a ≤ q) (h2 : q ≤ inp.size) :
    (Lexer.mk inp q a w dd ts le its).emit t =
      some (Lexer.mk inp q q w dd ts ⟨t, q, (inp.extract a q).toList⟩ (its.push ⟨t, q, (inp.extract a q).toList⟩)) := by
  rw [emit_eq t (by show (0 : Int) ≤ a; omega) (by show (a : Int) ≤ q; omega) (by show (q : Int) ≤ (inp.size : Int); omega)]
  simp only [Int.toNat_natCast]


/-! ## table facts (the generated Unicode range tables on ASCII) -/

theorem inRanges_list (t : Array (Nat × Nat × Nat)) (r : Nat) :
    Lex.inRanges t r = t.toList.any fun e => e.1 ≤ r && r ≤ e.2.1 && (r - e.1) % e.2.2 == 0 := by
  unfold Lex.inRanges; rw [Array.any_toList]

theorem letterU_ascii : ∀ n : Fin 128,
    isLetterU (n.val : Int) = decide ((65 ≤ n.val ∧ n.val ≤ 90) ∨ (97 ≤ n.val ∧ n.val ≤ 122)) := by
  intro n
  unfold isLetterU
  rw [inRanges_list]
  revert n
  decide +kernel

theorem alnum_ascii : ∀ n : Fin 128,
    isAlphaNumeric (n.val : Int) =
      decide (n.val = 95 ∨ (65 ≤ n.val ∧ n.val ≤ 90) ∨ (97 ≤ n.val ∧ n.val ≤ 122) ∨ (48 ≤ n.val ∧ n.val ≤ 57)) := by
  intro n
  unfold isAlphaNumeric isLetterU isDigitU
  rw [inRanges_list, inRanges_list]
  revert n
  decide +kernel

/-- first byte of an identifier: `[A-Za-z_]` -/
def idStart (c : Nat) : Prop := c = 95 ∨ (65 ≤ c ∧ c ≤ 90) ∨ (97 ≤ c ∧ c ≤ 122)
/-- byte of an identifier: `[A-Za-z0-9_]` -/
def idByte (c : Nat) : Prop := c = 95 ∨ (65 ≤ c ∧ c ≤ 90) ∨ (97 ≤ c ∧ c ≤ 122) ∨ (48 ≤ c ∧ c ≤ 57)

instance (c : Nat) : Decidable (idStart c) := by unfold idStart; infer_instance
instance (c : Nat) : Decidable (idByte c) := by unfold idByte; infer_instance

theorem idStart_idByte {c : Nat} (h : idStart c) : idByte c := by
  unfold idStart at h; unfold idByte; omega

theorem alnum_idByte {c : Nat} (h : idByte c) : isAlphaNumeric (c : Int) = true := by
  have hc : c < 128 := by unfold idByte at h; omega
  have := alnum_ascii ⟨c, hc⟩
  simp only at this
  rw [this]
  exact decide_eq_true h

theorem alnum_close : isAlphaNumeric (125 : Int) = false := alnum_ascii ⟨125, by omega⟩

theorem letter_idStart {c : Nat} (h : idStart c) : ¬ ((c : Int) ≠ 95 ∧ (!isLetterU (c : Int)) = true) := by
  have hc : c < 128 := by unfold idStart at h; omega
  have := letterU_ascii ⟨c, hc⟩
  simp only at this
  rw [this]
  unfold idStart at h
  intro ⟨h1, h2⟩
  simp at h2
  omega

/-- no builtin identifier begins with `$` -/
theorem builtin_no_dollar : ∀ p ∈ Gen.builtinIdents, p.1.head? ≠ some 36 := by decide

theorem lookup_dollar (w : Bytes) : Gen.builtinIdents.lookup (36 :: w) = none := by
  have h := builtin_no_dollar
  generalize Gen.builtinIdents = tbl at h
  induction tbl with
  | nil => rfl
  | cons p r ih =>
    obtain ⟨k, v⟩ := p
    have hk := h (k, v) (by simp)
    have hne : ((36 :: w : Bytes) == k) = false := by
      apply beq_false_of_ne
      intro e; rw [← e] at hk; simp at hk
    simp only [List.lookup, hne]
    exact ih (fun p hp => h p (by simp [hp]))

/-! ## the scanning loop of `lexIdentRest` -/

theorem scanWhile_some {p : Int → Bool} {hp : p eof = false} {l l' : Lexer} {r : Int} (h : l.next = some (r, l')) :
    scanWhile p hp l = if p r = true then scanWhile p hp l' else some (r, l') := by
  rw [scanWhile]
  split
  · rename_i h'; rw [h] at h'; exact absurd h' (by simp)
  · rename_i r' l1 h'
    rw [h] at h'
    simp only [Option.some.injEq, Prod.mk.injEq] at h'
    obtain ⟨rfl, rfl⟩ := h'
    split <;> simp [*]

/-- over the bytes of an identifier, up to and including the `}` behind it -/
theorem scanWhile_ident (inp : Array UInt8) (s : Int) (dd : Bool) (ts : Int) (le : Item) (its : Array Item) :
    ∀ (k q : Nat) (w : Int), q + k < inp.size → (∀ i, i < k → idByte (byteAt inp (q + i))) → byteAt inp (q + k) = 125 →
    scanWhile isAlphaNumeric isAlphaNumeric_eof (Lexer.mk inp q s w dd ts le its) =
      some (125, Lexer.mk inp ((q + k + 1 : Nat) : Int) s 1 dd ts le its) := by
  intro k
  induction k with
  | zero =>
    intro q w hq _ hb
    rw [scanWhile_some (next_mk inp q s w dd ts le its 125 (by omega) hb (by omega))]
    simp only [Int.cast_ofNat_Int, alnum_close, Bool.false_eq_true, if_false, Nat.add_zero]
  | succ k ih =>
    intro q w hq hid hb
    have h0 := hid 0 (by omega)
    have hc : byteAt inp q < 128 := by unfold idByte at h0; simp only [Nat.add_zero] at h0; omega
    rw [scanWhile_some (next_mk inp q s w dd ts le its (byteAt inp q) (by omega) rfl hc)]
    simp only [Nat.add_zero] at h0
    rw [alnum_idByte h0, if_pos rfl, ih (q + 1) 1 (by omega) (fun i hi => by
      have := hid (i + 1) (by omega)
      rw [show q + 1 + i = q + (i + 1) by omega]; exact this) (by rw [show q + 1 + k = q + (k + 1) by omega]; exact hb)]
    rw [show q + 1 + k + 1 = q + (k + 1) + 1 by omega]


/-! ## the six state functions a print tag `{$ident}` runs through

  `q` is the position of the `{`, `k` the length of the identifier; the bytes are
  `inp[q] = '{'`, `inp[q+1] = '$'`, `inp[q+2 .. q+2+k)` the identifier, `inp[q+2+k] = '}'`. -/

theorem lexLeftDelim_mk (inp : Array UInt8) (q : Nat) (w : Int) (dd : Bool) (ts : Int) (le : Item) (its : Array Item)
    (hq : q + 1 < inp.size) (hb0 : byteAt inp q = 123) (hb1 : byteAt inp (q + 1) = 36) :
    lexLeftDelim (Lexer.mk inp q q w dd ts le its) =
      some (some .beginTag, Lexer.mk inp ((q + 1 : Nat) : Int) ((q + 1 : Nat) : Int) 1 false q
        ⟨.tLeftDelim, q + 1, (inp.extract q (q + 1)).toList⟩
        (its.push ⟨.tLeftDelim, q + 1, (inp.extract q (q + 1)).toList⟩)) := by
  unfold lexLeftDelim
  simp only [bind, Option.bind]
  rw [next_mk inp q q w dd q le its 123 (by omega) hb0 (by omega)]
  simp only
  rw [next_mk inp (q + 1) q 1 dd q le its 36 (by omega) hb1 (by omega)]
  simp only [Int.cast_ofNat_Int, show ¬ ((36 : Int) = 123) by decide, if_false]
  rw [backup_mk]
  simp only
  rw [emit_mk inp q (q + 1) 1 false q le its .tLeftDelim (by omega) (by omega)]
  rfl

theorem lexBeginTag_mk (inp : Array UInt8) (q : Nat) (s w : Int) (dd : Bool) (ts : Int) (le : Item) (its : Array Item)
    (hq : q < inp.size) (hb : byteAt inp q = 36) :
    lexBeginTag (Lexer.mk inp q s w dd ts le its) = some (some .insideTag, Lexer.mk inp q s 1 dd ts le its) := by
  unfold lexBeginTag Lexer.peek
  simp only [bind, Option.bind]
  rw [next_mk inp q s w dd ts le its 36 hq hb (by omega)]
  simp only [Int.cast_ofNat_Int, pure, backup_mk, show ¬ ((36 : Int) = 47 ∨ (36 : Int) = 92) by decide, if_false]

theorem lexInsideTag_dollar (inp : Array UInt8) (q : Nat) (s w : Int) (dd : Bool) (ts : Int) (le : Item) (its : Array Item)
    (hq : q < inp.size) (hb : byteAt inp q = 36) :
    lexInsideTag (Lexer.mk inp q s w dd ts le its) = some (some .ident, Lexer.mk inp q s 1 dd ts le its) := by
  unfold lexInsideTag
  simp only [bind, Option.bind]
  rw [next_mk inp q s w dd ts le its 36 hq hb (by omega)]
  simp only [Int.cast_ofNat_Int, show isSpaceEOL (36 : Int) = false by decide, Bool.false_eq_true, if_false,
    show ¬ ((36 : Int) = 47) by decide]
  unfold lexInsideTagMid
  simp only [true_or, if_true, pure, backup_mk]

theorem lexInsideTag_close (inp : Array UInt8) (q : Nat) (s w : Int) (dd : Bool) (ts : Int) (le : Item) (its : Array Item)
    (hq : q < inp.size) (hb : byteAt inp q = 125) :
    lexInsideTag (Lexer.mk inp q s w dd ts le its) =
      some (some .rightDelim, Lexer.mk inp ((q + 1 : Nat) : Int) s 1 dd ts le its) := by
  unfold lexInsideTag
  simp only [bind, Option.bind]
  rw [next_mk inp q s w dd ts le its 125 hq hb (by omega)]
  simp only [Int.cast_ofNat_Int, show isSpaceEOL (125 : Int) = false by decide, Bool.false_eq_true, if_false,
    show ¬ ((125 : Int) = 47) by decide]
  unfold lexInsideTagMid
  simp only [show ¬ ((125 : Int) = 36 ∨ (125 : Int) = 46) by decide, show ¬ ((125 : Int) = 91) by decide,
    show ¬ ((125 : Int) = 93) by decide, show ¬ ((125 : Int) = 63) by decide, show ¬ ((125 : Int) = 45) by decide,
    if_false, if_true, pure]

theorem lexRightDelim_mk (inp : Array UInt8) (a q : Nat) (w : Int) (ts : Int) (le : Item) (its : Array Item)
    (h1 : a ≤ q) (h2 : q ≤ inp.size) :
    lexRightDelim (Lexer.mk inp q a w false ts le its) =
      some (some .text, Lexer.mk inp q q w false ts ⟨.tRightDelim, q, (inp.extract a q).toList⟩
        (its.push ⟨.tRightDelim, q, (inp.extract a q).toList⟩)) := by
  unfold lexRightDelim badDoubleClose
  simp only [Bool.false_eq_true, if_false, bind, Option.bind, pure]
  rw [emit_mk inp a q w false ts le its .tRightDelim h1 h2]

theorem sliceOf_nat (inp : Array UInt8) (a q : Nat) (h1 : a ≤ q) (h2 : q ≤ inp.size) :
    sliceOf inp (a : Int) (q : Int) = some (inp.extract a q).toList := by
  unfold sliceOf
  rw [if_pos ⟨by omega, by omega, by omega⟩]
  simp only [Int.toNat_natCast]

/-- `lexIdent` at `$ident}`: `q` is the position of the `$`, the pending token starts there -/
theorem lexIdent_dollar (inp : Array UInt8) (q k : Nat) (w : Int) (dd : Bool) (ts : Int) (le : Item) (its : Array Item)
    (hq : q + 1 + k < inp.size) (hb : byteAt inp q = 36) (hk : 0 < k) (h0 : idStart (byteAt inp (q + 1)))
    (hid : ∀ i, i < k → idByte (byteAt inp (q + 1 + i))) (hcl : byteAt inp (q + 1 + k) = 125)
    (hval : ∃ v, (inp.extract q (q + 1 + k)).toList = 36 :: v) :
    lexIdent (Lexer.mk inp q q w dd ts le its) =
      some (some .insideTag, Lexer.mk inp ((q + 1 + k : Nat) : Int) ((q + 1 + k : Nat) : Int) 1 dd ts
        ⟨.tDollarIdent, q + 1 + k, (inp.extract q (q + 1 + k)).toList⟩
        (its.push ⟨.tDollarIdent, q + 1 + k, (inp.extract q (q + 1 + k)).toList⟩)) := by
  have hc : byteAt inp (q + 1) < 128 := by unfold idStart at h0; omega
  unfold lexIdent Lexer.peek
  simp only [bind, Option.bind]
  rw [next_mk inp q q w dd ts le its 36 (by omega) hb (by omega)]
  simp only [Int.cast_ofNat_Int, show ¬ ((36 : Int) = 46) by decide, if_false, if_true]
  rw [next_mk inp (q + 1) q 1 dd ts le its (byteAt inp (q + 1)) (by omega) rfl hc]
  simp only [pure, backup_mk]
  rw [if_neg (letter_idStart h0)]
  unfold lexIdentRest
  simp only [bind, Option.bind]
  rw [scanWhile_ident inp q dd ts le its k (q + 1) 1 (by omega) hid hcl]
  simp only [backup_mk]
  rw [sliceOf_nat inp q (q + 1 + k) (by omega) (by omega)]
  obtain ⟨v, hv⟩ := hval
  simp only [hv, lookup_dollar]
  rw [if_neg (by decide)]
  unfold emitInside
  simp only [bind, Option.bind]
  rw [emit_mk inp q (q + 1 + k) 1 dd ts le its .tDollarIdent (by omega) (by omega)]
  simp only [pure, hv]


/-! ## one tag: `lexLeftDelim` … `lexRightDelim` -/

theorem run_succ {f : Nat} {s s' : St} {l l' : Lexer} (h : step s l = some (some s', l')) :
    run (f + 1) s l = run f s' l' := by
  simp only [run, h]

theorem run_end {f : Nat} {s : St} {l l' : Lexer} (h : step s l = some (none, l')) :
    run (f + 1) s l = .items l'.items.toList := by
  simp only [run, h]

/-- the bytes of `inp` from `q` on are `{$ident}` with an identifier of `k` bytes -/
structure TagAt (inp : Array UInt8) (q k : Nat) : Prop where
  size : q + 2 + k < inp.size
  lbrace : byteAt inp q = 123
  dollar : byteAt inp (q + 1) = 36
  kpos : 0 < k
  first : idStart (byteAt inp (q + 2))
  bytes : ∀ i, i < k → idByte (byteAt inp (q + 2 + i))
  rbrace : byteAt inp (q + 2 + k) = 125
  val : ∃ v, (inp.extract (q + 1) (q + 2 + k)).toList = 36 :: v

/-- the three items of a tag -/
def ldItem (inp : Array UInt8) (q : Nat) : Item := ⟨.tLeftDelim, q + 1, (inp.extract q (q + 1)).toList⟩
def diItem (inp : Array UInt8) (q k : Nat) : Item := ⟨.tDollarIdent, q + 2 + k, (inp.extract (q + 1) (q + 2 + k)).toList⟩
def rdItem (inp : Array UInt8) (q k : Nat) : Item := ⟨.tRightDelim, q + 3 + k, (inp.extract (q + 2 + k) (q + 3 + k)).toList⟩

/-- six state functions later the lexer is back in `lexText`, behind the tag, the three items sent -/
theorem tag_run {inp : Array UInt8} {q k : Nat} (h : TagAt inp q k) (f : Nat) (w : Int) (dd : Bool) (ts : Int) (le : Item)
    (its : Array Item) :
    run (f + 6) .leftDelim (Lexer.mk inp q q w dd ts le its) =
      run f .text (Lexer.mk inp ((q + 3 + k : Nat) : Int) ((q + 3 + k : Nat) : Int) 1 false q (rdItem inp q k)
        (((its.push (ldItem inp q)).push (diItem inp q k)).push (rdItem inp q k))) := by
  have hsz := h.size
  rw [run_succ (f := f + 5) (show step .leftDelim _ = _ from
      lexLeftDelim_mk inp q w dd ts le its (by omega) h.lbrace h.dollar)]
  rw [run_succ (f := f + 4) (show step .beginTag _ = _ from lexBeginTag_mk inp (q + 1) _ _ _ _ _ _ (by omega) h.dollar)]
  rw [run_succ (f := f + 3) (show step .insideTag _ = _ from lexInsideTag_dollar inp (q + 1) _ _ _ _ _ _ (by omega) h.dollar)]
  rw [run_succ (f := f + 2) (show step .ident _ = _ from
      lexIdent_dollar inp (q + 1) k _ _ _ _ _ (by omega) h.dollar h.kpos h.first
        (fun i hi => by rw [show q + 1 + 1 + i = q + 2 + i by omega]; exact h.bytes i hi)
        (by rw [show q + 1 + 1 + k = q + 2 + k by omega]; exact h.rbrace)
        (by rw [show q + 1 + 1 + k = q + 2 + k by omega]; exact h.val))]
  rw [show q + 1 + 1 + k = q + 2 + k by omega]
  rw [run_succ (f := f + 1) (show step .insideTag _ = _ from lexInsideTag_close inp (q + 2 + k) _ _ _ _ _ _ (by omega) h.rbrace)]
  rw [show q + 2 + k + 1 = q + 3 + k by omega]
  rw [run_succ (f := f) (show step .rightDelim _ = _ from lexRightDelim_mk inp (q + 2 + k) (q + 3 + k) _ _ _ _ (by omega) (by omega))]
  rfl

/-! ## a text run: ASCII without `{` `}`, a `/` only before a byte other than `/` and `*` -/

/-- `c` may stand in a text piece when the byte after it is `nxt` -/
def TextByte (c nxt : Nat) : Prop := c < 128 ∧ c ≠ 123 ∧ c ≠ 125 ∧ (c = 47 → nxt ≠ 47 ∧ nxt ≠ 42)

instance (c nxt : Nat) : Decidable (TextByte c nxt) := by unfold TextByte; infer_instance

theorem plainRun_text : ∀ (k : Nat) (l : Lexer) (lc : Int), 0 ≤ l.pos → l.pos + k ≤ l.len →
    (∀ i, i < k → TextByte (byteAt l.input (l.pos.toNat + i)) (byteAt l.input (l.pos.toNat + i + 1))) →
    (l.pos + k < l.len → byteAt l.input (l.pos.toNat + k) < 128) →
    ∃ l' lc', PlainRun l lc l' lc' ∧ l'.pos = l.pos + k := by
  intro k
  induction k with
  | zero => intro l lc _ _ _ _; exact ⟨l, lc, PlainRun.refl l lc, by simp⟩
  | succ k ih =>
    intro l lc h0 h1 hb hnx
    have hb0 := hb 0 (by omega)
    simp only [Nat.add_zero] at hb0
    obtain ⟨hc, h123, h125, h47⟩ := hb0
    have hn := next_ascii (l := l) h0 (by omega) hc
    simp only [Lexer.len] at h1
    obtain ⟨l', lc', hr, hp⟩ := ih { l with width := 1, pos := l.pos + 1 } (byteAt l.input l.pos.toNat : Int)
      (by show 0 ≤ l.pos + 1; omega) (by show l.pos + 1 + (k : Int) ≤ (l.input.size : Int); omega)
      (by
        intro i hi
        have := hb (i + 1) (by omega)
        have e : (l.pos + 1).toNat + i = l.pos.toNat + (i + 1) := by omega
        show TextByte (byteAt l.input ((l.pos + 1).toNat + i)) (byteAt l.input ((l.pos + 1).toNat + i + 1))
        rw [e]; exact this)
      (by
        intro hlt
        have e : (l.pos + 1).toNat + k = l.pos.toNat + (k + 1) := by omega
        show byteAt l.input ((l.pos + 1).toNat + k) < 128
        rw [e]
        exact hnx (by simp only [Lexer.len]; have : (l.pos + 1 + (k : Int) < (l.input.size : Int)) := hlt; omega))
    have hp' : l'.pos = l.pos + ((k + 1 : Nat) : Int) := by
      rw [hp]; show l.pos + 1 + (k : Int) = l.pos + ((k + 1 : Nat) : Int); omega
    by_cases hs : byteAt l.input l.pos.toNat = 47
    · -- a `/`: the byte after it (or the end of the input) decides
      rw [hs] at hn hr
      have h47' := h47 hs
      by_cases hend : l.pos + 1 < l.len
      · -- another byte follows
        have hc1 : byteAt l.input (l.pos.toNat + 1) < 128 := by
          by_cases hk : 0 < k
          · exact (hb 1 (by omega)).1
          · have hk0 : k = 0 := by omega
            subst hk0
            exact hnx (by simpa using hend)
        have hn2 := next_ascii (l := { l with width := 1, pos := l.pos + 1 }) (by show 0 ≤ l.pos + 1; omega)
          (by show l.pos + 1 < (l.input.size : Int); simp only [Lexer.len] at hend; omega)
          (by show byteAt l.input (l.pos + 1).toNat < 128; rw [show (l.pos + 1).toNat = l.pos.toNat + 1 by omega]; exact hc1)
        have e : ({ l with width := 1, pos := l.pos + 1 } : Lexer).pos.toNat = l.pos.toNat + 1 := by
          show (l.pos + 1).toNat = _; omega
        rw [e] at hn2
        exact ⟨l', lc', PlainRun.slash hn hn2 (by show (byteAt l.input (l.pos.toNat + 1) : Int) ≠ 42; omega)
          (fun h => absurd h (by show ¬ (byteAt l.input (l.pos.toNat + 1) : Int) = 47; omega)) hr, hp'⟩
      · have hn2 := next_eof (l := { l with width := 1, pos := l.pos + 1 }) (by
          show (l.input.size : Int) ≤ l.pos + 1; simp only [Lexer.len] at hend; omega)
        exact ⟨l', lc', PlainRun.slash hn hn2 (by decide) (fun h => absurd h (by decide)) hr, hp'⟩
    · exact ⟨l', lc', PlainRun.plain hn (by omega) (by omega) (by omega) (by simp only [eof]; omega) hr, hp'⟩

/-- the pending text `inp[q, q+n)` as `maybeEmitText` sends it -/
theorem textItems_nat (inp : Array UInt8) (q n : Nat) :
    textItems inp (q : Int) ((q + n : Nat) : Int) =
      if 0 < n ∧ allSpaceWithNewline (inp.extract q (q + n)).toList = false then
        [⟨.tText, q + n, (inp.extract q (q + n)).toList⟩] else [] := by
  unfold textItems
  simp only [Int.toNat_natCast]
  by_cases hn : 0 < n
  · simp only [hn, true_and, show ((q + n : Nat) : Int) > (q : Int) by omega]
  · simp only [hn, false_and, if_false, show ¬ ((q + n : Nat) : Int) > (q : Int) by omega]

/-- text then `{`: one `lexText` call sends the text and hands over to `lexLeftDelim` at the `{` -/
theorem lexText_text_open (inp : Array UInt8) (q n : Nat) (w : Int) (dd : Bool) (ts : Int) (le : Item) (its : Array Item)
    (hsz : q + n < inp.size)
    (htxt : ∀ i, i < n → TextByte (byteAt inp (q + i)) (byteAt inp (q + i + 1))) (hopen : byteAt inp (q + n) = 123) :
    ∃ (w' : Int) (dd' : Bool) (ts' : Int) (le' : Item) (its' : Array Item),
      lexText (Lexer.mk inp q q w dd ts le its) =
        some (some .leftDelim, Lexer.mk inp ((q + n : Nat) : Int) ((q + n : Nat) : Int) w' dd' ts' le' its') ∧
      its'.toList = its.toList ++ textItems inp (q : Int) ((q + n : Nat) : Int) := by
  obtain ⟨l', lc', hr, hp⟩ := plainRun_text n (Lexer.mk inp q q w dd ts le its) noChar (by show (0 : Int) ≤ q; omega)
    (by show (q : Int) + n ≤ (inp.size : Int); omega)
    (by intro i hi; show TextByte (byteAt inp ((q : Int).toNat + i)) (byteAt inp ((q : Int).toNat + i + 1))
        simp only [Int.toNat_natCast]; exact htxt i hi)
    (by intro _; show byteAt inp ((q : Int).toNat + n) < 128; simp only [Int.toNat_natCast]; omega)
  have hp' : l'.pos = ((q + n : Nat) : Int) := by rw [hp]; show (q : Int) + n = _; omega
  obtain ⟨_, _, _, hin, _⟩ := lexTextLoop_run hr
  have hin' : l'.input = inp := hin
  have hn := next_ascii (l := l') (by omega) (by simp only [Lexer.len, hin', hp']; omega)
    (by rw [hin', hp']; simp only [Int.toNat_natCast]; omega)
  rw [hin', hp'] at hn
  simp only [Int.toNat_natCast, hopen] at hn
  obtain ⟨lf, h1, h2, h3, h4, h5⟩ := lexText_cut_open hr hn (by show (0 : Int) ≤ q; omega)
    (by show (q : Int) ≤ q; omega)
  obtain ⟨inp', p', s', w', dd', ts', le', its'⟩ := lf
  simp only at h2 h3 h4 h5
  subst h5
  rw [hp'] at h3 h4 h2
  subst h3 h4
  exact ⟨w', dd', ts', le', its', h1, h2⟩

/-- text to the end of the input: the text and the EOF item; the scan ends -/
theorem lexText_text_eof (inp : Array UInt8) (q n : Nat) (w : Int) (dd : Bool) (ts : Int) (le : Item) (its : Array Item)
    (hsz : q + n = inp.size)
    (htxt : ∀ i, i < n → TextByte (byteAt inp (q + i)) (byteAt inp (q + i + 1))) :
    ∃ lf, lexText (Lexer.mk inp q q w dd ts le its) = some (none, lf) ∧
      lf.items.toList = its.toList ++ textItems inp (q : Int) ((q + n : Nat) : Int) ++ [⟨.tEOF, q + n, []⟩] := by
  obtain ⟨l', lc', hr, hp⟩ := plainRun_text n (Lexer.mk inp q q w dd ts le its) noChar (by show (0 : Int) ≤ q; omega)
    (by show (q : Int) + n ≤ (inp.size : Int); omega)
    (by intro i hi; show TextByte (byteAt inp ((q : Int).toNat + i)) (byteAt inp ((q : Int).toNat + i + 1))
        simp only [Int.toNat_natCast]; exact htxt i hi)
    (by intro h; exfalso; have : (q : Int) + n < (inp.size : Int) := h; omega)
  have hp' : l'.pos = ((q + n : Nat) : Int) := by rw [hp]; show (q : Int) + n = _; omega
  obtain ⟨_, _, _, hin, _⟩ := lexTextLoop_run hr
  have hin' : l'.input = inp := hin
  have hn := next_eof (l := l') (by simp only [Lexer.len, hin', hp']; omega)
  obtain ⟨lf, h1, h2⟩ := lexText_cut_eof hr hn (by show (0 : Int) ≤ q; omega) (by show (q : Int) ≤ q; omega)
    (by show (q : Int) ≤ (inp.size : Int); omega)
  refine ⟨lf, h1, ?_⟩
  rw [h2, hp']
  simp only [Int.toNat_natCast]


/-! ## "the bytes of `inp` at `q` are `x`" -/

def Holds (inp : Array UInt8) (q : Nat) (x : Bytes) : Prop :=
  ∀ i, i < x.length → q + i < inp.size ∧ byteAt inp (q + i) = (x.getD i 0).toNat

theorem Holds.append {inp : Array UInt8} {q : Nat} {x y : Bytes} (h : Holds inp q (x ++ y)) :
    Holds inp q x ∧ Holds inp (q + x.length) y := by
  constructor
  · intro i hi
    have := h i (by simp; omega)
    rw [List.getD_eq_getElem?_getD, List.getElem?_append_left hi, ← List.getD_eq_getElem?_getD] at this
    exact this
  · intro i hi
    have := h (x.length + i) (by simp; omega)
    rw [List.getD_eq_getElem?_getD, List.getElem?_append_right (by omega), Nat.add_sub_cancel_left,
      ← List.getD_eq_getElem?_getD, ← Nat.add_assoc] at this
    exact this

theorem Holds.cons {inp : Array UInt8} {q : Nat} {c : UInt8} {y : Bytes} (h : Holds inp q (c :: y)) :
    q < inp.size ∧ byteAt inp q = c.toNat ∧ Holds inp (q + 1) y := by
  have h0 := h 0 (by simp)
  refine ⟨h0.1, h0.2, ?_⟩
  intro i hi
  have := h (i + 1) (by simp; omega)
  rw [show q + 1 + i = q + (i + 1) by omega]
  simpa using this

theorem Holds.size {inp : Array UInt8} {q : Nat} {x : Bytes} (h : Holds inp q x) : q + x.length ≤ inp.size ∨ x = [] := by
  cases x with
  | nil => exact Or.inr rfl
  | cons c y =>
    have := h y.length (by simp)
    left; simp; omega

theorem Holds.extract {inp : Array UInt8} {q : Nat} {x : Bytes} (h : Holds inp q x) :
    (inp.extract q (q + x.length)).toList = x := by
  have hs := h.size
  apply List.ext_getElem
  · simp only [Array.length_toList, Array.size_extract]
    rcases hs with hs | hs
    · omega
    · subst hs; simp; omega
  · intro i h1 h2
    have := (h i h2).2
    simp only [Array.getElem_toList, Array.getElem_extract]
    unfold byteAt at this
    have hlt : q + i < inp.size := (h i h2).1
    rw [Array.getD_eq_getD_getElem?, Array.getElem?_eq_getElem hlt, List.getD_eq_getElem?_getD, List.getElem?_eq_getElem h2] at this
    simp only [Option.getD_some] at this
    exact UInt8.toNat_inj.mp this

theorem byteAt_beyond {inp : Array UInt8} {i : Nat} (h : inp.size ≤ i) : byteAt inp i = 0 := by
  unfold byteAt
  rw [Array.getD_eq_getD_getElem?, Array.getElem?_eq_none h]
  rfl

/-! ## template bodies -/

inductive Piece where
  /-- a stretch of text -/
  | text (t : Bytes)
  /-- the print tag `{$id}` -/
  | tag (id : Bytes)
  deriving Repr, DecidableEq

abbrev Body := List Piece

def Piece.src : Piece → Bytes
  | .text t => t
  | .tag id => 123 :: 36 :: (id ++ [125])

/-- the source text of a body: the pieces one after the other -/
def srcOf : Body → Bytes
  | [] => []
  | p :: r => p.src ++ srcOf r

/-- a text piece: non-empty; ASCII bytes other than `{` and `}`; a `/` is followed neither by `/`
    nor by `*` (so no comment begins in it) -/
def textOK (t : Bytes) : Prop :=
  0 < t.length ∧ ∀ i, i < t.length → TextByte (t.getD i 0).toNat (t.getD (i + 1) 0).toNat

/-- an identifier as `lexIdent` reads it, ASCII: `[A-Za-z_][A-Za-z0-9_]*` -/
def idOK (id : Bytes) : Prop :=
  0 < id.length ∧ idStart (id.getD 0 0).toNat ∧ ∀ i, i < id.length → idByte (id.getD i 0).toNat

instance (t : Bytes) : Decidable (textOK t) := by unfold textOK; infer_instance
instance (t : Bytes) : Decidable (idOK t) := by unfold idOK; infer_instance

def Piece.isText : Piece → Bool
  | .text _ => true
  | .tag _ => false

/-- well-formed bodies: every piece is, and no two text pieces are adjacent -/
def WF : Body → Prop
  | [] => True
  | .text t :: r => textOK t ∧ (∀ p ∈ r.head?, p.isText = false) ∧ WF r
  | .tag id :: r => idOK id ∧ WF r

/-- the lexer drops a text run that is all whitespace with a line break -/
def dropped (t : Bytes) : Bool := allSpaceWithNewline t

/-- the items `lex` sends for a body that begins at byte `q` of the source -/
def itemsOf : Nat → Body → List Item
  | q, [] => [⟨.tEOF, q, []⟩]
  | q, .text t :: r => (if dropped t = false then [⟨.tText, q + t.length, t⟩] else []) ++ itemsOf (q + t.length) r
  | q, .tag id :: r =>
    ⟨.tLeftDelim, q + 1, [123]⟩ :: ⟨.tDollarIdent, q + 2 + id.length, 36 :: id⟩ ::
      ⟨.tRightDelim, q + 3 + id.length, [125]⟩ :: itemsOf (q + 3 + id.length) r

theorem srcOf_length_ge : ∀ (b : Body), WF b → b.length ≤ (srcOf b).length
  | [], _ => Nat.le_refl _
  | .text t :: r, h => by
    have := srcOf_length_ge r h.2.2
    have := h.1.1
    simp only [srcOf, Piece.src, List.length_cons, List.length_append]; omega
  | .tag id :: r, h => by
    have := srcOf_length_ge r h.2
    simp only [srcOf, Piece.src, List.length_cons, List.length_append]; omega

/-- the tag `{$id}` stands at `q` -/
theorem tagAt_of_holds {inp : Array UInt8} {q : Nat} {id post : Bytes} (hid : idOK id)
    (h : Holds inp q (123 :: 36 :: (id ++ [125]) ++ post)) : TagAt inp q id.length := by
  obtain ⟨h, _⟩ := h.append
  obtain ⟨h0, hb0, h⟩ := h.cons
  have hv := (show Holds inp (q + 1) ((36 :: id) ++ [125]) from h).append.1
  obtain ⟨h1, hb1, h'⟩ := h.cons
  obtain ⟨hi, hc⟩ := h'.append
  obtain ⟨h2, hb2, _⟩ := hc.cons
  have hk := hid.1
  have e2 : q + 1 + 1 = q + 2 := by omega
  rw [e2] at hi hc h2 hb2
  refine ⟨by omega, hb0, hb1, hk, ?_, ?_, hb2, ⟨id, ?_⟩⟩
  · have := (hi 0 hk).2
    rw [Nat.add_zero] at this
    rw [this]; exact hid.2.1
  · intro i hlt
    rw [(hi i hlt).2]; exact hid.2.2 i hlt
  · have := hv.extract
    rw [show q + 1 + (36 :: id).length = q + 2 + id.length by simp; omega] at this
    exact this


theorem tag_vals {inp : Array UInt8} {q : Nat} {id post : Bytes}
    (h : Holds inp q (123 :: 36 :: (id ++ [125]) ++ post)) :
    ldItem inp q = ⟨.tLeftDelim, q + 1, [123]⟩ ∧ diItem inp q id.length = ⟨.tDollarIdent, q + 2 + id.length, 36 :: id⟩ ∧
      rdItem inp q id.length = ⟨.tRightDelim, q + 3 + id.length, [125]⟩ := by
  obtain ⟨h, _⟩ := h.append
  have hl := (show Holds inp q ([123] ++ 36 :: (id ++ [125])) from h).append.1
  obtain ⟨_, _, h⟩ := h.cons
  have hv := (show Holds inp (q + 1) ((36 :: id) ++ [125]) from h).append
  have e1 := hl.extract
  have e2 := hv.1.extract
  have e3 := hv.2.extract
  simp only [List.length_cons, List.length_nil] at e1 e2 e3
  rw [show q + 1 + (id.length + 1) = q + 2 + id.length by omega] at e2 e3
  rw [show q + 2 + id.length + (0 + 1) = q + 3 + id.length by omega] at e3
  rw [show q + (0 + 1) = q + 1 by omega] at e1
  refine ⟨?_, ?_, ?_⟩ <;> simp only [ldItem, diItem, rdItem, e1, e2, e3]

theorem text_bytes {inp : Array UInt8} {q : Nat} {t : Bytes} (h : Holds inp q t) (ht : t = [] ∨ textOK t)
    (hnx : (t.getD (t.length - 1) 0).toNat ≠ 47 ∨ (byteAt inp (q + t.length) ≠ 47 ∧ byteAt inp (q + t.length) ≠ 42)) :
    ∀ i, i < t.length → TextByte (byteAt inp (q + i)) (byteAt inp (q + i + 1)) := by
  intro i hi
  rcases ht with ht | ht
  · subst ht; simp at hi
  obtain ⟨c1, c2, c3, c4⟩ := ht.2 i hi
  rw [(h i hi).2]
  refine ⟨c1, c2, c3, fun e => ?_⟩
  by_cases hl : i + 1 < t.length
  · rw [show q + i + 1 = q + (i + 1) by omega, (h (i + 1) hl).2]; exact c4 e
  · rw [show q + i + 1 = q + t.length by omega]
    rcases hnx with hnx | hnx
    · rw [show t.length - 1 = i by omega] at hnx; exact absurd e hnx
    · exact hnx

/-- the Text item of a text piece that ends at `e` (none for the empty and the dropped ones) -/
def textItem (t : Bytes) (e : Nat) : List Item :=
  if 0 < t.length ∧ dropped t = false then [⟨.tText, e, t⟩] else []

theorem textItems_holds {inp : Array UInt8} {q : Nat} {t : Bytes} (h : Holds inp q t) :
    textItems inp (q : Int) ((q + t.length : Nat) : Int) = textItem t (q + t.length) := by
  rw [textItems_nat, h.extract]
  rfl

/-- a text run `t` (possibly empty) and the tag `{$id}` behind it: seven state functions -/
theorem seg_run {inp : Array UInt8} {q : Nat} {t id post : Bytes} (ht : t = [] ∨ textOK t) (hid : idOK id)
    (h : Holds inp q (t ++ (123 :: 36 :: (id ++ [125]) ++ post))) (f : Nat) (w : Int) (dd : Bool) (ts : Int) (le : Item)
    (its : Array Item) :
    ∃ (w' : Int) (dd' : Bool) (ts' : Int) (le' : Item) (its' : Array Item),
      run (f + 7) .text (Lexer.mk inp q q w dd ts le its) =
        run f .text (Lexer.mk inp ((q + t.length + 3 + id.length : Nat) : Int) ((q + t.length + 3 + id.length : Nat) : Int)
          w' dd' ts' le' its') ∧
      its'.toList = its.toList ++ textItem t (q + t.length) ++
        [⟨.tLeftDelim, q + t.length + 1, [123]⟩, ⟨.tDollarIdent, q + t.length + 2 + id.length, 36 :: id⟩,
         ⟨.tRightDelim, q + t.length + 3 + id.length, [125]⟩] := by
  obtain ⟨ht', htag⟩ := h.append
  have hT := tagAt_of_holds hid htag
  obtain ⟨v1, v2, v3⟩ := tag_vals htag
  have hsz := hT.size
  have hlb := hT.lbrace
  obtain ⟨w1, dd1, ts1, le1, its1, hlx, hits1⟩ := lexText_text_open inp q t.length w dd ts le its (by omega)
    (text_bytes ht' ht (Or.inr (by omega))) hlb
  refine ⟨1, false, ((q + t.length : Nat) : Int), rdItem inp (q + t.length) id.length,
    ((its1.push (ldItem inp (q + t.length))).push (diItem inp (q + t.length) id.length)).push
      (rdItem inp (q + t.length) id.length), ?_, ?_⟩
  · rw [run_succ (f := f + 6) (show step .text _ = _ from hlx), tag_run hT f]
  · simp only [Array.toList_push, hits1, textItems_holds ht', v1, v2, v3, List.append_assoc, List.cons_append,
      List.nil_append]

/-- the lexer on a well-formed body -/
theorem lex_body : ∀ (n : Nat) (b : Body), b.length ≤ n → WF b →
    ∀ (inp : Array UInt8) (q : Nat) (w : Int) (dd : Bool) (ts : Int) (le : Item) (its : Array Item) (fuel : Nat),
    Holds inp q (srcOf b) → inp.size = q + (srcOf b).length → 7 * b.length + 1 ≤ fuel →
    run fuel .text (Lexer.mk inp q q w dd ts le its) = .items (its.toList ++ itemsOf q b) := by
  intro n
  induction n with
  | zero =>
    intro b hb _ inp q w dd ts le its fuel _ hsz hf
    have : b = [] := List.eq_nil_of_length_eq_zero (by omega)
    subst this
    obtain ⟨f, rfl⟩ : ∃ f, fuel = f + 1 := ⟨fuel - 1, by omega⟩
    obtain ⟨lf, h1, h2⟩ := lexText_text_eof inp q 0 w dd ts le its (by simpa [srcOf] using hsz.symm) (fun i hi => absurd hi (by omega))
    rw [run_end (show step .text _ = _ from h1), h2, textItems_nat]
    simp [itemsOf]
  | succ n ih =>
    intro b hb hwf inp q w dd ts le its fuel hh hsz hf
    match b, hb, hwf, hh, hsz, hf with
    | [], _, _, _, hsz, hf =>
      obtain ⟨f, rfl⟩ : ∃ f, fuel = f + 1 := ⟨fuel - 1, by omega⟩
      obtain ⟨lf, h1, h2⟩ := lexText_text_eof inp q 0 w dd ts le its (by simpa [srcOf] using hsz.symm) (fun i hi => absurd hi (by omega))
      rw [run_end (show step .text _ = _ from h1), h2, textItems_nat]
      simp [itemsOf]
    | .tag id :: r, hb, hwf, hh, hsz, hf =>
      obtain ⟨f, rfl⟩ : ∃ f, fuel = f + 7 := ⟨fuel - 7, by simp at hf; omega⟩
      have hh' : Holds inp q ([] ++ (123 :: 36 :: (id ++ [125]) ++ srcOf r)) := hh
      obtain ⟨w', dd', ts', le', its', hrun, hits⟩ := seg_run (Or.inl rfl) hwf.1 hh' f w dd ts le its
      rw [hrun]
      simp only [List.length_nil, Nat.add_zero] at hits ⊢
      have hr := (show Holds inp q ((123 :: 36 :: (id ++ [125])) ++ srcOf r) from hh).append.2
      have e : q + (123 :: 36 :: (id ++ [125])).length = q + 3 + id.length := by simp; omega
      rw [e] at hr
      rw [ih r (by simp at hb; omega) hwf.2 inp (q + 3 + id.length) w' dd' ts' le' its' f hr
        (by rw [hsz]; simp [srcOf, Piece.src]; omega) (by simp at hf; omega), hits]
      simp [itemsOf, textItem]
    | [.text t], _, hwf, hh, hsz, hf =>
      obtain ⟨f, rfl⟩ : ∃ f, fuel = f + 1 := ⟨fuel - 1, by omega⟩
      have hh' : Holds inp q t := by simpa [srcOf, Piece.src] using hh
      have hsz' : q + t.length = inp.size := by simpa [srcOf, Piece.src] using hsz.symm
      have hb0 := byteAt_beyond (inp := inp) (i := q + t.length) (by omega)
      obtain ⟨lf, h1, h2⟩ := lexText_text_eof inp q t.length w dd ts le its hsz'
        (text_bytes hh' (Or.inr hwf.1) (Or.inr (by omega)))
      rw [run_end (show step .text _ = _ from h1), h2, textItems_holds hh']
      have := hwf.1.1
      simp [itemsOf, textItem, this]
    | .text t :: .tag id :: r, hb, hwf, hh, hsz, hf =>
      obtain ⟨f, rfl⟩ : ∃ f, fuel = f + 7 := ⟨fuel - 7, by simp at hf; omega⟩
      have hh' : Holds inp q (t ++ (123 :: 36 :: (id ++ [125]) ++ srcOf r)) := hh
      obtain ⟨w', dd', ts', le', its', hrun, hits⟩ := seg_run (Or.inr hwf.1) hwf.2.2.1 hh' f w dd ts le its
      rw [hrun]
      have hr := (show Holds inp (q + t.length) ((123 :: 36 :: (id ++ [125])) ++ srcOf r) from hh.append.2).append.2
      have e : q + t.length + (123 :: 36 :: (id ++ [125])).length = q + t.length + 3 + id.length := by simp; omega
      rw [e] at hr
      rw [ih r (by simp at hb; omega) hwf.2.2.2 inp (q + t.length + 3 + id.length) w' dd' ts' le' its' f hr
        (by rw [hsz]; simp [srcOf, Piece.src]; omega) (by simp at hf; omega), hits]
      have := hwf.1.1
      simp [itemsOf, textItem, this]
    | .text _ :: .text t2 :: _, _, hwf, _, _, _ =>
      have := hwf.2.1 (.text t2) (by simp)
      simp [Piece.isText] at this


/-- **lexer.**  The items `lex` sends for the source of a well-formed body -/
theorem lexAll_body (b : Body) (h : WF b) : lexAll (srcOf b) false = .items (itemsOf 0 b) := by
  unfold lexAll Lex.fuelFor initLexer
  simp only [Bool.false_eq_true, if_false]
  have := lex_body b.length b (Nat.le_refl _) h (srcOf b).toArray 0 0 false 0 Item.zero #[] (7 * (srcOf b).length + 8)
    (by intro i hi
        refine ⟨by simpa using hi, ?_⟩
        unfold byteAt
        simp [Array.getD_eq_getD_getElem?, List.getD_eq_getElem?_getD])
    (by simp) (by have := srcOf_length_ge b h; omega)
  simpa using this

/-! ## the parser on the three tokens of a print tag -/

section parser
variable (pf : Bytes → Option UInt64)

theorem parseDataRef_end (f : Nat) (rd : Item) (s : List Item) (st : PState) (hpc : st.peekCount ≤ 2)
    (hs : stream st = rd :: s) (hrd : rd.typ = .tRightDelim) :
    ∃ st', parseDataRef pf (f + 1) st = .ok (.nil, st') ∧ stream st' = rd :: s ∧ st'.peekCount ≤ 2 := by
  obtain ⟨st1, hn1, hs1, ht1, hp1⟩ := next_stream hpc hs
  obtain ⟨st2, hb2, hs2, hp2⟩ := backup_stream (st := st1) (by omega)
  refine ⟨st2, ?_, by rw [hs2, ht1, hs1], by omega⟩
  unfold parseDataRef
  rw [bind_run, hn1]
  simp only [hrd]
  rw [bind_run, hb2]
  rfl

theorem exprLoop_end (f : Nat) (n : Expr) (rd : Item) (s : List Item) (st : PState) (hpc : st.peekCount ≤ 2)
    (hs : stream st = rd :: s) (hrd : rd.typ = .tRightDelim) :
    ∃ st', exprLoop pf (f + 1) 0 n st = .ok (n, st') ∧ stream st' = rd :: s ∧ st'.peekCount ≤ 2 := by
  obtain ⟨st1, hn1, hs1, ht1, hp1⟩ := next_stream hpc hs
  obtain ⟨st2, hb2, hs2, hp2⟩ := backup_stream (st := st1) (by omega)
  refine ⟨st2, ?_, by rw [hs2, ht1, hs1], by omega⟩
  unfold exprLoop
  rw [bind_run, hn1]
  simp only [hrd, show isBinaryOp .tRightDelim = false by decide, Bool.not_false, Bool.true_or, if_true,
    show ((0 : Nat) == 0 && ItemType.tRightDelim == ItemType.tTernIf) = false by decide, Bool.false_eq_true, if_false]
  rw [bind_run, hb2]
  rfl

/-- `$key` before a `}` is the data reference `key`, positioned at the token -/
theorem parseExpr_dollar (f : Nat) (di rd : Item) (key : Bytes) (s : List Item) (st : PState) (hpc : st.peekCount ≤ 2)
    (hs : stream st = di :: rd :: s) (hdi : di.typ = .tDollarIdent) (hv : di.val = 36 :: key) (hrd : rd.typ = .tRightDelim) :
    ∃ st', parseExpr pf (f + 4) 0 st = .ok (.dataRef di.pos key .nil, st') ∧ stream st' = rd :: s ∧ st'.peekCount ≤ 2 := by
  obtain ⟨st1, hn1, hs1, ht1, hp1⟩ := next_stream hpc hs
  obtain ⟨st2, hd2, hs2, hp2⟩ := parseDataRef_end pf f rd s st1 (by omega) hs1 hrd
  obtain ⟨st3, hl3, hs3, hp3⟩ := exprLoop_end pf (f + 2) (.dataRef di.pos key .nil) rd s st2 hp2 hs2 hrd
  refine ⟨st3, ?_, hs3, hp3⟩
  show parseExpr pf ((f + 3) + 1) 0 st = _
  unfold parseExpr
  rw [bind_run]
  have hft : parseExprFirstTerm pf (f + 3) st = .ok (.dataRef di.pos key .nil, st2) := by
    show parseExprFirstTerm pf ((f + 2) + 1) st = _
    unfold parseExprFirstTerm
    rw [bind_run, hn1]
    simp only [hdi, show isUnaryOp .tDollarIdent = false by decide, Bool.false_eq_true, if_false,
      show (ItemType.tDollarIdent == ItemType.tLeftParen) = false by decide,
      show isValue .tDollarIdent = true by decide, if_true]
    show newValueNode pf ((f + 1) + 1) di st1 = _
    unfold newValueNode
    simp only [hdi, hv]
    rw [bind_run]
    show (parseDataRef pf (f + 1) >>= fun acc => pure (Expr.dataRef di.pos key acc)) st1 = _
    rw [bind_run, hd2]
    rfl
  rw [hft]
  exact hl3


/-- the Print node of the tag `{$key}` whose DollarIdent token is `di` -/
def printNode (di : Item) (key : Bytes) : Node := .print di.pos (.dataRef di.pos key .nil) []

theorem parsePrint_dollar (ef f : Nat) (di rd : Item) (key : Bytes) (s : List Item) (st : FState) (hpc : st.p.peekCount ≤ 2)
    (hs : stream st.p = di :: rd :: s) (hdi : di.typ = .tDollarIdent) (hv : di.val = 36 :: key) (hrd : rd.typ = .tRightDelim) :
    ∃ st', parsePrint pf (ef + 4) (f + 1) di st = .ok (printNode di key, st') ∧ stream st'.p = s ∧ st'.p.peekCount ≤ 2 := by
  obtain ⟨p1, he, hs1, hp1⟩ := parseExpr_dollar pf ef di rd key s st.p hpc hs hdi hv hrd
  obtain ⟨st2, hn2, hs2, ht2, hp2⟩ := fnext_stream (st := { st with p := p1 }) hp1 hs1
  refine ⟨st2, ?_, hs2, by have : st2.p.peekCount = p1.peekCount - 1 := hp2; omega⟩
  unfold parsePrint
  rw [fbind_run]
  have : parseExpr0 pf (ef + 4) st = .ok (.dataRef di.pos key .nil, { st with p := p1 }) := by
    simp only [parseExpr0, liftP, he]
  rw [this]
  simp only
  unfold printLoop
  rw [fbind_run, hn2]
  simp only [hrd, beq_self_eq_true, if_true]
  rfl

theorem beginTag_dollar (ef f : Nat) (di rd : Item) (key : Bytes) (s : List Item) (st : FState) (hpc : st.p.peekCount ≤ 2)
    (hs : stream st.p = di :: rd :: s) (hdi : di.typ = .tDollarIdent) (hv : di.val = 36 :: key) (hrd : rd.typ = .tRightDelim) :
    ∃ st', beginTag pf (ef + 4) (f + 2) st = .ok (some (printNode di key), st') ∧ stream st'.p = s ∧ st'.p.peekCount ≤ 2 := by
  obtain ⟨st1, hn1, hs1, ht1, hp1⟩ := fnext_stream hpc hs
  obtain ⟨st2, hb2, hs2, hp2⟩ := fbackup_stream (st := st1) (by omega)
  rw [ht1, hs1] at hs2
  obtain ⟨st3, hpp, hs3, hp3⟩ := parsePrint_dollar pf ef f di rd key s st2 (by omega) hs2 hdi hv hrd
  refine ⟨st3, ?_, hs3, hp3⟩
  show beginTag pf (ef + 4) ((f + 1) + 1) st = _
  unfold beginTag
  rw [fbind_run, hn1]
  simp only [hdi]
  rw [fbind_run, hb2]
  simp only
  rw [fbind_run, hpp]
  rfl

/-- `textOrTag` handed the LeftDelim of a print tag: the Print node; the three tokens are consumed -/
theorem textOrTag_tag (ef f : Nat) (untl : List ItemType) (token di rd : Item) (key : Bytes) (s : List Item) (st : FState)
    (hpc : st.p.peekCount ≤ 1) (hs : stream st.p = di :: rd :: s) (htok : token.typ = .tLeftDelim)
    (hdi : di.typ = .tDollarIdent) (hv : di.val = 36 :: key) (hrd : rd.typ = .tRightDelim)
    (hu1 : untl.contains .tLeftDelim = false) (hu2 : untl.contains .tDollarIdent = false) :
    ∃ st', textOrTag pf (ef + 4) (f + 4) token untl st = .ok ((some (printNode di key), false), st') ∧
      stream st'.p = s ∧ st'.p.peekCount ≤ 2 := by
  obtain ⟨st1, hn1, hs1, ht1, hp1⟩ := fnext_stream (by omega) hs
  obtain ⟨st2, hb2, hs2, hp2⟩ := fbackup_stream (st := st1) (by omega)
  rw [ht1, hs1] at hs2
  obtain ⟨st3, hbt, hs3, hp3⟩ := beginTag_dollar pf ef (f + 1) di rd key s st2 (by omega) hs2 hdi hv hrd
  refine ⟨st3, ?_, hs3, hp3⟩
  show textOrTag pf (ef + 4) ((f + 3) + 1) token untl st = _
  unfold textOrTag
  simp only
  rw [fbind_run]
  have hsk : skipComments (f + 3) token st = .ok (token, st) := by
    unfold skipComments
    simp [htok, pure, StateT.pure, Except.pure]
  rw [hsk]
  simp only [htok, hu1, Bool.false_eq_true, if_false]
  rw [fbind_run, hn1]
  simp only [hdi, hu2, Bool.and_false, Bool.false_eq_true, if_false]
  rw [fbind_run, hb2]
  simp only [show (ItemType.tLeftDelim == ItemType.tText) = false by decide, Bool.false_eq_true, if_false,
    beq_self_eq_true, if_true]
  rw [fbind_run, hbt]
  rfl

/-! ## the node list of a body -/

/-- the RawText node of a text piece that ends at `e`: none if the lexer drops the piece or its
    normalised text is empty -/
def textNodes (t : Bytes) (e : Nat) : List Node :=
  if dropped t = false ∧ (joinLines t false false).isEmpty = false then [.rawText e (joinLines t false false)] else []

/-- the nodes `itemList` builds for a body that begins at byte `q` of the source -/
def nodesOf : Nat → Body → List Node
  | _, [] => []
  | q, .text t :: r => textNodes t (q + t.length) ++ nodesOf (q + t.length) r
  | q, .tag id :: r =>
    .print (q + 2 + id.length) (.dataRef (q + 2 + id.length) id .nil) [] :: nodesOf (q + 3 + id.length) r

theorem toList_append : ∀ (a b : NodeList), (a.append b).toList = a.toList ++ b.toList
  | .nil, _ => rfl
  | .cons n r, b => by simp [NodeList.append, NodeList.toList, toList_append r b]

theorem itemsOf_head (q : Nat) (r : Body) (h : ∀ p ∈ r.head?, p.isText = false) :
    ∃ nxt s, itemsOf q r = nxt :: s ∧ nxt.typ ≠ .tText ∧ nxt.typ ≠ .tComment := by
  match r, h with
  | [], _ => exact ⟨_, _, rfl, by simp, by simp⟩
  | .tag id :: r, _ => exact ⟨_, _, rfl, by simp, by simp⟩
  | .text t :: r, h => have := h (.text t) (by simp); simp [Piece.isText] at this

/-- **parser.**  `itemList(itemEOF)` on the tokens of a well-formed body -/
theorem parse_body (ef : Nat) : ∀ (b : Body), WF b → ∀ (q fuel : Nat) (lpos : Option Nat) (nodes : NodeList) (st : FState),
    st.p.peekCount ≤ 2 → stream st.p = itemsOf q b → (itemsOf q b).length + 4 ≤ fuel →
    ∃ p nl st', itemListLoop pf (ef + 4) fuel [.tEOF] lpos nodes st = .ok (.list p nl, st') ∧
      nl.toList = nodes.toList ++ nodesOf q b := by
  intro b
  induction b with
  | nil =>
    intro _ q fuel lpos nodes st hpc hs hf
    obtain ⟨f, rfl⟩ : ∃ f, fuel = f + 3 := ⟨fuel - 3, by simp [itemsOf] at hf; omega⟩
    obtain ⟨st1, hn1, hs1, ht1, hp1⟩ := fnext_stream hpc (show stream st.p = ⟨.tEOF, q, []⟩ :: [] from hs)
    have hun := textOrTag_until pf (ef + 4) f [.tEOF] ⟨.tEOF, q, []⟩ st1 (by simp) (by simp)
    refine ⟨lpos.getD q, nodes, st1, ?_, by simp [nodesOf]⟩
    show itemListLoop pf (ef + 4) ((f + 2) + 1) [.tEOF] lpos nodes st = _
    unfold itemListLoop
    rw [fbind_run, hn1]
    simp only
    rw [fbind_run, hun]
    rfl
  | cons pc r ih =>
    intro hwf q fuel lpos nodes st hpc hs hf
    match pc, hwf, hs with
    | .tag id, hwf, hs =>
      have hf' : (itemsOf (q + 3 + id.length) r).length + 7 ≤ fuel := by
        simp only [itemsOf, List.length_cons] at hf; omega
      obtain ⟨f, rfl⟩ : ∃ f, fuel = f + 5 := ⟨fuel - 5, by omega⟩
      simp only [itemsOf] at hs
      obtain ⟨st1, hn1, hs1, ht1, hp1⟩ := fnext_stream hpc hs
      obtain ⟨st2, hto, hs2, hp2⟩ := textOrTag_tag pf ef f [.tEOF] ⟨.tLeftDelim, q + 1, [123]⟩
        ⟨.tDollarIdent, q + 2 + id.length, 36 :: id⟩ ⟨.tRightDelim, q + 3 + id.length, [125]⟩ id _ st1 (by omega) hs1
        rfl rfl rfl rfl (by decide) (by decide)
      obtain ⟨p, nl, st3, hl, hnl⟩ := ih hwf.2 (q + 3 + id.length) (f + 4) (some (lpos.getD (q + 1)))
        (nodes.append (.cons (printNode ⟨.tDollarIdent, q + 2 + id.length, 36 :: id⟩ id) .nil)) st2 hp2 hs2
        (by omega)
      refine ⟨p, nl, st3, ?_, ?_⟩
      · show itemListLoop pf (ef + 4) ((f + 4) + 1) [.tEOF] lpos nodes st = _
        unfold itemListLoop
        rw [fbind_run, hn1]
        simp only
        rw [fbind_run, hto]
        simp only [Bool.false_eq_true, if_false]
        exact hl
      · rw [hnl, toList_append]
        simp [nodesOf, printNode, NodeList.toList]
    | .text t, hwf, hs =>
      by_cases hd : dropped t = false
      · -- the Text token, then a token that is neither Text nor Comment
        obtain ⟨nxt, s, hnx, hnt, hnc⟩ := itemsOf_head (q + t.length) r hwf.2.1
        have hf' : (itemsOf (q + t.length) r).length + 5 ≤ fuel := by
          simp only [itemsOf, hd, if_true, List.length_append, List.length_cons, List.length_nil] at hf; omega
        have hf'' : 1 ≤ (itemsOf (q + t.length) r).length := by rw [hnx]; simp
        obtain ⟨f, rfl⟩ : ∃ f, fuel = f + 5 := ⟨fuel - 5, by omega⟩
        simp only [itemsOf, hd, if_true, hnx, List.cons_append, List.nil_append] at hs
        obtain ⟨st1, hn1, hs1, ht1, hp1⟩ := fnext_stream hpc hs
        obtain ⟨st2, hto, hs2, hp2⟩ := textOrTag_text_spec pf (ef + 4) (f + 3) [.tEOF] ⟨.tText, q + t.length, t⟩ st1 []
          ⟨.tText, q + t.length, t⟩ [] nxt s (by omega) ht1 (by rw [hs1]; rfl) (fun _ h => absurd h (by simp)) rfl
          (fun _ h => absurd h (by simp)) hnt (by decide) (by simp)
        rw [← hnx] at hs2
        have hcm : (nxt.typ == ItemType.tComment) = false := by simpa using hnc
        have htn : textNode [] ⟨.tText, q + t.length, t⟩ [] nxt =
            if (joinLines t false false).isEmpty then none else some (.rawText (q + t.length) (joinLines t false false)) := by
          simp only [textNode, List.flatMap_nil, List.append_nil, List.isEmpty_nil, Bool.not_true, hcm]
        rw [htn] at hto
        by_cases hj : (joinLines t false false).isEmpty = true
        · rw [if_pos hj] at hto
          obtain ⟨p, nl, st3, hl, hnl⟩ := ih hwf.2.2 (q + t.length) (f + 4) (some (lpos.getD (q + t.length))) nodes st2 hp2 hs2
            (by omega)
          refine ⟨p, nl, st3, ?_, ?_⟩
          · show itemListLoop pf (ef + 4) ((f + 4) + 1) [.tEOF] lpos nodes st = _
            unfold itemListLoop
            rw [fbind_run, hn1]
            simp only
            rw [fbind_run, hto]
            simp only [Bool.false_eq_true, if_false]
            exact hl
          · rw [hnl]
            simp [nodesOf, textNodes, hj]
        · rw [if_neg hj] at hto
          obtain ⟨p, nl, st3, hl, hnl⟩ := ih hwf.2.2 (q + t.length) (f + 4) (some (lpos.getD (q + t.length)))
            (nodes.append (.cons (.rawText (q + t.length) (joinLines t false false)) .nil)) st2 hp2 hs2
            (by omega)
          refine ⟨p, nl, st3, ?_, ?_⟩
          · show itemListLoop pf (ef + 4) ((f + 4) + 1) [.tEOF] lpos nodes st = _
            unfold itemListLoop
            rw [fbind_run, hn1]
            simp only
            rw [fbind_run, hto]
            simp only [Bool.false_eq_true, if_false]
            exact hl
          · rw [hnl, toList_append]
            have hj' : (joinLines t false false).isEmpty = false := by simpa using hj
            simp [nodesOf, textNodes, hj', hd, NodeList.toList]
      · -- dropped by the lexer: no token, no node
        have hd' : dropped t = true := by simpa using hd
        simp only [itemsOf, hd', Bool.true_eq_false, if_false, List.nil_append] at hs hf
        obtain ⟨p, nl, st3, hl, hnl⟩ := ih hwf.2.2 (q + t.length) fuel lpos nodes st hpc hs hf
        refine ⟨p, nl, st3, hl, ?_⟩
        rw [hnl]
        simp [nodesOf, textNodes, hd']

end parser

/-! ## lexer ∘ parser -/

/-- **`body_source_spec`.**  For every well-formed body `b` (text pieces and print tags `{$id}`,
    no two text pieces adjacent), `parse.SoyFile` on the source text `srcOf b`:

    * the lexer sends exactly `itemsOf 0 b` — one Text item per text piece that is not dropped
      (dropped = all whitespace with a line break), LeftDelim / DollarIdent / RightDelim per tag,
      EOF — every item positioned at the byte where its piece / token ends;
    * the parser returns exactly `nodesOf 0 b` — `RawText (joinLines t false false)` at the end
      position of every text piece `t` that is not dropped and does not normalise to nothing, the
      Print node of the data reference `$id` for every tag, in source order. -/
theorem body_source_spec (pf : Bytes → Option UInt64) (b : Body) (h : WF b) :
    lexAll (srcOf b) false = .items (itemsOf 0 b) ∧ parseSource pf (srcOf b) = .ok (nodesOf 0 b) := by
  refine ⟨lexAll_body b h, ?_⟩
  unfold parseSource
  rw [lexAll_body b h]
  simp only
  unfold parseFile
  simp only [StateT.run]
  have hef : exprFuel (itemsOf 0 b) = (8 * (itemsOf 0 b).length + 60) + 4 := by
    simp only [exprFuel, Parser.fuelFor]
  obtain ⟨p, nl, st', hl, hnl⟩ := parse_body pf (8 * (itemsOf 0 b).length + 60) b h 0
    (FileParser.fuelFor (itemsOf 0 b).length) none .nil { p := initState (itemsOf 0 b) } (by simp [initState])
    (by simp [stream, pending, initState]) (by simp only [FileParser.fuelFor]; omega)
  rw [hef, hl]
  simp only [hnl, NodeList.toList, List.nil_append]




/-! ## Non-vacuity

  `Hi {$name}⏎␣␣{$x_1}a⏎␣␣<b>/c`: three text pieces — `Hi␣`, the whitespace-with-line-break run
  between the two tags (dropped by the lexer) and `a⏎␣␣<b>/c` (the line break next to `<` is joined
  away without a space; the `/` before `c` stays text) — and two tags. -/

def exBody : Body :=
  [.text [72, 105, 32], .tag [110, 97, 109, 101], .text [10, 32, 32], .tag [120, 95, 49],
   .text [97, 10, 32, 32, 60, 98, 62, 47, 99]]

theorem exBody_wf : WF exBody := by
  simp only [exBody, WF, List.head?_cons, Option.mem_def, Option.some.injEq, forall_eq', Piece.isText, List.head?_nil,
    and_true, true_and]
  refine ⟨?_, ?_, ?_, ?_, ?_⟩ <;> decide

theorem exBody_src : srcOf exBody =
    [72, 105, 32, 123, 36, 110, 97, 109, 101, 125, 10, 32, 32, 123, 36, 120, 95, 49, 125,
     97, 10, 32, 32, 60, 98, 62, 47, 99] := by rfl

theorem exBody_dropped : dropped [72, 105, 32] = false ∧ dropped [10, 32, 32] = true ∧
    dropped [97, 10, 32, 32, 60, 98, 62, 47, 99] = false := by
  refine ⟨?_, ?_, ?_⟩ <;>
    simp [dropped, allSpaceWithNewline, allSpaceLoop, decodeRune, byteAt, Lex.isSpaceEOL, Lex.isSpace, Lex.isEndOfLine]

theorem exBody_items : itemsOf 0 exBody =
    [⟨.tText, 3, [72, 105, 32]⟩, ⟨.tLeftDelim, 4, [123]⟩, ⟨.tDollarIdent, 9, [36, 110, 97, 109, 101]⟩, ⟨.tRightDelim, 10, [125]⟩,
     ⟨.tLeftDelim, 14, [123]⟩, ⟨.tDollarIdent, 18, [36, 120, 95, 49]⟩, ⟨.tRightDelim, 19, [125]⟩,
     ⟨.tText, 28, [97, 10, 32, 32, 60, 98, 62, 47, 99]⟩, ⟨.tEOF, 28, []⟩] := by
  simp [exBody, itemsOf, exBody_dropped]

theorem exBody_nodes : nodesOf 0 exBody =
    [.rawText 3 [72, 105, 32], .print 9 (.dataRef 9 [110, 97, 109, 101] .nil) [],
     .print 18 (.dataRef 18 [120, 95, 49] .nil) [], .rawText 28 [97, 60, 98, 62, 47, 99]] := by
  have j1 : joinLines [72, 105, 32] false false = [72, 105, 32] := by rfl
  have j3 : joinLines [97, 10, 32, 32, 60, 98, 62, 47, 99] false false = [97, 60, 98, 62, 47, 99] := by rfl
  simp [exBody, nodesOf, textNodes, exBody_dropped, j1, j3]

/-- the theorem applied: what `lex` sends and what `parse.SoyFile` returns for that source -/
theorem exBody_spec (pf : Bytes → Option UInt64) :
    lexAll [72, 105, 32, 123, 36, 110, 97, 109, 101, 125, 10, 32, 32, 123, 36, 120, 95, 49, 125,
        97, 10, 32, 32, 60, 98, 62, 47, 99] false =
      .items [⟨.tText, 3, [72, 105, 32]⟩, ⟨.tLeftDelim, 4, [123]⟩, ⟨.tDollarIdent, 9, [36, 110, 97, 109, 101]⟩,
        ⟨.tRightDelim, 10, [125]⟩, ⟨.tLeftDelim, 14, [123]⟩, ⟨.tDollarIdent, 18, [36, 120, 95, 49]⟩, ⟨.tRightDelim, 19, [125]⟩,
        ⟨.tText, 28, [97, 10, 32, 32, 60, 98, 62, 47, 99]⟩, ⟨.tEOF, 28, []⟩] ∧
    parseSource pf [72, 105, 32, 123, 36, 110, 97, 109, 101, 125, 10, 32, 32, 123, 36, 120, 95, 49, 125,
        97, 10, 32, 32, 60, 98, 62, 47, 99] =
      .ok [.rawText 3 [72, 105, 32], .print 9 (.dataRef 9 [110, 97, 109, 101] .nil) [],
        .print 18 (.dataRef 18 [120, 95, 49] .nil) [], .rawText 28 [97, 60, 98, 62, 47, 99]] := by
  have := body_source_spec pf exBody exBody_wf
  rw [exBody_src, exBody_items, exBody_nodes] at this
  exact this


/-! # bodies with block comments

  The same for bodies that also contain block comments `/*c*/` (`c` non-empty, ASCII, without `*`):
  the lexer sends one Comment item per comment; the parser builds no node for it, but the text piece
  directly before a comment is normalised with `trimAfter`, the one directly after it with
  `trimBefore` (`joinLines t tb ta`). -/

theorem lexBlockComment_some {l l1 : Lexer} {r : Int} {star : Bool} (hn : l.next = some (r, l1)) :
    lexBlockComment l star =
      if r = eof then Lex.errorfAt l1 l1.start clsComment
      else if r = 42 then lexBlockComment l1 true
      else if r = 47 ∧ star = true then
        match l1.emit .tComment with
        | none => none
        | some l2 => some (some .text, l2)
      else lexBlockComment l1 false := by
  rw [lexBlockComment]
  split
  · rename_i h; rw [hn] at h; exact absurd h (by simp)
  · rename_i r' l1' h
    rw [hn] at h
    simp only [Option.some.injEq, Prod.mk.injEq] at h
    obtain ⟨rfl, rfl⟩ := h
    rfl

/-- the scan of a block comment: `k` bytes other than `*`, then `*/`; the pending token began at `a` -/
theorem lexBlockComment_body (inp : Array UInt8) (a : Nat) (dd : Bool) (ts : Int) (le : Item) (its : Array Item) :
    ∀ (k q : Nat) (w : Int), q + k + 1 < inp.size → a ≤ q →
    (∀ i, i < k → byteAt inp (q + i) < 128 ∧ byteAt inp (q + i) ≠ 42) → byteAt inp (q + k) = 42 →
    byteAt inp (q + k + 1) = 47 →
    lexBlockComment (Lexer.mk inp q a w dd ts le its) false =
      some (some .text, Lexer.mk inp ((q + k + 2 : Nat) : Int) ((q + k + 2 : Nat) : Int) 1 dd ts
        ⟨.tComment, q + k + 2, (inp.extract a (q + k + 2)).toList⟩
        (its.push ⟨.tComment, q + k + 2, (inp.extract a (q + k + 2)).toList⟩)) := by
  intro k
  induction k with
  | zero =>
    intro q w hq ha _ h1 h2
    rw [lexBlockComment_some (next_mk inp q a w dd ts le its 42 (by omega) h1 (by omega))]
    simp only [Int.cast_ofNat_Int, eof, show ¬ ((42 : Int) = -1) by decide, if_false, if_true]
    rw [lexBlockComment_some (next_mk inp (q + 1) a 1 dd ts le its 47 (by omega) h2 (by omega))]
    simp only [Int.cast_ofNat_Int, eof, show ¬ ((47 : Int) = -1) by decide, show ¬ ((47 : Int) = 42) by decide, if_false,
      and_self, if_true]
    rw [emit_mk inp a (q + 1 + 1) 1 dd ts le its .tComment (by omega) (by omega)]
  | succ k ih =>
    intro q w hq ha hb h1 h2
    obtain ⟨hc, h42⟩ := hb 0 (by omega)
    simp only [Nat.add_zero] at hc h42
    rw [lexBlockComment_some (next_mk inp q a w dd ts le its (byteAt inp q) (by omega) rfl hc)]
    rw [if_neg (by simp only [eof]; omega), if_neg (by omega), if_neg (by simp)]
    rw [ih (q + 1) 1 (by omega) (by omega) (fun i hi => by
      have := hb (i + 1) (by omega)
      rw [show q + 1 + i = q + (i + 1) by omega]; exact this)
      (by rw [show q + 1 + k = q + (k + 1) by omega]; exact h1)
      (by rw [show q + 1 + k + 1 = q + (k + 1) + 1 by omega]; exact h2)]
    rw [show q + 1 + k + 2 = q + (k + 1) + 2 by omega]


/-- text then `/*c*/`: ONE `lexText` call sends the text and the Comment item and returns to `lexText` -/
theorem lexText_text_cmt (inp : Array UInt8) (q n k : Nat) (w : Int) (dd : Bool) (ts : Int) (le : Item) (its : Array Item)
    (hsz : q + n + k + 3 < inp.size)
    (htxt : ∀ i, i < n → TextByte (byteAt inp (q + i)) (byteAt inp (q + i + 1)))
    (h1 : byteAt inp (q + n) = 47) (h2 : byteAt inp (q + n + 1) = 42) (hk : 0 < k)
    (hc : ∀ i, i < k → byteAt inp (q + n + 2 + i) < 128 ∧ byteAt inp (q + n + 2 + i) ≠ 42)
    (h3 : byteAt inp (q + n + 2 + k) = 42) (h4 : byteAt inp (q + n + 2 + k + 1) = 47) :
    ∃ (w' : Int) (dd' : Bool) (ts' : Int) (le' : Item) (its' : Array Item),
      lexText (Lexer.mk inp q q w dd ts le its) =
        some (some .text, Lexer.mk inp ((q + n + k + 4 : Nat) : Int) ((q + n + k + 4 : Nat) : Int) w' dd' ts' le' its') ∧
      its'.toList = its.toList ++ textItems inp (q : Int) ((q + n : Nat) : Int) ++
        [⟨.tComment, q + n + k + 4, (inp.extract (q + n) (q + n + k + 4)).toList⟩] := by
  obtain ⟨l', lc', hr, hp⟩ := plainRun_text n (Lexer.mk inp q q w dd ts le its) noChar (by show (0 : Int) ≤ q; omega)
    (by show (q : Int) + n ≤ (inp.size : Int); omega)
    (by intro i hi; show TextByte (byteAt inp ((q : Int).toNat + i)) (byteAt inp ((q : Int).toNat + i + 1))
        simp only [Int.toNat_natCast]; exact htxt i hi)
    (by intro _; show byteAt inp ((q : Int).toNat + n) < 128; simp only [Int.toNat_natCast]; omega)
  have hp' : l'.pos = ((q + n : Nat) : Int) := by rw [hp]; show (q : Int) + n = _; omega
  obtain ⟨_, _, _, hin, _⟩ := lexTextLoop_run hr
  have hin' : l'.input = inp := hin
  have hn := next_ascii (l := l') (by omega) (by simp only [Lexer.len, hin', hp']; omega)
    (by rw [hin', hp']; simp only [Int.toNat_natCast]; omega)
  rw [hin', hp'] at hn
  simp only [Int.toNat_natCast, h1] at hn
  have hn2 := next_ascii (l := { l' with width := 1, pos := ((q + n : Nat) : Int) + 1 })
    (by show (0 : Int) ≤ ((q + n : Nat) : Int) + 1; omega)
    (by show ((q + n : Nat) : Int) + 1 < (l'.input.size : Int); rw [hin']; omega)
    (by show byteAt l'.input (((q + n : Nat) : Int) + 1).toNat < 128
        rw [hin', show (((q + n : Nat) : Int) + 1).toNat = q + n + 1 by omega]; omega)
  have e1 : ({ l' with width := 1, pos := ((q + n : Nat) : Int) + 1 } : Lexer).pos.toNat = q + n + 1 := by
    show (((q + n : Nat) : Int) + 1).toNat = _; omega
  rw [e1] at hn2
  have e2 : ({ l' with width := 1, pos := ((q + n : Nat) : Int) + 1 } : Lexer).input = inp := hin'
  rw [e2, h2] at hn2
  obtain ⟨l3, hit, hp3, hin3, hlx, hst3⟩ := lexText_cut_block hr hn hn2 (by show (0 : Int) ≤ q; omega)
    (by show (q : Int) ≤ q; omega)
  obtain ⟨inp3, p3, s3, w3, dd3, ts3, le3, its3⟩ := l3
  simp only at hit hp3 hin3 hst3
  subst hin3
  have hp3' : p3 = ((q + n + 2 : Nat) : Int) := by
    rw [hp3]; show ((q + n : Nat) : Int) + 1 + 1 = _; omega
  rw [hp'] at hst3 hit
  subst hp3' hst3
  have hc0 := hc 0 hk
  simp only [Nat.add_zero] at hc0
  refine ⟨1, dd3, ts3, ⟨.tComment, q + n + k + 4, (inp3.extract (q + n) (q + n + k + 4)).toList⟩,
    its3.push ⟨.tComment, q + n + k + 4, (inp3.extract (q + n) (q + n + k + 4)).toList⟩, ?_, ?_⟩
  · show lexTextLoop _ noChar = _
    rw [hlx]
    unfold afterSlashStar
    rw [next_mk inp3 (q + n + 2) _ w3 dd3 ts3 le3 its3 (byteAt inp3 (q + n + 2)) (by omega) rfl hc0.1]
    simp only
    rw [if_neg (by omega), backup_mk]
    rw [lexBlockComment_body inp3 (q + n) dd3 ts3 le3 its3 k (q + n + 2) 1 (by omega) (by omega) hc h3 h4]
    rw [show q + n + 2 + k + 2 = q + n + k + 4 by omega]
  · simp only [Array.toList_push, hit]


inductive CPiece where
  | text (t : Bytes)
  | tag (id : Bytes)
  /-- the block comment `/*c*/` -/
  | comment (c : Bytes)
  deriving Repr, DecidableEq

abbrev CBody := List CPiece

def CPiece.src : CPiece → Bytes
  | .text t => t
  | .tag id => 123 :: 36 :: (id ++ [125])
  | .comment c => 47 :: 42 :: (c ++ [42, 47])

def csrcOf : CBody → Bytes
  | [] => []
  | p :: r => p.src ++ csrcOf r

/-- the inside of a block comment: non-empty, ASCII, no `*` -/
def cmtOK (c : Bytes) : Prop :=
  0 < c.length ∧ ∀ i, i < c.length → (c.getD i 0).toNat < 128 ∧ (c.getD i 0).toNat ≠ 42

instance (c : Bytes) : Decidable (cmtOK c) := by unfold cmtOK; infer_instance

def CPiece.isText : CPiece → Bool
  | .text _ => true
  | _ => false

def CPiece.isComment : CPiece → Bool
  | .comment _ => true
  | _ => false

/-- well-formed: as before; in addition a text piece directly before a comment does not end with `/` -/
def CWF : CBody → Prop
  | [] => True
  | .text t :: r =>
    textOK t ∧ (∀ p ∈ r.head?, p.isText = false ∧ (p.isComment = true → (t.getD (t.length - 1) 0).toNat ≠ 47)) ∧ CWF r
  | .tag id :: r => idOK id ∧ CWF r
  | .comment c :: r => cmtOK c ∧ CWF r

def citemsOf : Nat → CBody → List Item
  | q, [] => [⟨.tEOF, q, []⟩]
  | q, .text t :: r => (if dropped t = false then [⟨.tText, q + t.length, t⟩] else []) ++ citemsOf (q + t.length) r
  | q, .tag id :: r =>
    ⟨.tLeftDelim, q + 1, [123]⟩ :: ⟨.tDollarIdent, q + 2 + id.length, 36 :: id⟩ ::
      ⟨.tRightDelim, q + 3 + id.length, [125]⟩ :: citemsOf (q + 3 + id.length) r
  | q, .comment c :: r => ⟨.tComment, q + 4 + c.length, 47 :: 42 :: (c ++ [42, 47])⟩ :: citemsOf (q + 4 + c.length) r

theorem csrcOf_length_ge : ∀ (b : CBody), CWF b → b.length ≤ (csrcOf b).length
  | [], _ => Nat.le_refl _
  | .text t :: r, h => by
    have := csrcOf_length_ge r h.2.2
    have := h.1.1
    simp only [csrcOf, CPiece.src, List.length_cons, List.length_append]; omega
  | .tag id :: r, h => by
    have := csrcOf_length_ge r h.2
    simp only [csrcOf, CPiece.src, List.length_cons, List.length_append]; omega
  | .comment c :: r, h => by
    have := csrcOf_length_ge r h.2
    simp only [csrcOf, CPiece.src, List.length_cons, List.length_append]; omega

/-- a text run `t` (possibly empty) and the comment `/*c*/` behind it: one state function -/
theorem cmt_run {inp : Array UInt8} {q : Nat} {t c post : Bytes} (ht : t = [] ∨ textOK t) (hc : cmtOK c)
    (hlast : (t.getD (t.length - 1) 0).toNat ≠ 47)
    (h : Holds inp q (t ++ (47 :: 42 :: (c ++ [42, 47]) ++ post))) (f : Nat) (w : Int) (dd : Bool) (ts : Int) (le : Item)
    (its : Array Item) :
    ∃ (w' : Int) (dd' : Bool) (ts' : Int) (le' : Item) (its' : Array Item),
      run (f + 1) .text (Lexer.mk inp q q w dd ts le its) =
        run f .text (Lexer.mk inp ((q + t.length + 4 + c.length : Nat) : Int) ((q + t.length + 4 + c.length : Nat) : Int)
          w' dd' ts' le' its') ∧
      its'.toList = its.toList ++ textItem t (q + t.length) ++
        [⟨.tComment, q + t.length + 4 + c.length, 47 :: 42 :: (c ++ [42, 47])⟩] := by
  obtain ⟨ht', hcm⟩ := h.append
  obtain ⟨hsrc, _⟩ := hcm.append
  have hval := hsrc.extract
  obtain ⟨h0, hb0, h1⟩ := hsrc.cons
  obtain ⟨h1', hb1, h2⟩ := h1.cons
  obtain ⟨hcb, hend⟩ := h2.append
  obtain ⟨h3', hb3, h4⟩ := hend.cons
  obtain ⟨h4', hb4, _⟩ := h4.cons
  have e2 : q + t.length + 1 + 1 = q + t.length + 2 := by omega
  rw [e2] at hcb hb3 h3' hb4 h4'
  simp only [List.length_cons, List.length_append, List.length_nil] at hval
  obtain ⟨w', dd', ts', le', its', hlx, hits⟩ := lexText_text_cmt inp q t.length c.length w dd ts le its (by omega)
    (text_bytes ht' ht (Or.inl hlast)) hb0 hb1 hc.1
    (fun i hi => by rw [(hcb i hi).2]; exact hc.2 i hi) hb3 hb4
  refine ⟨w', dd', ts', le', its', ?_, ?_⟩
  · rw [run_succ (f := f) (show step .text _ = _ from hlx)]
    rw [show q + t.length + c.length + 4 = q + t.length + 4 + c.length by omega]
  · rw [hits, textItems_holds ht']
    rw [show q + t.length + (c.length + (0 + 1 + 1) + 1 + 1) = q + t.length + c.length + 4 by omega] at hval
    rw [hval, show q + t.length + c.length + 4 = q + t.length + 4 + c.length by omega]

/-- the lexer on a well-formed body with comments -/
theorem lex_cbody : ∀ (n : Nat) (b : CBody), b.length ≤ n → CWF b →
    ∀ (inp : Array UInt8) (q : Nat) (w : Int) (dd : Bool) (ts : Int) (le : Item) (its : Array Item) (fuel : Nat),
    Holds inp q (csrcOf b) → inp.size = q + (csrcOf b).length → 7 * b.length + 1 ≤ fuel →
    run fuel .text (Lexer.mk inp q q w dd ts le its) = .items (its.toList ++ citemsOf q b) := by
  intro n
  induction n with
  | zero =>
    intro b hb _ inp q w dd ts le its fuel _ hsz hf
    have : b = [] := List.eq_nil_of_length_eq_zero (by omega)
    subst this
    obtain ⟨f, rfl⟩ : ∃ f, fuel = f + 1 := ⟨fuel - 1, by omega⟩
    obtain ⟨lf, h1, h2⟩ := lexText_text_eof inp q 0 w dd ts le its (by simpa [csrcOf] using hsz.symm) (fun i hi => absurd hi (by omega))
    rw [run_end (show step .text _ = _ from h1), h2, textItems_nat]
    simp [citemsOf]
  | succ n ih =>
    intro b hb hwf inp q w dd ts le its fuel hh hsz hf
    match b, hb, hwf, hh, hsz, hf with
    | [], _, _, _, hsz, hf =>
      obtain ⟨f, rfl⟩ : ∃ f, fuel = f + 1 := ⟨fuel - 1, by omega⟩
      obtain ⟨lf, h1, h2⟩ := lexText_text_eof inp q 0 w dd ts le its (by simpa [csrcOf] using hsz.symm) (fun i hi => absurd hi (by omega))
      rw [run_end (show step .text _ = _ from h1), h2, textItems_nat]
      simp [citemsOf]
    | .tag id :: r, hb, hwf, hh, hsz, hf =>
      obtain ⟨f, rfl⟩ : ∃ f, fuel = f + 7 := ⟨fuel - 7, by simp at hf; omega⟩
      have hh' : Holds inp q ([] ++ (123 :: 36 :: (id ++ [125]) ++ csrcOf r)) := hh
      obtain ⟨w', dd', ts', le', its', hrun, hits⟩ := seg_run (Or.inl rfl) hwf.1 hh' f w dd ts le its
      rw [hrun]
      simp only [List.length_nil, Nat.add_zero] at hits ⊢
      have hr := (show Holds inp q ((123 :: 36 :: (id ++ [125])) ++ csrcOf r) from hh).append.2
      have e : q + (123 :: 36 :: (id ++ [125])).length = q + 3 + id.length := by simp; omega
      rw [e] at hr
      rw [ih r (by simp at hb; omega) hwf.2 inp (q + 3 + id.length) w' dd' ts' le' its' f hr
        (by rw [hsz]; simp [csrcOf, CPiece.src]; omega) (by simp at hf; omega), hits]
      simp [citemsOf, textItem]
    | .comment c :: r, hb, hwf, hh, hsz, hf =>
      obtain ⟨f, rfl⟩ : ∃ f, fuel = f + 1 := ⟨fuel - 1, by omega⟩
      have hh' : Holds inp q ([] ++ (47 :: 42 :: (c ++ [42, 47]) ++ csrcOf r)) := hh
      obtain ⟨w', dd', ts', le', its', hrun, hits⟩ := cmt_run (Or.inl rfl) hwf.1 (by decide) hh' f w dd ts le its
      rw [hrun]
      simp only [List.length_nil, Nat.add_zero] at hits ⊢
      have hr := (show Holds inp q ((47 :: 42 :: (c ++ [42, 47])) ++ csrcOf r) from hh).append.2
      have e : q + (47 :: 42 :: (c ++ [42, 47])).length = q + 4 + c.length := by simp; omega
      rw [e] at hr
      rw [ih r (by simp at hb; omega) hwf.2 inp (q + 4 + c.length) w' dd' ts' le' its' f hr
        (by rw [hsz]; simp [csrcOf, CPiece.src]; omega) (by simp at hf; omega), hits]
      simp [citemsOf, textItem]
    | [.text t], _, hwf, hh, hsz, hf =>
      obtain ⟨f, rfl⟩ : ∃ f, fuel = f + 1 := ⟨fuel - 1, by omega⟩
      have hh' : Holds inp q t := by simpa [csrcOf, CPiece.src] using hh
      have hsz' : q + t.length = inp.size := by simpa [csrcOf, CPiece.src] using hsz.symm
      have hb0 := byteAt_beyond (inp := inp) (i := q + t.length) (by omega)
      obtain ⟨lf, h1, h2⟩ := lexText_text_eof inp q t.length w dd ts le its hsz'
        (text_bytes hh' (Or.inr hwf.1) (Or.inr (by omega)))
      rw [run_end (show step .text _ = _ from h1), h2, textItems_holds hh']
      have := hwf.1.1
      simp [citemsOf, textItem, this]
    | .text t :: .tag id :: r, hb, hwf, hh, hsz, hf =>
      obtain ⟨f, rfl⟩ : ∃ f, fuel = f + 7 := ⟨fuel - 7, by simp at hf; omega⟩
      have hh' : Holds inp q (t ++ (123 :: 36 :: (id ++ [125]) ++ csrcOf r)) := hh
      obtain ⟨w', dd', ts', le', its', hrun, hits⟩ := seg_run (Or.inr hwf.1) hwf.2.2.1 hh' f w dd ts le its
      rw [hrun]
      have hr := (show Holds inp (q + t.length) ((123 :: 36 :: (id ++ [125])) ++ csrcOf r) from hh.append.2).append.2
      have e : q + t.length + (123 :: 36 :: (id ++ [125])).length = q + t.length + 3 + id.length := by simp; omega
      rw [e] at hr
      rw [ih r (by simp at hb; omega) hwf.2.2.2 inp (q + t.length + 3 + id.length) w' dd' ts' le' its' f hr
        (by rw [hsz]; simp [csrcOf, CPiece.src]; omega) (by simp at hf; omega), hits]
      have := hwf.1.1
      simp [citemsOf, textItem, this]
    | .text t :: .comment c :: r, hb, hwf, hh, hsz, hf =>
      obtain ⟨f, rfl⟩ : ∃ f, fuel = f + 1 := ⟨fuel - 1, by omega⟩
      have hh' : Holds inp q (t ++ (47 :: 42 :: (c ++ [42, 47]) ++ csrcOf r)) := hh
      have hlast := (hwf.2.1 (.comment c) (by simp)).2 rfl
      obtain ⟨w', dd', ts', le', its', hrun, hits⟩ := cmt_run (Or.inr hwf.1) hwf.2.2.1 hlast hh' f w dd ts le its
      rw [hrun]
      have hr := (show Holds inp (q + t.length) ((47 :: 42 :: (c ++ [42, 47])) ++ csrcOf r) from hh.append.2).append.2
      have e : q + t.length + (47 :: 42 :: (c ++ [42, 47])).length = q + t.length + 4 + c.length := by simp; omega
      rw [e] at hr
      rw [ih r (by simp at hb; omega) hwf.2.2.2 inp (q + t.length + 4 + c.length) w' dd' ts' le' its' f hr
        (by rw [hsz]; simp [csrcOf, CPiece.src]; omega) (by simp at hf; omega), hits]
      have := hwf.1.1
      simp [citemsOf, textItem, this]
    | .text _ :: .text t2 :: _, _, hwf, _, _, _ =>
      have := (hwf.2.1 (.text t2) (by simp)).1
      simp [CPiece.isText] at this

/-- **lexer**, with comments -/
theorem lexAll_cbody (b : CBody) (h : CWF b) : lexAll (csrcOf b) false = .items (citemsOf 0 b) := by
  unfold lexAll Lex.fuelFor initLexer
  simp only [Bool.false_eq_true, if_false]
  have := lex_cbody b.length b (Nat.le_refl _) h (csrcOf b).toArray 0 0 false 0 Item.zero #[] (7 * (csrcOf b).length + 8)
    (by intro i hi
        refine ⟨by simpa using hi, ?_⟩
        unfold byteAt
        simp [Array.getD_eq_getD_getElem?, List.getD_eq_getElem?_getD])
    (by simp) (by have := csrcOf_length_ge b h; omega)
  simpa using this


section cparser
variable (pf : Bytes → Option UInt64)

/-- the until-token behind a run of Comment tokens ends the list -/
theorem textOrTag_until_c (ef fuel : Nat) (untl : List ItemType) (token : Item) (st : FState) (comments : List Item)
    (e : Item) (s : List Item) (hpc : st.p.peekCount ≤ 1) (htop : top st.p = token)
    (hs : token :: stream st.p = comments ++ e :: s) (hc : ∀ c ∈ comments, c.typ = .tComment) (he : e.typ ≠ .tComment)
    (hu : untl.contains e.typ = true) (hf : comments.length + 1 ≤ fuel) :
    ∃ st', textOrTag pf ef (fuel + 1) token untl st = .ok ((none, true), st') := by
  obtain ⟨st1, hsk, _, _, _⟩ := skipComments_spec comments fuel token e s st hf hpc htop hs hc he
  refine ⟨st1, ?_⟩
  unfold textOrTag
  simp only
  rw [fbind_run, hsk]
  simp only [hu, if_true]
  rfl

/-- a print tag behind a run of Comment tokens -/
theorem textOrTag_tag_c (ef f : Nat) (untl : List ItemType) (token ld di rd : Item) (key : Bytes) (s : List Item) (st : FState)
    (comments : List Item) (hpc : st.p.peekCount ≤ 1) (htop : top st.p = token)
    (hs : token :: stream st.p = comments ++ ld :: di :: rd :: s) (hc : ∀ c ∈ comments, c.typ = .tComment)
    (htok : ld.typ = .tLeftDelim)
    (hdi : di.typ = .tDollarIdent) (hv : di.val = 36 :: key) (hrd : rd.typ = .tRightDelim)
    (hu1 : untl.contains .tLeftDelim = false) (hu2 : untl.contains .tDollarIdent = false) (hf : comments.length ≤ f) :
    ∃ st', textOrTag pf (ef + 4) (f + 4) token untl st = .ok ((some (printNode di key), false), st') ∧
      stream st'.p = s ∧ st'.p.peekCount ≤ 2 := by
  obtain ⟨st0, hsk, hs0, _, hp0⟩ := skipComments_spec comments (f + 3) token ld (di :: rd :: s) st (by omega) hpc htop hs hc
    (by rw [htok]; decide)
  obtain ⟨st1, hn1, hs1, ht1, hp1⟩ := fnext_stream (by omega) hs0
  obtain ⟨st2, hb2, hs2, hp2⟩ := fbackup_stream (st := st1) (by omega)
  rw [ht1, hs1] at hs2
  obtain ⟨st3, hbt, hs3, hp3⟩ := beginTag_dollar pf ef (f + 1) di rd key s st2 (by omega) hs2 hdi hv hrd
  refine ⟨st3, ?_, hs3, hp3⟩
  show textOrTag pf (ef + 4) ((f + 3) + 1) token untl st = _
  unfold textOrTag
  simp only
  rw [fbind_run, hsk]
  simp only [htok, hu1, Bool.false_eq_true, if_false]
  rw [fbind_run, hn1]
  simp only [hdi, hu2, Bool.and_false, Bool.false_eq_true, if_false]
  rw [fbind_run, hb2]
  simp only [show (ItemType.tLeftDelim == ItemType.tText) = false by decide, Bool.false_eq_true, if_false,
    beq_self_eq_true, if_true]
  rw [fbind_run, hbt]
  rfl

/-- the RawText node of a text piece that ends at `e`, with the two trim flags -/
def ctextNodes (t : Bytes) (e : Nat) (tb ta : Bool) : List Node :=
  if dropped t = false ∧ (joinLines t tb ta).isEmpty = false then [.rawText e (joinLines t tb ta)] else []

def nextIsComment (r : CBody) : Bool :=
  match r.head? with
  | some p => p.isComment
  | none => false

/-- the nodes of a body with comments; `tb` = the piece before is a comment -/
def cnodesOf : Bool → Nat → CBody → List Node
  | _, _, [] => []
  | tb, q, .text t :: r => ctextNodes t (q + t.length) tb (nextIsComment r) ++ cnodesOf false (q + t.length) r
  | _, q, .tag id :: r =>
    .print (q + 2 + id.length) (.dataRef (q + 2 + id.length) id .nil) [] :: cnodesOf false (q + 3 + id.length) r
  | _, q, .comment c :: r => cnodesOf true (q + 4 + c.length) r

theorem cnodesOf_flag (tb : Bool) (q : Nat) (r : CBody) (h : ∀ p ∈ r.head?, p.isText = false) :
    cnodesOf tb q r = cnodesOf false q r := by
  match r, h with
  | [], _ => rfl
  | .tag _ :: _, _ => rfl
  | .comment _ :: _, _ => rfl
  | .text t :: _, h => have := h (.text t) (by simp); simp [CPiece.isText] at this

theorem citemsOf_head (q : Nat) (r : CBody) (h : ∀ p ∈ r.head?, p.isText = false) :
    ∃ nxt s, citemsOf q r = nxt :: s ∧ nxt.typ ≠ .tText ∧ (nxt.typ == .tComment) = nextIsComment r := by
  match r, h with
  | [], _ => exact ⟨_, _, rfl, by simp, by simp [nextIsComment]⟩
  | .tag id :: r, _ => exact ⟨_, _, rfl, by simp, by simp [nextIsComment, CPiece.isComment]⟩
  | .comment c :: r, _ => exact ⟨_, _, rfl, by simp, by simp [nextIsComment, CPiece.isComment]⟩
  | .text t :: r, h => have := h (.text t) (by simp); simp [CPiece.isText] at this

/-- **parser**, with comments: `comments` = the Comment tokens read since the last node -/
theorem parse_cbody (ef : Nat) : ∀ (b : CBody), CWF b → ∀ (q fuel : Nat) (lpos : Option Nat) (nodes : NodeList) (st : FState)
    (comments : List Item),
    st.p.peekCount ≤ 2 → (∀ c ∈ comments, c.typ = .tComment) → stream st.p = comments ++ citemsOf q b →
    (comments ++ citemsOf q b).length + 4 ≤ fuel →
    ∃ p nl st', itemListLoop pf (ef + 4) fuel [.tEOF] lpos nodes st = .ok (.list p nl, st') ∧
      nl.toList = nodes.toList ++ cnodesOf (!comments.isEmpty) q b := by
  intro b
  induction b with
  | nil =>
    intro _ q fuel lpos nodes st comments hpc hc hs hf
    simp only [citemsOf, List.length_append, List.length_cons, List.length_nil] at hf
    obtain ⟨f, rfl⟩ : ∃ f, fuel = f + 2 := ⟨fuel - 2, by omega⟩
    obtain ⟨x, tl, hx⟩ : ∃ x tl, comments ++ citemsOf q [] = x :: tl := by
      cases comments with
      | nil => exact ⟨_, _, rfl⟩
      | cons c cs => exact ⟨_, _, rfl⟩
    rw [hx] at hs
    obtain ⟨st1, hn1, hs1, ht1, hp1⟩ := fnext_stream hpc hs
    obtain ⟨st2, hun⟩ := textOrTag_until_c pf (ef + 4) f [.tEOF] x st1 comments ⟨.tEOF, q, []⟩ [] (by omega) ht1
      (by rw [hs1, ← hx]; rfl) hc (by simp) (by simp) (by omega)
    refine ⟨lpos.getD x.pos, nodes, st2, ?_, by simp [cnodesOf]⟩
    show itemListLoop pf (ef + 4) ((f + 1) + 1) [.tEOF] lpos nodes st = _
    unfold itemListLoop
    rw [fbind_run, hn1]
    simp only
    rw [fbind_run, hun]
    rfl
  | cons pc r ih =>
    intro hwf q fuel lpos nodes st comments hpc hc hs hf
    match pc, hwf, hs, hf with
    | .comment c, hwf, hs, hf =>
      simp only [citemsOf] at hs hf
      have e : comments ++ ⟨.tComment, q + 4 + c.length, 47 :: 42 :: (c ++ [42, 47])⟩ :: citemsOf (q + 4 + c.length) r =
          (comments ++ [⟨.tComment, q + 4 + c.length, 47 :: 42 :: (c ++ [42, 47])⟩]) ++ citemsOf (q + 4 + c.length) r := by
        simp
      rw [e] at hs hf
      obtain ⟨p, nl, st3, hl, hnl⟩ := ih hwf.2 (q + 4 + c.length) fuel lpos nodes st _ hpc
        (by intro x hx
            rcases List.mem_append.mp hx with hx | hx
            · exact hc x hx
            · simp at hx; rw [hx]) hs hf
      refine ⟨p, nl, st3, hl, ?_⟩
      rw [hnl]
      have : (!(comments ++ [(⟨.tComment, q + 4 + c.length, 47 :: 42 :: (c ++ [42, 47])⟩ : Item)]).isEmpty) = true := by
        cases comments <;> rfl
      rw [this]
      simp [cnodesOf]
    | .tag id, hwf, hs, hf =>
      simp only [citemsOf] at hs hf
      have hf' : comments.length + (citemsOf (q + 3 + id.length) r).length + 7 ≤ fuel := by
        simp only [List.length_append, List.length_cons] at hf; omega
      obtain ⟨f, rfl⟩ : ∃ f, fuel = f + 5 := ⟨fuel - 5, by omega⟩
      obtain ⟨x, tl, hx⟩ : ∃ x tl, comments ++ ⟨.tLeftDelim, q + 1, [123]⟩ :: ⟨.tDollarIdent, q + 2 + id.length, 36 :: id⟩ ::
          ⟨.tRightDelim, q + 3 + id.length, [125]⟩ :: citemsOf (q + 3 + id.length) r = x :: tl := by
        cases comments with
        | nil => exact ⟨_, _, rfl⟩
        | cons c cs => exact ⟨_, _, rfl⟩
      rw [hx] at hs
      obtain ⟨st1, hn1, hs1, ht1, hp1⟩ := fnext_stream hpc hs
      obtain ⟨st2, hto, hs2, hp2⟩ := textOrTag_tag_c pf ef f [.tEOF] x ⟨.tLeftDelim, q + 1, [123]⟩
        ⟨.tDollarIdent, q + 2 + id.length, 36 :: id⟩ ⟨.tRightDelim, q + 3 + id.length, [125]⟩ id _ st1 comments (by omega) ht1
        (by rw [hs1, ← hx]) hc rfl rfl rfl rfl (by decide) (by decide) (by omega)
      obtain ⟨p, nl, st3, hl, hnl⟩ := ih hwf.2 (q + 3 + id.length) (f + 4) (some (lpos.getD x.pos))
        (nodes.append (.cons (printNode ⟨.tDollarIdent, q + 2 + id.length, 36 :: id⟩ id) .nil)) st2 [] hp2
        (fun _ h => absurd h (by simp)) (by simpa using hs2) (by simp; omega)
      refine ⟨p, nl, st3, ?_, ?_⟩
      · show itemListLoop pf (ef + 4) ((f + 4) + 1) [.tEOF] lpos nodes st = _
        unfold itemListLoop
        rw [fbind_run, hn1]
        simp only
        rw [fbind_run, hto]
        simp only [Bool.false_eq_true, if_false]
        exact hl
      · rw [hnl, toList_append]
        simp [cnodesOf, printNode, NodeList.toList]
    | .text t, hwf, hs, hf =>
      have hhead : ∀ p ∈ r.head?, p.isText = false := fun p hp => (hwf.2.1 p hp).1
      by_cases hd : dropped t = false
      · obtain ⟨nxt, s, hnx, hnt, hnc⟩ := citemsOf_head (q + t.length) r hhead
        simp only [citemsOf, hd, if_true, hnx, List.cons_append, List.nil_append] at hs hf
        have hf' : comments.length + s.length + 6 ≤ fuel := by
          simp only [List.length_append, List.length_cons] at hf; omega
        obtain ⟨f, rfl⟩ : ∃ f, fuel = f + 5 := ⟨fuel - 5, by omega⟩
        obtain ⟨x, tl, hx⟩ : ∃ x tl, comments ++ ⟨.tText, q + t.length, t⟩ :: nxt :: s = x :: tl := by
          cases comments with
          | nil => exact ⟨_, _, rfl⟩
          | cons c cs => exact ⟨_, _, rfl⟩
        rw [hx] at hs
        obtain ⟨st1, hn1, hs1, ht1, hp1⟩ := fnext_stream hpc hs
        obtain ⟨st2, hto, hs2, hp2⟩ := textOrTag_text_spec pf (ef + 4) (f + 3) [.tEOF] x st1 comments
          ⟨.tText, q + t.length, t⟩ [] nxt s (by omega) ht1 (by rw [hs1, ← hx]; rfl) hc rfl
          (fun _ h => absurd h (by simp)) hnt (by decide) (by simp; omega)
        rw [← hnx] at hs2
        have htn : textNode comments ⟨.tText, q + t.length, t⟩ [] nxt =
            if (joinLines t (!comments.isEmpty) (nextIsComment r)).isEmpty then none
            else some (.rawText (q + t.length) (joinLines t (!comments.isEmpty) (nextIsComment r))) := by
          simp only [textNode, List.flatMap_nil, List.append_nil, hnc]
        rw [htn] at hto
        by_cases hj : (joinLines t (!comments.isEmpty) (nextIsComment r)).isEmpty = true
        · rw [if_pos hj] at hto
          obtain ⟨p, nl, st3, hl, hnl⟩ := ih hwf.2.2 (q + t.length) (f + 4) (some (lpos.getD x.pos)) nodes st2 [] hp2
            (fun _ h => absurd h (by simp)) (by simpa using hs2) (by rw [hnx]; simp; omega)
          refine ⟨p, nl, st3, ?_, ?_⟩
          · show itemListLoop pf (ef + 4) ((f + 4) + 1) [.tEOF] lpos nodes st = _
            unfold itemListLoop
            rw [fbind_run, hn1]
            simp only
            rw [fbind_run, hto]
            simp only [Bool.false_eq_true, if_false]
            exact hl
          · rw [hnl]
            simp [cnodesOf, ctextNodes, hj]
        · rw [if_neg hj] at hto
          obtain ⟨p, nl, st3, hl, hnl⟩ := ih hwf.2.2 (q + t.length) (f + 4) (some (lpos.getD x.pos))
            (nodes.append (.cons (.rawText (q + t.length) (joinLines t (!comments.isEmpty) (nextIsComment r))) .nil)) st2 [] hp2
            (fun _ h => absurd h (by simp)) (by simpa using hs2) (by rw [hnx]; simp; omega)
          refine ⟨p, nl, st3, ?_, ?_⟩
          · show itemListLoop pf (ef + 4) ((f + 4) + 1) [.tEOF] lpos nodes st = _
            unfold itemListLoop
            rw [fbind_run, hn1]
            simp only
            rw [fbind_run, hto]
            simp only [Bool.false_eq_true, if_false]
            exact hl
          · rw [hnl, toList_append]
            have hj' : (joinLines t (!comments.isEmpty) (nextIsComment r)).isEmpty = false := by simpa using hj
            simp [cnodesOf, ctextNodes, hj', hd, NodeList.toList]
      · have hd' : dropped t = true := by simpa using hd
        simp only [citemsOf, hd', Bool.true_eq_false, if_false, List.nil_append] at hs hf
        obtain ⟨p, nl, st3, hl, hnl⟩ := ih hwf.2.2 (q + t.length) fuel lpos nodes st comments hpc hc hs hf
        refine ⟨p, nl, st3, hl, ?_⟩
        rw [hnl, cnodesOf_flag _ _ r hhead]
        simp [cnodesOf, ctextNodes, hd']

end cparser

/-- **`body_source_spec_comments`.**  The same for bodies with block comments `/*c*/`: the lexer sends
    `citemsOf 0 b` (a Comment item per comment); the parser returns `cnodesOf false 0 b` — the
    RawText node of a text piece `t` is `joinLines t tb ta` with `tb` = the piece directly before
    is a comment, `ta` = the piece directly after is a comment; comments yield no node. -/
theorem body_source_spec_comments (pf : Bytes → Option UInt64) (b : CBody) (h : CWF b) :
    lexAll (csrcOf b) false = .items (citemsOf 0 b) ∧ parseSource pf (csrcOf b) = .ok (cnodesOf false 0 b) := by
  refine ⟨lexAll_cbody b h, ?_⟩
  unfold parseSource
  rw [lexAll_cbody b h]
  simp only
  unfold parseFile
  simp only [StateT.run]
  have hef : exprFuel (citemsOf 0 b) = (8 * (citemsOf 0 b).length + 60) + 4 := by
    simp only [exprFuel, Parser.fuelFor]
  obtain ⟨p, nl, st', hl, hnl⟩ := parse_cbody pf (8 * (citemsOf 0 b).length + 60) b h 0
    (FileParser.fuelFor (citemsOf 0 b).length) none .nil { p := initState (citemsOf 0 b) } [] (by simp [initState])
    (fun _ h => absurd h (by simp)) (by simp [stream, pending, initState])
    (by simp only [FileParser.fuelFor, List.nil_append]; omega)
  rw [hef, hl]
  simp only [hnl, NodeList.toList, List.nil_append, List.isEmpty_nil, Bool.not_true]


/-! ### Non-vacuity (comments)

  `t␣/* x */␣b⏎␣c␣/*y*/{$d}`: the text `t␣` before a comment loses its trailing space (`trimAfter`),
  the text `␣b⏎␣c␣` between two comments is trimmed on both sides and joined to `b c`. -/

def cexBody : CBody :=
  [.text [116, 32], .comment [32, 120, 32], .text [32, 98, 10, 32, 99, 32], .comment [121], .tag [100]]

theorem cexBody_wf : CWF cexBody := by
  simp only [cexBody, CWF, List.head?_cons, Option.mem_def, Option.some.injEq, forall_eq', CPiece.isText, CPiece.isComment,
    and_true, true_and, forall_const]
  refine ⟨?_, ?_, ?_, ?_, ?_, ?_, ?_⟩ <;> decide

theorem cexBody_dropped : dropped [116, 32] = false ∧ dropped [32, 98, 10, 32, 99, 32] = false := by
  refine ⟨?_, ?_⟩ <;>
    simp [dropped, allSpaceWithNewline, allSpaceLoop, decodeRune, byteAt, Lex.isSpaceEOL, Lex.isSpace, Lex.isEndOfLine]

theorem cexBody_spec (pf : Bytes → Option UInt64) :
    lexAll [116, 32, 47, 42, 32, 120, 32, 42, 47, 32, 98, 10, 32, 99, 32, 47, 42, 121, 42, 47, 123, 36, 100, 125] false =
      .items [⟨.tText, 2, [116, 32]⟩, ⟨.tComment, 9, [47, 42, 32, 120, 32, 42, 47]⟩, ⟨.tText, 15, [32, 98, 10, 32, 99, 32]⟩,
        ⟨.tComment, 20, [47, 42, 121, 42, 47]⟩, ⟨.tLeftDelim, 21, [123]⟩, ⟨.tDollarIdent, 23, [36, 100]⟩,
        ⟨.tRightDelim, 24, [125]⟩, ⟨.tEOF, 24, []⟩] ∧
    parseSource pf [116, 32, 47, 42, 32, 120, 32, 42, 47, 32, 98, 10, 32, 99, 32, 47, 42, 121, 42, 47, 123, 36, 100, 125] =
      .ok [.rawText 2 [116], .rawText 15 [98, 32, 99], .print 23 (.dataRef 23 [100] .nil) []] := by
  have h := body_source_spec_comments pf cexBody cexBody_wf
  have hsrc : csrcOf cexBody =
      [116, 32, 47, 42, 32, 120, 32, 42, 47, 32, 98, 10, 32, 99, 32, 47, 42, 121, 42, 47, 123, 36, 100, 125] := by rfl
  have hitems : citemsOf 0 cexBody =
      [⟨.tText, 2, [116, 32]⟩, ⟨.tComment, 9, [47, 42, 32, 120, 32, 42, 47]⟩, ⟨.tText, 15, [32, 98, 10, 32, 99, 32]⟩,
        ⟨.tComment, 20, [47, 42, 121, 42, 47]⟩, ⟨.tLeftDelim, 21, [123]⟩, ⟨.tDollarIdent, 23, [36, 100]⟩,
        ⟨.tRightDelim, 24, [125]⟩, ⟨.tEOF, 24, []⟩] := by
    simp [cexBody, citemsOf, cexBody_dropped]
  have j1 : joinLines [116, 32] false true = [116] := by rfl
  have j2 : joinLines [32, 98, 10, 32, 99, 32] true true = [98, 32, 99] := by rfl
  have hnodes : cnodesOf false 0 cexBody =
      [.rawText 2 [116], .rawText 15 [98, 32, 99], .print 23 (.dataRef 23 [100] .nil) []] := by
    simp [cexBody, cnodesOf, ctextNodes, nextIsComment, CPiece.isComment, cexBody_dropped, j1, j2]
  rw [hsrc, hitems, hnodes] at h
  exact h

end SoyVerif.Props.C15c
