/-
  C05 (lexer part): lexing any input terminates with a token list, never panics.

  `lexAll input exprMode` is the model of `lex(name, input)` / `lexExpr(name, input)` run to
  the closing of the channel (Model/Lexer.lean; tied to /repo/parse/lexer.go by the C05lex
  correspondence).  For EVERY byte string and both entry points:

  * `lex_no_panic` — the result is never `panic`: no slice or index expression of the lexer
    (`l.input[l.start:l.pos]` in emit, `l.input[l.pos:]` in next, the `l.pos -= 2`, `l.pos--`,
    `l.start++`, `l.pos = lastNonSpace` adjustments, `l.input[l.start]` in scanNumber, …) is
    ever out of range;
  * `lex_total` — the result is never `fuelOut`: the budget `fuelFor |input| = 7·|input| + 8`
    of state transitions is never used up (the scanning loops inside the state functions
    terminate by construction: Lean accepted them with the measure `|input| − pos`);
  * `lex_items` — hence the result is a list of items, its last item is the EOF item or
    an Error item (what the parser relies on to stop), and every item (Error items included:
    `errorf` at `l.pos`, `errorfAt` at `l.start` / `docStart` / `l.tagStart`) is positioned
    inside the input (what line/column computation relies on: `l.input[:pos]`).

  Proof: every state function keeps `0 ≤ start ≤ pos ≤ |input|` and decreases the measure
  `phi` (Lemmas/Lexer*.lean, `step_ok`).
-/
import SoyVerif.Lemmas.LexerText

namespace SoyVerif.Props.C05
open SoyVerif SoyVerif.Model SoyVerif.Model.Lex

/-- the item list ends with the EOF item or an Error item -/
def EndsWithEofOrError (is : List Item) : Prop :=
  ∃ it, is.getLast? = some it ∧ (it.typ = .tEOF ∨ it.typ = .tError)

/-- every item is positioned inside the input -/
def PosBounded (n : Int) (is : List Item) : Prop := ∀ it ∈ is, (it.pos : Int) ≤ n

theorem foldl_max_ge (xs : List Item) : ∀ init : Nat, init ≤ xs.foldl (fun m it => max m it.pos) init ∧
    ∀ x ∈ xs, x.pos ≤ xs.foldl (fun m it => max m it.pos) init := by
  induction xs with
  | nil => intro init; simp
  | cons y r ih =>
    intro init
    simp only [List.foldl_cons, List.mem_cons]
    have := ih (max init y.pos)
    refine ⟨by omega, ?_⟩
    intro x hx
    rcases hx with rfl | hx
    · omega
    · exact this.2 x hx

theorem run_items (n : Int) : ∀ (fuel : Nat) (s : St) (l : Lexer), Good n l → Extra s l → phi n s l < fuel →
    ∃ is, run fuel s l = .items is ∧ EndsWithEofOrError is ∧ PosBounded n is ∧
      (∀ it ∈ is.dropLast, itemOK it = true ∧ sliceOK l.input it = true) ∧
      (∀ it, is.getLast? = some it → it.typ = .tError → ErrItemOK l.input it) ∧
      (is.length : Int) ≤ 2 * n + 1 ∧ (((is.map (·.val.length)).sum : Nat) : Int) ≤ n + 1 := by
  intro fuel
  induction fuel with
  | zero => intro s l _ _ h; exact absurd h (Nat.not_lt_zero _)
  | succ f ih =>
    intro s l hg hx hphi
    obtain ⟨⟨s', l'⟩, hstep, hpost⟩ := step_ok s hg hx
    unfold run
    rw [hstep]
    cases s' with
    | none =>
      obtain ⟨⟨it, hb, ht⟩, ⟨hmp, hcnt, htot⟩, hbad, herr⟩ := hpost.2.1 rfl
      have hin : l'.input = l.input := hpost.2.2
      refine ⟨_, rfl, ⟨it, by simpa using hb, ht⟩, ?_, ?_, ?_, by simpa [Lexer.cnt] using hcnt, htot⟩
      rotate_left 2
      · intro it' hl' ht'
        rw [← hin]
        exact herr it' (by simpa using hl') ht'
      · intro x hx
        have := (foldl_max_ge l'.items.toList 0).2 x hx
        have hmp' : ((Lexer.mp l' : Nat) : Int) ≤ n := hmp
        unfold Lexer.mp at hmp'
        omega
      · intro x hx
        have hbad' : Lexer.badInit l' = 0 := hbad
        unfold Lexer.badInit at hbad'
        have hnil := List.eq_nil_of_length_eq_zero hbad'
        rw [← hin]
        by_cases hok : (itemOK x && sliceOK l'.input x) = true
        · simpa using hok
        · have : x ∈ List.filter (fun it => !(itemOK it && sliceOK l'.input it)) l'.items.toList.dropLast := by
            simp only [List.mem_filter]
            refine ⟨hx, ?_⟩
            cases hb : (itemOK x && sliceOK l'.input x)
            · rfl
            · exact absurd hb hok
          rw [hnil] at this
          exact absurd this (by simp)
    | some s'' =>
      obtain ⟨⟨hg', hx'⟩, hlt⟩ := hpost.1 s'' rfl
      have hin : l'.input = l.input := hpost.2.2
      dsimp only at hg' hx' hlt
      obtain ⟨is, h1, h2, h3, h4, h5, h6, h7⟩ := ih s'' l' hg' hx' (by omega)
      exact ⟨is, h1, h2, h3, by rw [← hin]; exact h4, by rw [← hin]; exact h5, h6, h7⟩

theorem init_good (input : Bytes) : Good (input.length : Int) (initLexer input) := by
  refine ⟨⟨?_, ?_, ?_, ?_, ?_, ?_⟩, ?_, ?_, ?_⟩
  · simp [initLexer, Lexer.len]
  · simp [initLexer, Lexer.mp]
  · simp [initLexer]
  · simp [initLexer]
  · refine ⟨?_, by simp [initLexer, Lexer.cnt], by simp [initLexer, Lexer.tot]⟩
    show Lexer.bad (initLexer input) = 0
    simp [initLexer, Lexer.bad]
  · show Lexer.tagBad (initLexer input) = 0
    simp [initLexer, Lexer.tagBad]
  · simp [initLexer]
  · simp [initLexer]
  · simp [initLexer]

theorem init_extra (input : Bytes) (exprMode : Bool) :
    Extra (if exprMode then .insideTag else .text) (initLexer input) := by
  cases exprMode
  · trivial
  · show (initLexer input).start = (initLexer input).pos
    rfl

theorem phi_init (input : Bytes) (s : St) :
    phi (input.length : Int) s (initLexer input) < fuelFor input.length := by
  have a := rankA_le s
  have b := rankB_le s
  have hp : (initLexer input).pos = 0 := rfl
  unfold phi fuelFor
  by_cases h : (initLexer input).pos < (input.length : Int)
  · rw [if_pos h, hp]; omega
  · rw [if_neg h]; omega

/-- lexing always ends with a list of items whose last item is EOF or Error -/
theorem lex_items (input : Bytes) (exprMode : Bool) :
    ∃ is, lexAll input exprMode = .items is ∧ EndsWithEofOrError is ∧ PosBounded input.length is ∧
      (∀ it ∈ is.dropLast, itemOK it = true) ∧
      (∀ it, is.getLast? = some it → it.typ = .tError → ErrItemOK input.toArray it) := by
  unfold lexAll
  obtain ⟨is, h1, h2, h3, h4, h5, _⟩ :=
    run_items _ _ _ _ (init_good input) (init_extra input exprMode) (phi_init input _)
  exact ⟨is, h1, h2, h3, fun it hm => (h4 it hm).1, h5⟩

/-- the lexer sends at most `2·|input| + 1` items (tokens, and the EOF or Error item that ends the
    stream): every token but a few is a non-empty piece of the input, and the empty ones (the name of a
    `@param` without one, the type of a `{@param a:}`, the body of `{css}`) stand behind at least
    one byte that no other token pays for -/
theorem lexAll_items_le (input : Bytes) (exprMode : Bool) (is : List Item)
    (h : lexAll input exprMode = .items is) : is.length ≤ 2 * input.length + 1 := by
  unfold lexAll at h
  obtain ⟨is', h1, _, _, _, _, h6, _⟩ :=
    run_items _ _ _ _ (init_good input) (init_extra input exprMode) (phi_init input _)
  rw [h] at h1
  simp only [LexResult.items.injEq] at h1
  subst h1
  omega

/-- the values of all items together are at most `|input| + 1` bytes: the tokens are DISJOINT pieces of
    the input (each one is the piece that ends at its position, `lex_items_slice`, and begins where the
    one before ended or later); the `+ 1` is the one-byte class code the model keeps in an Error item -/
theorem lexAll_vals_le (input : Bytes) (exprMode : Bool) (is : List Item)
    (h : lexAll input exprMode = .items is) : (is.map (·.val.length)).sum ≤ input.length + 1 := by
  unfold lexAll at h
  obtain ⟨is', h1, _, _, _, _, _, h7⟩ :=
    run_items _ _ _ _ (init_good input) (init_extra input exprMode) (phi_init input _)
  rw [h] at h1
  simp only [LexResult.items.injEq] at h1
  subst h1
  omega

/-- every token but the last (EOF / Error) carries as its value the piece of the input that ends
    at its position: `it.val = input[it.pos - |it.val| .. it.pos)` -/
theorem lex_items_slice (input : Bytes) (exprMode : Bool) (is : List Item)
    (h : lexAll input exprMode = .items is) :
    ∀ it ∈ is.dropLast, it.val.length ≤ it.pos ∧ it.pos ≤ input.length ∧
      it.val = (input.drop (it.pos - it.val.length)).take it.val.length := by
  unfold lexAll at h
  obtain ⟨is', h1, _, h3, h4, _, _⟩ :=
    run_items _ _ _ _ (init_good input) (init_extra input exprMode) (phi_init input _)
  rw [h] at h1
  simp only [LexResult.items.injEq] at h1
  subst h1
  intro it hm
  have hs := (h4 it hm).2
  have hb : (it.pos : Int) ≤ input.length := h3 it (List.dropLast_subset _ hm)
  simp only [sliceOK, initLexer] at hs
  have hs := of_decide_eq_true hs
  have hlen := congrArg List.length hs
  simp only [Array.length_toList, Array.size_extract, List.size_toArray] at hlen
  refine ⟨by omega, by omega, ?_⟩
  conv => lhs; rw [hs]
  simp only [List.extract_toArray, List.extract_eq_take_drop]
  congr 1; omega

/-- the lexer never runs out of its budget of state transitions: it terminates -/
theorem lex_total (input : Bytes) (exprMode : Bool) : lexAll input exprMode ≠ .fuelOut := by
  obtain ⟨is, h, _⟩ := lex_items input exprMode
  rw [h]; simp

/-- no Go runtime panic (slice / index out of range) in the lexer, on any input -/
theorem lex_no_panic (input : Bytes) (exprMode : Bool) : lexAll input exprMode ≠ .panic := by
  obtain ⟨is, h, _⟩ := lex_items input exprMode
  rw [h]; simp

end SoyVerif.Props.C05
