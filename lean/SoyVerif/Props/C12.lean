/-
  C12 — A failing output writer always surfaces as a render error.

  Theorems about the model of soyhtml's output discipline (Model/Writer.lean), for
  EVERY writer obeying the io.Writer contract, every fault behaviour and every chunk
  list.  The tie (harness/c12.go) checks that the real renderer, run against a writer
  with an injected fault at every write call and at every byte offset, returns exactly
  the outcome `render` predicts from the chunk list of the fault-free run.
-/
import SoyVerif.Model.Writer

namespace SoyVerif.Props.C12
open SoyVerif SoyVerif.Model.Writer

theorem render_ok_accepts_all {σ : Type} (w : Writer σ) (hc : Contract w) :
    ∀ (chunks : List Bytes) (s : σ) (acc : Bytes),
      (render w chunks s acc).ok = true → (render w chunks s acc).accepted = acc ++ chunks.flatten
  | [], s, acc, _ => by simp [render]
  | c :: rest, s, acc, h => by
    unfold render at h ⊢
    simp only at h ⊢
    by_cases hw : (w.write s c).2.2 = true
    · simp only [hw, if_true] at h ⊢
      have hn := (hc s c).2 hw
      rw [render_ok_accepts_all w hc rest _ _ h, hn]
      simp [List.take_length]
    · simp [hw] at h

/-- A render returns nil only if every byte of the output was accepted. -/
theorem nil_error_implies_all_accepted {σ : Type} (w : Writer σ) (hc : Contract w)
    (chunks : List Bytes) (s : σ) (h : (render w chunks s []).ok = true) :
    (render w chunks s []).accepted = chunks.flatten := by
  simpa using render_ok_accepts_all w hc chunks s [] h

theorem render_accepted_prefix {σ : Type} (w : Writer σ) (hc : Contract w) :
    ∀ (chunks : List Bytes) (s : σ) (acc : Bytes),
      ∃ tail, (render w chunks s acc).accepted ++ tail = acc ++ chunks.flatten
  | [], s, acc => ⟨[], by simp [render]⟩
  | c :: rest, s, acc => by
    unfold render
    simp only
    by_cases hw : (w.write s c).2.2 = true
    · simp only [hw, if_true]
      have hn := (hc s c).2 hw
      obtain ⟨tail, ht⟩ := render_accepted_prefix w hc rest (w.write s c).1 (acc ++ c.take (w.write s c).2.1)
      refine ⟨tail, ?_⟩
      rw [ht, hn]
      simp [List.take_length]
    · simp only [hw, if_false, Bool.false_eq_true]
      refine ⟨c.drop (w.write s c).2.1 ++ rest.flatten, ?_⟩
      simp [List.append_assoc]
      rw [← List.append_assoc, List.take_append_drop]

/-- The bytes the writer accepted before failing are a prefix of the output of an
    unfailing render (for every writer obeying the contract, every fault plan). -/
theorem accepted_is_prefix {σ : Type} (w : Writer σ) (hc : Contract w) (chunks : List Bytes) (s : σ) :
    ∃ tail, (render w chunks s []).accepted ++ tail = chunks.flatten := by
  simpa using render_accepted_prefix w hc chunks s []

/-- If any write reports an error the render reports an error: `ok` implies that
    every write of the run succeeded (stated through the writer's own log of results). -/
theorem write_error_surfaces {σ : Type} (w : Writer σ) :
    ∀ (chunks : List Bytes) (s : σ) (acc : Bytes),
      (render w chunks s acc).ok = true →
      ∀ (k : Nat) (hk : k < chunks.length),
        -- the k-th write, issued in the state reached after the first k writes, succeeded
        (w.write ((List.range k).foldl (fun st i => (w.write st (chunks.getD i [])).1) s) (chunks.getD k [])).2.2 = true
  | [], _, _, _, k, hk => by simp at hk
  | c :: rest, s, acc, h, k, hk => by
    unfold render at h
    simp only at h
    by_cases hw : (w.write s c).2.2 = true
    · simp only [hw, if_true] at h
      cases k with
      | zero => simpa using hw
      | succ k =>
        have ih := write_error_surfaces w rest (w.write s c).1 _ h k (by simpa using hk)
        have e : (List.range (k + 1)).foldl (fun st i => (w.write st ((c :: rest).getD i [])).1) s
            = (List.range k).foldl (fun st i => (w.write st (rest.getD i [])).1) (w.write s c).1 := by
          rw [List.range_succ_eq_map, List.foldl_cons, List.foldl_map]
          simp
        rw [e]
        simpa using ih
    · simp [hw] at h

/-- the fault writers of the correspondence obey the io.Writer contract -/
theorem faultWriter_contract : Contract faultWriter := by
  intro s p
  unfold faultWriter
  simp only
  split
  · simp
  · split <;> simp_all <;> omega

/- Non-vacuity: a concrete run with a fault in the second write. -/
example : (render faultWriter [[1, 2], [3, 4], [5]] { room := 3, calls := 0, failAt := none } []).ok = false := by decide
example : (render faultWriter [[1, 2], [3, 4], [5]] { room := 3, calls := 0, failAt := none } []).accepted = [1, 2, 3] := by decide
example : (render faultWriter [[1, 2], [3, 4], [5]] { room := 9, calls := 0, failAt := none } []).ok = true := by decide

end SoyVerif.Props.C12
