/-
  C03 — Autoescaping: data never reaches HTML output raw unless explicitly cancelled.

  Property theorems over the byte-level models of Model/Escape.lean and Model/Directives.lean
  (tied to /repo by the correspondences C03esc / C16dir and the generated directive table).
  The specification side (decoder, "no raw special", "every & starts a reference") is
  Spec/Html.lean.  All statements hold for ALL byte strings (no length bound, invalid UTF-8
  included).
-/
import SoyVerif.Lemmas.EscapeHtml
import SoyVerif.Lemmas.EscapeDirectives
import SoyVerif.Lemmas.EscapeBreaks

namespace SoyVerif.Props.C03
open SoyVerif SoyVerif.Model SoyVerif.Spec SoyVerif.Model.Directives
open SoyVerif.Lemmas.EscapeHtml SoyVerif.Lemmas.EscapeDirectives SoyVerif.Lemmas.EscapeBreaks

/-- `out` is a safe HTML encoding of the data `v`: none of  < > " '  occurs in it, every `&`
    in it begins a complete character reference, and it decodes back to exactly `v`. -/
def SafeHtmlEncoding (out v : Bytes) : Prop :=
  (∀ b ∈ out, b ≠ 60 ∧ b ≠ 62 ∧ b ≠ 34 ∧ b ≠ 39) ∧
  (∀ pre post, out = pre ++ 38 :: post → (matchRef (38 :: post)).isSome = true) ∧
  htmlUnescape out = v

/-- (1) the autoescaper soyhtml.htmlEscapeString, for every byte string -/
theorem htmlEscape_safe (s : Bytes) : SafeHtmlEncoding (htmlEscape s) s :=
  ⟨(noRawSpecial_iff _).1 (htmlEscape_noRaw s), (ampsStartRefs_iff _).1 (htmlEscape_amps s),
   htmlUnescape_htmlEscape s⟩

example : htmlEscape [60, 97, 62, 38, 34, 39] =
    [38, 108, 116, 59, 97, 38, 103, 116, 59, 38, 97, 109, 112, 59, 38, 113, 117, 111, 116, 59, 38, 35, 51, 57, 59] := by decide
example : htmlUnescape [38, 108, 116, 59, 97, 38, 103, 116, 59] = [60, 97, 62] := by decide
/- the specification rejects raw text and cut references -/
example : noRawSpecial [60, 97, 62] = false := by decide
example : ampsStartRefs [38, 108, 60, 119, 98, 114, 62, 116, 59] = false := by decide

/- (2) since /repo c835e8f the escaping directives (escapeHtml, and the first step of changeNewlineToBr /
   insertWordBreaks) call the renderer's own escaper, so (1) covers them; text/template.HTMLEscapeString
   (which replaced NUL by U+FFFD and wrote &#34;) is no longer part of soy. -/

/-- the HTML-producing directives that cancel autoescaping still escape every data byte they
    pass through: with the tags they insert themselves removed, the output of escapeHtml,
    changeNewlineToBr and insertWordBreaks is a safe encoding of the value (for
    changeNewlineToBr without its line breaks); see C16 for "no reference is cut". -/
theorem escaping_directives_safe (s : Bytes) (n : Int) :
    SafeHtmlEncoding (htmlEscape s) s ∧
    SafeHtmlEncoding (removeTag brTag (changeNewlineToBr s)) (s.filter notNL) ∧
    SafeHtmlEncoding (removeTag wbrTag (insertWordBreaks s n)) s := by
  refine ⟨htmlEscape_safe s, ?_, ?_⟩
  · have : removeTag brTag (changeNewlineToBr s) = htmlEscape (s.filter notNL) := by
      unfold removeTag changeNewlineToBr
      rw [removeBr_nlToBr _ (fun b hb => ((noRawSpecial_iff _).1 (htmlEscape_noRaw s) b hb).1), filter_notNL_htmlEscape]
    rw [this]; exact htmlEscape_safe _
  · have : removeTag wbrTag (insertWordBreaks s n) = htmlEscape s := by
      unfold removeTag insertWordBreaks
      exact removeWbr_wordBreaks n _ (fun b hb => ((noRawSpecial_iff _).1 (htmlEscape_noRaw s) b hb).1) 0 0 false
    rw [this]; exact htmlEscape_safe _

/-- (3) the escape decision of evalPrint: in a mode other than Off, a print whose directives
    (obligatory ones included) all exist in the table without the cancel flag writes exactly
    the autoescaper's image of the final value `r` of the directive chain — whatever the table,
    the directives' arguments and the value are. -/
theorem print_escapes (tbl : Table) (oblig : List Bytes) (mode : Mode) (dirs : List DirCall) (v out : Bytes)
    (hmode : mode ≠ .off)
    (hnc : noCancel tbl (dirs ++ oblig.map fun n => (n, [])) = true)
    (hout : printBytesWith tbl oblig mode dirs v = .ok out) :
    ∃ r, chainValue tbl (dirs ++ oblig.map fun n => (n, [])) v = .ok r ∧ out = htmlEscape r ∧
      SafeHtmlEncoding out r := by
  obtain ⟨r, h1, h2⟩ := printBytesWith_noCancel tbl oblig mode dirs v out hmode hnc hout
  exact ⟨r, h1, h2, h2 ▸ htmlEscape_safe r⟩

/- non-vacuity on a two-entry table: `t` (truncate, does not cancel) is escaped, `i` (id, cancels) is not -/
example : printBytesWith [⟨[116], [1, 2], false, sDirectiveTruncate⟩, ⟨[105], [0], true, sDirectiveNoAutoescape⟩] []
    .on [([116], [.int 2, .bool false])] [60, 97, 62] = .ok [38, 108, 116, 59, 97] := by decide
example : noCancel [⟨[116], [1, 2], false, sDirectiveTruncate⟩, ⟨[105], [0], true, sDirectiveNoAutoescape⟩]
    [([116], [.int 2, .bool false])] = true := by decide
example : printBytesWith [⟨[116], [1, 2], false, sDirectiveTruncate⟩, ⟨[105], [0], true, sDirectiveNoAutoescape⟩] []
    .on [([105], [])] [60, 97, 62] = .ok [60, 97, 62] := by decide

/-- with no directive at all the written bytes are the escaped value -/
theorem print_plain (tbl : Table) (mode : Mode) (v : Bytes) (hmode : mode ≠ .off) :
    printBytesWith tbl [] mode [] v = .ok (htmlEscape v) := by
  cases mode <;> simp_all [printBytesWith, runChain]

/-- … and only mode Off (or a cancelling directive) lets the value through raw -/
theorem print_off (tbl : Table) (v : Bytes) : printBytesWith tbl [] .off [] v = .ok v := by
  simp [printBytesWith, runChain]

/-- the mode in force is Off only if the template says autoescape="false", or does not say
    anything and the namespace says "false" -/
theorem effectiveMode_off (ns tmpl : Mode) :
    effectiveMode ns tmpl = .off ↔ (tmpl = .off ∨ (tmpl = .unspecified ∧ ns = .off)) := by
  cases ns <;> cases tmpl <;> simp [effectiveMode]

end SoyVerif.Props.C03
