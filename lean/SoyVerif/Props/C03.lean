/-
  C03 — Autoescaping: data never reaches HTML output raw unless explicitly cancelled.

  Property theorems over the byte-level models of Model/Escape.lean and Model/Directives.lean
  (tied to /repo by the correspondences C03esc / C16dir and the generated directive table).
  The specification side (decoder, "no raw special", "every & starts a reference") is
  Spec/Html.lean.  All statements hold for ALL byte strings (no length bound, invalid UTF-8
  included).
-/
import SoyVerif.Lemmas.EscapeHtml
import SoyVerif.Lemmas.EscapeDirectives
import SoyVerif.Lemmas.EscapeBreaks

namespace SoyVerif.Props.C03
open SoyVerif SoyVerif.Model SoyVerif.Spec SoyVerif.Model.Directives
open SoyVerif.Lemmas.EscapeHtml SoyVerif.Lemmas.EscapeDirectives SoyVerif.Lemmas.EscapeBreaks

/-- `out` is a safe HTML encoding of the data `v`: none of  < > " '  occurs in it, every `&`
    in it begins a complete character reference, and it decodes back to exactly `v`. -/
def SafeHtmlEncoding (out v : Bytes) : Prop :=
  (∀ b ∈ out, b ≠ 60 ∧ b ≠ 62 ∧ b ≠ 34 ∧ b ≠ 39) ∧
  (∀ pre post, out = pre ++ 38 :: post → (matchRef (38 :: post)).isSome = true) ∧
  htmlUnescape out = v

/-- (1) the autoescaper soyhtml.htmlEscapeString, for every byte string -/
theorem htmlEscape_safe (s : Bytes) : SafeHtmlEncoding (htmlEscape s) s :=
  ⟨(noRawSpecial_iff _).1 (htmlEscape_noRaw s), (ampsStartRefs_iff _).1 (htmlEscape_amps s),
   htmlUnescape_htmlEscape s⟩

example : htmlEscape [60, 97, 62, 38, 34, 39] =
    [38, 108, 116, 59, 97, 38, 103, 116, 59, 38, 97, 109, 112, 59, 38, 35, 51, 52, 59, 38, 35, 51, 57, 59] := by decide
example : htmlUnescape [38, 108, 116, 59, 97, 38, 103, 116, 59] = [60, 97, 62] := by decide
/- the specification rejects raw text and cut references -/
example : noRawSpecial [60, 97, 62] = false := by decide
example : ampsStartRefs [38, 108, 60, 119, 98, 114, 62, 116, 59] = false := by decide

/-- (2) text/template.HTMLEscapeString (escapeHtml, and the first step of changeNewlineToBr /
    insertWordBreaks) on NUL-free input -/
theorem goHtmlEscape_safe (s : Bytes) (h : ∀ b ∈ s, b ≠ 0) : SafeHtmlEncoding (goHtmlEscape s) s := by
  rw [goHtmlEscape_eq_of_nulFree s h]; exact htmlEscape_safe s

/-- … and on arbitrary input: NUL (which cannot be written in HTML) is replaced by U+FFFD,
    everything else as above. -/
theorem goHtmlEscape_safe_nul (s : Bytes) : SafeHtmlEncoding (goHtmlEscape s) (nulToFFFD s) :=
  ⟨(noRawSpecial_iff _).1 (goHtmlEscape_noRaw s), (ampsStartRefs_iff _).1 (goHtmlEscape_amps s),
   htmlUnescape_goHtmlEscape s⟩

example : goHtmlEscape [60, 0, 39] = [38, 108, 116, 59, 239, 191, 189, 38, 35, 51, 57, 59] := by decide
example : nulToFFFD [97, 0] = [97, 239, 191, 189] := by decide

/-- the HTML-producing directives that cancel autoescaping still escape every data byte they
    pass through: with the tags they insert themselves removed, the output of escapeHtml,
    changeNewlineToBr and insertWordBreaks is a safe encoding of the value (NUL -> U+FFFD; for
    changeNewlineToBr without its line breaks); see C16 for "no reference is cut". -/
theorem escaping_directives_safe (s : Bytes) (n : Int) :
    SafeHtmlEncoding (goHtmlEscape s) (nulToFFFD s) ∧
    SafeHtmlEncoding (removeTag brTag (changeNewlineToBr s)) (nulToFFFD (s.filter notNL)) ∧
    SafeHtmlEncoding (removeTag wbrTag (insertWordBreaks s n)) (nulToFFFD s) := by
  refine ⟨goHtmlEscape_safe_nul s, ?_, ?_⟩
  · have : removeTag brTag (changeNewlineToBr s) = goHtmlEscape (s.filter notNL) := by
      unfold removeTag changeNewlineToBr
      rw [removeBr_nlToBr _ (fun b hb => ((noRawSpecial_iff _).1 (goHtmlEscape_noRaw s) b hb).1), filter_notNL_goHtmlEscape]
    rw [this]; exact goHtmlEscape_safe_nul _
  · have : removeTag wbrTag (insertWordBreaks s n) = goHtmlEscape s := by
      unfold removeTag insertWordBreaks
      exact removeWbr_wordBreaks n _ (fun b hb => ((noRawSpecial_iff _).1 (goHtmlEscape_noRaw s) b hb).1) 0 0 false
    rw [this]; exact goHtmlEscape_safe_nul _

/-- (3) the escape decision of evalPrint: in a mode other than Off, a print whose directives
    (obligatory ones included) all exist in the table without the cancel flag writes exactly
    the autoescaper's image of the final value `r` of the directive chain — whatever the table,
    the directives' arguments and the value are. -/
theorem print_escapes (tbl : Table) (oblig : List Bytes) (mode : Mode) (dirs : List DirCall) (v out : Bytes)
    (hmode : mode ≠ .off)
    (hnc : noCancel tbl (dirs ++ oblig.map fun n => (n, [])) = true)
    (hout : printBytesWith tbl oblig mode dirs v = .ok out) :
    ∃ r, chainValue tbl (dirs ++ oblig.map fun n => (n, [])) v = .ok r ∧ out = htmlEscape r ∧
      SafeHtmlEncoding out r := by
  obtain ⟨r, h1, h2⟩ := printBytesWith_noCancel tbl oblig mode dirs v out hmode hnc hout
  exact ⟨r, h1, h2, h2 ▸ htmlEscape_safe r⟩

/- non-vacuity on a two-entry table: `t` (truncate, does not cancel) is escaped, `i` (id, cancels) is not -/
example : printBytesWith [⟨[116], [1, 2], false, sDirectiveTruncate⟩, ⟨[105], [0], true, sDirectiveNoAutoescape⟩] []
    .on [([116], [.int 2, .bool false])] [60, 97, 62] = .ok [38, 108, 116, 59, 97] := by decide
example : noCancel [⟨[116], [1, 2], false, sDirectiveTruncate⟩, ⟨[105], [0], true, sDirectiveNoAutoescape⟩]
    [([116], [.int 2, .bool false])] = true := by decide
example : printBytesWith [⟨[116], [1, 2], false, sDirectiveTruncate⟩, ⟨[105], [0], true, sDirectiveNoAutoescape⟩] []
    .on [([105], [])] [60, 97, 62] = .ok [60, 97, 62] := by decide

/-- with no directive at all the written bytes are the escaped value -/
theorem print_plain (tbl : Table) (mode : Mode) (v : Bytes) (hmode : mode ≠ .off) :
    printBytesWith tbl [] mode [] v = .ok (htmlEscape v) := by
  cases mode <;> simp_all [printBytesWith, runChain]

/-- … and only mode Off (or a cancelling directive) lets the value through raw -/
theorem print_off (tbl : Table) (v : Bytes) : printBytesWith tbl [] .off [] v = .ok v := by
  simp [printBytesWith, runChain]

/-- the mode in force is Off only if the template says autoescape="false", or does not say
    anything and the namespace says "false" -/
theorem effectiveMode_off (ns tmpl : Mode) :
    effectiveMode ns tmpl = .off ↔ (tmpl = .off ∨ (tmpl = .unspecified ∧ ns = .off)) := by
  cases ns <;> cases tmpl <;> simp [effectiveMode]

end SoyVerif.Props.C03
