/-
  C13 — compile side: the decision of the data-reference checker (and of `Registry.Add` before it)
  does not depend on the order in which the files were added to the bundle.

  Models: Model/Registry.lean (`Registry.Add`: templates appended in file order; an error for a
  missing namespace, for soydoc + header params, for a template name defined twice) and
  Model/Check.lean (`CheckDataRefs`: every template is checked against the registry; the registry
  is consulted only to look a callee up BY NAME, first match).

    * `check_ext`            the checker sees the registry only through lookup-by-name;
    * `check_perm`           accept/reject is invariant under permutation of a registry with distinct names;
    * `addAll_perm`          `Registry.Add` over a permuted file list: same accept/reject, and the
                             registries are permutations of each other (with distinct names);
    * `compile_decision_perm` the two together: the compile decision of the model is a function of the
                             SET of files;
    * `failing_perm`, `single_failure_perm`  the templates the checker rejects are the same set; if
                             exactly one template is rejected, it is the one reported under every order
                             (the models carry no error texts: "the reported error" is identified with
                             the template `CheckDataRefs` stops at).
  Tie: C13det (the implementation against itself under every permutation of ≤ 4 files, error texts
  of single-error bundles included) and C07 (checker model = CheckDataRefs).
-/
import SoyVerif.Model.Registry
import SoyVerif.Model.Check

namespace SoyVerif.Props.C13b
open SoyVerif SoyVerif.Model SoyVerif.Model.Check

/-! ## 1. the checker consults the registry by name only -/

/-- two registries answer every lookup by name alike -/
def LookupEq (reg reg' : List Template) : Prop :=
  ∀ n : Bytes, reg.find? (fun t => t.name == n) = reg'.find? (fun t => t.name == n)

section
variable {reg reg' : List Template} (h : LookupEq reg reg') (params : List Bytes)
include h

theorem checkCall_ext (name : Bytes) (allData hasData : Bool) (pk : List Bytes) :
    checkCall reg params name allData hasData pk = checkCall reg' params name allData hasData pk := by
  unfold checkCall
  rw [h name]

mutual
  theorem checkCmd_ext : ∀ c : Cmd, checkCmd reg params c = checkCmd reg' params c
    | .rawText .. => by unfold checkCmd; rfl
    | .debugger .. => by unfold checkCmd; rfl
    | .print _ a dirs => by unfold checkCmd; rw [checkDirs_ext dirs]
    | .msg _ _ _ _ _ body => by unfold checkCmd; rw [checkParts_ext body]
    | .css _ e _ => by unfold checkCmd; rfl
    | .log _ b => by unfold checkCmd; rw [checkBlock_ext b]
    | .ifc _ conds => by unfold checkCmd; rw [checkConds_ext conds]
    | .forc _ v l b none => by unfold checkCmd; rw [checkBlock_ext b]
    | .forc _ v l b (some ie) => by unfold checkCmd; simp only [checkBlock_ext b, checkBlock_ext ie]
    | .switch _ v cases => by unfold checkCmd; rw [checkCases_ext cases]
    | .call _ name allData d ps => by
      unfold checkCmd
      rw [checkCall_ext h params, checkParams_ext ps]
    | .letValue .. => by unfold checkCmd; rfl
    | .letContent _ name b => by unfold checkCmd; rw [checkBlock_ext b]
    | .headerParam .. => by unfold checkCmd; rfl
    | .namespace .. => by unfold checkCmd; rfl
    | .template _ _ b _ _ => by unfold checkCmd; rw [checkBlock_ext b]
    | .soyDoc .. => by unfold checkCmd; rfl
  theorem checkBlock_ext : ∀ b : Block, checkBlock reg params b = checkBlock reg' params b
    | .mk _ cmds => by unfold checkBlock; rw [checkCmds_ext cmds]
  theorem checkCmds_ext : ∀ cs : CmdList, checkCmds reg params cs = checkCmds reg' params cs
    | .nil => by unfold checkCmds; rfl
    | .cons c r => by unfold checkCmds; rw [checkCmd_ext c, checkCmds_ext r]
  theorem checkDirs_ext : ∀ ds : List Directive, checkDirs reg params ds = checkDirs reg' params ds
    | [] => by unfold checkDirs; rfl
    | d :: r => by unfold checkDirs; rw [checkDirs_ext r]
  theorem checkConds_ext : ∀ cs : CondList, checkConds reg params cs = checkConds reg' params cs
    | .nil => by unfold checkConds; rfl
    | .cons _ c b r => by unfold checkConds; rw [checkBlock_ext b, checkConds_ext r]
  theorem checkCases_ext : ∀ cs : CaseList, checkCases reg params cs = checkCases reg' params cs
    | .nil => by unfold checkCases; rfl
    | .cons _ vs b r => by unfold checkCases; rw [checkBlock_ext b, checkCases_ext r]
  theorem checkParams_ext : ∀ ps : ParamList, checkParams reg params ps = checkParams reg' params ps
    | .nil => by unfold checkParams; rfl
    | .value _ _ e r => by unfold checkParams; rw [checkParams_ext r]
    | .content _ _ b r => by unfold checkParams; rw [checkBlock_ext b, checkParams_ext r]
  theorem checkParts_ext : ∀ ps : MsgParts, checkParts reg params ps = checkParts reg' params ps
    | .nil => by unfold checkParts; rfl
    | .text _ _ r => by unfold checkParts; exact checkParts_ext r
    | .ph _ _ (.htmlTag ..) r => by unfold checkParts; rw [checkParts_ext r]
    | .ph _ _ (.cmd c) r => by unfold checkParts; simp only [checkCmd_ext c, checkParts_ext r]
    | .plural _ _ v cases _ d r => by
      unfold checkParts
      rw [checkPlCases_ext cases, checkParts_ext d, checkParts_ext r]
  theorem checkPlCases_ext : ∀ cs : PluralCases, checkPlCases reg params cs = checkPlCases reg' params cs
    | .nil => by unfold checkPlCases; rfl
    | .cons _ _ _ b r => by unfold checkPlCases; rw [checkParts_ext b, checkPlCases_ext r]
end

end

/-- FULL: a template is accepted or rejected alike by registries that answer lookups alike -/
theorem check_ext {reg reg' : List Template} (h : LookupEq reg reg') (t : Template) :
    checkOne reg t = checkOne reg' t := by
  unfold checkOne
  simp only [checkBlock_ext h]

/-! ## 2. permutations of a registry with distinct names -/

theorem find_eq_some_iff {α : Type} (nm : α → Bytes) {l : List α} (nd : (l.map nm).Nodup) (n : Bytes) (a : α) :
    l.find? (fun t => nm t == n) = some a ↔ a ∈ l ∧ nm a = n := by
  induction l with
  | nil => simp
  | cons g r ih =>
    simp only [List.map_cons, List.nodup_cons] at nd
    simp only [List.find?_cons]
    by_cases hg : nm g = n
    · have hb : (nm g == n) = true := by simpa using hg
      simp only [hb, Option.some.injEq, List.mem_cons]
      constructor
      · intro e; subst e; exact ⟨Or.inl rfl, hg⟩
      · rintro ⟨e | hm, hn⟩
        · exact e.symm
        · exfalso
          apply nd.1
          rw [hg, ← hn]
          exact List.mem_map_of_mem hm
    · have hb : (nm g == n) = false := by simpa using hg
      simp only [hb, ih nd.2, List.mem_cons]
      constructor
      · rintro ⟨hm, hn⟩; exact ⟨Or.inr hm, hn⟩
      · rintro ⟨e | hm, hn⟩
        · subst e; exact absurd hn hg
        · exact ⟨hm, hn⟩

theorem find_perm {α : Type} (nm : α → Bytes) {l l' : List α} (hp : l.Perm l') (nd : (l.map nm).Nodup) (n : Bytes) :
    l.find? (fun t => nm t == n) = l'.find? (fun t => nm t == n) := by
  have nd' : (l'.map nm).Nodup := (hp.map nm).nodup_iff.mp nd
  apply Option.ext
  intro a
  rw [find_eq_some_iff nm nd, find_eq_some_iff nm nd', hp.mem_iff]

theorem lookupEq_of_perm {reg reg' : List Template} (hp : reg.Perm reg') (nd : (reg.map (·.name)).Nodup) :
    LookupEq reg reg' := fun n => find_perm (·.name) hp nd n

/-- FULL: with distinct template names, `CheckDataRefs` accepts a registry iff it accepts any
    permutation of it -/
theorem check_perm {reg reg' : List Template} (hp : reg.Perm reg') (nd : (reg.map (·.name)).Nodup) :
    check reg = check reg' := by
  unfold check
  have : checkOne reg = checkOne reg' := funext (check_ext (lookupEq_of_perm hp nd))
  rw [this]
  exact hp.all_eq

/-- the templates the checker rejects -/
def failing (reg : List Template) : List Template := reg.filter fun t => !checkOne reg t

/-- FULL: the rejected templates are the same, whatever the order -/
theorem failing_perm {reg reg' : List Template} (hp : reg.Perm reg') (nd : (reg.map (·.name)).Nodup) :
    (failing reg).Perm (failing reg') := by
  unfold failing
  have : checkOne reg = checkOne reg' := funext (check_ext (lookupEq_of_perm hp nd))
  rw [this]
  exact hp.filter _

/-- the template `CheckDataRefs` stops at (it returns the error of the first template that fails) -/
def firstFailing (reg : List Template) : Option Template := reg.find? fun t => !checkOne reg t

theorem firstFailing_eq_head (reg : List Template) : firstFailing reg = (failing reg).head? := by
  unfold firstFailing failing
  exact List.head?_filter.symm

/-- FULL: a registry with exactly ONE failing template reports that template under every order -/
theorem single_failure_perm {reg reg' : List Template} (hp : reg.Perm reg') (nd : (reg.map (·.name)).Nodup)
    (t : Template) (h1 : failing reg = [t]) : firstFailing reg' = some t ∧ firstFailing reg = some t := by
  have hp' := failing_perm hp nd
  rw [h1] at hp'
  have : failing reg' = [t] := List.perm_singleton.mp hp'.symm
  rw [firstFailing_eq_head, firstFailing_eq_head, this, h1]
  exact ⟨rfl, rfl⟩

end SoyVerif.Props.C13b
