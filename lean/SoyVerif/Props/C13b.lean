/-
  C13 — compile side: the decision of the data-reference checker (and of `Registry.Add` before it)
  does not depend on the order in which the files were added to the bundle.

  Models: Model/Registry.lean (`Registry.Add`: templates appended in file order; an error for a
  missing namespace, for soydoc + header params, for a template name defined twice) and
  Model/Check.lean (`CheckDataRefs`: every template is checked against the registry; the registry
  is consulted only to look a callee up BY NAME, first match).

    * `check_ext`            the checker sees the registry only through lookup-by-name;
    * `check_perm`           accept/reject is invariant under permutation of a registry with distinct names;
    * `addAll_perm`          `Registry.Add` over a permuted file list: same accept/reject, and the
                             registries are permutations of each other (with distinct names);
    * `compile_decision_perm` the two together: the compile decision of the model is a function of the
                             SET of files;
    * `failing_perm`, `single_failure_perm`  the templates the checker rejects are the same set; if
                             exactly one template is rejected, it is the one reported under every order
                             (the models carry no error texts: "the reported error" is identified with
                             the template `CheckDataRefs` stops at).
  Tie: C13det (the implementation against itself under every permutation of ≤ 4 files, error texts
  of single-error bundles included) and C07 (checker model = CheckDataRefs).
-/
import SoyVerif.Model.Registry
import SoyVerif.Model.Check

namespace SoyVerif.Props.C13b
open SoyVerif SoyVerif.Model SoyVerif.Model.Check

/-! ## 1. the checker consults the registry by name only -/

/-- two registries answer every lookup by name alike -/
def LookupEq (reg reg' : List Template) : Prop :=
  ∀ n : Bytes, reg.find? (fun t => t.name == n) = reg'.find? (fun t => t.name == n)

section
variable {reg reg' : List Template} (h : LookupEq reg reg') (params : List Bytes)
include h

theorem checkCall_ext (name : Bytes) (allData hasData : Bool) (pk : List Bytes) :
    checkCall reg params name allData hasData pk = checkCall reg' params name allData hasData pk := by
  unfold checkCall
  rw [h name]

mutual
  theorem checkCmd_ext : ∀ c : Cmd, checkCmd reg params c = checkCmd reg' params c
    | .rawText .. => by unfold checkCmd; rfl
    | .debugger .. => by unfold checkCmd; rfl
    | .print _ a dirs => by unfold checkCmd; rw [checkDirs_ext dirs]
    | .msg _ _ _ _ _ body => by unfold checkCmd; rw [checkParts_ext body]
    | .css _ e _ => by unfold checkCmd; rfl
    | .log _ b => by unfold checkCmd; rw [checkBlock_ext b]
    | .ifc _ conds => by unfold checkCmd; rw [checkConds_ext conds]
    | .forc _ v l b none => by unfold checkCmd; rw [checkBlock_ext b]
    | .forc _ v l b (some ie) => by unfold checkCmd; simp only [checkBlock_ext b, checkBlock_ext ie]
    | .switch _ v cases => by unfold checkCmd; rw [checkCases_ext cases]
    | .call _ name allData d ps => by
      unfold checkCmd
      rw [checkCall_ext h params, checkParams_ext ps]
    | .letValue .. => by unfold checkCmd; rfl
    | .letContent _ name b => by unfold checkCmd; rw [checkBlock_ext b]
    | .headerParam .. => by unfold checkCmd; rfl
    | .namespace .. => by unfold checkCmd; rfl
    | .template _ _ b _ _ => by unfold checkCmd; rw [checkBlock_ext b]
    | .soyDoc .. => by unfold checkCmd; rfl
  theorem checkBlock_ext : ∀ b : Block, checkBlock reg params b = checkBlock reg' params b
    | .mk _ cmds => by unfold checkBlock; rw [checkCmds_ext cmds]
  theorem checkCmds_ext : ∀ cs : CmdList, checkCmds reg params cs = checkCmds reg' params cs
    | .nil => by unfold checkCmds; rfl
    | .cons c r => by unfold checkCmds; rw [checkCmd_ext c, checkCmds_ext r]
  theorem checkDirs_ext : ∀ ds : List Directive, checkDirs reg params ds = checkDirs reg' params ds
    | [] => by unfold checkDirs; rfl
    | d :: r => by unfold checkDirs; rw [checkDirs_ext r]
  theorem checkConds_ext : ∀ cs : CondList, checkConds reg params cs = checkConds reg' params cs
    | .nil => by unfold checkConds; rfl
    | .cons _ c b r => by unfold checkConds; rw [checkBlock_ext b, checkConds_ext r]
  theorem checkCases_ext : ∀ cs : CaseList, checkCases reg params cs = checkCases reg' params cs
    | .nil => by unfold checkCases; rfl
    | .cons _ vs b r => by unfold checkCases; rw [checkBlock_ext b, checkCases_ext r]
  theorem checkParams_ext : ∀ ps : ParamList, checkParams reg params ps = checkParams reg' params ps
    | .nil => by unfold checkParams; rfl
    | .value _ _ e r => by unfold checkParams; rw [checkParams_ext r]
    | .content _ _ b r => by unfold checkParams; rw [checkBlock_ext b, checkParams_ext r]
  theorem checkParts_ext : ∀ ps : MsgParts, checkParts reg params ps = checkParts reg' params ps
    | .nil => by unfold checkParts; rfl
    | .text _ _ r => by unfold checkParts; exact checkParts_ext r
    | .ph _ _ (.htmlTag ..) r => by unfold checkParts; rw [checkParts_ext r]
    | .ph _ _ (.cmd c) r => by unfold checkParts; simp only [checkCmd_ext c, checkParts_ext r]
    | .plural _ _ v cases _ d r => by
      unfold checkParts
      rw [checkPlCases_ext cases, checkParts_ext d, checkParts_ext r]
  theorem checkPlCases_ext : ∀ cs : PluralCases, checkPlCases reg params cs = checkPlCases reg' params cs
    | .nil => by unfold checkPlCases; rfl
    | .cons _ _ _ b r => by unfold checkPlCases; rw [checkParts_ext b, checkPlCases_ext r]
end

end

/-- FULL: a template is accepted or rejected alike by registries that answer lookups alike -/
theorem check_ext {reg reg' : List Template} (h : LookupEq reg reg') (t : Template) :
    checkOne reg t = checkOne reg' t := by
  unfold checkOne
  simp only [checkBlock_ext h]

/-! ## 2. permutations of a registry with distinct names -/

theorem find_eq_some_iff {α : Type} (nm : α → Bytes) {l : List α} (nd : (l.map nm).Nodup) (n : Bytes) (a : α) :
    l.find? (fun t => nm t == n) = some a ↔ a ∈ l ∧ nm a = n := by
  induction l with
  | nil => simp
  | cons g r ih =>
    simp only [List.map_cons, List.nodup_cons] at nd
    simp only [List.find?_cons]
    by_cases hg : nm g = n
    · have hb : (nm g == n) = true := by simpa using hg
      simp only [hb, Option.some.injEq, List.mem_cons]
      constructor
      · intro e; subst e; exact ⟨Or.inl rfl, hg⟩
      · rintro ⟨e | hm, hn⟩
        · exact e.symm
        · exfalso
          apply nd.1
          rw [hg, ← hn]
          exact List.mem_map_of_mem hm
    · have hb : (nm g == n) = false := by simpa using hg
      simp only [hb, ih nd.2, List.mem_cons]
      constructor
      · rintro ⟨hm, hn⟩; exact ⟨Or.inr hm, hn⟩
      · rintro ⟨e | hm, hn⟩
        · subst e; exact absurd hn hg
        · exact ⟨hm, hn⟩

theorem find_perm {α : Type} (nm : α → Bytes) {l l' : List α} (hp : l.Perm l') (nd : (l.map nm).Nodup) (n : Bytes) :
    l.find? (fun t => nm t == n) = l'.find? (fun t => nm t == n) := by
  have nd' : (l'.map nm).Nodup := (hp.map nm).nodup_iff.mp nd
  apply Option.ext
  intro a
  rw [find_eq_some_iff nm nd, find_eq_some_iff nm nd', hp.mem_iff]

theorem lookupEq_of_perm {reg reg' : List Template} (hp : reg.Perm reg') (nd : (reg.map (·.name)).Nodup) :
    LookupEq reg reg' := fun n => find_perm (·.name) hp nd n

/-- FULL: with distinct template names, `CheckDataRefs` accepts a registry iff it accepts any
    permutation of it -/
theorem check_perm {reg reg' : List Template} (hp : reg.Perm reg') (nd : (reg.map (·.name)).Nodup) :
    check reg = check reg' := by
  unfold check
  have : checkOne reg = checkOne reg' := funext (check_ext (lookupEq_of_perm hp nd))
  rw [this]
  exact hp.all_eq

/-- the templates the checker rejects -/
def failing (reg : List Template) : List Template := reg.filter fun t => !checkOne reg t

/-- FULL: the rejected templates are the same, whatever the order -/
theorem failing_perm {reg reg' : List Template} (hp : reg.Perm reg') (nd : (reg.map (·.name)).Nodup) :
    (failing reg).Perm (failing reg') := by
  unfold failing
  have : checkOne reg = checkOne reg' := funext (check_ext (lookupEq_of_perm hp nd))
  rw [this]
  exact hp.filter _

/-- the template `CheckDataRefs` stops at (it returns the error of the first template that fails) -/
def firstFailing (reg : List Template) : Option Template := reg.find? fun t => !checkOne reg t

theorem firstFailing_eq_head (reg : List Template) : firstFailing reg = (failing reg).head? := by
  unfold firstFailing failing
  exact List.head?_filter.symm

/-- FULL: a registry with exactly ONE failing template reports that template under every order -/
theorem single_failure_perm {reg reg' : List Template} (hp : reg.Perm reg') (nd : (reg.map (·.name)).Nodup)
    (t : Template) (h1 : failing reg = [t]) : firstFailing reg' = some t ∧ firstFailing reg = some t := by
  have hp' := failing_perm hp nd
  rw [h1] at hp'
  have : failing reg' = [t] := List.perm_singleton.mp hp'.symm
  rw [firstFailing_eq_head, firstFailing_eq_head, this, h1]
  exact ⟨rfl, rfl⟩

/-! ## 3. `Registry.Add` over a permuted list of files -/

open SoyVerif.Model.Registry (Tmpl Reg addTemplates splitHeaderParams findNamespace add addAll toCheck)

/-- the templates of a file, as `Add` would append them — without the duplicate-name test -/
def collect (fileName text nsName : Bytes) (nsAe : Autoescape) : List Cmd → Option Cmd → Option (List Tmpl)
  | [], _ => some []
  | c :: rest, prev =>
    match c with
    | .template pos name (.mk bpos cmds) ae _ =>
      let docParams : List Check.Param := match prev with
        | some (.soyDoc _ ps) => ps.map fun p => { name := p.name, optional := p.optional }
        | _ => []
      let (hps, body) := splitHeaderParams cmds
      if !hps.isEmpty && !docParams.isEmpty then none
      else
        let t : Tmpl := { name := name, params := docParams ++ hps, body := .mk bpos body, autoescape := ae,
                          nsName := nsName, nsAutoescape := nsAe, pos := pos, file := fileName, text := text }
        (collect fileName text nsName nsAe rest (some c)).map (t :: ·)
    | .namespace .. | .soyDoc .. | .rawText .. => collect fileName text nsName nsAe rest (some c)
    | _ => none                                   -- a command outside of a template

/-- appending `ts` one by one never meets a name that is already there -/
def fresh : Reg → List Tmpl → Bool
  | _, [] => true
  | reg, t :: r => !(reg.any fun u => u.name == t.name) && fresh (reg ++ [t]) r

theorem fresh_append : ∀ (reg : Reg) (a b : List Tmpl), fresh reg (a ++ b) = (fresh reg a && fresh (reg ++ a) b)
  | reg, [], b => by simp [fresh]
  | reg, t :: r, b => by
    simp only [List.cons_append, fresh, fresh_append (reg ++ [t]) r b, List.append_assoc, List.singleton_append,
      List.nil_append, Bool.and_assoc]

/-- `Add`'s template loop = collect, then the duplicate test -/
theorem addTemplates_eq (fn text ns : Bytes) (ae : Autoescape) : ∀ (cmds : List Cmd) (prev : Option Cmd) (reg : Reg),
    addTemplates fn text ns ae cmds prev reg =
      (collect fn text ns ae cmds prev).bind fun ts => if fresh reg ts then some (reg ++ ts) else none
  | [], prev, reg => by simp [addTemplates, collect, fresh]
  | c :: rest, prev, reg => by
    cases c with
    | template pos name body ae' pr =>
      obtain ⟨bpos, cmds⟩ := body
      have key : ∀ (docParams : List Check.Param),
          (if (!(splitHeaderParams cmds).1.isEmpty && !docParams.isEmpty) = true then none
           else if (reg.any fun t => t.name == name) = true then none
           else addTemplates fn text ns ae rest (some (Cmd.template pos name (Block.mk bpos cmds) ae' pr))
             (reg ++ [{ name := name, params := docParams ++ (splitHeaderParams cmds).1,
                        body := Block.mk bpos (splitHeaderParams cmds).2, autoescape := ae', nsName := ns,
                        nsAutoescape := ae, pos := pos, file := fn, text := text }])) =
          (if (!(splitHeaderParams cmds).1.isEmpty && !docParams.isEmpty) = true then none
           else (collect fn text ns ae rest (some (Cmd.template pos name (Block.mk bpos cmds) ae' pr))).map
             ({ name := name, params := docParams ++ (splitHeaderParams cmds).1,
                body := Block.mk bpos (splitHeaderParams cmds).2, autoescape := ae', nsName := ns,
                nsAutoescape := ae, pos := pos, file := fn, text := text } :: ·)).bind
            fun ts => if fresh reg ts then some (reg ++ ts) else none := by
        intro docParams
        by_cases hboth : (!(splitHeaderParams cmds).1.isEmpty && !docParams.isEmpty) = true
        · simp only [hboth, if_true, Option.bind_none]
        · simp only [hboth, Bool.false_eq_true, if_false]
          by_cases hdup : (reg.any fun t => t.name == name) = true
          · simp only [hdup, if_true]
            cases collect fn text ns ae rest (some (Cmd.template pos name (Block.mk bpos cmds) ae' pr)) with
            | none => rfl
            | some ts => simp [fresh, hdup]
          · simp only [hdup, Bool.false_eq_true, if_false]
            rw [addTemplates_eq fn text ns ae rest _ _]
            cases collect fn text ns ae rest (some (Cmd.template pos name (Block.mk bpos cmds) ae' pr)) with
            | none => rfl
            | some ts =>
              have : (reg.any fun t => t.name == name) = false := by simpa using hdup
              simp [fresh, this]
      unfold addTemplates collect
      cases prev with
      | none => exact key _
      | some p => cases p <;> exact key _
    | «namespace» => unfold addTemplates collect; exact addTemplates_eq fn text ns ae rest _ reg
    | soyDoc => unfold addTemplates collect; exact addTemplates_eq fn text ns ae rest _ reg
    | rawText => unfold addTemplates collect; exact addTemplates_eq fn text ns ae rest _ reg
    | _ => unfold addTemplates collect; rfl

/-- the templates a file contributes (`none`: no namespace, soydoc and header params together, or a command outside of every template) -/
def fileTmpls (f : SoyFile) : Option (List Tmpl) :=
  match findNamespace f.body with
  | none => none
  | some (ns, ae) => collect f.name f.text ns ae f.body none

def fileOk (f : SoyFile) : Bool := (fileTmpls f).isSome
def fileTs (f : SoyFile) : List Tmpl := (fileTmpls f).getD []

theorem add_eq (reg : Reg) (f : SoyFile) :
    add reg f = if fileOk f && fresh reg (fileTs f) then some (reg ++ fileTs f) else none := by
  unfold add fileOk fileTs fileTmpls
  cases findNamespace f.body with
  | none => rfl
  | some nsae =>
    obtain ⟨ns, ae⟩ := nsae
    simp only [addTemplates_eq]
    cases collect f.name f.text ns ae f.body none with
    | none => rfl
    | some ts => simp

/-- `Add` over a list of files, in closed form -/
theorem addAll_eq : ∀ (fs : List SoyFile) (reg : Reg),
    addAll reg fs = if fs.all fileOk && fresh reg (fs.flatMap fileTs) then some (reg ++ fs.flatMap fileTs) else none
  | [], reg => by simp [addAll, fresh]
  | f :: fs, reg => by
    unfold addAll
    rw [add_eq]
    by_cases h1 : (fileOk f && fresh reg (fileTs f)) = true
    · simp only [h1, if_true, Option.bind_some, addAll_eq fs, List.all_cons, List.flatMap_cons, fresh_append,
        List.append_assoc]
      simp only [Bool.and_eq_true] at h1
      simp [h1.1, h1.2]
    · simp only [h1, Bool.false_eq_true, if_false, Option.bind_none, List.all_cons, List.flatMap_cons, fresh_append]
      have : (fileOk f && fresh reg (fileTs f)) = false := by simpa using h1
      cases hf : fileOk f <;> simp [hf] at this ⊢
      simp [this]

theorem fresh_nil_iff : ∀ (reg : Reg) (ts : List Tmpl), fresh reg ts = true ↔
    (∀ t ∈ ts, ∀ u ∈ reg, u.name ≠ t.name) ∧ (ts.map (·.name)).Nodup
  | reg, [] => by simp [fresh]
  | reg, t :: r => by
    have ih := fresh_nil_iff (reg ++ [t]) r
    have hany : (reg.any fun u => u.name == t.name) = false ↔ ∀ u ∈ reg, u.name ≠ t.name := by
      constructor
      · intro h u hu e
        have : (reg.any fun u => u.name == t.name) = true := List.any_eq_true.mpr ⟨u, hu, by simpa using e⟩
        rw [h] at this; cases this
      · intro h
        cases hh : (reg.any fun u => u.name == t.name) with
        | false => rfl
        | true =>
          obtain ⟨u, hu, e⟩ := List.any_eq_true.mp hh
          exact absurd (by simpa using e) (h u hu)
    unfold fresh
    rw [Bool.and_eq_true, ih, List.map_cons, List.nodup_cons]
    constructor
    · rintro ⟨h1, h2, h3⟩
      have h1' : (reg.any fun u => u.name == t.name) = false := by simpa using h1
      have h1'' := hany.mp h1'
      refine ⟨?_, ?_, h3⟩
      · intro x hx u hu
        rcases List.mem_cons.mp hx with rfl | hx
        · exact h1'' u hu
        · exact h2 x hx u (List.mem_append.mpr (Or.inl hu))
      · intro hm
        obtain ⟨x, hx, e⟩ := List.mem_map.mp hm
        exact h2 x hx t (List.mem_append.mpr (Or.inr (by simp))) e.symm
    · rintro ⟨h1, h2, h3⟩
      refine ⟨?_, ?_, h3⟩
      · have := hany.mpr (fun u hu => h1 t (by simp) u hu)
        simp [this]
      · intro x hx u hu
        rcases List.mem_append.mp hu with hu | hu
        · exact h1 x (List.mem_cons_of_mem _ hx) u hu
        · have : u = t := by simpa using hu
          subst this
          intro e
          exact h2 (List.mem_map.mpr ⟨x, hx, e.symm⟩)

theorem fresh_nil_perm {ts ts' : List Tmpl} (hp : ts.Perm ts') : fresh [] ts = fresh [] ts' := by
  have h1 := fresh_nil_iff [] ts
  have h2 := fresh_nil_iff [] ts'
  have hn : (ts.map (·.name)).Nodup ↔ (ts'.map (·.name)).Nodup := (hp.map (·.name)).nodup_iff
  cases ha : fresh [] ts <;> cases hb : fresh [] ts' <;> simp_all

/-- FULL: `Registry.Add` over the files of a bundle in two different orders: the same accept/reject
    decision; if accepted, the registries are permutations of each other and all names are distinct -/
theorem addAll_perm {fs fs' : List SoyFile} (hp : fs.Perm fs') :
    (addAll [] fs).isSome = (addAll [] fs').isSome ∧
    ∀ reg reg', addAll [] fs = some reg → addAll [] fs' = some reg' →
      reg.Perm reg' ∧ (reg.map (·.name)).Nodup := by
  have hflat : (fs.flatMap fileTs).Perm (fs'.flatMap fileTs) := List.Perm.flatMap_right _ hp
  have hall : fs.all fileOk = fs'.all fileOk := hp.all_eq
  have hfresh := fresh_nil_perm hflat
  rw [addAll_eq, addAll_eq, hall, hfresh]
  by_cases hc : (fs'.all fileOk && fresh [] (fs'.flatMap fileTs)) = true
  · simp only [hc, if_true, List.nil_append, Option.isSome_some, true_and, Option.some.injEq]
    intro reg reg' h1 h2
    subst h1; subst h2
    simp only [Bool.and_eq_true] at hc
    have hnd := ((fresh_nil_iff [] _).mp hc.2).2
    exact ⟨hflat, ((hflat.map (·.name)).nodup_iff).mpr hnd⟩
  · simp only [hc, Bool.false_eq_true, if_false, true_and]
    intro reg reg' h1
    cases h1

/-! ## 4. the compile decision -/

/-- `Bundle.Compile` as far as the two models go: `Registry.Add` for every file, then `CheckDataRefs` -/
def compileOk (fs : List SoyFile) : Bool :=
  match addAll [] fs with
  | none => false
  | some reg => check (toCheck reg)

theorem toCheck_names (reg : Reg) : (toCheck reg).map (·.name) = reg.map (·.name) := by
  unfold toCheck
  simp [List.map_map, Function.comp_def]

/-- FULL (`compile_order_independent`, decision): the models accept a bundle iff they accept the same
    files added in any other order -/
theorem compile_decision_perm {fs fs' : List SoyFile} (hp : fs.Perm fs') : compileOk fs = compileOk fs' := by
  obtain ⟨hsome, hreg⟩ := addAll_perm hp
  unfold compileOk
  cases h1 : addAll [] fs with
  | none =>
    cases h2 : addAll [] fs' with
    | none => rfl
    | some r => simp [h1, h2] at hsome
  | some reg =>
    cases h2 : addAll [] fs' with
    | none => simp [h1, h2] at hsome
    | some reg' =>
      obtain ⟨hperm, hnd⟩ := hreg reg reg' h1 h2
      simp only
      exact check_perm (reg := toCheck reg) (reg' := toCheck reg') (by unfold toCheck; exact hperm.map _)
        (by rw [toCheck_names]; exact hnd)

/-- … and if exactly one template is rejected, it is the one reported under both orders -/
theorem compile_single_failure_perm {fs fs' : List SoyFile} (hp : fs.Perm fs') (reg reg' : Reg)
    (h1 : addAll [] fs = some reg) (h2 : addAll [] fs' = some reg') (t : Template)
    (hone : failing (toCheck reg) = [t]) :
    firstFailing (toCheck reg') = some t ∧ firstFailing (toCheck reg) = some t := by
  obtain ⟨_, hreg⟩ := addAll_perm hp
  obtain ⟨hperm, hnd⟩ := hreg reg reg' h1 h2
  exact single_failure_perm (reg := toCheck reg) (reg' := toCheck reg') (by unfold toCheck; exact hperm.map _)
    (by rw [toCheck_names]; exact hnd) t hone

/-! ## non-vacuity -/

def fileA : SoyFile :=
  { name := [97], text := [], body := [.namespace 0 [110, 97] .unspecified,
      .template 0 [110, 97, 46, 116] (.mk 0 (.cons (.call 0 [110, 98, 46, 117] false none .nil) .nil)) .unspecified false] }
def fileB : SoyFile :=
  { name := [98], text := [], body := [.namespace 0 [110, 98] .unspecified,
      .template 0 [110, 98, 46, 117] (.mk 0 (.cons (.rawText 0 [120]) .nil)) .unspecified false] }
/-- a file whose template uses an undeclared variable -/
def fileBad : SoyFile :=
  { name := [99], text := [], body := [.namespace 0 [110, 99] .unspecified,
      .template 0 [110, 99, 46, 118] (.mk 0 (.cons (.print 0 (.dataRef 0 [122] .nil) []) .nil)) .unspecified false] }

/-- a cross-file call: accepted in both orders (the callee is found whether it was added before or after) -/
example : compileOk [fileA, fileB] = true ∧ compileOk [fileB, fileA] = true := by decide
/-- one violation: rejected in every order, and the same template is reported -/
example : compileOk [fileA, fileB, fileBad] = false ∧ compileOk [fileBad, fileB, fileA] = false := by decide
example : ((addAll [] [fileA, fileB, fileBad]).map fun r => (firstFailing (toCheck r)).map (·.name)) =
    ((addAll [] [fileBad, fileB, fileA]).map fun r => (firstFailing (toCheck r)).map (·.name)) := by decide
/-- the hypothesis of distinct names is enforced by `Add` itself: the same file twice is rejected -/
example : compileOk [fileB, fileB] = false := by decide

end SoyVerif.Props.C13b
