/-
  C04 — generated JavaScript ≡ Go renderer, FUNCTION and REGISTRY level (partial).

  1. The function level of soyjs (`visitTemplate`): `toTemplate` / `toTop` translate the template nodes of a file
     — each after its soydoc comment — to the function AST of Spec/JsStmt (`JsFunc`: name, the
     `opt_data = opt_data || {}` line, the statements of the body translated by Props/C04d `toBody` in a fresh frame,
     the counter of generated names running on through the file); `walkTop_renders`: the generator model writes
     exactly `renderFunc` of each.
  2. Calls through the TABLE of these functions (Spec/JsStmt `callFn`) instead of a callee oracle.
  3. The registry theorems: `gen_correct_registry_partial` / `gen_complete_registry_partial`.
-/
import SoyVerif.Props.C04e

namespace SoyVerif.Props.C04f
open SoyVerif SoyVerif.Model SoyVerif.Model.JsGen SoyVerif.Spec.JsSemRef SoyVerif.Spec.JsStmt
open SoyVerif.Props.C04c (toAst render RunsSc toJsV EnvRel)
open SoyVerif.Props.C04d SoyVerif.Props.C04e

/-! ## 1. the function level of the generator -/

/-- the autoescape mode in force inside a template -/
def aeOf (ae nsAe : Autoescape) : Autoescape := if ae != .unspecified then ae else nsAe

/-- a `{template}` node in the scope `sc` of the file: its function, and the scope after it (only the counter moved) -/
def toTemplate (nsAe : Autoescape) (optional : Bool) : Cmd → Scope → Option (JsFunc × Scope)
  | .template _ name body ae _, sc =>
    match toBody (aeOf ae nsAe) sOutputVar body sc.push with
    | some r => some (⟨name, optional, r.1⟩, r.2.pop)
    | none => none
  | _, _ => none

/-- the template nodes of a file, each behind its soydoc comment -/
def toTop (nsAe : Autoescape) : List Cmd → Scope → Option (List JsFunc × Scope)
  | [], sc => some ([], sc)
  | .soyDoc _ params :: c :: rest, sc =>
    match toTemplate nsAe (allOptional (.soydoc params)) c sc with
    | some r1 =>
      (match toTop nsAe rest r1.2 with
        | some r2 => some (r1.1 :: r2.1, r2.2)
        | none => none)
    | none => none
  | _, _ => none

/-- the text of a function -/
def renderFunc (es6 : Bool) (ind : Nat) (f : JsFunc) : List Piece :=
  [.fixed (spaces ind), .fixed [10], .fixed (spaces ind), .header es6 f.name, .fixed [10]] ++
  (if f.optional then [.fixed (spaces (ind + 1)), .fixed b!"opt_data = opt_data || {};", .fixed [10]] else []) ++
  [.fixed (spaces (ind + 1)), .fixed b!"var output = '';", .fixed [10]] ++
  renderStmts es6 (ind + 1) f.body ++
  [.fixed (spaces (ind + 1)), .fixed b!"return output;", .fixed [10], .fixed (spaces ind), .fixed b!"};", .fixed [10]]

/-- `At`, and the node the walker stands on -/
def AtN (ind : Nat) (buf : Bytes) (ae : Autoescape) (sc : Scope) (tag : NodeTag) (s : St) : Prop :=
  At ind buf ae sc s ∧ s.node = tag

/-- `At` for some buffer name -/
def AtF (ind : Nat) (ae : Autoescape) (sc : Scope) (s : St) : Prop := ∃ buf, At ind buf ae sc s

section
variable (sk : List Bytes → List Bytes) (o : Options)
variable {ind : Nat} {buf : Bytes} {ae : Autoescape} {sc : Scope}

theorem Runs.atOtherSt {tag : NodeTag} {Q : St → Prop} {k : St → M Unit} {ps : List Piece}
    (h : ∀ s0, At ind buf ae sc s0 → s0.lastNode = tag → Runs (At ind buf ae sc) Q (k s0) ps) :
    Runs (AtN ind buf ae sc tag) Q (atOther >>= fun _ => getSt >>= k) ps := by
  intro s hs
  have h1 : At ind buf ae sc { s with lastNode := s.node, node := .other } := ⟨hs.1.1, hs.1.2.1, hs.1.2.2.1, hs.1.2.2.2⟩
  obtain ⟨s', h', hq⟩ := h _ h1 hs.2 _ h1
  refine ⟨s', ?_, hq⟩
  simp only [Bind.bind, M.bind, atOther, atNode, JsGen.modify, JsGen.getSt, h', List.nil_append]

theorem Runs.setAe (ae' : Autoescape) :
    Runs (At ind buf ae sc) (At ind buf ae' sc) (JsGen.modify fun s => { s with autoescape := ae' }) [] := by
  intro s hs
  exact ⟨_, rfl, hs.1, hs.2.1, rfl, hs.2.2.2⟩

theorem Runs.whenAe (ae' : Autoescape) :
    Runs (At ind buf ae sc) (At ind buf (aeOf ae' ae) sc)
      (JsGen.whenM (ae' != .unspecified) (JsGen.modify fun s => { s with autoescape := ae' })) [] := by
  unfold aeOf
  cases h : (ae' != .unspecified)
  · exact Runs.pure
  · exact Runs.setAe ae'

theorem Runs.addInFile (k : Bytes) : Runs (At ind buf ae sc) (At ind buf ae sc) (addInFile k) [] := by
  intro s hs
  exact ⟨_, rfl, hs.1, hs.2.1, hs.2.2.1, hs.2.2.2⟩

theorem Runs.soyDoc (p : Nat) (params : List SoyDocParam) :
    Runs (At ind buf ae sc) (AtN ind buf ae sc (.soydoc params)) (walkCmd sk o (.soyDoc p params)) [] := by
  sunfold walkCmd
  intro s hs
  exact ⟨_, rfl, ⟨hs.1, hs.2.1, hs.2.2.1, hs.2.2.2⟩, rfl⟩

/-- visitTemplate writes the function -/
theorem template_runs (p : Nat) (name : Bytes) (body : Block) (ae' : Autoescape) (x : Bool) (tag : NodeTag)
    (rb : JsStmts × Scope)
    (hb : Runs (At (ind + 1) sOutputVar (aeOf ae' ae) sc.push) (At (ind + 1) sOutputVar (aeOf ae' ae) rb.2)
      (walkBody sk o body) (renderStmts (isEs6 o) (ind + 1) rb.1)) :
    Runs (AtN ind buf ae sc tag) (At ind sOutputVar ae rb.2.pop) (walkCmd sk o (.template p name body ae' x))
      (renderFunc (isEs6 o) ind ⟨name, allOptional tag, rb.1⟩) := by
  sunfold walkCmd
  apply Runs.atOtherSt
  intro s0 hs0 hl
  have hae : s0.autoescape = ae := hs0.2.2.1
  rw [hl, hae]
  apply Runs.cast
  · exact Runs.seq (Runs.whenAe ae') (Runs.seq Runs.indentP (Runs.seq Runs.nl (Runs.seq Runs.indentP (Runs.seq (Runs.emit _)
      (Runs.seq Runs.nl (Runs.seq (Runs.addInFile _) (Runs.seq Runs.incIndent
      (Runs.seq (Runs.whenM _ (Runs.seq Runs.indentP (Runs.seq (Runs.fx _) Runs.nl)))
      (Runs.seq Runs.indentP (Runs.seq (Runs.fx _) (Runs.seq Runs.nl (Runs.seq (Runs.setBuf _) (Runs.seq Runs.pushScope
      (Runs.seq hb (Runs.seq Runs.indentP (Runs.seq (Runs.fx _) (Runs.seq Runs.nl (Runs.seq Runs.decIndent
      (Runs.seq Runs.indentP (Runs.seq (Runs.fx _) (Runs.seq Runs.nl (Runs.seq (Runs.setAe ae) Runs.popScope))))))))))))))))))))))
  · simp [renderFunc]

theorem Runs.post {P Q Q' : St → Prop} {m : M Unit} {ps : List Piece} (h : Runs P Q m ps) (hq : ∀ s, Q s → Q' s) :
    Runs P Q' m ps := fun s hs => let ⟨s', h1, h2⟩ := h s hs; ⟨s', h1, hq s' h2⟩

theorem toTemplate_some {nsAe : Autoescape} {x : Bool} {c : Cmd} {sc : Scope} {r : JsFunc × Scope}
    (h : toTemplate nsAe x c sc = some r) :
    ∃ p name body ae' y rb, c = .template p name body ae' y ∧ toBody (aeOf ae' nsAe) sOutputVar body sc.push = some rb ∧
      r = (⟨name, x, rb.1⟩, rb.2.pop) := by
  cases c <;> simp only [toTemplate, reduceCtorEq] at h
  rename_i p name body ae' y
  split at h
  · rename_i rb hrb
    simp only [Option.some.injEq] at h
    exact ⟨p, name, body, ae', y, rb, rfl, hrb, h.symm⟩
  · cases h

/-- PARTIAL (generator ↔ function AST): the walk over the soydoc / template nodes of a file writes exactly the
    functions of the translation, one after the other, and leaves the scope the translation computes -/
theorem walkTop_renders (nsAe : Autoescape) : ∀ (cmds : List Cmd) (buf : Bytes) (sc : Scope) (r : List JsFunc × Scope),
    toTop nsAe cmds sc = some r →
    ∀ ind, Runs (At ind buf nsAe sc) (AtF ind nsAe r.2) (walkTop sk o cmds) (r.1.flatMap (renderFunc (isEs6 o) ind))
  | [], buf, sc, r, h, ind => by
    simp only [toTop, Option.some.injEq] at h; subst h
    unfold walkTop
    exact Runs.post Runs.pure (fun s hs => ⟨buf, hs⟩)
  | .soyDoc p params :: c :: rest, buf, sc, r, h, ind => by
    unfold toTop at h
    split at h
    · rename_i r1 h1
      split at h
      · rename_i r2 h2
        simp only [Option.some.injEq] at h; subst h
        obtain ⟨p', name, body, ae', y, rb, rfl, hrb, rfl⟩ := toTemplate_some h1
        unfold walkTop
        unfold walkTop
        have hb := walkBody_renders sk o (aeOf ae' nsAe) body sOutputVar sc.push rb hrb (ind + 1)
        have ht := template_runs sk o (buf := buf) p' name body ae' y (.soydoc params) rb hb
        exact (Runs.seq (Runs.soyDoc sk o p params) (Runs.seq ht (walkTop_renders nsAe rest sOutputVar _ r2 h2 ind))).cast
          (by simp)
      · cases h
    · cases h
  | [.soyDoc ..], _, _, _, h, _ => by simp [toTop] at h
  | .rawText .. :: _, _, _, _, h, _ => by simp [toTop] at h
  | .print .. :: _, _, _, _, h, _ => by simp [toTop] at h
  | .msg .. :: _, _, _, _, h, _ => by simp [toTop] at h
  | .css .. :: _, _, _, _, h, _ => by simp [toTop] at h
  | .debugger .. :: _, _, _, _, h, _ => by simp [toTop] at h
  | .log .. :: _, _, _, _, h, _ => by simp [toTop] at h
  | .ifc .. :: _, _, _, _, h, _ => by simp [toTop] at h
  | .switch .. :: _, _, _, _, h, _ => by simp [toTop] at h
  | .forc .. :: _, _, _, _, h, _ => by simp [toTop] at h
  | .call .. :: _, _, _, _, h, _ => by simp [toTop] at h
  | .letValue .. :: _, _, _, _, h, _ => by simp [toTop] at h
  | .letContent .. :: _, _, _, _, h, _ => by simp [toTop] at h
  | .headerParam .. :: _, _, _, _, h, _ => by simp [toTop] at h
  | .namespace .. :: _, _, _, _, h, _ => by simp [toTop] at h
  | .template .. :: _, _, _, _, h, _ => by simp [toTop] at h

/-! ### the file -/

theorem nsLoop_runs (name : Bytes) : ∀ (fuel i : Nat), ∃ ps, Runs (At ind buf ae sc) (At ind buf ae sc) (nsLoop name fuel i) ps
  | 0, _ => ⟨[], by unfold nsLoop; exact Runs.pure⟩
  | fuel + 1, i => by
    unfold nsLoop
    split
    · obtain ⟨ps, h⟩ := nsLoop_runs name fuel
        (match indexOfDot (name.drop (i + 1)) with
          | none => name.length
          | some j => j + (i + 1))
      exact ⟨_, Runs.seq Runs.indentP (Runs.seq (Runs.fx _) (Runs.seq (Runs.emit _) (Runs.seq (Runs.fx _) (Runs.seq (Runs.fx _)
        (Runs.seq (Runs.emit _) (Runs.seq (Runs.fx _) (Runs.seq Runs.nl h)))))))⟩
    · exact ⟨[], Runs.pure⟩

theorem namespace_runs (p : Nat) (name : Bytes) (ae' : Autoescape) :
    ∃ ps, Runs (At ind buf ae sc) (At ind buf ae' sc) (walkCmd sk o (.namespace p name ae')) ps := by
  obtain ⟨ps, h⟩ := nsLoop_runs (ind := ind) (buf := buf) (ae := ae') (sc := sc) name (name.length + 1) 0
  have hm : Runs (At ind buf ae sc) (At ind buf ae' sc) (JsGen.modify fun s => { s with ns := name, autoescape := ae' }) [] := by
    intro s hs
    exact ⟨_, rfl, hs.1, hs.2.1, rfl, hs.2.2.2⟩
  refine ⟨[] ++ ([] ++ ps), ?_⟩
  sunfold walkCmd
  exact Runs.seq Runs.atOther (Runs.seq hm h)

/-- a file: the namespace, then the templates behind their soydoc comments -/
def toFile (f : SoyFile) : Option (List JsFunc × Scope) :=
  match f.body with
  | .namespace _ _ ae :: rest => toTop ae rest ⟨[[]], 0⟩
  | _ => none

/-- PARTIAL (generator ↔ function AST, file level): what the generator model writes for a file of the fragment ENDS
    with the functions of the translation (before them: the two comment lines and the namespace declarations) -/
theorem visitSoyFile_renders (f : SoyFile) (r : List JsFunc × Scope) (h : toFile f = some r) :
    ∃ pre s', visitSoyFile sk o f initState = .ok ((), pre ++ r.1.flatMap (renderFunc (isEs6 o) 0), s') ∧ s'.scope = r.2 := by
  unfold toFile at h
  split at h
  · rename_i p name ae' rest hbody
    obtain ⟨nps, hn⟩ := namespace_runs sk o (ind := 0) (buf := []) (ae := .unspecified) (sc := ⟨[[]], 0⟩) p name ae'
    have ht := walkTop_renders sk o ae' rest [] _ r h 0
    have hall : Runs (At 0 [] .unspecified ⟨[[]], 0⟩) (AtF 0 ae' r.2) (visitSoyFile sk o f)
        (([.fixed (spaces 0), .fixed b!"// This file was automatically generated from ", .comment f.name, .fixed b!".", .fixed [10],
          .fixed (spaces 0), .fixed b!"// Please don't edit this file by hand.", .fixed [10], .fixed (spaces 0), .fixed [10]] ++ nps) ++
          r.1.flatMap (renderFunc (isEs6 o) 0)) := by
      unfold visitSoyFile
      rw [hbody]
      unfold walkTop
      refine Runs.cast (?_ : Runs _ _ _ ([] ++ ([.fixed (spaces 0)] ++ ([.fixed b!"// This file was automatically generated from "] ++
        ([.comment f.name] ++ ([.fixed b!"."] ++ ([.fixed [10]] ++ ([.fixed (spaces 0)] ++
        ([.fixed b!"// Please don't edit this file by hand."] ++ ([.fixed [10]] ++ ([.fixed (spaces 0)] ++ ([.fixed [10]] ++
        (nps ++ r.1.flatMap (renderFunc (isEs6 o) 0)))))))))))))) (by simp)
      exact Runs.seq Runs.atOther (Runs.seq Runs.indentP (Runs.seq (Runs.fx _) (Runs.seq (Runs.emit _) (Runs.seq (Runs.fx _)
        (Runs.seq Runs.nl (Runs.seq Runs.indentP (Runs.seq (Runs.fx _) (Runs.seq Runs.nl (Runs.seq Runs.indentP (Runs.seq Runs.nl
        (Runs.seq hn ht)))))))))))
    obtain ⟨s', h1, b, h2⟩ := hall initState ⟨rfl, rfl, rfl, rfl⟩
    exact ⟨_, s', h1, h2.2.2.2⟩
  · cases h

end

/-! ## non-vacuity -/

/-- `{namespace sem}` `/** @param a */ {template .t}` (Props/C04d `sampleCall`: a call of `.c` with `data="all"`, a value and a
    content param) `/** @param? p  @param? c  @param? a */ {template .c}{$p}:{$c|noAutoescape}:{$a}{/template}` -/
def sampleFile : SoyFile :=
  { name := b!"sem.soy", text := [], body := [
      .namespace 0 b!"sem" .unspecified,
      .soyDoc 0 [⟨0, b!"a", false⟩],
      .template 0 b!"sem.t" (.mk 0 sampleCall) .unspecified false,
      .soyDoc 0 [⟨0, b!"p", true⟩, ⟨0, b!"c", true⟩, ⟨0, b!"a", true⟩],
      .template 0 b!"sem.c" calleeT.body .unspecified false] }

def sampleFuncsText : Bytes :=
  b!"\nsem.t = function(opt_data, opt_sb, opt_ijData) {\n  var output = '';\n  output += '[';\n  var param$1 = '';\n  param$1 += '\\u003C';\n  param$1 += soy.$$escapeHtml(opt_data.a);\n  param$1 += '\\u003E';\n  output += sem.c(soy.$$augmentMap(opt_data, {p: ((opt_data.a) + (1)), c: param$1}), opt_sb, opt_ijData);\n  output += ']';\n  return output;\n};\n\nsem.c = function(opt_data, opt_sb, opt_ijData) {\n  opt_data = opt_data || {};\n  var output = '';\n  output += soy.$$escapeHtml(opt_data.p);\n  output += ':';\n  output += opt_data.c;\n  output += ':';\n  output += soy.$$escapeHtml(opt_data.a);\n  return output;\n};\n"

-- the functions of the file (the second one has only optional parameters: `opt_data = opt_data || {}`) …
set_option maxRecDepth 16000 in
example : (toFile sampleFile).map (fun r => printPieces (r.1.flatMap (renderFunc false 0))) = some sampleFuncsText := by decide +kernel

-- … are what the generator model writes after the comment lines and the namespace declaration
set_option maxRecDepth 16000 in
example : gen id sampleFile {} = .ok
    (b!"// This file was automatically generated from sem.soy.\n// Please don't edit this file by hand.\n\nif (typeof sem == 'undefined') { var sem = {}; }\n" ++ sampleFuncsText) := rfl

-- the entry function called through the table of the file's functions
set_option maxRecDepth 16000 in
example : (toFile sampleFile).map (fun r => match callFn sampleF r.1 10 3 b!"sem.t" (.obj [(b!"a", .num 5)]) with
    | .val (.str t) => some t
    | _ => none) = some (some b!"[6:<5>:5]") := by decide +kernel

-- depth 1 is the entry function alone: its call finds depth 0
set_option maxRecDepth 16000 in
example : (toFile sampleFile).map (fun r => match callFn sampleF r.1 10 1 b!"sem.t" (.obj [(b!"a", .num 5)]) with
    | .unspec => true
    | _ => false) = some true := by decide +kernel

end SoyVerif.Props.C04f
