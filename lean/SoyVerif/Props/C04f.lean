/-
  C04 — generated JavaScript ≡ Go renderer, FUNCTION and REGISTRY level (partial).

  1. The function level of soyjs (`visitTemplate`): `toTemplate` / `toTop` translate the template nodes of a file
     — each after its soydoc comment — to the function AST of Spec/JsStmt (`JsFunc`: name, the
     `opt_data = opt_data || {}` line, the statements of the body translated by Props/C04d `toBody` in a fresh frame,
     the counter of generated names running on through the file); `walkTop_renders`: the generator model writes
     exactly `renderFunc` of each.
  2. Calls through the TABLE of these functions (Spec/JsStmt `callFn`) instead of a callee oracle:
     `calls_table_correct` — for a table that holds the translated bodies of a registry's templates (`TableOk`;
     `tableOk_of_file`: the functions of a file are one) the hypotheses `CallRel` / `CallRelE` of the statement theorems
     hold against the reference `refCall`, by induction on the call depth.
  3. The registry theorems.  `gen_correct_registry_partial` / `gen_correct_file_partial`: what a generated function
     returns on the JSON image of the data is what Spec/Eval.render renders (hypotheses, all named: `TableOk`, no print
     directives — `plainBlock` of every template —, `EscapeHtmlIs`); `gen_correct_registry_cmds_partial`: the same for
     commands inside a template.  `gen_complete_registry_partial`: the converse against the reference semantics
     (`refCall`) — the function returns the text or leaves the subset, it does not throw;
     `gen_complete_registry_spec_partial` / `gen_complete_file_partial`: the same against Spec/Eval.render itself, same
     hypotheses (`renderTmpl_le`: on directive-free templates the reference renders whatever Spec/Eval renders — Props/C04d
     `spec_le_ref_*`, the reference's print falling back to Spec/Eval's where the JSON image is silent — so
     `calls_table_throw`: where a generated function throws, Spec/Eval does not render).
  The function header is generator output here (`renderFunc`), and its meaning is the trusted `callFn` of Spec/JsStmt
  (tied to otto by the harness property C04sem, which runs the entry function THROUGH the table).
-/
import SoyVerif.Props.C04e

namespace SoyVerif.Props.C04f
open SoyVerif SoyVerif.Model SoyVerif.Model.JsGen SoyVerif.Spec.JsSemRef SoyVerif.Spec.JsStmt
open SoyVerif.Props.C04c (toAst render RunsSc toJsV EnvRel Globals GlobalsAre IjRel GlobRel)
open SoyVerif.Props.C04d SoyVerif.Props.C04e
open SoyVerif.Spec.Eval (Val Out)

set_option linter.unusedSectionVars false

section Dev
variable [Globals]

/-! ## 1. the function level of the generator -/

/-- the autoescape mode in force inside a template -/
def aeOf (ae nsAe : Autoescape) : Autoescape := if ae != .unspecified then ae else nsAe

/-- a `{template}` node in the scope `sc` of the file: its function, and the scope after it (only the counter moved) -/
def toTemplate (nsAe : Autoescape) (optional : Bool) : Cmd → Scope → Option (JsFunc × Scope)
  | .template _ name body ae _, sc =>
    match toBody (aeOf ae nsAe) sOutputVar body sc.push with
    | some r => some (⟨name, optional, r.1⟩, r.2.pop)
    | none => none
  | _, _ => none

/-- the template nodes of a file, each behind its soydoc comment -/
def toTop (nsAe : Autoescape) : List Cmd → Scope → Option (List JsFunc × Scope)
  | [], sc => some ([], sc)
  | .soyDoc _ params :: c :: rest, sc =>
    match toTemplate nsAe (allOptional (.soydoc params)) c sc with
    | some r1 =>
      (match toTop nsAe rest r1.2 with
        | some r2 => some (r1.1 :: r2.1, r2.2)
        | none => none)
    | none => none
  | _, _ => none

/-- the text of a function -/
def renderFunc (es6 : Bool) (ind : Nat) (f : JsFunc) : List Piece :=
  [.fixed (spaces ind), .fixed [10], .fixed (spaces ind), .header es6 f.name, .fixed [10]] ++
  (if f.optional then [.fixed (spaces (ind + 1)), .fixed b!"opt_data = opt_data || {};", .fixed [10]] else []) ++
  [.fixed (spaces (ind + 1)), .fixed b!"var output = '';", .fixed [10]] ++
  renderStmts es6 (ind + 1) f.body ++
  [.fixed (spaces (ind + 1)), .fixed b!"return output;", .fixed [10], .fixed (spaces ind), .fixed b!"};", .fixed [10]]

/-- `At`, and the node the walker stands on -/
def AtN (ind : Nat) (buf : Bytes) (ae : Autoescape) (sc : Scope) (tag : NodeTag) (s : St) : Prop :=
  At ind buf ae sc s ∧ s.node = tag

/-- `At` for some buffer name -/
def AtF (ind : Nat) (ae : Autoescape) (sc : Scope) (s : St) : Prop := ∃ buf, At ind buf ae sc s

section
variable (sk : List Bytes → List Bytes) (o : Options) [GlobalsAre o]
variable {ind : Nat} {buf : Bytes} {ae : Autoescape} {sc : Scope}

theorem Runs.atOtherSt {tag : NodeTag} {Q : St → Prop} {k : St → M Unit} {ps : List Piece}
    (h : ∀ s0, At ind buf ae sc s0 → s0.lastNode = tag → Runs (At ind buf ae sc) Q (k s0) ps) :
    Runs (AtN ind buf ae sc tag) Q (atOther >>= fun _ => getSt >>= k) ps := by
  intro s hs
  have h1 : At ind buf ae sc { s with lastNode := s.node, node := .other } := ⟨hs.1.1, hs.1.2.1, hs.1.2.2.1, hs.1.2.2.2⟩
  obtain ⟨s', h', hq⟩ := h _ h1 hs.2 _ h1
  refine ⟨s', ?_, hq⟩
  simp only [Bind.bind, M.bind, atOther, atNode, JsGen.modify, JsGen.getSt, h', List.nil_append]

theorem Runs.setAe (ae' : Autoescape) :
    Runs (At ind buf ae sc) (At ind buf ae' sc) (JsGen.modify fun s => { s with autoescape := ae' }) [] := by
  intro s hs
  exact ⟨_, rfl, hs.1, hs.2.1, rfl, hs.2.2.2⟩

theorem Runs.whenAe (ae' : Autoescape) :
    Runs (At ind buf ae sc) (At ind buf (aeOf ae' ae) sc)
      (JsGen.whenM (ae' != .unspecified) (JsGen.modify fun s => { s with autoescape := ae' })) [] := by
  unfold aeOf
  cases h : (ae' != .unspecified)
  · exact Runs.pure
  · exact Runs.setAe ae'

theorem Runs.addInFile (k : Bytes) : Runs (At ind buf ae sc) (At ind buf ae sc) (addInFile k) [] := by
  intro s hs
  exact ⟨_, rfl, hs.1, hs.2.1, hs.2.2.1, hs.2.2.2⟩

theorem Runs.soyDoc (p : Nat) (params : List SoyDocParam) :
    Runs (At ind buf ae sc) (AtN ind buf ae sc (.soydoc params)) (walkCmd sk o (.soyDoc p params)) [] := by
  sunfold walkCmd
  intro s hs
  exact ⟨_, rfl, ⟨hs.1, hs.2.1, hs.2.2.1, hs.2.2.2⟩, rfl⟩

/-- visitTemplate writes the function -/
theorem template_runs (p : Nat) (name : Bytes) (body : Block) (ae' : Autoescape) (x : Bool) (tag : NodeTag)
    (rb : JsStmts × Scope)
    (hb : Runs (At (ind + 1) sOutputVar (aeOf ae' ae) sc.push) (At (ind + 1) sOutputVar (aeOf ae' ae) rb.2)
      (walkBody sk o body) (renderStmts (isEs6 o) (ind + 1) rb.1)) :
    Runs (AtN ind buf ae sc tag) (At ind sOutputVar ae rb.2.pop) (walkCmd sk o (.template p name body ae' x))
      (renderFunc (isEs6 o) ind ⟨name, allOptional tag, rb.1⟩) := by
  sunfold walkCmd
  apply Runs.atOtherSt
  intro s0 hs0 hl
  have hae : s0.autoescape = ae := hs0.2.2.1
  rw [hl, hae]
  apply Runs.cast
  · exact Runs.seq (Runs.whenAe ae') (Runs.seq Runs.indentP (Runs.seq Runs.nl (Runs.seq Runs.indentP (Runs.seq (Runs.emit _)
      (Runs.seq Runs.nl (Runs.seq (Runs.addInFile _) (Runs.seq Runs.incIndent
      (Runs.seq (Runs.whenM _ (Runs.seq Runs.indentP (Runs.seq (Runs.fx _) Runs.nl)))
      (Runs.seq Runs.indentP (Runs.seq (Runs.fx _) (Runs.seq Runs.nl (Runs.seq (Runs.setBuf _) (Runs.seq Runs.pushScope
      (Runs.seq hb (Runs.seq Runs.indentP (Runs.seq (Runs.fx _) (Runs.seq Runs.nl (Runs.seq Runs.decIndent
      (Runs.seq Runs.indentP (Runs.seq (Runs.fx _) (Runs.seq Runs.nl (Runs.seq (Runs.setAe ae) Runs.popScope))))))))))))))))))))))
  · simp [renderFunc]

theorem Runs.post {P Q Q' : St → Prop} {m : M Unit} {ps : List Piece} (h : Runs P Q m ps) (hq : ∀ s, Q s → Q' s) :
    Runs P Q' m ps := fun s hs => let ⟨s', h1, h2⟩ := h s hs; ⟨s', h1, hq s' h2⟩

theorem toTemplate_some {nsAe : Autoescape} {x : Bool} {c : Cmd} {sc : Scope} {r : JsFunc × Scope}
    (h : toTemplate nsAe x c sc = some r) :
    ∃ p name body ae' y rb, c = .template p name body ae' y ∧ toBody (aeOf ae' nsAe) sOutputVar body sc.push = some rb ∧
      r = (⟨name, x, rb.1⟩, rb.2.pop) := by
  cases c <;> simp only [toTemplate, reduceCtorEq] at h
  rename_i p name body ae' y
  split at h
  · rename_i rb hrb
    simp only [Option.some.injEq] at h
    exact ⟨p, name, body, ae', y, rb, rfl, hrb, h.symm⟩
  · cases h

/-- PARTIAL (generator ↔ function AST): the walk over the soydoc / template nodes of a file writes exactly the
    functions of the translation, one after the other, and leaves the scope the translation computes -/
theorem walkTop_renders (ho : o.messages = none) (nsAe : Autoescape) : ∀ (cmds : List Cmd) (buf : Bytes) (sc : Scope) (r : List JsFunc × Scope),
    toTop nsAe cmds sc = some r →
    ∀ ind, Runs (At ind buf nsAe sc) (AtF ind nsAe r.2) (walkTop sk o cmds) (r.1.flatMap (renderFunc (isEs6 o) ind))
  | [], buf, sc, r, h, ind => by
    simp only [toTop, Option.some.injEq] at h; subst h
    unfold walkTop
    exact Runs.post Runs.pure (fun s hs => ⟨buf, hs⟩)
  | .soyDoc p params :: c :: rest, buf, sc, r, h, ind => by
    unfold toTop at h
    split at h
    · rename_i r1 h1
      split at h
      · rename_i r2 h2
        simp only [Option.some.injEq] at h; subst h
        obtain ⟨p', name, body, ae', y, rb, rfl, hrb, rfl⟩ := toTemplate_some h1
        unfold walkTop
        unfold walkTop
        have hb := walkBody_renders sk o (aeOf ae' nsAe) ho body sOutputVar sc.push rb hrb (ind + 1)
        have ht := template_runs sk o (buf := buf) p' name body ae' y (.soydoc params) rb hb
        exact (Runs.seq (Runs.soyDoc sk o p params) (Runs.seq ht (walkTop_renders ho nsAe rest sOutputVar _ r2 h2 ind))).cast
          (by simp)
      · cases h
    · cases h
  | [.soyDoc ..], _, _, _, h, _ => by simp [toTop] at h
  | .rawText .. :: _, _, _, _, h, _ => by simp [toTop] at h
  | .print .. :: _, _, _, _, h, _ => by simp [toTop] at h
  | .msg .. :: _, _, _, _, h, _ => by simp [toTop] at h
  | .css .. :: _, _, _, _, h, _ => by simp [toTop] at h
  | .debugger .. :: _, _, _, _, h, _ => by simp [toTop] at h
  | .log .. :: _, _, _, _, h, _ => by simp [toTop] at h
  | .ifc .. :: _, _, _, _, h, _ => by simp [toTop] at h
  | .switch .. :: _, _, _, _, h, _ => by simp [toTop] at h
  | .forc .. :: _, _, _, _, h, _ => by simp [toTop] at h
  | .call .. :: _, _, _, _, h, _ => by simp [toTop] at h
  | .letValue .. :: _, _, _, _, h, _ => by simp [toTop] at h
  | .letContent .. :: _, _, _, _, h, _ => by simp [toTop] at h
  | .headerParam .. :: _, _, _, _, h, _ => by simp [toTop] at h
  | .namespace .. :: _, _, _, _, h, _ => by simp [toTop] at h
  | .template .. :: _, _, _, _, h, _ => by simp [toTop] at h

/-! ### the file -/

theorem nsLoop_runs (name : Bytes) : ∀ (fuel i : Nat), ∃ ps, Runs (At ind buf ae sc) (At ind buf ae sc) (nsLoop name fuel i) ps
  | 0, _ => ⟨[], by unfold nsLoop; exact Runs.pure⟩
  | fuel + 1, i => by
    unfold nsLoop
    split
    · obtain ⟨ps, h⟩ := nsLoop_runs name fuel
        (match indexOfDot (name.drop (i + 1)) with
          | none => name.length
          | some j => j + (i + 1))
      exact ⟨_, Runs.seq Runs.indentP (Runs.seq (Runs.fx _) (Runs.seq (Runs.emit _) (Runs.seq (Runs.fx _) (Runs.seq (Runs.fx _)
        (Runs.seq (Runs.emit _) (Runs.seq (Runs.fx _) (Runs.seq Runs.nl h)))))))⟩
    · exact ⟨[], Runs.pure⟩

theorem namespace_runs (p : Nat) (name : Bytes) (ae' : Autoescape) :
    ∃ ps, Runs (At ind buf ae sc) (At ind buf ae' sc) (walkCmd sk o (.namespace p name ae')) ps := by
  obtain ⟨ps, h⟩ := nsLoop_runs (ind := ind) (buf := buf) (ae := ae') (sc := sc) name (name.length + 1) 0
  have hm : Runs (At ind buf ae sc) (At ind buf ae' sc) (JsGen.modify fun s => { s with ns := name, autoescape := ae' }) [] := by
    intro s hs
    exact ⟨_, rfl, hs.1, hs.2.1, rfl, hs.2.2.2⟩
  refine ⟨[] ++ ([] ++ ps), ?_⟩
  sunfold walkCmd
  exact Runs.seq Runs.atOther (Runs.seq hm h)

/-- a file: the namespace, then the templates behind their soydoc comments -/
def toFile (f : SoyFile) : Option (List JsFunc × Scope) :=
  match f.body with
  | .namespace _ _ ae :: rest => toTop ae rest ⟨[[]], 0⟩
  | _ => none

/-- PARTIAL (generator ↔ function AST, file level): what the generator model writes for a file of the fragment ENDS
    with the functions of the translation (before them: the two comment lines and the namespace declarations) -/
theorem visitSoyFile_renders (ho : o.messages = none) (f : SoyFile) (r : List JsFunc × Scope) (h : toFile f = some r) :
    ∃ pre s', visitSoyFile sk o f initState = .ok ((), pre ++ r.1.flatMap (renderFunc (isEs6 o) 0), s') ∧ s'.scope = r.2 := by
  unfold toFile at h
  split at h
  · rename_i p name ae' rest hbody
    obtain ⟨nps, hn⟩ := namespace_runs sk o (ind := 0) (buf := []) (ae := .unspecified) (sc := ⟨[[]], 0⟩) p name ae'
    have ht := walkTop_renders sk o ho ae' rest [] _ r h 0
    have hall : Runs (At 0 [] .unspecified ⟨[[]], 0⟩) (AtF 0 ae' r.2) (visitSoyFile sk o f)
        (([.fixed (spaces 0), .fixed b!"// This file was automatically generated from ", .comment (commentName f.name), .fixed b!".", .fixed [10],
          .fixed (spaces 0), .fixed b!"// Please don't edit this file by hand.", .fixed [10], .fixed (spaces 0), .fixed [10]] ++ nps) ++
          r.1.flatMap (renderFunc (isEs6 o) 0)) := by
      unfold visitSoyFile
      rw [hbody]
      unfold walkTop
      refine Runs.cast (?_ : Runs _ _ _ ([] ++ ([.fixed (spaces 0)] ++ ([.fixed b!"// This file was automatically generated from "] ++
        ([.comment (commentName f.name)] ++ ([.fixed b!"."] ++ ([.fixed [10]] ++ ([.fixed (spaces 0)] ++
        ([.fixed b!"// Please don't edit this file by hand."] ++ ([.fixed [10]] ++ ([.fixed (spaces 0)] ++ ([.fixed [10]] ++
        (nps ++ r.1.flatMap (renderFunc (isEs6 o) 0)))))))))))))) (by simp)
      exact Runs.seq Runs.atOther (Runs.seq Runs.indentP (Runs.seq (Runs.fx _) (Runs.seq (Runs.emit _) (Runs.seq (Runs.fx _)
        (Runs.seq Runs.nl (Runs.seq Runs.indentP (Runs.seq (Runs.fx _) (Runs.seq Runs.nl (Runs.seq Runs.indentP (Runs.seq Runs.nl
        (Runs.seq hn ht)))))))))))
    obtain ⟨s', h1, b, h2⟩ := hall initState ⟨rfl, rfl, rfl, rfl⟩
    exact ⟨_, s', h1, h2.2.2.2⟩
  · cases h

end

/-! ## 2. / 3. calls through the table, and the registry

  `callFn F table fuel d` (Spec/JsStmt) is the generated program: the functions of the table calling one another.
  `TableOk`: under each name the table holds the translation of the body of the registry's template of that name,
  made in some scope without bindings (any counter: `toFile` makes them with the counter running through the file).
  `calls_table_correct`: the table's calls satisfy the hypotheses `CallRel` / `CallRelE` of the statement theorems
  against the reference `refCall` (induction on the call depth); `refCall_le`: on templates without print
  directives, and soy.$$escapeHtml read as `htmlEscape ∘ ToString`, `refCall` renders only what Spec/Eval.renderTmpl
  renders.  Together: the registry theorems, in which no callee oracle is left. -/

section
variable (F : Bytes → List Expr → JVal → JOut) (reg : Registry.Reg) (table : List JsFunc) (fuel : Nat)

/-- NAMED HYPOTHESIS: the table holds, under each name, the translated body of the registry's template of that name -/
def TableOk : Prop :=
  ∀ (name : Bytes) (f : JsFunc), table.find? (fun f => f.name == name) = some f →
    ∃ t sc rb, Registry.lookup reg name = some t ∧ ScOk sc ∧ (∀ k, sc.lookup k = none) ∧ GoodBuf sc sOutputVar ∧
      toBody (tmplAe t) sOutputVar t.body sc = some rb ∧ f.body = rb.1

theorem defaultData_obj (x : Bool) (kvs : List (Bytes × JVal)) : defaultData x (.obj kvs) = .obj kvs := by
  simp [defaultData, toBoolean]

theorem toBody_cmds {ae : Autoescape} {buf : Bytes} {b : Block} {sc : Scope} {rb : JsStmts × Scope}
    (h : toBody ae buf b sc = some rb) : toCmds ae buf (blockCmds b) sc = some rb := by
  cases b with
  | mk p cmds => unfold toBody at h; exact h

/-- the functions of the table and the reference's call agree at every depth -/
theorem calls_table_correct (htab : TableOk reg table) : ∀ (d : Nat) (e : Spec.Eval.Binds),
    CallRel (callFn F table fuel d) ⟨reg, e, refCall F reg d⟩ ∧ CallRelE (callFn F table fuel d) ⟨reg, e, refCall F reg d⟩
  | 0, e => ⟨fun _ _ _ _ _ _ _ _ h => by simp [callFn] at h, fun _ _ _ _ _ _ _ h => by simp [callFn] at h⟩
  | d + 1, e => by
    have ih := calls_table_correct htab d
    refine ⟨?_, ?_⟩
    · intro name ce jd jij r hj hij hgl hg
      simp only [callFn] at hg
      cases hf : table.find? (fun f => f.name == name) with
      | none => simp [hf] at hg
      | some f =>
        obtain ⟨t, sc, rb, hlk, hs, hsc, hgb, hrb, hfb⟩ := htab name f hf
        simp only [hf, defaultData_obj, hfb] at hg
        have hrel : EnvRel ce.entry sc { vars := ce.entry, loops := [], ij := ce.ij, globals := ce.globals }
            ⟨jd, jij, [(sOutputVar, .str [])]⟩ :=
          C04c.envRel_params sc { vars := ce.entry, loops := [], ij := ce.ij, globals := ce.globals } _ hsc hj hij hgl
        split at hg
        · rename_i jenv' hx
          obtain ⟨text, ht, hb, _⟩ := cmds_ok F (callFn F table fuel d) ⟨reg, ce.entry, refCall F reg d⟩ (tmplAe t) (ih ce.entry).1
            (blockCmds t.body) sOutputVar fuel sc rb _ _ jenv' [] (toBody_cmds hrb) hs hgb hrel (by simp [BufIs]) hx
          unfold BufIs at hb
          rw [hb] at hg
          simp only [List.nil_append, JOut.val.injEq] at hg
          exact ⟨t, text, hlk, ht, hg.symm⟩
        · cases hg
        · cases hg
    · intro name ce jd jij hj hij hgl hg callee out hlk
      simp only [callFn] at hg
      cases hf : table.find? (fun f => f.name == name) with
      | none => simp [hf] at hg
      | some f =>
        obtain ⟨t, sc, rb, hlk', hs, hsc, hgb, hrb, hfb⟩ := htab name f hf
        have ht : t = callee := by
          have : Registry.lookup ({ reg := reg, entry := e, call := refCall F reg (d + 1) } : RefCtx).reg name = some t := hlk'
          rw [hlk] at this
          exact (Option.some.inj this).symm
        subst ht
        simp only [hf, defaultData_obj, hfb] at hg
        have hrel : EnvRel ce.entry sc { vars := ce.entry, loops := [], ij := ce.ij, globals := ce.globals }
            ⟨jd, jij, [(sOutputVar, .str [])]⟩ :=
          C04c.envRel_params sc { vars := ce.entry, loops := [], ij := ce.ij, globals := ce.globals } _ hsc hj hij hgl
        split at hg
        · split at hg <;> cases hg
        · rename_i hx
          intro hc
          exact gen_no_throw_cmds_partial F (callFn F table fuel d) ⟨reg, ce.entry, refCall F reg d⟩ (tmplAe t) sOutputVar
            (ih ce.entry).1 (ih ce.entry).2 (blockCmds t.body) sc rb (toBody_cmds hrb) _ _ [] hs hgb hrel (by simp [BufIs]) out hc fuel hx
        · cases hg

theorem mem_of_lookup {name : Bytes} {t : Registry.Tmpl} (h : Registry.lookup reg name = some t) : t ∈ reg :=
  List.mem_of_find?_eq_some h

/-- the link between the two prints that the theorems against Spec/Eval take as a hypothesis: on the directive lists
    `ok` accepts, in every autoescape mode, the reference's print (`refPrint`: the Go directive loop over the JSON image,
    the library functions `F`) renders only what Spec/Eval's print (`specPrint`, library semantics `dsem`) renders.
    `print_le_noDirs`: holds for `noDirs` and every `dsem` under `EscapeHtmlIs`; Props/C04g `printLe_dirs`: for the
    directive lists of the generator's table under the hypotheses `DirIs` on the soyutils functions. -/
def PrintLe (ok : List Directive → Bool) (dsem : Option Spec.Eval.LibSem) : Prop :=
  ∀ (ae : Autoescape) (dirs : List Directive) (env : SEnv) (v : Val) (s : Bytes), ok dirs = true →
    refPrint F ae dirs v = .val s → specPrint dsem (ae != .off) env dirs v = .val s

theorem printLe_noDirs (hesc : EscapeHtmlIs F) (dsem : Option Spec.Eval.LibSem) : PrintLe F noDirs dsem :=
  fun ae dirs env v s hd h => print_le_noDirs F ae hesc dsem dirs env v s hd h

/-- on templates whose prints carry directive lists `ok` accepts, the reference's call renders only what
    Spec/Eval.renderTmpl (library semantics `dsem`) renders -/
theorem refCall_le_dirs (hesc : EscapeHtmlIs F) (ok : List Directive → Bool) (dsem : Option Spec.Eval.LibSem)
    (hle : PrintLe F ok dsem) (hasBundle : Bool) (hplain : ∀ t ∈ reg, dirBlock ok hasBundle t.body = true) :
    ∀ (d : Nat) (name : Bytes) (t : Registry.Tmpl) (ce : Spec.Eval.CallEnv) (out : Bytes), Registry.lookup reg name = some t →
      refCall F reg d t ce = .val out → Spec.Eval.renderTmpl reg hasBundle dsem d t ce = .val out
  | 0, _, _, _, _, _, h => by simp [refCall] at h
  | d + 1, name, t, ce, out, hl, h => by
    simp only [refCall] at h
    rw [Spec.Eval.renderTmpl]
    have hb : refBlock F ⟨reg, ce.entry, refCall F reg d⟩ (tmplAe t) t.body
        { vars := ce.entry, loops := [], ij := ce.ij, globals := ce.globals } = .val out := by
      cases hbody : t.body with
      | mk p cmds => rw [hbody] at h; simpa [refBlock, blockCmds] using h
    exact ref_le_spec_block F (tmplAe t) hesc reg hasBundle ce.entry (refCall F reg d) (Spec.Eval.renderTmpl reg hasBundle dsem d)
      ok dsem (hle (tmplAe t))
      (fun name t ce out hl h => refCall_le_dirs hesc ok dsem hle hasBundle hplain d name t ce out hl h) t.body _ out
      (hplain t (mem_of_lookup reg hl)) hb

/-- on directive-free templates the reference's call renders only what Spec/Eval.renderTmpl renders -/
theorem refCall_le (hesc : EscapeHtmlIs F) (hasBundle : Bool) (hplain : ∀ t ∈ reg, plainBlock hasBundle t.body = true) :
    ∀ (d : Nat) (name : Bytes) (t : Registry.Tmpl) (ce : Spec.Eval.CallEnv) (out : Bytes), Registry.lookup reg name = some t →
      refCall F reg d t ce = .val out → Spec.Eval.renderTmpl reg hasBundle none d t ce = .val out :=
  refCall_le_dirs F reg hesc noDirs none (printLe_noDirs F hesc none) hasBundle hplain

/-- PARTIAL (C04, a whole registry).  `table`: the generated functions (`TableOk`); every template without print
    directives (`hplain`), soy.$$escapeHtml read as `htmlEscape ∘ ToString` (`hesc`, a library obligation).  When
    the generated function `name`, called on the JSON image of `data` — its calls served by the table, to depth `d`
    — returns `r`, then Spec/Eval.render renders the template `name` on `data` (same depth), and `r` is this text. -/
theorem gen_correct_registry_partial (hesc : EscapeHtmlIs F) (msgs : Bool) (hplain : ∀ t ∈ reg, plainBlock msgs t.body = true)
    (htab : TableOk reg table) (globals : Spec.Eval.Binds) (ij : Option Spec.Eval.Binds) (name : Bytes)
    (data : Spec.Eval.Binds) (jd : List (Bytes × JVal)) (hj : C04c.toJsKvs data = some jd)
    (jij : Option (List (Bytes × JVal))) (hij : IjRel ij jij) (hgl : GlobRel globals) (d : Nat) (r : JVal)
    (hx : callFn F table fuel d name (.obj jd) jij = .val r) :
    ∃ text, Spec.Eval.render reg globals ij msgs name data d = .val text ∧ r = .str text := by
  obtain ⟨callee, out, hlk, hc, rfl⟩ :=
    (calls_table_correct F reg table fuel htab d data).1 name ⟨data, ij, globals⟩ jd jij r hj hij hgl hx
  refine ⟨out, ?_, rfl⟩
  have hlk' : Registry.lookup reg name = some callee := hlk
  simp only [Spec.Eval.render, hlk']
  exact refCall_le F reg hesc msgs hplain d name callee _ out hlk' hc

/-- PARTIAL (C04, a whole registry, prints WITH directives).  As `gen_correct_registry_partial`, for templates whose
    prints carry the directive lists `ok` accepts, against Spec/Eval.render with the library semantics `dsem` —
    relative to `PrintLe F ok dsem` (the two prints agree on these lists; Props/C04g derives it from one named
    hypothesis per soyutils function). -/
theorem gen_correct_registry_dirs_partial (hesc : EscapeHtmlIs F) (ok : List Directive → Bool) (dsem : Option Spec.Eval.LibSem)
    (hle : PrintLe F ok dsem) (msgs : Bool) (hplain : ∀ t ∈ reg, dirBlock ok msgs t.body = true)
    (htab : TableOk reg table) (globals : Spec.Eval.Binds) (ij : Option Spec.Eval.Binds) (name : Bytes)
    (data : Spec.Eval.Binds) (jd : List (Bytes × JVal)) (hj : C04c.toJsKvs data = some jd)
    (jij : Option (List (Bytes × JVal))) (hij : IjRel ij jij) (hgl : GlobRel globals) (d : Nat) (r : JVal)
    (hx : callFn F table fuel d name (.obj jd) jij = .val r) :
    ∃ text, Spec.Eval.render reg globals ij msgs name data d dsem = .val text ∧ r = .str text := by
  obtain ⟨callee, out, hlk, hc, rfl⟩ :=
    (calls_table_correct F reg table fuel htab d data).1 name ⟨data, ij, globals⟩ jd jij r hj hij hgl hx
  refine ⟨out, ?_, rfl⟩
  have hlk' : Registry.lookup reg name = some callee := hlk
  simp only [Spec.Eval.render, hlk']
  exact refCall_le_dirs F reg hesc ok dsem hle msgs hplain d name callee _ out hlk' hc

/-- the same for a list of commands met inside a template: `gen_correct_cmds_spec` with the table for the oracle and
    Spec/Eval.renderTmpl for the call -/
theorem gen_correct_registry_cmds_partial (hesc : EscapeHtmlIs F) (hasBundle : Bool)
    (hplain : ∀ t ∈ reg, plainBlock hasBundle t.body = true) (htab : TableOk reg table) (d : Nat) (ae : Autoescape) (buf : Bytes) (entry : Spec.Eval.Binds)
    (cmds : CmdList) (hpl : plainCmds hasBundle cmds = true) (sc : Scope) (r : JsStmts × Scope) (h : toCmds ae buf cmds sc = some r)
    (env : SEnv) (jenv jenv' : JEnv) (out : Bytes) (hs : ScOk sc) (hg : GoodBuf sc buf) (hrel : EnvRel entry sc env jenv)
    (hb : BufIs buf jenv out) (fuel' : Nat) (hx : execStmts F (callFn F table fuel d) fuel' r.1 jenv = .ok jenv') :
    ∃ text, Spec.Eval.renderCmds reg hasBundle (ae != .off) entry (Spec.Eval.renderTmpl reg hasBundle none d) none cmds env = .val text ∧
      BufIs buf jenv' (out ++ text) := by
  obtain ⟨text, ht, hb', _⟩ := cmds_ok F (callFn F table fuel d) ⟨reg, entry, refCall F reg d⟩ ae
    (calls_table_correct F reg table fuel htab d entry).1 cmds buf fuel' sc r env jenv jenv' out h hs hg hrel hb hx
  exact ⟨text, ref_le_spec_cmds F ae hesc reg hasBundle entry (refCall F reg d) (Spec.Eval.renderTmpl reg hasBundle none d)
    noDirs none (print_le_noDirs F ae hesc none)
    (fun name t ce out hl h => refCall_le F reg hesc hasBundle hplain d name t ce out hl h) cmds env text hpl ht, hb'⟩

/-- … and with directives: `gen_correct_registry_cmds_partial` relative to `PrintLe F ok dsem` -/
theorem gen_correct_registry_cmds_dirs_partial (hesc : EscapeHtmlIs F) (ok : List Directive → Bool) (dsem : Option Spec.Eval.LibSem)
    (hle : PrintLe F ok dsem) (hasBundle : Bool)
    (hplain : ∀ t ∈ reg, dirBlock ok hasBundle t.body = true) (htab : TableOk reg table) (d : Nat) (ae : Autoescape) (buf : Bytes) (entry : Spec.Eval.Binds)
    (cmds : CmdList) (hpl : dirCmds ok hasBundle cmds = true) (sc : Scope) (r : JsStmts × Scope) (h : toCmds ae buf cmds sc = some r)
    (env : SEnv) (jenv jenv' : JEnv) (out : Bytes) (hs : ScOk sc) (hg : GoodBuf sc buf) (hrel : EnvRel entry sc env jenv)
    (hb : BufIs buf jenv out) (fuel' : Nat) (hx : execStmts F (callFn F table fuel d) fuel' r.1 jenv = .ok jenv') :
    ∃ text, Spec.Eval.renderCmds reg hasBundle (ae != .off) entry (Spec.Eval.renderTmpl reg hasBundle dsem d) dsem cmds env = .val text ∧
      BufIs buf jenv' (out ++ text) := by
  obtain ⟨text, ht, hb', _⟩ := cmds_ok F (callFn F table fuel d) ⟨reg, entry, refCall F reg d⟩ ae
    (calls_table_correct F reg table fuel htab d entry).1 cmds buf fuel' sc r env jenv jenv' out h hs hg hrel hb hx
  exact ⟨text, ref_le_spec_cmds F ae hesc reg hasBundle entry (refCall F reg d) (Spec.Eval.renderTmpl reg hasBundle dsem d)
    ok dsem (hle ae)
    (fun name t ce out hl h => refCall_le_dirs F reg hesc ok dsem hle hasBundle hplain d name t ce out hl h) cmds env text hpl ht, hb'⟩

/-- PARTIAL (C04, a whole registry, the converse — at the level of the reference semantics): where the reference
    renders the template `name` on `data` (calls to depth `d`), the generated function returns this text or leaves
    the common subset (`unspec`); it does not throw -/
theorem gen_complete_registry_partial (htab : TableOk reg table) (name : Bytes) (t : Registry.Tmpl)
    (hlk : Registry.lookup reg name = some t) (ce : Spec.Eval.CallEnv) (jd : List (Bytes × JVal))
    (hj : C04c.toJsKvs ce.entry = some jd) (jij : Option (List (Bytes × JVal))) (hij : IjRel ce.ij jij)
    (hgl : GlobRel ce.globals) (d : Nat) (text : Bytes) (ht : refCall F reg d t ce = .val text) :
    callFn F table fuel d name (.obj jd) jij = .val (.str text) ∨ callFn F table fuel d name (.obj jd) jij = .unspec := by
  obtain ⟨h1, h2⟩ := calls_table_correct F reg table fuel htab d ce.entry
  cases hx : callFn F table fuel d name (.obj jd) jij with
  | val r =>
    obtain ⟨callee, out, hlk', hc, rfl⟩ := h1 name ce jd jij r hj hij hgl hx
    have : callee = t := by
      have e1 : Registry.lookup reg name = some callee := hlk'
      rw [hlk] at e1; exact (Option.some.inj e1).symm
    subst this
    have e2 : refCall F reg d callee ce = .val out := hc
    rw [ht] at e2
    simp only [Out.val.injEq] at e2
    subst e2
    exact Or.inl rfl
  | error => exact absurd ht (h2 name ce jd jij hj hij hgl hx t text hlk)
  | unspec => exact Or.inr rfl

/-- the mirror of `PrintLe`: on the directive lists `ok` accepts, the reference's print renders what Spec/Eval's print
    (library semantics `dsem`) renders.  `printGe_noDirs`: holds for `noDirs` under `EscapeHtmlIs`; Props/C04h
    `printGe_dirsIn`: for the directive lists of the generator's table under the equational obligations `DirEq`. -/
def PrintGe (ok : List Directive → Bool) (dsem : Option Spec.Eval.LibSem) : Prop :=
  ∀ (ae : Autoescape) (dirs : List Directive) (env : SEnv) (v : Val) (s : Bytes), ok dirs = true →
    specPrint dsem (ae != .off) env dirs v = .val s → refPrint F ae dirs v = .val s

theorem printGe_noDirs (hesc : EscapeHtmlIs F) (dsem : Option Spec.Eval.LibSem) : PrintGe F noDirs dsem :=
  fun ae dirs env v s hd h => print_ge_noDirs F ae hesc dsem dirs env v s hd h

/-- … and conversely: the reference's call renders everything Spec/Eval.renderTmpl (library semantics `dsem`) renders,
    on templates whose prints carry directive lists `ok` accepts (`spec_le_ref_block`: the reference's print falls back
    to Spec/Eval's where the JSON image is silent) -/
theorem renderTmpl_le_dirs (hesc : EscapeHtmlIs F) (ok : List Directive → Bool) (dsem : Option Spec.Eval.LibSem)
    (hge : PrintGe F ok dsem) (hasBundle : Bool) (hplain : ∀ t ∈ reg, dirBlock ok hasBundle t.body = true) :
    ∀ (d : Nat) (name : Bytes) (t : Registry.Tmpl) (ce : Spec.Eval.CallEnv) (out : Bytes), Registry.lookup reg name = some t →
      Spec.Eval.renderTmpl reg hasBundle dsem d t ce = .val out → refCall F reg d t ce = .val out
  | 0, _, _, _, _, _, h => by simp [Spec.Eval.renderTmpl] at h
  | d + 1, name, t, ce, out, hl, h => by
    rw [Spec.Eval.renderTmpl] at h
    simp only [refCall]
    have hb := spec_le_ref_block F (tmplAe t) hesc reg hasBundle ce.entry (refCall F reg d) (Spec.Eval.renderTmpl reg hasBundle dsem d)
      ok dsem (hge (tmplAe t))
      (fun name t ce out hl h => renderTmpl_le_dirs hesc ok dsem hge hasBundle hplain d name t ce out hl h) t.body _ out
      (hplain t (mem_of_lookup reg hl)) h
    cases hbody : t.body with
    | mk p cmds => rw [hbody] at hb; simpa [refBlock, blockCmds] using hb

theorem renderTmpl_le (hesc : EscapeHtmlIs F) (hasBundle : Bool) (hplain : ∀ t ∈ reg, plainBlock hasBundle t.body = true) :
    ∀ (d : Nat) (name : Bytes) (t : Registry.Tmpl) (ce : Spec.Eval.CallEnv) (out : Bytes), Registry.lookup reg name = some t →
      Spec.Eval.renderTmpl reg hasBundle none d t ce = .val out → refCall F reg d t ce = .val out :=
  renderTmpl_le_dirs F reg hesc noDirs none (printGe_noDirs F hesc none) hasBundle hplain

/-- where a generated function throws, Spec/Eval (library semantics `dsem`) does not render -/
theorem calls_table_throw_dirs (hesc : EscapeHtmlIs F) (ok : List Directive → Bool) (dsem : Option Spec.Eval.LibSem)
    (hge : PrintGe F ok dsem) (hasBundle : Bool) (hplain : ∀ t ∈ reg, dirBlock ok hasBundle t.body = true)
    (htab : TableOk reg table) (d : Nat) (e : Spec.Eval.Binds) :
    CallRelE (callFn F table fuel d) ⟨reg, e, Spec.Eval.renderTmpl reg hasBundle dsem d⟩ := by
  intro name ce jd jij hj hij hgl hg callee out hlk hc
  have hlk' : Registry.lookup reg name = some callee := hlk
  exact (calls_table_correct F reg table fuel htab d e).2 name ce jd jij hj hij hgl hg callee out hlk
    (renderTmpl_le_dirs F reg hesc ok dsem hge hasBundle hplain d name callee ce out hlk' hc)

/-- where a generated function throws, Spec/Eval does not render: `CallRelE` against Spec/Eval.renderTmpl itself -/
theorem calls_table_throw (hesc : EscapeHtmlIs F) (hasBundle : Bool) (hplain : ∀ t ∈ reg, plainBlock hasBundle t.body = true)
    (htab : TableOk reg table) (d : Nat) (e : Spec.Eval.Binds) :
    CallRelE (callFn F table fuel d) ⟨reg, e, Spec.Eval.renderTmpl reg hasBundle none d⟩ :=
  calls_table_throw_dirs F reg table fuel hesc noDirs none (printGe_noDirs F hesc none) hasBundle hplain htab d e

/-- PARTIAL (C04, a whole registry, the converse against Spec/Eval.render, prints WITH directives).  Relative to
    `PrintLe` and `PrintGe` (the two prints agree on the directive lists `ok` accepts): where Spec/Eval.render with the
    library semantics `dsem` renders the template `name` on `data`, the generated function — called on the JSON image of
    the data, its calls served by the table to the same depth — returns exactly this text or leaves the common subset
    (`unspec`); it does NOT throw. -/
theorem gen_complete_registry_spec_dirs_partial (hesc : EscapeHtmlIs F) (ok : List Directive → Bool) (dsem : Option Spec.Eval.LibSem)
    (hle : PrintLe F ok dsem) (hge : PrintGe F ok dsem) (msgs : Bool)
    (hplain : ∀ t ∈ reg, dirBlock ok msgs t.body = true)
    (htab : TableOk reg table) (globals : Spec.Eval.Binds) (ij : Option Spec.Eval.Binds) (name : Bytes)
    (data : Spec.Eval.Binds) (jd : List (Bytes × JVal)) (hj : C04c.toJsKvs data = some jd)
    (jij : Option (List (Bytes × JVal))) (hij : IjRel ij jij) (hgl : GlobRel globals) (d : Nat)
    (text : Bytes) (ht : Spec.Eval.render reg globals ij msgs name data d dsem = .val text) :
    callFn F table fuel d name (.obj jd) jij = .val (.str text) ∨ callFn F table fuel d name (.obj jd) jij = .unspec := by
  cases hx : callFn F table fuel d name (.obj jd) jij with
  | val r =>
    obtain ⟨text', ht', rfl⟩ :=
      gen_correct_registry_dirs_partial F reg table fuel hesc ok dsem hle msgs hplain htab globals ij name data jd hj jij hij hgl d r hx
    rw [ht] at ht'
    simp only [Out.val.injEq] at ht'
    subst ht'
    exact Or.inl rfl
  | error =>
    exfalso
    simp only [Spec.Eval.render] at ht
    cases hlk : Registry.lookup reg name with
    | none => simp [hlk] at ht
    | some t =>
      simp only [hlk] at ht
      exact calls_table_throw_dirs F reg table fuel hesc ok dsem hge msgs hplain htab d data name ⟨data, ij, globals⟩ jd jij hj hij hgl hx
        t text hlk ht
  | unspec => exact Or.inr rfl

/-- PARTIAL (C04, a whole registry, the converse against Spec/Eval.render itself).  Same hypotheses as
    `gen_correct_registry_partial` (`TableOk`, no print directives, `EscapeHtmlIs`): where Spec/Eval.render renders the
    template `name` on `data`, the generated function — called on the JSON image of the data, its calls served by the
    table to the same depth — returns exactly this text or leaves the common subset (`unspec`: a print of a list or a
    map, an integer beyond 2^53, the loop bound); it does NOT throw. -/
theorem gen_complete_registry_spec_partial (hesc : EscapeHtmlIs F) (msgs : Bool)
    (hplain : ∀ t ∈ reg, plainBlock msgs t.body = true)
    (htab : TableOk reg table) (globals : Spec.Eval.Binds) (ij : Option Spec.Eval.Binds) (name : Bytes)
    (data : Spec.Eval.Binds) (jd : List (Bytes × JVal)) (hj : C04c.toJsKvs data = some jd)
    (jij : Option (List (Bytes × JVal))) (hij : IjRel ij jij) (hgl : GlobRel globals) (d : Nat)
    (text : Bytes) (ht : Spec.Eval.render reg globals ij msgs name data d = .val text) :
    callFn F table fuel d name (.obj jd) jij = .val (.str text) ∨ callFn F table fuel d name (.obj jd) jij = .unspec := by
  cases hx : callFn F table fuel d name (.obj jd) jij with
  | val r =>
    obtain ⟨text', ht', rfl⟩ :=
      gen_correct_registry_partial F reg table fuel hesc msgs hplain htab globals ij name data jd hj jij hij hgl d r hx
    rw [ht] at ht'
    simp only [Out.val.injEq] at ht'
    subst ht'
    exact Or.inl rfl
  | error =>
    exfalso
    simp only [Spec.Eval.render] at ht
    cases hlk : Registry.lookup reg name with
    | none => simp [hlk] at ht
    | some t =>
      simp only [hlk] at ht
      exact calls_table_throw F reg table fuel hesc msgs hplain htab d data name ⟨data, ij, globals⟩ jd jij hj hij hgl hx t text hlk ht
  | unspec => exact Or.inr rfl

/-- STATEMENT LEVEL, the converse with directives (relative to `PrintGe`): a list of commands met inside a template
    of the registry.  Where Spec/Eval.renderCmds (library semantics `dsem`, calls rendered by Spec/Eval.renderTmpl to depth
    `d`) renders the commands to `t`, running the generated statements — calls served by the table of the generated
    functions — COMPLETES with the buffer holding its old content followed by exactly `t`, or leaves the common subset
    (`unspec`); it never throws. -/
theorem gen_complete_registry_cmds_dirs_partial (hesc : EscapeHtmlIs F) (ok : List Directive → Bool) (dsem : Option Spec.Eval.LibSem)
    (hge : PrintGe F ok dsem) (hasBundle : Bool)
    (hplain : ∀ t ∈ reg, dirBlock ok hasBundle t.body = true) (htab : TableOk reg table) (d : Nat) (ae : Autoescape) (buf : Bytes)
    (entry : Spec.Eval.Binds) (cmds : CmdList) (hpl : dirCmds ok hasBundle cmds = true) (sc : Scope) (r : JsStmts × Scope)
    (h : toCmds ae buf cmds sc = some r) (env : SEnv) (jenv : JEnv) (out : Bytes) (hs : ScOk sc) (hg : GoodBuf sc buf)
    (hrel : EnvRel entry sc env jenv) (hb : BufIs buf jenv out) (t : Bytes)
    (ht : Spec.Eval.renderCmds reg hasBundle (ae != .off) entry (Spec.Eval.renderTmpl reg hasBundle dsem d) dsem cmds env = .val t)
    (fuel' : Nat) :
    (∃ jenv', execStmts F (callFn F table fuel d) fuel' r.1 jenv = .ok jenv' ∧ BufIs buf jenv' (out ++ t)) ∨
      execStmts F (callFn F table fuel d) fuel' r.1 jenv = .unspec := by
  have href : refCmds F ⟨reg, entry, refCall F reg d⟩ ae cmds env = .val t :=
    spec_le_ref_cmds F ae hesc reg hasBundle entry (refCall F reg d) (Spec.Eval.renderTmpl reg hasBundle dsem d) ok dsem (hge ae)
      (fun name t ce out hl h => renderTmpl_le_dirs F reg hesc ok dsem hge hasBundle hplain d name t ce out hl h) cmds env t hpl ht
  exact gen_complete_cmds_partial F (callFn F table fuel d) ⟨reg, entry, refCall F reg d⟩ ae buf
    (calls_table_correct F reg table fuel htab d entry).1 (calls_table_correct F reg table fuel htab d entry).2
    cmds sc r h env jenv out hs hg hrel hb t href fuel'

end

/-! ### `TableOk` for the functions of a file -/

/-- the registry entries of the template nodes of a file (name, body and autoescape modes; the rest plays no part) -/
def regOfTop (nsAe : Autoescape) : List Cmd → Registry.Reg
  | .soyDoc _ _ :: .template _ name body ae _ :: rest =>
    { (default : Registry.Tmpl) with name := name, body := body, autoescape := ae, nsAutoescape := nsAe } :: regOfTop nsAe rest
  | _ => []

theorem fileScope_facts {sc : Scope} (h : sc.stack = [[]]) :
    ScOk sc.push ∧ (∀ k, sc.push.lookup k = none) ∧ GoodBuf sc.push sOutputVar := by
  have hb : Bounded sc := by
    intro f hf kv hkv
    rw [h] at hf
    simp only [List.mem_singleton] at hf
    subst hf
    cases hkv
  refine ⟨scOk_push hb, ?_, old_plain _ (by decide), ?_⟩
  · intro k
    simp [Scope.lookup, Scope.push, h, Scope.lookupIn, frameGet?]
  · intro f hf kv hkv
    simp only [Scope.push, h, List.mem_cons, List.mem_singleton, List.not_mem_nil, or_false] at hf
    rcases hf with rfl | rfl <;> cases hkv

/-- the functions `toTop` makes of the template nodes of a file are a table for the registry of these nodes -/
theorem tableOk_of_toTop (nsAe : Autoescape) : ∀ (cmds : List Cmd) (sc : Scope) (r : List JsFunc × Scope),
    toTop nsAe cmds sc = some r → sc.stack = [[]] → TableOk (regOfTop nsAe cmds) r.1
  | [], sc, r, h, _ => by
    simp only [toTop, Option.some.injEq] at h; subst h
    intro name f hf
    simp at hf
  | .soyDoc p params :: c :: rest, sc, r, h, hst => by
    unfold toTop at h
    split at h
    · rename_i r1 h1
      split at h
      · rename_i r2 h2
        simp only [Option.some.injEq] at h; subst h
        obtain ⟨p', name, body, ae', y, rb, rfl, hrb, rfl⟩ := toTemplate_some h1
        obtain ⟨hs, hlook, hgb⟩ := fileScope_facts hst
        obtain ⟨_, b2, _⟩ := toBody_scope (aeOf ae' nsAe) body sOutputVar sc.push rb hrb hs
        have hst' : rb.2.pop.stack = [[]] := by
          simp only [Scope.pop]; rw [b2]; simp [Scope.push, hst]
        have ih := tableOk_of_toTop nsAe rest rb.2.pop r2 h2 hst'
        intro name0 f hf
        simp only [List.find?_cons] at hf
        by_cases hn : (name == name0) = true
        · simp only [hn] at hf
          simp only [Option.some.injEq] at hf; subst hf
          refine ⟨{ (default : Registry.Tmpl) with name := name, body := body, autoescape := ae', nsAutoescape := nsAe },
            sc.push, rb, ?_, hs, hlook, hgb, hrb, rfl⟩
          simp [regOfTop, Registry.lookup, List.find?_cons, hn]
        · have hn' : (name == name0) = false := by simpa using hn
          simp only [hn'] at hf
          obtain ⟨t, sc1, rb1, hlk, rest'⟩ := ih name0 f hf
          refine ⟨t, sc1, rb1, ?_, rest'⟩
          simpa [regOfTop, Registry.lookup, List.find?_cons, hn'] using hlk
      · cases h
    · cases h
  | [.soyDoc ..], _, _, h, _ => by simp [toTop] at h
  | .rawText .. :: _, _, _, h, _ => by simp [toTop] at h
  | .print .. :: _, _, _, h, _ => by simp [toTop] at h
  | .msg .. :: _, _, _, h, _ => by simp [toTop] at h
  | .css .. :: _, _, _, h, _ => by simp [toTop] at h
  | .debugger .. :: _, _, _, h, _ => by simp [toTop] at h
  | .log .. :: _, _, _, h, _ => by simp [toTop] at h
  | .ifc .. :: _, _, _, h, _ => by simp [toTop] at h
  | .switch .. :: _, _, _, h, _ => by simp [toTop] at h
  | .forc .. :: _, _, _, h, _ => by simp [toTop] at h
  | .call .. :: _, _, _, h, _ => by simp [toTop] at h
  | .letValue .. :: _, _, _, h, _ => by simp [toTop] at h
  | .letContent .. :: _, _, _, h, _ => by simp [toTop] at h
  | .headerParam .. :: _, _, _, h, _ => by simp [toTop] at h
  | .namespace .. :: _, _, _, h, _ => by simp [toTop] at h
  | .template .. :: _, _, _, h, _ => by simp [toTop] at h

/-- the registry of a file -/
def regOfFile (f : SoyFile) : Registry.Reg :=
  match f.body with
  | .namespace _ _ ae :: rest => regOfTop ae rest
  | _ => []

/-- the functions the generator writes for a file of the fragment (`visitSoyFile_renders`) are a table for its templates -/
theorem tableOk_of_file (f : SoyFile) (r : List JsFunc × Scope) (h : toFile f = some r) : TableOk (regOfFile f) r.1 := by
  unfold toFile at h
  unfold regOfFile
  split at h
  · rename_i p name ae' rest hbody
    exact tableOk_of_toTop ae' rest _ r h rfl
  · cases h

/-- PARTIAL (C04, a file): the functions the generator writes for a file of the fragment — `toFile`, by
    `visitSoyFile_renders` the end of the generated text — calling one another: what the function `name` returns on the
    JSON image of `data` is what Spec/Eval.render renders for the template `name` of the file on `data`.  Hypotheses:
    no print directives in the file (`hplain`), soy.$$escapeHtml is `htmlEscape ∘ ToString` (`hesc`). -/
theorem gen_correct_file_partial (F : Bytes → List Expr → JVal → JOut) (fuel : Nat) (hesc : EscapeHtmlIs F) (f : SoyFile)
    (rr : List JsFunc × Scope) (hfile : toFile f = some rr) (msgs : Bool)
    (hplain : ∀ t ∈ regOfFile f, plainBlock msgs t.body = true)
    (globals : Spec.Eval.Binds) (ij : Option Spec.Eval.Binds) (name : Bytes)
    (data : Spec.Eval.Binds) (jd : List (Bytes × JVal)) (hj : C04c.toJsKvs data = some jd)
    (jij : Option (List (Bytes × JVal))) (hij : IjRel ij jij) (hgl : GlobRel globals) (d : Nat) (r : JVal)
    (hx : callFn F rr.1 fuel d name (.obj jd) jij = .val r) :
    ∃ text, Spec.Eval.render (regOfFile f) globals ij msgs name data d = .val text ∧ r = .str text :=
  gen_correct_registry_partial F (regOfFile f) rr.1 fuel hesc msgs hplain (tableOk_of_file f rr hfile) globals ij name data jd hj jij hij hgl d r hx

/-- PARTIAL (C04, a file, prints WITH directives): `gen_correct_file_partial` for files whose prints carry the directive
    lists `ok` accepts, against Spec/Eval.render with the library semantics `dsem`, relative to `PrintLe F ok dsem` -/
theorem gen_correct_file_dirs_partial (F : Bytes → List Expr → JVal → JOut) (fuel : Nat) (hesc : EscapeHtmlIs F)
    (ok : List Directive → Bool) (dsem : Option Spec.Eval.LibSem) (hle : PrintLe F ok dsem) (f : SoyFile)
    (rr : List JsFunc × Scope) (hfile : toFile f = some rr) (msgs : Bool)
    (hplain : ∀ t ∈ regOfFile f, dirBlock ok msgs t.body = true)
    (globals : Spec.Eval.Binds) (ij : Option Spec.Eval.Binds) (name : Bytes)
    (data : Spec.Eval.Binds) (jd : List (Bytes × JVal)) (hj : C04c.toJsKvs data = some jd)
    (jij : Option (List (Bytes × JVal))) (hij : IjRel ij jij) (hgl : GlobRel globals) (d : Nat) (r : JVal)
    (hx : callFn F rr.1 fuel d name (.obj jd) jij = .val r) :
    ∃ text, Spec.Eval.render (regOfFile f) globals ij msgs name data d dsem = .val text ∧ r = .str text :=
  gen_correct_registry_dirs_partial F (regOfFile f) rr.1 fuel hesc ok dsem hle msgs hplain (tableOk_of_file f rr hfile) globals ij name
    data jd hj jij hij hgl d r hx

/-- … and conversely: where Spec/Eval.render renders a template of the file, its generated function returns this text or
    leaves the common subset; it does not throw -/
theorem gen_complete_file_partial (F : Bytes → List Expr → JVal → JOut) (fuel : Nat) (hesc : EscapeHtmlIs F) (f : SoyFile)
    (rr : List JsFunc × Scope) (hfile : toFile f = some rr) (msgs : Bool)
    (hplain : ∀ t ∈ regOfFile f, plainBlock msgs t.body = true)
    (globals : Spec.Eval.Binds) (ij : Option Spec.Eval.Binds) (name : Bytes)
    (data : Spec.Eval.Binds) (jd : List (Bytes × JVal)) (hj : C04c.toJsKvs data = some jd)
    (jij : Option (List (Bytes × JVal))) (hij : IjRel ij jij) (hgl : GlobRel globals) (d : Nat) (text : Bytes)
    (ht : Spec.Eval.render (regOfFile f) globals ij msgs name data d = .val text) :
    callFn F rr.1 fuel d name (.obj jd) jij = .val (.str text) ∨ callFn F rr.1 fuel d name (.obj jd) jij = .unspec :=
  gen_complete_registry_spec_partial F (regOfFile f) rr.1 fuel hesc msgs hplain (tableOk_of_file f rr hfile) globals ij name data jd hj
    jij hij hgl d text ht

/-- … and with directives: the converse for a file, relative to `PrintLe` and `PrintGe` -/
theorem gen_complete_file_dirs_partial (F : Bytes → List Expr → JVal → JOut) (fuel : Nat) (hesc : EscapeHtmlIs F)
    (ok : List Directive → Bool) (dsem : Option Spec.Eval.LibSem) (hle : PrintLe F ok dsem) (hge : PrintGe F ok dsem) (f : SoyFile)
    (rr : List JsFunc × Scope) (hfile : toFile f = some rr) (msgs : Bool)
    (hplain : ∀ t ∈ regOfFile f, dirBlock ok msgs t.body = true)
    (globals : Spec.Eval.Binds) (ij : Option Spec.Eval.Binds) (name : Bytes)
    (data : Spec.Eval.Binds) (jd : List (Bytes × JVal)) (hj : C04c.toJsKvs data = some jd)
    (jij : Option (List (Bytes × JVal))) (hij : IjRel ij jij) (hgl : GlobRel globals) (d : Nat) (text : Bytes)
    (ht : Spec.Eval.render (regOfFile f) globals ij msgs name data d dsem = .val text) :
    callFn F rr.1 fuel d name (.obj jd) jij = .val (.str text) ∨ callFn F rr.1 fuel d name (.obj jd) jij = .unspec :=
  gen_complete_registry_spec_dirs_partial F (regOfFile f) rr.1 fuel hesc ok dsem hle hge msgs hplain (tableOk_of_file f rr hfile) globals ij
    name data jd hj jij hij hgl d text ht

end Dev

/-! ## non-vacuity -/

section Examples
open SoyVerif.Spec.Eval (Val Out)
local instance : Globals := exGlobals
local instance : GlobalsAre ({} : Options) := ⟨rfl⟩


/-- `{namespace sem}` `/** @param a */ {template .t}` (Props/C04d `sampleCall`: a call of `.c` with `data="all"`, a value and a
    content param) `/** @param? p  @param? c  @param? a */ {template .c}{$p}:{$c|noAutoescape}:{$a}{/template}` -/
def sampleFile : SoyFile :=
  { name := b!"sem.soy", text := [], body := [
      .namespace 0 b!"sem" .unspecified,
      .soyDoc 0 [⟨0, b!"a", false⟩],
      .template 0 b!"sem.t" (.mk 0 sampleCall) .unspecified false,
      .soyDoc 0 [⟨0, b!"p", true⟩, ⟨0, b!"c", true⟩, ⟨0, b!"a", true⟩],
      .template 0 b!"sem.c" calleeT.body .unspecified false] }

def sampleFuncsText : Bytes :=
  b!"\nsem.t = function(opt_data, opt_sb, opt_ijData) {\n  var output = '';\n  output += '[';\n  var param$1 = '';\n  param$1 += '\\u003C';\n  param$1 += soy.$$escapeHtml(opt_data.a);\n  param$1 += '\\u003E';\n  output += sem.c(soy.$$augmentMap(opt_data, {p: ((opt_data.a) + (1)), c: param$1}), opt_sb, opt_ijData);\n  output += ']';\n  return output;\n};\n\nsem.c = function(opt_data, opt_sb, opt_ijData) {\n  opt_data = opt_data || {};\n  var output = '';\n  output += soy.$$escapeHtml(opt_data.p);\n  output += ':';\n  output += opt_data.c;\n  output += ':';\n  output += soy.$$escapeHtml(opt_data.a);\n  return output;\n};\n"

-- the functions of the file (the second one has only optional parameters: `opt_data = opt_data || {}`) …
set_option maxRecDepth 16000 in
example : (toFile sampleFile).map (fun r => printPieces (r.1.flatMap (renderFunc false 0))) = some sampleFuncsText := by decide +kernel

-- … are what the generator model writes after the comment lines and the namespace declaration
example : (gen id sampleFile {}).toOption = some
    (b!"// This file was automatically generated from sem.soy.\n// Please don't edit this file by hand.\n\nif (typeof sem == 'undefined') { var sem = {}; }\n" ++ sampleFuncsText) := by decide +kernel

-- the entry function called through the table of the file's functions
set_option maxRecDepth 16000 in
example : (toFile sampleFile).map (fun r => match callFn sampleF r.1 10 3 b!"sem.t" (.obj [(b!"a", .num 5)]) none with
    | .val (.str t) => some t
    | _ => none) = some (some b!"[6:<5>:5]") := by decide +kernel

-- depth 1 is the entry function alone: its call finds depth 0
set_option maxRecDepth 16000 in
example : (toFile sampleFile).map (fun r => match callFn sampleF r.1 10 1 b!"sem.t" (.obj [(b!"a", .num 5)]) none with
    | .unspec => true
    | _ => false) = some true := by decide +kernel

/-- the same file with a callee without print directives: `{$p}:{$c}:{$a}` -/
def plainFile : SoyFile :=
  { sampleFile with body := [
      .namespace 0 b!"sem" .unspecified,
      .soyDoc 0 [⟨0, b!"a", false⟩],
      .template 0 b!"sem.t" (.mk 0 sampleCall) .unspecified false,
      .soyDoc 0 [⟨0, b!"p", true⟩, ⟨0, b!"c", true⟩, ⟨0, b!"a", true⟩],
      .template 0 b!"sem.c" (.mk 0 (.cons (.print 0 (.dataRef 0 b!"p" .nil) []) (.cons (.rawText 0 b!":")
        (.cons (.print 0 (.dataRef 0 b!"c" .nil) []) (.cons (.rawText 0 b!":")
        (.cons (.print 0 (.dataRef 0 b!"a" .nil) []) .nil)))))) .unspecified false] }

theorem plainFile_plain : ∀ t ∈ regOfFile plainFile, plainBlock false t.body = true := by
  have h : (regOfFile plainFile).all (fun t => plainBlock false t.body) = true := by decide +kernel
  exact fun t ht => List.all_eq_true.mp h t ht

-- the generated functions and Spec/Eval.render on the file: the content param is escaped once more by the callee
set_option maxRecDepth 16000 in
example : (toFile plainFile).map (fun r => match callFn sampleF r.1 10 3 b!"sem.t" (.obj [(b!"a", .num 5)]) none with
    | .val (.str t) => some t
    | _ => none) = some (some b!"[6:&lt;5&gt;:5]") := by decide +kernel

set_option maxRecDepth 16000 in
example : (match Spec.Eval.render (regOfFile plainFile) [] none false b!"sem.t" [(b!"a", .int 5)] 3 with
    | .val t => some t
    | _ => none) = some b!"[6:&lt;5&gt;:5]" := by decide +kernel

/-- `gen_complete_file_partial` on it: for every `a` the function returns Spec/Eval's text or is `unspec`, never an error -/
example (a : Int) (ha : SoyVerif.Spec.JsSem.exact a = true) (rr : List JsFunc × Scope) (hfile : toFile plainFile = some rr)
    (text : Bytes) (ht : Spec.Eval.render (regOfFile plainFile) [] none false b!"sem.t" [(b!"a", .int a)] 3 = .val text) :
    callFn sampleF rr.1 10 3 b!"sem.t" (.obj [(b!"a", .num a)]) none = .val (.str text) ∨
      callFn sampleF rr.1 10 3 b!"sem.t" (.obj [(b!"a", .num a)]) none = .unspec :=
  gen_complete_file_partial sampleF 10 sampleF_escape plainFile rr hfile false plainFile_plain [] none b!"sem.t" _ _
    (by simp [C04c.toJsKvs, C04c.toJsV, ha]) none rfl (exGlobRel _) 3 text ht

/-- `gen_correct_file_partial` on it, for every `a` -/
example (a : Int) (ha : SoyVerif.Spec.JsSem.exact a = true) (rr : List JsFunc × Scope) (hfile : toFile plainFile = some rr)
    (r : JVal) (hx : callFn sampleF rr.1 10 3 b!"sem.t" (.obj [(b!"a", .num a)]) none = .val r) :
    ∃ text, Spec.Eval.render (regOfFile plainFile) [] none false b!"sem.t" [(b!"a", .int a)] 3 = .val text ∧ r = .str text :=
  gen_correct_file_partial sampleF 10 sampleF_escape plainFile rr hfile false plainFile_plain [] none b!"sem.t" _ _
    (by simp [C04c.toJsKvs, C04c.toJsV, ha]) none rfl (exGlobRel _) 3 r hx

end Examples

end SoyVerif.Props.C04f
