/-
  C04 — towards the converse WITH directives (`gen_complete_…_goLib`): the print-level lemma.

  `printGe_dirs`: under the EQUATIONAL form of the library obligations (`DirEq`: the soyutils function computes what the
  Go directive computes, value for value, and fails where it fails), for a value that HAS a JSON image, where Spec/Eval's
  print with the Go library (`specPrint (some goLib)`) renders a text, the reference's print (`refPrint`, Props/C04d)
  renders the same text.  This is the mirror of Props/C04g `printLe_dirsIn`.

  The lifting (`gen_complete_registry_goLib_partial`, `gen_complete_file_goLib_partial`): on a value WITHOUT a JSON image
  (a float, an integer beyond 2^53) Spec/Eval with the Go library renders a text while the JSON reading of the print is
  silent.  Props/C04d `refPrint` therefore falls back to Spec/Eval's print with the Go library where `refPrintJs` is
  `unspec` (as it fell back to the plain print without directives; the theorems about the generated statements look at
  the `val` / `error` answers of `refPrintJs` only, so they are untouched).  Then `PrintGe` holds (`printGe_dirsIn`), the
  generalised `spec_le_ref_*` of C04d lift it through the commands (the reference renders what Spec/Eval renders), and
  `calls_table_correct` (a generated function that throws ⇒ the reference does not render) gives the converse: it
  returns the text or is `unspec`; it does not throw.
-/
import SoyVerif.Props.C04g

namespace SoyVerif.Props.C04h
open SoyVerif SoyVerif.Model SoyVerif.Model.JsGen SoyVerif.Spec.JsSemRef SoyVerif.Spec.JsStmt
open SoyVerif.Props.C04c (toJsV Globals)
open SoyVerif.Props.C04d SoyVerif.Props.C04f SoyVerif.Props.C04g
open SoyVerif.Spec.Eval (Val Out)
open SoyVerif.Refine (absV absL Scalar)
open SoyVerif.Model.Eval (applyDirective)
open SoyVerif.Props.C02Spec (modelDirSem concV scalarV)

/-- LIBRARY OBLIGATION, equational form (not proved here): on the JSON image of a defined scalar value (through
    `dirInput`) and literal arguments, the soyutils function of the directive `name` returns the JSON image of what
    the Go directive returns, and fails where the Go directive fails.  (On defined scalars it gives what `C04g.DirIs`
    asks; `DirIs` also says the function returns no value outside them.) -/
def DirEq (F : Bytes → List Expr → JVal → JOut) (name : Bytes) : Prop :=
  ∀ (e : Gen.DirectiveEntry), Directives.lookup Gen.directiveTable name = some e →
  ∀ (args : List Expr) (lits : List Val) (v : Val) (jv x : JVal),
    litVals args = some lits → scalarV v = true → Spec.Eval.isUndef v = false → toJsV v = some jv →
    dirInput e jv = some x →
    F name args x = match applyDirective e.impl (concV v) (lits.map concV) with
      | some gv => (match toJsV (absV gv) with | some r => .val r | none => .unspec)
      | none => .error

/-- what a Go directive returns: the value itself, or a string -/
theorem applyDirective_shape (impl : Bytes) (mv : Value) (args : List Value) (r : Value)
    (ha : applyDirective impl mv args = some r) : r = mv ∨ ∃ s, r = .str s := by
  unfold applyDirective at ha
  repeat' split at ha
  all_goals (try simp at ha)
  all_goals (try split at ha)
  all_goals (try simp at ha)
  all_goals first
    | exact Or.inl ha.symm
    | exact Or.inl ha.2.symm
    | exact Or.inr ⟨_, ha.symm⟩
    | (obtain ⟨j, _, hj⟩ := ha; exact Or.inr ⟨_, hj.symm⟩)

/-- a defined scalar with a JSON image prints -/
theorem toStr_of_image (v : Val) (jv : JVal) (hs : scalarV v = true) (hu : Spec.Eval.isUndef v = false)
    (hj : toJsV v = some jv) : ∃ s, toStr? jv = some s := by
  cases v with
  | int i =>
    simp only [toJsV] at hj
    split at hj
    · simp only [Option.some.injEq] at hj; subst hj; exact ⟨_, rfl⟩
    · cases hj
  | float f => simp [toJsV] at hj
  | list xs => simp [scalarV] at hs
  | map kvs => simp [scalarV] at hs
  | undefined => simp [Spec.Eval.isUndef] at hu
  | null => simp only [toJsV, Option.some.injEq] at hj; subst hj; exact ⟨_, rfl⟩
  | bool b => simp only [toJsV, Option.some.injEq] at hj; subst hj; exact ⟨_, rfl⟩
  | str t => simp only [toJsV, Option.some.injEq] at hj; subst hj; exact ⟨_, rfl⟩

section
variable [Globals]
variable (F : Bytes → List Expr → JVal → JOut) (hesc : EscapeHtmlIs F)
include hesc

/-- the mirror of `C04g.goRun_sim`: where Spec/Eval's loop over the Go library ends on a value, the reference's loop
    ends on its JSON image, with the same flag -/
theorem runDirs_sim (names : List Bytes) (hdir : ∀ name ∈ names, DirEq F name) (env : SEnv) :
    ∀ (ds : List Directive) (v : Val) (jv : JVal) (esc : Bool) (vr : Val) (esc' : Bool),
      dirsOkIn names ds = true → scalarV v = true → Spec.Eval.isUndef v = false → toJsV v = some jv →
      Spec.Eval.runDirs (some (modelDirSem Gen.directiveTable)) env ds v esc = .val (vr, esc') →
      ∃ jr, C04b.goRun (liftF F) Gen.directiveTable ds (.val jv) esc = some (.val jr, esc') ∧ toJsV vr = some jr ∧
        scalarV vr = true ∧ Spec.Eval.isUndef vr = false
  | [], v, jv, esc, vr, esc', _, hsc, hu, hj, h => by
    simp only [Spec.Eval.runDirs, Out.val.injEq, Prod.mk.injEq] at h
    obtain ⟨rfl, rfl⟩ := h
    exact ⟨jv, rfl, hj, hsc, hu⟩
  | d :: ds, v, jv, esc, vr, esc', hok, hsc, hu, hj, h => by
    simp only [dirsOkIn, List.all_cons, Bool.and_eq_true] at hok
    obtain ⟨hd, hrest⟩ := hok
    unfold dirOkIn at hd
    cases hl : Directives.lookup Gen.directiveTable d.name with
    | none => simp [hl] at hd
    | some e =>
      simp only [hl, Bool.and_eq_true, Bool.or_eq_true] at hd
      obtain ⟨⟨har, hlit⟩, hname⟩ := hd
      obtain ⟨lits, hlits⟩ := Option.isSome_iff_exists.mp hlit
      have hD : (modelDirSem Gen.directiveTable).lookup d.name = some (e.arities, e.impl, e.cancel) := by
        simp [modelDirSem, hl]
      have hargs := evalAll_lits env d.args lits hlits
      have hlsc := lits_scalar d.args lits hlits
      rw [Spec.Eval.runDirs] at h
      simp only [hD, har, Bool.not_true, Bool.false_eq_true, if_false, hargs, Spec.Eval.Out.bind] at h
      -- what the Go directive returns
      cases hgv : applyDirective e.impl (concV v) (lits.map concV) with
      | none =>
        have happ : (modelDirSem Gen.directiveTable).apply e.impl v lits = .error := by
          simp only [modelDirSem, hsc, hlsc, Bool.and_self, if_true, hgv]
        simp [happ] at h
      | some gv =>
        have happ : (modelDirSem Gen.directiveTable).apply e.impl v lits = .val (absV gv) := by
          simp only [modelDirSem, hsc, hlsc, Bool.and_self, if_true, hgv]
        simp only [happ] at h
        -- the value goes on: itself, or a string
        have hshape := applyDirective_shape e.impl (concV v) (lits.map concV) gv hgv
        have hsame := absV_concV v jv hsc hj
        have himg : ∃ r, toJsV (absV gv) = some r ∧ scalarV (absV gv) = true ∧ Spec.Eval.isUndef (absV gv) = false := by
          rcases hshape with rfl | ⟨s, rfl⟩
          · rw [hsame]; exact ⟨jv, hj, hsc, hu⟩
          · exact ⟨.str s, rfl, rfl, rfl⟩
        obtain ⟨r, hr, hsc', hu'⟩ := himg
        obtain ⟨jr, hrun, hjr, hsr, hur⟩ := runDirs_sim names hdir env ds (absV gv) r _ vr esc' hrest hsc' hu' hr h
        refine ⟨jr, ?_, hjr, hsr, hur⟩
        simp only [C04b.goRun, hl]
        have hap : C04b.goApply (liftF F) e d (.val jv) = .val r := by
          by_cases hno : (e.impl == Directives.sDirectiveNoAutoescape) = true
          · have hgv' : applyDirective e.impl (concV v) (lits.map concV) = some (concV v) := by
              simp [applyDirective, hno]
            rw [hgv] at hgv'
            simp only [Option.some.injEq] at hgv'
            subst hgv'
            rw [hsame] at hr
            rw [hj] at hr
            simp only [Option.some.injEq] at hr
            subst hr
            simp [C04b.goApply, hno]
          · have hin : names.contains d.name = true := by
              rcases hname with h1 | h1
              · exact absurd h1 hno
              · exact h1
            have hde := hdir d.name (by simpa using hin) e hl
            obtain ⟨s0, hs0⟩ := toStr_of_image v jv hsc hu hj
            by_cases hself : (e.impl == Directives.sDirectiveInsertWordBreaks || e.impl == Directives.sDirectiveChangeNewlineToBr) = true
            · have hx : dirInput e jv = some (.str (htmlEscape s0)) := by simp [dirInput, hself, hs0]
              have := hde d.args lits v jv _ hlits hsc hu hj hx
              rw [hgv] at this
              simp only [hr] at this
              simp only [C04b.goApply, hno, Bool.false_eq_true, if_false, hself, if_true, liftF, JOut.bind, hesc jv, hs0, this]
            · have hx : dirInput e jv = some jv := by simp [dirInput, hself]
              have := hde d.args lits v jv _ hlits hsc hu hj hx
              rw [hgv] at this
              simp only [hr] at this
              simp only [C04b.goApply, hno, Bool.false_eq_true, if_false, hself, liftF, JOut.bind, this]
        rw [hap]
        exact hrun

/-- the mirror of `PrintLe` on values with a JSON image: where Spec/Eval's print with the Go library renders, the
    reference's print renders the same -/
theorem printGe_dirs (names : List Bytes) (hdir : ∀ name ∈ names, DirEq F name) (ae : Autoescape) (dirs : List Directive)
    (env : SEnv) (v : Val) (jv : JVal) (s : Bytes) (hok : dirsOkIn names dirs = true)
    (hsc : scalarV v = true) (hj : toJsV v = some jv)
    (h : specPrint (some goLib) (ae != .off) env dirs v = .val s) : refPrint F ae dirs v = .val s := by
  have hD : Spec.Eval.dirsOf (some goLib) = some (modelDirSem Gen.directiveTable) := rfl
  unfold specPrint at h
  rw [hD] at h
  simp only [Option.isNone_some, Bool.and_false, Bool.false_eq_true, if_false] at h
  split at h
  · cases h
  · rename_i hu
    have hu' : Spec.Eval.isUndef v = false := by simpa using hu
    obtain ⟨r, hr, h⟩ := out_bind_val h
    obtain ⟨s0, hs0, h⟩ := out_bind_val h
    simp only [Out.val.injEq] at h
    obtain ⟨vr, esc'⟩ := r
    obtain ⟨jr, hrun, hjr, hsr, hur⟩ := runDirs_sim F hesc names hdir env dirs v jv _ vr esc' hok hsc hu' hj hr
    obtain ⟨s1, hs1⟩ := toStr_of_image vr jr hsr hur hjr
    have hshow := C04c.showVal_toStr vr jr s1 hjr hs1
    simp only at hs0
    rw [hshow] at hs0
    simp only [Out.val.injEq] at hs0
    subst hs0
    have hjs : refPrintJs F ae dirs v = .val s := by
      unfold refPrintJs
      simp only [hj, C04b.goPrint, hrun, Option.map_some]
      cases esc' with
      | false =>
        simp only [Bool.false_eq_true, if_false] at h ⊢
        simp [hs1, h]
      | true =>
        simp only [if_true] at h ⊢
        simp only [liftF, JOut.bind, hesc jr, hs1]
        simp [toStr?, h]
    unfold refPrint
    rw [hjs]


/-- `PrintGe` for the directive lists over `names`, from the equational obligations for these names (and `EscapeHtmlIs`):
    on a value with a JSON image `printGe_dirs`; on one without (a float, an integer beyond 2^53) the reference's print
    IS Spec/Eval's with the Go library (the fall-back of `refPrint`); on a list or a map Spec/Eval with directives does
    not render -/
theorem printGe_dirsIn (names : List Bytes) (hdir : ∀ name ∈ names, DirEq F name) : PrintGe F (dirsOkIn names) (some goLib) := by
  intro ae dirs env v s hok h
  by_cases hnil : dirs = []
  · subst hnil
    exact print_ge_noDirs F ae hesc (some goLib) [] env v s rfl h
  · have hne : dirs.isEmpty = false := by cases dirs <;> simp_all
    cases hj : toJsV v with
    | none =>
      have hjs : refPrintJs F ae dirs v = .unspec := by simp [refPrintJs, hj]
      simp only [refPrint, hjs, hne, Bool.false_eq_true, if_false]
      show specPrint (some goLib) (ae != .off) env0 dirs v = .val s
      rw [← specPrint_env names env env0 (ae != .off) dirs v hok]
      exact h
    | some jv =>
      by_cases hsc : scalarV v = true
      · exact printGe_dirs F hesc names hdir ae dirs env v jv s hok hsc hj h
      · -- a list or a map: the Go library is not read on it
        exfalso
        cases dirs with
        | nil => exact hnil rfl
        | cons d ds =>
          simp only [dirsOkIn, List.all_cons, Bool.and_eq_true] at hok
          obtain ⟨hd, _⟩ := hok
          unfold dirOkIn at hd
          cases hl : Directives.lookup Gen.directiveTable d.name with
          | none => simp [hl] at hd
          | some e =>
            simp only [hl, Bool.and_eq_true] at hd
            obtain ⟨lits, hlits⟩ := Option.isSome_iff_exists.mp hd.1.2
            have hD : Spec.Eval.dirsOf (some goLib) = some (modelDirSem Gen.directiveTable) := rfl
            have hDl : (modelDirSem Gen.directiveTable).lookup d.name = some (e.arities, e.impl, e.cancel) := by
              simp [modelDirSem, hl]
            have happ : (modelDirSem Gen.directiveTable).apply e.impl v lits = .unspec := by
              simp [modelDirSem, hsc]
            unfold specPrint at h
            rw [hD] at h
            simp only [Option.isNone_some, Bool.and_false, Bool.false_eq_true, if_false] at h
            split at h
            · cases h
            · rw [Spec.Eval.runDirs] at h
              simp [hDl, hd.1.1, evalAll_lits env d.args lits hlits, happ, Spec.Eval.Out.bind] at h

omit hesc

/-! ## the converse, with directives -/

/-- the equational obligations about soyutils.js, one per function (the mirror of `C04g.SoyutilsIs`) -/
structure SoyutilsEq (F : Bytes → List Expr → JVal → JOut) : Prop where
  escapeHtmlDir : DirEq F b!"escapeHtml"
  changeNewlineToBr : DirEq F b!"changeNewlineToBr"
  escapeJsString : DirEq F b!"escapeJsString"
  escapeUri : DirEq F b!"escapeUri"
  insertWordBreaks : DirEq F b!"insertWordBreaks"
  json : DirEq F b!"json"
  truncate : DirEq F b!"truncate"

theorem SoyutilsEq.all {F : Bytes → List Expr → JVal → JOut} (h : SoyutilsEq F) : ∀ name ∈ libNames, DirEq F name := by
  intro name hn
  simp only [libNames, List.mem_cons, List.mem_nil_iff, or_false] at hn
  rcases hn with rfl | rfl | rfl | rfl | rfl | rfl | rfl
  · exact h.changeNewlineToBr
  · exact h.escapeHtmlDir
  · exact h.escapeJsString
  · exact h.escapeUri
  · exact h.insertWordBreaks
  · exact h.json
  · exact h.truncate

/-- PARTIAL (C04, a whole registry, the converse WITH directives).  IF each soyutils function computes what the Go
    directive computes (`SoyutilsIs F` and the equational `SoyutilsEq F`) THEN where Spec/Eval.render WITH THE GO LIBRARY
    renders the template `name` on `data`, the generated function — called on the JSON image of the data, its calls
    served by the table of the generated functions to the same depth — returns exactly this text or leaves the common
    subset (`unspec`: a float, an integer beyond 2^53, a print of a list or a map, the loop bound); it does NOT throw. -/
theorem gen_complete_registry_goLib_partial (hlib : SoyutilsIs F) (heq : SoyutilsEq F) (reg : Registry.Reg) (table : List JsFunc)
    (fuel : Nat) (msgs : Bool) (hdirs : ∀ t ∈ reg, dirBlock dirsOk msgs t.body = true)
    (htab : TableOk reg table) (globals : Spec.Eval.Binds) (ij : Option Spec.Eval.Binds) (name : Bytes)
    (data : Spec.Eval.Binds) (jd : List (Bytes × JVal)) (hj : C04c.toJsKvs data = some jd)
    (jij : Option (List (Bytes × JVal))) (hij : C04c.IjRel ij jij) (hgl : C04c.GlobRel globals) (d : Nat)
    (text : Bytes) (ht : Spec.Eval.render reg globals ij msgs name data d (some goLib) = .val text) :
    callFn F table fuel d name (.obj jd) jij = .val (.str text) ∨ callFn F table fuel d name (.obj jd) jij = .unspec :=
  gen_complete_registry_spec_dirs_partial F reg table fuel hlib.escapeHtml dirsOk (some goLib) (printLe_dirs F hlib)
    (printGe_dirsIn F hlib.escapeHtml libNames heq.all) msgs hdirs htab globals ij name data jd hj jij hij hgl d text ht

/-- … asking the obligations only for the directives the templates use (`names`); with `names = []` (`|id`,
    `|noAutoescape` only) `EscapeHtmlIs` alone is left — satisfied by `C04g.escF` (`escF_escape`): the hypotheses are
    not vacuous.  (`SoyutilsEq` as a whole is satisfied by no library that leaves a function unread: it is an equation.) -/
theorem gen_complete_registry_goLib_in_partial (hesc : EscapeHtmlIs F) (names : List Bytes)
    (his : ∀ name ∈ names, DirIs F name) (heq : ∀ name ∈ names, DirEq F name) (reg : Registry.Reg) (table : List JsFunc)
    (fuel : Nat) (msgs : Bool) (hdirs : ∀ t ∈ reg, dirBlock (dirsOkIn names) msgs t.body = true)
    (htab : TableOk reg table) (globals : Spec.Eval.Binds) (ij : Option Spec.Eval.Binds) (name : Bytes)
    (data : Spec.Eval.Binds) (jd : List (Bytes × JVal)) (hj : C04c.toJsKvs data = some jd)
    (jij : Option (List (Bytes × JVal))) (hij : C04c.IjRel ij jij) (hgl : C04c.GlobRel globals) (d : Nat)
    (text : Bytes) (ht : Spec.Eval.render reg globals ij msgs name data d (some goLib) = .val text) :
    callFn F table fuel d name (.obj jd) jij = .val (.str text) ∨ callFn F table fuel d name (.obj jd) jij = .unspec :=
  gen_complete_registry_spec_dirs_partial F reg table fuel hesc (dirsOkIn names) (some goLib) (printLe_dirsIn F hesc names his)
    (printGe_dirsIn F hesc names heq) msgs hdirs htab globals ij name data jd hj jij hij hgl d text ht

example : EscapeHtmlIs escF ∧ (∀ name ∈ ([] : List Bytes), DirIs escF name) ∧ (∀ name ∈ ([] : List Bytes), DirEq escF name) :=
  ⟨escF_escape, fun _ h => (by cases h), fun _ h => (by cases h)⟩

/-- STATEMENT LEVEL (C04, the converse WITH directives): a list of commands met inside a template of the registry
    (generator scope `sc`, output variable `buf`), prints with arbitrary lists of the directives both backends implement,
    under `SoyutilsIs F` and `SoyutilsEq F`.  Where Spec/Eval.renderCmds WITH THE GO LIBRARY renders the commands to `t`,
    running the generated statements — calls served by the table of the generated functions — COMPLETES with the buffer
    holding its old content followed by exactly `t`, or leaves the common subset (`unspec`); it never throws. -/
theorem gen_complete_cmds_goLib_partial (hlib : SoyutilsIs F) (heq : SoyutilsEq F) (reg : Registry.Reg) (table : List JsFunc)
    (fuel : Nat) (hasBundle : Bool) (hdirs : ∀ t ∈ reg, dirBlock dirsOk hasBundle t.body = true) (htab : TableOk reg table)
    (d : Nat) (ae : Autoescape) (buf : Bytes) (entry : Spec.Eval.Binds) (cmds : CmdList)
    (hpl : dirCmds dirsOk hasBundle cmds = true) (sc : Scope) (r : JsStmts × Scope) (h : toCmds ae buf cmds sc = some r)
    (env : SEnv) (jenv : JEnv) (out : Bytes) (hs : ScOk sc) (hg : GoodBuf sc buf) (hrel : C04c.EnvRel entry sc env jenv)
    (hb : BufIs buf jenv out) (t : Bytes)
    (ht : Spec.Eval.renderCmds reg hasBundle (ae != .off) entry (Spec.Eval.renderTmpl reg hasBundle (some goLib) d) (some goLib)
      cmds env = .val t) (fuel' : Nat) :
    (∃ jenv', execStmts F (callFn F table fuel d) fuel' r.1 jenv = .ok jenv' ∧ BufIs buf jenv' (out ++ t)) ∨
      execStmts F (callFn F table fuel d) fuel' r.1 jenv = .unspec :=
  gen_complete_registry_cmds_dirs_partial F reg table fuel hlib.escapeHtml dirsOk (some goLib)
    (printGe_dirsIn F hlib.escapeHtml libNames heq.all) hasBundle hdirs htab d ae buf entry cmds hpl sc r h env jenv out hs hg hrel hb t ht
    fuel'

/-- the same, read as "no TypeError where Spec/Eval with the Go library renders" -/
theorem gen_no_throw_cmds_goLib_partial (hlib : SoyutilsIs F) (heq : SoyutilsEq F) (reg : Registry.Reg) (table : List JsFunc)
    (fuel : Nat) (hasBundle : Bool) (hdirs : ∀ t ∈ reg, dirBlock dirsOk hasBundle t.body = true) (htab : TableOk reg table)
    (d : Nat) (ae : Autoescape) (buf : Bytes) (entry : Spec.Eval.Binds) (cmds : CmdList)
    (hpl : dirCmds dirsOk hasBundle cmds = true) (sc : Scope) (r : JsStmts × Scope) (h : toCmds ae buf cmds sc = some r)
    (env : SEnv) (jenv : JEnv) (out : Bytes) (hs : ScOk sc) (hg : GoodBuf sc buf) (hrel : C04c.EnvRel entry sc env jenv)
    (hb : BufIs buf jenv out) (t : Bytes)
    (ht : Spec.Eval.renderCmds reg hasBundle (ae != .off) entry (Spec.Eval.renderTmpl reg hasBundle (some goLib) d) (some goLib)
      cmds env = .val t) (fuel' : Nat) :
    execStmts F (callFn F table fuel d) fuel' r.1 jenv ≠ .error := by
  intro hx
  rcases gen_complete_cmds_goLib_partial F hlib heq reg table fuel hasBundle hdirs htab d ae buf entry cmds hpl sc r h env jenv out hs hg
    hrel hb t ht fuel' with ⟨_, h1, _⟩ | h1 <;> rw [hx] at h1 <;> cases h1

/-- … and for the functions the generator writes for a file of the fragment (`toFile`) -/
theorem gen_complete_file_goLib_partial (hlib : SoyutilsIs F) (heq : SoyutilsEq F) (fuel : Nat) (f : SoyFile)
    (rr : List JsFunc × Scope) (hfile : toFile f = some rr) (msgs : Bool)
    (hdirs : ∀ t ∈ regOfFile f, dirBlock dirsOk msgs t.body = true)
    (globals : Spec.Eval.Binds) (ij : Option Spec.Eval.Binds) (name : Bytes)
    (data : Spec.Eval.Binds) (jd : List (Bytes × JVal)) (hj : C04c.toJsKvs data = some jd)
    (jij : Option (List (Bytes × JVal))) (hij : C04c.IjRel ij jij) (hgl : C04c.GlobRel globals) (d : Nat) (text : Bytes)
    (ht : Spec.Eval.render (regOfFile f) globals ij msgs name data d (some goLib) = .val text) :
    callFn F rr.1 fuel d name (.obj jd) jij = .val (.str text) ∨ callFn F rr.1 fuel d name (.obj jd) jij = .unspec :=
  gen_complete_file_dirs_partial F fuel hlib.escapeHtml dirsOk (some goLib) (printLe_dirs F hlib)
    (printGe_dirsIn F hlib.escapeHtml libNames heq.all) f rr hfile msgs hdirs globals ij name data jd hj jij hij hgl d text ht

end

end SoyVerif.Props.C04h
