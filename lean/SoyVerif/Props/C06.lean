/-
  C06 — Rendering any compiled bundle with any data returns output or an error.

  Theorems about the interpreter model (Model/Eval.lean), for EVERY registry, template name, data map,
  injected data, message bundle, directive table and call-depth fuel — ill-typed programs and hostile
  data included (the model's functions are total on all trees and all values).

  * `exec_no_panic`: `execute` never ends in the class `panic` provided every node of the entry template
    lies within the source registered under its name (`posOk`) — the one place where a Go panic could
    escape `Execute` is the recover handler itself (`errFromNode` → `Registry.LineNumber` →
    `src[:pos]`).  `Registry.add` rejects duplicate template names, so the source is the template's own
    file; that the real parser's positions are inside it is checked on every correspondence case (the
    model would answer PANIC).  `exec_panic_needs_bad_position` is the converse reading.
  * `exec_total`: under that hypothesis the outcome is ok, err, or "the call depth exceeded the fuel"
    (Go: the goroutine stack — the property restricts recursion to data-bounded depth).
  * every Go panic site inside the walk (type assertions, `%` by zero, index out of range, nil map,
    Undefined.String(), funcs.go's explicit panics) is an explicit `err` of the model; no model function
    is partial (Lean accepts only total functions; list accesses are `[i]?` / `getD`), so no failing
    access can hide behind the result types.
  * `evalExpr_total`, `setGlobals_total`: the standalone entry points have no panic class at all
    (EvalExpr's error path takes the nil-template branch of errFromNode: no position lookup).
-/
import SoyVerif.Lemmas.EvalGood
import SoyVerif.Lemmas.RegistryNames

namespace SoyVerif.Props.C06
open SoyVerif SoyVerif.Model SoyVerif.Model.Eval

/-- a panic can only come from the recover handler slicing the source at an out-of-range position -/
theorem exec_panic_needs_bad_position (g : GEnv) (name : Bytes) (data : Frame) (fuel : Nat)
    (h : (execute g name data fuel).cls = .panic) :
    ∃ t, Registry.lookup g.reg name = some t ∧ posOk t = false :=
  (execute_spec g name data fuel).1 h

theorem exec_no_panic (g : GEnv) (name : Bytes) (data : Frame) (fuel : Nat)
    (hpos : ∀ t, Registry.lookup g.reg name = some t → posOk t = true) :
    (execute g name data fuel).cls ≠ .panic := by
  intro h
  obtain ⟨t, ht, hp⟩ := exec_panic_needs_bad_position g name data fuel h
  rw [hpos t ht] at hp
  exact absurd hp (by decide)

/-- rendering returns output or an error (or runs out of call depth) -/
theorem exec_total (g : GEnv) (name : Bytes) (data : Frame) (fuel : Nat)
    (hpos : ∀ t, Registry.lookup g.reg name = some t → posOk t = true) :
    (execute g name data fuel).cls = .ok ∨ (execute g name data fuel).cls = .err ∨
    (execute g name data fuel).cls = .fuelOut := by
  have h := exec_no_panic g name data fuel hpos
  cases hc : (execute g name data fuel).cls with
  | ok => exact Or.inl rfl
  | err => exact Or.inr (Or.inl rfl)
  | fuelOut => exact Or.inr (Or.inr rfl)
  | panic => exact absurd hc h

/-- the API contract in one statement: `Execute` returns normally — with output (`ok`), with an error value
    (`err`), or it exceeds the call depth the fuel stands for (`fuelOut`; Go: the goroutine stack, excluded by
    the property's "recursion bounded by the data") — and the ONLY way a panic can leave it is the recover
    handler slicing the entry template's source at a node position outside that source (`¬ posOk`).

    `posOk` for registries built from parser output: every position the parser assigns is the position of
    a consumed token (or an offset inside a consumed token's text), and every lexer item lies inside the
    input (Props/C05 `lex_items`).  What the parser theorems (Props/C05parse) state today are the positions
    of ERRORS (`parse_err_at_token`) — not yet the invariant "every node of a successfully built tree
    carries the position of a consumed item"; that invariant would have to be threaded through all
    functions of Model/FileParser.lean and Model/Parser.lean to give `posOk_of_parsed`.  Until then
    `posOk` is CHECKED, not proved, for parser output: the exec correspondences attach the real source
    text to every generated bundle, and the model would answer PANIC on any failing render of a template
    with a node outside its text (0 such answers in all runs). -/
theorem execute_contract (g : GEnv) (name : Bytes) (data : Frame) (fuel : Nat) :
    ((execute g name data fuel).cls = .ok ∨ (execute g name data fuel).cls = .err ∨
      (execute g name data fuel).cls = .fuelOut ∨
      ((execute g name data fuel).cls = .panic ∧ ∃ t, Registry.lookup g.reg name = some t ∧ posOk t = false)) ∧
    ((∀ t, Registry.lookup g.reg name = some t → posOk t = true) → (execute g name data fuel).cls ≠ .panic) := by
  refine ⟨?_, exec_no_panic g name data fuel⟩
  cases hc : (execute g name data fuel).cls with
  | ok => exact Or.inl rfl
  | err => exact Or.inr (Or.inl rfl)
  | fuelOut => exact Or.inr (Or.inr (Or.inl rfl))
  | panic => exact Or.inr (Or.inr (Or.inr ⟨rfl, exec_panic_needs_bad_position g name data fuel hc⟩))

/-- inside the walk nothing panics at all: every template invocation, from any state whose top frame is
    an own frame, ends ok / err / fuelOut — positions play no role below the entry point -/
theorem walk_no_panic (g : GEnv) (fuel : Nat) (t : Registry.Tmpl) (ctx : Scope) (st : St) (h : Own ctx st) :
    (runTmpl g fuel t ctx st).cls ≠ .panic :=
  (runTmpl_good g fuel t ctx st h).np

/-- a failure inside a nested call is an error of the caller, not a panic: the class of a call command is
    the class of the callee's run -/
theorem call_failure_is_error (g : GEnv) (esc : Bool) (call : Registry.Tmpl → Run) (hcall : ∀ t, GoodRun (call t))
    (c : Cmd) (ctx : Scope) (st : St) (h : Own ctx st) : (execCmd g esc call c ctx st).cls ≠ .panic :=
  (execCmd_good g esc call hcall c ctx st h).np

/-- EvalExpr returns a value or an error -/
theorem evalExpr_total (globals : Frame) (e : Expr) :
    (∃ v, evalExprEntry globals e = some v) ∨ evalExprEntry globals e = none := by
  cases h : evalExprEntry globals e with
  | none => exact Or.inr rfl
  | some v => exact Or.inl ⟨v, rfl⟩

/-- SetGlobals returns nil or an error; it accepts exactly the registries all of whose globals are defined -/
theorem setGlobals_total (reg : Registry.Reg) (globals : Frame) :
    setGlobals reg globals = true ∨ setGlobals reg globals = false := by
  cases setGlobals reg globals <;> simp

theorem setGlobals_ok_iff (reg : Registry.Reg) (globals : Frame) :
    setGlobals reg globals = true ↔
      ∀ t ∈ reg, ∀ n ∈ globalsBlock t.body, (Frame.find globals n).isSome = true := by
  simp [setGlobals, List.all_eq_true]

/-! ### Registry.Add keeps template names unique (the invariant behind `posOk`) -/

/-- after compiling, no two templates of the registry share a name: `Registry.lookup name` is THE template
    of that name, and the source it carries is the source of its own file -/
theorem registry_unique_names : ∀ (fs : List SoyFile) (reg reg' : Registry.Reg),
    Registry.addAll reg fs = some reg' → (reg.map (·.name)).Nodup → (reg'.map (·.name)).Nodup := by
  intro fs
  induction fs with
  | nil => intro reg reg' h hn; simp [Registry.addAll] at h; subst h; exact hn
  | cons f rest ih =>
    intro reg reg' h hn
    simp only [Registry.addAll, Option.bind_eq_some_iff] at h
    obtain ⟨r1, h1, h2⟩ := h
    refine ih r1 reg' h2 ?_
    unfold Registry.add at h1
    split at h1
    · simp at h1
    · exact addTemplates_names _ _ _ _ _ _ _ _ h1 hn

/-! ### non-vacuity -/

def gEmpty (reg : Registry.Reg) : GEnv :=
  { reg := reg, globals := [], ij := none, msgs := none, tbl := [], oblig := [] }

/-- `{template .t}{print $u}{/template}`: printing an undefined value -/
def tUndef : Registry.Tmpl :=
  { name := [116], params := [], body := .mk 0 (.cons (.print 1 (.dataRef 2 [117] .nil) []) .nil),
    autoescape := .unspecified, nsName := [110], nsAutoescape := .unspecified, pos := 0, file := [102], text := [0, 0, 0, 0] }

/-- … is an error, … -/
example : (execute (gEmpty [tUndef]) [116] [] 5).cls = .err := by decide
/-- … and it would be a panic escaping Execute if the node lay outside the registered source -/
example : (execute (gEmpty [{ tUndef with text := [] }]) [116] [] 5).cls = .panic := by decide
/-- `{template .r}{call .r /}{/template}` runs out of call depth -/
def tRec : Registry.Tmpl :=
  { tUndef with name := [114], body := .mk 0 (.cons (.call 1 [114] false none .nil) .nil) }
example : (execute (gEmpty [tRec]) [114] [] 2).cls = .fuelOut := by decide
example : (execute (gEmpty [tRec]) [120] [] 2).cls = .err := by decide   -- template not found
/-- the four disjuncts of `execute_contract` are all inhabited: ok here, err / panic / fuelOut above -/
example : (execute (gEmpty [{ tUndef with body := .mk 0 .nil }]) [116] [] 2).cls = .ok := by decide

end SoyVerif.Props.C06
