/-
  C13 / C07 — the ERROR that compilation reports is as stable as the accept/reject decision.

  `Model/CheckErr.lean` models `CheckDataRefs` and `Registry.Add` WITH their errors (the template being
  checked, the kind of the error, the payload the message prints — every name list in the order the Go
  code builds it); the correspondence op `checkerr` (C07) ties it to the real message texts.

  * `checkE_ok_iff`, `addAllE_eq`, `compileE_ok_iff`: the error-reporting walks accept exactly when the
    Boolean / Option models do — so `check_iff_valid` (C07) and the permutation theorems (C13b) transfer;
  * `checkE_first`: the error reported is that of the FIRST template, in registry order, whose own check
    fails, with that template's name; `checkOneE_sig_ext`: it is a function of that template, and of the
    registry only through the parameter lists found under the callee NAMES (`SigEq`) — nothing else;
  * `checkE_perm_single`, `compileE_perm_single`: if exactly one template of the registry fails, every
    permutation of the registry / of the files reports the SAME `CheckErr` (strengthening
    `C13b.compile_single_failure_perm` from "fails at the same template" to "fails with the same error");
  * `checkE_ext`: `checkE` depends on the trees only — two registries that answer every lookup by name alike
    give every template the same result (there is no other state: the functions are pure).
-/
import SoyVerif.Lemmas.CheckErrSim
import SoyVerif.Props.C13b

set_option linter.unusedSimpArgs false
set_option linter.unusedVariables false

namespace SoyVerif.Props.C13c
open SoyVerif SoyVerif.Model SoyVerif.Model.Check SoyVerif.Model.CheckErr SoyVerif.Model.Registry
open SoyVerif.Lemmas.CheckErrSim SoyVerif.Props.C13b

/-! ## 1. same accept / reject -/

theorem checkLoop_ok_iff (reg : List Template) : ∀ ts : List Template,
    checkLoop reg ts = .ok () ↔ ts.all (checkOne reg) = true
  | [] => by simp [checkLoop]
  | t :: r => by
    have h1 := checkOneE_ok_iff reg t
    unfold checkLoop
    cases hc : checkOneE reg t with
    | error k =>
      have : checkOne reg t = false := by
        cases h : checkOne reg t with
        | false => rfl
        | true => rw [h1.2 h] at hc; cases hc
      simp [this]
    | ok u =>
      have : checkOne reg t = true := h1.1 (by rw [hc])
      simp only [List.all_cons, this, Bool.true_and]
      exact checkLoop_ok_iff reg r

/-- `CheckDataRefs` with errors accepts exactly the registries `check` accepts -/
theorem checkE_ok_iff (reg : List Template) : checkE reg = .ok () ↔ check reg = true :=
  checkLoop_ok_iff reg reg

/-- forget which error -/
def eo {ε α : Type} : Except ε α → Option α
  | .ok r => some r
  | .error _ => none

theorem eo_ite2 {ε α : Type} (c1 c2 : Bool) (e1 e2 : ε) (x : Except ε α) (y : Option α) (h : eo x = y) :
    eo (if c1 = true then .error e1 else if c2 = true then .error e2 else x) =
      (if c1 = true then none else if c2 = true then none else y) := by
  cases c1 <;> cases c2 <;> simp [h] <;> rfl

theorem findNamespaceE_eq : ∀ cmds : List Cmd, eo (findNamespaceE cmds) = findNamespace cmds
  | [] => rfl
  | c :: rest => by
    cases c <;> simp only [findNamespaceE, findNamespace, eo]
    case soyDoc => exact findNamespaceE_eq rest

theorem addTemplatesE_eq (fn text ns : Bytes) (ae : Autoescape) : ∀ (cmds : List Cmd) (prev : Option Cmd) (reg : Reg),
    eo (addTemplatesE fn text ns ae cmds prev reg) = addTemplates fn text ns ae cmds prev reg
  | [], _, _ => rfl
  | c :: rest, prev, reg => by
    cases c <;> simp only [addTemplatesE, addTemplates] <;>
      first | exact addTemplatesE_eq fn text ns ae rest _ _ | rfl | skip
    case template pos name b ae' k =>
      cases b with
      | mk bpos cmds => exact eo_ite2 _ _ _ _ _ _ (addTemplatesE_eq fn text ns ae rest _ _)

theorem addE_eq (reg : Reg) (f : SoyFile) : eo (addE reg f) = add reg f := by
  unfold addE add
  have h := findNamespaceE_eq f.body
  cases hn : findNamespaceE f.body with
  | error e => rw [hn] at h; simp only [eo] at h; rw [← h]; rfl
  | ok r =>
    rw [hn] at h; simp only [eo] at h; rw [← h]
    obtain ⟨n, a⟩ := r
    exact addTemplatesE_eq _ _ _ _ _ _ _

/-- `Registry.Add` with errors builds the registry `addAll` builds, and fails exactly when it fails -/
theorem addAllE_eq : ∀ (fs : List SoyFile) (reg : Reg), eo (addAllE reg fs) = addAll reg fs
  | [], _ => rfl
  | f :: fs, reg => by
    unfold addAllE addAll
    have h := addE_eq reg f
    cases ha : addE reg f with
    | error e => rw [ha] at h; simp only [eo] at h; rw [← h]; rfl
    | ok r => rw [ha] at h; simp only [eo] at h; rw [← h]; exact addAllE_eq fs r

theorem compileE_ok_iff (fs : List SoyFile) : compileE fs = .ok () ↔ compileOk fs = true := by
  unfold compileE compileOk
  have h := addAllE_eq fs []
  cases ha : addAllE [] fs with
  | error e => rw [ha] at h; simp only [eo] at h; rw [← h]; simp
  | ok reg =>
    rw [ha] at h; simp only [eo] at h; rw [← h]
    simp only
    have := checkE_ok_iff (toCheck reg)
    cases hc : checkE (toCheck reg) with
    | error e => rw [hc] at this; simp at this ⊢; exact this
    | ok u => rw [hc] at this; simpa using this.1 rfl

/-! ## 2. which error: the first failing template's own error -/

/-- the error of a template's own check (meaningful when it fails) -/
def errOf (reg : List Template) (t : Template) : ErrKind :=
  match checkOneE reg t with
  | .error k => k
  | .ok _ => default

theorem checkLoop_first (reg : List Template) : ∀ ts : List Template,
    checkLoop reg ts = match ts.find? (fun t => !checkOne reg t) with
      | none => .ok ()
      | some t => .error ⟨t.name, errOf reg t⟩
  | [] => rfl
  | t :: r => by
    have h1 := checkOneE_ok_iff reg t
    unfold checkLoop
    cases hc : checkOneE reg t with
    | error k =>
      have : checkOne reg t = false := by
        cases h : checkOne reg t with
        | false => rfl
        | true => rw [h1.2 h] at hc; cases hc
      simp [List.find?_cons, this, errOf, hc]
    | ok u =>
      have : checkOne reg t = true := h1.1 (by rw [hc])
      simp only [List.find?_cons, this, Bool.not_true]
      exact checkLoop_first reg r

/-- FULL: `CheckDataRefs` reports the error of the first template, in registry order, whose own check
    fails, under that template's name -/
theorem checkE_first (reg : List Template) :
    checkE reg = match firstFailing reg with
      | none => .ok ()
      | some t => .error ⟨t.name, errOf reg t⟩ :=
  checkLoop_first reg reg

/-! ## 3. what the error depends on -/

/-- the parameter list found under a template name (first match) -/
def sigOf (reg : List Template) (n : Bytes) : Option (List Param) := (reg.find? (fun t => t.name == n)).map (·.params)

/-- two registries give every callee name the same signature -/
def SigEq (reg reg' : List Template) : Prop := ∀ n : Bytes, sigOf reg n = sigOf reg' n

theorem sigEq_of_lookupEq {reg reg' : List Template} (h : LookupEq reg reg') : SigEq reg reg' := by
  intro n; unfold sigOf; rw [h n]

section
variable {reg reg' : List Template} (h : SigEq reg reg') (params : List Bytes)
include h

theorem checkCallE_ext (name : Bytes) (allData hasData : Bool) (pk : List Bytes) :
    checkCallE reg params name allData hasData pk = checkCallE reg' params name allData hasData pk := by
  have hs := h name
  unfold sigOf at hs
  unfold checkCallE
  cases h1 : reg.find? (fun t => t.name == name) with
  | none =>
    cases h2 : reg'.find? (fun t => t.name == name) with
    | none => rfl
    | some c' => rw [h1, h2] at hs; cases hs
  | some c =>
    cases h2 : reg'.find? (fun t => t.name == name) with
    | none => rw [h1, h2] at hs; cases hs
    | some c' =>
      rw [h1, h2] at hs
      simp only [Option.map_some, Option.some.injEq] at hs
      simp only [hs]

mutual
  theorem checkCmdE_ext : ∀ c : Cmd, checkCmdE reg params c = checkCmdE reg' params c
    | .rawText .. => by unfold checkCmdE; rfl
    | .debugger .. => by unfold checkCmdE; rfl
    | .print _ a dirs => by unfold checkCmdE; rw [checkDirsE_ext dirs]
    | .msg _ _ _ _ _ body => by unfold checkCmdE; rw [checkPartsE_ext body]
    | .css _ e _ => by unfold checkCmdE; rfl
    | .log _ b => by unfold checkCmdE; rw [checkBlockE_ext b]
    | .ifc _ conds => by unfold checkCmdE; rw [checkCondsE_ext conds]
    | .forc _ v l b none => by unfold checkCmdE; rw [checkBlockE_ext b]
    | .forc _ v l b (some ie) => by unfold checkCmdE; simp only [checkBlockE_ext b, checkBlockE_ext ie]
    | .switch _ v cases => by unfold checkCmdE; rw [checkCasesE_ext cases]
    | .call _ name allData d ps => by
      unfold checkCmdE
      rw [checkCallE_ext h params, checkParamsE_ext ps]
    | .letValue .. => by unfold checkCmdE; rfl
    | .letContent _ name b => by unfold checkCmdE; rw [checkBlockE_ext b]
    | .headerParam .. => by unfold checkCmdE; rfl
    | .namespace .. => by unfold checkCmdE; rfl
    | .template _ _ b _ _ => by unfold checkCmdE; rw [checkBlockE_ext b]
    | .soyDoc .. => by unfold checkCmdE; rfl
  theorem checkBlockE_ext : ∀ b : Block, checkBlockE reg params b = checkBlockE reg' params b
    | .mk _ cmds => by unfold checkBlockE; rw [checkCmdsE_ext cmds]
  theorem checkCmdsE_ext : ∀ cs : CmdList, checkCmdsE reg params cs = checkCmdsE reg' params cs
    | .nil => by unfold checkCmdsE; rfl
    | .cons c r => by unfold checkCmdsE; rw [checkCmdE_ext c, checkCmdsE_ext r]
  theorem checkDirsE_ext : ∀ ds : List Directive, checkDirsE reg params ds = checkDirsE reg' params ds
    | [] => by unfold checkDirsE; rfl
    | d :: r => by unfold checkDirsE; rw [checkDirsE_ext r]
  theorem checkCondsE_ext : ∀ cs : CondList, checkCondsE reg params cs = checkCondsE reg' params cs
    | .nil => by unfold checkCondsE; rfl
    | .cons _ c b r => by unfold checkCondsE; rw [checkBlockE_ext b, checkCondsE_ext r]
  theorem checkCasesE_ext : ∀ cs : CaseList, checkCasesE reg params cs = checkCasesE reg' params cs
    | .nil => by unfold checkCasesE; rfl
    | .cons _ vs b r => by unfold checkCasesE; rw [checkBlockE_ext b, checkCasesE_ext r]
  theorem checkParamsE_ext : ∀ ps : ParamList, checkParamsE reg params ps = checkParamsE reg' params ps
    | .nil => by unfold checkParamsE; rfl
    | .value _ _ e r => by unfold checkParamsE; rw [checkParamsE_ext r]
    | .content _ _ b r => by unfold checkParamsE; rw [checkBlockE_ext b, checkParamsE_ext r]
  theorem checkPartsE_ext : ∀ ps : MsgParts, checkPartsE reg params ps = checkPartsE reg' params ps
    | .nil => by unfold checkPartsE; rfl
    | .text _ _ r => by unfold checkPartsE; exact checkPartsE_ext r
    | .ph _ _ (.htmlTag ..) r => by unfold checkPartsE; rw [checkPartsE_ext r]
    | .ph _ _ (.cmd c) r => by unfold checkPartsE; simp only [checkCmdE_ext c, checkPartsE_ext r]
    | .plural _ _ v cases _ d r => by
      unfold checkPartsE
      rw [checkPlCasesE_ext cases, checkPartsE_ext d, checkPartsE_ext r]
  theorem checkPlCasesE_ext : ∀ cs : PluralCases, checkPlCasesE reg params cs = checkPlCasesE reg' params cs
    | .nil => by unfold checkPlCasesE; rfl
    | .cons _ _ _ b r => by unfold checkPlCasesE; rw [checkPartsE_ext b, checkPlCasesE_ext r]
end

end

/-- FULL: the result of a template's own check — accepted, or WHICH error — is a function of the template
    and of the signatures found under the callee names; nothing else of the registry matters -/
theorem checkOneE_sig_ext {reg reg' : List Template} (h : SigEq reg reg') (t : Template) :
    checkOneE reg t = checkOneE reg' t := by
  unfold checkOneE
  simp only [checkBlockE_ext h]

/-- FULL (`checkE` depends on the trees only): registries that answer every lookup by name alike give every
    template the same result -/
theorem checkE_ext {reg reg' : List Template} (h : LookupEq reg reg') (t : Template) :
    checkOneE reg t = checkOneE reg' t :=
  checkOneE_sig_ext (sigEq_of_lookupEq h) t

theorem errOf_ext {reg reg' : List Template} (h : LookupEq reg reg') (t : Template) : errOf reg t = errOf reg' t := by
  unfold errOf; rw [checkE_ext h t]

/-! ## 4. one failing template: the same error under every order -/

/-- FULL: with distinct template names, if exactly one template of the registry fails its check, every
    permutation of the registry reports the same error — the same template name, kind and payload -/
theorem checkE_perm_single {reg reg' : List Template} (hp : reg.Perm reg') (nd : (reg.map (·.name)).Nodup)
    (t : Template) (h1 : failing reg = [t]) :
    checkE reg = .error ⟨t.name, errOf reg t⟩ ∧ checkE reg' = checkE reg := by
  obtain ⟨hf', hf⟩ := single_failure_perm hp nd t h1
  rw [checkE_first reg, checkE_first reg', hf, hf']
  simp only [true_and]
  rw [errOf_ext (lookupEq_of_perm hp nd) t]

/-- … and for a bundle: the files in any other order are accepted by `Registry.Add` alike, and if exactly one
    template fails `CheckDataRefs`, compilation reports the same error -/
theorem compileE_perm_single {fs fs' : List SoyFile} (hp : fs.Perm fs') (reg : Reg)
    (h1 : addAllE [] fs = .ok reg) (t : Template) (hone : failing (toCheck reg) = [t]) :
    compileE fs = .error (.check ⟨t.name, errOf (toCheck reg) t⟩) ∧ compileE fs' = compileE fs := by
  have e1 : addAll [] fs = some reg := by rw [← addAllE_eq, h1]; rfl
  obtain ⟨hsome, hreg⟩ := addAll_perm hp
  have hs' : (addAll [] fs').isSome = true := by rw [← hsome, e1]; rfl
  obtain ⟨reg', e2⟩ := Option.isSome_iff_exists.mp hs'
  have h2 : addAllE [] fs' = .ok reg' := by
    have := addAllE_eq fs' []
    rw [e2] at this
    cases ha : addAllE [] fs' with
    | error e => rw [ha] at this; cases this
    | ok r => rw [ha] at this; simp only [eo, Option.some.injEq] at this; rw [this]
  obtain ⟨hperm, hnd⟩ := hreg reg reg' e1 e2
  obtain ⟨hc, hc'⟩ := checkE_perm_single (reg := toCheck reg) (reg' := toCheck reg')
    (by unfold toCheck; exact hperm.map _) (by rw [toCheck_names]; exact hnd) t hone
  unfold compileE
  rw [h1, h2]
  simp only [hc', hc, true_and]

/-! ## non-vacuity -/

/-- `{$z}` in template nc.v: the error is "data ref "z" not found. params: [], let variables: []" under the
    template's name — in every order of the three files -/
example : compileE [fileA, fileB, fileBad] = .error (.check ⟨[110, 99, 46, 118], .dataRefNotFound [122] [] []⟩) ∧
    compileE [fileBad, fileB, fileA] = .error (.check ⟨[110, 99, 46, 118], .dataRefNotFound [122] [] []⟩) ∧
    compileE [fileB, fileBad, fileA] = .error (.check ⟨[110, 99, 46, 118], .dataRefNotFound [122] [] []⟩) := by decide
example : compileE [fileA, fileB] = .ok () ∧ compileE [fileB, fileB] = .error (.reg (.duplicate [110, 98, 46, 117])) ∧
    compileE [fileA] = .error (.check ⟨[110, 97, 46, 116], .callNotFound [110, 98, 46, 117]⟩) := by decide

/-- two independent errors (an unknown callee in na.t, an undeclared variable in nc.v): which one is reported
    depends on the order of the files — the only thing the property lets vary -/
example : compileE [fileA, fileBad] = .error (.check ⟨[110, 97, 46, 116], .callNotFound [110, 98, 46, 117]⟩) ∧
    compileE [fileBad, fileA] = .error (.check ⟨[110, 99, 46, 118], .dataRefNotFound [122] [] []⟩) := by decide

/-- a template with params `a b c`, `{let $p}{let $q}` unused, … : the name lists come in declaration order -/
def tUnused : Template :=
  { name := [116], params := [⟨[97], false⟩, ⟨[98], false⟩, ⟨[99], true⟩],
    body := .mk 0 (.cons (.print 0 (.dataRef 0 [98] .nil) []) .nil) }
example : checkE [tUnused] = .error ⟨[116], .unusedParams [[97], [99]]⟩ := by decide
def tLets : Template :=
  { name := [116], params := [],
    body := .mk 0 (.cons (.letValue 0 [112] (.int 0 1)) (.cons (.letValue 0 [113] (.int 0 2)) (.cons (.letValue 0 [114] (.int 0 3))
      (.cons (.print 0 (.dataRef 0 [113] .nil) []) .nil)))) }
example : checkE [tLets] = .error ⟨[116], .unusedLets [[112], [114]]⟩ := by decide

/-- `{isFirst($a)}` with `a` a param: "…: the argument of isFirst must be the variable of an enclosing foreach or
    for loop"; in the body of `{foreach $a in $a}` the same print is accepted -/
def tLoopFn (inLoop : Bool) : Template :=
  let p : Cmd := .print 0 (.func 0 [105, 115, 70, 105, 114, 115, 116] (.cons (.dataRef 0 [97] .nil) .nil)) []
  { name := [116], params := [⟨[97], false⟩],
    body := .mk 0 (.cons (if inLoop then .forc 0 [97] (.dataRef 0 [97] .nil) (.mk 0 (.cons p .nil)) none else p) .nil) }
example : checkE [tLoopFn false] = .error ⟨[116], .loopFuncArg [105, 115, 70, 105, 114, 115, 116]⟩ ∧
    checkE [tLoopFn true] = .ok () := by decide

/-- `{$z}` written after the template of a file (never checked, never rendered): `Registry.Add` answers
    "command outside of a template: {$z}" (/repo b05b95a); raw text and doc comments there are fine -/
def fileOutside (c : Cmd) : SoyFile :=
  { name := [100], text := [], body := [.namespace 0 [110, 100] .unspecified,
      .template 0 [110, 100, 46, 119] (.mk 0 (.cons (.rawText 0 [120]) .nil)) .unspecified false, c] }
example : compileE [fileB, fileOutside (.print 0 (.dataRef 0 [122] .nil) [])] = .error (.reg .commandOutside) ∧
    compileE [fileOutside (.letValue 0 [105, 106] (.int 0 1)), fileB] = .error (.reg .commandOutside) ∧
    compileE [fileB, fileOutside (.rawText 0 [10])] = .ok () ∧
    compileE [fileB, fileOutside (.soyDoc 0 [])] = .ok () := by decide

/-- the theorem applied: the registry of `[fileA, fileB, fileBad]` has exactly one failing template -/
example : compileE [fileB, fileA, fileBad] = compileE [fileA, fileB, fileBad] := by
  have hp : [fileA, fileB, fileBad].Perm [fileB, fileA, fileBad] := List.Perm.swap _ _ _
  obtain ⟨reg, hreg⟩ : ∃ reg, addAllE [] [fileA, fileB, fileBad] = .ok reg := ⟨_, rfl⟩
  exact (compileE_perm_single hp reg hreg ((toCheck reg).getD 2 default) (by
    have : reg = _ := (Except.ok.inj (hreg.symm.trans rfl))
    subst this; rfl)).2

end SoyVerif.Props.C13c
