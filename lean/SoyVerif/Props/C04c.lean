/-
  C04 — expression stage with VARIABLES, DATA REFERENCES and the pure built-ins (partial).

  `gen_correct_refs_partial` widens `Props/C04.gen_correct_expr_partial`: expressions may contain
    * variables: a name bound in the generator's scope (let / loop variables, under the `makevar`
      renaming) or a template parameter (`opt_data.x`),
    * accesses `.k`, `[n]` (n ≥ 0) and a null-safe LAST access `?.k` / `?[n]`,
    * `$ij` references (`opt_ijData…`: the third parameter of the function; `IjRel`: it holds the JSON image of the
      injected data; a function called WITHOUT injected data is outside the subset, `unspec`),
    * compile-time GLOBALS with a scalar value (null / bool / int / string): the table `Globals.tbl` — an instance
      parameter of the development — is what parsepasses.SetGlobals substitutes; the generator model looks a global
      up when it meets the node (the substitution FUSED into the walk, `GlobalsAre o`: `Options.globals` is the table),
      the translation does the same, and `GlobRel`: the Soy environment's globals hold the same values,
    * `isNonnull`, `length`, `min`, `max`, and `floor` / `ceiling` / `round` (one argument),
  under an ENVIRONMENT RELATION `EnvRel sc env jenv` between the Soy environment, the generator's
  scope and the JavaScript variables: every visible Soy variable `k` is held, as its JSON image,
  by the JavaScript local `sc.lookup k` if the scope binds `k`, by `opt_data.k` otherwise.

  The values are those of Spec/JsSemRef: null / undefined / booleans / exact integers / strings and
  lists and maps of them (no floats).  See the end of the file for what remains unproved.
-/
import SoyVerif.Spec.JsSemRef
import SoyVerif.Spec.Eval
import SoyVerif.Model.JsGen
import SoyVerif.Props.C04
import SoyVerif.Lemmas.JsGenTop

namespace SoyVerif.Props.C04c
open SoyVerif SoyVerif.Model SoyVerif.Model.JsGen SoyVerif.Spec.JsSemRef
open SoyVerif.Spec.JsSem (JsOp exact)
open SoyVerif.Props.C04 (opOf opSym jsOp_sym)
open SoyVerif.Lemmas.JsGenSpec (ScopeShape ScopeOk scopeOk_shape)

/-! ## translation -/

/-- the compile-time GLOBALS: the map `parsepasses.SetGlobals` substitutes into the global nodes of the tree before
    generation.  The generator model looks a global up in `Options.globals` when it meets the node (the substitution
    fused into the walk); the translation does the same in this table — an instance parameter of the whole development
    (`GlobalsAre o`: it is the table of the generator's options). -/
class Globals where
  tbl : List (Bytes × Value)

set_option linter.unusedSectionVars false

variable [Globals]

/-- a scalar global as the literal the generator writes for it (`walkValue`) -/
def globalAst : Value → Option JsExpr
  | .null => some .null
  | .bool b => some (.bool b)
  | .int i => some (.num i.toInt)
  | .str s => some (.str s)
  | _ => none

/-- … and as the value Spec/Eval holds for it -/
def globalVal : Value → Spec.Eval.Val
  | .null => .null
  | .bool b => .bool b
  | .int i => .int i.toInt
  | .str s => .str s
  | _ => .undefined

/-- the generator's options carry the table of the translation -/
class GlobalsAre (o : Options) : Prop where
  eq : o.globals = Globals.tbl

def sIsNonnull : Bytes := b!"isNonnull"
def sLength : Bytes := b!"length"
def sFloor : Bytes := b!"floor"
def sCeiling : Bytes := b!"ceiling"
def sRound : Bytes := b!"round"
def sMin : Bytes := b!"min"
def sMax : Bytes := b!"max"
def sIj : Bytes := b!"ij"

def fn1Of (name : Bytes) : Option Fn1 :=
  if name == sIsNonnull then some .nonNull
  else if name == sLength then some .length
  else if name == sFloor then some .floor
  else if name == sCeiling then some .ceil
  else if name == sRound then some .round
  else none

def fn2Of (name : Bytes) : Option Fn2 :=
  if name == sMin then some .min
  else if name == sMax then some .max
  else none

/-- the accesses of a data reference on the text `x` accumulated so far: plain accesses, and a
    null-safe access in LAST position (what follows a null-safe hit is open in the specification) -/
def accAst : AccessList → JsExpr → Option JsExpr
  | .nil, x => some x
  | .cons (.key _ ns k) rest, x =>
    if k.isEmpty then none
    else if ns then (match rest with
      | .nil => some (.guard x (.member x k))
      | _ => none)
    else accAst rest (.member x k)
  | .cons (.index _ ns i) rest, x =>
    if i < 0 then none
    else if ns then (match rest with
      | .nil => some (.guard x (.index x i))
      | _ => none)
    else accAst rest (.index x i)
  | .cons (.expr _ _ _) _, _ => none

def sIndex : Bytes := b!"index"
def sIsFirst : Bytes := b!"isFirst"
def sIsLast : Bytes := b!"isLast"

def isLoopName (name : Bytes) : Bool := name == sIndex || name == sIsFirst || name == sIsLast

/-- the last-iteration test of the loop whose frame is `f` (a range loop has a step) -/
def lastAst (f : Frame) (v : Bytes) : Option JsExpr :=
  match frameGet? f (Scope.kStep ++ v) with
  | some step =>
    (match frameGet? f (Scope.kVar ++ v), frameGet? f (Scope.kLimit ++ v) with
      | some lv, some lim => some (.loopLastRange lv step lim)
      | _, _ => none)
  | none =>
    (match frameGet? f (Scope.kIndex ++ v), frameGet? f (Scope.kLimit ++ v) with
      | some idx, some lim => some (.loopLastEach idx lim)
      | _, _ => none)

/-- index($v) / isFirst($v) / isLast($v) on a loop variable of the scope -/
def loopAst (sc : Scope) (name : Bytes) : ExprList → Option JsExpr
  | .cons (.dataRef _ key .nil) .nil =>
    if name == sIndex then (sc.loopindex key).map .local
    else if name == sIsFirst then (sc.loopindex key).map .loopFirst
    else (Scope.loopFrame sc.stack key).bind fun f => lastAst f key
  | _ => none

/-- the translation, in the generator scope `sc` -/
def toAst (sc : Scope) : Expr → Option JsExpr
  | .null _ => some .null
  | .bool _ b => some (.bool b)
  | .int _ v => some (.num v)
  | .str _ _ v => some (.str v)
  | .neg _ a => (toAst sc a).map .neg
  | .not _ a => (toAst sc a).map .not
  | .bin op _ a b =>
    match op with
    | .elvis => match toAst sc a, toAst sc b with
      | some ja, some jb => some (.nonNullElse ja ja jb)
      | _, _ => none
    | op => match opOf op, toAst sc a, toAst sc b with
      | some jo, some ja, some jb => some (.bin jo ja jb)
      | _, _, _ => none
  | .tern _ c a b => match toAst sc c, toAst sc a, toAst sc b with
    | some jc, some ja, some jb => some (.cond jc ja jb)
    | _, _, _ => none
  | .global _ name =>
    match assocGet? Globals.tbl name with
    | some v => globalAst v
    | none => none
  | .dataRef _ key acc =>
    if key == sIj then
      -- `$ij…`: the third parameter of the function
      (accAst acc .ijData).map fun j => if anyNullSafe acc then .paren j else j
    else if key == sIj || key.contains 36 then none          -- a Soy name has no "$"
    else
      let base : JsExpr := match sc.lookup key with
        | some g => .local g
        | none => .optData key
      (accAst acc base).map fun j => if anyNullSafe acc then .paren j else j
  | .func _ name args =>
    if isLoopName name then loopAst sc name args
    else match args with
    | .cons a .nil => match fn1Of name, toAst sc a with
      | some f, some ja => some (.call1 f ja)
      | _, _ => none
    | .cons a (.cons b .nil) => match fn2Of name, toAst sc a, toAst sc b with
      | some f, some ja, some jb => some (.call2 f ja jb)
      | _, _, _ => none
    | _ => none
  | _ => none

/-- the text of a `JsExpr`, in the generator's pieces -/
def render : JsExpr → List Piece
  | .null => [.fixed b!"null"]
  | .bool b => [.fixed (if b then b!"true" else b!"false")]
  | .num i => [.int i]
  | .str s => [.fixed b!"'", .escaped s, .fixed b!"'"]
  | .neg a => [.fixed b!"(- "] ++ render a ++ [.fixed b!")"]
  | .not a => [.fixed b!"!("] ++ render a ++ [.fixed b!")"]
  | .bin op a b => [.fixed b!"(("] ++ render a ++ [.fixed b!") ", .fixed (opSym op), .fixed b!" ("] ++ render b ++ [.fixed b!"))"]
  | .cond c a b => [.fixed b!"(("] ++ render c ++ [.fixed b!") ?"] ++ render a ++ [.fixed b!":"] ++ render b ++ [.fixed b!")"]
  | .nonNullElse a a' b =>
    [.fixed b!"(("] ++ render a ++ [.fixed b!") != null ? "] ++ render a' ++ [.fixed b!" : "] ++ render b ++ [.fixed b!")"]
  | .local g => [.ident g]
  | .optData k => [.fixed b!"opt_data.", .ident k]
  | .ijData => [.fixed b!"opt_ijData"]
  | .member x k => render x ++ [.fixed b!".", .ident k]
  | .index x i => render x ++ [.fixed b!"[", .int i, .fixed b!"]"]
  | .guard g r => [.fixed b!"("] ++ render g ++ [.fixed b!" == null) ? null : "] ++ render r
  | .paren x => [.fixed b!"("] ++ render x ++ [.fixed b!")"]
  | .call1 .floor a => [.fixed b!"Math.floor("] ++ render a ++ [.fixed b!")"]
  | .call1 .ceil a => [.fixed b!"Math.ceil("] ++ render a ++ [.fixed b!")"]
  | .call1 .round a => [.fixed b!"Math.round("] ++ render a ++ [.fixed b!")"]
  | .call1 .length a => [.fixed b!"("] ++ render a ++ [.fixed b!").length"]
  | .call1 .nonNull a => [.fixed b!"("] ++ render a ++ [.fixed b!" != null)"]
  | .call2 .min a b => [.fixed b!"Math.min("] ++ render a ++ [.fixed b!","] ++ render b ++ [.fixed b!")"]
  | .call2 .max a b => [.fixed b!"Math.max("] ++ render a ++ [.fixed b!","] ++ render b ++ [.fixed b!")"]
  | .loopFirst idx => [.fixed b!"(", .ident idx, .fixed b!" == 0)"]
  | .loopLastEach idx lim => [.fixed b!"(", .ident idx, .fixed b!" == ", .ident lim, .fixed b!" - 1)"]
  | .loopLastRange v step lim => [.fixed b!"(", .ident v, .fixed b!" + ", .ident step, .fixed b!" >= ", .ident lim, .fixed b!")"]

/-! ## the generator writes `render (toAst sc e)` in every state whose scope is `sc` -/

/-- the fields the walk of an expression leaves alone (it moves `node` / `lastNode` and records the
    functions called, nothing else) -/
def Same (s s' : St) : Prop :=
  s'.indent = s.indent ∧ s'.ns = s.ns ∧ s'.bufferName = s.bufferName ∧ s'.autoescape = s.autoescape ∧
  s'.funcsInFile = s.funcsInFile

theorem Same.refl (s : St) : Same s s := ⟨rfl, rfl, rfl, rfl, rfl⟩
theorem Same.trans {a b c : St} (h1 : Same a b) (h2 : Same b c) : Same a c :=
  ⟨h2.1.trans h1.1, h2.2.1.trans h1.2.1, h2.2.2.1.trans h1.2.2.1, h2.2.2.2.1.trans h1.2.2.2.1, h2.2.2.2.2.trans h1.2.2.2.2⟩

/-- from every state with scope `sc`, `m` succeeds, writes exactly `ps` and leaves the scope (and
    indentation, buffer name, autoescape mode) alone -/
def RunsSc (sc : Scope) (m : M Unit) (ps : List Piece) : Prop :=
  ∀ s, s.scope = sc → ∃ s', m s = .ok ((), ps, s') ∧ s'.scope = sc ∧ Same s s'

theorem RunsSc.seq {sc : Scope} {m k : M Unit} {ps qs : List Piece} (hm : RunsSc sc m ps) (hk : RunsSc sc k qs) :
    RunsSc sc (m >>= fun _ => k) (ps ++ qs) := by
  intro s hs
  obtain ⟨s1, h1, hs1, e1⟩ := hm s hs
  obtain ⟨s2, h2, hs2, e2⟩ := hk s1 hs1
  exact ⟨s2, by simp [Bind.bind, M.bind, h1, h2], hs2, e1.trans e2⟩

theorem RunsSc.fx {sc : Scope} (t : Bytes) : RunsSc sc (fx t) [.fixed t] := fun s hs => ⟨s, rfl, hs, Same.refl s⟩
theorem RunsSc.emit {sc : Scope} (p : Piece) : RunsSc sc (emit p) [p] := fun s hs => ⟨s, rfl, hs, Same.refl s⟩
theorem RunsSc.emits {sc : Scope} (ps : List Piece) : RunsSc sc (emits ps) ps := fun s hs => ⟨s, rfl, hs, Same.refl s⟩
theorem RunsSc.atOther {sc : Scope} : RunsSc sc atOther [] := fun _ hs => ⟨_, rfl, hs, rfl, rfl, rfl, rfl, rfl⟩
theorem RunsSc.pure {sc : Scope} : RunsSc sc (pure ()) [] := fun s hs => ⟨s, rfl, hs, Same.refl s⟩
theorem RunsSc.cast {sc : Scope} {m : M Unit} {ps qs : List Piece} (h : RunsSc sc m ps) (e : ps = qs) : RunsSc sc m qs := e ▸ h

theorem RunsSc.whenAddCalled {sc : Scope} (c : Bool) (k : Bytes) (v : List Piece) : RunsSc sc (whenM c (addCalled k v)) [] := by
  intro s hs
  cases c
  · exact ⟨s, rfl, hs, Same.refl s⟩
  · exact ⟨_, rfl, hs, rfl, rfl, rfl, rfl, rfl⟩

theorem RunsSc.whenFx {sc : Scope} (c : Bool) (t : Bytes) : RunsSc sc (whenM c (JsGen.fx t)) (if c then [.fixed t] else []) := by
  intro s hs
  cases c
  · exact ⟨s, rfl, hs, Same.refl s⟩
  · exact ⟨s, rfl, hs, Same.refl s⟩

theorem RunsSc.bindScope {sc : Scope} {k : Scope → M Unit} {ps : List Piece} (h : RunsSc sc (k sc) ps) :
    RunsSc sc (getScope >>= k) ps := by
  intro s hs
  obtain ⟨s', h', hs', e'⟩ := h s hs
  refine ⟨s', ?_, hs', e'⟩
  simp only [Bind.bind, M.bind, getScope, hs, h', List.nil_append]

section
variable (sk : List Bytes → List Bytes) (o : Options) [GlobalsAre o]

theorem visitAccess_renders (sc : Scope) : ∀ (acc : AccessList) (x j : JsExpr), accAst acc x = some j →
    RunsSc sc (visitAccess sk o acc (render x)) (render j)
  | .nil, x, j, h => by
    simp only [accAst, Option.some.injEq] at h; subst h
    unfold visitAccess
    exact RunsSc.emits _
  | .cons (.key p ns k) rest, x, j, h => by
    unfold accAst at h
    split at h
    · cases h
    · cases ns with
      | false =>
        simp only [Bool.false_eq_true, if_false] at h
        unfold visitAccess
        have ih := visitAccess_renders sc rest (.member x k) j h
        exact (RunsSc.seq (RunsSc.pure) ih).cast (by simp)
      | true =>
        simp only [if_true] at h
        cases rest with
        | nil =>
          simp only [Option.some.injEq] at h; subst h
          unfold visitAccess
          have h1 : RunsSc sc (whenM true (do fx b!"("; emits (render x); fx b!" == null) ? null : ")) _ :=
            RunsSc.seq (RunsSc.fx _) (RunsSc.seq (RunsSc.emits _) (RunsSc.fx _))
          have h2 : RunsSc sc (visitAccess sk o .nil (render x ++ [.fixed b!".", .ident k])) (render x ++ [.fixed b!".", .ident k]) := by
            unfold visitAccess; exact RunsSc.emits _
          exact (RunsSc.seq h1 h2).cast (by simp [render])
        | cons _ _ => cases h
  | .cons (.index p ns i) rest, x, j, h => by
    unfold accAst at h
    split at h
    · cases h
    · cases ns with
      | false =>
        simp only [Bool.false_eq_true, if_false] at h
        unfold visitAccess
        have ih := visitAccess_renders sc rest (.index x i) j h
        exact (RunsSc.seq (RunsSc.pure) ih).cast (by simp)
      | true =>
        simp only [if_true] at h
        cases rest with
        | nil =>
          simp only [Option.some.injEq] at h; subst h
          unfold visitAccess
          have h1 : RunsSc sc (whenM true (do fx b!"("; emits (render x); fx b!" == null) ? null : ")) _ :=
            RunsSc.seq (RunsSc.fx _) (RunsSc.seq (RunsSc.emits _) (RunsSc.fx _))
          have h2 : RunsSc sc (visitAccess sk o .nil (render x ++ [.fixed b!"[", .int i, .fixed b!"]"])) (render x ++ [.fixed b!"[", .int i, .fixed b!"]"]) := by
            unfold visitAccess; exact RunsSc.emits _
          exact (RunsSc.seq h1 h2).cast (by simp [render])
        | cons _ _ => cases h
  | .cons (.expr _ _ _) _, x, j, h => by simp [accAst] at h

/-! ### the live function table says what we read (TABLE OBLIGATIONS, by evaluation) -/

def partsOf (name : Bytes) (arity : Nat) : Option (List Gen.JsFnPart) :=
  (findFunc name).bind fun f => (f.emit[arity]?).join

theorem tbl_floor : partsOf sFloor 1 = some [.text b!"Math.floor(", .arg 0, .text b!")"] := rfl
theorem tbl_ceiling : partsOf sCeiling 1 = some [.text b!"Math.ceil(", .arg 0, .text b!")"] := rfl
theorem tbl_round : partsOf sRound 1 = some [.text b!"Math.round(", .arg 0, .text b!")"] := rfl
theorem tbl_length : partsOf sLength 1 = some [.text b!"(", .arg 0, .text b!").length"] := rfl
theorem tbl_isNonnull : partsOf sIsNonnull 1 = some [.text b!"(", .arg 0, .text b!" != null)"] := rfl
theorem tbl_min : partsOf sMin 2 = some [.text b!"Math.min(", .arg 0, .text b!",", .arg 1, .text b!")"] := rfl
theorem tbl_max : partsOf sMax 2 = some [.text b!"Math.max(", .arg 0, .text b!",", .arg 1, .text b!")"] := rfl

/-- a call of a table function, given what the table records for this arity -/
theorem func_runs (sc : Scope) (p : Nat) (name : Bytes) (args : ExprList) (parts : List Gen.JsFnPart) (ps : List Piece)
    (ht : partsOf name args.length = some parts)
    (hp : RunsSc sc (applyParts (argWalkers sk o args) parts) ps) :
    RunsSc sc (walkExpr sk o (.func p name args)) ps := by
  unfold partsOf at ht
  unfold walkExpr
  cases hf : findFunc name with
  | none => simp [hf] at ht
  | some f =>
    simp only [hf, Option.bind_some] at ht
    have he : applyFn (argWalkers sk o args) f.emit[args.length]? = applyParts (argWalkers sk o args) parts := by
      cases h1 : f.emit[args.length]? with
      | none => simp [h1] at ht
      | some x =>
        cases x with
        | none => simp [h1] at ht
        | some pp =>
          simp only [h1, Option.join, Option.bind_some, id, Option.some.injEq] at ht
          subst ht
          rfl
    simp only
    rw [he]
    exact (RunsSc.seq RunsSc.atOther (RunsSc.seq hp (RunsSc.whenAddCalled _ _ _))).cast (by simp)

theorem orFail_some (w : M Unit) : orFail (some w) = w := rfl

/-- `applyParts` for the two shapes of template used here -/
theorem parts1_runs (sc : Scope) (a : Expr) (pa : List Piece) (ha : RunsSc sc (walkExpr sk o a) pa) (pre post : Bytes) :
    RunsSc sc (applyParts (argWalkers sk o (.cons a .nil)) [.text pre, .arg 0, .text post]) ([.fixed pre] ++ pa ++ [.fixed post]) := by
  unfold argWalkers argWalkers
  simp only [applyParts, List.getElem?_cons_zero, orFail_some]
  exact (RunsSc.seq (RunsSc.fx _) (RunsSc.seq ha (RunsSc.seq (RunsSc.fx _) RunsSc.pure))).cast (by simp)

theorem parts1post_runs (sc : Scope) (a : Expr) (pa : List Piece) (ha : RunsSc sc (walkExpr sk o a) pa) (post : Bytes) :
    RunsSc sc (applyParts (argWalkers sk o (.cons a .nil)) [.arg 0, .text post]) (pa ++ [.fixed post]) := by
  unfold argWalkers argWalkers
  simp only [applyParts, List.getElem?_cons_zero, orFail_some]
  exact (RunsSc.seq ha (RunsSc.seq (RunsSc.fx _) RunsSc.pure)).cast (by simp)

theorem parts2_runs (sc : Scope) (a b : Expr) (pa pb : List Piece) (ha : RunsSc sc (walkExpr sk o a) pa)
    (hb : RunsSc sc (walkExpr sk o b) pb) (pre mid post : Bytes) :
    RunsSc sc (applyParts (argWalkers sk o (.cons a (.cons b .nil))) [.text pre, .arg 0, .text mid, .arg 1, .text post])
      ([.fixed pre] ++ pa ++ [.fixed mid] ++ pb ++ [.fixed post]) := by
  unfold argWalkers argWalkers argWalkers
  simp only [applyParts, List.getElem?_cons_zero, List.getElem?_cons_succ, orFail_some]
  exact (RunsSc.seq (RunsSc.fx _) (RunsSc.seq ha (RunsSc.seq (RunsSc.fx _) (RunsSc.seq hb (RunsSc.seq (RunsSc.fx _) RunsSc.pure))))).cast
    (by simp)

theorem beq_true_eq {a b : Bytes} (h : (a == b) = true) : a = b := by simpa using h

theorem tbl_index : findFunc sIndex = none := rfl
theorem tbl_isFirst : findFunc sIsFirst = none := rfl
theorem tbl_isLast : findFunc sIsLast = none := rfl

theorem looplast_render (sc : Scope) (key : Bytes) (f : Frame) (j : JsExpr) (hf : Scope.loopFrame sc.stack key = some f)
    (hj : lastAst f key = some j) : looplast sc key = render j := by
  unfold looplast
  rw [hf]
  unfold lastAst at hj
  cases hs : frameGet? f (Scope.kStep ++ key) with
  | some step =>
    simp only [hs] at hj ⊢
    cases hv : frameGet? f (Scope.kVar ++ key) <;> cases hl : frameGet? f (Scope.kLimit ++ key) <;> simp [hv, hl] at hj
    subst hj
    simp [identOrEmpty, render]
  | none =>
    simp only [hs] at hj ⊢
    cases hv : frameGet? f (Scope.kIndex ++ key) <;> cases hl : frameGet? f (Scope.kLimit ++ key) <;> simp [hv, hl] at hj
    subst hj
    simp [identOrEmpty, render]

/-- index / isFirst / isLast of a loop variable: the generator writes the translation -/
theorem loop_runs (sc : Scope) (p : Nat) (name : Bytes) (args : ExprList) (j : JsExpr) (hn : isLoopName name = true)
    (h : loopAst sc name args = some j) : RunsSc sc (walkExpr sk o (.func p name args)) (render j) := by
  cases args with
  | nil => simp [loopAst] at h
  | cons a r =>
    cases r with
    | cons _ _ => cases a <;> simp [loopAst] at h
    | nil =>
      cases a with
      | dataRef dp key acc =>
        cases acc with
        | cons _ _ => simp [loopAst] at h
        | nil =>
          simp only [loopAst] at h
          unfold walkExpr
          simp only [isLoopName, Bool.or_eq_true] at hn
          by_cases h1 : (name == sIndex) = true
          · have := beq_true_eq h1; subst this
            simp only [beq_self_eq_true, if_true, Option.map_eq_some_iff] at h
            obtain ⟨idx, hidx, rfl⟩ := h
            simp only [tbl_index]
            refine (RunsSc.seq RunsSc.atOther ?_).cast (List.nil_append _)
            have : Scope.loopindex sc (loopVarOf (.cons (.dataRef dp key .nil) .nil)) = some idx := hidx
            simp only [show (sIndex == b!"isFirst") = false from rfl, show (sIndex == b!"isLast") = false from rfl,
              show (sIndex == b!"index") = true from rfl, Bool.false_eq_true, if_false, if_true]
            refine RunsSc.bindScope ?_
            rw [this]
            exact (RunsSc.emit _).cast (by simp [identOrEmpty, render])
          · by_cases h2 : (name == sIsFirst) = true
            · have := beq_true_eq h2; subst this
              simp only [show (sIsFirst == sIndex) = false from rfl, Bool.false_eq_true, if_false, beq_self_eq_true, if_true,
                Option.map_eq_some_iff] at h
              obtain ⟨idx, hidx, rfl⟩ := h
              simp only [tbl_isFirst]
              refine (RunsSc.seq RunsSc.atOther ?_).cast (List.nil_append _)
              have : Scope.loopindex sc (loopVarOf (.cons (.dataRef dp key .nil) .nil)) = some idx := hidx
              simp only [show (sIsFirst == b!"isFirst") = true from rfl, if_true]
              refine RunsSc.bindScope ?_
              rw [this]
              exact (RunsSc.seq (RunsSc.fx _) (RunsSc.seq (RunsSc.emit _) (RunsSc.fx _))).cast (by simp [identOrEmpty, render])
            · have h3 : name = sIsLast := by
                rcases hn with (hn | hn) | hn
                · exact absurd hn h1
                · exact absurd hn h2
                · exact beq_true_eq hn
              subst h3
              simp only [show (sIsLast == sIndex) = false from rfl, show (sIsLast == sIsFirst) = false from rfl,
                Bool.false_eq_true, if_false] at h
              cases hf : Scope.loopFrame sc.stack key with
              | none => simp [hf] at h
              | some f =>
                simp only [hf, Option.bind_some] at h
                simp only [tbl_isLast]
                refine (RunsSc.seq RunsSc.atOther ?_).cast (List.nil_append _)
                simp only [show (sIsLast == b!"isFirst") = false from rfl, show (sIsLast == b!"isLast") = true from rfl,
                  Bool.false_eq_true, if_false, if_true]
                refine RunsSc.bindScope ?_
                have hl : looplast sc (loopVarOf (.cons (.dataRef dp key .nil) .nil)) = render j :=
                  looplast_render sc key f j hf h
                rw [hl]
                exact RunsSc.emits _
      | _ => simp [loopAst] at h

/-- PARTIAL (generator ↔ AST, with variables): in every state whose scope is `sc` the generator
    writes exactly the text of the translation, and leaves the scope as it is -/
theorem walkExpr_renders (sc : Scope) :
    ∀ (e : Expr) (j : JsExpr), toAst sc e = some j → RunsSc sc (walkExpr sk o e) (render j)
  | .null _, j, h => by
    simp only [toAst, Option.some.injEq] at h; subst h
    unfold walkExpr
    exact (RunsSc.seq RunsSc.atOther (RunsSc.fx _)).cast (by simp [render])
  | .bool _ b, j, h => by
    simp only [toAst, Option.some.injEq] at h; subst h
    unfold walkExpr
    exact (RunsSc.seq RunsSc.atOther (RunsSc.fx _)).cast (by simp [render])
  | .int _ v, j, h => by
    simp only [toAst, Option.some.injEq] at h; subst h
    unfold walkExpr
    exact (RunsSc.seq RunsSc.atOther (RunsSc.emit _)).cast (by simp [render])
  | .str _ _ v, j, h => by
    simp only [toAst, Option.some.injEq] at h; subst h
    unfold walkExpr
    exact (RunsSc.seq RunsSc.atOther (RunsSc.seq (RunsSc.fx _) (RunsSc.seq (RunsSc.emit _) (RunsSc.fx _)))).cast (by simp [render])
  | .neg _ a, j, h => by
    simp only [toAst, Option.map_eq_some_iff] at h
    obtain ⟨ja, ha, rfl⟩ := h
    unfold walkExpr
    exact (RunsSc.seq RunsSc.atOther (RunsSc.seq (RunsSc.fx _) (RunsSc.seq (walkExpr_renders sc a ja ha) (RunsSc.fx _)))).cast
      (by simp [render])
  | .not _ a, j, h => by
    simp only [toAst, Option.map_eq_some_iff] at h
    obtain ⟨ja, ha, rfl⟩ := h
    unfold walkExpr
    exact (RunsSc.seq RunsSc.atOther (RunsSc.seq (RunsSc.fx _) (RunsSc.seq (walkExpr_renders sc a ja ha) (RunsSc.fx _)))).cast
      (by simp [render])
  | .bin op _ a b, j, h => by
    unfold toAst at h
    unfold walkExpr
    cases hja : toAst sc a with
    | none => cases op <;> simp [hja] at h
    | some ja =>
      cases hjb : toAst sc b with
      | none => cases op <;> simp [hja, hjb] at h
      | some jb =>
        have ra := walkExpr_renders sc a ja hja
        have rb := walkExpr_renders sc b jb hjb
        cases hop : opOf op with
        | none =>
          cases op <;> simp [opOf] at hop
          · simp [hja, hjb, opOf] at h
          · simp only [hja, hjb, Option.some.injEq] at h
            subst h
            exact (RunsSc.seq RunsSc.atOther (RunsSc.seq (RunsSc.fx _) (RunsSc.seq ra (RunsSc.seq (RunsSc.fx _) (RunsSc.seq ra
              (RunsSc.seq (RunsSc.fx _) (RunsSc.seq rb (RunsSc.fx _)))))))).cast (by simp [render])
        | some jo =>
          have hsym := jsOp_sym op jo hop
          cases op <;> simp [opOf] at hop <;> subst hop <;>
            (simp only [hja, hjb, opOf, Option.some.injEq] at h; subst h
             exact (RunsSc.seq RunsSc.atOther (RunsSc.seq (RunsSc.fx _) (RunsSc.seq ra (RunsSc.seq (RunsSc.fx _) (RunsSc.seq (RunsSc.fx _)
               (RunsSc.seq (RunsSc.fx _) (RunsSc.seq rb (RunsSc.fx _)))))))).cast (by simp [render, jsOp, opSym]))
  | .tern _ c a b, j, h => by
    unfold toAst at h
    cases hjc : toAst sc c with
    | none => simp [hjc] at h
    | some jc =>
      cases hja : toAst sc a with
      | none => simp [hjc, hja] at h
      | some ja =>
        cases hjb : toAst sc b with
        | none => simp [hjc, hja, hjb] at h
        | some jb =>
          simp only [hjc, hja, hjb, Option.some.injEq] at h
          subst h
          unfold walkExpr
          exact (RunsSc.seq RunsSc.atOther (RunsSc.seq (RunsSc.fx _) (RunsSc.seq (walkExpr_renders sc c jc hjc) (RunsSc.seq (RunsSc.fx _)
            (RunsSc.seq (walkExpr_renders sc a ja hja) (RunsSc.seq (RunsSc.fx _) (RunsSc.seq (walkExpr_renders sc b jb hjb)
            (RunsSc.fx _)))))))).cast (by simp [render])
  | .dataRef _ key acc, j, h => by
    unfold toAst at h
    split at h
    · rename_i hkij
      simp only [Option.map_eq_some_iff] at h
      obtain ⟨j0, hacc, rfl⟩ := h
      unfold walkExpr
      refine (RunsSc.seq RunsSc.atOther (RunsSc.bindScope ?_)).cast (List.nil_append _)
      have hkey : (key == b!"ij") = true := by simpa [sIj] using hkij
      simp only [hkey, if_true]
      have hv := visitAccess_renders sk o sc acc .ijData j0 hacc
      have := RunsSc.seq (RunsSc.whenFx (sc := sc) (anyNullSafe acc) b!"(") (RunsSc.seq hv (RunsSc.whenFx (anyNullSafe acc) b!")"))
      refine this.cast ?_
      cases anyNullSafe acc <;> simp [render]
    split at h
    · cases h
    · rename_i hij
      simp only [Option.map_eq_some_iff] at h
      obtain ⟨j0, hacc, rfl⟩ := h
      unfold walkExpr
      refine (RunsSc.seq RunsSc.atOther (RunsSc.bindScope ?_)).cast (List.nil_append _)
      have hkey : (key == b!"ij") = false := by
        have : ¬ ((key == sIj) = true) := fun hh => hij (by simp [hh])
        simpa [sIj] using this
      simp only [hkey, Bool.false_eq_true, if_false]
      cases hl : sc.lookup key with
      | none =>
        simp only [hl] at hacc ⊢
        have hv := visitAccess_renders sk o sc acc (.optData key) j0 hacc
        have := RunsSc.seq (RunsSc.whenFx (sc := sc) (anyNullSafe acc) b!"(") (RunsSc.seq hv (RunsSc.whenFx (anyNullSafe acc) b!")"))
        refine this.cast ?_
        cases anyNullSafe acc <;> simp [render]
      | some g =>
        simp only [hl] at hacc ⊢
        have hv := visitAccess_renders sk o sc acc (.local g) j0 hacc
        have := RunsSc.seq (RunsSc.whenFx (sc := sc) (anyNullSafe acc) b!"(") (RunsSc.seq hv (RunsSc.whenFx (anyNullSafe acc) b!")"))
        refine this.cast ?_
        cases anyNullSafe acc <;> simp [render]
  | .func p name args, j, h => by
    unfold toAst at h
    split at h
    · rename_i hn
      exact loop_runs sk o sc p name args j hn h
    cases args with
    | nil => simp at h
    | cons a r =>
      cases r with
      | nil =>
        simp only at h
        cases hf : fn1Of name with
        | none => simp [hf] at h
        | some f1 =>
          cases hja : toAst sc a with
          | none => simp [hf, hja] at h
          | some ja =>
            simp only [hf, hja, Option.some.injEq] at h
            subst h
            have ra := walkExpr_renders sc a ja hja
            unfold fn1Of at hf
            split at hf
            · rename_i hn; have := beq_true_eq hn; subst this
              simp only [Option.some.injEq] at hf; subst hf
              exact func_runs sk o sc p _ _ _ _ tbl_isNonnull ((parts1_runs sk o sc a _ ra _ _).cast (by simp [render]))
            · split at hf
              · rename_i hn; have := beq_true_eq hn; subst this
                simp only [Option.some.injEq] at hf; subst hf
                exact func_runs sk o sc p _ _ _ _ tbl_length ((parts1_runs sk o sc a _ ra _ _).cast (by simp [render]))
              · split at hf
                · rename_i hn; have := beq_true_eq hn; subst this
                  simp only [Option.some.injEq] at hf; subst hf
                  exact func_runs sk o sc p _ _ _ _ tbl_floor ((parts1_runs sk o sc a _ ra _ _).cast (by simp [render]))
                · split at hf
                  · rename_i hn; have := beq_true_eq hn; subst this
                    simp only [Option.some.injEq] at hf; subst hf
                    exact func_runs sk o sc p _ _ _ _ tbl_ceiling ((parts1_runs sk o sc a _ ra _ _).cast (by simp [render]))
                  · split at hf
                    · rename_i hn; have := beq_true_eq hn; subst this
                      simp only [Option.some.injEq] at hf; subst hf
                      exact func_runs sk o sc p _ _ _ _ tbl_round ((parts1_runs sk o sc a _ ra _ _).cast (by simp [render]))
                    · cases hf
      | cons b r2 =>
        cases r2 with
        | cons _ _ => simp at h
        | nil =>
          simp only at h
          cases hf : fn2Of name with
          | none => simp [hf] at h
          | some f2 =>
            cases hja : toAst sc a with
            | none => simp [hf, hja] at h
            | some ja =>
              cases hjb : toAst sc b with
              | none => simp [hf, hja, hjb] at h
              | some jb =>
                simp only [hf, hja, hjb, Option.some.injEq] at h
                subst h
                have ra := walkExpr_renders sc a ja hja
                have rb := walkExpr_renders sc b jb hjb
                unfold fn2Of at hf
                split at hf
                · rename_i hn; have := beq_true_eq hn; subst this
                  simp only [Option.some.injEq] at hf; subst hf
                  exact func_runs sk o sc p _ _ _ _ tbl_min ((parts2_runs sk o sc a b _ _ ra rb _ _ _).cast (by simp [render]))
                · split at hf
                  · rename_i hn; have := beq_true_eq hn; subst this
                    simp only [Option.some.injEq] at hf; subst hf
                    exact func_runs sk o sc p _ _ _ _ tbl_max ((parts2_runs sk o sc a b _ _ ra rb _ _ _).cast (by simp [render]))
                  · cases hf
  | .float _ _, j, h => by simp [toAst] at h
  | .global _ name, j, h => by
    unfold toAst at h
    unfold walkExpr
    rw [GlobalsAre.eq (o := o)]
    cases hg : assocGet? Globals.tbl name with
    | none => simp [hg] at h
    | some v =>
      simp only [hg] at h ⊢
      cases v <;> simp only [globalAst, Option.some.injEq, reduceCtorEq] at h <;> subst h <;> unfold walkValue
      · exact (RunsSc.seq RunsSc.atOther (RunsSc.fx _)).cast (by simp [render])
      · exact (RunsSc.seq RunsSc.atOther (RunsSc.fx _)).cast (by simp [render])
      · exact (RunsSc.seq RunsSc.atOther (RunsSc.emit _)).cast (by simp [render])
      · exact (RunsSc.seq RunsSc.atOther (RunsSc.seq (RunsSc.fx _) (RunsSc.seq (RunsSc.emit _) (RunsSc.fx _)))).cast (by simp [render])
  | .list _ _, j, h => by simp [toAst] at h
  | .map _ _, j, h => by simp [toAst] at h

end

/-! ## values and environments -/

open SoyVerif.Spec.Eval (Val Out)

mutual
  /-- the JSON image of a Soy value (no floats; integers a double holds exactly) -/
  def toJsV : Val → Option JVal
    | .undefined => some .undefined
    | .null => some .null
    | .bool b => some (.bool b)
    | .int i => if exact i then some (.num i) else none
    | .float _ => none
    | .str s => some (.str s)
    | .list xs => (toJsList xs).map .arr
    | .map kvs => (toJsKvs kvs).map .obj
  def toJsList : List Val → Option (List JVal)
    | [] => some []
    | x :: r => match toJsV x, toJsList r with
      | some a, some b => some (a :: b)
      | _, _ => none
  def toJsKvs : List (Bytes × Val) → Option (List (Bytes × JVal))
    | [] => some []
    | (k, v) :: r => match toJsV v, toJsKvs r with
      | some a, some b => some ((k, a) :: b)
      | _, _ => none
end

theorem toJsKvs_find : ∀ (kvs : List (Bytes × Val)) (jk : List (Bytes × JVal)) (k : Bytes), toJsKvs kvs = some jk →
    toJsV ((Spec.Eval.find kvs k).getD .undefined) = some (prop jk k)
  | [], jk, k, h => by
    simp only [toJsKvs, Option.some.injEq] at h; subst h
    simp [Spec.Eval.find, prop, toJsV]
  | (k', v) :: r, jk, k, h => by
    unfold toJsKvs at h
    cases hv : toJsV v with
    | none => simp [hv] at h
    | some a =>
      cases hr : toJsKvs r with
      | none => simp [hv, hr] at h
      | some b =>
        simp only [hv, hr, Option.some.injEq] at h; subst h
        unfold Spec.Eval.find prop
        by_cases hk : (k' == k) = true
        · simp [hk, hv]
        · simp only [hk, Bool.false_eq_true, if_false]
          exact toJsKvs_find r b k hr

theorem toJsList_length : ∀ (xs : List Val) (js : List JVal), toJsList xs = some js → js.length = xs.length
  | [], js, h => by simp only [toJsList, Option.some.injEq] at h; subst h; rfl
  | x :: r, js, h => by
    unfold toJsList at h
    cases hv : toJsV x with
    | none => simp [hv] at h
    | some a =>
      cases hr : toJsList r with
      | none => simp [hv, hr] at h
      | some b =>
        simp only [hv, hr, Option.some.injEq] at h; subst h
        simp [toJsList_length r b hr]

theorem toJsList_getD : ∀ (xs : List Val) (js : List JVal) (n : Nat), toJsList xs = some js →
    toJsV (xs.getD n .undefined) = some (js.getD n .undefined)
  | [], js, n, h => by
    simp only [toJsList, Option.some.injEq] at h; subst h
    simp [toJsV]
  | x :: r, js, n, h => by
    unfold toJsList at h
    cases hv : toJsV x with
    | none => simp [hv] at h
    | some a =>
      cases hr : toJsList r with
      | none => simp [hv, hr] at h
      | some b =>
        simp only [hv, hr, Option.some.injEq] at h; subst h
        cases n with
        | zero => simpa using hv
        | succ m => simpa using toJsList_getD r b m hr

/-- inversion: which Soy value has a given image -/
theorem toJsV_num {v : Val} {i : Int} (h : toJsV v = some (.num i)) : v = .int i ∧ exact i = true := by
  cases v <;> simp [toJsV] at h
  · obtain ⟨he, rfl⟩ := h; exact ⟨rfl, he⟩
  all_goals (first | (obtain ⟨_, h⟩ := h; cases h) | cases h)
theorem toJsV_bool {v : Val} {b : Bool} (h : toJsV v = some (.bool b)) : v = .bool b := by
  cases v <;> simp [toJsV] at h
  · subst h; rfl
  all_goals (first | (obtain ⟨_, h⟩ := h; cases h) | cases h)
theorem toJsV_str {v : Val} {s : Bytes} (h : toJsV v = some (.str s)) : v = .str s := by
  cases v <;> simp [toJsV] at h
  · subst h; rfl
  all_goals (first | (obtain ⟨_, h⟩ := h; cases h) | cases h)
theorem toJsV_null {v : Val} (h : toJsV v = some .null) : v = .null := by
  cases v <;> simp [toJsV] at h
  · rfl
  all_goals (first | (obtain ⟨_, h⟩ := h; cases h) | cases h)
theorem toJsV_undefined {v : Val} (h : toJsV v = some .undefined) : v = .undefined := by
  cases v <;> simp [toJsV] at h
  · rfl
  all_goals (first | (obtain ⟨_, h⟩ := h; cases h) | cases h)
theorem toJsV_arr {v : Val} {js : List JVal} (h : toJsV v = some (.arr js)) : ∃ xs, v = .list xs ∧ toJsList xs = some js := by
  cases v with
  | list xs =>
    refine ⟨xs, rfl, ?_⟩
    unfold toJsV at h
    cases hl : toJsList xs with
    | none => simp [hl] at h
    | some a => simp only [hl, Option.map_some, Option.some.injEq, JVal.arr.injEq] at h; subst h; rfl
  | int i => unfold toJsV at h; split at h <;> cases h
  | map kvs => unfold toJsV at h; cases hk : toJsKvs kvs <;> simp [hk] at h
  | _ => simp [toJsV] at h
theorem toJsV_obj {v : Val} {jk : List (Bytes × JVal)} (h : toJsV v = some (.obj jk)) :
    ∃ kvs, v = .map kvs ∧ toJsKvs kvs = some jk := by
  cases v with
  | map kvs =>
    refine ⟨kvs, rfl, ?_⟩
    unfold toJsV at h
    cases hl : toJsKvs kvs with
    | none => simp [hl] at h
    | some a => simp only [hl, Option.map_some, Option.some.injEq, JVal.obj.injEq] at h; subst h; rfl
  | int i => unfold toJsV at h; split at h <;> cases h
  | list xs => unfold toJsV at h; cases hk : toJsList xs <;> simp [hk] at h
  | _ => simp [toJsV] at h

/-- the environment relation: every visible Soy variable is held, as its JSON image, by the
    JavaScript local the generator's scope assigns to it, or by `opt_data.k` if the scope does not
    bind it (a template parameter, or nothing at all: `undefined` on both sides) -/
def VarRel (sc : Scope) (env : Spec.Eval.Env) (jenv : JEnv) : Prop :=
  ∀ k : Bytes, k ≠ sIj → k.contains 36 = false →
    match sc.lookup k with
    | some g => ∃ kv, jenv.locals.find? (·.1 == g) = some kv ∧ toJsV (env.lookup k) = some kv.2
    | none => toJsV (env.lookup k) = some (prop jenv.optData k)

/-- the iteration state of a loop (iteration number `i`, last iteration `last`), as the JavaScript locals named in
    the loop's frame hold it: the index local is `i`; a foreach's limit local is the length `last + 1`; a range
    loop's test `v + step >= limit` holds exactly in the last iteration -/
def FrameRel (f : Frame) (v : Bytes) (i last : Nat) (jenv : JEnv) : Prop :=
  exact (i : Int) = true ∧
  (∀ idx, frameGet? f (Scope.kIndex ++ v) = some idx → localNum jenv idx = some (i : Int)) ∧
  (match frameGet? f (Scope.kStep ++ v) with
    | none => ∀ lim, frameGet? f (Scope.kLimit ++ v) = some lim → localNum jenv lim = some ((last : Int) + 1)
    | some step => ∀ lv lim, frameGet? f (Scope.kVar ++ v) = some lv → frameGet? f (Scope.kLimit ++ v) = some lim →
        ∃ a s l, localNum jenv lv = some a ∧ localNum jenv step = some s ∧ localNum jenv lim = some l ∧
          decide (l ≤ a + s) = (i == last))

/-- every loop whose frame is open in the generator scope is a loop the Soy environment is in, in the same
    iteration -/
def LoopRel (sc : Scope) (env : Spec.Eval.Env) (jenv : JEnv) : Prop :=
  ∀ v f, Scope.loopFrame sc.stack v = some f →
    ∃ i last, Spec.Eval.findLoop env.loops v = some (i, last) ∧ FrameRel f v i last jenv

/-- `opt_ijData` is the JSON image of the injected data (`undefined` when there is none) -/
def IjRel (ij : Option Spec.Eval.Binds) (jij : Option (List (Bytes × JVal))) : Prop :=
  match ij with
  | some kvs => ∃ jk, toJsKvs kvs = some jk ∧ jij = some jk
  | none => jij = none

/-- the globals of the Soy environment are the scalar globals of the table -/
def GlobRel (gs : Spec.Eval.Binds) : Prop :=
  ∀ name v j, assocGet? Globals.tbl name = some v → globalAst v = some j → Spec.Eval.find gs name = some (globalVal v)

/-- the environment relation: the variables (`VarRel`) and the loops (`LoopRel`) -/
def EnvRel (ent : Spec.Eval.Binds) (sc : Scope) (env : Spec.Eval.Env) (jenv : JEnv) : Prop :=
  VarRel sc env jenv ∧ LoopRel sc env jenv ∧ toJsKvs ent = some jenv.optData ∧ IjRel env.ij jenv.ijData ∧ GlobRel env.globals

theorem localNum_of_find {jenv : JEnv} {x : Bytes} {n : Int} (h : jenv.locals.find? (·.1 == x) = some (x, .num n)) :
    localNum jenv x = some n := by simp [localNum, h]

theorem find_of_localNum {jenv : JEnv} {x : Bytes} {n : Int} (h : localNum jenv x = some n) :
    ∃ kv, jenv.locals.find? (·.1 == x) = some kv ∧ kv.2 = .num n := by
  unfold localNum at h
  split at h
  · rename_i k i hf
    simp only [Option.some.injEq] at h
    subst h
    exact ⟨_, hf, rfl⟩
  · cases h

/-- `sc.loopindex v` is the index entry of the loop's frame -/
theorem loopindex_frame : ∀ (st : List Frame) (v idx : Bytes), Scope.lookupIn st (Scope.kIndex ++ v) = some idx →
    ∃ f, Scope.loopFrame st v = some f ∧ frameGet? f (Scope.kIndex ++ v) = some idx
  | [], _, _, h => by simp [Scope.lookupIn] at h
  | f :: r, v, idx, h => by
    unfold Scope.lookupIn at h
    unfold Scope.loopFrame
    cases hg : frameGet? f (Scope.kIndex ++ v) with
    | some g =>
      simp only [hg, Option.some.injEq] at h
      subst h
      exact ⟨f, rfl, hg⟩
    | none =>
      simp only [hg] at h
      exact loopindex_frame r v idx h

/-! ## the two semantics agree -/

theorem truthy_toBoolean : ∀ (v : Val) (jv : JVal), toJsV v = some jv → Spec.Eval.truthy v = toBoolean jv := by
  intro v jv h
  cases v with
  | int i => unfold toJsV at h; split at h <;> simp at h; subst h; rfl
  | float f => simp [toJsV] at h
  | list xs => unfold toJsV at h; cases hl : toJsList xs <;> simp [hl] at h; subst h; rfl
  | map kvs => unfold toJsV at h; cases hl : toJsKvs kvs <;> simp [hl] at h; subst h; rfl
  | _ => simp [toJsV] at h; subst h; simp [Spec.Eval.truthy, toBoolean]

theorem exact_inI64 {i : Int} (h : exact i = true) : Spec.Eval.inI64 i = true := SoyVerif.Props.C04.exact_inI64 h

theorem numRes_val {i : Int} {jv : JVal} (h : numRes i = .val jv) : exact i = true ∧ jv = .num i := by
  unfold numRes at h
  split at h
  · rename_i he
    simp only [JOut.val.injEq] at h
    exact ⟨he, h.symm⟩
  · cases h

theorem intRes_of_exact {i : Int} (h : exact i = true) : Spec.Eval.intRes i = .val (.int i) := by
  simp [Spec.Eval.intRes, exact_inI64 h]

theorem toJsV_int {i : Int} (h : exact i = true) : toJsV (.int i) = some (.num i) := by simp [toJsV, h]

/-- ToString of a primitive image is what the Soy value prints as -/
theorem showVal_toStr : ∀ (v : Val) (jv : JVal) (s : Bytes), toJsV v = some jv → toStr? jv = some s →
    Spec.Eval.showVal v = .val s := by
  intro v jv s h hs
  cases v with
  | int i =>
    unfold toJsV at h; split at h <;> simp at h; subst h
    simp only [toStr?, Option.some.injEq] at hs; subst hs
    simp [Spec.Eval.showVal]
  | float f => simp [toJsV] at h
  | list xs => unfold toJsV at h; cases hl : toJsList xs <;> simp [hl] at h; subst h; simp [toStr?] at hs
  | map kvs => unfold toJsV at h; cases hl : toJsKvs kvs <;> simp [hl] at h; subst h; simp [toStr?] at hs
  | undefined => simp [toJsV] at h; subst h; simp [toStr?] at hs
  | null =>
    simp [toJsV] at h; subst h
    simp only [toStr?, Option.some.injEq] at hs; subst hs
    simp [Spec.Eval.showVal, Spec.Eval.sNull]
  | bool b =>
    simp [toJsV] at h; subst h
    simp only [toStr?, Option.some.injEq] at hs; subst hs
    simp [Spec.Eval.showVal, Spec.Eval.sTrue, Spec.Eval.sFalse]
  | str t =>
    simp [toJsV] at h; subst h
    simp only [toStr?, Option.some.injEq] at hs; subst hs
    simp [Spec.Eval.showVal]

theorem isStr_iff {v : Val} {jv : JVal} (h : toJsV v = some jv) : Spec.Eval.isStr v = isStr jv := by
  cases v with
  | int i => unfold toJsV at h; split at h <;> simp at h; subst h; rfl
  | float f => simp [toJsV] at h
  | list xs => unfold toJsV at h; cases hl : toJsList xs <;> simp [hl] at h; subst h; rfl
  | map kvs => unfold toJsV at h; cases hl : toJsKvs kvs <;> simp [hl] at h; subst h; rfl
  | _ => simp [toJsV] at h; subst h; rfl

theorem toStr_defined {jv : JVal} {s : Bytes} (h : toStr? jv = some s) : jv ≠ .undefined := by
  intro e; subst e; simp [toStr?] at h

/-- the strict binary operators agree -/
theorem binop_corr (op : BinOp) (jo : JsOp) (hop : opOf op = some jo) (hand : jo ≠ .and) (hor : jo ≠ .or)
    (v1 v2 : Val) (a b jv : JVal) (h1 : toJsV v1 = some a) (h2 : toJsV v2 = some b)
    (h : binop jo a b = .val jv) : ∃ v, Spec.Eval.binop op v1 v2 = .val v ∧ toJsV v = some jv := by
  have arith : ∀ (f : Int → Int → Int) (x y : Int), a = .num x → b = .num y → numRes (f x y) = .val jv →
      ∃ he : exact (f x y) = true, v1 = .int x ∧ v2 = .int y ∧ jv = .num (f x y) := by
    intro f x y ha hb hr
    subst ha; subst hb
    obtain ⟨he, rfl⟩ := numRes_val hr
    exact ⟨he, (toJsV_num h1).1, (toJsV_num h2).1, rfl⟩
  have cmp : ∀ (x y : Int), a = .num x → b = .num y →
      v1 = .int x ∧ v2 = .int y ∧ Spec.Eval.small x = true ∧ Spec.Eval.small y = true := by
    intro x y ha hb
    subst ha; subst hb
    exact ⟨(toJsV_num h1).1, (toJsV_num h2).1, (toJsV_num h1).2, (toJsV_num h2).2⟩
  cases op <;> simp [opOf] at hop <;> subst hop
  -- mul
  · cases a <;> cases b <;> simp [binop] at h
    rename_i x y
    obtain ⟨he, rfl, rfl, rfl⟩ := arith (· * ·) x y rfl rfl h
    exact ⟨.int _, by simp [Spec.Eval.binop, intRes_of_exact he], toJsV_int he⟩
  -- mod
  · cases a <;> cases b <;> simp [binop] at h
    rename_i x y
    split at h
    · cases h
    · rename_i hy
      obtain ⟨he, rfl, rfl, rfl⟩ := arith Int.tmod x y rfl rfl h
      have : (y == 0) = false := by simpa using hy
      exact ⟨.int _, by simp [Spec.Eval.binop, this, Spec.Eval.tmod, intRes_of_exact he], toJsV_int he⟩
  -- add
  · by_cases hn : ∃ x y, a = .num x ∧ b = .num y
    · obtain ⟨x, y, rfl, rfl⟩ := hn
      simp only [binop] at h
      obtain ⟨he, rfl, rfl, rfl⟩ := arith (· + ·) x y rfl rfl h
      exact ⟨.int _, by simp [Spec.Eval.binop, intRes_of_exact he], toJsV_int he⟩
    · have hb' : binop .add a b = (if isStr a || isStr b then
          match toStr? a, toStr? b with
          | some s1, some s2 => .val (.str (s1 ++ s2))
          | _, _ => .unspec
        else .unspec) := by
        cases a <;> cases b <;> first | rfl | (exfalso; exact hn ⟨_, _, rfl, rfl⟩)
      rw [hb'] at h
      split at h
      · rename_i hs
        cases ha : toStr? a with
        | none => simp [ha] at h
        | some s1 =>
          cases hbs : toStr? b with
          | none => simp [ha, hbs] at h
          | some s2 =>
            simp only [ha, hbs, JOut.val.injEq] at h
            subst h
            have hs' : (Spec.Eval.isStr v1 || Spec.Eval.isStr v2) = true := by
              rw [isStr_iff h1, isStr_iff h2]; exact hs
            have hv1 := showVal_toStr v1 a s1 h1 ha
            have hv2 := showVal_toStr v2 b s2 h2 hbs
            have hnint : ¬ ∃ x y, v1 = .int x ∧ v2 = .int y := by
              rintro ⟨x, y, rfl, rfl⟩
              simp [Spec.Eval.isStr] at hs'
            have hu1 : v1 ≠ .undefined := by
              intro e; subst e; simp [toJsV] at h1; subst h1; simp [toStr?] at ha
            have hu2 : v2 ≠ .undefined := by
              intro e; subst e; simp [toJsV] at h2; subst h2; simp [toStr?] at hbs
            refine ⟨.str (s1 ++ s2), ?_, by simp [toJsV]⟩
            cases v1 <;> cases v2 <;> first
              | (exfalso; exact hnint ⟨_, _, rfl, rfl⟩)
              | (exfalso; exact hu1 rfl)
              | (exfalso; exact hu2 rfl)
              | (exfalso; simp [Spec.Eval.isStr] at hs'; done)
              | (simp only [Spec.Eval.binop, hs', if_true, hv1, hv2, Spec.Eval.Out.bind]; done)
      · cases h
  -- sub
  · cases a <;> cases b <;> simp [binop] at h
    rename_i x y
    obtain ⟨he, rfl, rfl, rfl⟩ := arith (· - ·) x y rfl rfl h
    exact ⟨.int _, by simp [Spec.Eval.binop, intRes_of_exact he], toJsV_int he⟩
  -- eq
  · cases a <;> cases b <;> simp [binop] at h <;> subst h
    · have := toJsV_null h1; have := toJsV_null h2; subst_vars
      exact ⟨.bool _, by simp [Spec.Eval.binop, Spec.Eval.equalsV, Spec.Eval.Out.bind], rfl⟩
    · have := toJsV_bool h1; have := toJsV_bool h2; subst_vars
      exact ⟨.bool _, by simp [Spec.Eval.binop, Spec.Eval.equalsV, Spec.Eval.Out.bind], rfl⟩
    · have := (toJsV_num h1).1; have := (toJsV_num h2).1; subst_vars
      exact ⟨.bool _, by simp [Spec.Eval.binop, Spec.Eval.equalsV, Spec.Eval.Out.bind], rfl⟩
    · have := toJsV_str h1; have := toJsV_str h2; subst_vars
      exact ⟨.bool _, by simp [Spec.Eval.binop, Spec.Eval.equalsV, Spec.Eval.Out.bind], rfl⟩
  -- ne
  · cases a <;> cases b <;> simp [binop] at h <;> subst h
    · have := toJsV_null h1; have := toJsV_null h2; subst_vars
      exact ⟨.bool _, by simp [Spec.Eval.binop, Spec.Eval.equalsV, Spec.Eval.Out.bind], rfl⟩
    · have := toJsV_bool h1; have := toJsV_bool h2; subst_vars
      exact ⟨.bool _, by simp [Spec.Eval.binop, Spec.Eval.equalsV, Spec.Eval.Out.bind], rfl⟩
    · have := (toJsV_num h1).1; have := (toJsV_num h2).1; subst_vars
      exact ⟨.bool _, by simp [Spec.Eval.binop, Spec.Eval.equalsV, Spec.Eval.Out.bind], rfl⟩
    · have := toJsV_str h1; have := toJsV_str h2; subst_vars
      exact ⟨.bool _, by simp [Spec.Eval.binop, Spec.Eval.equalsV, Spec.Eval.Out.bind], rfl⟩
  -- gt
  · cases a <;> cases b <;> simp [binop] at h
    rename_i x y
    obtain ⟨rfl, rfl, hx, hy⟩ := cmp x y rfl rfl
    subst h
    exact ⟨.bool _, by simp [Spec.Eval.binop, Spec.Eval.compareV, hx, hy], rfl⟩
  -- ge
  · cases a <;> cases b <;> simp [binop] at h
    rename_i x y
    obtain ⟨rfl, rfl, hx, hy⟩ := cmp x y rfl rfl
    subst h
    exact ⟨.bool _, by simp [Spec.Eval.binop, Spec.Eval.compareV, hx, hy], rfl⟩
  -- lt
  · cases a <;> cases b <;> simp [binop] at h
    rename_i x y
    obtain ⟨rfl, rfl, hx, hy⟩ := cmp x y rfl rfl
    subst h
    exact ⟨.bool _, by simp [Spec.Eval.binop, Spec.Eval.compareV, hx, hy], rfl⟩
  -- le
  · cases a <;> cases b <;> simp [binop] at h
    rename_i x y
    obtain ⟨rfl, rfl, hx, hy⟩ := cmp x y rfl rfl
    subst h
    exact ⟨.bool _, by simp [Spec.Eval.binop, Spec.Eval.compareV, hx, hy], rfl⟩
  -- or, and
  · exact absurd rfl hor
  · exact absurd rfl hand

/-! ### data references -/

theorem bind_val {o : JOut} {f : JVal → JOut} {jv : JVal} (h : o.bind f = .val jv) : ∃ x, o = .val x ∧ f x = .val jv := by
  cases o with
  | val x => exact ⟨x, rfl, h⟩
  | error => cases h
  | unspec => cases h

/-- the text accumulated so far is evaluated by every access built on it -/
theorem accAst_base_val (jenv : JEnv) : ∀ (acc : AccessList) (x j : JsExpr) (jv : JVal), accAst acc x = some j →
    eval jenv j = .val jv → ∃ jx, eval jenv x = .val jx
  | .nil, x, j, jv, h, he => by
    simp only [accAst, Option.some.injEq] at h; subst h
    exact ⟨jv, he⟩
  | .cons (.key p ns k) rest, x, j, jv, h, he => by
    unfold accAst at h
    split at h
    · cases h
    · cases ns with
      | false =>
        simp only [Bool.false_eq_true, if_false] at h
        obtain ⟨jm, hm⟩ := accAst_base_val jenv rest (.member x k) j jv h he
        unfold eval at hm
        obtain ⟨jx, hx, _⟩ := bind_val hm
        exact ⟨jx, hx⟩
      | true =>
        simp only [if_true] at h
        cases rest with
        | nil =>
          simp only [Option.some.injEq] at h; subst h
          unfold eval at he
          obtain ⟨jx, hx, _⟩ := bind_val he
          exact ⟨jx, hx⟩
        | cons _ _ => cases h
  | .cons (.index p ns i) rest, x, j, jv, h, he => by
    unfold accAst at h
    split at h
    · cases h
    · cases ns with
      | false =>
        simp only [Bool.false_eq_true, if_false] at h
        obtain ⟨jm, hm⟩ := accAst_base_val jenv rest (.index x i) j jv h he
        unfold eval at hm
        obtain ⟨jx, hx, _⟩ := bind_val hm
        exact ⟨jx, hx⟩
      | true =>
        simp only [if_true] at h
        cases rest with
        | nil =>
          simp only [Option.some.injEq] at h; subst h
          unfold eval at he
          obtain ⟨jx, hx, _⟩ := bind_val he
          exact ⟨jx, hx⟩
        | cons _ _ => cases h
  | .cons (.expr _ _ _) _, x, j, jv, h, _ => by simp [accAst] at h

theorem getD_ge {α : Type} (l : List α) (n : Nat) (d : α) (h : l.length ≤ n) : l.getD n d = d := by
  simp [List.getD, List.getElem?_eq_none h]

/-- `xs[i]` on corresponding lists -/
theorem nth_corr (xs : List Val) (js : List JVal) (i : Int) (h : toJsList xs = some js) (hi : ¬ i < 0) :
    toJsV (Spec.Eval.nth xs i) = some (js.getD i.toNat .undefined) := by
  unfold Spec.Eval.nth
  have hl := toJsList_length xs js h
  by_cases hr : 0 ≤ i ∧ i < (xs.length : Int)
  · simp only [if_pos hr]
    exact toJsList_getD xs js i.toNat h
  · simp only [if_neg hr]
    have : js.length ≤ i.toNat := by omega
    rw [getD_ge js _ _ this]
    rfl

/-- one member access on corresponding values -/
theorem member_corr (base : Val) (jx jv : JVal) (k : Bytes) (hk : k.isEmpty = false)
    (hb : toJsV base = some jx) (h : getMember jx k = .val jv) :
    ∃ v, (∀ last, Spec.Eval.access base false (.str k) last = .next v) ∧ toJsV v = some jv := by
  cases jx <;> simp [getMember] at h
  rename_i jk
  subst h
  obtain ⟨kvs, rfl, hkvs⟩ := toJsV_obj hb
  exact ⟨_, fun last => by simp [Spec.Eval.access, hk], toJsKvs_find kvs jk k hkvs⟩

theorem index_corr (base : Val) (jx jv : JVal) (i : Int) (hi : ¬ i < 0)
    (hb : toJsV base = some jx) (h : getIndex jx i = .val jv) :
    ∃ v, (∀ last, Spec.Eval.access base false (.int i) last = .next v) ∧ toJsV v = some jv := by
  cases jx <;> simp [getIndex, hi] at h
  rename_i js
  subst h
  obtain ⟨xs, rfl, hxs⟩ := toJsV_arr hb
  exact ⟨_, fun last => by simp [Spec.Eval.access, hi], nth_corr xs js i hxs hi⟩

theorem nullish_iff {v : Val} {jv : JVal} (h : toJsV v = some jv) :
    isNullish jv = true ↔ (v = .undefined ∨ v = .null) := by
  constructor
  · intro hn
    cases jv <;> simp [isNullish] at hn
    · exact Or.inl (toJsV_undefined h)
    · exact Or.inr (toJsV_null h)
  · rintro (rfl | rfl) <;> (simp [toJsV] at h; subst h; rfl)

/-- PARTIAL: the accesses of a data reference -/
theorem accAst_corr (env : Spec.Eval.Env) (jenv : JEnv) : ∀ (acc : AccessList) (x j : JsExpr) (base : Val) (jx jv : JVal),
    accAst acc x = some j → eval jenv x = .val jx → toJsV base = some jx → eval jenv j = .val jv →
    ∃ v, Spec.Eval.evalAcc env acc base = .val v ∧ toJsV v = some jv
  | .nil, x, j, base, jx, jv, h, hx, hb, he => by
    simp only [accAst, Option.some.injEq] at h; subst h
    rw [hx] at he
    simp only [JOut.val.injEq] at he; subst he
    exact ⟨base, by simp [Spec.Eval.evalAcc], hb⟩
  | .cons (.key p ns k) rest, x, j, base, jx, jv, h, hx, hb, he => by
    unfold accAst at h
    split at h
    · cases h
    · rename_i hk
      have hk' : k.isEmpty = false := by simpa using hk
      cases ns with
      | false =>
        simp only [Bool.false_eq_true, if_false] at h
        obtain ⟨jm, hm⟩ := accAst_base_val jenv rest (.member x k) j jv h he
        have hm' : getMember jx k = .val jm := by
          have := hm; unfold eval at this; rw [hx] at this; exact this
        obtain ⟨v1, hacc, hv1⟩ := member_corr base jx jm k hk' hb hm'
        obtain ⟨v, hv, hvj⟩ := accAst_corr env jenv rest (.member x k) j v1 jm jv h hm hv1 he
        exact ⟨v, by unfold Spec.Eval.evalAcc; simp only [hacc]; exact hv, hvj⟩
      | true =>
        simp only [if_true] at h
        cases rest with
        | cons _ _ => cases h
        | nil =>
          simp only [Option.some.injEq] at h; subst h
          unfold eval at he
          rw [hx] at he
          simp only [JOut.bind] at he
          by_cases hn : isNullish jx = true
          · simp only [hn, if_true, JOut.val.injEq] at he
            subst he
            have := (nullish_iff hb).mp hn
            refine ⟨.null, ?_, rfl⟩
            rcases this with rfl | rfl <;> rfl
          · simp only [hn, Bool.false_eq_true, if_false] at he
            unfold eval at he
            rw [hx] at he
            simp only [JOut.bind] at he
            cases jx <;> simp [getMember] at he
            rename_i jk
            subst he
            obtain ⟨kvs, rfl, hkvs⟩ := toJsV_obj hb
            exact ⟨_, by unfold Spec.Eval.evalAcc; simp [Spec.Eval.access, hk', Spec.Eval.evalAcc], toJsKvs_find kvs jk k hkvs⟩
  | .cons (.index p ns i) rest, x, j, base, jx, jv, h, hx, hb, he => by
    unfold accAst at h
    split at h
    · cases h
    · rename_i hi
      cases ns with
      | false =>
        simp only [Bool.false_eq_true, if_false] at h
        obtain ⟨jm, hm⟩ := accAst_base_val jenv rest (.index x i) j jv h he
        have hm' : getIndex jx i = .val jm := by
          have := hm; unfold eval at this; rw [hx] at this; exact this
        obtain ⟨v1, hacc, hv1⟩ := index_corr base jx jm i hi hb hm'
        obtain ⟨v, hv, hvj⟩ := accAst_corr env jenv rest (.index x i) j v1 jm jv h hm hv1 he
        exact ⟨v, by unfold Spec.Eval.evalAcc; simp only [hacc]; exact hv, hvj⟩
      | true =>
        simp only [if_true] at h
        cases rest with
        | cons _ _ => cases h
        | nil =>
          simp only [Option.some.injEq] at h; subst h
          unfold eval at he
          rw [hx] at he
          simp only [JOut.bind] at he
          by_cases hn : isNullish jx = true
          · simp only [hn, if_true, JOut.val.injEq] at he
            subst he
            have := (nullish_iff hb).mp hn
            refine ⟨.null, ?_, rfl⟩
            rcases this with rfl | rfl <;> rfl
          · simp only [hn, Bool.false_eq_true, if_false] at he
            unfold eval at he
            rw [hx] at he
            simp only [JOut.bind] at he
            cases jx <;> simp [getIndex, hi] at he
            rename_i js
            subst he
            obtain ⟨xs, rfl, hxs⟩ := toJsV_arr hb
            exact ⟨_, by unfold Spec.Eval.evalAcc; simp [Spec.Eval.access, hi, Spec.Eval.evalAcc], nth_corr xs js i hxs hi⟩
  | .cons (.expr _ _ _) _, x, j, base, jx, jv, h, _, _, _ => by simp [accAst] at h

/-! ### the pure built-ins -/

theorem roundHalfAway_one (i : Int) : Spec.Eval.roundHalfAway i 1 = i := by
  unfold Spec.Eval.roundHalfAway
  have hq : (2 * i.natAbs + 1) / (2 * 1) = i.natAbs := by omega
  simp only [hq]
  split <;> omega

theorem roundSpec_int {i : Int} (h : exact i = true) : Spec.Eval.roundSpec (.int i) 0 = .val (.int i) := by
  simp [Spec.Eval.roundSpec, roundHalfAway_one, intRes_of_exact h]

theorem applyFn_isNonnull (args : List Val) : Spec.Eval.applyFn sIsNonnull args =
    (match args with
     | [.null] => .val (.bool false)
     | [.undefined] => .val (.bool false)
     | [_] => .val (.bool true)
     | _ => .error) := rfl
theorem applyFn_length (args : List Val) : Spec.Eval.applyFn sLength args =
    (match args with
     | [.list xs] => Spec.Eval.intRes xs.length
     | _ => .error) := rfl
theorem applyFn_floor (args : List Val) : Spec.Eval.applyFn sFloor args =
    (match args with
     | [x] => Spec.Eval.floorSpec false x
     | _ => .error) := rfl
theorem applyFn_ceiling (args : List Val) : Spec.Eval.applyFn sCeiling args =
    (match args with
     | [x] => Spec.Eval.floorSpec true x
     | _ => .error) := rfl
theorem applyFn_round1 (x : Val) : Spec.Eval.applyFn sRound [x] = Spec.Eval.roundSpec x 0 := rfl
theorem applyFn_min (a b : Int) : Spec.Eval.applyFn sMin [.int a, .int b] = .val (.int (if a < b then a else b)) := rfl
theorem applyFn_max (a b : Int) : Spec.Eval.applyFn sMax [.int a, .int b] = .val (.int (if a > b then a else b)) := rfl

/-- one-argument built-ins on corresponding values -/
theorem apply1_corr (name : Bytes) (f : Fn1) (hf : fn1Of name = some f) (v : Val) (ja jv : JVal)
    (hv : toJsV v = some ja) (h : apply1 f ja = .val jv) :
    ∃ r, Spec.Eval.applyFn name [v] = .val r ∧ toJsV r = some jv := by
  unfold fn1Of at hf
  split at hf
  · rename_i hn; have := beq_true_eq hn; subst this
    simp only [Option.some.injEq] at hf; subst hf
    simp only [apply1, JOut.val.injEq] at h; subst h
    rw [applyFn_isNonnull]
    cases v with
    | int i => unfold toJsV at hv; split at hv <;> simp at hv; subst hv; exact ⟨.bool true, rfl, rfl⟩
    | float f => simp [toJsV] at hv
    | list xs => unfold toJsV at hv; cases hl : toJsList xs <;> simp [hl] at hv; subst hv; exact ⟨.bool true, rfl, rfl⟩
    | map kvs => unfold toJsV at hv; cases hl : toJsKvs kvs <;> simp [hl] at hv; subst hv; exact ⟨.bool true, rfl, rfl⟩
    | undefined => simp [toJsV] at hv; subst hv; exact ⟨.bool false, rfl, rfl⟩
    | null => simp [toJsV] at hv; subst hv; exact ⟨.bool false, rfl, rfl⟩
    | bool b => simp [toJsV] at hv; subst hv; exact ⟨.bool true, rfl, rfl⟩
    | str s => simp [toJsV] at hv; subst hv; exact ⟨.bool true, rfl, rfl⟩
  · split at hf
    · rename_i hn; have := beq_true_eq hn; subst this
      simp only [Option.some.injEq] at hf; subst hf
      cases ja <;> simp [apply1] at h
      rename_i js
      obtain ⟨he, rfl⟩ := numRes_val h
      obtain ⟨xs, rfl, hxs⟩ := toJsV_arr hv
      rw [applyFn_length]
      have hl := toJsList_length xs js hxs
      rw [hl] at he
      exact ⟨.int xs.length, intRes_of_exact he, by rw [hl]; exact toJsV_int he⟩
    · have hint : ∀ (g : Fn1), (g = .floor ∨ g = .ceil ∨ g = .round) → apply1 g ja = .val jv →
          ∃ i, v = .int i ∧ exact i = true ∧ jv = .num i := by
        intro g hg hh
        cases ja <;> (rcases hg with rfl | rfl | rfl <;> simp [apply1] at hh)
        all_goals (subst hh; exact ⟨_, (toJsV_num hv).1, (toJsV_num hv).2, rfl⟩)
      split at hf
      · rename_i hn; have := beq_true_eq hn; subst this
        simp only [Option.some.injEq] at hf; subst hf
        obtain ⟨i, rfl, he, rfl⟩ := hint .floor (Or.inl rfl) h
        exact ⟨.int i, by rw [applyFn_floor]; rfl, toJsV_int he⟩
      · split at hf
        · rename_i hn; have := beq_true_eq hn; subst this
          simp only [Option.some.injEq] at hf; subst hf
          obtain ⟨i, rfl, he, rfl⟩ := hint .ceil (Or.inr (Or.inl rfl)) h
          exact ⟨.int i, by rw [applyFn_ceiling]; rfl, toJsV_int he⟩
        · split at hf
          · rename_i hn; have := beq_true_eq hn; subst this
            simp only [Option.some.injEq] at hf; subst hf
            obtain ⟨i, rfl, he, rfl⟩ := hint .round (Or.inr (Or.inr rfl)) h
            exact ⟨.int i, by rw [applyFn_round1, roundSpec_int he], toJsV_int he⟩
          · cases hf

theorem apply2_corr (name : Bytes) (f : Fn2) (hf : fn2Of name = some f) (v1 v2 : Val) (ja jb jv : JVal)
    (h1 : toJsV v1 = some ja) (h2 : toJsV v2 = some jb) (h : apply2 f ja jb = .val jv) :
    ∃ r, Spec.Eval.applyFn name [v1, v2] = .val r ∧ toJsV r = some jv := by
  cases ja <;> cases jb <;> simp [apply2] at h
  rename_i x y
  obtain ⟨rfl, hx⟩ := toJsV_num h1
  obtain ⟨rfl, hy⟩ := toJsV_num h2
  unfold fn2Of at hf
  split at hf
  · rename_i hn; have := beq_true_eq hn; subst this
    simp only [Option.some.injEq] at hf; subst hf
    simp only [JOut.val.injEq] at h; subst h
    refine ⟨_, applyFn_min x y, ?_⟩
    split <;> simp [toJsV, hx, hy]
  · split at hf
    · rename_i hn; have := beq_true_eq hn; subst this
      simp only [Option.some.injEq] at hf; subst hf
      simp only [JOut.val.injEq] at h; subst h
      refine ⟨_, applyFn_max x y, ?_⟩
      split <;> simp [toJsV, hx, hy]
    · cases hf

theorem isLoopFn_fn1 {name : Bytes} {f : Fn1} (h : fn1Of name = some f) : Spec.Eval.isLoopFn name = false := by
  unfold fn1Of at h
  repeat (first | (split at h; (rename_i hn; have := beq_true_eq hn; subst this; rfl)) | cases h)
theorem isLoopFn_fn2 {name : Bytes} {f : Fn2} (h : fn2Of name = some f) : Spec.Eval.isLoopFn name = false := by
  unfold fn2Of at h
  repeat (first | (split at h; (rename_i hn; have := beq_true_eq hn; subst this; rfl)) | cases h)

/-! ## the theorem -/

/-- index / isFirst / isLast: the iteration counters of the two sides are the same notion -/
theorem loop_corr (sc : Scope) (env : Spec.Eval.Env) (jenv : JEnv) (hloop : LoopRel sc env jenv) (p : Nat) (name : Bytes)
    (args : ExprList) (j : JsExpr) (jv : JVal) (hn : isLoopName name = true) (h : loopAst sc name args = some j)
    (hj : eval jenv j = .val jv) : ∃ v, Spec.Eval.eval env (.func p name args) = .val v ∧ toJsV v = some jv := by
  cases args with
  | nil => simp [loopAst] at h
  | cons a r =>
    cases r with
    | cons _ _ => cases a <;> simp [loopAst] at h
    | nil =>
      cases a with
      | dataRef dp key acc =>
        cases acc with
        | cons _ _ => simp [loopAst] at h
        | nil =>
          simp only [loopAst] at h
          simp only [isLoopName, Bool.or_eq_true] at hn
          have hspec : ∀ (i l : Nat), Spec.Eval.findLoop env.loops key = some (i, l) →
              Spec.Eval.eval env (.func p name (.cons (.dataRef dp key .nil) .nil)) =
                (if name == Spec.Eval.nIndex then .val (.int i)
                 else if name == Spec.Eval.nIsFirst then .val (.bool (i == 0)) else .val (.bool (i == l))) := by
            intro i l hfl
            have hlf : Spec.Eval.isLoopFn name = true := by
              simp only [Spec.Eval.isLoopFn, Bool.or_eq_true]
              exact hn
            simp [Spec.Eval.eval, hlf, hfl]
          by_cases h1 : (name == sIndex) = true
          · have := beq_true_eq h1; subst this
            simp only [beq_self_eq_true, if_true, Option.map_eq_some_iff] at h
            obtain ⟨idx, hidx, rfl⟩ := h
            obtain ⟨f, hf, hget⟩ := loopindex_frame sc.stack key idx hidx
            obtain ⟨i, last, hfl, hex, hix, _⟩ := hloop key f hf
            obtain ⟨kv, hfind, hkv⟩ := find_of_localNum (hix idx hget)
            have : jv = .num i := by
              simp only [eval, hfind, JOut.val.injEq] at hj
              rw [← hj, hkv]
            subst this
            refine ⟨.int i, ?_, by simp [toJsV, hex]⟩
            rw [hspec i last hfl]
            simp [show (sIndex == Spec.Eval.nIndex) = true from rfl]
          · by_cases h2 : (name == sIsFirst) = true
            · have := beq_true_eq h2; subst this
              simp only [show (sIsFirst == sIndex) = false from rfl, Bool.false_eq_true, if_false, beq_self_eq_true, if_true,
                Option.map_eq_some_iff] at h
              obtain ⟨idx, hidx, rfl⟩ := h
              obtain ⟨f, hf, hget⟩ := loopindex_frame sc.stack key idx hidx
              obtain ⟨i, last, hfl, hex, hix, _⟩ := hloop key f hf
              simp only [eval, hix idx hget, JOut.val.injEq] at hj
              subst hj
              refine ⟨.bool (i == 0), ?_, by
                have : ((i : Int) == 0) = (i == 0) := by
                  cases h0 : (i == 0) <;> simp at h0 ⊢ <;> omega
                simp [toJsV, this]⟩
              rw [hspec i last hfl]
              simp [show (sIsFirst == Spec.Eval.nIndex) = false from rfl, show (sIsFirst == Spec.Eval.nIsFirst) = true from rfl]
            · have h3 : name = sIsLast := by
                rcases hn with (hn | hn) | hn
                · exact absurd hn h1
                · exact absurd hn h2
                · exact beq_true_eq hn
              subst h3
              simp only [show (sIsLast == sIndex) = false from rfl, show (sIsLast == sIsFirst) = false from rfl,
                Bool.false_eq_true, if_false] at h
              cases hf : Scope.loopFrame sc.stack key with
              | none => simp [hf] at h
              | some f =>
                simp only [hf, Option.bind_some] at h
                obtain ⟨i, last, hfl, hex, hix, hlast⟩ := hloop key f hf
                have hres : jv = .bool (i == last) := by
                  unfold lastAst at h
                  cases hs : frameGet? f (Scope.kStep ++ key) with
                  | some step =>
                    simp only [hs] at h hlast
                    cases hv : frameGet? f (Scope.kVar ++ key) <;> cases hl : frameGet? f (Scope.kLimit ++ key) <;>
                      simp [hv, hl] at h
                    subst h
                    rename_i lv lim
                    obtain ⟨a, st, l, ha, hst, hl', hdec⟩ := hlast lv lim hv hl
                    simp only [eval, ha, hst, hl'] at hj
                    obtain ⟨_, _, hj⟩ := bind_val hj
                    simp only [JOut.val.injEq] at hj
                    rw [← hj, hdec]
                  | none =>
                    simp only [hs] at h hlast
                    cases hv : frameGet? f (Scope.kIndex ++ key) <;> cases hl : frameGet? f (Scope.kLimit ++ key) <;>
                      simp [hv, hl] at h
                    subst h
                    rename_i idx lim
                    simp only [eval, hix idx hv, hlast lim hl] at hj
                    obtain ⟨_, _, hj⟩ := bind_val hj
                    simp only [JOut.val.injEq] at hj
                    rw [← hj]
                    congr 1
                    have : ((last : Int) + 1 - 1) = (last : Int) := by omega
                    rw [this]
                    cases hil : (i == last) <;> simp at hil ⊢ <;> omega
                subst hres
                refine ⟨.bool (i == last), ?_, rfl⟩
                rw [hspec i last hfl]
                simp [show (sIsLast == Spec.Eval.nIndex) = false from rfl, show (sIsLast == Spec.Eval.nIsFirst) = false from rfl]
      | _ => simp [loopAst] at h

/-- PARTIAL (C04, expression stage with variables): under the environment relation, whenever the
    JavaScript text the generator writes for an expression of the fragment (`walkExpr_renders`) has
    the value `jv` (semantics of the common subset, Spec/JsSemRef), the Soy specification evaluates
    the expression to a value whose JSON image is `jv`. -/
theorem gen_correct_refs_partial {ent : Spec.Eval.Binds} (sc : Scope) (env : Spec.Eval.Env) (jenv : JEnv)
    (hrel : EnvRel ent sc env jenv) :
    ∀ (e : Expr) (j : JsExpr) (jv : JVal), toAst sc e = some j → eval jenv j = .val jv →
      ∃ v, Spec.Eval.eval env e = .val v ∧ toJsV v = some jv
  | .null _, j, jv, h, hj => by
    simp only [toAst, Option.some.injEq] at h; subst h
    simp only [eval, JOut.val.injEq] at hj; subst hj
    exact ⟨.null, by simp [Spec.Eval.eval], rfl⟩
  | .bool _ b, j, jv, h, hj => by
    simp only [toAst, Option.some.injEq] at h; subst h
    simp only [eval, JOut.val.injEq] at hj; subst hj
    exact ⟨.bool b, by simp [Spec.Eval.eval], rfl⟩
  | .int _ v, j, jv, h, hj => by
    simp only [toAst, Option.some.injEq] at h; subst h
    unfold eval at hj
    split at hj
    · rename_i he
      simp only [JOut.val.injEq] at hj; subst hj
      exact ⟨.int v, by simp [Spec.Eval.eval], toJsV_int he⟩
    · cases hj
  | .str _ _ v, j, jv, h, hj => by
    simp only [toAst, Option.some.injEq] at h; subst h
    simp only [eval, JOut.val.injEq] at hj; subst hj
    exact ⟨.str v, by simp [Spec.Eval.eval], rfl⟩
  | .neg _ a, j, jv, h, hj => by
    simp only [toAst, Option.map_eq_some_iff] at h
    obtain ⟨ja, ha, rfl⟩ := h
    unfold eval at hj
    obtain ⟨va, hea, hj⟩ := bind_val hj
    obtain ⟨v, hv, hvj⟩ := gen_correct_refs_partial sc env jenv hrel a ja va ha hea
    cases va <;> simp at hj
    obtain ⟨he, rfl⟩ := numRes_val hj
    obtain ⟨rfl, _⟩ := toJsV_num hvj
    exact ⟨.int _, by simp [Spec.Eval.eval, hv, Spec.Eval.Out.bind, intRes_of_exact he], toJsV_int he⟩
  | .not _ a, j, jv, h, hj => by
    simp only [toAst, Option.map_eq_some_iff] at h
    obtain ⟨ja, ha, rfl⟩ := h
    unfold eval at hj
    obtain ⟨va, hea, hj⟩ := bind_val hj
    simp only [JOut.val.injEq] at hj; subst hj
    obtain ⟨v, hv, hvj⟩ := gen_correct_refs_partial sc env jenv hrel a ja va ha hea
    exact ⟨.bool _, by simp [Spec.Eval.eval, hv, Spec.Eval.Out.bind, truthy_toBoolean v va hvj], rfl⟩
  | .tern _ c a b, j, jv, h, hj => by
    unfold toAst at h
    cases hjc : toAst sc c with
    | none => simp [hjc] at h
    | some jc =>
      cases hja : toAst sc a with
      | none => simp [hjc, hja] at h
      | some ja =>
        cases hjb : toAst sc b with
        | none => simp [hjc, hja, hjb] at h
        | some jb =>
          simp only [hjc, hja, hjb, Option.some.injEq] at h
          subst h
          unfold eval at hj
          obtain ⟨vc, hec, hj⟩ := bind_val hj
          obtain ⟨v, hv, hvj⟩ := gen_correct_refs_partial sc env jenv hrel c jc vc hjc hec
          have ht := truthy_toBoolean v vc hvj
          split at hj
          · rename_i htb
            obtain ⟨w, hw, hwj⟩ := gen_correct_refs_partial sc env jenv hrel a ja jv hja hj
            exact ⟨w, by simp [Spec.Eval.eval, hv, Spec.Eval.Out.bind, ht, htb, hw], hwj⟩
          · rename_i htb
            obtain ⟨w, hw, hwj⟩ := gen_correct_refs_partial sc env jenv hrel b jb jv hjb hj
            exact ⟨w, by simp [Spec.Eval.eval, hv, Spec.Eval.Out.bind, ht, htb, hw], hwj⟩
  | .bin op _ a b, j, jv, h, hj => by
    unfold toAst at h
    cases hja : toAst sc a with
    | none => cases op <;> simp [hja] at h
    | some ja =>
      cases hjb : toAst sc b with
      | none => cases op <;> simp [hja, hjb] at h
      | some jb =>
        have iha := fun va => gen_correct_refs_partial sc env jenv hrel a ja va hja
        have ihb := fun vb => gen_correct_refs_partial sc env jenv hrel b jb vb hjb
        cases hop : opOf op with
        | none =>
          cases op <;> simp [opOf] at hop
          · simp [hja, hjb, opOf] at h
          · -- elvis
            simp only [hja, hjb, Option.some.injEq] at h
            subst h
            unfold eval at hj
            obtain ⟨va, hea, hj⟩ := bind_val hj
            obtain ⟨v, hv, hvj⟩ := iha va hea
            by_cases hn : isNullish va = true
            · simp only [hn, if_true] at hj
              obtain ⟨w, hw, hwj⟩ := ihb jv hj
              rcases (nullish_iff hvj).mp hn with rfl | rfl <;>
                exact ⟨w, by simp [Spec.Eval.eval, hv, Spec.Eval.Out.bind, hw], hwj⟩
            · simp only [hn, Bool.false_eq_true, if_false] at hj
              rw [hea] at hj
              simp only [JOut.val.injEq] at hj; subst hj
              have hnn : ¬ (v = .undefined ∨ v = .null) := fun hh => hn ((nullish_iff hvj).mpr hh)
              refine ⟨v, ?_, hvj⟩
              cases v <;> first
                | (exfalso; exact hnn (Or.inl rfl))
                | (exfalso; exact hnn (Or.inr rfl))
                | simp [Spec.Eval.eval, hv, Spec.Eval.Out.bind]
        | some jo =>
          by_cases hand : jo = .and
          · subst hand
            cases op <;> simp [opOf] at hop
            simp only [hja, hjb, opOf, Option.some.injEq] at h
            subst h
            unfold eval at hj
            obtain ⟨va, hea, hj⟩ := bind_val hj
            obtain ⟨v, hv, hvj⟩ := iha va hea
            have hb : ∃ x, va = .bool x := by
              cases va with
              | bool x => exact ⟨x, rfl⟩
              | _ => simp at hj
            obtain ⟨x, rfl⟩ := hb
            have := toJsV_bool hvj
            subst this
            cases x with
            | false =>
              simp only [JOut.val.injEq] at hj
              subst hj
              exact ⟨.bool false, by simp [Spec.Eval.eval, hv, Spec.Eval.Out.bind, Spec.Eval.truthy], rfl⟩
            | true =>
              simp only at hj
              obtain ⟨vb, heb, hj⟩ := bind_val hj
              obtain ⟨w, hw, hwj⟩ := ihb vb heb
              cases vb <;> simp at hj
              subst hj
              have := toJsV_bool hwj
              subst this
              exact ⟨.bool _, by simp [Spec.Eval.eval, hv, hw, Spec.Eval.Out.bind, Spec.Eval.truthy], rfl⟩
          · by_cases hor : jo = .or
            · subst hor
              cases op <;> simp [opOf] at hop
              simp only [hja, hjb, opOf, Option.some.injEq] at h
              subst h
              unfold eval at hj
              obtain ⟨va, hea, hj⟩ := bind_val hj
              obtain ⟨v, hv, hvj⟩ := iha va hea
              have hb : ∃ x, va = .bool x := by
                cases va with
                | bool x => exact ⟨x, rfl⟩
                | _ => simp at hj
              obtain ⟨x, rfl⟩ := hb
              have := toJsV_bool hvj
              subst this
              cases x with
              | true =>
                simp only [JOut.val.injEq] at hj
                subst hj
                exact ⟨.bool true, by simp [Spec.Eval.eval, hv, Spec.Eval.Out.bind, Spec.Eval.truthy], rfl⟩
              | false =>
                simp only at hj
                obtain ⟨vb, heb, hj⟩ := bind_val hj
                obtain ⟨w, hw, hwj⟩ := ihb vb heb
                cases vb <;> simp at hj
                subst hj
                have := toJsV_bool hwj
                subst this
                exact ⟨.bool _, by simp [Spec.Eval.eval, hv, hw, Spec.Eval.Out.bind, Spec.Eval.truthy], rfl⟩
            · have hstrict : eval jenv (.bin jo ja jb) =
                  (eval jenv ja).bind fun va => (eval jenv jb).bind fun vb => binop jo va vb := by
                cases jo <;> first | rfl | exact absurd rfl hand | exact absurd rfl hor
              have hj' : eval jenv (.bin jo ja jb) = .val jv := by
                cases op <;> simp [opOf] at hop <;> subst hop <;>
                  (simp only [hja, hjb, opOf, Option.some.injEq] at h; subst h; exact hj)
              rw [hstrict] at hj'
              obtain ⟨va, hea, hj'⟩ := bind_val hj'
              obtain ⟨vb, heb, hj'⟩ := bind_val hj'
              obtain ⟨v1, hv1, hvj1⟩ := iha va hea
              obtain ⟨v2, hv2, hvj2⟩ := ihb vb heb
              obtain ⟨v, hv, hvj⟩ := binop_corr op jo hop hand hor v1 v2 va vb jv hvj1 hvj2 hj'
              refine ⟨v, ?_, hvj⟩
              cases op <;> simp [opOf] at hop <;> subst hop <;>
                first
                | exact absurd rfl hand
                | exact absurd rfl hor
                | simp [Spec.Eval.eval, hv1, hv2, Spec.Eval.Out.bind, hv]
  | .dataRef dpos key acc, j, jv, h, hj => by
    unfold toAst at h
    split at h
    · rename_i hkij
      simp only [Option.map_eq_some_iff] at h
      obtain ⟨j0, hacc, rfl⟩ := h
      have hj0 : eval jenv j0 = .val jv := by
        cases hns : anyNullSafe acc <;> simp only [hns, Bool.false_eq_true, if_false, if_true] at hj
        · exact hj
        · unfold eval at hj; exact hj
      have hk : (key == Spec.Eval.sIj) = true := by simpa [sIj, Spec.Eval.sIj] using hkij
      obtain ⟨jx, hjx⟩ := accAst_base_val jenv acc .ijData j0 jv hacc hj0
      have hir := hrel.2.2.2.1
      unfold IjRel at hir
      cases hij : env.ij with
      | none =>
        simp only [hij] at hir
        simp [eval, hir] at hjx
      | some kvs =>
        simp only [hij] at hir
        obtain ⟨jk, hjk, hje⟩ := hir
        have hspec : Spec.Eval.eval env (.dataRef dpos key acc) = Spec.Eval.evalAcc env acc (.map kvs) := by
          simp [Spec.Eval.eval, hk, hij]
        rw [hspec]
        exact accAst_corr env jenv acc .ijData j0 (.map kvs) (.obj jk) jv hacc (by simp [eval, hje]) (by simp [toJsV, hjk]) hj0
    split at h
    · cases h
    · rename_i hij
      simp only [Option.map_eq_some_iff] at h
      obtain ⟨j0, hacc, rfl⟩ := h
      have hj0 : eval jenv j0 = .val jv := by
        cases hns : anyNullSafe acc <;> simp only [hns, Bool.false_eq_true, if_false, if_true] at hj
        · exact hj
        · unfold eval at hj; exact hj
      have hij1 : ¬ ((key == sIj) = true) := fun hh => hij (by simp [hh])
      have hdollar : key.contains 36 = false := by
        cases hc : key.contains 36 with
        | false => rfl
        | true => exact absurd (by rw [hc]; simp) hij
      have hkey : key ≠ sIj := by simpa using hij1
      have hspec : Spec.Eval.eval env (.dataRef dpos key acc) = Spec.Eval.evalAcc env acc (env.lookup key) := by
        have : (key == Spec.Eval.sIj) = false := by simpa [sIj, Spec.Eval.sIj] using hij1
        simp [Spec.Eval.eval, this]
      rw [hspec]
      have hr := hrel.1 key hkey hdollar
      cases hl : sc.lookup key with
      | none =>
        simp only [hl] at hr hacc
        exact accAst_corr env jenv acc (.optData key) j0 (env.lookup key) _ jv hacc (by simp [eval]) hr hj0
      | some g =>
        simp only [hl] at hr hacc
        obtain ⟨kv, hfind, hkv⟩ := hr
        exact accAst_corr env jenv acc (.local g) j0 (env.lookup key) kv.2 jv hacc (by simp [eval, hfind]) hkv hj0
  | .func p name args, j, jv, h, hj => by
    unfold toAst at h
    split at h
    · rename_i hn
      exact loop_corr sc env jenv hrel.2.1 p name args j jv hn h hj
    cases args with
    | nil => simp at h
    | cons a r =>
      cases r with
      | nil =>
        simp only at h
        cases hf : fn1Of name with
        | none => simp [hf] at h
        | some f1 =>
          cases hja : toAst sc a with
          | none => simp [hf, hja] at h
          | some ja =>
            simp only [hf, hja, Option.some.injEq] at h
            subst h
            unfold eval at hj
            obtain ⟨va, hea, hj⟩ := bind_val hj
            obtain ⟨v, hv, hvj⟩ := gen_correct_refs_partial sc env jenv hrel a ja va hja hea
            obtain ⟨r, hr, hrj⟩ := apply1_corr name f1 hf v va jv hvj hj
            exact ⟨r, by simp [Spec.Eval.eval, isLoopFn_fn1 hf, Spec.Eval.evalList, hv, Spec.Eval.Out.bind, hr], hrj⟩
      | cons b r2 =>
        cases r2 with
        | cons _ _ => simp at h
        | nil =>
          simp only at h
          cases hf : fn2Of name with
          | none => simp [hf] at h
          | some f2 =>
            cases hja : toAst sc a with
            | none => simp [hf, hja] at h
            | some ja =>
              cases hjb : toAst sc b with
              | none => simp [hf, hja, hjb] at h
              | some jb =>
                simp only [hf, hja, hjb, Option.some.injEq] at h
                subst h
                unfold eval at hj
                obtain ⟨va, hea, hj⟩ := bind_val hj
                obtain ⟨vb, heb, hj⟩ := bind_val hj
                obtain ⟨v1, hv1, hvj1⟩ := gen_correct_refs_partial sc env jenv hrel a ja va hja hea
                obtain ⟨v2, hv2, hvj2⟩ := gen_correct_refs_partial sc env jenv hrel b jb vb hjb heb
                obtain ⟨r, hr, hrj⟩ := apply2_corr name f2 hf v1 v2 va vb jv hvj1 hvj2 hj
                exact ⟨r, by simp [Spec.Eval.eval, isLoopFn_fn2 hf, Spec.Eval.evalList, hv1, hv2, Spec.Eval.Out.bind, hr], hrj⟩
  | .float _ _, j, jv, h, _ => by simp [toAst] at h
  | .global _ name, j, jv, h, hj => by
    unfold toAst at h
    cases hg : assocGet? Globals.tbl name with
    | none => simp [hg] at h
    | some v =>
      simp only [hg] at h
      have hf := hrel.2.2.2.2 name v j hg h
      refine ⟨globalVal v, by simp [Spec.Eval.eval, hf], ?_⟩
      cases v <;> simp only [globalAst, Option.some.injEq, reduceCtorEq] at h <;> subst h
      · simp only [eval, JOut.val.injEq] at hj; subst hj; rfl
      · simp only [eval, JOut.val.injEq] at hj; subst hj; rfl
      · simp only [eval] at hj
        split at hj
        · rename_i hex
          simp only [JOut.val.injEq] at hj; subst hj
          simp [globalVal, toJsV, hex]
        · cases hj
      · simp only [eval, JOut.val.injEq] at hj; subst hj; rfl
  | .list _ _, j, jv, h, _ => by simp [toAst] at h
  | .map _ _, j, jv, h, _ => by simp [toAst] at h

/-! ## establishing and maintaining the environment relation -/

/-- template parameters: before any `let` / loop, with `opt_data` the JSON image of the data the
    template was entered with -/
theorem envRel_params (sc : Scope) (env : Spec.Eval.Env) (jenv : JEnv)
    (hsc : ∀ k, sc.lookup k = none) (hdata : toJsKvs env.vars = some jenv.optData) (hij : IjRel env.ij jenv.ijData)
    (hgl : GlobRel env.globals) : EnvRel env.vars sc env jenv := by
  refine ⟨?_, ?_, hdata, hij, hgl⟩
  · intro k _ _
    rw [hsc k]
    exact toJsKvs_find env.vars jenv.optData k hdata
  · intro v f hf
    exfalso
    have hnone : ∀ (st : List Frame), Scope.lookupIn st (Scope.kIndex ++ v) = none → Scope.loopFrame st v = none := by
      intro st
      induction st with
      | nil => intro _; rfl
      | cons g r ih =>
        intro h
        unfold Scope.lookupIn at h
        unfold Scope.loopFrame
        cases hg : frameGet? g (Scope.kIndex ++ v) with
        | some x => simp [hg] at h
        | none => simp only [hg] at h ⊢; exact ih h
    rw [hnone sc.stack (hsc _)] at hf
    cases hf

/-- binding one Soy variable `x` to the JavaScript local `g` (what `{let}`, `{foreach}` and `{for}`
    do): the relation is kept, provided `g` is FRESH — not the local of any other visible variable -/
theorem envRel_bind (sc sc' : Scope) (env : Spec.Eval.Env) (jenv : JEnv) (x g : Bytes) (v : Val) (jv : JVal)
    (hrel : VarRel sc env jenv) (hv : toJsV v = some jv)
    (hx : sc'.lookup x = some g)
    (hother : ∀ k, k ≠ x → k.contains 36 = false → sc'.lookup k = sc.lookup k)
    (hfresh : ∀ k g', k ≠ x → k.contains 36 = false → sc.lookup k = some g' → g' ≠ g) :
    VarRel sc' (env.bind x v) { jenv with locals := (g, jv) :: jenv.locals } := by
  intro k hk hd
  by_cases hkx : k = x
  · subst hkx
    rw [hx]
    refine ⟨(g, jv), by simp, ?_⟩
    simp [Spec.Eval.Env.bind, Spec.Eval.Env.lookup, Spec.Eval.find, hv]
  · rw [hother k hkx hd]
    have hr := hrel k hk hd
    have hlook : (env.bind x v).lookup k = env.lookup k := by
      have : (x == k) = false := by simpa using fun e : x = k => hkx e.symm
      simp [Spec.Eval.Env.bind, Spec.Eval.Env.lookup, Spec.Eval.find, this]
    rw [hlook]
    cases hl : sc.lookup k with
    | none => simp only [hl] at hr ⊢; exact hr
    | some g' =>
      simp only [hl] at hr ⊢
      obtain ⟨kv, hfind, hkv⟩ := hr
      have hne : g' ≠ g := hfresh k g' hkx hd hl
      refine ⟨kv, ?_, hkv⟩
      have : (g == g') = false := by simpa using fun e : g = g' => hne e.symm
      simp only [List.find?_cons, this]
      exact hfind

/-! ### freshness from the shape of generated names (scope.go `jsname`, after 969339a) -/

/-- everything before the first "$" -/
def beforeDollar : Bytes → Bytes
  | [] => []
  | c :: r => if c == 36 then [] else c :: beforeDollar r

theorem beforeDollar_append (k rest : Bytes) (h : k.contains 36 = false) : beforeDollar (k ++ 36 :: rest) = k := by
  induction k with
  | nil => simp [beforeDollar]
  | cons c r ih =>
    have h' : ((36 : UInt8) == c || r.contains 36) = false := by simpa [List.contains_cons] using h
    have hc1 : ((36 : UInt8) == c) = false := by
      cases hh : ((36 : UInt8) == c) with
      | false => rfl
      | true => simp [hh] at h'
    have hc2 : r.contains 36 = false := by
      cases hh : r.contains 36 with
      | false => rfl
      | true =>
        have hm : (36 : UInt8) ∈ r := by simpa using hh
        have : ¬ (36 : UInt8) ∈ r := by
          have := h'
          simp at this
          exact this.2
        exact absurd hm this
    have hc : (c == 36) = false := by
      cases hh : (c == 36) with
      | false => rfl
      | true =>
        have : c = 36 := by simpa using hh
        subst this
        simp at hc1
    show beforeDollar (c :: (r ++ 36 :: rest)) = c :: r
    unfold beforeDollar
    rw [hc, ih hc2]
    rfl

/-- a generated name determines the Soy name it was generated for -/
theorem jsname_inj {k k' use use' : Bytes} {m m' : Nat} (hk : k.contains 36 = false) (hk' : k'.contains 36 = false)
    (h : Scope.jsname k use m = Scope.jsname k' use' m') : k = k' := by
  have h1 := beforeDollar_append k (use ++ F64.natDigits m) hk
  have h2 := beforeDollar_append k' (use' ++ F64.natDigits m') hk'
  have h' : k ++ 36 :: (use ++ F64.natDigits m) = k' ++ 36 :: (use' ++ F64.natDigits m') := by
    simpa [Scope.jsname, List.append_assoc] using h
  rw [← h1, ← h2, h']

/-- FRESHNESS: under `ScopeShape`, the local generated for `x` is not the local of another variable -/
theorem fresh_of_shape (sc : Scope) (hs : ScopeShape sc) (x use : Bytes) (n : Nat) (hx : x.contains 36 = false) :
    ∀ k g', k ≠ x → k.contains 36 = false → sc.lookup k = some g' → g' ≠ Scope.jsname x use n := by
  intro k g' hkx hk hl e
  obtain ⟨u, m, rfl⟩ := hs k g' hk hl
  exact hkx (jsname_inj hk hx e)

theorem frameGet_frameSet : ∀ (f : Frame) (k v k' : Bytes),
    frameGet? (frameSet f k v) k' = if k == k' then some v else frameGet? f k'
  | [], k, v, k' => by simp [frameSet, frameGet?]
  | (a, b) :: r, k, v, k' => by
    unfold frameSet
    by_cases hak : (a == k) = true
    · have : a = k := by simpa using hak
      subst this
      simp only [hak, if_true, frameGet?]
      by_cases hk' : (a == k') = true <;> simp [hk']
    · simp only [hak, Bool.false_eq_true, if_false, frameGet?, frameGet_frameSet r k v k']
      by_cases hkk : (k == k') = true
      · have : k = k' := by simpa using hkk
        subst this
        have : (a == k) = false := by simpa using hak
        simp [this]
      · simp [hkk]

/-- `{let $x: …}`: what `makevar` does to the scope (the Write loop always has a frame open) -/
theorem makevar_lookup (sc : Scope) (f : Frame) (st : List Frame) (hst : sc.stack = f :: st) (x k : Bytes) :
    (sc.makevar x).2.lookup k = if x == k then some (sc.makevar x).1 else sc.lookup k := by
  simp only [Scope.makevar, Scope.lookup, hst, Scope.setTop, Scope.lookupIn, frameGet_frameSet]
  by_cases h : (x == k) = true
  · simp [h]
  · simp [h]

/-- the relation is kept by `{let $x: e /}` (value `v`, its image assigned to the generated local) -/
theorem envRel_let (sc : Scope) (env : Spec.Eval.Env) (jenv : JEnv) (f : Frame) (st : List Frame)
    (hst : sc.stack = f :: st) (hs : ScopeShape sc) (x : Bytes) (hx : x.contains 36 = false)
    (v : Val) (jv : JVal) (hrel : VarRel sc env jenv) (hv : toJsV v = some jv) :
    VarRel (sc.makevar x).2 (env.bind x v) { jenv with locals := ((sc.makevar x).1, jv) :: jenv.locals } := by
  refine envRel_bind sc _ env jenv x _ v jv hrel hv ?_ ?_ ?_
  · rw [makevar_lookup sc f st hst]; simp
  · intro k hk _
    rw [makevar_lookup sc f st hst]
    have : (x == k) = false := by simpa using fun e : x = k => hk e.symm
    simp [this]
  · exact fresh_of_shape sc hs x [] (sc.n + 1) hx

/-- … and `makevar` keeps the shape of the scope -/
theorem makevar_shape (sc : Scope) (f : Frame) (st : List Frame) (hst : sc.stack = f :: st) (hs : ScopeShape sc)
    (x : Bytes) : ScopeShape (sc.makevar x).2 := by
  intro k g hk hl
  rw [makevar_lookup sc f st hst] at hl
  by_cases h : (x == k) = true
  · have : x = k := by simpa using h
    subst this
    simp only [h, if_true, Option.some.injEq] at hl
    exact ⟨[], sc.n + 1, hl.symm⟩
  · simp only [h, Bool.false_eq_true, if_false] at hl
    exact hs k g hk hl

/-- `{foreach $x in …}`: the loop frame binds `x` to its generated local -/
theorem pushForEach_lookup (sc : Scope) (x k : Bytes) (hk : k.contains 36 = false) :
    (sc.pushForEach x).2.lookup k = if x == k then some (sc.pushForEach x).1.1 else sc.lookup k := by
  have hne : ∀ (p : Bytes), ((p ++ x) == k) = false ∨ True := fun _ => Or.inr trivial
  have hlim : ((Scope.kLimit ++ x) == k) = false := by
    have : (Scope.kLimit ++ x).contains 36 = true := by simp [Scope.kLimit]
    cases h : ((Scope.kLimit ++ x) == k) with
    | false => rfl
    | true => have := beq_true_eq h; subst this; simp_all
  have hidx : ((Scope.kIndex ++ x) == k) = false := by
    have : (Scope.kIndex ++ x).contains 36 = true := by simp [Scope.kIndex]
    cases h : ((Scope.kIndex ++ x) == k) with
    | false => rfl
    | true => have := beq_true_eq h; subst this; simp_all
  simp only [Scope.pushForEach, Scope.lookup, Scope.lookupIn, frameGet_frameSet, hlim, hidx, Bool.false_eq_true, if_false]
  by_cases h : (x == k) = true
  · simp [h]
  · simp [h, frameGet?]

theorem envRel_foreach (sc : Scope) (env : Spec.Eval.Env) (jenv : JEnv) (hs : ScopeShape sc) (x : Bytes)
    (hx : x.contains 36 = false) (v : Val) (jv : JVal) (hrel : VarRel sc env jenv) (hv : toJsV v = some jv) :
    VarRel (sc.pushForEach x).2 (env.bind x v) { jenv with locals := ((sc.pushForEach x).1.1, jv) :: jenv.locals } := by
  refine envRel_bind sc _ env jenv x _ v jv hrel hv ?_ ?_ ?_
  · rw [pushForEach_lookup sc x x hx]; simp
  · intro k hk hd
    rw [pushForEach_lookup sc x k hd]
    have : (x == k) = false := by simpa using fun e : x = k => hk e.symm
    simp [this]
  · exact fresh_of_shape sc hs x [] (sc.n + 1) hx

/-! ## non-vacuity -/

/-- `$x.a + length($l)` with `x` a let variable (local `x$1`) and `l` a parameter -/
def sampleScope : Scope := (Scope.makevar ⟨[[]], 0⟩ b!"x").2
def sampleExpr : Expr :=
  .bin .add 0 (.dataRef 0 b!"x" (.cons (.key 0 false b!"a") .nil)) (.func 0 b!"length" (.cons (.dataRef 0 b!"l" .nil) .nil))
def sampleJEnv : JEnv :=
  { optData := [(b!"l", .arr [.num 1, .num 2])], ijData := none, locals := [(b!"x$1", .obj [(b!"a", .num 40)])] }

example : (toAst sampleScope sampleExpr).map render =
    some (render (.bin .add (.member (.local b!"x$1") b!"a") (.call1 .length (.optData b!"l")))) := rfl

example : (toAst sampleScope sampleExpr).map (eval sampleJEnv) = some (.val (.num 42)) := rfl

/-- the null-safe form and its value on a null base -/
example : (toAst ⟨[[]], 0⟩ (.dataRef 0 b!"p" (.cons (.key 0 true b!"a") .nil))).map
    (eval { optData := [(b!"p", .null)], ijData := none, locals := [] }) = some (.val .null) := rfl

/-! ## `ScopeShape` along a whole walk

  The state invariant of the safety induction (Lemmas/JsGenSafe: `J b s` = the scope is `ScopeOk`,
  the import map is well-shaped, `bufferName = b`) now contains, frame by frame, that every binding
  of a Soy name holds a name generated FOR it (`NameFor`, Lemmas/JsGenSpec); `makevar`, `genname` +
  `bind`, `pushForRange`, `pushForEach`, `push` and `pop` preserve it (`makevar_ok` … `pop_ok`).
  `Spec P (J b) (J b') m Q` threads the invariant through every `>>=`, so EVERY state in which a
  sub-walk of the generator starts or ends satisfies it; the theorems below read that off. -/

open SoyVerif.Lemmas.JsGenSafe (J CmdWN BlockWN ExprWN s_walkCmd s_walkBlock s_walkExpr s_getScope POk)
open SoyVerif.Lemmas.JsGenSpec (IsIdent Spec)
open SoyVerif.Lemmas.JsGenTop (FileWN top_visitSoyFile)

/-- FULL (`walk_scopeShape`, commands): walking any well-named command or block from a state that
    satisfies the invariant ends in a state whose scope satisfies `ScopeShape` -/
theorem walk_scopeShape (sk : List Bytes → List Bytes) (o : Options) (c : Cmd) (hc : CmdWN c) (b : Bytes) (hb : IsIdent b)
    (s s' : St) (ps : List Piece) (hs : J b s) (h : walkCmd sk o c s = .ok ((), ps, s')) : ScopeShape s'.scope :=
  scopeOk_shape ((s_walkCmd sk o c hc b hb s () ps s' hs h).2.1.1.1)

theorem walkBlock_scopeShape (sk : List Bytes → List Bytes) (o : Options) (blk : Block) (hc : BlockWN blk) (b : Bytes)
    (hb : IsIdent b) (s s' : St) (ps : List Piece) (hs : J b s) (h : walkBlock sk o blk s = .ok ((), ps, s')) :
    ScopeShape s'.scope :=
  scopeOk_shape ((s_walkBlock sk o blk hc b hb s () ps s' hs h).2.1.1.1)

/-- … the scope an expression translation READS (every `getScope` of the generator) satisfies it -/
theorem getScope_shape (b : Bytes) : Spec POk (J b) (J b) getScope ScopeShape :=
  (s_getScope (b := b)).post (fun _ h => scopeOk_shape h)

/-- … and so does the scope after a whole well-named file, from the initial state of `Write` -/
theorem file_scopeShape (sk : List Bytes → List Bytes) (o : Options) (f : SoyFile) (hf : FileWN f)
    (s' : St) (ps : List Piece) (h : visitSoyFile sk o f initState = .ok ((), ps, s')) : ScopeShape s'.scope := by
  have hinit : SoyVerif.Lemmas.JsGenSafe.Inv initState := by
    constructor
    · intro fr hfr
      simp only [initState, List.mem_singleton] at hfr
      subst hfr
      exact SoyVerif.Lemmas.JsGenSpec.frameOk_nil
    · intro kv hkv
      cases hkv
  exact scopeOk_shape ((top_visitSoyFile sk o f hf initState () ps s' hinit h).2.2.1)

/-- FRESHNESS at every point of generation: in any state satisfying the invariant, the local
    generated for a Soy name `x` differs from the local of every other visible Soy variable -/
theorem fresh_at (b : Bytes) (s : St) (hs : J b s) (x use : Bytes) (n : Nat) (hx : x.contains 36 = false) :
    ∀ k g', k ≠ x → k.contains 36 = false → s.scope.lookup k = some g' → g' ≠ Scope.jsname x use n :=
  fresh_of_shape s.scope (scopeOk_shape hs.1.1) x use n hx

/-! ## what remains unproved (C04, expression and command level)

  * accesses by a computed key `$x[$e]`, a null-safe access that is not the last
    one (`$x?.a.b`: the specification leaves what follows a null-safe hit open), negative indices;
  * floats (the JavaScript value universe here has exact integers only): `round(x, n)`, `floor` /
    `ceiling` / `round` / `min` / `max` of floats, float arithmetic and printing;
  * the other functions (`keys`, `augmentMap`, `strContains`, `range`, `randomInt`, the bidi
    functions),
    list and map literals, globals whose value is a float, a list or a map;
  * `range`-loops in `envRel_*` (only `{let}` and `{foreach}` are instantiated; `{for … in range}` is
    the same `envRel_bind` with `pushForRange`), let-CONTENT variables (their value is the text the
    block rendered: command level);
  * every command (control flow, calls, messages) and the parse of the emitted text: decided by
    execution (C04exec), not by a theorem. -/

end SoyVerif.Props.C04c
