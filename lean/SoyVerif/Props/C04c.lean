/-
  C04 — expression stage with VARIABLES, DATA REFERENCES and the pure built-ins (partial).

  `gen_correct_refs_partial` widens `Props/C04.gen_correct_expr_partial`: expressions may contain
    * variables: a name bound in the generator's scope (let / loop variables, under the `makevar`
      renaming) or a template parameter (`opt_data.x`),
    * accesses `.k`, `[n]` (n ≥ 0) and a null-safe LAST access `?.k` / `?[n]`,
    * `isNonnull`, `length`, `min`, `max`, and `floor` / `ceiling` / `round` (one argument),
  under an ENVIRONMENT RELATION `EnvRel sc env jenv` between the Soy environment, the generator's
  scope and the JavaScript variables: every visible Soy variable `k` is held, as its JSON image,
  by the JavaScript local `sc.lookup k` if the scope binds `k`, by `opt_data.k` otherwise.

  The values are those of Spec/JsSemRef: null / undefined / booleans / exact integers / strings and
  lists and maps of them (no floats).  See the end of the file for what remains unproved.
-/
import SoyVerif.Spec.JsSemRef
import SoyVerif.Spec.Eval
import SoyVerif.Model.JsGen
import SoyVerif.Props.C04

namespace SoyVerif.Props.C04c
open SoyVerif SoyVerif.Model SoyVerif.Model.JsGen SoyVerif.Spec.JsSemRef
open SoyVerif.Spec.JsSem (JsOp exact)
open SoyVerif.Props.C04 (opOf opSym jsOp_sym)

/-! ## translation -/

def sIsNonnull : Bytes := b!"isNonnull"
def sLength : Bytes := b!"length"
def sFloor : Bytes := b!"floor"
def sCeiling : Bytes := b!"ceiling"
def sRound : Bytes := b!"round"
def sMin : Bytes := b!"min"
def sMax : Bytes := b!"max"
def sIj : Bytes := b!"ij"

def fn1Of (name : Bytes) : Option Fn1 :=
  if name == sIsNonnull then some .nonNull
  else if name == sLength then some .length
  else if name == sFloor then some .floor
  else if name == sCeiling then some .ceil
  else if name == sRound then some .round
  else none

def fn2Of (name : Bytes) : Option Fn2 :=
  if name == sMin then some .min
  else if name == sMax then some .max
  else none

/-- the accesses of a data reference on the text `x` accumulated so far: plain accesses, and a
    null-safe access in LAST position (what follows a null-safe hit is open in the specification) -/
def accAst : AccessList → JsExpr → Option JsExpr
  | .nil, x => some x
  | .cons (.key _ ns k) rest, x =>
    if k.isEmpty then none
    else if ns then (match rest with
      | .nil => some (.guard x (.member x k))
      | _ => none)
    else accAst rest (.member x k)
  | .cons (.index _ ns i) rest, x =>
    if i < 0 then none
    else if ns then (match rest with
      | .nil => some (.guard x (.index x i))
      | _ => none)
    else accAst rest (.index x i)
  | .cons (.expr _ _ _) _, _ => none

/-- the translation, in the generator scope `sc` -/
def toAst (sc : Scope) : Expr → Option JsExpr
  | .null _ => some .null
  | .bool _ b => some (.bool b)
  | .int _ v => some (.num v)
  | .str _ _ v => some (.str v)
  | .neg _ a => (toAst sc a).map .neg
  | .not _ a => (toAst sc a).map .not
  | .bin op _ a b =>
    match op with
    | .elvis => match toAst sc a, toAst sc b with
      | some ja, some jb => some (.nonNullElse ja ja jb)
      | _, _ => none
    | op => match opOf op, toAst sc a, toAst sc b with
      | some jo, some ja, some jb => some (.bin jo ja jb)
      | _, _, _ => none
  | .tern _ c a b => match toAst sc c, toAst sc a, toAst sc b with
    | some jc, some ja, some jb => some (.cond jc ja jb)
    | _, _, _ => none
  | .dataRef _ key acc =>
    if key == sIj then none
    else
      let base : JsExpr := match sc.lookup key with
        | some g => .local g
        | none => .optData key
      (accAst acc base).map fun j => if anyNullSafe acc then .paren j else j
  | .func _ name args =>
    match args with
    | .cons a .nil => match fn1Of name, toAst sc a with
      | some f, some ja => some (.call1 f ja)
      | _, _ => none
    | .cons a (.cons b .nil) => match fn2Of name, toAst sc a, toAst sc b with
      | some f, some ja, some jb => some (.call2 f ja jb)
      | _, _, _ => none
    | _ => none
  | _ => none

/-- the text of a `JsExpr`, in the generator's pieces -/
def render : JsExpr → List Piece
  | .null => [.fixed b!"null"]
  | .bool b => [.fixed (if b then b!"true" else b!"false")]
  | .num i => [.int i]
  | .str s => [.fixed b!"'", .escaped s, .fixed b!"'"]
  | .neg a => [.fixed b!"(- "] ++ render a ++ [.fixed b!")"]
  | .not a => [.fixed b!"!("] ++ render a ++ [.fixed b!")"]
  | .bin op a b => [.fixed b!"(("] ++ render a ++ [.fixed b!") ", .fixed (opSym op), .fixed b!" ("] ++ render b ++ [.fixed b!"))"]
  | .cond c a b => [.fixed b!"(("] ++ render c ++ [.fixed b!") ?"] ++ render a ++ [.fixed b!":"] ++ render b ++ [.fixed b!")"]
  | .nonNullElse a a' b =>
    [.fixed b!"(("] ++ render a ++ [.fixed b!") != null ? "] ++ render a' ++ [.fixed b!" : "] ++ render b ++ [.fixed b!")"]
  | .local g => [.ident g]
  | .optData k => [.fixed b!"opt_data.", .ident k]
  | .member x k => render x ++ [.fixed b!".", .ident k]
  | .index x i => render x ++ [.fixed b!"[", .int i, .fixed b!"]"]
  | .guard g r => [.fixed b!"("] ++ render g ++ [.fixed b!" == null) ? null : "] ++ render r
  | .paren x => [.fixed b!"("] ++ render x ++ [.fixed b!")"]
  | .call1 .floor a => [.fixed b!"Math.floor("] ++ render a ++ [.fixed b!")"]
  | .call1 .ceil a => [.fixed b!"Math.ceil("] ++ render a ++ [.fixed b!")"]
  | .call1 .round a => [.fixed b!"Math.round("] ++ render a ++ [.fixed b!")"]
  | .call1 .length a => render a ++ [.fixed b!".length"]
  | .call1 .nonNull a => render a ++ [.fixed b!"!= null"]
  | .call2 .min a b => [.fixed b!"Math.min("] ++ render a ++ [.fixed b!","] ++ render b ++ [.fixed b!")"]
  | .call2 .max a b => [.fixed b!"Math.max("] ++ render a ++ [.fixed b!","] ++ render b ++ [.fixed b!")"]

/-! ## the generator writes `render (toAst sc e)` in every state whose scope is `sc` -/

/-- from every state with scope `sc`, `m` succeeds, writes exactly `ps` and leaves the scope alone -/
def RunsSc (sc : Scope) (m : M Unit) (ps : List Piece) : Prop :=
  ∀ s, s.scope = sc → ∃ s', m s = .ok ((), ps, s') ∧ s'.scope = sc

theorem RunsSc.seq {sc : Scope} {m k : M Unit} {ps qs : List Piece} (hm : RunsSc sc m ps) (hk : RunsSc sc k qs) :
    RunsSc sc (m >>= fun _ => k) (ps ++ qs) := by
  intro s hs
  obtain ⟨s1, h1, hs1⟩ := hm s hs
  obtain ⟨s2, h2, hs2⟩ := hk s1 hs1
  exact ⟨s2, by simp [Bind.bind, M.bind, h1, h2], hs2⟩

theorem RunsSc.fx {sc : Scope} (t : Bytes) : RunsSc sc (fx t) [.fixed t] := fun s hs => ⟨s, rfl, hs⟩
theorem RunsSc.emit {sc : Scope} (p : Piece) : RunsSc sc (emit p) [p] := fun s hs => ⟨s, rfl, hs⟩
theorem RunsSc.emits {sc : Scope} (ps : List Piece) : RunsSc sc (emits ps) ps := fun s hs => ⟨s, rfl, hs⟩
theorem RunsSc.atOther {sc : Scope} : RunsSc sc atOther [] := fun _ hs => ⟨_, rfl, hs⟩
theorem RunsSc.pure {sc : Scope} : RunsSc sc (pure ()) [] := fun s hs => ⟨s, rfl, hs⟩
theorem RunsSc.cast {sc : Scope} {m : M Unit} {ps qs : List Piece} (h : RunsSc sc m ps) (e : ps = qs) : RunsSc sc m qs := e ▸ h

theorem RunsSc.whenAddCalled {sc : Scope} (c : Bool) (k : Bytes) (v : List Piece) : RunsSc sc (whenM c (addCalled k v)) [] := by
  intro s hs
  cases c
  · exact ⟨s, rfl, hs⟩
  · exact ⟨_, rfl, hs⟩

theorem RunsSc.whenFx {sc : Scope} (c : Bool) (t : Bytes) : RunsSc sc (whenM c (JsGen.fx t)) (if c then [.fixed t] else []) := by
  intro s hs
  cases c
  · exact ⟨s, rfl, hs⟩
  · exact ⟨s, rfl, hs⟩

theorem RunsSc.bindScope {sc : Scope} {k : Scope → M Unit} {ps : List Piece} (h : RunsSc sc (k sc) ps) :
    RunsSc sc (getScope >>= k) ps := by
  intro s hs
  obtain ⟨s', h', hs'⟩ := h s hs
  refine ⟨s', ?_, hs'⟩
  simp only [Bind.bind, M.bind, getScope, hs, h', List.nil_append]

section
variable (sk : List Bytes → List Bytes) (o : Options)

theorem visitAccess_renders (sc : Scope) : ∀ (acc : AccessList) (x j : JsExpr), accAst acc x = some j →
    RunsSc sc (visitAccess sk o acc (render x)) (render j)
  | .nil, x, j, h => by
    simp only [accAst, Option.some.injEq] at h; subst h
    unfold visitAccess
    exact RunsSc.emits _
  | .cons (.key p ns k) rest, x, j, h => by
    unfold accAst at h
    split at h
    · cases h
    · cases ns with
      | false =>
        simp only [Bool.false_eq_true, if_false] at h
        unfold visitAccess
        have ih := visitAccess_renders sc rest (.member x k) j h
        exact (RunsSc.seq (RunsSc.pure) ih).cast (by simp)
      | true =>
        simp only [if_true] at h
        cases rest with
        | nil =>
          simp only [Option.some.injEq] at h; subst h
          unfold visitAccess
          have h1 : RunsSc sc (whenM true (do fx b!"("; emits (render x); fx b!" == null) ? null : ")) _ :=
            RunsSc.seq (RunsSc.fx _) (RunsSc.seq (RunsSc.emits _) (RunsSc.fx _))
          have h2 : RunsSc sc (visitAccess sk o .nil (render x ++ [.fixed b!".", .ident k])) (render x ++ [.fixed b!".", .ident k]) := by
            unfold visitAccess; exact RunsSc.emits _
          exact (RunsSc.seq h1 h2).cast (by simp [render])
        | cons _ _ => cases h
  | .cons (.index p ns i) rest, x, j, h => by
    unfold accAst at h
    split at h
    · cases h
    · cases ns with
      | false =>
        simp only [Bool.false_eq_true, if_false] at h
        unfold visitAccess
        have ih := visitAccess_renders sc rest (.index x i) j h
        exact (RunsSc.seq (RunsSc.pure) ih).cast (by simp)
      | true =>
        simp only [if_true] at h
        cases rest with
        | nil =>
          simp only [Option.some.injEq] at h; subst h
          unfold visitAccess
          have h1 : RunsSc sc (whenM true (do fx b!"("; emits (render x); fx b!" == null) ? null : ")) _ :=
            RunsSc.seq (RunsSc.fx _) (RunsSc.seq (RunsSc.emits _) (RunsSc.fx _))
          have h2 : RunsSc sc (visitAccess sk o .nil (render x ++ [.fixed b!"[", .int i, .fixed b!"]"])) (render x ++ [.fixed b!"[", .int i, .fixed b!"]"]) := by
            unfold visitAccess; exact RunsSc.emits _
          exact (RunsSc.seq h1 h2).cast (by simp [render])
        | cons _ _ => cases h
  | .cons (.expr _ _ _) _, x, j, h => by simp [accAst] at h

/-! ### the live function table says what we read (TABLE OBLIGATIONS, by evaluation) -/

def partsOf (name : Bytes) (arity : Nat) : Option (List Gen.JsFnPart) :=
  (findFunc name).bind fun f => (f.emit[arity]?).join

theorem tbl_floor : partsOf sFloor 1 = some [.text b!"Math.floor(", .arg 0, .text b!")"] := rfl
theorem tbl_ceiling : partsOf sCeiling 1 = some [.text b!"Math.ceil(", .arg 0, .text b!")"] := rfl
theorem tbl_round : partsOf sRound 1 = some [.text b!"Math.round(", .arg 0, .text b!")"] := rfl
theorem tbl_length : partsOf sLength 1 = some [.arg 0, .text b!".length"] := rfl
theorem tbl_isNonnull : partsOf sIsNonnull 1 = some [.arg 0, .text b!"!= null"] := rfl
theorem tbl_min : partsOf sMin 2 = some [.text b!"Math.min(", .arg 0, .text b!",", .arg 1, .text b!")"] := rfl
theorem tbl_max : partsOf sMax 2 = some [.text b!"Math.max(", .arg 0, .text b!",", .arg 1, .text b!")"] := rfl

/-- a call of a table function, given what the table records for this arity -/
theorem func_runs (sc : Scope) (p : Nat) (name : Bytes) (args : ExprList) (parts : List Gen.JsFnPart) (ps : List Piece)
    (ht : partsOf name args.length = some parts)
    (hp : RunsSc sc (applyParts (argWalkers sk o args) parts) ps) :
    RunsSc sc (walkExpr sk o (.func p name args)) ps := by
  unfold partsOf at ht
  unfold walkExpr
  cases hf : findFunc name with
  | none => simp [hf] at ht
  | some f =>
    simp only [hf, Option.bind_some] at ht
    have he : applyFn (argWalkers sk o args) f.emit[args.length]? = applyParts (argWalkers sk o args) parts := by
      cases h1 : f.emit[args.length]? with
      | none => simp [h1] at ht
      | some x =>
        cases x with
        | none => simp [h1] at ht
        | some pp =>
          simp only [h1, Option.join, Option.bind_some, id, Option.some.injEq] at ht
          subst ht
          rfl
    simp only
    rw [he]
    exact (RunsSc.seq RunsSc.atOther (RunsSc.seq hp (RunsSc.whenAddCalled _ _ _))).cast (by simp)

theorem orFail_some (w : M Unit) : orFail (some w) = w := rfl

/-- `applyParts` for the two shapes of template used here -/
theorem parts1_runs (sc : Scope) (a : Expr) (pa : List Piece) (ha : RunsSc sc (walkExpr sk o a) pa) (pre post : Bytes) :
    RunsSc sc (applyParts (argWalkers sk o (.cons a .nil)) [.text pre, .arg 0, .text post]) ([.fixed pre] ++ pa ++ [.fixed post]) := by
  unfold argWalkers argWalkers
  simp only [applyParts, List.getElem?_cons_zero, orFail_some]
  exact (RunsSc.seq (RunsSc.fx _) (RunsSc.seq ha (RunsSc.seq (RunsSc.fx _) RunsSc.pure))).cast (by simp)

theorem parts1post_runs (sc : Scope) (a : Expr) (pa : List Piece) (ha : RunsSc sc (walkExpr sk o a) pa) (post : Bytes) :
    RunsSc sc (applyParts (argWalkers sk o (.cons a .nil)) [.arg 0, .text post]) (pa ++ [.fixed post]) := by
  unfold argWalkers argWalkers
  simp only [applyParts, List.getElem?_cons_zero, orFail_some]
  exact (RunsSc.seq ha (RunsSc.seq (RunsSc.fx _) RunsSc.pure)).cast (by simp)

theorem parts2_runs (sc : Scope) (a b : Expr) (pa pb : List Piece) (ha : RunsSc sc (walkExpr sk o a) pa)
    (hb : RunsSc sc (walkExpr sk o b) pb) (pre mid post : Bytes) :
    RunsSc sc (applyParts (argWalkers sk o (.cons a (.cons b .nil))) [.text pre, .arg 0, .text mid, .arg 1, .text post])
      ([.fixed pre] ++ pa ++ [.fixed mid] ++ pb ++ [.fixed post]) := by
  unfold argWalkers argWalkers argWalkers
  simp only [applyParts, List.getElem?_cons_zero, List.getElem?_cons_succ, orFail_some]
  exact (RunsSc.seq (RunsSc.fx _) (RunsSc.seq ha (RunsSc.seq (RunsSc.fx _) (RunsSc.seq hb (RunsSc.seq (RunsSc.fx _) RunsSc.pure))))).cast
    (by simp)

theorem beq_true_eq {a b : Bytes} (h : (a == b) = true) : a = b := by simpa using h

/-- PARTIAL (generator ↔ AST, with variables): in every state whose scope is `sc` the generator
    writes exactly the text of the translation, and leaves the scope as it is -/
theorem walkExpr_renders (sc : Scope) :
    ∀ (e : Expr) (j : JsExpr), toAst sc e = some j → RunsSc sc (walkExpr sk o e) (render j)
  | .null _, j, h => by
    simp only [toAst, Option.some.injEq] at h; subst h
    unfold walkExpr
    exact (RunsSc.seq RunsSc.atOther (RunsSc.fx _)).cast (by simp [render])
  | .bool _ b, j, h => by
    simp only [toAst, Option.some.injEq] at h; subst h
    unfold walkExpr
    exact (RunsSc.seq RunsSc.atOther (RunsSc.fx _)).cast (by simp [render])
  | .int _ v, j, h => by
    simp only [toAst, Option.some.injEq] at h; subst h
    unfold walkExpr
    exact (RunsSc.seq RunsSc.atOther (RunsSc.emit _)).cast (by simp [render])
  | .str _ _ v, j, h => by
    simp only [toAst, Option.some.injEq] at h; subst h
    unfold walkExpr
    exact (RunsSc.seq RunsSc.atOther (RunsSc.seq (RunsSc.fx _) (RunsSc.seq (RunsSc.emit _) (RunsSc.fx _)))).cast (by simp [render])
  | .neg _ a, j, h => by
    simp only [toAst, Option.map_eq_some_iff] at h
    obtain ⟨ja, ha, rfl⟩ := h
    unfold walkExpr
    exact (RunsSc.seq RunsSc.atOther (RunsSc.seq (RunsSc.fx _) (RunsSc.seq (walkExpr_renders sc a ja ha) (RunsSc.fx _)))).cast
      (by simp [render])
  | .not _ a, j, h => by
    simp only [toAst, Option.map_eq_some_iff] at h
    obtain ⟨ja, ha, rfl⟩ := h
    unfold walkExpr
    exact (RunsSc.seq RunsSc.atOther (RunsSc.seq (RunsSc.fx _) (RunsSc.seq (walkExpr_renders sc a ja ha) (RunsSc.fx _)))).cast
      (by simp [render])
  | .bin op _ a b, j, h => by
    unfold toAst at h
    unfold walkExpr
    cases hja : toAst sc a with
    | none => cases op <;> simp [hja] at h
    | some ja =>
      cases hjb : toAst sc b with
      | none => cases op <;> simp [hja, hjb] at h
      | some jb =>
        have ra := walkExpr_renders sc a ja hja
        have rb := walkExpr_renders sc b jb hjb
        cases hop : opOf op with
        | none =>
          cases op <;> simp [opOf] at hop
          · simp [hja, hjb, opOf] at h
          · simp only [hja, hjb, Option.some.injEq] at h
            subst h
            exact (RunsSc.seq RunsSc.atOther (RunsSc.seq (RunsSc.fx _) (RunsSc.seq ra (RunsSc.seq (RunsSc.fx _) (RunsSc.seq ra
              (RunsSc.seq (RunsSc.fx _) (RunsSc.seq rb (RunsSc.fx _)))))))).cast (by simp [render])
        | some jo =>
          have hsym := jsOp_sym op jo hop
          cases op <;> simp [opOf] at hop <;> subst hop <;>
            (simp only [hja, hjb, opOf, Option.some.injEq] at h; subst h
             exact (RunsSc.seq RunsSc.atOther (RunsSc.seq (RunsSc.fx _) (RunsSc.seq ra (RunsSc.seq (RunsSc.fx _) (RunsSc.seq (RunsSc.fx _)
               (RunsSc.seq (RunsSc.fx _) (RunsSc.seq rb (RunsSc.fx _)))))))).cast (by simp [render, jsOp, opSym]))
  | .tern _ c a b, j, h => by
    unfold toAst at h
    cases hjc : toAst sc c with
    | none => simp [hjc] at h
    | some jc =>
      cases hja : toAst sc a with
      | none => simp [hjc, hja] at h
      | some ja =>
        cases hjb : toAst sc b with
        | none => simp [hjc, hja, hjb] at h
        | some jb =>
          simp only [hjc, hja, hjb, Option.some.injEq] at h
          subst h
          unfold walkExpr
          exact (RunsSc.seq RunsSc.atOther (RunsSc.seq (RunsSc.fx _) (RunsSc.seq (walkExpr_renders sc c jc hjc) (RunsSc.seq (RunsSc.fx _)
            (RunsSc.seq (walkExpr_renders sc a ja hja) (RunsSc.seq (RunsSc.fx _) (RunsSc.seq (walkExpr_renders sc b jb hjb)
            (RunsSc.fx _)))))))).cast (by simp [render])
  | .dataRef _ key acc, j, h => by
    unfold toAst at h
    split at h
    · cases h
    · rename_i hij
      simp only [Option.map_eq_some_iff] at h
      obtain ⟨j0, hacc, rfl⟩ := h
      unfold walkExpr
      refine (RunsSc.seq RunsSc.atOther (RunsSc.bindScope ?_)).cast (List.nil_append _)
      have hkey : (key == b!"ij") = false := by simpa [sIj] using hij
      simp only [hkey, Bool.false_eq_true, if_false]
      cases hl : sc.lookup key with
      | none =>
        simp only [hl] at hacc ⊢
        have hv := visitAccess_renders sk o sc acc (.optData key) j0 hacc
        have := RunsSc.seq (RunsSc.whenFx (sc := sc) (anyNullSafe acc) b!"(") (RunsSc.seq hv (RunsSc.whenFx (anyNullSafe acc) b!")"))
        refine this.cast ?_
        cases anyNullSafe acc <;> simp [render]
      | some g =>
        simp only [hl] at hacc ⊢
        have hv := visitAccess_renders sk o sc acc (.local g) j0 hacc
        have := RunsSc.seq (RunsSc.whenFx (sc := sc) (anyNullSafe acc) b!"(") (RunsSc.seq hv (RunsSc.whenFx (anyNullSafe acc) b!")"))
        refine this.cast ?_
        cases anyNullSafe acc <;> simp [render]
  | .func p name args, j, h => by
    unfold toAst at h
    cases args with
    | nil => simp at h
    | cons a r =>
      cases r with
      | nil =>
        simp only at h
        cases hf : fn1Of name with
        | none => simp [hf] at h
        | some f1 =>
          cases hja : toAst sc a with
          | none => simp [hf, hja] at h
          | some ja =>
            simp only [hf, hja, Option.some.injEq] at h
            subst h
            have ra := walkExpr_renders sc a ja hja
            unfold fn1Of at hf
            split at hf
            · rename_i hn; have := beq_true_eq hn; subst this
              simp only [Option.some.injEq] at hf; subst hf
              exact func_runs sk o sc p _ _ _ _ tbl_isNonnull ((parts1post_runs sk o sc a _ ra _).cast (by simp [render]))
            · split at hf
              · rename_i hn; have := beq_true_eq hn; subst this
                simp only [Option.some.injEq] at hf; subst hf
                exact func_runs sk o sc p _ _ _ _ tbl_length ((parts1post_runs sk o sc a _ ra _).cast (by simp [render]))
              · split at hf
                · rename_i hn; have := beq_true_eq hn; subst this
                  simp only [Option.some.injEq] at hf; subst hf
                  exact func_runs sk o sc p _ _ _ _ tbl_floor ((parts1_runs sk o sc a _ ra _ _).cast (by simp [render]))
                · split at hf
                  · rename_i hn; have := beq_true_eq hn; subst this
                    simp only [Option.some.injEq] at hf; subst hf
                    exact func_runs sk o sc p _ _ _ _ tbl_ceiling ((parts1_runs sk o sc a _ ra _ _).cast (by simp [render]))
                  · split at hf
                    · rename_i hn; have := beq_true_eq hn; subst this
                      simp only [Option.some.injEq] at hf; subst hf
                      exact func_runs sk o sc p _ _ _ _ tbl_round ((parts1_runs sk o sc a _ ra _ _).cast (by simp [render]))
                    · cases hf
      | cons b r2 =>
        cases r2 with
        | cons _ _ => simp at h
        | nil =>
          simp only at h
          cases hf : fn2Of name with
          | none => simp [hf] at h
          | some f2 =>
            cases hja : toAst sc a with
            | none => simp [hf, hja] at h
            | some ja =>
              cases hjb : toAst sc b with
              | none => simp [hf, hja, hjb] at h
              | some jb =>
                simp only [hf, hja, hjb, Option.some.injEq] at h
                subst h
                have ra := walkExpr_renders sc a ja hja
                have rb := walkExpr_renders sc b jb hjb
                unfold fn2Of at hf
                split at hf
                · rename_i hn; have := beq_true_eq hn; subst this
                  simp only [Option.some.injEq] at hf; subst hf
                  exact func_runs sk o sc p _ _ _ _ tbl_min ((parts2_runs sk o sc a b _ _ ra rb _ _ _).cast (by simp [render]))
                · split at hf
                  · rename_i hn; have := beq_true_eq hn; subst this
                    simp only [Option.some.injEq] at hf; subst hf
                    exact func_runs sk o sc p _ _ _ _ tbl_max ((parts2_runs sk o sc a b _ _ ra rb _ _ _).cast (by simp [render]))
                  · cases hf
  | .float _ _, j, h => by simp [toAst] at h
  | .global _ _, j, h => by simp [toAst] at h
  | .list _ _, j, h => by simp [toAst] at h
  | .map _ _, j, h => by simp [toAst] at h

end

end SoyVerif.Props.C04c
