/-
  C10 — Message ids are a stable function of message content and meaning.

  Property theorems about `Model/Msg.lean` (the model of soymsg/{id,placeholder,soymsg}.go,
  tied to the code by the correspondence sub-checks C10fp and C10id).
-/
import SoyVerif.Lemmas.MsgNames
import SoyVerif.Lemmas.MsgDistinct
import SoyVerif.Lemmas.MsgParts

namespace SoyVerif.Props.C10
open SoyVerif SoyVerif.Model.Msg

/-- the ids of the queue nodes are their positions: distinct "pointers" -/
theorem mkQueue_ids (ps : List Part) : (mkQueue ps).map (·.id) = List.range' 0 ps.length := by
  unfold mkQueue
  rw [List.map_map]
  have : ((fun x : QNode => x.id) ∘ fun x : Part × Nat => (⟨x.2, x.1.base, x.1.src⟩ : QNode)) = Prod.snd := by
    funext x; rfl
  rw [this, List.zipIdx_map_snd]

theorem mkQueue_ids_nodup (ps : List Part) : ((mkQueue ps).map (·.id)).Nodup := by
  rw [mkQueue_ids]; exact List.nodup_range'

/-! ## 1. placeholder names do not depend on map iteration order -/

/-- FULL (C10/C13 core): for every message body and every pair of iteration orders of the
    four Go maps ranged over by `setPlaceholderNames`, the assigned names coincide. -/
theorem names_order_independent (o₁ o₂ : Orders) (h₁ : o₁.Valid) (h₂ : o₂.Valid) (body : List Part) :
    setNames o₁ body = setNames o₂ body := by
  unfold setNames queue
  rw [setNamesQ_eq_canon o₁ h₁ _ (mkQueue_ids_nodup _), setNamesQ_eq_canon o₂ h₂ _ (mkQueue_ids_nodup _)]

/-- … hence so do the named body, the fingerprint / placeholder strings and the id. -/
theorem namedBody_order_independent (o₁ o₂ : Orders) (h₁ : o₁.Valid) (h₂ : o₂.Valid) (body : List Part) :
    namedBody o₁ body = namedBody o₂ body := by
  unfold namedBody
  rw [names_order_independent o₁ o₂ h₁ h₂]

theorem id_order_independent (o₁ o₂ : Orders) (h₁ : o₁.Valid) (h₂ : o₂.Valid) (m : Msg) :
    calcID o₁ m = calcID o₂ m ∧ placeholderString o₁ m = placeholderString o₂ m := by
  unfold calcID placeholderString writeFingerprint
  rw [namedBody_order_independent o₁ o₂ h₁ h₂]
  exact ⟨rfl, rfl⟩

def revOrders : Orders := ⟨List.reverse, List.reverse, List.reverse, List.reverse⟩

theorem revOrders_valid : revOrders.Valid :=
  ⟨fun l => List.reverse_perm l, fun l => List.reverse_perm l, fun l => List.reverse_perm l,
   fun l => List.reverse_perm l⟩

theorem idOrders_valid : Orders.id.Valid :=
  ⟨fun _ => List.Perm.refl _, fun _ => List.Perm.refl _, fun _ => List.Perm.refl _, fun _ => List.Perm.refl _⟩

/-- non-vacuity: the message of the property statement, `{$a.x}{$b.x}{$x_1}` (base names
    X, X, X_1): the suffix 1 is skipped because X_1 is a base name, under both orders. -/
example : setNames Orders.id [.ph [88] [1], .ph [88] [2], .ph [88, 95, 49] [3]]
    = [[88, 95, 50], [88, 95, 51], [88, 95, 49]] := by decide
example : setNames revOrders [.ph [88] [1], .ph [88] [2], .ph [88, 95, 49] [3]]
    = [[88, 95, 50], [88, 95, 51], [88, 95, 49]] := by decide

/-! ## 2. the top bit of an id is clear -/

theorem calcIDOf_lt (fpstr meaning : Bytes) : (calcIDOf fpstr meaning).toNat < 2 ^ 63 := by
  unfold calcIDOf
  simp only [UInt64.toNat_and]
  exact Nat.lt_of_le_of_lt Nat.and_le_right (by decide)

/-- FULL: every id fits in 63 bits. -/
theorem id_top_bit_clear (o : Orders) (m : Msg) : (calcID o m).toNat < 2 ^ 63 :=
  calcIDOf_lt _ _

example : (calcID Orders.id ⟨[110], [], [.text [65]]⟩).toNat < 2 ^ 63 := id_top_bit_clear _ _
example : calcIDOf [65] [] = calcIDOf [65] [] ∧ (calcIDOf [65, 114, 99, 104, 105, 118, 101] [110, 111, 117, 110]).toNat
    = 7224011416745566687 := by decide

/-! ## 3. what the id depends on -/

/-- FULL: two messages with the same fingerprint string and the same meaning have the same
    id — whatever their descriptions, and whatever else differs between them. -/
theorem id_depends_only_on (o₁ o₂ : Orders) (m₁ m₂ : Msg)
    (hfp : writeFingerprint o₁ m₁ false = writeFingerprint o₂ m₂ false)
    (hmeaning : m₁.meaning = m₂.meaning) : calcID o₁ m₁ = calcID o₂ m₂ := by
  unfold calcID
  rw [hfp, hmeaning]

/-- the description never matters -/
theorem id_ignores_desc (o : Orders) (meaning d₁ d₂ : Bytes) (body : List Part) :
    calcID o ⟨meaning, d₁, body⟩ = calcID o ⟨meaning, d₂, body⟩ := rfl

/-- FULL: the fingerprint string is a function of the named body — the texts, the names in
    order and the plural structure (case values) — and of nothing else (`NPart` has no
    other content): bodies with the same named body have the same string, in both modes. -/
theorem fingerprint_string_spec (o₁ o₂ : Orders) (m₁ m₂ : Msg) (braces : Bool)
    (h : namedBody o₁ m₁.body = namedBody o₂ m₂.body) :
    writeFingerprint o₁ m₁ braces = writeFingerprint o₂ m₂ braces := by
  unfold writeFingerprint
  rw [h]

example : id_ignores_desc Orders.id [] [1] [2] [.text [65]] = rfl := rfl
/-- different placeholders, same names and text ⇒ same fingerprint string and id -/
example : calcID Orders.id ⟨[], [1], [.ph [65] [1], .text [32]]⟩ = calcID Orders.id ⟨[], [2], [.ph [65] [7, 7], .text [32]]⟩ := by
  apply id_depends_only_on
  · decide
  · rfl

/-! ## 4. names separate exactly the distinct placeholders -/

theorem mkQueue_getElem_id (ps : List Part) (i : Nat) (hi : i < (mkQueue ps).length) :
    (mkQueue ps)[i].id = i := by
  have h := mkQueue_ids ps
  have hl : i < ((mkQueue ps).map (·.id)).length := by simpa using hi
  have : ((mkQueue ps).map (·.id))[i] = i := by
    simp only [h]
    rw [List.getElem_range']
    omega
  simpa using this

/-- FULL: two nodes of a message (placeholders or plurals, at any depth; `i`, `j` are their
    positions in the processing order) receive the same name if and only if they have the
    same base name and the same source text.  So distinct representative nodes — a
    different source text under one base name, or different base names — get distinct
    names, and equivalent nodes share one. -/
theorem names_distinct (o : Orders) (ho : o.Valid) (body : List Part) (i j : Nat)
    (hi : i < (queue body).length) (hj : j < (queue body).length) :
    (setNames o body).getD i [] = (setNames o body).getD j [] ↔
      ((queue body)[i].base = (queue body)[j].base ∧ (queue body)[i].src = (queue body)[j].src) := by
  have nd : ((queue body).map (·.id)).Nodup := mkQueue_ids_nodup _
  have inv := inv1_step1 _ nd
  unfold setNames
  rw [setNamesQ_eq_canon o ho _ nd, canonNames_getD _ _ i hi, canonNames_getD _ _ j hj]
  have e1 : (queue body)[i].id = i := mkQueue_getElem_id _ i hi
  have e2 : (queue body)[j].id = j := mkQueue_getElem_id _ j hj
  have := nameOfId_eq_iff inv nd (List.getElem_mem hi) (List.getElem_mem hj)
  rw [e1, e2] at this
  exact this

/-- `names_equiv_same`: reading a node's name through (base name, source text), as the
    model's `namedBody` does, gives the name Go stored in the node itself. -/
theorem names_equiv_same (o : Orders) (ho : o.Valid) (body : List Part) (i : Nat)
    (hi : i < (queue body).length) :
    nameFor (queue body) (setNames o body) (queue body)[i].base (queue body)[i].src
      = (setNames o body).getD i [] := by
  unfold nameFor
  cases hf : (queue body).findIdx? (fun n => n.base == (queue body)[i].base && n.src == (queue body)[i].src) with
  | none =>
    have := List.findIdx?_eq_none_iff.mp hf _ (List.getElem_mem hi)
    simp at this
  | some k =>
    obtain ⟨hk, hp, _⟩ := List.findIdx?_eq_some_iff_getElem.mp hf
    simp only [Bool.and_eq_true, beq_iff_eq] at hp
    exact (names_distinct o ho body k i hk hi).mpr hp

/-- non-vacuity: `{$a.x}{$b.x}{$x_1}{$a.x}`: four nodes, three names -/
example : setNames Orders.id [.ph [88] [1], .ph [88] [2], .ph [88, 95, 49] [3], .ph [88] [1]]
    = [[88, 95, 50], [88, 95, 51], [88, 95, 49], [88, 95, 50]] := by decide

/-! ## 5. `Parts` inverts `PlaceholderString` (C11) -/

/-- FULL for flat (non-plural) bodies: if no run of adjacent raw texts contains a substring of
    the shape `{[A-Z0-9_]+}` and every name is in `[A-Z0-9_]+`, then `Parts` applied to the
    placeholder string returns the body's text / placeholder sequence (adjacent texts
    merged, empty texts dropped).  (`Parts` does not parse plural syntax — soymsg.go says
    so — hence the restriction to flat bodies.) -/
theorem parts_writeFP (nb : List NPart) (htext : NoMatch (leadText nb)) (hflat : FlatOK nb) :
    parts (writeFPList true nb) = expectedParts nb [] :=
  partsGo_writeFP nb [] htext hflat

theorem parts_placeholderString (o : Orders) (m : Msg)
    (htext : NoMatch (leadText (namedBody o m.body))) (hflat : FlatOK (namedBody o m.body)) :
    parts (placeholderString o m) = expectedParts (namedBody o m.body) [] :=
  parts_writeFP _ htext hflat

/-- non-vacuity: `x{A}{B_1} {}` + `.` — hypotheses hold, texts around are merged -/
example : parts (writeFPList true [.text [120], .ph [65], .ph [66, 95, 49], .text [32], .text [123, 125], .text [46]])
    = [.text [120], .ph [65], .ph [66, 95, 49], .text [32, 123, 125, 46]] := by
  rw [parts_writeFP]
  · rfl
  · exact noMatch_of_noMatchB (by decide)
  · refine ⟨⟨by simp, by decide⟩, noMatch_of_noMatchB (by decide), ⟨by simp, by decide⟩,
      noMatch_of_noMatchB (by decide), trivial⟩
/-- the hypothesis on the texts is needed: the raw text `{A}` comes back as a placeholder -/
example : parts (writeFPList true [.text [123, 65, 125]]) = [.ph [65]] := by decide

end SoyVerif.Props.C10
