/-
  C17 — PRINT COMMANDS with directives, at BYTE level (file mode of the lexer).

    printPrint ff arg dirs = "{" ++ printExpr arg ++ ("|" name [":" arg ("," arg)*])* ++ "}"        (PrintNode.String())

  * `lex_print_cmd`: `lexAll (printPrint ff arg dirs) false` — the model of `lex(name, input)`, which starts in `lexText`,
    goes through `lexLeftDelim`, `lexBeginTag`, `lexInsideTag` …, `lexRightDelim` and back to `lexText` — sends exactly:
    the LeftDelim item, the printed tokens of the expression, for every directive `|` Ident [`:` arg tokens (`,` arg
    tokens)*], the RightDelim item and EOF (each with its END offset).
  Hypotheses: `NamesOk ff` of the expression and of every directive argument (Lemmas/LexPrintNames), and `DirNameOk`:
  the directive name is an identifier as the lexer reads it after `|` (ASCII letter or `_`, then letters / digits / `_`
  of any script) that is not a word of `builtinIdents` (`{$x|call}`, `{$x|if:1}` are rejected by the real parser too:
  the lexer has ONE keyword table for the whole tag).
-/
import SoyVerif.Props.C17b

set_option linter.unusedVariables false
set_option linter.unusedSectionVars false
set_option linter.unusedSimpArgs false

namespace SoyVerif.Props.C17c
open SoyVerif SoyVerif.Model SoyVerif.Model.Lex SoyVerif.Model.Parser SoyVerif.Model.PrintTokens
open SoyVerif.Model.Printer SoyVerif.Lemmas.LexPrint SoyVerif.Lemmas.ParserBasic
open SoyVerif.Lemmas.ParserAdj SoyVerif.Lemmas.ParserToks

/-! ## the token view of a print command -/

section
variable (ff : UInt64 → Bytes)

/-- further directive arguments, each behind a comma -/
def piecesDArgsTail : List Expr → List Piece
  | [] => []
  | a :: r => .tok tComma :: (pieces ff a ++ piecesDArgsTail r)

/-- `:a,b,c` (nothing for no argument) -/
def piecesDArgs : List Expr → List Piece
  | [] => []
  | a :: r => .tok tColon :: (pieces ff a ++ piecesDArgsTail ff r)

/-- `|name:a,b` -/
def piecesDir (d : Directive) : List Piece := .tok tPipe :: .tok (tIdent d.name) :: piecesDArgs ff d.args

def piecesDirs : List Directive → List Piece
  | [] => []
  | d :: r => piecesDir ff d ++ piecesDirs r

/-- the text between the braces -/
def piecesBody (arg : Expr) (dirs : List Directive) : List Piece := pieces ff arg ++ piecesDirs ff dirs

theorem spell_dargsTail : ∀ (r : List Expr) (a : Expr),
    spell (pieces ff a ++ piecesDArgsTail ff r) = (((a :: r).map (printExpr ff)).intersperse [44]).flatten
  | [], a => by simp [piecesDArgsTail, spell_pieces]
  | b :: r, a => by
    have ih := spell_dargsTail r b
    simp only [piecesDArgsTail, spell_append, spell, spell_pieces] at ih ⊢
    simp [ih, tComma]

theorem spell_dir (d : Directive) : spell (piecesDir ff d) = printDirective ff d := by
  unfold piecesDir printDirective
  cases h : d.args with
  | nil => simp [piecesDArgs, spell, tPipe, tIdent]
  | cons a r =>
    have := spell_dargsTail ff r a
    simp only [piecesDArgs, spell, tPipe, tIdent, tColon, this]
    simp

theorem spell_dirs : ∀ (ds : List Directive), spell (piecesDirs ff ds) = (ds.map (printDirective ff)).flatten
  | [] => rfl
  | d :: r => by simp [piecesDirs, spell_append, spell_dir, spell_dirs r]

/-- the printed command is `{`, the spelling of the body pieces, `}` -/
theorem spell_body (arg : Expr) (dirs : List Directive) :
    printPrint ff arg dirs = 123 :: (spell (piecesBody ff arg dirs) ++ [125]) := by
  simp [printPrint, piecesBody, spell_append, spell_pieces, spell_dirs]

end

/-! ## what follows every token, and what stands in front of every `-` -/

/-- the name of a directive as the lexer reads it behind `|`: an ASCII letter or `_`, then letters / digits / `_` (of any
    script), and no word of the lexer's keyword table -/
def DirNameOk (d : Directive) : Prop :=
  ∃ c k, d.name = c :: k ∧ isIdStart c = true ∧ alnumBytes k = true ∧ Gen.builtinIdents.lookup (c :: k) = none

/-- the conditions on a print command: names as the lexer reads them, in the expression, the directive names and the
    directive arguments -/
def CmdOk (ff : UInt64 → Bytes) (arg : Expr) (dirs : List Directive) : Prop :=
  NamesOk ff arg = true ∧ ∀ d ∈ dirs, DirNameOk d ∧ ∀ a ∈ d.args, NamesOk ff a = true

section
variable (ff : UInt64 → Bytes) (LT : LexTableOK)
include LT

theorem adj_dargsTail : ∀ (r : List Expr), (∀ a ∈ r, NamesOk ff a = true) → ∀ tail, Closer tail →
    Adj (piecesDArgsTail ff r) tail ∧ Closer (spell (piecesDArgsTail ff r) ++ tail)
  | [], _, tail, ht => ⟨trivial, by simpa [piecesDArgsTail, spell] using ht⟩
  | a :: r, h, tail, ht => by
    obtain ⟨ih1, ih2⟩ := adj_dargsTail r (fun x hx => h x (List.mem_cons_of_mem _ hx)) tail ht
    refine ⟨?_, by simp only [piecesDArgsTail, spell, tComma, List.cons_append]; exact closer_comma _⟩
    simp only [piecesDArgsTail, Adj]
    refine ⟨TokOk.comma _, ?_⟩
    rw [adj_append]
    exact ⟨adjE LT ff a (h a (List.mem_cons_self ..)) _ ih2, ih1⟩

theorem adj_dargs (args : List Expr) (h : ∀ a ∈ args, NamesOk ff a = true) (tail : Bytes) (ht : Closer tail) :
    Adj (piecesDArgs ff args) tail ∧ WordEnd (spell (piecesDArgs ff args) ++ tail) := by
  cases args with
  | nil => exact ⟨trivial, by simpa [piecesDArgs, spell] using closer_wordEnd ht⟩
  | cons a r =>
    obtain ⟨ih1, ih2⟩ := adj_dargsTail ff LT r (fun x hx => h x (List.mem_cons_of_mem _ hx)) tail ht
    refine ⟨?_, by simp only [piecesDArgs, spell, tColon, List.cons_append]; exact ⟨by decide, by decide⟩⟩
    simp only [piecesDArgs, Adj]
    refine ⟨TokOk.colon _, ?_⟩
    rw [adj_append]
    exact ⟨adjE LT ff a (h a (List.mem_cons_self ..)) _ ih2, ih1⟩

theorem adj_dirs : ∀ (ds : List Directive), (∀ d ∈ ds, DirNameOk d ∧ ∀ a ∈ d.args, NamesOk ff a = true) → ∀ tail, Closer tail →
    Adj (piecesDirs ff ds) tail ∧ Closer (spell (piecesDirs ff ds) ++ tail)
  | [], _, tail, ht => ⟨trivial, by simpa [piecesDirs, spell] using ht⟩
  | d :: r, h, tail, ht => by
    obtain ⟨ih1, ih2⟩ := adj_dirs r (fun x hx => h x (List.mem_cons_of_mem _ hx)) tail ht
    obtain ⟨⟨c, k, hn, hc, hk, hl⟩, ha⟩ := h d (List.mem_cons_self ..)
    obtain ⟨a1, a2⟩ := adj_dargs ff LT d.args ha _ ih2
    refine ⟨?_, by simp only [piecesDirs, piecesDir, spell, tPipe, List.cons_append]; exact closer_pipe _⟩
    simp only [piecesDirs, piecesDir, List.cons_append, Adj]
    refine ⟨TokOk.pipe _, ?_, ?_⟩
    · rw [spell_append, List.append_assoc]
      simp only [tIdent, hn]
      exact TokOk.word c k .tIdent _ hc hk a2 (Or.inr ⟨hl, rfl⟩)
    · rw [adj_append]
      exact ⟨a1, ih1⟩

theorem adj_body (arg : Expr) (dirs : List Directive) (h : CmdOk ff arg dirs) (tail : Bytes) (ht : Closer tail) :
    Adj (piecesBody ff arg dirs) tail := by
  obtain ⟨d1, d2⟩ := adj_dirs ff LT dirs h.2 tail ht
  unfold piecesBody
  rw [adj_append]
  exact ⟨adjE LT ff arg h.1 _ d2, d1⟩

end

section
variable (ff : UInt64 → Bytes)

theorem good_dargsTail : ∀ (r : List Expr) (x : ItemType), x ∈ afterOperand → Good x (typs (unsp (piecesDArgsTail ff r)))
  | [], x, hx => ⟨rfl, hx⟩
  | a :: r, x, hx => by
    have ga := good_toks ff a .tComma (by simp [beforeOperand])
    have ih := good_dargsTail r _ ga.2
    have : typs (unsp (piecesDArgsTail ff (a :: r))) = [.tComma] ++ (typs (toks ff a) ++ typs (unsp (piecesDArgsTail ff r))) := by
      simp [piecesDArgsTail, unsp, unsp_append, typs, toks, tComma]
    rw [this]
    refine good_append (by simp [chainOK, pairOK]) ?_
    exact good_append ga.1 ih

theorem good_dargs (args : List Expr) : Good .tIdent (typs (unsp (piecesDArgs ff args))) := by
  cases args with
  | nil => exact ⟨rfl, by simp [piecesDArgs, unsp, typs, lastOf, afterOperand]⟩
  | cons a r =>
    have ga := good_toks ff a .tColon (by simp [beforeOperand])
    have ih := good_dargsTail ff r _ ga.2
    have : typs (unsp (piecesDArgs ff (a :: r))) = [.tColon] ++ (typs (toks ff a) ++ typs (unsp (piecesDArgsTail ff r))) := by
      simp [piecesDArgs, unsp, unsp_append, typs, toks, tColon]
    rw [this]
    refine good_append (by simp [chainOK, pairOK]) ?_
    exact good_append ga.1 ih

theorem good_dirs : ∀ (ds : List Directive) (x : ItemType), x ∈ afterOperand → Good x (typs (unsp (piecesDirs ff ds)))
  | [], x, hx => ⟨rfl, hx⟩
  | d :: r, x, hx => by
    have ga := good_dargs ff d.args
    have ih := good_dirs r _ ga.2
    have : typs (unsp (piecesDirs ff (d :: r))) =
        [.tPipe, .tIdent] ++ (typs (unsp (piecesDArgs ff d.args)) ++ typs (unsp (piecesDirs ff r))) := by
      simp [piecesDirs, piecesDir, unsp, unsp_append, typs, tPipe, tIdent]
    rw [this]
    refine good_append (by simp [chainOK, pairOK]) ?_
    exact good_append ga.1 ih

/-- in the body of a print command, behind `{`, every `-` stands where the lexer reads it as intended -/
theorem chain_body (arg : Expr) (dirs : List Directive) :
    chainOK .tLeftDelim (typs (unsp (piecesBody ff arg dirs))) = true := by
  have ga := good_toks ff arg .tLeftDelim (by simp [beforeOperand])
  have gd := good_dirs ff dirs _ ga.2
  have : typs (unsp (piecesBody ff arg dirs)) = typs (toks ff arg) ++ typs (unsp (piecesDirs ff dirs)) := by
    simp [piecesBody, unsp_append, typs, toks]
  rw [this]
  exact (good_append ga.1 gd).1

end

/-! ## the machine: a piece list in front of more input -/

/-- the items of a piece list that starts at offset `p` (each with its END offset) -/
def emitT : Nat → List Piece → List Item
  | _, [] => []
  | p, .sp :: r => emitT (p + 1) r
  | p, .tok t :: r => itemOf t (p + t.val.length) :: emitT (p + t.val.length) r

theorem emitT_tk : (p : Nat) → (ps : List Piece) → (emitT p ps).map Item.tk = unsp ps
  | _, [] => rfl
  | p, .sp :: r => by simp only [emitT, unsp]; exact emitT_tk (p + 1) r
  | p, .tok t :: r => by
    simp only [emitT, unsp, List.map_cons, emitT_tk (p + t.val.length) r]
    rfl

section
variable (T : LexTableOK)
include T

/-- `lexInsideTag` over a piece list followed by `tail`: the items of the pieces, and the machine stands in front of `tail` -/
theorem lex_pieces_tail {inp : Array UInt8} (tail : Bytes) : ∀ (ps : List Piece) (p : Nat) (le : Item) (its : Array Item),
    InpAt inp p (spell ps ++ tail) → Adj ps tail → chainOK le.typ (typs (unsp ps)) = true →
    ∃ k, k ≤ 2 * ps.length ∧ ∀ (w : Int) (n : Nat), ∃ w' le' its',
      run (n + k) .insideTag (L inp p p w le its) =
        run n .insideTag (L inp (p + (spell ps).length) (p + (spell ps).length) w' le' its') ∧
      its'.toList = its.toList ++ emitT p ps
  | [], p, le, its, h, _, _ => ⟨0, by simp, fun w n => ⟨w, le, its, by simp [spell], by simp [emitT]⟩⟩
  | .sp :: r, p, le, its, h, ha, hc => by
    have h' : InpAt inp p (32 :: (spell r ++ tail)) := by simpa [spell] using h
    obtain ⟨k, hk, hrun⟩ := lex_pieces_tail tail r (p + 1) le its (inpAt_tail h') ha hc
    refine ⟨k + 1, by simp; omega, fun w n => ?_⟩
    obtain ⟨w', le', its', h1, h2⟩ := hrun 1 n
    refine ⟨w', le', its', ?_, by simpa [emitT] using h2⟩
    rw [show n + (k + 1) = (n + k) + 1 by omega, run_step (step_space h' w le its), h1]
    simp [spell, Nat.add_assoc, Nat.add_comm 1]
  | .tok t :: r, p, le, its, h, ha, hc => by
    have h' : InpAt inp p (t.val ++ (spell r ++ tail)) := by simpa [spell] using h
    have hc' : pairOK le.typ t.typ = true ∧ chainOK t.typ (typs (unsp r)) = true := by
      simpa [unsp, typs, chainOK] using hc
    obtain ⟨k0, hk1, hk2, hrun0⟩ := tok_step T h' ha.1 hc'.1 (le := le) (its := its)
    have h2 : InpAt inp (p + t.val.length) (spell r ++ tail) := inpAt_append h'
    obtain ⟨k, hk, hrun⟩ := lex_pieces_tail tail r (p + t.val.length) (itemOf t (p + t.val.length))
      (its.push (itemOf t (p + t.val.length))) h2 ha.2 (by simpa [itemOf] using hc'.2)
    refine ⟨k + k0, by simp; omega, fun w n => ?_⟩
    obtain ⟨w1, hw1⟩ := hrun0 w (n + k)
    obtain ⟨w', le', its', h1, h3⟩ := hrun w1 n
    refine ⟨w', le', its', ?_, by simpa [emitT] using h3⟩
    rw [show n + (k + k0) = (n + k) + k0 by omega, hw1]
    unfold After
    rw [h1]
    simp [spell, Nat.add_assoc]

end

/-! ## the ends of the tag -/

/-- `lexInsideTag` at the closing `}` -/
theorem step_rbrace {inp q s} (h : InpAt inp q (125 :: s)) (w le its) :
    step .insideTag (L inp q q w le its) = some (some .rightDelim, L inp (q + 1) q 1 le its) := by
  simp only [step, lexInsideTag, next_L h (by decide), Option.bind_eq_bind, Option.bind_some]
  simp [isSpaceEOL, isSpace, isEndOfLine, lexInsideTagMid]

/-- `lexRightDelim` (single braces): the RightDelim item, back to `lexText` -/
theorem step_rightDelim {inp q s} (h : InpAt inp q (125 :: s)) (le its) :
    step .rightDelim (L inp (q + 1) q 1 le its) =
      some (some .text, L inp (q + 1) (q + 1) 1 ⟨.tRightDelim, q + 1, [125]⟩ (its.push ⟨.tRightDelim, q + 1, [125]⟩)) := by
  have he := emit_L (inp := inp) (st := q) (v := [125]) (s := s) h (pe := q + 1) rfl 1 le its .tRightDelim
  have hb : badDoubleClose (L inp (q + 1) q 1 le its) = some (false, L inp (q + 1) q 1 le its) := by
    unfold badDoubleClose L; simp
  simp only [step, lexRightDelim, hb, Option.bind_eq_bind, Option.bind_some, Bool.false_eq_true, if_false, he, Option.pure_def]

/-- `lexText` in front of `{` with no pending text: on to `lexLeftDelim` -/
theorem step_text_lbrace {inp p s} (h : InpAt inp p (123 :: s)) (w le its) :
    step .text (L inp p p w le its) = some (some .leftDelim, L inp p p 1 le its) := by
  have hn := next_L h (by decide) p w le its
  simp only [step, lexText]
  rw [lexTextLoop]
  split
  · rename_i heq; rw [hn] at heq; cases heq
  · rename_i r l1 heq
    rw [hn] at heq
    simp only [Option.some.injEq, Prod.mk.injEq] at heq
    obtain ⟨rfl, rfl⟩ := heq
    have hm : maybeEmitText (L inp p p 1 le its) 0 = some (L inp p p 1 le its) := by
      unfold maybeEmitText L; simp
    simp [backup_L, hm]

/-- `lexText` at the end of the input with no pending text: EOF, and the machine stops -/
theorem step_text_eof {inp p} (h : InpAt inp p []) (w le its) :
    ∃ l', step .text (L inp p p w le its) = some (none, l') ∧ l'.items = its.push ⟨.tEOF, p, []⟩ := by
  have hn := next_eof_L h p w le its
  have he := emit_L (inp := inp) (st := p) (v := []) (s := []) (by simpa using h) (pe := p) (by simp) 0 le its .tEOF
  refine ⟨L inp p p 0 ⟨.tEOF, p, []⟩ (its.push ⟨.tEOF, p, []⟩), ?_, rfl⟩
  simp only [step, lexText]
  rw [lexTextLoop]
  split
  · rename_i heq; rw [hn] at heq; cases heq
  · rename_i r l1 heq
    rw [hn] at heq
    simp only [Option.some.injEq, Prod.mk.injEq] at heq
    obtain ⟨rfl, rfl⟩ := heq
    have hm : maybeEmitText (L inp p p 0 le its) 0 = some (L inp p p 0 le its) := by
      unfold maybeEmitText L; simp
    simp [backup_L0, hm, he, eof]

/-- `lexLeftDelim` at offset 0 in front of a single `{` -/
theorem step_leftDelim {inp} {c : UInt8} {s : Bytes} (h : InpAt inp 0 (123 :: c :: s)) (hc : c < 128) (hne : c ≠ 123) (w le its) :
    step .leftDelim (L inp 0 0 w le its) =
      some (some .beginTag, L inp 1 1 1 ⟨.tLeftDelim, 1, [123]⟩ (its.push ⟨.tLeftDelim, 1, [123]⟩)) := by
  have h1 := next_L h (by decide) 0 w le its
  have h2 := next_L (inpAt_tail h) hc 0 1 le its
  have he := emit_L (inp := inp) (st := 0) (v := [123]) (s := c :: s) h (pe := 1) rfl 1 le its .tLeftDelim
  have hts : ({ L inp 0 0 w le its with tagStart := (L inp 0 0 w le its).start } : Lexer) = L inp 0 0 w le its := by
    unfold L; simp
  have hcn : ¬ ((c.toNat : Int) = 123) := by
    intro e
    apply hne
    apply UInt8.toNat_inj.mp
    have : c.toNat = 123 := by omega
    simpa using this
  have hb := backup_L inp 1 0 le its
  have hdd : ({ L inp 1 0 1 le its with doubleDelim := false } : Lexer) = L inp 1 0 1 le its := by unfold L; rfl
  simp only [step, lexLeftDelim, hts, h1, Option.bind_eq_bind, Option.bind_some, Nat.zero_add] at h2 ⊢
  simp only [h2, Option.bind_some, hcn, if_false, hb, hdd, he, Option.pure_def]

/-- `lexBeginTag`: not a closing tag, not a special character -/
theorem step_beginTag {inp q} {c : UInt8} {s : Bytes} (h : InpAt inp q (c :: s)) (hc : c < 128) (h1 : c ≠ 47) (h2 : c ≠ 92) (w le its) :
    step .beginTag (L inp q q w le its) = some (some .insideTag, L inp q q 1 le its) := by
  have hp := peek_hd h (asciiHd_cons hc) q w le its
  have c1 : ¬ ((c.toNat : Int) = 47) := by
    intro e; apply h1; apply UInt8.toNat_inj.mp; have : c.toNat = 47 := by omega
    simpa using this
  have c2 : ¬ ((c.toNat : Int) = 92) := by
    intro e; apply h2; apply UInt8.toNat_inj.mp; have : c.toNat = 92 := by omega
    simpa using this
  simp only [step, lexBeginTag, hp, Option.bind_eq_bind, Option.bind_some, hdRune, hdW, c1, c2, or_self, if_false, Option.pure_def]
  rfl

/-! ## the first byte of an expression -/

section
variable (ff : UInt64 → Bytes)

/-- the token types a printed expression begins with -/
def headTypes : List ItemType :=
  [.tLeftParen, .tLeftBracket, .tNegate, .tNot, .tNull, .tBool, .tIdent, .tDollarIdent, .tInteger, .tFloat, .tString]

theorem wrapP_head {a : Expr} {m : Nat} (h : ∃ t, (pieces ff a).head? = some (.tok t) ∧ t.typ ∈ headTypes) :
    ∃ t, (wrapP a m (pieces ff a)).head? = some (.tok t) ∧ t.typ ∈ headTypes := by
  unfold wrapP
  split
  · exact ⟨tLP, rfl, by simp [tLP, headTypes]⟩
  · exact h

theorem pieces_head : ∀ (e : Expr), ∃ t, (pieces ff e).head? = some (.tok t) ∧ t.typ ∈ headTypes
  | .null _ => ⟨_, rfl, by simp [tNull, headTypes]⟩
  | .bool _ _ => ⟨_, rfl, by simp [tBool, headTypes]⟩
  | .int _ _ => ⟨_, rfl, by simp [headTypes]⟩
  | .float _ _ => ⟨_, rfl, by simp [headTypes]⟩
  | .str _ _ _ => ⟨_, rfl, by simp [tString, headTypes]⟩
  | .global _ n => ⟨tIdent (splitDots n).1, by simp [pieces, globalToks], by simp [tIdent, headTypes]⟩
  | .func _ n _ => ⟨tIdent n, by simp [pieces], by simp [tIdent, headTypes]⟩
  | .list _ _ => ⟨tLB, by simp [pieces], by simp [tLB, headTypes]⟩
  | .map _ items => by cases items <;> exact ⟨tLB, by simp [pieces], by simp [tLB, headTypes]⟩
  | .dataRef _ k _ => ⟨⟨.tDollarIdent, [36] ++ k⟩, by simp [pieces], by simp [headTypes]⟩
  | .not _ _ => ⟨tNot, by simp [pieces], by simp [tNot, headTypes]⟩
  | .neg _ a => by cases a <;> exact ⟨tNeg, by simp [pieces], by simp [tNeg, headTypes]⟩
  | .bin op _ a b => by
    obtain ⟨t, h1, h2⟩ := wrapP_head ff (m := leftMin op) (pieces_head a)
    refine ⟨t, ?_, h2⟩
    rw [pieces]
    cases hw : wrapP a (leftMin op) (pieces ff a) with
    | nil => rw [hw] at h1; cases h1
    | cons x r => rw [hw] at h1; simpa using h1
  | .tern _ c a b => by
    obtain ⟨t, h1, h2⟩ := wrapP_head ff (m := precElvis + 1) (pieces_head c)
    refine ⟨t, ?_, h2⟩
    rw [pieces]
    cases hw : wrapP c (precElvis + 1) (pieces ff c) with
    | nil => rw [hw] at h1; cases h1
    | cons x r => rw [hw] at h1; simpa using h1

end

/-- the first byte of such a token: ASCII, and none of `{` `/` `\` -/
theorem head_byte {t : Tk} {rest : Bytes} (h : TokOk t rest) (ht : t.typ ∈ headTypes) :
    ∃ c r, t.val = c :: r ∧ c < 128 ∧ c ≠ 123 ∧ c ≠ 47 ∧ c ≠ 92 := by
  cases h with
  | lp => exact ⟨40, [], rfl, by decide, by decide, by decide, by decide⟩
  | lb => exact ⟨91, [], rfl, by decide, by decide, by decide, by decide⟩
  | neg => exact ⟨45, [], rfl, by decide, by decide, by decide, by decide⟩
  | word c k rt rest hc hk hr hl =>
    have := isIdStart_nat hc
    refine ⟨c, k, rfl, ?_, ?_, ?_, ?_⟩
    · show c.toNat < 128; omega
    all_goals (intro e; subst e; revert hc; decide)
  | dollar c k => exact ⟨36, _, rfl, by decide, by decide, by decide, by decide⟩
  | num val typ rest hs hr =>
    obtain ⟨sg, ds, frac, ex, rfl, hsg, hds, hd, _⟩ := hs
    rcases hsg with rfl | rfl
    · cases ds with
      | nil => exact absurd rfl hds
      | cons a b =>
        have ha := hd a (List.mem_cons_self ..)
        have := isDig_nat ha
        refine ⟨a, _, rfl, ?_, ?_, ?_, ?_⟩
        · show a.toNat < 128; omega
        all_goals (intro e; subst e; revert ha; decide)
    · exact ⟨45, _, rfl, by decide, by decide, by decide, by decide⟩
  | str val rest hs =>
    cases val with
    | nil => simp [strOk] at hs
    | cons q r =>
      simp only [strOk, Bool.and_eq_true, Bool.or_eq_true, beq_iff_eq] at hs
      rcases hs.1.1 with rfl | rfl
      · exact ⟨39, r, rfl, by decide, by decide, by decide, by decide⟩
      · exact ⟨34, r, rfl, by decide, by decide, by decide, by decide⟩
  | rp => simp [tRP, headTypes] at ht
  | rb => simp [tRB, headTypes] at ht
  | comma => simp [tComma, headTypes] at ht
  | colon => simp [tColon, headTypes] at ht
  | pipe => simp [tPipe, headTypes] at ht
  | qkey => simp [tQKey, headTypes] at ht
  | ternif => simp [tTernIf, headTypes] at ht
  | op o => cases o <;> simp [tOp, tokOf, headTypes] at ht
  | dot c k => split at ht <;> simp [headTypes] at ht
  | qdot c k => split at ht <;> simp [headTypes] at ht

/-! ## the theorem -/

section
variable (ff : UInt64 → Bytes) (LT : LexTableOK)
include LT

/-- the items `lex` sends for a print command: `{`, the body's tokens, `}`, EOF (END offsets) -/
def cmdItems (arg : Expr) (dirs : List Directive) : List Item :=
  ⟨.tLeftDelim, 1, [123]⟩ :: (emitT 1 (piecesBody ff arg dirs) ++
    [⟨.tRightDelim, 1 + (spell (piecesBody ff arg dirs)).length + 1, [125]⟩,
     ⟨.tEOF, 1 + (spell (piecesBody ff arg dirs)).length + 1, []⟩])

/-- BYTE LEVEL, print commands (FULL): lexing — in FILE mode — the text `PrintNode.String()` writes for a print command
    yields exactly the LeftDelim item, the printed tokens of the expression, `|` Ident [`:` tokens (`,` tokens)*] for every
    directive, the RightDelim item and EOF -/
theorem lex_print_cmd_items (arg : Expr) (dirs : List Directive) (h : CmdOk ff arg dirs) :
    lexAll (printPrint ff arg dirs) false = .items (cmdItems ff arg dirs) := by
  have hadj := adj_body ff LT arg dirs h [125] (closer_rbrace [])
  have hchain := chain_body ff arg dirs
  -- the first byte of the body
  obtain ⟨t0, hh, hty⟩ := pieces_head ff arg
  obtain ⟨c, s, hB, hc, hc1, hc2, hc3⟩ : ∃ c s, spell (piecesBody ff arg dirs) = c :: s ∧ c < 128 ∧ c ≠ 123 ∧ c ≠ 47 ∧ c ≠ 92 := by
    unfold piecesBody at hadj ⊢
    cases hp : pieces ff arg with
    | nil => rw [hp] at hh; cases hh
    | cons x r =>
      rw [hp] at hh hadj
      simp only [List.head?_cons, Option.some.injEq] at hh
      subst hh
      simp only [List.cons_append, Adj] at hadj
      obtain ⟨c, r', hv, h1, h2, h3, h4⟩ := head_byte hadj.1 hty
      exact ⟨c, r' ++ spell (r ++ piecesDirs ff dirs), by simp [spell, hv], h1, h2, h3, h4⟩
  have hlen := adj_length _ _ hadj
  obtain ⟨k, hk, hrun⟩ := lex_pieces_tail LT (inp := (printPrint ff arg dirs).toArray) [125] (piecesBody ff arg dirs) 1
    ⟨.tLeftDelim, 1, [123]⟩ (#[].push ⟨.tLeftDelim, 1, [123]⟩)
    (by rw [spell_body]; exact ⟨[123], by simp, rfl⟩) hadj hchain
  have hin0 : InpAt (printPrint ff arg dirs).toArray 0 (123 :: c :: (s ++ [125])) := by
    rw [spell_body, hB]; exact ⟨[], by simp, rfl⟩
  have hin1 : InpAt (printPrint ff arg dirs).toArray 1 (c :: (s ++ [125])) := inpAt_tail hin0
  have hinq : InpAt (printPrint ff arg dirs).toArray (1 + (spell (piecesBody ff arg dirs)).length) [125] := by
    rw [spell_body]; exact ⟨123 :: spell (piecesBody ff arg dirs), by simp, by simp; omega⟩
  have hine : InpAt (printPrint ff arg dirs).toArray (1 + (spell (piecesBody ff arg dirs)).length + 1) [] := inpAt_tail hinq
  unfold lexAll
  simp only [Bool.false_eq_true, if_false, initLexer_eq]
  have hF : Lex.fuelFor (printPrint ff arg dirs).length = ((Lex.fuelFor (printPrint ff arg dirs).length - (k + 6)) + 3 + k) + 1 + 1 + 1 := by
    unfold Lex.fuelFor
    rw [spell_body]
    simp only [List.length_cons, List.length_append, List.length_nil]
    omega
  rw [hF, run_step (step_text_lbrace hin0 0 Item.zero #[]), run_step (step_leftDelim hin0 hc hc1 1 Item.zero #[]),
    run_step (step_beginTag hin1 hc hc2 hc3 1 _ _)]
  obtain ⟨w', le', its', h1, h2⟩ := hrun 1 (Lex.fuelFor (printPrint ff arg dirs).length - (k + 6) + 3)
  rw [h1, run_step (step_rbrace hinq w' le' its'), run_step (step_rightDelim hinq le' its')]
  obtain ⟨l', hs, hi⟩ := step_text_eof hine 1 ⟨.tRightDelim, 1 + (spell (piecesBody ff arg dirs)).length + 1, [125]⟩
    (its'.push ⟨.tRightDelim, 1 + (spell (piecesBody ff arg dirs)).length + 1, [125]⟩)
  rw [run_stop hs, hi]
  simp [cmdItems, h2]

/-- … position-free: `{`, the tokens of the expression and of the directives, `}`, EOF -/
theorem lex_print_cmd (arg : Expr) (dirs : List Directive) (h : CmdOk ff arg dirs) :
    ∃ items, lexAll (printPrint ff arg dirs) false = .items items ∧
      items.map Item.tk = ⟨.tLeftDelim, [123]⟩ :: (unsp (piecesBody ff arg dirs) ++ [⟨.tRightDelim, [125]⟩, ⟨.tEOF, []⟩]) :=
  ⟨_, lex_print_cmd_items ff LT arg dirs h, by simp [cmdItems, emitT_tk, Item.tk]⟩

end

end SoyVerif.Props.C17c
