/-
  C17 — PRINT COMMANDS with directives, at BYTE level (file mode of the lexer).

    printPrint ff arg dirs = "{" ++ printExpr arg ++ ("|" name [":" arg ("," arg)*])* ++ "}"        (PrintNode.String())

  * `lex_print_cmd`: `lexAll (printPrint ff arg dirs) false` — the model of `lex(name, input)`, which starts in `lexText`,
    goes through `lexLeftDelim`, `lexBeginTag`, `lexInsideTag` …, `lexRightDelim` and back to `lexText` — sends exactly:
    the LeftDelim item, the printed tokens of the expression, for every directive `|` Ident [`:` arg tokens (`,` arg
    tokens)*], the RightDelim item and EOF (each with its END offset).
  * `print_cmd_roundtrip_bytes`: … and the file parser's `parsePrint` (→ `printLoop` → `directiveArgs`, Model/FileParser) on these
    items behind the `{` gives the print node back modulo positions (expression, directive names, directive arguments), leaving
    EOF; `print_cmd_injective_bytes`: two print commands with the same text are the same command.
  * `print_cmd_file_roundtrip` (FILE level): `parse.SoyFile` (`parseSource` = lexer ∘ `itemList(itemEOF)`) on the printed text
    returns exactly [the print node] modulo positions; `print_cmd_file_injective`.  Below it `beginTag_print` (the dispatch to
    `parsePrint` for every first token of a printed expression, `headTypes`/`pieces_head`), `textOrTag_print` (any `untl`
    without `{` and without a first token), `itemList_print`, `itemList_print_until` (inside a block) and `template_print`
    (TOKEN level: `{template .t}` tag `{/template}` gives the template node whose body is [the print node]).
  * `print_tag_run`: the lexer layer (`L tg …`, parameterised by `tagStart`) lexes the print tag at ANY offset, whatever follows;
    Props/C17d `print_cmd_in_body_roundtrip`: `parse.SoyFile` on `text₁ ++ tag ++ text₂`.
    Not covered: the BYTE level of a frame with other tags around the print tag (`{namespace}`, soydoc, `{template}`).
  Hypotheses: `NamesOk ff` of the expression and of every directive argument (Lemmas/LexPrintNames), and `DirNameOk`:
  the directive name is an identifier as the lexer reads it after `|` (ASCII letter or `_`, then letters / digits / `_`
  of any script) that is not a word of `builtinIdents` (`{$x|call}`, `{$x|if:1}` are rejected by the real parser too:
  the lexer has ONE keyword table for the whole tag); for the parser half `CmdCanon` (`Canon` of the expression and of every
  directive argument: literals in range, map keys ascending — what the expression parser returns).
-/
import SoyVerif.Props.C17b
import SoyVerif.Model.FileParser

set_option linter.unusedVariables false
set_option linter.unusedSectionVars false
set_option linter.unusedSimpArgs false

namespace SoyVerif.Props.C17c
open SoyVerif SoyVerif.Model SoyVerif.Model.Lex SoyVerif.Model.Parser SoyVerif.Model.PrintTokens
open SoyVerif.Model.Printer SoyVerif.Lemmas.LexPrint SoyVerif.Lemmas.ParserBasic
open SoyVerif.Lemmas.ParserAdj SoyVerif.Lemmas.ParserToks

variable {tg : Int}

/-! ## the token view of a print command -/

section
variable (ff : UInt64 → Bytes)

/-- further directive arguments, each behind a comma -/
def piecesDArgsTail : List Expr → List Piece
  | [] => []
  | a :: r => .tok tComma :: (pieces ff a ++ piecesDArgsTail r)

/-- `:a,b,c` (nothing for no argument) -/
def piecesDArgs : List Expr → List Piece
  | [] => []
  | a :: r => .tok tColon :: (pieces ff a ++ piecesDArgsTail ff r)

/-- `|name:a,b` -/
def piecesDir (d : Directive) : List Piece := .tok tPipe :: .tok (tIdent d.name) :: piecesDArgs ff d.args

def piecesDirs : List Directive → List Piece
  | [] => []
  | d :: r => piecesDir ff d ++ piecesDirs r

/-- the text between the braces -/
def piecesBody (arg : Expr) (dirs : List Directive) : List Piece := pieces ff arg ++ piecesDirs ff dirs

theorem spell_dargsTail : ∀ (r : List Expr) (a : Expr),
    spell (pieces ff a ++ piecesDArgsTail ff r) = (((a :: r).map (printExpr ff)).intersperse [44]).flatten
  | [], a => by simp [piecesDArgsTail, spell_pieces]
  | b :: r, a => by
    have ih := spell_dargsTail r b
    simp only [piecesDArgsTail, spell_append, spell, spell_pieces] at ih ⊢
    simp [ih, tComma]

theorem spell_dir (d : Directive) : spell (piecesDir ff d) = printDirective ff d := by
  unfold piecesDir printDirective
  cases h : d.args with
  | nil => simp [piecesDArgs, spell, tPipe, tIdent]
  | cons a r =>
    have := spell_dargsTail ff r a
    simp only [piecesDArgs, spell, tPipe, tIdent, tColon, this]
    simp

theorem spell_dirs : ∀ (ds : List Directive), spell (piecesDirs ff ds) = (ds.map (printDirective ff)).flatten
  | [] => rfl
  | d :: r => by simp [piecesDirs, spell_append, spell_dir, spell_dirs r]

/-- the printed command is `{`, the spelling of the body pieces, `}` -/
theorem spell_body (arg : Expr) (dirs : List Directive) :
    printPrint ff arg dirs = 123 :: (spell (piecesBody ff arg dirs) ++ [125]) := by
  simp [printPrint, piecesBody, spell_append, spell_pieces, spell_dirs]

end

/-! ## what follows every token, and what stands in front of every `-` -/

/-- the name of a directive as the lexer reads it behind `|`: an ASCII letter or `_`, then letters / digits / `_` (of any
    script), and no word of the lexer's keyword table -/
def DirNameOk (d : Directive) : Prop :=
  ∃ c k, d.name = c :: k ∧ isIdStart c = true ∧ alnumBytes k = true ∧ Gen.builtinIdents.lookup (c :: k) = none

/-- the conditions on a print command: names as the lexer reads them, in the expression, the directive names and the
    directive arguments -/
def CmdOk (ff : UInt64 → Bytes) (arg : Expr) (dirs : List Directive) : Prop :=
  NamesOk ff arg = true ∧ ∀ d ∈ dirs, DirNameOk d ∧ ∀ a ∈ d.args, NamesOk ff a = true

section
variable (ff : UInt64 → Bytes) (LT : LexTableOK)
include LT

theorem adj_dargsTail : ∀ (r : List Expr), (∀ a ∈ r, NamesOk ff a = true) → ∀ tail, Closer tail →
    Adj (piecesDArgsTail ff r) tail ∧ Closer (spell (piecesDArgsTail ff r) ++ tail)
  | [], _, tail, ht => ⟨trivial, by simpa [piecesDArgsTail, spell] using ht⟩
  | a :: r, h, tail, ht => by
    obtain ⟨ih1, ih2⟩ := adj_dargsTail r (fun x hx => h x (List.mem_cons_of_mem _ hx)) tail ht
    refine ⟨?_, by simp only [piecesDArgsTail, spell, tComma, List.cons_append]; exact closer_comma _⟩
    simp only [piecesDArgsTail, Adj]
    refine ⟨TokOk.comma _, ?_⟩
    rw [adj_append]
    exact ⟨adjE LT ff a (h a (List.mem_cons_self ..)) _ ih2, ih1⟩

theorem adj_dargs (args : List Expr) (h : ∀ a ∈ args, NamesOk ff a = true) (tail : Bytes) (ht : Closer tail) :
    Adj (piecesDArgs ff args) tail ∧ WordEnd (spell (piecesDArgs ff args) ++ tail) := by
  cases args with
  | nil => exact ⟨trivial, by simpa [piecesDArgs, spell] using closer_wordEnd ht⟩
  | cons a r =>
    obtain ⟨ih1, ih2⟩ := adj_dargsTail ff LT r (fun x hx => h x (List.mem_cons_of_mem _ hx)) tail ht
    refine ⟨?_, by simp only [piecesDArgs, spell, tColon, List.cons_append]; exact ⟨by decide, by decide⟩⟩
    simp only [piecesDArgs, Adj]
    refine ⟨TokOk.colon _, ?_⟩
    rw [adj_append]
    exact ⟨adjE LT ff a (h a (List.mem_cons_self ..)) _ ih2, ih1⟩

theorem adj_dirs : ∀ (ds : List Directive), (∀ d ∈ ds, DirNameOk d ∧ ∀ a ∈ d.args, NamesOk ff a = true) → ∀ tail, Closer tail →
    Adj (piecesDirs ff ds) tail ∧ Closer (spell (piecesDirs ff ds) ++ tail)
  | [], _, tail, ht => ⟨trivial, by simpa [piecesDirs, spell] using ht⟩
  | d :: r, h, tail, ht => by
    obtain ⟨ih1, ih2⟩ := adj_dirs r (fun x hx => h x (List.mem_cons_of_mem _ hx)) tail ht
    obtain ⟨⟨c, k, hn, hc, hk, hl⟩, ha⟩ := h d (List.mem_cons_self ..)
    obtain ⟨a1, a2⟩ := adj_dargs ff LT d.args ha _ ih2
    refine ⟨?_, by simp only [piecesDirs, piecesDir, spell, tPipe, List.cons_append]; exact closer_pipe _⟩
    simp only [piecesDirs, piecesDir, List.cons_append, Adj]
    refine ⟨TokOk.pipe _, ?_, ?_⟩
    · rw [spell_append, List.append_assoc]
      simp only [tIdent, hn]
      exact TokOk.word c k .tIdent _ hc hk a2 (Or.inr ⟨hl, rfl⟩)
    · rw [adj_append]
      exact ⟨a1, ih1⟩

theorem adj_body (arg : Expr) (dirs : List Directive) (h : CmdOk ff arg dirs) (tail : Bytes) (ht : Closer tail) :
    Adj (piecesBody ff arg dirs) tail := by
  obtain ⟨d1, d2⟩ := adj_dirs ff LT dirs h.2 tail ht
  unfold piecesBody
  rw [adj_append]
  exact ⟨adjE LT ff arg h.1 _ d2, d1⟩

end

section
variable (ff : UInt64 → Bytes)

theorem good_dargsTail : ∀ (r : List Expr) (x : ItemType), x ∈ afterOperand → Good x (typs (unsp (piecesDArgsTail ff r)))
  | [], x, hx => ⟨rfl, hx⟩
  | a :: r, x, hx => by
    have ga := good_toks ff a .tComma (by simp [beforeOperand])
    have ih := good_dargsTail r _ ga.2
    have : typs (unsp (piecesDArgsTail ff (a :: r))) = [.tComma] ++ (typs (toks ff a) ++ typs (unsp (piecesDArgsTail ff r))) := by
      simp [piecesDArgsTail, unsp, unsp_append, typs, toks, tComma]
    rw [this]
    refine good_append (by simp [chainOK, pairOK]) ?_
    exact good_append ga.1 ih

theorem good_dargs (args : List Expr) : Good .tIdent (typs (unsp (piecesDArgs ff args))) := by
  cases args with
  | nil => exact ⟨rfl, by simp [piecesDArgs, unsp, typs, lastOf, afterOperand]⟩
  | cons a r =>
    have ga := good_toks ff a .tColon (by simp [beforeOperand])
    have ih := good_dargsTail ff r _ ga.2
    have : typs (unsp (piecesDArgs ff (a :: r))) = [.tColon] ++ (typs (toks ff a) ++ typs (unsp (piecesDArgsTail ff r))) := by
      simp [piecesDArgs, unsp, unsp_append, typs, toks, tColon]
    rw [this]
    refine good_append (by simp [chainOK, pairOK]) ?_
    exact good_append ga.1 ih

theorem good_dirs : ∀ (ds : List Directive) (x : ItemType), x ∈ afterOperand → Good x (typs (unsp (piecesDirs ff ds)))
  | [], x, hx => ⟨rfl, hx⟩
  | d :: r, x, hx => by
    have ga := good_dargs ff d.args
    have ih := good_dirs r _ ga.2
    have : typs (unsp (piecesDirs ff (d :: r))) =
        [.tPipe, .tIdent] ++ (typs (unsp (piecesDArgs ff d.args)) ++ typs (unsp (piecesDirs ff r))) := by
      simp [piecesDirs, piecesDir, unsp, unsp_append, typs, tPipe, tIdent]
    rw [this]
    refine good_append (by simp [chainOK, pairOK]) ?_
    exact good_append ga.1 ih

/-- in the body of a print command, behind `{`, every `-` stands where the lexer reads it as intended -/
theorem chain_body (arg : Expr) (dirs : List Directive) :
    chainOK .tLeftDelim (typs (unsp (piecesBody ff arg dirs))) = true := by
  have ga := good_toks ff arg .tLeftDelim (by simp [beforeOperand])
  have gd := good_dirs ff dirs _ ga.2
  have : typs (unsp (piecesBody ff arg dirs)) = typs (toks ff arg) ++ typs (unsp (piecesDirs ff dirs)) := by
    simp [piecesBody, unsp_append, typs, toks]
  rw [this]
  exact (good_append ga.1 gd).1

end

/-! ## the machine: a piece list in front of more input -/

/-- the items of a piece list that starts at offset `p` (each with its END offset) -/
def emitT : Nat → List Piece → List Item
  | _, [] => []
  | p, .sp :: r => emitT (p + 1) r
  | p, .tok t :: r => itemOf t (p + t.val.length) :: emitT (p + t.val.length) r

theorem emitT_tk : (p : Nat) → (ps : List Piece) → (emitT p ps).map Item.tk = unsp ps
  | _, [] => rfl
  | p, .sp :: r => by simp only [emitT, unsp]; exact emitT_tk (p + 1) r
  | p, .tok t :: r => by
    simp only [emitT, unsp, List.map_cons, emitT_tk (p + t.val.length) r]
    rfl

section
variable (T : LexTableOK)
include T

/-- `lexInsideTag` over a piece list followed by `tail`: the items of the pieces, and the machine stands in front of `tail` -/
theorem lex_pieces_tail {inp : Array UInt8} (tail : Bytes) : ∀ (ps : List Piece) (p : Nat) (le : Item) (its : Array Item),
    InpAt inp p (spell ps ++ tail) → Adj ps tail → chainOK le.typ (typs (unsp ps)) = true →
    ∃ k, k ≤ 2 * ps.length ∧ ∀ (w : Int) (n : Nat), ∃ w' le' its',
      run (n + k) .insideTag (L tg inp p p w le its) =
        run n .insideTag (L tg inp (p + (spell ps).length) (p + (spell ps).length) w' le' its') ∧
      its'.toList = its.toList ++ emitT p ps
  | [], p, le, its, h, _, _ => ⟨0, by simp, fun w n => ⟨w, le, its, by simp [spell], by simp [emitT]⟩⟩
  | .sp :: r, p, le, its, h, ha, hc => by
    have h' : InpAt inp p (32 :: (spell r ++ tail)) := by simpa [spell] using h
    obtain ⟨k, hk, hrun⟩ := lex_pieces_tail tail r (p + 1) le its (inpAt_tail h') ha hc
    refine ⟨k + 1, by simp; omega, fun w n => ?_⟩
    obtain ⟨w', le', its', h1, h2⟩ := hrun 1 n
    refine ⟨w', le', its', ?_, by simpa [emitT] using h2⟩
    rw [show n + (k + 1) = (n + k) + 1 by omega, run_step (step_space h' w le its), h1]
    simp [spell, Nat.add_assoc, Nat.add_comm 1]
  | .tok t :: r, p, le, its, h, ha, hc => by
    have h' : InpAt inp p (t.val ++ (spell r ++ tail)) := by simpa [spell] using h
    have hc' : pairOK le.typ t.typ = true ∧ chainOK t.typ (typs (unsp r)) = true := by
      simpa [unsp, typs, chainOK] using hc
    obtain ⟨k0, hk1, hk2, hrun0⟩ := tok_step (tg := tg) T h' ha.1 hc'.1 (le := le) (its := its)
    have h2 : InpAt inp (p + t.val.length) (spell r ++ tail) := inpAt_append h'
    obtain ⟨k, hk, hrun⟩ := lex_pieces_tail tail r (p + t.val.length) (itemOf t (p + t.val.length))
      (its.push (itemOf t (p + t.val.length))) h2 ha.2 (by simpa [itemOf] using hc'.2)
    refine ⟨k + k0, by simp; omega, fun w n => ?_⟩
    obtain ⟨w1, hw1⟩ := hrun0 w (n + k)
    obtain ⟨w', le', its', h1, h3⟩ := hrun w1 n
    refine ⟨w', le', its', ?_, by simpa [emitT] using h3⟩
    rw [show n + (k + k0) = (n + k) + k0 by omega, hw1]
    unfold After
    rw [h1]
    simp [spell, Nat.add_assoc]

end

/-! ## the ends of the tag -/

/-- `lexInsideTag` at the closing `}` -/
theorem step_rbrace {inp q s} (h : InpAt inp q (125 :: s)) (w le its) :
    step .insideTag (L tg inp q q w le its) = some (some .rightDelim, L tg inp (q + 1) q 1 le its) := by
  simp only [step, lexInsideTag, next_L h (by decide), Option.bind_eq_bind, Option.bind_some]
  simp [Lex.isSpaceEOL, Lex.isSpace, Lex.isEndOfLine, lexInsideTagMid]

/-- `lexRightDelim` (single braces): the RightDelim item, back to `lexText` -/
theorem step_rightDelim {inp q s} (h : InpAt inp q (125 :: s)) (le its) :
    step .rightDelim (L tg inp (q + 1) q 1 le its) =
      some (some .text, L tg inp (q + 1) (q + 1) 1 ⟨.tRightDelim, q + 1, [125]⟩ (its.push ⟨.tRightDelim, q + 1, [125]⟩)) := by
  have he := emit_L (tg := tg) (inp := inp) (st := q) (v := [125]) (s := s) h (pe := q + 1) rfl 1 le its .tRightDelim
  have hb : badDoubleClose (L tg inp (q + 1) q 1 le its) = some (false, L tg inp (q + 1) q 1 le its) := by
    unfold badDoubleClose L; simp
  simp only [step, lexRightDelim, hb, Option.bind_eq_bind, Option.bind_some, Bool.false_eq_true, if_false, he, Option.pure_def]

/-- `lexText` in front of `{` with no pending text: on to `lexLeftDelim` -/
theorem step_text_lbrace {inp p s} (h : InpAt inp p (123 :: s)) (w le its) :
    step .text (L tg inp p p w le its) = some (some .leftDelim, L tg inp p p 1 le its) := by
  have hn := next_L (tg := tg) h (by decide) p w le its
  simp only [step, lexText]
  rw [lexTextLoop]
  split
  · rename_i heq; rw [hn] at heq; cases heq
  · rename_i r l1 heq
    rw [hn] at heq
    simp only [Option.some.injEq, Prod.mk.injEq] at heq
    obtain ⟨rfl, rfl⟩ := heq
    have hm : maybeEmitText (L tg inp p p 1 le its) 0 = some (L tg inp p p 1 le its) := by
      unfold maybeEmitText L; simp
    simp [backup_L, hm]

/-- `lexText` at the end of the input with no pending text: EOF, and the machine stops -/
theorem step_text_eof {inp p} (h : InpAt inp p []) (w le its) :
    ∃ l', step .text (L tg inp p p w le its) = some (none, l') ∧ l'.items = its.push ⟨.tEOF, p, []⟩ := by
  have hn := next_eof_L (tg := tg) h p w le its
  have he := emit_L (tg := tg) (inp := inp) (st := p) (v := []) (s := []) (by simpa using h) (pe := p) (by simp) 0 le its .tEOF
  refine ⟨L tg inp p p 0 ⟨.tEOF, p, []⟩ (its.push ⟨.tEOF, p, []⟩), ?_, rfl⟩
  simp only [step, lexText]
  rw [lexTextLoop]
  split
  · rename_i heq; rw [hn] at heq; cases heq
  · rename_i r l1 heq
    rw [hn] at heq
    simp only [Option.some.injEq, Prod.mk.injEq] at heq
    obtain ⟨rfl, rfl⟩ := heq
    have hm : maybeEmitText (L tg inp p p 0 le its) 0 = some (L tg inp p p 0 le its) := by
      unfold maybeEmitText L; simp
    simp [backup_L0, hm, he, eof]

/-- `lexLeftDelim` at offset `q` in front of a single `{`: `tagStart` becomes `q` -/
theorem step_leftDelim {inp q} {c : UInt8} {s : Bytes} (h : InpAt inp q (123 :: c :: s)) (hc : c < 128) (hne : c ≠ 123) (w le its) :
    step .leftDelim (L tg inp q q w le its) =
      some (some .beginTag, L (q : Int) inp (q + 1) (q + 1) 1 ⟨.tLeftDelim, q + 1, [123]⟩ (its.push ⟨.tLeftDelim, q + 1, [123]⟩)) := by
  have h1 := next_L (tg := (q : Int)) h (by decide) q w le its
  have h2 := next_L (tg := (q : Int)) (inpAt_tail h) hc q 1 le its
  have he := emit_L (tg := (q : Int)) (inp := inp) (st := q) (v := [123]) (s := c :: s) h (pe := q + 1) rfl 1 le its .tLeftDelim
  have hts : ({ L tg inp q q w le its with tagStart := (L tg inp q q w le its).start } : Lexer) = L (q : Int) inp q q w le its := by
    unfold L; simp
  have hcn : ¬ ((c.toNat : Int) = 123) := by
    intro e
    apply hne
    apply UInt8.toNat_inj.mp
    have : c.toNat = 123 := by omega
    simpa using this
  have hb := backup_L (tg := (q : Int)) inp (q + 1) q le its
  have hdd : ({ L (q : Int) inp (q + 1) q 1 le its with doubleDelim := false } : Lexer) = L (q : Int) inp (q + 1) q 1 le its := by unfold L; rfl
  simp only [step, lexLeftDelim, hts, h1, Option.bind_eq_bind, Option.bind_some] at h2 ⊢
  simp only [h2, Option.bind_some, hcn, if_false, hb, hdd, he, Option.pure_def]

/-- `lexBeginTag`: not a closing tag, not a special character -/
theorem step_beginTag {inp q} {c : UInt8} {s : Bytes} (h : InpAt inp q (c :: s)) (hc : c < 128) (h1 : c ≠ 47) (h2 : c ≠ 92) (w le its) :
    step .beginTag (L tg inp q q w le its) = some (some .insideTag, L tg inp q q 1 le its) := by
  have hp := peek_hd (tg := tg) h (asciiHd_cons hc) q w le its
  have c1 : ¬ ((c.toNat : Int) = 47) := by
    intro e; apply h1; apply UInt8.toNat_inj.mp; have : c.toNat = 47 := by omega
    simpa using this
  have c2 : ¬ ((c.toNat : Int) = 92) := by
    intro e; apply h2; apply UInt8.toNat_inj.mp; have : c.toNat = 92 := by omega
    simpa using this
  simp only [step, lexBeginTag, hp, Option.bind_eq_bind, Option.bind_some, hdRune, hdW, c1, c2, or_self, if_false, Option.pure_def]
  rfl

/-! ## the first byte of an expression -/

section
variable (ff : UInt64 → Bytes)

/-- the token types a printed expression begins with -/
def headTypes : List ItemType :=
  [.tLeftParen, .tLeftBracket, .tNegate, .tNot, .tNull, .tBool, .tIdent, .tDollarIdent, .tInteger, .tFloat, .tString]

theorem wrapP_head {a : Expr} {m : Nat} (h : ∃ t, (pieces ff a).head? = some (.tok t) ∧ t.typ ∈ headTypes) :
    ∃ t, (wrapP a m (pieces ff a)).head? = some (.tok t) ∧ t.typ ∈ headTypes := by
  unfold wrapP
  split
  · exact ⟨tLP, rfl, by simp [tLP, headTypes]⟩
  · exact h

theorem pieces_head : ∀ (e : Expr), ∃ t, (pieces ff e).head? = some (.tok t) ∧ t.typ ∈ headTypes
  | .null _ => ⟨_, rfl, by simp [tNull, headTypes]⟩
  | .bool _ _ => ⟨_, rfl, by simp [tBool, headTypes]⟩
  | .int _ _ => ⟨_, rfl, by simp [headTypes]⟩
  | .float _ _ => ⟨_, rfl, by simp [headTypes]⟩
  | .str _ _ _ => ⟨_, rfl, by simp [tString, headTypes]⟩
  | .global _ n => ⟨tIdent (splitDots n).1, by simp [pieces, globalToks], by simp [tIdent, headTypes]⟩
  | .func _ n _ => ⟨tIdent n, by simp [pieces], by simp [tIdent, headTypes]⟩
  | .list _ _ => ⟨tLB, by simp [pieces], by simp [tLB, headTypes]⟩
  | .map _ items => by cases items <;> exact ⟨tLB, by simp [pieces], by simp [tLB, headTypes]⟩
  | .dataRef _ k _ => ⟨⟨.tDollarIdent, [36] ++ k⟩, by simp [pieces], by simp [headTypes]⟩
  | .not _ _ => ⟨tNot, by simp [pieces], by simp [tNot, headTypes]⟩
  | .neg _ a => by cases a <;> exact ⟨tNeg, by simp [pieces], by simp [tNeg, headTypes]⟩
  | .bin op _ a b => by
    obtain ⟨t, h1, h2⟩ := wrapP_head ff (m := leftMin op) (pieces_head a)
    refine ⟨t, ?_, h2⟩
    rw [pieces]
    cases hw : wrapP a (leftMin op) (pieces ff a) with
    | nil => rw [hw] at h1; cases h1
    | cons x r => rw [hw] at h1; simpa using h1
  | .tern _ c a b => by
    obtain ⟨t, h1, h2⟩ := wrapP_head ff (m := precElvis + 1) (pieces_head c)
    refine ⟨t, ?_, h2⟩
    rw [pieces]
    cases hw : wrapP c (precElvis + 1) (pieces ff c) with
    | nil => rw [hw] at h1; cases h1
    | cons x r => rw [hw] at h1; simpa using h1

end

/-- the first byte of such a token: ASCII, and none of `{` `/` `\` -/
theorem head_byte {t : Tk} {rest : Bytes} (h : TokOk t rest) (ht : t.typ ∈ headTypes) :
    ∃ c r, t.val = c :: r ∧ c < 128 ∧ c ≠ 123 ∧ c ≠ 47 ∧ c ≠ 92 := by
  cases h with
  | lp => exact ⟨40, [], rfl, by decide, by decide, by decide, by decide⟩
  | lb => exact ⟨91, [], rfl, by decide, by decide, by decide, by decide⟩
  | neg => exact ⟨45, [], rfl, by decide, by decide, by decide, by decide⟩
  | word c k rt rest hc hk hr hl =>
    have := isIdStart_nat hc
    refine ⟨c, k, rfl, ?_, ?_, ?_, ?_⟩
    · show c.toNat < 128; omega
    all_goals (intro e; subst e; revert hc; decide)
  | dollar c k => exact ⟨36, _, rfl, by decide, by decide, by decide, by decide⟩
  | num val typ rest hs hr =>
    obtain ⟨sg, ds, frac, ex, rfl, hsg, hds, hd, _⟩ := hs
    rcases hsg with rfl | rfl
    · cases ds with
      | nil => exact absurd rfl hds
      | cons a b =>
        have ha := hd a (List.mem_cons_self ..)
        have := isDig_nat ha
        refine ⟨a, _, rfl, ?_, ?_, ?_, ?_⟩
        · show a.toNat < 128; omega
        all_goals (intro e; subst e; revert ha; decide)
    · exact ⟨45, _, rfl, by decide, by decide, by decide, by decide⟩
  | str val rest hs =>
    cases val with
    | nil => simp [strOk] at hs
    | cons q r =>
      simp only [strOk, Bool.and_eq_true, Bool.or_eq_true, beq_iff_eq] at hs
      rcases hs.1.1 with rfl | rfl
      · exact ⟨39, r, rfl, by decide, by decide, by decide, by decide⟩
      · exact ⟨34, r, rfl, by decide, by decide, by decide, by decide⟩
  | rp => simp [tRP, headTypes] at ht
  | rb => simp [tRB, headTypes] at ht
  | comma => simp [tComma, headTypes] at ht
  | colon => simp [tColon, headTypes] at ht
  | pipe => simp [tPipe, headTypes] at ht
  | qkey => simp [tQKey, headTypes] at ht
  | ternif => simp [tTernIf, headTypes] at ht
  | op o => cases o <;> simp [tOp, tokOf, headTypes] at ht
  | dot c k => split at ht <;> simp [headTypes] at ht
  | qdot c k => split at ht <;> simp [headTypes] at ht

/-! ## the theorem -/

section
variable (ff : UInt64 → Bytes) (LT : LexTableOK)
include LT

/-- the items of the tag of a print command whose `{` stands at offset `q` -/
def tagItems (q : Nat) (arg : Expr) (dirs : List Directive) : List Item :=
  ⟨.tLeftDelim, q + 1, [123]⟩ :: (emitT (q + 1) (piecesBody ff arg dirs) ++
    [⟨.tRightDelim, q + 1 + (spell (piecesBody ff arg dirs)).length + 1, [125]⟩])

/-- the items `lex` sends for a print command: `{`, the body's tokens, `}`, EOF (END offsets) -/
def cmdItems (arg : Expr) (dirs : List Directive) : List Item :=
  ⟨.tLeftDelim, 1, [123]⟩ :: (emitT 1 (piecesBody ff arg dirs) ++
    [⟨.tRightDelim, 1 + (spell (piecesBody ff arg dirs)).length + 1, [125]⟩,
     ⟨.tEOF, 1 + (spell (piecesBody ff arg dirs)).length + 1, []⟩])

/-- the first byte of the body of a printed print command -/
theorem body_first_byte (arg : Expr) (dirs : List Directive) (h : CmdOk ff arg dirs) :
    ∃ c s, spell (piecesBody ff arg dirs) = c :: s ∧ c < 128 ∧ c ≠ 123 ∧ c ≠ 47 ∧ c ≠ 92 := by
  have hadj := adj_body ff LT arg dirs h [125] (closer_rbrace [])
  obtain ⟨t0, hh, hty⟩ := pieces_head ff arg
  unfold piecesBody at hadj ⊢
  cases hp : pieces ff arg with
  | nil => rw [hp] at hh; cases hh
  | cons x r =>
    rw [hp] at hh hadj
    simp only [List.head?_cons, Option.some.injEq] at hh
    subst hh
    simp only [List.cons_append, Adj] at hadj
    obtain ⟨c, r', hv, h1, h2, h3, h4⟩ := head_byte hadj.1 hty
    exact ⟨c, r' ++ spell (r ++ piecesDirs ff dirs), by simp [spell, hv], h1, h2, h3, h4⟩

/-- BYTE LEVEL, a print tag ANYWHERE in the input: `lexLeftDelim` at the `{` (offset `q`) of the text `PrintNode.String()`
    writes, whatever follows the tag (`post`): `k + 4` state functions later the machine is back in `lexText` behind the
    `}`, and has sent the LeftDelim item, the items of the printed tokens and the RightDelim item (END offsets) -/
theorem print_tag_run (arg : Expr) (dirs : List Directive) (h : CmdOk ff arg dirs) {inp : Array UInt8} {q : Nat} {post : Bytes}
    (hin : InpAt inp q (printPrint ff arg dirs ++ post)) (le : Item) (its : Array Item) :
    ∃ k, k ≤ 2 * (spell (piecesBody ff arg dirs)).length ∧ ∀ (w : Int) (n : Nat), ∃ its',
      run (n + k + 4) .leftDelim (L tg inp q q w le its) =
        run n .text (L (q : Int) inp (q + 1 + (spell (piecesBody ff arg dirs)).length + 1)
          (q + 1 + (spell (piecesBody ff arg dirs)).length + 1) 1
          ⟨.tRightDelim, q + 1 + (spell (piecesBody ff arg dirs)).length + 1, [125]⟩ its') ∧
      its'.toList = its.toList ++ tagItems ff q arg dirs := by
  have hadj := adj_body ff LT arg dirs h (125 :: post) (closer_rbrace post)
  have hchain := chain_body ff arg dirs
  obtain ⟨c, s, hB, hc, hc1, hc2, hc3⟩ := body_first_byte ff LT arg dirs h
  have hlen := adj_length _ _ hadj
  have hin0 : InpAt inp q (123 :: c :: (s ++ 125 :: post)) := by
    rw [spell_body, hB] at hin; simpa using hin
  have hin1 : InpAt inp (q + 1) (spell (piecesBody ff arg dirs) ++ 125 :: post) := by
    have := inpAt_tail hin0; rw [hB]; simpa using this
  have hin1' : InpAt inp (q + 1) (c :: (s ++ 125 :: post)) := inpAt_tail hin0
  have hinq : InpAt inp (q + 1 + (spell (piecesBody ff arg dirs)).length) (125 :: post) := inpAt_append hin1
  obtain ⟨k, hk, hrun⟩ := lex_pieces_tail (tg := (q : Int)) LT (inp := inp) (125 :: post) (piecesBody ff arg dirs) (q + 1)
    ⟨.tLeftDelim, q + 1, [123]⟩ (its.push ⟨.tLeftDelim, q + 1, [123]⟩) hin1 hadj hchain
  refine ⟨k, by omega, fun w n => ?_⟩
  obtain ⟨w', le', its', h1, h2⟩ := hrun 1 (n + 2)
  refine ⟨its'.push ⟨.tRightDelim, q + 1 + (spell (piecesBody ff arg dirs)).length + 1, [125]⟩, ?_, ?_⟩
  · rw [show n + k + 4 = ((n + 2 + k) + 1) + 1 by omega, run_step (step_leftDelim hin0 hc hc1 w le its),
      run_step (step_beginTag hin1' hc hc2 hc3 1 _ _), h1, run_step (step_rbrace hinq w' le' its'),
      run_step (step_rightDelim hinq le' its')]
  · simp [tagItems, h2]

/-- BYTE LEVEL, print commands (FULL): lexing — in FILE mode — the text `PrintNode.String()` writes for a print command
    yields exactly the LeftDelim item, the printed tokens of the expression, `|` Ident [`:` tokens (`,` tokens)*] for every
    directive, the RightDelim item and EOF -/
theorem lex_print_cmd_items (arg : Expr) (dirs : List Directive) (h : CmdOk ff arg dirs) :
    lexAll (printPrint ff arg dirs) false = .items (cmdItems ff arg dirs) := by
  have hadj := adj_body ff LT arg dirs h [125] (closer_rbrace [])
  have hlen := adj_length _ _ hadj
  have hin0 : InpAt (printPrint ff arg dirs).toArray 0 (printPrint ff arg dirs ++ []) := ⟨[], by simp, rfl⟩
  have hin0' : InpAt (printPrint ff arg dirs).toArray 0 (123 :: (spell (piecesBody ff arg dirs) ++ [125])) := by
    rw [spell_body]; exact ⟨[], by simp, rfl⟩
  have hine : InpAt (printPrint ff arg dirs).toArray (0 + 1 + (spell (piecesBody ff arg dirs)).length + 1) [] := by
    rw [spell_body]; exact ⟨123 :: (spell (piecesBody ff arg dirs) ++ [125]), by simp, by simp; omega⟩
  obtain ⟨k, hk, hrun⟩ := print_tag_run (tg := 0) ff LT arg dirs h hin0 Item.zero #[]
  unfold lexAll
  simp only [Bool.false_eq_true, if_false, initLexer_eq]
  have hF : Lex.fuelFor (printPrint ff arg dirs).length = ((Lex.fuelFor (printPrint ff arg dirs).length - (k + 6)) + 1 + k + 4) + 1 := by
    unfold Lex.fuelFor
    rw [spell_body]
    simp only [List.length_cons, List.length_append, List.length_nil]
    omega
  rw [hF, run_step (step_text_lbrace hin0' 0 Item.zero #[])]
  obtain ⟨its', h1, h2⟩ := hrun 1 (Lex.fuelFor (printPrint ff arg dirs).length - (k + 6) + 1)
  rw [h1]
  obtain ⟨l', hs, hi⟩ := step_text_eof (tg := ((0 : Nat) : Int)) hine 1
    ⟨.tRightDelim, 0 + 1 + (spell (piecesBody ff arg dirs)).length + 1, [125]⟩ its'
  rw [run_stop hs, hi]
  simp [cmdItems, tagItems, h2, Nat.add_comm]

/-- … position-free: `{`, the tokens of the expression and of the directives, `}`, EOF -/
theorem lex_print_cmd (arg : Expr) (dirs : List Directive) (h : CmdOk ff arg dirs) :
    ∃ items, lexAll (printPrint ff arg dirs) false = .items items ∧
      items.map Item.tk = ⟨.tLeftDelim, [123]⟩ :: (unsp (piecesBody ff arg dirs) ++ [⟨.tRightDelim, [125]⟩, ⟨.tEOF, []⟩]) :=
  ⟨_, lex_print_cmd_items ff LT arg dirs h, by simp [cmdItems, emitT_tk, Item.tk]⟩

end

/-! # the PARSER half: `parsePrint` on the tokens of a print command -/

section
open SoyVerif.Model.FileParser (FState FP liftP parsePrint printLoop directiveArgs parseExpr0 Node)
open SoyVerif.Lemmas.ParserRound

/-- a directive without positions -/
def eraseDir (d : Directive) : Directive := ⟨0, d.name, d.args.map erase⟩

def tRD : Tk := ⟨.tRightDelim, [125]⟩

theorem liftP_ok {α : Type} {x : P α} {st : FState} {a : α} {p' : PState} (h : x st.p = .ok (a, p')) :
    liftP x st = .ok (a, { st with p := p' }) := by
  simp [liftP, h]

theorem fbind_ok {α β : Type} {x : FP α} {f : α → FP β} {st st' : FState} {a : α}
    (h : x st = .ok (a, st')) : (x >>= f) st = f a st' := by
  show (StateT.bind x f) st = _
  unfold StateT.bind
  simp only [h]
  rfl

/-- what may follow an expression inside a print tag -/
def isTagStop (t : ItemType) : Prop := t = .tPipe ∨ t = .tComma ∨ t = .tRightDelim

variable (ff : UInt64 → Bytes) (pf : Bytes → Option UInt64) (T : TableOK)
include T

/-- an expression in front of `|`, `,` or `}` -/
theorem expr_tagstop (e : Expr) (hC : Canon ff pf e) (h : Tk) (ht : isTagStop h.typ) (rest : List Tk) (ef : Nat)
    (hF : 1 + 8 * (toks ff e).length ≤ ef) (st : FState) (hst : At st.p (toks ff e ++ h :: rest)) :
    ∃ r p2, parseExpr0 pf ef st = .ok (r, { st with p := p2 }) ∧ erase r = erase e ∧ At1 p2 (h :: rest) := by
  have hb : isBinaryOp h.typ = false := by
    rw [isBinaryOp_eq T]; rcases ht with e | e | e <;> rw [e] <;> rfl
  have hq : h.typ ≠ .tTernIf := by rcases ht with e | e | e <;> rw [e] <;> simp
  have hok : okAfter e h.typ := ⟨by rcases ht with e | e | e <;> rw [e] <;> simp [noAccess], edgeOk_of_stop hb hq⟩
  have hs : Stops 0 h.typ := ⟨Or.inl hb, fun _ => hq⟩
  obtain ⟨r, p2, h2, he, h2a⟩ := aAll pf T e 0 (toks ff e) h rest 0 1 ef (Post e (h :: rest)) st.p
    (SoyVerif.Lemmas.ParserToks.slot_plain ff pf e (SoyVerif.Lemmas.ParserToks.renders_toks ff pf e hC)) (Nat.zero_le _)
    (fun _ => hok) (cont_stop pf hs) hst hF
  exact ⟨r, p2, liftP_ok h2, he, h2a⟩

/-- the tokens of the arguments of a directive: each behind a separator (`:` the first, `,` the others) -/
def dargToks (sep : Tk) : List Expr → List Tk
  | [] => []
  | a :: r => sep :: (toks ff a ++ dargToks tComma r)

omit T in
theorem unsp_dargsTail : ∀ r : List Expr, unsp (piecesDArgsTail ff r) = dargToks ff tComma r
  | [] => rfl
  | a :: r => by simp [piecesDArgsTail, unsp, unsp_append, dargToks, toks, unsp_dargsTail r]

omit T in
theorem unsp_dargs (args : List Expr) : unsp (piecesDArgs ff args) = dargToks ff tColon args := by
  cases args with
  | nil => rfl
  | cons a r => simp [piecesDArgs, unsp, unsp_append, dargToks, toks, unsp_dargsTail ff r]

/-- `directiveArgs` reads the arguments and stops in front of `|` or `}` -/
theorem directiveArgs_rt (ef : Nat) (h : Tk) (hh : h.typ = .tPipe ∨ h.typ = .tRightDelim) (rest : List Tk) :
    ∀ (r : List Expr) (sep : Tk) (acc : List Expr) (fuel : Nat) (st : FState),
      (sep.typ = .tColon ∨ sep.typ = .tComma) → (∀ a ∈ r, Canon ff pf a ∧ 1 + 8 * (toks ff a).length ≤ ef) → r.length < fuel →
      At st.p (dargToks ff sep r ++ h :: rest) →
      ∃ args' p2, directiveArgs pf ef fuel acc st = .ok (acc ++ args', { st with p := p2 }) ∧
        args'.map erase = r.map erase ∧ At1 p2 (h :: rest)
  | [], sep, acc, fuel, st, _, _, hf, hst => by
    obtain ⟨fuel, rfl⟩ : ∃ f, fuel = f + 1 := ⟨fuel - 1, by omega⟩
    have hst' : At st.p (h :: rest) := by simpa [dargToks] using hst
    obtain ⟨it, p1, hn, ht, _, hj⟩ := next_at hst'
    obtain ⟨p2, hb, h2⟩ := backup_just hj
    have hn' : FileParser.next st = .ok (it, { st with p := p1 }) := liftP_ok hn
    have hb' : FileParser.backup { st with p := p1 } = .ok ((), { st with p := p2 }) := liftP_ok hb
    have hne : (it.typ == ItemType.tColon || it.typ == ItemType.tComma) = false := by
      rw [ht]; rcases hh with e | e <;> rw [e] <;> rfl
    refine ⟨[], p2, ?_, rfl, ?_⟩
    · unfold directiveArgs
      rw [fbind_ok hn']
      simp only [hne, Bool.false_eq_true, if_false]
      rw [fbind_ok hb']
      simp; rfl
    · have : it.tk = h := by cases h; cases it; simp_all [Item.tk]
      rw [← this]; exact h2
  | a :: r, sep, acc, fuel, st, hsep, hc, hf, hst => by
    obtain ⟨fuel, rfl⟩ : ∃ f, fuel = f + 1 := ⟨fuel - 1, by omega⟩
    have hst' : At st.p (sep :: (toks ff a ++ (dargToks ff tComma r ++ h :: rest))) := by
      simpa [dargToks] using hst
    obtain ⟨it, p1, hn, ht, _, hj⟩ := next_at hst'
    have hn' : FileParser.next st = .ok (it, { st with p := p1 }) := liftP_ok hn
    have hyes : (it.typ == ItemType.tColon || it.typ == ItemType.tComma) = true := by
      rw [ht]; rcases hsep with e | e <;> rw [e] <;> rfl
    obtain ⟨hca, hfa⟩ := hc a (List.mem_cons_self ..)
    -- what follows the argument: `,` (more arguments) or the follower of the directive
    obtain ⟨nx, rest', hnx, hstop⟩ : ∃ nx rest', dargToks ff tComma r ++ h :: rest = nx :: rest' ∧ isTagStop nx.typ := by
      cases r with
      | nil => exact ⟨h, rest, rfl, by rcases hh with e | e <;> simp [isTagStop, e]⟩
      | cons b r' => exact ⟨tComma, toks ff b ++ (dargToks ff tComma r' ++ h :: rest), by simp [dargToks], Or.inr (Or.inl rfl)⟩
    obtain ⟨e', p2, h2, he, h2a⟩ := expr_tagstop ff pf T a hca nx hstop rest' ef hfa { st with p := p1 }
      (by rw [← hnx]; exact hj.at)
    have ih := directiveArgs_rt ef h hh rest r tComma (acc ++ [e']) fuel { st with p := p2 } (Or.inr rfl)
      (fun x hx => hc x (List.mem_cons_of_mem _ hx)) (by simp at hf; omega) (by rw [hnx]; exact h2a.at)
    obtain ⟨args', p3, h3, h3e, h3a⟩ := ih
    refine ⟨e' :: args', p3, ?_, by simp [he, h3e], h3a⟩
    unfold directiveArgs
    rw [fbind_ok hn']
    simp only [hyes, if_true]
    rw [fbind_ok h2, h3]
    simp

/-- the fuel of the expression parser suffices for every expression of the command -/
def ExprFuel (ef : Nat) (arg : Expr) (dirs : List Directive) : Prop :=
  1 + 8 * (toks ff arg).length ≤ ef ∧ ∀ d ∈ dirs, ∀ a ∈ d.args, 1 + 8 * (toks ff a).length ≤ ef

/-- every expression of the command is one the expression parser returns (literals in range, map keys ascending) -/
def CmdCanon (arg : Expr) (dirs : List Directive) : Prop :=
  Canon ff pf arg ∧ ∀ d ∈ dirs, ∀ a ∈ d.args, Canon ff pf a

omit T in
theorem unsp_dirs_cons (d : Directive) (r : List Directive) :
    unsp (piecesDirs ff (d :: r)) = tPipe :: tIdent d.name :: (dargToks ff tColon d.args ++ unsp (piecesDirs ff r)) := by
  simp [piecesDirs, piecesDir, unsp, unsp_append, unsp_dargs]

/-- `printLoop` reads the directives and the closing `}` -/
theorem printLoop_rt (ef : Nat) (pos : Nat) (expr : Expr) (rest : List Tk) :
    ∀ (ds : List Directive) (acc : List Directive) (fuel : Nat) (st : FState),
      (∀ d ∈ ds, ∀ a ∈ d.args, Canon ff pf a ∧ 1 + 8 * (toks ff a).length ≤ ef) →
      (∀ d ∈ ds, d.args.length + ds.length + 1 < fuel) →  ds.length < fuel →
      At st.p (unsp (piecesDirs ff ds) ++ tRD :: rest) →
      ∃ ds' p2, printLoop pf ef pos expr fuel acc st = .ok (Node.print pos expr (acc ++ ds'), { st with p := p2 }) ∧
        ds'.map eraseDir = ds.map eraseDir ∧ At p2 rest
  | [], acc, fuel, st, _, _, hf, hst => by
    obtain ⟨fuel, rfl⟩ : ∃ f, fuel = f + 1 := ⟨fuel - 1, by omega⟩
    have hst' : At st.p (tRD :: rest) := by simpa [piecesDirs, unsp] using hst
    obtain ⟨it, p1, hn, ht, _, hj⟩ := next_at hst'
    have hn' : FileParser.next st = .ok (it, { st with p := p1 }) := liftP_ok hn
    have ht' : it.typ = .tRightDelim := ht
    refine ⟨[], p1, ?_, rfl, hj.at⟩
    unfold printLoop
    rw [fbind_ok hn']
    simp [ht']
    rfl
  | d :: r, acc, fuel, st, hc, hfa, hf, hst => by
    obtain ⟨fuel, rfl⟩ : ∃ f, fuel = f + 1 := ⟨fuel - 1, by omega⟩
    rw [unsp_dirs_cons] at hst
    have hst' : At st.p (tPipe :: tIdent d.name :: (dargToks ff tColon d.args ++ (unsp (piecesDirs ff r) ++ tRD :: rest))) := by
      simpa using hst
    obtain ⟨it, p1, hn, ht, _, hj⟩ := next_at hst'
    have hn' : FileParser.next st = .ok (it, { st with p := p1 }) := liftP_ok hn
    have ht' : it.typ = .tPipe := ht
    obtain ⟨id, p2, he, _, hidv, hj2⟩ := expect_at hj.at
    have he' : FileParser.expect .tIdent { st with p := p1 } = .ok (id, { st with p := p2 }) := liftP_ok he
    have hidv' : id.val = d.name := hidv
    -- the follower of the arguments: the next `|` or the closing `}`
    obtain ⟨nx, rest', hnx, hh⟩ : ∃ nx rest', unsp (piecesDirs ff r) ++ tRD :: rest = nx :: rest' ∧
        (nx.typ = .tPipe ∨ nx.typ = .tRightDelim) := by
      cases r with
      | nil => exact ⟨tRD, rest, by simp [piecesDirs, unsp], Or.inr rfl⟩
      | cons d' r' =>
        exact ⟨tPipe, tIdent d'.name :: (dargToks ff tColon d'.args ++ (unsp (piecesDirs ff r') ++ tRD :: rest)),
          by rw [unsp_dirs_cons]; simp, Or.inl rfl⟩
    have hfd := hfa d (List.mem_cons_self ..)
    obtain ⟨args', p3, h3, h3e, h3a⟩ := directiveArgs_rt ff pf T ef nx hh rest' d.args tColon [] fuel { st with p := p2 }
      (Or.inl rfl) (hc d (List.mem_cons_self ..)) (by simp at hfd; omega) (by rw [← hnx]; exact hj2.at)
    have ih := printLoop_rt ef pos expr rest r (acc ++ [{ pos := it.pos, name := id.val, args := args' }]) fuel { st with p := p3 }
      (fun x hx => hc x (List.mem_cons_of_mem _ hx))
      (fun x hx => by have := hfa x (List.mem_cons_of_mem _ hx); simp at this ⊢; omega) (by simp at hf; omega)
      (by rw [hnx]; exact h3a.at)
    obtain ⟨ds', p4, h4, h4e, h4a⟩ := ih
    refine ⟨{ pos := it.pos, name := id.val, args := args' } :: ds', p4, ?_, ?_, h4a⟩
    · unfold printLoop
      rw [fbind_ok hn']
      have hnr : (it.typ == ItemType.tRightDelim) = false := by rw [ht']; rfl
      have hyp : (it.typ == ItemType.tPipe) = true := by rw [ht']; rfl
      simp only [hnr, hyp, Bool.false_eq_true, if_false, if_true]
      rw [fbind_ok he']
      simp only [List.nil_append] at h3
      rw [fbind_ok h3, h4]
      simp
    · simp [eraseDir, hidv', h3e, h4e]

/-- TOKENS → TREE: `parsePrint` (the print tag's own parser: the token in front — `print`, or the first token of the
    expression backed up — has been dealt with by `beginTag`) on the tokens of the body and the closing `}` gives the
    print node back, modulo positions, and leaves the rest of the stream -/
theorem parsePrint_rt (arg : Expr) (dirs : List Directive) (hC : CmdCanon ff pf arg dirs) (ef fuel : Nat)
    (hE : ExprFuel ff ef arg dirs) (hf : ∀ d ∈ dirs, d.args.length + dirs.length + 1 < fuel) (hf' : dirs.length < fuel)
    (token : Item) (rest : List Tk) (st : FState) (hst : At st.p (unsp (piecesBody ff arg dirs) ++ tRD :: rest)) :
    ∃ e' ds' p2, parsePrint pf ef fuel token st = .ok (Node.print token.pos e' ds', { st with p := p2 }) ∧
      erase e' = erase arg ∧ ds'.map eraseDir = dirs.map eraseDir ∧ At p2 rest := by
  obtain ⟨nx, rest', hnx, hh⟩ : ∃ nx rest', unsp (piecesDirs ff dirs) ++ tRD :: rest = nx :: rest' ∧ isTagStop nx.typ := by
    cases dirs with
    | nil => exact ⟨tRD, rest, by simp [piecesDirs, unsp], Or.inr (Or.inr rfl)⟩
    | cons d' r' =>
      exact ⟨tPipe, tIdent d'.name :: (dargToks ff tColon d'.args ++ (unsp (piecesDirs ff r') ++ tRD :: rest)),
        by rw [unsp_dirs_cons]; simp, Or.inl rfl⟩
  have hst' : At st.p (toks ff arg ++ nx :: rest') := by
    rw [← hnx]; simpa [piecesBody, unsp_append, toks] using hst
  obtain ⟨e', p1, h1, he, h1a⟩ := expr_tagstop ff pf T arg hC.1 nx hh rest' ef hE.1 st hst'
  obtain ⟨ds', p2, h2, h2e, h2a⟩ := printLoop_rt ff pf T ef token.pos e' rest dirs [] fuel { st with p := p1 }
    (fun d hd a ha => ⟨hC.2 d hd a ha, hE.2 d hd a ha⟩) hf hf' (by rw [hnx]; exact h1a.at)
  refine ⟨e', ds', p2, ?_, he, h2e, h2a⟩
  unfold parsePrint
  rw [fbind_ok h1]
  simpa using h2

/-! ### the fuel -/

omit T in
theorem len_dargs : ∀ (r : List Expr) (sep : Tk), r.length ≤ (dargToks ff sep r).length ∧
    ∀ a ∈ r, (toks ff a).length ≤ (dargToks ff sep r).length
  | [], _ => ⟨Nat.le_refl _, fun a h => by cases h⟩
  | b :: r, sep => by
    obtain ⟨i1, i2⟩ := len_dargs r tComma
    refine ⟨by simp [dargToks]; omega, ?_⟩
    intro a ha
    simp only [dargToks, List.length_cons, List.length_append]
    rcases List.mem_cons.mp ha with rfl | ha
    · omega
    · have := i2 a ha; omega

omit T in
theorem len_dirs : ∀ (ds : List Directive), ds.length ≤ (unsp (piecesDirs ff ds)).length ∧
    ∀ d ∈ ds, (dargToks ff tColon d.args).length ≤ (unsp (piecesDirs ff ds)).length
  | [] => ⟨Nat.le_refl _, fun d h => by cases h⟩
  | e :: r => by
    obtain ⟨i1, i2⟩ := len_dirs r
    rw [unsp_dirs_cons]
    refine ⟨by simp; omega, ?_⟩
    intro d hd
    simp only [List.length_cons, List.length_append]
    rcases List.mem_cons.mp hd with rfl | hd
    · omega
    · have := i2 d hd; omega

omit T in
/-- 8 per token (+1) for the expression parser, 2 per token (+2) for the loops of the tag -/
theorem fuel_ok (arg : Expr) (dirs : List Directive) (n : Nat) (hn : (unsp (piecesBody ff arg dirs)).length ≤ n) :
    ExprFuel ff (8 * n + 1) arg dirs ∧ (∀ d ∈ dirs, d.args.length + dirs.length + 1 < 2 * n + 2) ∧ dirs.length < 2 * n + 2 := by
  have hb : (unsp (piecesBody ff arg dirs)).length = (toks ff arg).length + (unsp (piecesDirs ff dirs)).length := by
    simp [piecesBody, unsp_append, toks]
  obtain ⟨d1, d2⟩ := len_dirs ff dirs
  refine ⟨⟨by omega, ?_⟩, ?_, by omega⟩
  · intro d hd a ha
    have := (len_dargs ff d.args tColon).2 a ha
    have := d2 d hd
    omega
  · intro d hd
    have := (len_dargs ff d.args tColon).1
    have := d2 d hd
    omega

end

/-! ## from the tag to the FILE: `beginTag`, `textOrTag`, `itemList`, `parse.SoyFile` -/

section
open SoyVerif.Model.FileParser (FState FP liftP parsePrint Node NodeList beginTag textOrTag itemListLoop skipComments
  parseFile parseSource)
open SoyVerif.Lemmas.ParserRound

theorem fnext_at {st : FState} {t : Tk} {ts : List Tk} (h : At st.p (t :: ts)) :
    ∃ it p', FileParser.next st = .ok (it, { st with p := p' }) ∧ it.typ = t.typ ∧ it.val = t.val ∧ Just p' it ts := by
  obtain ⟨it, p', hn, a, b, c⟩ := next_at h
  exact ⟨it, p', liftP_ok hn, a, b, c⟩

theorem fbackup_just {st : FState} {it : Item} {ts : List Tk} (h : Just st.p it ts) :
    ∃ p', FileParser.backup st = .ok ((), { st with p := p' }) ∧ At1 p' (it.tk :: ts) := by
  obtain ⟨p', hb, a⟩ := backup_just h
  exact ⟨p', liftP_ok hb, a⟩

theorem tk_eq {it : Item} {t : Tk} (h1 : it.typ = t.typ) (h2 : it.val = t.val) : it.tk = t := by
  cases t; cases it; simp_all [Item.tk]

theorem skipComments_id (f : Nat) (token : Item) (st : FState) (h : token.typ ≠ .tComment) :
    skipComments (f + 1) token st = .ok (token, st) := by
  unfold skipComments
  have : (token.typ == ItemType.tComment) = false := by simpa using h
  simp [this, pure, StateT.pure, Except.pure]

variable (ff : UInt64 → Bytes) (pf : Bytes → Option UInt64) (T : TableOK)

omit T in
/-- the token stream of a print command's body begins with a token of `headTypes` -/
theorem body_head (arg : Expr) (dirs : List Directive) :
    ∃ t r, unsp (piecesBody ff arg dirs) = t :: r ∧ t.typ ∈ headTypes := by
  obtain ⟨t, hh, hty⟩ := pieces_head ff arg
  unfold piecesBody
  cases hp : pieces ff arg with
  | nil => rw [hp] at hh; cases hh
  | cons x ps =>
    rw [hp] at hh
    simp only [List.head?_cons, Option.some.injEq] at hh
    subst hh
    exact ⟨t, _, rfl, hty⟩

include T

/-- `beginTag` (the `{` has been read) on the tokens of a printed print command: whatever token the printed expression
    begins with — `(` `[` `-` `not` `null` a boolean, an identifier, `$ident`, an integer, a float, a string —, the
    dispatch takes the implicit-print arm, backs that token up and `parsePrint` gives the print node back; the node's
    position is that first token's -/
theorem beginTag_print (arg : Expr) (dirs : List Directive) (hC : CmdCanon ff pf arg dirs) (ef fuel : Nat)
    (hE : ExprFuel ff ef arg dirs) (hf : ∀ d ∈ dirs, d.args.length + dirs.length + 1 < fuel) (hf' : dirs.length < fuel)
    (rest : List Tk) (st : FState) (hst : At st.p (unsp (piecesBody ff arg dirs) ++ tRD :: rest)) :
    ∃ pos e' ds' p2, beginTag pf ef (fuel + 1) st = .ok (some (Node.print pos e' ds'), { st with p := p2 }) ∧
      erase e' = erase arg ∧ ds'.map eraseDir = dirs.map eraseDir ∧ At p2 rest := by
  obtain ⟨t, r, hr, hty⟩ := body_head ff arg dirs
  have hst1 : At st.p (t :: (r ++ tRD :: rest)) := by rw [hr] at hst; simpa using hst
  obtain ⟨it, p1, hn, hity, hiv, hj⟩ := fnext_at hst1
  obtain ⟨p2, hb, ha1⟩ := fbackup_just (st := { st with p := p1 }) hj
  rw [tk_eq hity hiv, ← List.cons_append, ← hr] at ha1
  obtain ⟨e', ds', p3, hpp, he, hd, ha⟩ := parsePrint_rt ff pf T arg dirs hC ef fuel hE hf hf' it rest
    { st with p := p2 } ha1.at
  refine ⟨it.pos, e', ds', p3, ?_, he, hd, ha⟩
  unfold beginTag
  rw [fbind_ok hn]
  rw [← hity] at hty
  simp only [headTypes, List.mem_cons, List.not_mem_nil, or_false] at hty
  rcases hty with h | h | h | h | h | h | h | h | h | h | h <;>
    (simp only [h]; rw [fbind_ok hb, fbind_ok hpp]; rfl)

/-- `textOrTag` handed the `{` of a printed print command (`untl` holds neither `{` nor a first token of an expression) -/
theorem textOrTag_print (arg : Expr) (dirs : List Directive) (hC : CmdCanon ff pf arg dirs) (ef fuel : Nat)
    (hE : ExprFuel ff ef arg dirs) (hf : ∀ d ∈ dirs, d.args.length + dirs.length + 1 < fuel) (hf' : dirs.length < fuel)
    (untl : List ItemType) (hu1 : untl.contains .tLeftDelim = false) (hu2 : ∀ t ∈ headTypes, untl.contains t = false)
    (token : Item) (htok : token.typ = .tLeftDelim)
    (rest : List Tk) (st : FState) (hst : At st.p (unsp (piecesBody ff arg dirs) ++ tRD :: rest)) :
    ∃ pos e' ds' p2, textOrTag pf ef (fuel + 2) token untl st =
        .ok ((some (Node.print pos e' ds'), false), { st with p := p2 }) ∧
      erase e' = erase arg ∧ ds'.map eraseDir = dirs.map eraseDir ∧ At p2 rest := by
  obtain ⟨t, r, hr, hty⟩ := body_head ff arg dirs
  have hst1 : At st.p (t :: (r ++ tRD :: rest)) := by rw [hr] at hst; simpa using hst
  obtain ⟨it, p1, hn, hity, hiv, hj⟩ := fnext_at hst1
  obtain ⟨p2, hb, ha1⟩ := fbackup_just (st := { st with p := p1 }) hj
  rw [tk_eq hity hiv, ← List.cons_append, ← hr] at ha1
  obtain ⟨pos, e', ds', p3, hbt, he, hd, ha⟩ := beginTag_print ff pf T arg dirs hC ef fuel hE hf hf' rest
    { st with p := p2 } ha1.at
  refine ⟨pos, e', ds', p3, ?_, he, hd, ha⟩
  unfold textOrTag
  simp only
  rw [fbind_ok (skipComments_id fuel token st (by rw [htok]; decide))]
  simp only [htok, hu1, Bool.false_eq_true, if_false]
  rw [fbind_ok hn]
  simp only [hity, hu2 t.typ hty, Bool.and_false, Bool.false_eq_true, if_false]
  rw [fbind_ok hb]
  simp only [show (ItemType.tLeftDelim == ItemType.tText) = false by decide, Bool.false_eq_true, if_false,
    beq_self_eq_true, if_true]
  rw [fbind_ok hbt]
  rfl

/-- `itemList(itemEOF)` — the top level of `parse.SoyFile` — on `{`, the tokens of a printed print command, `}`, EOF:
    the list with the one print node -/
theorem itemList_print (arg : Expr) (dirs : List Directive) (hC : CmdCanon ff pf arg dirs) (ef fuel : Nat)
    (hE : ExprFuel ff ef arg dirs) (hf : ∀ d ∈ dirs, d.args.length + dirs.length + 1 < fuel) (hf' : dirs.length < fuel)
    (st : FState)
    (hst : At st.p (⟨.tLeftDelim, [123]⟩ :: (unsp (piecesBody ff arg dirs) ++ [tRD, ⟨.tEOF, []⟩]))) :
    ∃ lpos pos e' ds' st', itemListLoop pf ef (fuel + 3) [.tEOF] none .nil st =
        .ok (.list lpos (.cons (Node.print pos e' ds') .nil), st') ∧
      erase e' = erase arg ∧ ds'.map eraseDir = dirs.map eraseDir := by
  obtain ⟨k, rfl⟩ : ∃ k, fuel = k + 1 := ⟨fuel - 1, by omega⟩
  obtain ⟨ld, p1, hn1, hlt, _, hj1⟩ := fnext_at hst
  obtain ⟨pos, e', ds', p2, hto, he, hd, ha⟩ := textOrTag_print ff pf T arg dirs hC ef (k + 1) hE hf hf' [.tEOF]
    (by decide) (by decide) ld hlt [⟨.tEOF, []⟩] { st with p := p1 } (by simpa using hj1.at)
  obtain ⟨eo, p3, hn2, het, _, _⟩ := fnext_at (st := { st with p := p2 }) ha
  have het' : eo.typ = .tEOF := het
  have hun : textOrTag pf ef (k + 1 + 1) eo [.tEOF] { st with p := p3 } = .ok ((none, true), { st with p := p3 }) := by
    unfold textOrTag
    simp only
    rw [fbind_ok (skipComments_id k eo _ (by rw [het']; decide))]
    simp only [het']
    rfl
  refine ⟨ld.pos, pos, e', ds', { st with p := p3 }, ?_, he, hd⟩
  unfold itemListLoop
  rw [fbind_ok hn1]
  simp only
  rw [fbind_ok hto]
  simp only [Bool.false_eq_true, if_false]
  unfold itemListLoop
  rw [fbind_ok hn2]
  simp only
  rw [fbind_ok hun]
  rfl

/-- `itemList(untl…)` inside a block — e.g. `itemList(itemTemplateEnd)`, the body of a template — on `{`, the tokens of a
    printed print command, `}` and the closing command `{` `cl` (`cl` an until token): the list with the one print
    node; the stream is left behind `cl` -/
theorem itemList_print_until (arg : Expr) (dirs : List Directive) (hC : CmdCanon ff pf arg dirs) (ef fuel : Nat)
    (hE : ExprFuel ff ef arg dirs) (hf : ∀ d ∈ dirs, d.args.length + dirs.length + 1 < fuel) (hf' : dirs.length < fuel)
    (untl : List ItemType) (hu1 : untl.contains .tLeftDelim = false) (hu2 : ∀ t ∈ headTypes, untl.contains t = false)
    (cl : Tk) (hcl : untl.contains cl.typ = true) (rest : List Tk) (st : FState)
    (hst : At st.p (⟨.tLeftDelim, [123]⟩ :: (unsp (piecesBody ff arg dirs) ++ tRD :: ⟨.tLeftDelim, [123]⟩ :: cl :: rest))) :
    ∃ lpos pos e' ds' p', itemListLoop pf ef (fuel + 3) untl none .nil st =
        .ok (.list lpos (.cons (Node.print pos e' ds') .nil), { st with p := p' }) ∧
      erase e' = erase arg ∧ ds'.map eraseDir = dirs.map eraseDir ∧ At p' rest := by
  obtain ⟨k, rfl⟩ : ∃ k, fuel = k + 1 := ⟨fuel - 1, by omega⟩
  obtain ⟨ld, p1, hn1, hlt, _, hj1⟩ := fnext_at hst
  obtain ⟨pos, e', ds', p2, hto, he, hd, ha⟩ := textOrTag_print ff pf T arg dirs hC ef (k + 1) hE hf hf' untl
    hu1 hu2 ld hlt (⟨.tLeftDelim, [123]⟩ :: cl :: rest) { st with p := p1 } hj1.at
  obtain ⟨l2, p3, hn2, hl2, _, hj3⟩ := fnext_at (st := { st with p := p2 }) ha
  have hl2' : l2.typ = .tLeftDelim := hl2
  obtain ⟨c, p4, hn3, hct, _, hj4⟩ := fnext_at (st := { st with p := p3 }) hj3.at
  have hun : textOrTag pf ef (k + 1 + 1) l2 untl { st with p := p3 } = .ok ((none, true), { st with p := p4 }) := by
    unfold textOrTag
    simp only
    rw [fbind_ok (skipComments_id k l2 _ (by rw [hl2']; decide))]
    simp only [hl2', hu1, Bool.false_eq_true, if_false]
    rw [fbind_ok hn3]
    simp only [hct, hcl, beq_self_eq_true, Bool.and_self, if_true]
    rfl
  refine ⟨ld.pos, pos, e', ds', p4, ?_, he, hd, hj4.at⟩
  unfold itemListLoop
  rw [fbind_ok hn1]
  simp only
  rw [fbind_ok hto]
  simp only [Bool.false_eq_true, if_false]
  unfold itemListLoop
  rw [fbind_ok hn2]
  simp only
  rw [fbind_ok hun]
  rfl

omit T in
theorem fexpect_at {st : FState} {t : Tk} {ts : List Tk} (h : At st.p (t :: ts)) :
    ∃ it p', FileParser.expect t.typ st = .ok (it, { st with p := p' }) ∧ it.typ = t.typ ∧ it.val = t.val ∧ Just p' it ts := by
  obtain ⟨it, p', hn, a, b, c⟩ := expect_at h
  exact ⟨it, p', liftP_ok hn, a, b, c⟩

/-- a TEMPLATE around the tag, token level: `beginTag` on `template` `.name` `}` `{` the printed print command `}` `{`
    `/template` `}` gives the template node (no attributes: autoescape unspecified, not private) whose body is the list
    with the one print node -/
theorem template_print (arg : Expr) (dirs : List Directive) (hC : CmdCanon ff pf arg dirs) (ef fuel : Nat)
    (hE : ExprFuel ff ef arg dirs) (hf : ∀ d ∈ dirs, d.args.length + dirs.length + 1 < fuel) (hf' : dirs.length < fuel)
    (tv ev name : Bytes) (rest : List Tk) (st : FState)
    (hst : At st.p (⟨.tTemplate, tv⟩ :: ⟨.tDotIdent, name⟩ :: tRD :: ⟨.tLeftDelim, [123]⟩ ::
      (unsp (piecesBody ff arg dirs) ++ tRD :: ⟨.tLeftDelim, [123]⟩ :: ⟨.tTemplateEnd, ev⟩ :: tRD :: rest))) :
    ∃ tpos lpos pos e' ds' p', beginTag pf ef (fuel + 5) st =
        .ok (some (Node.template tpos (st.ns ++ name) (.list lpos (.cons (Node.print pos e' ds') .nil)) .unspecified false),
          { st with p := p' }) ∧
      erase e' = erase arg ∧ ds'.map eraseDir = dirs.map eraseDir ∧ At p' rest := by
  obtain ⟨tt, p1, hn1, htt, _, hj1⟩ := fnext_at hst
  have htt' : tt.typ = .tTemplate := htt
  obtain ⟨di, p2, hx2, _, hdv, hj2⟩ := fexpect_at (st := { st with p := p1 }) hj1.at
  have hdv' : di.val = name := hdv
  obtain ⟨r1, p3, hn3, hr1, hr1v, hj3⟩ := fnext_at (st := { st with p := p2 }) hj2.at
  have hr1' : r1.typ = .tRightDelim := hr1
  obtain ⟨p4, hb4, ha4⟩ := fbackup_just (st := { st with p := p3 }) hj3
  rw [tk_eq hr1 hr1v] at ha4
  obtain ⟨_, p5, hx5, _, _, hj5⟩ := fexpect_at (st := { st with p := p4 }) ha4.at
  obtain ⟨lpos, pos, e', ds', p6, hil, he, hd, ha6⟩ := itemList_print_until ff pf T arg dirs hC ef fuel hE hf hf'
    [.tTemplateEnd] (by decide) (by decide) ⟨.tTemplateEnd, ev⟩ (by simp) (tRD :: rest) { st with p := p5 } hj5.at
  obtain ⟨_, p7, hx7, _, _, hj7⟩ := fexpect_at (st := { st with p := p6 }) ha6
  refine ⟨tt.pos, lpos, pos, e', ds', p7, ?_, he, hd, hj7.at⟩
  have hpa : FileParser.parseAttrs [FileParser.kAutoescape, FileParser.kPrivate, FileParser.kKind] (fuel + 3) []
      { st with p := p2 } = .ok ([], { st with p := p4 }) := by
    unfold FileParser.parseAttrs
    rw [fbind_ok hn3]
    simp only [hr1', show (ItemType.tRightDelim == ItemType.tIdent) = false by decide, Bool.false_eq_true, if_false,
      beq_self_eq_true, Bool.true_or, if_true]
    rw [fbind_ok hb4]
    rfl
  have hx2' : FileParser.expect .tDotIdent { st with p := p1 } = .ok (di, { st with p := p2 }) := hx2
  have hx5' : FileParser.expect .tRightDelim { st with p := p4 } = .ok (_, { st with p := p5 }) := hx5
  have hx7' : FileParser.expect .tRightDelim { st with p := p6 } = .ok (_, { st with p := p7 }) := hx7
  have hpt : FileParser.parseTemplate pf ef (fuel + 4) tt { st with p := p1 } =
      .ok (Node.template tt.pos (st.ns ++ name) (.list lpos (.cons (Node.print pos e' ds') .nil)) .unspecified false,
        { st with p := p7 }) := by
    unfold FileParser.parseTemplate
    rw [fbind_ok hx2', fbind_ok hpa]
    simp only [FileParser.parseAutoescape, FileParser.boolAttr, FileParser.lookup, List.find?_nil, Option.map_none,
      Option.getD_none, beq_self_eq_true, if_true]
    rw [fbind_ok (show (pure _ : FP Autoescape) { st with p := p4 } = .ok (_, { st with p := p4 }) from rfl)]
    rw [fbind_ok (show (pure false : FP Bool) { st with p := p4 } = .ok (_, { st with p := p4 }) from rfl)]
    rw [fbind_ok hx5', fbind_ok hil]
    rw [fbind_ok (show (get : FP FState) { st with p := p6 } = .ok ({ st with p := p6 }, { st with p := p6 }) from rfl)]
    rw [fbind_ok hx7', hdv']
    rfl
  unfold beginTag
  rw [fbind_ok hn1]
  simp only [htt']
  rw [fbind_ok hpt]
  rfl

end

/-! ## from bytes to the print node, and injectivity -/

section
open SoyVerif.Model.FileParser (FState parsePrint Node)
variable (ff : UInt64 → Bytes) (pf : Bytes → Option UInt64) (LT : LexTableOK) (T : TableOK)
include LT T

/-- C17 for PRINT COMMANDS, from bytes to tree (the tag alone): the text `PrintNode.String()` writes, lexed by `lex` (file
    mode) and — behind its `{` — parsed by the file parser's `parsePrint` (models), gives the print node back modulo
    positions: the expression, and every directive with its name and its arguments; what is left in the stream is EOF.
    (Above it, not covered: `beginTag`'s dispatch to `parsePrint` — it reads the first token of the expression and backs
    it up, or reads `print` —, and the template and file around the tag.) -/
theorem print_cmd_roundtrip_bytes (arg : Expr) (dirs : List Directive) (hN : CmdOk ff arg dirs) (hC : CmdCanon ff pf arg dirs)
    (token : Item) :
    ∃ items e' ds' p2, lexAll (printPrint ff arg dirs) false = .items items ∧
      parsePrint pf (8 * items.length + 1) (2 * items.length + 2) token { p := initState items.tail } =
        .ok (Node.print token.pos e' ds', { p := p2 }) ∧
      erase e' = erase arg ∧ ds'.map eraseDir = dirs.map eraseDir ∧ At p2 [⟨.tEOF, []⟩] := by
  obtain ⟨items, hl, ht⟩ := lex_print_cmd ff LT arg dirs hN
  cases items with
  | nil => simp at ht
  | cons x its =>
    simp only [List.map_cons, List.cons.injEq] at ht
    have hlen : (unsp (piecesBody ff arg dirs)).length ≤ (x :: its).length := by
      have := congrArg List.length ht.2
      simp at this ⊢; omega
    obtain ⟨f1, f2, f3⟩ := fuel_ok ff arg dirs (x :: its).length hlen
    have hst : At (initState its) (unsp (piecesBody ff arg dirs) ++ tRD :: [⟨.tEOF, []⟩]) := by
      have := at_init its
      rw [ht.2] at this
      simpa [tRD] using this
    obtain ⟨e', ds', p2, h1, h2, h3, h4⟩ := parsePrint_rt ff pf T arg dirs hC _ _ f1 f2 f3 token [⟨.tEOF, []⟩]
      { p := initState its } hst
    exact ⟨x :: its, e', ds', p2, hl, h1, h2, h3, h4⟩

/-- C17, the statement of the property for print commands: two print commands (expression and directives with their
    arguments) that print the same TEXT are the same command, modulo positions -/
theorem print_cmd_injective_bytes (a b : Expr) (da db : List Directive) (hNa : CmdOk ff a da) (hNb : CmdOk ff b db)
    (hCa : CmdCanon ff pf a da) (hCb : CmdCanon ff pf b db) (h : printPrint ff a da = printPrint ff b db) :
    erase a = erase b ∧ da.map eraseDir = db.map eraseDir := by
  obtain ⟨i1, e1, d1, p1, hl1, hp1, he1, hd1, _⟩ := print_cmd_roundtrip_bytes ff pf LT T a da hNa hCa Item.zero
  obtain ⟨i2, e2, d2, p2, hl2, hp2, he2, hd2, _⟩ := print_cmd_roundtrip_bytes ff pf LT T b db hNb hCb Item.zero
  rw [h, hl2] at hl1
  injection hl1 with hi
  subst hi
  rw [hp2] at hp1
  injection hp1 with hp1
  simp only [Prod.mk.injEq, Node.print.injEq] at hp1
  obtain ⟨⟨_, rfl, rfl⟩, _⟩ := hp1
  exact ⟨by rw [← he1, ← he2], by rw [← hd1, ← hd2]⟩

end

/-! ## the FILE -/

section
open SoyVerif.Model.FileParser (Node parseSource parseFile)
variable (ff : UInt64 → Bytes) (pf : Bytes → Option UInt64) (LT : LexTableOK) (T : TableOK)
include LT T

/-- C17 for PRINT COMMANDS, from bytes to tree, FILE level: `parse.SoyFile` (lexer ∘ parser, `parseSource`) on the
    text `PrintNode.String()` writes returns the file whose node list is exactly the one print node, and that node is
    the printed one modulo positions — the expression, and every directive with its name and its arguments.
    (The frame is the one of C15c's `body_source_spec`: the model's `parse.SoyFile` does not ask for a
    `{namespace}`/`{template}` around the body — neither does the code: parse.SoyFile is `itemList(itemEOF)`.) -/
theorem print_cmd_file_roundtrip (arg : Expr) (dirs : List Directive) (hN : CmdOk ff arg dirs)
    (hC : CmdCanon ff pf arg dirs) :
    ∃ pos e' ds', parseSource pf (printPrint ff arg dirs) = .ok [Node.print pos e' ds'] ∧
      erase e' = erase arg ∧ ds'.map eraseDir = dirs.map eraseDir := by
  obtain ⟨items, hl, ht⟩ := lex_print_cmd ff LT arg dirs hN
  have hlen : (unsp (piecesBody ff arg dirs)).length ≤ items.length := by
    have := congrArg List.length ht
    simp at this; omega
  obtain ⟨f1, f2, f3⟩ := fuel_ok ff arg dirs items.length hlen
  have hE : ExprFuel ff (FileParser.exprFuel items) arg dirs := by
    simp only [FileParser.exprFuel, Parser.fuelFor]
    exact ⟨by have := f1.1; omega, fun d hd a ha => by have := f1.2 d hd a ha; omega⟩
  obtain ⟨lpos, pos, e', ds', st', hrun, he, hd⟩ := itemList_print ff pf T arg dirs hC (FileParser.exprFuel items)
    (8 * items.length + 61) hE (fun d hd => by have := f2 d hd; omega) (by omega) { p := initState items }
    (by have := at_init items; rw [ht] at this; simpa [tRD] using this)
  refine ⟨pos, e', ds', ?_, he, hd⟩
  unfold parseSource
  rw [hl]
  simp only
  unfold parseFile
  simp only [StateT.run, FileParser.fuelFor]
  rw [hrun]
  rfl

/-- two print commands whose texts `parse.SoyFile` reads … the same FILE text means the same command -/
theorem print_cmd_file_injective (a b : Expr) (da db : List Directive) (hNa : CmdOk ff a da) (hNb : CmdOk ff b db)
    (hCa : CmdCanon ff pf a da) (hCb : CmdCanon ff pf b db)
    (h : parseSource pf (printPrint ff a da) = parseSource pf (printPrint ff b db)) :
    erase a = erase b ∧ da.map eraseDir = db.map eraseDir := by
  obtain ⟨p1, e1, d1, h1, he1, hd1⟩ := print_cmd_file_roundtrip ff pf LT T a da hNa hCa
  obtain ⟨p2, e2, d2, h2, he2, hd2⟩ := print_cmd_file_roundtrip ff pf LT T b db hNb hCb
  rw [h1, h2] at h
  simp only [Except.ok.injEq, List.cons.injEq, Node.print.injEq, and_true] at h
  obtain ⟨_, rfl, rfl⟩ := h
  exact ⟨by rw [← he1, ← he2], by rw [← hd1, ← hd2]⟩

end

end SoyVerif.Props.C17c
