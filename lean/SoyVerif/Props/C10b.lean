/-
  C10 — is the message id injective on content, up to the 64-bit hash?  What is true and what is not.

  The id is `fingerprint (writeFingerprint … false)` mixed with the meaning: its INPUT is the fingerprint
  string written WITHOUT braces around top-level placeholder names (soymsg/id.go `calcID`: the official
  Soy algorithm `buildMsgContentStrForMsgIdComputation(…, doUseBracedPhs = false)` for non-plural messages).

  * NOT injective (`id_input_collision_text_vs_placeholder`, `id_input_collision_adjacent`): the raw text
    `NAME` and the placeholder named `NAME`, or the placeholders `{A}{B}` and the single `{AB}`, give the SAME
    input string, hence the same id — no hash collision involved.  Confirmed on the real code:
    `{msg}Hello NAME{/msg}` / `{msg}Hello {$name}{/msg}` and `{msg}{$a}{$b}{/msg}` / `{msg}{$ab}{/msg}`
    share their ids.  (This is the official algorithm's behaviour; the property asks to follow it.)
  * injective where text and names cannot run into each other (`id_input_injective_separated`): on flat
    bodies in which texts and placeholders alternate, every text is non-empty and free of `[A-Z0-9_]`, and
    every name is a non-empty `[A-Z0-9_]+`, equal input strings mean equal bodies — there an id collision
    can only come from the hash.  Both hypotheses are needed (the two collisions above).
  * the BRACED string (`PlaceholderString`, what the catalogues store) is injective on flat bodies whose
    texts contain no `{[A-Z0-9_]+}` (`placeholderString_injective`, from `Props.C10.parts_writeFP`).
-/
import SoyVerif.Props.C10

set_option linter.unusedVariables false

namespace SoyVerif.Props.C10b
open SoyVerif SoyVerif.Model.Msg SoyVerif.Props.C10

/-! ### the input of the id is not injective -/

/-- `Hello NAME` (raw text) and `Hello {$name}` (a placeholder named NAME): one input string, one id -/
theorem id_input_collision_text_vs_placeholder :
    let m1 : Msg := ⟨[], [], [.text [72, 101, 108, 108, 111, 32, 78, 65, 77, 69]]⟩
    let m2 : Msg := ⟨[], [], [.text [72, 101, 108, 108, 111, 32], .ph [78, 65, 77, 69] [36, 110, 97, 109, 101]]⟩
    namedBody Orders.id m1.body ≠ namedBody Orders.id m2.body ∧
    writeFingerprint Orders.id m1 false = writeFingerprint Orders.id m2 false ∧
    calcID Orders.id m1 = calcID Orders.id m2 ∧
    placeholderString Orders.id m1 ≠ placeholderString Orders.id m2 := by
  refine ⟨fun e => absurd (congrArg (writeFPList true) e) (by decide), by decide, ?_, by decide⟩
  exact id_depends_only_on _ _ _ _ (by decide) rfl

/-- `{$a}{$b}` and `{$ab}`: the names A, B and AB — one input string, one id -/
theorem id_input_collision_adjacent :
    let m1 : Msg := ⟨[], [], [.ph [65] [36, 97], .ph [66] [36, 98]]⟩
    let m2 : Msg := ⟨[], [], [.ph [65, 66] [36, 97, 98]]⟩
    namedBody Orders.id m1.body ≠ namedBody Orders.id m2.body ∧
    writeFingerprint Orders.id m1 false = writeFingerprint Orders.id m2 false ∧
    calcID Orders.id m1 = calcID Orders.id m2 := by
  refine ⟨fun e => absurd (congrArg (writeFPList true) e) (by decide), by decide, ?_⟩
  exact id_depends_only_on _ _ _ _ (by decide) rfl

/-! ### … and injective where texts and names cannot run into each other -/

/-- the longest prefix in a class is determined by the string: `a ++ x = b ++ y` with `a`, `b` inside the
    class and `x`, `y` beginning outside it (or empty) -/
theorem span_unique (P : UInt8 → Bool) : ∀ (a b x y : Bytes), a ++ x = b ++ y →
    (∀ c ∈ a, P c = true) → (∀ c ∈ b, P c = true) → (∀ c t, x = c :: t → P c = false) → (∀ c t, y = c :: t → P c = false) →
    a = b ∧ x = y
  | [], [], x, y, h, _, _, _, _ => ⟨rfl, by simpa using h⟩
  | [], c :: b, x, y, h, _, hb, hx, _ => by
    simp only [List.nil_append, List.cons_append] at h
    have := hx c (b ++ y) h
    rw [hb c (by simp)] at this; exact absurd this (by simp)
  | c :: a, [], x, y, h, ha, _, _, hy => by
    simp only [List.nil_append, List.cons_append] at h
    have := hy c (a ++ x) h.symm
    rw [ha c (by simp)] at this; exact absurd this (by simp)
  | c :: a, d :: b, x, y, h, ha, hb, hx, hy => by
    simp only [List.cons_append, List.cons.injEq] at h
    obtain ⟨h1, h2⟩ := span_unique P a b x y h.2 (fun e he => ha e (by simp [he])) (fun e he => hb e (by simp [he])) hx hy
    exact ⟨by rw [h.1, h1], h2⟩

/-- flat bodies in which non-empty texts without `[A-Z0-9_]` and placeholders with names in `[A-Z0-9_]+`
    alternate (`afterPh`: the previous part was a placeholder; `afterText`: a text) -/
def Sep : Bool → Bool → List NPart → Prop
  | _, _, [] => True
  | _, afterText, .text t :: r => afterText = false ∧ t ≠ [] ∧ (∀ c ∈ t, isPhChar c = false) ∧ Sep false true r
  | afterPh, _, .ph n :: r => afterPh = false ∧ n ≠ [] ∧ (∀ c ∈ n, isPhChar c = true) ∧ Sep true false r
  | _, _, .plural _ _ _ :: _ => False

/-- the first byte of the string of a separated body after a placeholder is no name character, after a text
    it is one -/
theorem sep_head : ∀ (l : List NPart) (ap at_ : Bool), Sep ap at_ l →
    (ap = true → ∀ c t, writeFPList false l = c :: t → isPhChar c = false) ∧
    (at_ = true → ∀ c t, writeFPList false l = c :: t → isPhChar c = true)
  | [], _, _, _ => by simp [writeFPList]
  | .text t :: r, ap, at_, h => by
    obtain ⟨h1, h2, h3, _⟩ := h
    subst h1
    refine ⟨fun _ c t' e => ?_, fun hh => absurd hh (by simp)⟩
    cases t with
    | nil => exact absurd rfl h2
    | cons b t0 =>
      simp only [writeFPList, writeFP, List.cons_append, List.cons.injEq] at e
      rw [← e.1]; exact h3 b (by simp)
  | .ph n :: r, ap, at_, h => by
    obtain ⟨h1, h2, h3, _⟩ := h
    subst h1
    refine ⟨fun hh => absurd hh (by simp), fun _ c t' e => ?_⟩
    cases n with
    | nil => exact absurd rfl h2
    | cons b n0 =>
      simp only [writeFPList, writeFP, Bool.false_eq_true, if_false, List.cons_append, List.cons.injEq] at e
      rw [← e.1]; exact h3 b (by simp)
  | .plural _ _ _ :: _, _, _, h => absurd h (by simp [Sep])

/-- on separated flat bodies the input of the id determines the body -/
theorem writeFP_injective_separated : ∀ (a b : List NPart) (ap at_ : Bool), Sep ap at_ a → Sep ap at_ b →
    writeFPList false a = writeFPList false b → a = b
  | [], [], _, _, _, _, _ => rfl
  | [], .text t :: r, _, _, _, hb, h => by
    obtain ⟨_, h2, _, _⟩ := hb
    cases t with
    | nil => exact absurd rfl h2
    | cons c t0 => simp [writeFPList, writeFP] at h
  | [], .ph n :: r, _, _, _, hb, h => by
    obtain ⟨_, h2, _, _⟩ := hb
    cases n with
    | nil => exact absurd rfl h2
    | cons c n0 => simp [writeFPList, writeFP] at h
  | [], .plural _ _ _ :: _, _, _, _, hb, _ => absurd hb (by simp [Sep])
  | .text t :: r, [], _, _, ha, _, h => by
    obtain ⟨_, h2, _, _⟩ := ha
    cases t with
    | nil => exact absurd rfl h2
    | cons c t0 => simp [writeFPList, writeFP] at h
  | .ph n :: r, [], _, _, ha, _, h => by
    obtain ⟨_, h2, _, _⟩ := ha
    cases n with
    | nil => exact absurd rfl h2
    | cons c n0 => simp [writeFPList, writeFP] at h
  | .plural _ _ _ :: _, _, _, _, ha, _, _ => absurd ha (by simp [Sep])
  | .text t :: r, .text t' :: r', ap, at_, ha, hb, h => by
    obtain ⟨_, _, a3, a4⟩ := ha
    obtain ⟨_, _, b3, b4⟩ := hb
    simp only [writeFPList, writeFP] at h
    have hx := (sep_head r false true a4).2 rfl
    have hy := (sep_head r' false true b4).2 rfl
    obtain ⟨e1, e2⟩ := span_unique (fun c => !isPhChar c) t t' _ _ h (by simpa using a3) (by simpa using b3)
      (fun c t0 e => by simp [hx c t0 e]) (fun c t0 e => by simp [hy c t0 e])
    rw [e1, writeFP_injective_separated r r' false true a4 b4 e2]
  | .ph n :: r, .ph n' :: r', ap, at_, ha, hb, h => by
    obtain ⟨_, _, a3, a4⟩ := ha
    obtain ⟨_, _, b3, b4⟩ := hb
    simp only [writeFPList, writeFP, Bool.false_eq_true, if_false] at h
    have hx := (sep_head r true false a4).1 rfl
    have hy := (sep_head r' true false b4).1 rfl
    obtain ⟨e1, e2⟩ := span_unique isPhChar n n' _ _ h a3 b3 hx hy
    rw [e1, writeFP_injective_separated r r' true false a4 b4 e2]
  | .text t :: r, .ph n :: r', ap, at_, ha, hb, h => by
    obtain ⟨_, a2, a3, _⟩ := ha
    obtain ⟨_, b2, b3, _⟩ := hb
    cases t with
    | nil => exact absurd rfl a2
    | cons c t0 =>
      cases n with
      | nil => exact absurd rfl b2
      | cons d n0 =>
        simp only [writeFPList, writeFP, Bool.false_eq_true, if_false, List.cons_append, List.cons.injEq] at h
        have h1 := a3 c (by simp)
        have h2 := b3 d (by simp)
        rw [h.1, h2] at h1; exact absurd h1 (by simp)
  | .ph n :: r, .text t :: r', ap, at_, ha, hb, h => by
    obtain ⟨_, a2, a3, _⟩ := ha
    obtain ⟨_, b2, b3, _⟩ := hb
    cases t with
    | nil => exact absurd rfl b2
    | cons c t0 =>
      cases n with
      | nil => exact absurd rfl a2
      | cons d n0 =>
        simp only [writeFPList, writeFP, Bool.false_eq_true, if_false, List.cons_append, List.cons.injEq] at h
        have h1 := a3 d (by simp)
        have h2 := b3 c (by simp)
        rw [h.1, h2] at h1; exact absurd h1 (by simp)
  | _ :: _, .plural _ _ _ :: _, _, _, _, hb, _ => absurd hb (by simp [Sep])

/-- C10, injectivity of the id's input: two messages whose named bodies are separated (texts and
    placeholders alternate, texts free of `[A-Z0-9_]`, names in `[A-Z0-9_]+`) and whose fingerprint input
    strings agree have the same named body — for them, different text or a different sequence of placeholder
    names means a different input of the hash -/
theorem id_input_injective_separated (o₁ o₂ : Orders) (m₁ m₂ : Msg)
    (h₁ : Sep false false (namedBody o₁ m₁.body)) (h₂ : Sep false false (namedBody o₂ m₂.body))
    (h : writeFingerprint o₁ m₁ false = writeFingerprint o₂ m₂ false) :
    namedBody o₁ m₁.body = namedBody o₂ m₂.body :=
  writeFP_injective_separated _ _ false false h₁ h₂ h

/-- the braced placeholder string determines the text / placeholder sequence of a flat body whose texts
    contain no `{[A-Z0-9_]+}` (`Parts` is a left inverse: `Props.C10.parts_writeFP`) -/
theorem placeholderString_injective (a b : List NPart)
    (ha : NoMatch (leadText a)) (hfa : FlatOK a)
    (hb : NoMatch (leadText b)) (hfb : FlatOK b)
    (h : writeFPList true a = writeFPList true b) :
    expectedParts a [] = expectedParts b [] := by
  rw [← parts_writeFP a ha hfa, ← parts_writeFP b hb hfb, h]

/-! ### non-vacuity -/

/-- `hello {NAME}, {COUNT} i` is separated (a capital letter in the text would not be: `Hello {NAME}` and
    `{H}ello {NAME}` have one input string) … -/
example : Sep false false [.text [104, 101, 108, 108, 111, 32], .ph [78, 65, 77, 69], .text [44, 32], .ph [67, 79, 85, 78, 84], .text [32, 105]] := by
  simp only [Sep]; decide
/-- … `Hello NAME` (the text contains name characters) and `{A}{B}` (adjacent placeholders) are not -/
example : ¬ Sep false false [.text [72, 78]] := by simp only [Sep]; decide
example : ¬ Sep false false [.ph [65], .ph [66]] := by simp only [Sep]; decide

end SoyVerif.Props.C10b
