/-
  C11 — Extracted messages round-trip: translations land on the right placeholders.

  Theorems about the render model (Model/MsgRender.lean: evalMsg / evalMsgParts /
  MsgNode.Placeholder / walkMsgBody of soyhtml and ast, msgid / Validate / newMessage of
  soymsg/pomsg) on top of the naming theorems of C10.  `ρ` renders a placeholder from its
  source text, `ν` evaluates a plural's value, `sel` is the bundle's `PluralCase`; all three
  are arbitrary.  The model is tied to the code by the correspondence sub-check C11msg.
-/
import SoyVerif.Lemmas.MsgRenderNames

namespace SoyVerif.Props.C11
open SoyVerif SoyVerif.Model.Msg SoyVerif.Props.C10

variable (ρ : Bytes → Bytes) (ν : Bytes → Int) (sel : Int → Int)

/-! ## names determine the source text in a compiled body -/

/-- In the compiled body of a flat message, placeholders bearing one name have one source
    text (from `names_distinct` / `names_equiv_same`). -/
theorem flat_name_determines_src (o : Orders) (ho : o.Valid) (body : List Part) (hflat : bodyFlat body = true)
    (n s s' : Bytes) (h : RPart.ph n s ∈ rbody o body) (h' : RPart.ph n s' ∈ rbody o body) : s = s' := by
  obtain ⟨b, hb, e⟩ := mem_annotList_flat _ body hflat n s h
  obtain ⟨b', hb', e'⟩ := mem_annotList_flat _ body hflat n s' h'
  obtain ⟨q, hq, q1, q2⟩ := mkQueue_mem hb
  obtain ⟨q', hq', q1', q2'⟩ := mkQueue_mem hb'
  rw [← queue_flat body hflat] at hq hq'
  have := nm_inj o ho body hq hq' (by
    simp only [q1, q2, q1', q2', Part.base, Part.src]
    exact e.symm.trans e')
  simpa [q2, q2', Part.src] using this

/-! ## identity translation -/

theorem msgid_flat (R : List RPart) (h : isFlat R = true) : msgid R = some (writephList R) := by
  unfold msgid msgidn
  cases R with
  | nil => rfl
  | cons p r =>
    cases p with
    | plural _ _ _ _ => simp [isFlat, RPart.isPlural] at h
    | text b => rfl
    | ph n s => rfl

/-- FULL (non-plural messages): take any flat message body, compiled (names assigned by
    `setPlaceholderNames`, any map iteration order), whose names are in `[A-Z0-9_]+` and whose
    text runs contain nothing of the shape `{[A-Z0-9_]+}` (the guard of
    `parts_placeholderString`).  Its PO msgid exists, and rendering with the catalogue entry
    `msgstr = msgid` (built by `newMessage`, i.e. through `Parts`) gives byte for byte what
    rendering without a catalogue gives — for every environment. -/
theorem identity_translation_of_guard (o : Orders) (ho : o.Valid) (body : List Part) (hflat : bodyFlat body = true)
    (hguard : NoMatch (leadText (namedBody o body))) (hok : FlatOK (namedBody o body)) :
    ∃ id, msgid (rbody o body) = some id ∧
      renderTranslated ρ ν sel (rbody o body) (newMessage [] [id]) = some (renderSource ρ ν (rbody o body)) := by
  have hR : isFlat (rbody o body) = true := isFlat_annotList _ body hflat
  have hN : toNList (rbody o body) = namedBody o body := toNList_annotList_flat _ body hflat
  refine ⟨writephList (rbody o body), msgid_flat _ hR, ?_⟩
  show renderTs ρ ν sel (rbody o body) (liftParts (parts (writephList (rbody o body)))) = _
  rw [writephList_flat _ hR, hN, parts_writeFP _ hguard hok, ← hN]
  have := render_expected ρ ν sel (rbody o body) (rbody o body)
    (fun n => placeholder_flat n _ hR)
    (fun n s s' h h' => congrArg ρ (flat_name_determines_src o ho body hflat n s s' h h'))
    (rbody o body) [] hR (fun _ h => h)
  simpa [renderSource] using this

/-- `Validate` implies the text guard: for a flat compiled body that `pomsg.Validate` accepts
    (its literal text contains no `{[A-Z0-9_]+}`) and whose names are in `[A-Z0-9_]+`, the
    hypotheses of `parts_placeholderString` hold.  (Validate's buffer is the texts
    concatenated with a NUL per placeholder: exactly the merged text runs.) -/
theorem validate_implies_text_guard (o : Orders) (body : List Part) (hflat : bodyFlat body = true)
    (hval : validate (rbody o body) = true) (hnames : NamesValid (rbody o body)) :
    NoMatch (leadText (namedBody o body)) ∧ FlatOK (namedBody o body) := by
  have hR : isFlat (rbody o body) = true := isFlat_annotList _ body hflat
  have hN : toNList (rbody o body) = namedBody o body := toNList_annotList_flat _ body hflat
  rw [validate_flat _ hR] at hval
  rw [← hN]
  exact text_guard_of_validateText _ hR hval hnames

/-- FULL (non-plural messages): a flat message that is PO-representable (`Validate` accepts
    it) and whose placeholder names are in `[A-Z0-9_]+`: with `msgstr = msgid` the translated
    render equals the render without a catalogue, for every environment. -/
theorem identity_translation (o : Orders) (ho : o.Valid) (body : List Part) (hflat : bodyFlat body = true)
    (hval : validate (rbody o body) = true) (hnames : NamesValid (rbody o body)) :
    ∃ id, msgid (rbody o body) = some id ∧
      renderTranslated ρ ν sel (rbody o body) (newMessage [] [id]) = some (renderSource ρ ν (rbody o body)) := by
  obtain ⟨g, f⟩ := validate_implies_text_guard o body hflat hval hnames
  exact identity_translation_of_guard ρ ν sel o ho body hflat g f

/-- the compiled body of a PO-shaped plural message -/
theorem rbody_poPlural (o : Orders) (b s : Bytes) (k : Int) (c d : List Part) :
    rbody o [.plural b s [(k, c)] d] =
      [.plural (nmOf o [.plural b s [(k, c)] d] b s) s
        [(k, annotList (nmOf o [.plural b s [(k, c)] d]) c)] (annotList (nmOf o [.plural b s [(k, c)] d]) d)] := by
  simp [rbody, annotList, annot, annotCases, nmOf]

theorem poPlural_name_determines_src (o : Orders) (ho : o.Valid) (b s₀ : Bytes) (k : Int) (c d : List Part)
    (hc : bodyFlat c = true) (hd : bodyFlat d = true) (n s s' : Bytes)
    (h : RPart.ph n s ∈ annotList (nmOf o [.plural b s₀ [(k, c)] d]) d ++ annotList (nmOf o [.plural b s₀ [(k, c)] d]) c)
    (h' : RPart.ph n s' ∈ annotList (nmOf o [.plural b s₀ [(k, c)] d]) d ++ annotList (nmOf o [.plural b s₀ [(k, c)] d]) c) :
    s = s' := by
  have key : ∀ s, RPart.ph n s ∈ annotList (nmOf o [.plural b s₀ [(k, c)] d]) d ++ annotList (nmOf o [.plural b s₀ [(k, c)] d]) c →
      ∃ q ∈ queue [.plural b s₀ [(k, c)] d], q.src = s ∧ nmOf o [.plural b s₀ [(k, c)] d] q.base q.src = n := by
    intro s h
    have : ∃ base, Part.ph base s ∈ phNodes c ++ phNodes d ∧ n = nmOf o [.plural b s₀ [(k, c)] d] base s := by
      rcases List.mem_append.mp h with h | h
      · obtain ⟨base, h1, h2⟩ := mem_annotList_flat _ d hd n s h
        exact ⟨base, List.mem_append_right _ h1, h2⟩
      · obtain ⟨base, h1, h2⟩ := mem_annotList_flat _ c hc n s h
        exact ⟨base, List.mem_append_left _ h1, h2⟩
    obtain ⟨base, h1, h2⟩ := this
    obtain ⟨q, hq, q1, q2⟩ := mkQueue_mem (ps := .plural b s₀ [(k, c)] d :: (phNodes c ++ phNodes d))
      (List.mem_cons_of_mem _ h1)
    rw [← queue_poPlural b s₀ k c d hc hd] at hq
    exact ⟨q, hq, by simpa [Part.src] using q2, by simp only [q1, q2, Part.base, Part.src]; exact h2.symm⟩
  obtain ⟨q, hq, e1, e2⟩ := key s h
  obtain ⟨q', hq', e1', e2'⟩ := key s' h'
  have := nm_inj o ho _ hq hq' (e2.trans e2'.symm)
  rw [← e1, ← e1']; exact this

/-- FULL (PO-valid plural messages): a message whose sole child is a plural with exactly
    `{case 1}` and `{default}` (flat bodies, valid names, the text guard on both bodies).
    It passes `Validate`; with `msgstr[0] = msgid`, `msgstr[1] = msgid_plural` (turned into a
    `PluralPart` by `newMessage`) and a two-form selector (`sel 1 = 0`, otherwise 1) the
    translated render equals the source render for every plural value and environment. -/
theorem identity_translation_plural_of_guard (o : Orders) (ho : o.Valid) (b s : Bytes) (c d : List Part)
    (hc : bodyFlat c = true) (hd : bodyFlat d = true)
    (hsel1 : sel 1 = 0) (hselN : ∀ n, n ≠ 1 → sel n = 1) :
    let body := [Part.plural b s [(1, c)] d]
    let nm := nmOf o body
    NoMatch (leadText (toNList (annotList nm c))) → FlatOK (toNList (annotList nm c)) →
    NoMatch (leadText (toNList (annotList nm d))) → FlatOK (toNList (annotList nm d)) →
    ∃ id idPlural, msgid (rbody o body) = some id ∧ msgidPlural (rbody o body) = some idPlural ∧
      renderTranslated ρ ν sel (rbody o body) (newMessage (nm b s) [id, idPlural])
        = some (renderSource ρ ν (rbody o body)) := by
  intro body nm gc fc gd fd
  have hC : isFlat (annotList nm c) = true := isFlat_annotList _ c hc
  have hD : isFlat (annotList nm d) = true := isFlat_annotList _ d hd
  have hR : rbody o body = [.plural (nm b s) s [(1, annotList nm c)] (annotList nm d)] := rbody_poPlural o b s 1 c d
  rw [hR]
  refine ⟨writephList (annotList nm c), writephList (annotList nm d), rfl, rfl, ?_⟩
  have hnew : newMessage (nm b s) [writephList (annotList nm c), writephList (annotList nm d)] =
      [.plural (nm b s) [liftParts (parts (writephList (annotList nm c))), liftParts (parts (writephList (annotList nm d)))]] := by
    unfold newMessage
    cases nm b s <;> rfl
  have hlook : ∀ n, placeholder n [RPart.plural (nm b s) s [(1, annotList nm c)] (annotList nm d)]
      = findSrc n (annotList nm d ++ annotList nm c) :=
    fun n => placeholder_poPlural n _ _ _ _ _ hC hD
  have huniq : ∀ n s₁ s₂, RPart.ph n s₁ ∈ annotList nm d ++ annotList nm c →
      RPart.ph n s₂ ∈ annotList nm d ++ annotList nm c → ρ s₁ = ρ s₂ :=
    fun n s₁ s₂ h h' => congrArg ρ (poPlural_name_determines_src o ho b s 1 c d hc hd n s₁ s₂ h h')
  have rc := render_expected ρ ν sel _ _ hlook huniq (annotList nm c) [] hC
    (fun x hx => List.mem_append_right _ hx)
  have rd := render_expected ρ ν sel _ _ hlook huniq (annotList nm d) [] hD
    (fun x hx => List.mem_append_left _ hx)
  rw [← parts_writeFP _ gc fc, ← writephList_flat _ hC] at rc
  rw [← parts_writeFP _ gd fd, ← writephList_flat _ hD] at rd
  rw [hnew]
  simp only [renderTranslated, renderTs, renderT, findPluralNode, beq_self_eq_true, if_true,
    renderSource, renderSrcList, renderSrc, renderSrcCases]
  by_cases hv : ν s = 1
  · simp only [hv, hsel1, Int.lt_irrefl, if_false, Int.toNat_zero, renderTCase, rc, beq_self_eq_true, if_true]
    simp
  · have hb : (ν s == 1) = false := by simpa using hv
    simp only [hselN _ hv, hb]
    have : ¬ ((1 : Int) < 0) := by decide
    simp only [this, if_false]
    simp [renderTCase, rd]

/-- `Validate` on a PO-shaped plural is the text check of its two bodies -/
theorem validate_poPlural (N s : Bytes) (C D : List RPart) :
    validate [.plural N s [(1, C)] D] = (validateText C && validateText D) := by
  have : validateText [RPart.plural N s [(1, C)] D] = true := by
    simp only [validateText, litText]; decide
  simp [validate, validateFrom, this]

/-- FULL (PO-valid plural messages): the sole child is a plural with `{case 1}` and
    `{default}`, flat bodies; `Validate` accepts the message and the names are in
    `[A-Z0-9_]+`.  With `msgstr[0] = msgid`, `msgstr[1] = msgid_plural` and a two-form selector
    the translated render equals the source render for every plural value and environment. -/
theorem identity_translation_plural (o : Orders) (ho : o.Valid) (b s : Bytes) (c d : List Part)
    (hc : bodyFlat c = true) (hd : bodyFlat d = true)
    (hsel1 : sel 1 = 0) (hselN : ∀ n, n ≠ 1 → sel n = 1) :
    let body := [Part.plural b s [(1, c)] d]
    let nm := nmOf o body
    validate (rbody o body) = true → NamesValid (annotList nm c) → NamesValid (annotList nm d) →
    ∃ id idPlural, msgid (rbody o body) = some id ∧ msgidPlural (rbody o body) = some idPlural ∧
      renderTranslated ρ ν sel (rbody o body) (newMessage (nm b s) [id, idPlural])
        = some (renderSource ρ ν (rbody o body)) := by
  intro body nm hval nc nd
  rw [rbody_poPlural o b s 1 c d, validate_poPlural, Bool.and_eq_true] at hval
  obtain ⟨gc, fc⟩ := text_guard_of_validateText _ (isFlat_annotList nm c hc) hval.1 nc
  obtain ⟨gd, fd⟩ := text_guard_of_validateText _ (isFlat_annotList nm d hd) hval.2 nd
  exact identity_translation_plural_of_guard ρ ν sel o ho b s c d hc hd hsel1 hselN gc fc gd fd

/-! ## compositionality -/

/-- what one translation segment contributes -/
def segOut (R : List RPart) : MsgPart → Option Bytes
  | .text b => some b
  | .ph n => (placeholder n R).map ρ

/-- FULL: rendering a translation is the concatenation of the renders of its pieces … -/
theorem parts_compositional (R : List RPart) (ts₁ ts₂ : List TPart) :
    renderTranslated ρ ν sel R (ts₁ ++ ts₂) =
      (renderTranslated ρ ν sel R ts₁).bind fun x => (renderTranslated ρ ν sel R ts₂).map fun y => x ++ y :=
  renderTs_append ρ ν sel R ts₁ ts₂

/-- … so the render of ANY flat translation whose placeholders exist is the concatenation, in
    the translation's order, of its text segments and of `ρ` of the placeholders it names; -/
theorem translation_renders_segments (R : List RPart) : ∀ (ts : List MsgPart),
    (∀ t ∈ ts, (segOut ρ R t).isSome = true) →
    renderTranslated ρ ν sel R (liftParts ts) = some ((ts.map fun t => (segOut ρ R t).getD []).flatten)
  | [], _ => rfl
  | t :: ts, h => by
    have ih := translation_renders_segments R ts (fun x hx => h x (List.mem_cons_of_mem _ hx))
    have ht := h t (by simp)
    unfold renderTranslated liftParts at ih ⊢
    simp only [List.map_cons, renderTs, ih, List.flatten_cons]
    cases t with
    | text b => simp [TPart.ofMsgPart, renderT, segOut]
    | ph n =>
      simp only [segOut, Option.isSome_map] at ht
      obtain ⟨s, hs⟩ := Option.isSome_iff_exists.mp ht
      simp [TPart.ofMsgPart, renderT, segOut, hs]

/-- a placeholder the message does not have is an error, never silently dropped; -/
theorem translation_unknown_placeholder (R : List RPart) (ts₁ ts₂ : List MsgPart) (n : Bytes)
    (h : placeholder n R = none) :
    renderTranslated ρ ν sel R (liftParts (ts₁ ++ .ph n :: ts₂)) = none := by
  unfold renderTranslated liftParts
  rw [List.map_append, renderTs_append]
  simp only [List.map_cons, renderTs, TPart.ofMsgPart, renderT, h, Option.map_none]
  cases renderTs ρ ν sel R (List.map TPart.ofMsgPart ts₁) <;> simp

/-- FULL: and a translation that reorders (or repeats, or omits) segments — `idx` lists
    which segment of `ts` comes where — renders exactly the reordered (repeated, shortened)
    sequence of the per-segment renders.  With `idx` a permutation this is "a translation
    that reorders placeholders reorders exactly their rendered values". -/
theorem reorder_reorders (R : List RPart) (ts : List MsgPart)
    (hts : ∀ t ∈ ts, (segOut ρ R t).isSome = true) (idx : List Nat) (hidx : ∀ i ∈ idx, i < ts.length) :
    renderTranslated ρ ν sel R (liftParts (idx.map fun i => ts.getD i (.text []))) =
      some ((idx.map fun i => (segOut ρ R (ts.getD i (.text []))).getD []).flatten) := by
  rw [translation_renders_segments]
  · rw [List.map_map]; rfl
  · intro t ht
    obtain ⟨i, hi, rfl⟩ := List.mem_map.mp ht
    have hlt := hidx i hi
    rw [List.getD_eq_getElem?_getD, List.getElem?_eq_getElem hlt]
    exact hts _ (List.getElem_mem hlt)

/-! ## fallback and plural selection -/

/-- FULL: without a bundle, or with a bundle that lacks the id, the source is rendered. -/
theorem missing_falls_back (R : List RPart) (id : UInt64) :
    evalMsg ρ ν none id R = some (renderSource ρ ν R) ∧
    ∀ b : Bundle, b.message id = none → evalMsg ρ ν (some b) id R = some (renderSource ρ ν R) := by
  refine ⟨rfl, ?_⟩
  intro b h
  simp [evalMsg, h]

/-- FULL: a catalogue entry whose msgstrs are all empty (PO's "not translated yet") is not
    loaded into the bundle, so the message renders its source text. -/
theorem untranslated_falls_back (R : List RPart) (id : UInt64) (varName : Bytes) (msgstrs : List Bytes)
    (h : ∀ s ∈ msgstrs, s = []) :
    evalMsg ρ ν (some (poBundle id varName msgstrs sel)) id R = some (renderSource ρ ν R) := by
  have hu : untranslated msgstrs = true := by
    simp only [untranslated, List.all_eq_true]
    intro s hs; simp [h s hs]
  simp [evalMsg, poBundle, loadEntry, hu]

/-- … and a translated entry is used as `newMessage` builds it -/
theorem translated_entry_used (R : List RPart) (id : UInt64) (varName : Bytes) (msgstrs : List Bytes)
    (h : ∃ s ∈ msgstrs, s ≠ []) :
    evalMsg ρ ν (some (poBundle id varName msgstrs sel)) id R =
      renderTranslated ρ ν sel R (newMessage varName msgstrs) := by
  have hu : untranslated msgstrs = false := by
    obtain ⟨s, hs, hne⟩ := h
    simp only [untranslated, List.all_eq_false]
    exact ⟨s, hs, by cases s <;> simp_all⟩
  simp [evalMsg, poBundle, loadEntry, hu]

theorem renderTCase_eq (R : List RPart) : ∀ (cs : List (List TPart)) (n : Nat),
    renderTCase ρ ν sel R cs n = if h : n < cs.length then renderTs ρ ν sel R cs[n] else none
  | [], n => by simp [renderTCase]
  | c :: cs, 0 => by simp [renderTCase]
  | c :: cs, n + 1 => by
    simp only [renderTCase, renderTCase_eq R cs n, List.length_cons, Nat.add_lt_add_iff_right, List.getElem_cons_succ]

/-- FULL: the case rendered for a `PluralPart` is `cases[sel (ν plural)]` … -/
theorem plural_pick (R : List RPart) (v s : Bytes) (cs : List (List TPart))
    (hnode : findPluralNode v R = some s) (h0 : 0 ≤ sel (ν s)) (hlt : (sel (ν s)).toNat < cs.length) :
    renderTranslated ρ ν sel R [.plural v cs] =
      (renderTranslated ρ ν sel R (cs[(sel (ν s)).toNat])).map fun x => x ++ [] := by
  have hneg : ¬ (sel (ν s) < 0) := by omega
  simp only [renderTranslated, renderTs, renderT, hnode, hneg, if_false, renderTCase_eq, hlt, dif_pos]
  cases renderTs ρ ν sel R cs[(sel (ν s)).toNat] <;> simp

/-- … and an index outside the translation's cases (or a plural the message does not have)
    is an error — never a wrong case. -/
theorem plural_out_of_range (R : List RPart) (v s : Bytes) (cs : List (List TPart))
    (hnode : findPluralNode v R = some s) (h : sel (ν s) < 0 ∨ cs.length ≤ (sel (ν s)).toNat) :
    renderTranslated ρ ν sel R [.plural v cs] = none := by
  simp only [renderTranslated, renderTs, renderT, hnode, renderTCase_eq]
  by_cases hneg : sel (ν s) < 0
  · simp [hneg]
  · have : ¬ ((sel (ν s)).toNat < cs.length) := by
      rcases h with h | h
      · exact absurd h hneg
      · omega
    simp [hneg, this]

theorem plural_unknown_var (R : List RPart) (v : Bytes) (cs : List (List TPart))
    (hnode : findPluralNode v R = none) : renderTranslated ρ ν sel R [.plural v cs] = none := by
  simp [renderTranslated, renderTs, renderT, hnode]

/-! ## non-vacuity and the need for the guard -/

section examples

/-- a test environment: a placeholder renders as its source text between `<` `>` -/
def ρ₀ (s : Bytes) : Bytes := 60 :: s ++ [62]
def sel₂ (n : Int) : Int := if n == 1 then 0 else 1

/-- `Hi {$a}{$b.a}{$a}` (base names A, A, A; names A_1, A_2, A_1) -/
def body₁ : List Part := [.text [72, 105, 32], .ph [65] [36, 97], .ph [65] [36, 98, 46, 97], .ph [65] [36, 97]]

example : msgid (rbody Orders.id body₁) =
    some [72, 105, 32, 123, 65, 95, 49, 125, 123, 65, 95, 50, 125, 123, 65, 95, 49, 125] := by decide

/-- the identity translation renders what the source renders … -/
example : renderTranslated ρ₀ (fun _ => 0) sel₂ (rbody Orders.id body₁)
      (newMessage [] [(msgid (rbody Orders.id body₁)).getD []])
    = some (renderSource ρ₀ (fun _ => 0) (rbody Orders.id body₁)) := by decide

/-- … and the translation `{A_2} {A_1}` renders `$b.a`'s value, a space, `$a`'s value. -/
example : renderTranslated ρ₀ (fun _ => 0) sel₂ (rbody Orders.id body₁)
      (newMessage [] [[123, 65, 95, 50, 125, 32, 123, 65, 95, 49, 125]])
    = some (ρ₀ [36, 98, 46, 97] ++ [32] ++ ρ₀ [36, 97]) := by decide

/-- `{plural $n}{case 1}one {$n}{default}{$n} many{/plural}`: both plural values, two-form selector -/
def body₂ : List Part := [.plural [78] [112] [(1, [.text [111, 110, 101, 32], .ph [78] [36, 110]])]
  [.ph [78] [36, 110], .text [32, 109, 97, 110, 121]]]

example : ∀ v ∈ [0, 1, 2, 7], renderTranslated ρ₀ (fun _ => v) sel₂ (rbody Orders.id body₂)
      (newMessage [78, 95, 49] [(msgid (rbody Orders.id body₂)).getD [], (msgidPlural (rbody Orders.id body₂)).getD []])
    = some (renderSource ρ₀ (fun _ => v) (rbody Orders.id body₂)) := by decide

/-- a three-form selector on the two-form catalogue: index 2 is out of range ⇒ error -/
example : renderTranslated ρ₀ (fun _ => 5) (fun n => if n == 1 then 0 else if n < 5 then 1 else 2) (rbody Orders.id body₂)
      (newMessage [78, 95, 49] [[97], [98]]) = none := by decide

/-- THE GUARD IS NEEDED.  `{msg desc=""}{lb}FOO{rb}{$foo}{/msg}`: the text `{FOO}` followed by
    the placeholder FOO.  The msgid is `{FOO}{FOO}`; `Parts` reads the text as a second
    placeholder, and the identity translation renders `$foo` twice instead of `{FOO}` + `$foo`. -/
def body₃ : List Part := [.text [123, 70, 79, 79, 125], .ph [70, 79, 79] [36, 102, 111, 111]]

example : msgid (rbody Orders.id body₃) = some [123, 70, 79, 79, 125, 123, 70, 79, 79, 125] := by decide
/-- `Validate` rejects it (it is not PO-representable), and accepts `body₁` -/
example : validate (rbody Orders.id body₃) = false ∧ validate (rbody Orders.id body₁) = true
    ∧ validate (rbody Orders.id body₂) = true := by decide
/-- an untranslated entry (`msgstr ""`) falls back to the source -/
example : evalMsg ρ₀ (fun _ => 0) (some (poBundle 7 [] [[]] sel₂)) 7 (rbody Orders.id body₁)
    = some (renderSource ρ₀ (fun _ => 0) (rbody Orders.id body₁)) := by decide
example : renderSource ρ₀ (fun _ => 0) (rbody Orders.id body₃) = [123, 70, 79, 79, 125] ++ ρ₀ [36, 102, 111, 111] := by decide
example : renderTranslated ρ₀ (fun _ => 0) sel₂ (rbody Orders.id body₃)
      (newMessage [] [(msgid (rbody Orders.id body₃)).getD []])
    = some (ρ₀ [36, 102, 111, 111] ++ ρ₀ [36, 102, 111, 111]) := by decide

end examples

end SoyVerif.Props.C11
