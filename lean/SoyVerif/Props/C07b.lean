/-
  C07 (last sentence) — rendering an accepted template never looks up a name that nothing binds.

  The checker model (Model/Check.lean, `check`; Props/C07: `check_sound` gives the declarative rules of
  Spec/Valid.lean) is joined here with the interpreter model (Model/Eval.lean).

  * `misses heap ctx k` is the branch of `scope.lookup` (soyhtml/scope.go) that falls through every frame,
    calls `verifUnbound(k)` and returns `data.Undefined{}` — in the model, the `[]` branch of
    `Eval.lookup` (`lookup_of_misses`, `misses_eq_false_iff`).

  * `SafeCmd … c ctx st` (and `SafeBody`, `SafeCmds`, `SafeConds`, `SafeCases`, `SafeParams`, `SafeParts`, …)
    says: along THE execution of `c` from `(ctx, st)` — every successor state is the one the model computes:
    `execCmd`, `evalIn`, `set`, `push`, `enter`, … — every expression the walk evaluates has all its variable
    references (`exprKeys`, except `$ij` and the names in the exemption set `X`) bound in the scope it is
    evaluated in.  Nothing in Model/Eval is instrumented: the predicates follow the clauses of `execCmd` one
    by one and put `HitExprs` where the clause calls `evalIn` / `evalList` / `matchCase` / `evalPrint`
    (expression evaluation changes neither the scope nor the heap, `evalIn` only advances `next`; so the
    keys of one command's own expressions are stated at the heap the command starts from or — where a {let},
    a param or a loop variable has been bound in between — at the state the model is in at that point).

  * `render_never_misses`: if `check` accepts the registry, then for every template `t` of it,
    entered on a scope that binds every declared param of `t` outside the exemption set, `SafeTmpl` holds
    at every call depth, where the exemption set of an invocation is

        - entered by `execute` or by a {call} WITHOUT data attribute:
            the OPTIONAL params of the template that the entry scope does not bind
            (a {call} without data passes every required param: checker rule R5);
        - entered by a {call} with data="all" or data="$e":
            the declared params of the callee (the checker does not look into data).

    Names bound by {let} / {foreach} / {for} are never exempt, in any template, however it was entered.

  * the loop functions: `index($x)` / `isFirst($x)` look up `x.index`, `isLast($x)` also `x.lastIndex`
    (`applyLoopFunc`, on the key of the first argument: `helperKeys`).  With the checker rule R_loopfn
    (`Spec.LoopArgOk`, /repo e0343b6) `x` is the variable of an enclosing loop, and `forLoop` binds the
    two helpers with it in one frame (`Inv.helpers`): these lookups are part of every expression position
    of the Safe predicates (`HitExprs` = `HitKeys` ∧ `HitHelpers`) and never exempt.
    `execute_never_misses`: for `execute g name data` with `data` binding every declared param of
    the entry template (optional ones too) the exemption set of the entry template is empty.
    `unpassed_optional_param_misses` (example): an optional param the caller did not pass does miss — the
    exemption is needed.

  {msg} through a message bundle: `SafeCmd` of a {msg} follows `evalMsg` — without a bundle, or without a
  translation of the message, the walk of its body; else `evalMsgParts` (`SafeMParts`): a placeholder part walks
  the SOURCE placeholder of that name in the message's own scope (the same expressions, the same scope — the
  checker made every placeholder safe there, `safePhAll_rel`), a plural part evaluates the value expression of
  the source {plural} of that variable (`findPlural_ok`); a translation naming a placeholder or a plural
  variable the message does not have is an ERROR of the render, not a miss.  No hypothesis about `g.msgs`.
-/
import SoyVerif.Props.C07
import SoyVerif.Props.C02
import SoyVerif.Lemmas.ExecRefine

namespace SoyVerif.Props.C07b
open SoyVerif SoyVerif.Model SoyVerif.Model.Eval SoyVerif.Spec
open SoyVerif.Props.C02 (ScopeOk)
open SoyVerif.Refine (find_insert heapGet_set)

/-! ### the miss branch of `scope.lookup` -/

/-- `scope.lookup(k)` finds `k` in no frame: `verifUnbound(k); return data.Undefined{}` -/
def misses (heap : List Cell) : Scope → Bytes → Bool
  | [], _ => true
  | f :: r, k =>
    match Frame.find (heapGet heap f.ref) k with
    | some _ => false
    | none => misses heap r k

/-- the miss branch is the `[]` branch of the model's `lookup` -/
theorem lookup_of_misses (heap : List Cell) : ∀ (ctx : Scope) (k : Bytes), misses heap ctx k = true →
    lookup heap ctx k = .undefined
  | [], _, _ => rfl
  | f :: r, k, h => by
    simp only [misses, lookup] at h ⊢
    split at h
    · cases h
    · rename_i hf; simp only [hf]; exact lookup_of_misses heap r k h

theorem misses_eq_false_iff (heap : List Cell) : ∀ (ctx : Scope) (k : Bytes),
    misses heap ctx k = false ↔ ∃ f ∈ ctx, (Frame.find (heapGet heap f.ref) k).isSome = true
  | [], k => by simp [misses]
  | f :: r, k => by
    simp only [misses, List.mem_cons, exists_eq_or_imp]
    cases hf : Frame.find (heapGet heap f.ref) k with
    | some v => simp
    | none => simp [misses_eq_false_iff heap r k]

/-- frames the change cannot write keep their keys -/
theorem misses_ext_W {W : Nat → Prop} {st st' : St} (e : Ext W st st') :
    ∀ (ctx : Scope), ScopeOk ctx st → (∀ f ∈ ctx, ¬ W f.ref) → ∀ k, misses st'.heap ctx k = misses st.heap ctx k := by
  intro ctx
  induction ctx with
  | nil => intro _ _ k; rfl
  | cons f r ih =>
    intro hok hw k
    have hf : f.ref < st.heap.length := hok f List.mem_cons_self
    have hc : st.heap[f.ref]? = some st.heap[f.ref] := List.getElem?_eq_getElem hf
    obtain ⟨c', h1, _, h3⟩ := e.keep f.ref _ hc
    have hg : heapGet st'.heap f.ref = heapGet st.heap f.ref := by
      simp only [heapGet, h1, hc]; exact h3 (hw f List.mem_cons_self)
    simp only [misses, hg, ih (fun x hx => hok x (List.mem_cons_of_mem _ hx)) (fun x hx => hw x (List.mem_cons_of_mem _ hx)) k]

theorem misses_heap_eq {st st' : St} (h : st'.heap = st.heap) (ctx : Scope) (k : Bytes) :
    misses st'.heap ctx k = misses st.heap ctx k := by rw [h]

/-- `set name v` on the top frame binds `name` and unbinds nothing -/
theorem misses_set {ctx : Scope} {st st2 : St} {name : Bytes} {v : Value} (hown : Own ctx st)
    (h : set ctx st name v = some st2) (k : Bytes) :
    misses st2.heap ctx k = if k == name then false else misses st.heap ctx k := by
  obtain ⟨f, r, c, hctx, hc, _⟩ := hown
  subst hctx
  have hlen : f.ref < st.heap.length := (List.getElem?_eq_some_iff.mp hc).1
  simp only [SoyVerif.Model.Eval.set] at h
  cases hs : heapSet st.heap f.ref name v with
  | mk h' ro =>
    rw [hs] at h
    simp only [Option.some.injEq] at h
    subst h
    have hget : ∀ j, heapGet h' j = if j = f.ref then Value.insert (heapGet st.heap f.ref) name v else heapGet st.heap j := by
      intro j
      have := heapGet_set st.heap f.ref name v j hlen
      rw [hs] at this
      exact this
    have other : ∀ (c : Scope), (k == name) = false → misses h' c k = misses st.heap c k := by
      intro c hk
      induction c with
      | nil => rfl
      | cons g rest ih =>
        simp only [misses, hget g.ref]
        by_cases hg : g.ref = f.ref
        · simp only [hg, if_true, find_insert, hk, Bool.false_eq_true, if_false, ih]
        · simp only [hg, if_false, ih]
    by_cases hk : (k == name) = true
    · simp only [hk, if_true, misses, hget f.ref, find_insert]
    · have hk' : (k == name) = false := by simpa using hk
      simp only [hk', Bool.false_eq_true, if_false]
      exact other (f :: r) hk'

/-- a freshly pushed frame binds nothing and hides nothing -/
theorem misses_push (ctx : Scope) (st : St) (hok : ScopeOk ctx st) (k : Bytes) :
    misses (push ctx st).2.heap (push ctx st).1 k = misses st.heap ctx k := by
  obtain ⟨_, _, hext, _⟩ := push_spec ctx st
  have h1 : heapGet (push ctx st).2.heap st.heap.length = [] := by simp [push, heapGet]
  show misses (push ctx st).2.heap (⟨st.heap.length, false⟩ :: ctx) k = _
  simp only [misses, h1, Frame.find]
  exact misses_ext_W (hext (fun _ => False)) ctx hok (fun _ _ h => h) k

/-! ### "every expression the walk evaluates hits": the clauses of `execCmd`, one by one -/

section
variable (g : GEnv) (esc : Bool) (call : Registry.Tmpl → Run)
  (scall : Registry.Tmpl → Bool → Scope → St → Prop) (X : Bytes → Bool)

/-- every variable reference among `ks` — other than `$ij` and the exempt names — is bound in `ctx` -/
def HitKeys (heap : List Cell) (ctx : Scope) (ks : List Bytes) : Prop :=
  ∀ k ∈ ks, k ≠ ijName → X k = false → misses heap ctx k = false

/-- what `applyLoopFunc` is given: the key of the first argument, when that is a reference (`evalE`) -/
def loopKeyOf : ExprList → Option Bytes
  | .cons (.dataRef _ key _) _ => some key
  | _ => none

/-- the names the loop functions look up (funcs.go): `index` and `isFirst` the loop's `<x>.index`,
    `isLast` also `<x>.lastIndex` -/
def helperKeys : List LoopOcc → List Bytes
  | [] => []
  | (name, args) :: r =>
    (match loopKeyOf args with
     | none => []
     | some k =>
       if name == fIsLast then [k ++ sIndexSuffix, k ++ sLastIndexSuffix] else [k ++ sIndexSuffix])
      ++ helperKeys r

/-- every helper name that the loop functions among `ls` look up is bound in `ctx` (no exemptions) -/
def HitHelpers (heap : List Cell) (ctx : Scope) (ls : List LoopOcc) : Prop :=
  ∀ k ∈ helperKeys ls, misses heap ctx k = false

/-- an expression position: its references `ks` and the helper names of its loop functions `ls` -/
def HitExprs (heap : List Cell) (ctx : Scope) (ks : List Bytes) (ls : List LoopOcc) : Prop :=
  HitKeys X heap ctx ks ∧ HitHelpers heap ctx ls

/-- walkBlock: the body runs on the pushed scope -/
def SafeWalk (sbody : Scope → St → Prop) (ctx : Scope) (st : St) : Prop :=
  sbody (push ctx st).1 (push ctx st).2

/-- renderBlock: walkBlock on a buffer -/
def SafeRender (sbody : Scope → St → Prop) (ctx : Scope) (st : St) : Prop :=
  SafeWalk sbody ctx { st with out := [] }

/-- `forLoop`: each iteration on a frame of its own that binds the loop variable and its helpers -/
def SafeLoop (body : Run) (sbody : Scope → St → Prop) (var : Bytes) (last : Int) : List Value → Nat → Scope → St → Prop
  | [], _, _, _ => True
  | item :: rest, i, ctx, st =>
    match set (push ctx st).1 (push ctx st).2 (var ++ sLastIndexSuffix) (.int (Int64.ofInt last)) with
    | none => True
    | some st2 =>
      match set (push ctx st).1 st2 var item with
      | none => True
      | some st3 =>
        match set (push ctx st).1 st3 (var ++ sIndexSuffix) (.int (Int64.ofInt i)) with
        | none => True
        | some st4 =>
          sbody (push ctx st).1 st4 ∧
          ((body (push ctx st).1 st4).cls = .ok →
            match pop (body (push ctx st).1 st4).ctx with
            | none => True
            | some ctx2 => SafeLoop body sbody var last rest (i + 1) ctx2 (body (push ctx st).1 st4).st)

/-- the remembered {default} of a switch, as `pickDefault` -/
def pickSafe (values : List Expr) (sbody : Scope → St → Prop) (sd : Option (Scope → St → Prop)) :
    Option (Scope → St → Prop) :=
  if values.isEmpty && sd.isNone then some sbody else sd

mutual
/-- `evalMsgParts` (a {msg} rendered through a translation): raw text; a placeholder part walks the source
    placeholder of that name (`phs`: the runs, `sphs`: what is required of them; no such placeholder is an
    error, not a miss); a plural part evaluates the value of the plural variable and takes the form the
    bundle selects -/
def SafeMParts (phs : List (Nat × Bytes × Run)) (sphs : List (Nat × Bytes × (Scope → St → Prop))) (body : MsgParts) :
    MParts → Scope → St → Prop
  | .nil, _, _ => True
  | .cons (.raw t) rest, ctx, st => SafeMParts phs sphs body rest ctx (write st t)
  | .cons (.ph name) rest, ctx, st =>
    match pickPh name phs none with
    | none => True
    | some run =>
      (∃ s, Spec.Eval.pickPhS name sphs none = some s ∧ s ctx st) ∧
      ((run ctx st).cls = .ok → SafeMParts phs sphs body rest (run ctx st).ctx (run ctx st).st)
  | .cons (.plural vn cases) rest, ctx, st =>
    match findPlural body vn with
    | none => True
    | some ve =>
      HitExprs X st.heap ctx (exprKeys ve) (exprLoops ve) ∧
      match evalIn g ve ctx st with
      | some (.int i, st1) =>
        match g.msgs with
        | none => True
        | some b =>
          if b.pluralCase i.toInt < 0 then True
          else
            SafeMCases phs sphs body cases (b.pluralCase i.toInt).toNat ctx st1 ∧
            ((evalMCases g phs body cases (b.pluralCase i.toInt).toNat ctx st1).cls = .ok →
              SafeMParts phs sphs body rest (evalMCases g phs body cases (b.pluralCase i.toInt).toNat ctx st1).ctx
                (evalMCases g phs body cases (b.pluralCase i.toInt).toNat ctx st1).st)
      | _ => True
/-- `part.Cases[pluralCaseIndex]` -/
def SafeMCases (phs : List (Nat × Bytes × Run)) (sphs : List (Nat × Bytes × (Scope → St → Prop))) (body : MsgParts) :
    MCases → Nat → Scope → St → Prop
  | .nil, _, _, _ => True
  | .cons parts _, 0, ctx, st => SafeMParts phs sphs body parts ctx st
  | .cons _ rest, n + 1, ctx, st => SafeMCases phs sphs body rest n ctx st
end

mutual
/-- `execCmd` -/
def SafeCmd : Cmd → Scope → St → Prop
  | .rawText .., _, _ => True
  -- evalPrint: the argument, then the arguments of the directives left to right
  | .print _ arg dirs, ctx, st => HitExprs X st.heap ctx (exprKeys arg ++ dirsKeys dirs) (exprLoops arg ++ dirsLoops dirs)
  -- evalMsg: the body is a block of its own; without a bundle, or without a translation of this message, its
  -- parts are walked, else the translation's parts are (`evalMsgParts`)
  | .msg _ id _ _ _ body, ctx, st =>
    SafeWalk (fun ctx1 st1 =>
      match g.msgs with
      | none => SafeParts body ctx1 st1
      | some b =>
        match b.message id with
        | none => SafeParts body ctx1 st1
        | some parts => SafeMParts g X (phAll g esc call body 0) (SafePhAll body 0) body parts ctx1 st1) ctx st
  | .css _ e _, ctx, st => HitExprs X st.heap ctx (optKeys e) (optLoops e)
  | .debugger _, _, _ => True
  | .log _ body, ctx, st => SafeRender (SafeBody body) ctx st
  | .ifc _ conds, ctx, st => SafeConds conds ctx st
  | .forc _ var list body ifEmpty, ctx, st =>
    HitExprs X st.heap ctx (exprKeys list) (exprLoops list) ∧
    match evalIn g list ctx st with
    | some (.list _ xs, st1) =>
      if xs.isEmpty then
        match ifEmpty with
        | some b => SafeWalk (SafeBody b) ctx st1
        | none => True
      else SafeLoop (execBody g esc call body) (SafeBody body) var ((xs.length : Int) - 1) xs 0 ctx st1
    | _ => True
  | .switch _ value cases, ctx, st =>
    HitExprs X st.heap ctx (exprKeys value) (exprLoops value) ∧
    match evalIn g value ctx st with
    | none => True
    | some (sv, st1) => SafeCases cases none sv ctx st1
  -- evalCall: the data expression, the params (in the caller's scope), then the callee on the entered scope
  | .call _ name allData data params, ctx, st =>
    match Registry.lookup g.reg name with
    | none => True
    | some callee =>
      HitExprs X st.heap ctx (optKeys data) (optLoops data) ∧
      match callData g allData data ctx st with
      | none => True
      | some (cd, st1) =>
        SafeParams params cd ctx st1 ∧
        ((execParams g esc call params cd ctx st1).cls = .ok →
          match enter cd (execParams g esc call params cd ctx st1).st with
          | none => True
          | some (cctx, st2) => scall callee (allData || data.isSome) cctx st2)
  | .letValue _ _ e, ctx, st => HitExprs X st.heap ctx (exprKeys e) (exprLoops e)
  | .letContent _ _ body, ctx, st => SafeRender (SafeBody body) ctx st
  | .headerParam .., _, _ => True
  | .namespace .., _, _ => True
  | .template .., _, _ => True
  | .soyDoc .., _, _ => True
/-- `execBody` -/
def SafeBody : Block → Scope → St → Prop
  | .mk p cmds, ctx, st => SafeCmds cmds ctx (atNode st p)
/-- `execCmds`: the next command starts where the model's `execCmd` ended -/
def SafeCmds : CmdList → Scope → St → Prop
  | .nil, _, _ => True
  | .cons c rest, ctx, st =>
    SafeCmd c ctx (atNode st (cmdPos c)) ∧
    ((execCmd g esc call c ctx (atNode st (cmdPos c))).cls = .ok →
      SafeCmds rest (execCmd g esc call c ctx (atNode st (cmdPos c))).ctx (execCmd g esc call c ctx (atNode st (cmdPos c))).st)
/-- `execConds` -/
def SafeConds : CondList → Scope → St → Prop
  | .nil, _, _ => True
  | .cons _ cond body rest, ctx, st =>
    match cond with
    | none => SafeWalk (SafeBody body) ctx st
    | some c =>
      HitExprs X st.heap ctx (exprKeys c) (exprLoops c) ∧
      match evalIn g c ctx st with
      | none => True
      | some (v, st1) => if v.truthy then SafeWalk (SafeBody body) ctx st1 else SafeConds rest ctx st1
/-- `execCases` (with the remembered default) -/
def SafeCases : CaseList → Option (Scope → St → Prop) → Value → Scope → St → Prop
  | .nil, sd, _, ctx, st =>
    match sd with
    | some s => s ctx st
    | none => True
  | .cons _ values body rest, sd, sv, ctx, st =>
    HitExprs X st.heap ctx (listKeys values) (listLoops values) ∧
    match matchCase g ctx sv values st with
    | none => True
    | some (true, st1) => SafeWalk (SafeBody body) ctx st1
    | some (false, st1) => SafeCases rest (pickSafe values (SafeWalk (SafeBody body)) sd) sv ctx st1
/-- `execParams`: values evaluated / content rendered in the CALLER's scope -/
def SafeParams : ParamList → Scope → Scope → St → Prop
  | .nil, _, _, _ => True
  | .value _ key e rest, cd, ctx, st =>
    HitExprs X st.heap ctx (exprKeys e) (exprLoops e) ∧
    match evalIn g e ctx st with
    | none => True
    | some (v, st1) =>
      match set cd st1 key v with
      | none => True
      | some st2 => SafeParams rest cd ctx st2
  | .content _ key body rest, cd, ctx, st =>
    SafeRender (SafeBody body) ctx st ∧
    ((renderBlockOf (execBody g esc call body) ctx st).1.cls = .ok →
      match set cd (renderBlockOf (execBody g esc call body) ctx st).1.st key
          (.str (renderBlockOf (execBody g esc call body) ctx st).2) with
      | none => True
      | some st2 => SafeParams rest cd (renderBlockOf (execBody g esc call body) ctx st).1.ctx st2)
/-- `walkMsgBody` -/
def SafeParts : MsgParts → Scope → St → Prop
  | .nil, _, _ => True
  | .text p t rest, ctx, st => SafeParts rest ctx (write (atNode st p) t)
  | .ph _ _ body rest, ctx, st =>
    SafePh body ctx st ∧
    ((execPh g esc call body ctx st).cls = .ok →
      SafeParts rest (execPh g esc call body ctx st).ctx (execPh g esc call body ctx st).st)
  | .plural _ _ value cases _ dflt rest, ctx, st =>
    HitExprs X st.heap ctx (exprKeys value) (exprLoops value) ∧
    match evalIn g value ctx st with
    | some (.int i, st1) =>
      SafePl cases (SafeParts dflt) i.toInt ctx st1 ∧
      ((walkPluralCases g esc call cases (walkMsgBody g esc call dflt) i.toInt ctx st1).cls = .ok →
        SafeParts rest (walkPluralCases g esc call cases (walkMsgBody g esc call dflt) i.toInt ctx st1).ctx
          (walkPluralCases g esc call cases (walkMsgBody g esc call dflt) i.toInt ctx st1).st)
    | _ => True
/-- `walkPluralCases` -/
def SafePl : PluralCases → (Scope → St → Prop) → Int → Scope → St → Prop
  | .nil, sd, _, ctx, st => sd ctx st
  | .cons _ v _ body rest, sd, i, ctx, st =>
    if i == v then SafeParts body ctx st else SafePl rest sd i ctx st
/-- `execPh` -/
def SafePh : MsgPhBody → Scope → St → Prop
  | .htmlTag .., _, _ => True
  | .cmd c, ctx, st => SafeCmd c ctx (atNode st (cmdPos c))
/-- `phAll`: what is required of each placeholder run -/
def SafePhAll : MsgParts → Nat → List (Nat × Bytes × (Scope → St → Prop))
  | .nil, _ => []
  | .text _ _ rest, d => SafePhAll rest d
  | .ph _ name body rest, d => (d, name, SafePh body) :: SafePhAll rest d
  | .plural _ _ _ cases _ dflt rest, d => SafePhAllCases cases (d + 3) ++ SafePhAll dflt (d + 2) ++ SafePhAll rest d
def SafePhAllCases : PluralCases → Nat → List (Nat × Bytes × (Scope → St → Prop))
  | .nil, _ => []
  | .cons _ _ _ body rest, d => SafePhAll body d ++ SafePhAllCases rest d
end
end

/-! ### template invocations -/

/-- the names an invocation of `t` may miss: entered with data="all" / data="$e", its declared params (the
    checker does not look into data); otherwise its OPTIONAL params that the entry scope does not bind -/
def exemptOf (t : Registry.Tmpl) (viaData : Bool) (ctx : Scope) (st : St) (k : Bytes) : Bool :=
  if viaData then t.params.any (fun p => p.name == k)
  else t.params.any (fun p => p.optional && p.name == k) && misses st.heap ctx k

/-- `runTmpl`: the body of the template, callees at every depth the fuel allows -/
def SafeTmpl (g : GEnv) : Nat → Registry.Tmpl → Bool → Scope → St → Prop
  | 0, _, _, _, _ => True
  | fuel + 1, t, viaData, ctx, st =>
    SafeBody g (escapeOf t) (runTmpl g fuel) (SafeTmpl g fuel) (exemptOf t viaData ctx st) t.body ctx (atNode st t.pos)

/-! ### the invariant: what the checker's environment holds is bound in the scope -/

/-- every variable of the lexical environment `env` and every non-exempt declared param is bound -/
structure Inv (X : Bytes → Bool) (params : List Bytes) (env : Env) (ctx : Scope) (st : St) : Prop where
  vars : ∀ b ∈ env, misses st.heap ctx b.name = false
  pars : ∀ p ∈ params, X p = false → misses st.heap ctx p = false
  /-- a loop variable comes with its helpers `<x>.index`, `<x>.lastIndex` (`forLoop` binds the three in one frame) -/
  helpers : ∀ b ∈ env, b.isLet = false →
    misses st.heap ctx (b.name ++ sIndexSuffix) = false ∧ misses st.heap ctx (b.name ++ sLastIndexSuffix) = false

section
variable {X : Bytes → Bool} {params : List Bytes}

/-- R1 (`KeysBound`) + the invariant: the lookups hit -/
theorem hitKeys_of_bound {env : Env} {ctx : Scope} {st : St} {ks : List Bytes}
    (hb : KeysBound params env ks) (hi : Inv X params env ctx st) : HitKeys X st.heap ctx ks := by
  intro k hk hij hx
  obtain ⟨t, ht⟩ := hb k hk
  cases ht with
  | ij h => exact absurd h hij
  | var i b _ hb' hn _ => rw [← hn]; exact hi.vars b (List.mem_of_getElem? hb')
  | param _ _ hp => exact hi.pars k hp hx

/-- an occurrence the checker accepted (R_loopfn) is applied to what the interpreter takes the key of -/
theorem loopKeyOf_of_loopArg {args : ExprList} {x : Bytes} (h : Check.loopArg args = some x) :
    loopKeyOf args = some x := by
  unfold Check.loopArg at h
  split at h
  · simpa [loopKeyOf] using h
  · cases h

/-- R_loopfn (`LoopsOk`) + the invariant: the helper names are bound -/
theorem hitHelpers_of_ok {env : Env} {ctx : Scope} {st : St} : ∀ {ls : List LoopOcc},
    LoopsOk env ls → Inv X params env ctx st → HitHelpers st.heap ctx ls
  | [], _, _ => by intro k hk; simp [helperKeys] at hk
  | (name, args) :: r, hl, hi => by
    intro k hk
    simp only [helperKeys, List.mem_append] at hk
    rcases hk with hk | hk
    · obtain ⟨x, hx, b, hb, hn, hlet⟩ := hl (name, args) List.mem_cons_self
      rw [loopKeyOf_of_loopArg hx] at hk
      have hh := hi.helpers b hb hlet
      rw [hn] at hh
      simp only at hk
      split at hk
      · simp only [List.mem_cons, List.not_mem_nil, or_false] at hk
        rcases hk with rfl | rfl
        · exact hh.1
        · exact hh.2
      · simp only [List.mem_singleton] at hk
        rw [hk]; exact hh.1
    · exact hitHelpers_of_ok (ls := r) (fun o ho => hl o (List.mem_cons_of_mem _ ho)) hi k hk

/-- R1 and R_loopfn (`ExprsOk`) + the invariant: every lookup of the expression position hits -/
theorem hit_of_bound {env : Env} {ctx : Scope} {st : St} {ks : List Bytes} {ls : List LoopOcc}
    (hb : ExprsOk params env ks ls) (hi : Inv X params env ctx st) : HitExprs X st.heap ctx ks ls :=
  ⟨hitKeys_of_bound hb.1 hi, hitHelpers_of_ok hb.2 hi⟩

theorem Inv.of_ext {env : Env} {ctx : Scope} {st st' : St} {W : Nat → Prop} (hi : Inv X params env ctx st)
    (e : Ext W st st') (hok : ScopeOk ctx st) (hW : ∀ f ∈ ctx, ¬ W f.ref) : Inv X params env ctx st' :=
  ⟨fun b hb => by rw [misses_ext_W e ctx hok hW]; exact hi.vars b hb,
   fun p hp hx => by rw [misses_ext_W e ctx hok hW]; exact hi.pars p hp hx,
   fun b hb hl => by rw [misses_ext_W e ctx hok hW, misses_ext_W e ctx hok hW]; exact hi.helpers b hb hl⟩

theorem Inv.of_heap {env : Env} {ctx : Scope} {st st' : St} (hi : Inv X params env ctx st)
    (h : st'.heap = st.heap) : Inv X params env ctx st' :=
  ⟨fun b hb => by rw [h]; exact hi.vars b hb, fun p hp hx => by rw [h]; exact hi.pars p hp hx,
   fun b hb hl => by rw [h]; exact hi.helpers b hb hl⟩

theorem Inv.weaken {env env' : Env} {ctx : Scope} {st : St} (hi : Inv X params env ctx st)
    (h : ∀ b ∈ env', b ∈ env) : Inv X params env' ctx st :=
  ⟨fun b hb => hi.vars b (h b hb), hi.pars, fun b hb hl => hi.helpers b (h b hb) hl⟩

theorem Inv.pushed {env : Env} {ctx : Scope} {st : St} (hi : Inv X params env ctx st) (hok : ScopeOk ctx st) :
    Inv X params env (push ctx st).1 (push ctx st).2 :=
  ⟨fun b hb => by rw [misses_push ctx st hok]; exact hi.vars b hb,
   fun p hp hx => by rw [misses_push ctx st hok]; exact hi.pars p hp hx,
   fun b hb hl => by rw [misses_push ctx st hok, misses_push ctx st hok]; exact hi.helpers b hb hl⟩

/-- a binding made in the top frame unbinds nothing -/
theorem misses_set_mono {ctx : Scope} {st st2 : St} {name : Bytes} {v : Value} (hown : Own ctx st)
    (hs : Eval.set ctx st name v = some st2) {k : Bytes} (h : misses st.heap ctx k = false) :
    misses st2.heap ctx k = false := by
  rw [misses_set hown hs]; split <;> simp [h]

/-- a binding made in the top frame: the environment grows by that name (as a {let}: a loop variable
    comes with its helpers, see `loop_safe`) -/
theorem Inv.set {env : Env} {ctx : Scope} {st st2 : St} {name : Bytes} {v : Value}
    (hi : Inv X params env ctx st) (hown : Own ctx st) (hs : Eval.set ctx st name v = some st2) :
    Inv X params (env ++ [{ name := name, isLet := true }]) ctx st2 := by
  refine ⟨fun b hb => ?_, fun p hp hx => ?_, fun b hb hl => ?_⟩
  rotate_right
  · rcases List.mem_append.mp hb with h | h
    · exact ⟨misses_set_mono hown hs (hi.helpers b h hl).1, misses_set_mono hown hs (hi.helpers b h hl).2⟩
    · simp only [List.mem_singleton] at h; subst h; cases hl
  · rw [misses_set hown hs]
    split
    · rfl
    · rcases List.mem_append.mp hb with h | h
      · exact hi.vars b h
      · simp only [List.mem_singleton] at h; subst h; rename_i hne; simp at hne
  · rw [misses_set hown hs]
    split
    · rfl
    · exact hi.pars p hp hx

theorem scopeOk_push {ctx : Scope} {st : St} (hok : ScopeOk ctx st) : ScopeOk (push ctx st).1 (push ctx st).2 := by
  intro f hf
  have hl : (push ctx st).2.heap.length = st.heap.length + 1 := by simp [push]
  rw [hl]
  have : (push ctx st).1 = ⟨st.heap.length, false⟩ :: ctx := rfl
  rw [this] at hf
  rcases List.mem_cons.mp hf with rfl | h
  · exact Nat.lt_succ_self _
  · exact Nat.lt_succ_of_lt (hok f h)

theorem scopeOk_ext {W : Nat → Prop} {ctx : Scope} {st st' : St} (hok : ScopeOk ctx st) (e : Ext W st st') :
    ScopeOk ctx st' := fun f hf => Nat.lt_of_lt_of_le (hok f hf) e.len

end

/-! ### the walk preserves the invariant -/

section
variable (g : GEnv) (esc : Bool) (call : Registry.Tmpl → Run) (hcall : ∀ t, GoodRun (call t))
  (scall : Registry.Tmpl → Bool → Scope → St → Prop) (X : Bytes → Bool) (params : List Bytes)

omit hcall in
/-- a block: its body runs on the pushed scope, where the invariant still holds -/
theorem walk_safe {sbody : Scope → St → Prop} {env : Env} {ctx : Scope} {st : St}
    (hb : ∀ ctx' st', Inv X params env ctx' st' → Own ctx' st' → ScopeOk ctx' st' → sbody ctx' st')
    (hi : Inv X params env ctx st) (hok : ScopeOk ctx st) : SafeWalk sbody ctx st :=
  hb _ _ (hi.pushed hok) (push_spec ctx st).2.1 (scopeOk_push hok)

omit hcall in
theorem render_safe {sbody : Scope → St → Prop} {env : Env} {ctx : Scope} {st : St}
    (hb : ∀ ctx' st', Inv X params env ctx' st' → Own ctx' st' → ScopeOk ctx' st' → sbody ctx' st')
    (hi : Inv X params env ctx st) (hok : ScopeOk ctx st) : SafeRender sbody ctx st :=
  walk_safe X params hb (hi.of_heap rfl) hok

omit hcall in
/-- the iterations of a loop: each on a frame that binds the loop variable -/
theorem loop_safe (body : Run) (hgb : GoodRun body) (sbody : Scope → St → Prop) (var : Bytes) (last : Int) (env : Env)
    (hb : ∀ ctx' st', Inv X params (env ++ [{ name := var, isLet := false }]) ctx' st' → Own ctx' st' → ScopeOk ctx' st' →
      sbody ctx' st') :
    ∀ (xs : List Value) (i : Nat) (ctx : Scope) (st : St), Inv X params env ctx st → Own ctx st → ScopeOk ctx st →
      SafeLoop body sbody var last xs i ctx st := by
  intro xs
  induction xs with
  | nil => intro i ctx st _ _ _; unfold SafeLoop; trivial
  | cons x rest ih =>
    intro i ctx st hi hown hok
    unfold SafeLoop
    obtain ⟨hctx1, hown1, hext1, _⟩ := push_spec ctx st
    have hi1 := hi.pushed hok
    have hok1 := scopeOk_push hok
    have htop : top (push ctx st).1 = st.heap.length := by rw [hctx1]; rfl
    have hne : ∀ f ∈ ctx, ¬ (f.ref = top (push ctx st).1) := by
      intro f hf e; have := hok f hf; rw [htop] at e; omega
    -- the caller's scope through the writes to the loop frame
    have hiC1 : Inv X params env ctx (push ctx st).2 := hi.of_ext (hext1 (fun _ => False)) hok (fun _ _ h => h)
    have hokC1 : ScopeOk ctx (push ctx st).2 := scopeOk_ext hok (hext1 (fun _ => False))
    have ownC1 : Own ctx (push ctx st).2 := hown.ext (hext1 (fun _ => False))
    clear hext1
    generalize hc1 : (push ctx st).1 = ctx1 at *
    generalize hs1 : (push ctx st).2 = st1 at *
    cases h2 : Eval.set ctx1 st1 (var ++ sLastIndexSuffix) (.int (Int64.ofInt last)) with
    | none => simp
    | some st2 =>
      simp only
      have e2 := set_ext hown1 h2
      have own2 := hown1.ext e2
      have hi2 := hi1.set hown1 h2
      cases h3 : Eval.set ctx1 st2 var x with
      | none => simp
      | some st3 =>
        simp only
        have e3 := set_ext own2 h3
        have own3 := own2.ext e3
        have hi3 := hi2.set own2 h3
        cases h4 : Eval.set ctx1 st3 (var ++ sIndexSuffix) (.int (Int64.ofInt i)) with
        | none => simp
        | some st4 =>
          simp only
          have e4 := set_ext own3 h4
          have own4 := own3.ext e4
          have hi4 := hi3.set own3 h4
          have hok4 : ScopeOk ctx1 st4 := scopeOk_ext (scopeOk_ext (scopeOk_ext hok1 e2) e3) e4
          have hiB : Inv X params (env ++ [{ name := var, isLet := false }]) ctx1 st4 := by
            have hvar := hi4.vars { name := var, isLet := true } (by simp)
            have hidx := hi4.vars { name := var ++ sIndexSuffix, isLet := true } (by simp)
            have hlast := hi4.vars { name := var ++ sLastIndexSuffix, isLet := true } (by simp)
            refine ⟨fun b hb' => ?_, hi4.pars, fun b hb' hl => ?_⟩
            · rcases List.mem_append.mp hb' with h | h
              · exact hi4.vars b (by simp [h])
              · simp only [List.mem_singleton] at h; subst h; exact hvar
            · rcases List.mem_append.mp hb' with h | h
              · exact hi4.helpers b (by simp [h]) hl
              · simp only [List.mem_singleton] at h; subst h; exact ⟨hidx, hlast⟩
          refine ⟨hb _ _ hiB own4 hok4, fun hcls => ?_⟩
          have hg := hgb ctx1 st4 own4
          rw [hg.ctx_eq hcls, hctx1]
          simp only [pop]
          -- back on the caller's scope
          have hiC2 := hiC1.of_ext e2 hokC1 hne
          have hokC2 := scopeOk_ext hokC1 e2
          have hiC3 := hiC2.of_ext e3 hokC2 hne
          have hokC3 := scopeOk_ext hokC2 e3
          have hiC4 := hiC3.of_ext e4 hokC3 hne
          have hokC4 := scopeOk_ext hokC3 e4
          have hiC5 := hiC4.of_ext hg.ext hokC4 hne
          have hokC5 := scopeOk_ext hokC4 hg.ext
          have ownC : Own ctx (body ctx1 st4).st := (((ownC1.ext e2).ext e3).ext e4).ext hg.ext
          rw [← hctx1]
          exact ih (i + 1) ctx _ hiC5 ownC hokC5

include hcall in
/-- after a command that ended ok: the scope is the same, the environment has grown by what the command
    declares ({let}), everything that was bound still is -/
theorem inv_after (c : Cmd) (env : Env) (ctx : Scope) (st : St) (hi : Inv X params env ctx st) (hown : Own ctx st)
    (hok : ScopeOk ctx st) (hcls : (execCmd g esc call c ctx st).cls = .ok) :
    (execCmd g esc call c ctx st).ctx = ctx ∧ Inv X params (env ++ decl c) ctx (execCmd g esc call c ctx st).st ∧
      Own ctx (execCmd g esc call c ctx st).st ∧ ScopeOk ctx (execCmd g esc call c ctx st).st := by
  have hg := execCmd_good g esc call hcall c ctx st hown
  refine ⟨hg.ctx_eq hcls, ?_, hown.ext hg.ext, scopeOk_ext hok hg.ext⟩
  have nonlet : decl c = [] → (∀ p n e, c ≠ .letValue p n e) → (∀ p n b, c ≠ .letContent p n b) →
      Inv X params (env ++ decl c) ctx (execCmd g esc call c ctx st).st := by
    intro hd hnl hnc
    rw [hd, List.append_nil]
    exact hi.of_ext (C02.block_cmd_scoped g esc call hcall c hnl hnc ctx st hown).ext hok (fun _ _ h => h)
  cases c
  case letValue p name e =>
    rw [execCmd] at hcls ⊢
    cases he : evalIn g e ctx st with
    | none => rw [he] at hcls; cases hcls
    | some r =>
      obtain ⟨v, st1⟩ := r
      rw [he] at hcls
      simp only at hcls ⊢
      have e1 := evalIn_ext (fun _ => False) he
      cases hs : Eval.set ctx st1 name v with
      | none => rw [hs] at hcls; simp at hcls
      | some st2 =>
        simp only [decl]
        exact (hi.of_ext e1 hok (fun _ _ h => h)).set (hown.ext e1) hs
  case letContent p name b =>
    rw [execCmd] at hcls ⊢
    have hgr := (renderBlockOf_good' (execBody_good g esc call hcall b) ctx st).1
    cases hc : (renderBlockOf (execBody g esc call b) ctx st).1.cls with
    | ok =>
      simp only [hc] at hcls ⊢
      have hctx := hgr.ctx_eq hc
      cases hs : Eval.set (renderBlockOf (execBody g esc call b) ctx st).1.ctx (renderBlockOf (execBody g esc call b) ctx st).1.st
          name (.str (renderBlockOf (execBody g esc call b) ctx st).2) with
      | none => rw [hs] at hcls; cases hcls
      | some st2 =>
        simp only [hs, decl]
        rw [hctx] at hs
        exact (hi.of_ext hgr.ext hok (fun _ _ h => h)).set (hown.ext hgr.ext) hs
    | err => simp [hc] at hcls
    | panic => simp [hc] at hcls
    | fuelOut => simp [hc] at hcls
  all_goals exact nonlet rfl (by intros; simp) (by intros; simp)

end

/-! ### calls -/

/-- the interpreter's callee is the checker's -/
theorem callee_toCheck : ∀ (reg : Registry.Reg) (name : Bytes) (t : Registry.Tmpl), Registry.lookup reg name = some t →
    Spec.callee (Registry.toCheck reg) name = some { name := t.name, params := t.params, body := t.body }
  | [], _, _, h => by simp [Registry.lookup] at h
  | t0 :: r, name, t, h => by
    simp only [Registry.lookup, List.find?] at h
    simp only [Spec.callee, Registry.toCheck, List.map_cons, List.find?]
    by_cases hn : t0.name = name
    · have hb : (t0.name == name) = true := by simpa using hn
      simp only [hb] at h
      simp only [Option.some.injEq] at h
      subst h
      simp [hn]
    · have hb : (t0.name == name) = false := by simpa using hn
      simp only [hb] at h
      simp only [hn, decide_false]
      exact callee_toCheck r name t h

theorem mem_toCheck {reg : Registry.Reg} {t : Registry.Tmpl} (h : t ∈ reg) :
    ({ name := t.name, params := t.params, body := t.body } : Check.Template) ∈ Registry.toCheck reg :=
  List.mem_map.mpr ⟨t, h, rfl⟩

/-- the scope a {call} builds for the callee's params lies inside the heap -/
theorem callData_scopeOk {g : GEnv} {allData : Bool} {data : Option Expr} {ctx cd : Scope} {st st1 : St}
    (h : callData g allData data ctx st = some (cd, st1)) (hok : ScopeOk ctx st) : ScopeOk cd st1 := by
  unfold callData at h
  split at h
  · split at h
    · simp at h
    · rename_i sc hsc
      simp only [Option.some.injEq] at h
      have hcd : (push sc st).1 = cd := by rw [h]
      have hst : (push sc st).2 = st1 := by rw [h]
      rw [← hcd, ← hst]
      have hsub : ∀ x ∈ sc, x ∈ ctx := by
        intro x hx
        obtain ⟨pre, f, r, e1, e2, _, _⟩ := C02.alldata_spec ctx sc hsc
        rw [e1]; rw [e2] at hx; exact List.mem_append_right _ hx
      exact scopeOk_push (fun x hx => hok x (hsub x hx))
  · split at h
    · split at h
      · rename_i id kvs sta he
        simp only [Option.some.injEq] at h
        have hcd : (push (newScope kvs true sta).1 (newScope kvs true sta).2).1 = cd := by rw [h]
        have hst : (push (newScope kvs true sta).1 (newScope kvs true sta).2).2 = st1 := by rw [h]
        rw [← hcd, ← hst]
        apply scopeOk_push
        intro f hf
        simp only [newScope, List.mem_singleton] at hf
        subst hf
        simp [newScope]
      · simp at h
    · simp only [Option.some.injEq] at h
      have hcd : (newScope [] false st).1 = cd := by rw [h]
      have hst : (newScope [] false st).2 = st1 := by rw [h]
      rw [← hcd, ← hst]
      intro f hf
      simp only [newScope, List.mem_singleton] at hf
      subst hf
      simp [newScope]

section
variable (g : GEnv) (esc : Bool) (call : Registry.Tmpl → Run) (hcall : ∀ t, GoodRun (call t))
include hcall

/-- the params of a call are bound in the callee's param frame, and what that scope bound stays bound -/
theorem params_bound : (ps : ParamList) → ∀ (cd ctx : Scope) (st : St), Own cd st → ScopeOk cd st →
    (execParams g esc call ps cd ctx st).cls = .ok →
    (∀ k, misses st.heap cd k = false → misses (execParams g esc call ps cd ctx st).st.heap cd k = false) ∧
    (∀ k ∈ callKeys ps, misses (execParams g esc call ps cd ctx st).st.heap cd k = false)
  | .nil, cd, ctx, st, _, _, _ => by
    rw [execParams]; exact ⟨fun k h => h, by simp [callKeys]⟩
  | .value _ key e rest, cd, ctx, st, owncd, hokcd, hcls => by
    rw [execParams] at hcls ⊢
    cases he : evalIn g e ctx st with
    | none => rw [he] at hcls; simp at hcls
    | some r =>
      obtain ⟨v, st1⟩ := r
      rw [he] at hcls
      simp only at hcls ⊢
      have e1 := evalIn_ext (fun _ => False) he
      have own1 := owncd.ext e1
      cases hs : Eval.set cd st1 key v with
      | none => rw [hs] at hcls; simp at hcls
      | some st2 =>
        rw [hs] at hcls
        simp only at hcls ⊢
        have e2 := set_ext own1 hs
        have ih := params_bound rest cd ctx st2 (own1.ext e2) (scopeOk_ext (scopeOk_ext hokcd e1) e2) hcls
        have step : ∀ k, misses st.heap cd k = false → misses st2.heap cd k = false := by
          intro k hk
          rw [misses_set own1 hs]
          split
          · rfl
          · rw [misses_ext_W e1 cd hokcd (fun _ _ h => h)]; exact hk
        refine ⟨fun k hk => ih.1 k (step k hk), ?_⟩
        intro k hk
        simp only [callKeys, List.mem_cons] at hk
        rcases hk with rfl | hk
        · exact ih.1 k (by rw [misses_set own1 hs]; simp)
        · exact ih.2 k hk
  | .content _ key body rest, cd, ctx, st, owncd, hokcd, hcls => by
    rw [execParams] at hcls ⊢
    have hgr := (renderBlockOf_good' (execBody_good g esc call hcall body) ctx st).1
    cases hc : (renderBlockOf (execBody g esc call body) ctx st).1.cls with
    | ok =>
      simp only [hc] at hcls ⊢
      have own1 := owncd.ext hgr.ext
      cases hs : Eval.set cd (renderBlockOf (execBody g esc call body) ctx st).1.st key
          (.str (renderBlockOf (execBody g esc call body) ctx st).2) with
      | none => rw [hs] at hcls; simp at hcls
      | some st2 =>
        rw [hs] at hcls
        simp only at hcls ⊢
        have e2 := set_ext own1 hs
        have ih := params_bound rest cd _ st2 (own1.ext e2) (scopeOk_ext (scopeOk_ext hokcd hgr.ext) e2) hcls
        have step : ∀ k, misses st.heap cd k = false → misses st2.heap cd k = false := by
          intro k hk
          rw [misses_set own1 hs]
          split
          · rfl
          · rw [misses_ext_W hgr.ext cd hokcd (fun _ _ h => h)]; exact hk
        refine ⟨fun k hk => ih.1 k (step k hk), ?_⟩
        intro k hk
        simp only [callKeys, List.mem_cons] at hk
        rcases hk with rfl | hk
        · exact ih.1 k (by rw [misses_set own1 hs]; simp)
        · exact ih.2 k hk
    | err => simp [hc] at hcls
    | panic => simp [hc] at hcls
    | fuelOut => simp [hc] at hcls

end

/-! ### a {msg} rendered through a translation -/

section
variable (g : GEnv) (X : Bytes → Bool) (params : List Bytes)

/-- the placeholder runs of a message with what is required of them: in every state satisfying the invariant
    the requirement holds, and the run keeps the invariant (a placeholder declares nothing) -/
inductive PhSafe (env : Env) : List (Nat × Bytes × Run) → List (Nat × Bytes × (Scope → St → Prop)) → Prop where
  | nil : PhSafe env [] []
  | cons {d : Nat} {n : Bytes} {run : Run} {s : Scope → St → Prop} {l l'} :
      GoodRun run →
      (∀ ctx st, Inv X params env ctx st → Own ctx st → ScopeOk ctx st →
        s ctx st ∧ ((run ctx st).cls = .ok → Inv X params env ctx (run ctx st).st)) →
      PhSafe env l l' → PhSafe env ((d, n, run) :: l) ((d, n, s) :: l')

theorem PhSafe.append {env : Env} {l1 l2 : List (Nat × Bytes × Run)} {m1 m2} (h1 : PhSafe X params env l1 m1)
    (h2 : PhSafe X params env l2 m2) : PhSafe X params env (l1 ++ l2) (m1 ++ m2) := by
  induction h1 with
  | nil => exact h2
  | cons hg ha _ ih => exact .cons hg ha ih

theorem PhSafe.good {env : Env} {l : List (Nat × Bytes × Run)} {m} (h : PhSafe X params env l m) : ∀ e ∈ l, GoodRun e.2.2 := by
  induction h with
  | nil => intro e he; cases he
  | cons hg _ _ ih =>
    intro e he
    rcases List.mem_cons.mp he with rfl | he
    · exact hg
    · exact ih e he

def PickSafe (env : Env) : Option (Nat × Run) → Option (Nat × (Scope → St → Prop)) → Prop
  | none, none => True
  | some (d, run), some (d', s) => d = d' ∧ GoodRun run ∧
      ∀ ctx st, Inv X params env ctx st → Own ctx st → ScopeOk ctx st →
        s ctx st ∧ ((run ctx st).cls = .ok → Inv X params env ctx (run ctx st).st)
  | _, _ => False

/-- the interpreter's `pickPh` and the requirement list find the same placeholder -/
theorem pick_safe (env : Env) (name : Bytes) {l : List (Nat × Bytes × Run)} {m} (h : PhSafe X params env l m) :
    ∀ best sbest, PickSafe X params env best sbest →
      match pickPh name l best, Spec.Eval.pickPhS name m sbest with
      | none, none => True
      | some run, some s => GoodRun run ∧
          ∀ ctx st, Inv X params env ctx st → Own ctx st → ScopeOk ctx st →
            s ctx st ∧ ((run ctx st).cls = .ok → Inv X params env ctx (run ctx st).st)
      | _, _ => False := by
  induction h with
  | nil =>
    intro best sbest hb
    simp only [pickPh, Spec.Eval.pickPhS]
    cases best with
    | none => cases sbest with
      | none => trivial
      | some _ => exact hb.elim
    | some b => cases sbest with
      | none => obtain ⟨_, _⟩ := b; exact hb.elim
      | some sb => obtain ⟨d, run⟩ := b; obtain ⟨d', f⟩ := sb; exact ⟨hb.2.1, hb.2.2⟩
  | @cons d n run f l l' hg ha _ ih =>
    intro best sbest hb
    simp only [pickPh, Spec.Eval.pickPhS]
    by_cases hn : (n == name) = true
    · simp only [hn, if_true]
      cases best with
      | none => cases sbest with
        | none => exact ih (some (d, run)) (some (d, f)) ⟨rfl, hg, ha⟩
        | some _ => exact hb.elim
      | some b => cases sbest with
        | none => obtain ⟨_, _⟩ := b; exact hb.elim
        | some sb =>
          obtain ⟨bd, brun⟩ := b; obtain ⟨bd', bf⟩ := sb
          obtain ⟨hd, h2, h3⟩ := hb
          subst hd
          simp only
          by_cases hlt : d < bd
          · simp only [hlt, if_true]; exact ih (some (d, run)) (some (d, f)) ⟨rfl, hg, ha⟩
          · simp only [hlt, if_false]; exact ih (some (bd, brun)) (some (bd, bf)) ⟨rfl, h2, h3⟩
    · simp only [hn, Bool.false_eq_true, if_false]
      exact ih _ _ hb

/-- the value of a plural variable of an accepted message has its references bound (rule R1) -/
theorem findPlural_ok (reg : List Check.Template) (env : Env) : ∀ (body : MsgParts), OkParts reg params env body →
    ∀ n ve, findPlural body n = some ve → ExprsOk params env (exprKeys ve) (exprLoops ve)
  | .nil, _, _, _, h => by simp [findPlural] at h
  | .text _ _ r, hk, n, ve, h => by
    rw [findPlural] at h; rw [OkParts] at hk; exact findPlural_ok reg env r hk n ve h
  | .ph _ _ (.htmlTag _ _) r, hk, n, ve, h => by
    rw [findPlural] at h; rw [OkParts] at hk; exact findPlural_ok reg env r hk.2 n ve h
  | .ph _ _ (.cmd _) r, hk, n, ve, h => by
    rw [findPlural] at h; rw [OkParts] at hk; exact findPlural_ok reg env r hk.2 n ve h
  | .plural _ vn v _ _ _ r, hk, n, ve, h => by
    rw [findPlural] at h; rw [OkParts] at hk
    split at h
    · simp only [Option.some.injEq] at h; rw [← h]; exact hk.1.1
    · exact findPlural_ok reg env r hk.2 n ve h

section
variable (reg : List Check.Template) (env : Env) (body : MsgParts) (hbody : OkParts reg params env body)
  (phs : List (Nat × Bytes × Run)) (sphs : List (Nat × Bytes × (Scope → St → Prop)))
  (hrel : PhSafe X params env phs sphs)
include hbody hrel

mutual
theorem mparts_safe : (ps : MParts) → ∀ (ctx : Scope) (st : St), Inv X params env ctx st → Own ctx st → ScopeOk ctx st →
    SafeMParts g X phs sphs body ps ctx st ∧
      ((evalMParts g phs body ps ctx st).cls = .ok → Inv X params env ctx (evalMParts g phs body ps ctx st).st)
  | .nil, ctx, st, hi, _, _ => by rw [SafeMParts, evalMParts]; exact ⟨trivial, fun _ => hi⟩
  | .cons (.raw t) rest, ctx, st, hi, hown, hok => by
    rw [SafeMParts, evalMParts]
    exact mparts_safe rest ctx (write st t) (hi.of_heap rfl) (hown.ext (write_ext (fun _ => False) _ t)) hok
  | .cons (.ph name) rest, ctx, st, hi, hown, hok => by
    rw [SafeMParts, evalMParts]
    have hp := pick_safe X params env name hrel none none trivial
    cases hm : pickPh name phs none with
    | none => exact ⟨trivial, fun h => by simp at h⟩
    | some run =>
      rw [hm] at hp
      cases hs : Spec.Eval.pickPhS name sphs none with
      | none => rw [hs] at hp; exact hp.elim
      | some s =>
        rw [hs] at hp
        obtain ⟨hgr, hsafe⟩ := hp
        obtain ⟨h1, h2⟩ := hsafe ctx st hi hown hok
        have hg := hgr ctx st hown
        simp only
        cases hcls : (run ctx st).cls with
        | ok =>
          have ih := mparts_safe rest ctx (run ctx st).st (h2 hcls) (hown.ext hg.ext) (scopeOk_ext hok hg.ext)
          simp only [hg.ctx_eq hcls]
          exact ⟨⟨⟨s, rfl, h1⟩, fun _ => ih.1⟩, ih.2⟩
        | err => exact ⟨⟨⟨s, rfl, h1⟩, fun h' => by cases h'⟩, fun h' => by rw [hcls] at h'; cases h'⟩
        | panic => exact ⟨⟨⟨s, rfl, h1⟩, fun h' => by cases h'⟩, fun h' => by rw [hcls] at h'; cases h'⟩
        | fuelOut => exact ⟨⟨⟨s, rfl, h1⟩, fun h' => by cases h'⟩, fun h' => by rw [hcls] at h'; cases h'⟩
  | .cons (.plural vn cases) rest, ctx, st, hi, hown, hok => by
    rw [SafeMParts, evalMParts]
    cases hfp : findPlural body vn with
    | none => exact ⟨trivial, fun h => by simp at h⟩
    | some ve =>
      simp only
      have hhit := hit_of_bound (findPlural_ok params reg env body hbody vn ve hfp) hi
      cases he : evalIn g ve ctx st with
      | none => exact ⟨⟨hhit, by simp⟩, fun h' => by simp at h'⟩
      | some r =>
        obtain ⟨v, st1⟩ := r
        have e1 := evalIn_ext (fun _ => False) he
        have hi1 := hi.of_ext e1 hok (fun _ _ h => h)
        have hown1 := hown.ext e1
        have hok1 := scopeOk_ext hok e1
        cases v with
        | int i =>
          simp only
          cases hgm : g.msgs with
          | none => exact ⟨⟨hhit, by simp⟩, fun h' => by simp at h'⟩
          | some b =>
            simp only
            by_cases hneg : b.pluralCase i.toInt < 0
            · simp only [hneg, if_true]; exact ⟨⟨hhit, trivial⟩, fun h' => by simp at h'⟩
            · simp only [hneg, if_false]
              have hc := mcases_safe cases (b.pluralCase i.toInt).toNat ctx st1 hi1 hown1 hok1
              have hg := evalMCases_good g phs body (PhSafe.good X params hrel) cases (b.pluralCase i.toInt).toNat ctx st1 hown1
              cases hcls : (evalMCases g phs body cases (b.pluralCase i.toInt).toNat ctx st1).cls with
              | ok =>
                have ih := mparts_safe rest ctx _ (hc.2 hcls) (hown1.ext hg.ext) (scopeOk_ext hok1 hg.ext)
                simp only [hg.ctx_eq hcls]
                exact ⟨⟨hhit, hc.1, fun _ => ih.1⟩, ih.2⟩
              | err => exact ⟨⟨hhit, hc.1, fun h' => by cases h'⟩, fun h' => by rw [hcls] at h'; cases h'⟩
              | panic => exact ⟨⟨hhit, hc.1, fun h' => by cases h'⟩, fun h' => by rw [hcls] at h'; cases h'⟩
              | fuelOut => exact ⟨⟨hhit, hc.1, fun h' => by cases h'⟩, fun h' => by rw [hcls] at h'; cases h'⟩
        | _ => exact ⟨⟨hhit, by simp⟩, fun h' => by simp at h'⟩
theorem mcases_safe : (cs : MCases) → ∀ (n : Nat) (ctx : Scope) (st : St), Inv X params env ctx st → Own ctx st → ScopeOk ctx st →
    SafeMCases g X phs sphs body cs n ctx st ∧
      ((evalMCases g phs body cs n ctx st).cls = .ok → Inv X params env ctx (evalMCases g phs body cs n ctx st).st)
  | .nil, n, ctx, st, _, _, _ => by rw [SafeMCases, evalMCases]; exact ⟨trivial, fun h => by simp at h⟩
  | .cons parts _, 0, ctx, st, hi, hown, hok => by rw [SafeMCases, evalMCases]; exact mparts_safe parts ctx st hi hown hok
  | .cons _ rest, n + 1, ctx, st, hi, hown, hok => by rw [SafeMCases, evalMCases]; exact mcases_safe rest n ctx st hi hown hok
end
end
end

/-! ### the main induction: accepted commands evaluate only bound references -/

theorem own_heap {ctx : Scope} {st st' : St} (hown : Own ctx st) (h : st'.heap = st.heap) : Own ctx st' := by
  obtain ⟨f, r, c, h1, h2, h3⟩ := hown
  exact ⟨f, r, c, h1, by rw [h]; exact h2, h3⟩

section
variable (g : GEnv) (esc : Bool) (call : Registry.Tmpl → Run) (hcall : ∀ t, GoodRun (call t))
  (scall : Registry.Tmpl → Bool → Scope → St → Prop) (X : Bytes → Bool) (params : List Bytes)
  (hsc : ∀ (callee : Registry.Tmpl) (viaData : Bool) (cctx : Scope) (st2 : St), callee ∈ g.reg →
    Own cctx st2 → ScopeOk cctx st2 →
    (∀ p ∈ callee.params, exemptOf callee viaData cctx st2 p.name = false → misses st2.heap cctx p.name = false) →
    scall callee viaData cctx st2)
include hcall hsc

mutual
theorem cmd_safe : (c : Cmd) → ∀ (env : Env) (ctx : Scope) (st : St), OkCmd (Registry.toCheck g.reg) params env c →
    Inv X params env ctx st → Own ctx st → ScopeOk ctx st → SafeCmd g esc call scall X c ctx st
  | .rawText _ _, _, _, _, _, _, _, _ => by rw [SafeCmd]; trivial
  | .debugger _, _, _, _, _, _, _, _ => by rw [SafeCmd]; trivial
  | .headerParam .., _, _, _, _, _, _, _ => by rw [SafeCmd]; trivial
  | .namespace .., _, _, _, _, _, _, _ => by rw [SafeCmd]; trivial
  | .template .., _, _, _, _, _, _, _ => by rw [SafeCmd]; trivial
  | .soyDoc .., _, _, _, _, _, _, _ => by rw [SafeCmd]; trivial
  | .print _ arg dirs, env, ctx, st, h, hi, _, _ => by
    rw [SafeCmd]; rw [OkCmd] at h; exact hit_of_bound h hi
  | .css _ e _, env, ctx, st, h, hi, _, _ => by
    rw [SafeCmd]; rw [OkCmd] at h; exact hit_of_bound h hi
  | .letValue _ _ e, env, ctx, st, h, hi, _, _ => by
    rw [SafeCmd]; rw [OkCmd] at h; exact hit_of_bound h.2 hi
  | .msg _ id _ _ _ body, env, ctx, st, h, hi, _, hok => by
    rw [SafeCmd]; rw [OkCmd] at h
    refine walk_safe X params (fun ctx' st' hi' ho' hk' => ?_) hi hok
    cases hgm : g.msgs with
    | none => exact (parts_safe body env ctx' st' h hi' ho' hk').1
    | some b =>
      simp only
      cases hbm : b.message id with
      | none => exact (parts_safe body env ctx' st' h hi' ho' hk').1
      | some parts =>
        exact (mparts_safe g X params (Registry.toCheck g.reg) env body h _ _ (safePhAll_rel body env h 0)
          parts ctx' st' hi' ho' hk').1
  | .log _ b, env, ctx, st, h, hi, _, hok => by
    rw [SafeCmd]; rw [OkCmd] at h
    exact render_safe X params (fun ctx' st' hi' ho' hk' => body_safe b env ctx' st' h hi' ho' hk') hi hok
  | .letContent _ _ b, env, ctx, st, h, hi, _, hok => by
    rw [SafeCmd]; rw [OkCmd] at h
    exact render_safe X params (fun ctx' st' hi' ho' hk' => body_safe b env ctx' st' h.2 hi' ho' hk') hi hok
  | .ifc _ conds, env, ctx, st, h, hi, hown, hok => by
    rw [SafeCmd]; rw [OkCmd] at h
    exact conds_safe conds env ctx st h hi hown hok
  | .forc _ var list body none, env, ctx, st, h, hi, hown, hok => by
    rw [SafeCmd]; rw [OkCmd] at h
    obtain ⟨hl, hb, _⟩ := h
    refine ⟨hit_of_bound hl hi, ?_⟩
    cases he : evalIn g list ctx st with
    | none => simp
    | some r =>
      obtain ⟨v, st1⟩ := r
      have e1 := evalIn_ext (fun _ => False) he
      cases v with
      | list id xs =>
        simp only
        split
        · trivial
        · exact loop_safe X params (execBody g esc call body) (execBody_good g esc call hcall body) _ var _ env
            (fun ctx' st' hi' ho' hk' => body_safe body _ ctx' st' hb hi' ho' hk') xs 0 ctx st1
            (hi.of_ext e1 hok (fun _ _ h => h)) (hown.ext e1) (scopeOk_ext hok e1)
      | _ => simp
  | .forc _ var list body (some bE), env, ctx, st, h, hi, hown, hok => by
    rw [SafeCmd]; rw [OkCmd] at h
    obtain ⟨hl, hb, hbe⟩ := h
    refine ⟨hit_of_bound hl hi, ?_⟩
    cases he : evalIn g list ctx st with
    | none => simp
    | some r =>
      obtain ⟨v, st1⟩ := r
      have e1 := evalIn_ext (fun _ => False) he
      cases v with
      | list id xs =>
        simp only
        split
        · exact walk_safe X params (fun ctx' st' hi' ho' hk' => body_safe bE env ctx' st' hbe hi' ho' hk')
            (hi.of_ext e1 hok (fun _ _ h => h)) (scopeOk_ext hok e1)
        · exact loop_safe X params (execBody g esc call body) (execBody_good g esc call hcall body) _ var _ env
            (fun ctx' st' hi' ho' hk' => body_safe body _ ctx' st' hb hi' ho' hk') xs 0 ctx st1
            (hi.of_ext e1 hok (fun _ _ h => h)) (hown.ext e1) (scopeOk_ext hok e1)
      | _ => simp
  | .switch _ value cases, env, ctx, st, h, hi, hown, hok => by
    rw [SafeCmd]; rw [OkCmd] at h
    obtain ⟨hv, hc⟩ := h
    refine ⟨hit_of_bound hv hi, ?_⟩
    cases he : evalIn g value ctx st with
    | none => simp
    | some r =>
      obtain ⟨sv, st1⟩ := r
      have e1 := evalIn_ext (fun _ => False) he
      simp only
      exact cases_safe cases env none sv ctx st1 hc (fun s hs => by cases hs)
        (hi.of_ext e1 hok (fun _ _ h => h)) (hown.ext e1) (scopeOk_ext hok e1)
  | .call _ name allData data ps, env, ctx, st, h, hi, hown, hok => by
    rw [SafeCmd]; rw [OkCmd] at h
    obtain ⟨hco, hd, hps⟩ := h
    cases hl : Registry.lookup g.reg name with
    | none => simp
    | some callee =>
      simp only
      refine ⟨hit_of_bound hd hi, ?_⟩
      cases hcd : callData g allData data ctx st with
      | none => simp
      | some pr =>
        obtain ⟨cd, st1⟩ := pr
        simp only
        obtain ⟨e0, owncd, htop⟩ := callData_spec hcd
        have hokcd := callData_scopeOk hcd hok
        have hne : ∀ f ∈ ctx, f.ref ≠ top cd := fun f hf e => by have := hok f hf; omega
        refine ⟨params_safe ps env cd ctx st1 hps (hi.of_ext e0 hok (fun _ _ h => h)) (hown.ext e0)
          (scopeOk_ext hok e0) owncd hne, fun hcls => ?_⟩
        have hpg := execParams_good g esc call hcall ps cd ctx st1 owncd
        have hpb := params_bound g esc call hcall ps cd ctx st1 owncd hokcd hcls
        have hpext := hpg.ext
        generalize hP : (execParams g esc call ps cd ctx st1).st = P at *
        have ownP : Own cd P := owncd.ext hpext
        have hokP : ScopeOk cd P := scopeOk_ext hokcd hpext
        obtain ⟨f, r, c, hcdeq, _, _⟩ := ownP
        subst hcdeq
        have hokE : ScopeOk ({ f with entered := true } :: r) P := by
          intro x hx
          rcases List.mem_cons.mp hx with rfl | hx
          · exact hokP f List.mem_cons_self
          · exact hokP x (List.mem_cons_of_mem _ hx)
        have hent : enter (f :: r) P = some (push ({ f with entered := true } :: r) P) := rfl
        rw [hent]
        simp only
        refine hsc callee (allData || data.isSome) _ _ (List.mem_of_find?_eq_some hl) (push_spec _ _).2.1
          (scopeOk_push hokE) ?_
        intro p hp hex
        rw [misses_push _ _ hokE]
        have hflag : ∀ k, misses P.heap ({ f with entered := true } :: r) k = misses P.heap (f :: r) k := fun _ => rfl
        rw [hflag]
        by_cases hvd : (allData || data.isSome) = true
        · -- entered through data: every declared param is exempt
          exfalso
          simp only [exemptOf, hvd, if_true, List.any_eq_false, beq_iff_eq] at hex
          exact hex p hp rfl
        · have hvd' : (allData || data.isSome) = false := by simpa using hvd
          have hall : allData = false := by
            cases hA : allData with
            | false => rfl
            | true => rw [hA] at hvd'; simp at hvd'
          have hdat : data.isSome = false := by rw [hall] at hvd'; simpa using hvd'
          simp only [exemptOf, hvd', Bool.false_eq_true, if_false] at hex
          cases hopt : p.optional with
          | true =>
            -- an optional param: exempt exactly when the entry scope does not bind it
            have hany : (callee.params.any fun q => q.optional && q.name == p.name) = true :=
              List.any_eq_true.mpr ⟨p, hp, by simp [hopt]⟩
            rw [hany, Bool.true_and, misses_push _ _ hokE, hflag] at hex
            exact hex
          | false =>
            -- a required param: rule R5, the call passes it
            obtain ⟨c', hc', _, hreq⟩ := hco
            rw [callee_toCheck g.reg name callee hl] at hc'
            simp only [Option.some.injEq] at hc'
            subst hc'
            have hmem := hreq hdat p hp hopt
            have hpa : passedByAll (Registry.toCheck g.reg) params name allData = [] := by
              rw [hall]; simp [passedByAll]
            rw [hpa, List.nil_append] at hmem
            exact hpb.2 p.name hmem
theorem body_safe : (b : Block) → ∀ (env : Env) (ctx : Scope) (st : St), OkBlock (Registry.toCheck g.reg) params env b →
    Inv X params env ctx st → Own ctx st → ScopeOk ctx st → SafeBody g esc call scall X b ctx st
  | .mk p cmds, env, ctx, st, h, hi, hown, hok => by
    rw [SafeBody]; rw [OkBlock] at h
    exact cmds_safe cmds env ctx _ h (hi.of_heap rfl) (own_heap hown rfl) hok
theorem cmds_safe : (cs : CmdList) → ∀ (env : Env) (ctx : Scope) (st : St), OkCmds (Registry.toCheck g.reg) params env cs →
    Inv X params env ctx st → Own ctx st → ScopeOk ctx st → SafeCmds g esc call scall X cs ctx st
  | .nil, _, _, _, _, _, _, _ => by rw [SafeCmds]; trivial
  | .cons c rest, env, ctx, st, h, hi, hown, hok => by
    rw [SafeCmds]; rw [OkCmds] at h
    obtain ⟨hc, _, hr⟩ := h
    have hi0 : Inv X params env ctx (atNode st (cmdPos c)) := hi.of_heap rfl
    have hown0 : Own ctx (atNode st (cmdPos c)) := own_heap hown rfl
    have hok0 : ScopeOk ctx (atNode st (cmdPos c)) := hok
    refine ⟨cmd_safe c env ctx _ hc hi0 hown0 hok0, fun hcls => ?_⟩
    obtain ⟨hctx, hi1, hown1, hok1⟩ := inv_after g esc call hcall X params c env ctx _ hi0 hown0 hok0 hcls
    rw [hctx]
    exact cmds_safe rest (env ++ decl c) ctx _ hr hi1 hown1 hok1
theorem conds_safe : (cs : CondList) → ∀ (env : Env) (ctx : Scope) (st : St), OkConds (Registry.toCheck g.reg) params env cs →
    Inv X params env ctx st → Own ctx st → ScopeOk ctx st → SafeConds g esc call scall X cs ctx st
  | .nil, _, _, _, _, _, _, _ => by rw [SafeConds]; trivial
  | .cons _ none body rest, env, ctx, st, h, hi, _, hok => by
    rw [SafeConds]; rw [OkConds] at h
    exact walk_safe X params (fun ctx' st' hi' ho' hk' => body_safe body env ctx' st' h.1.2 hi' ho' hk') hi hok
  | .cons _ (some c) body rest, env, ctx, st, h, hi, hown, hok => by
    rw [SafeConds]; rw [OkConds] at h
    obtain ⟨⟨hc, hb⟩, hr⟩ := h
    refine ⟨hit_of_bound hc hi, ?_⟩
    cases he : evalIn g c ctx st with
    | none => simp
    | some r =>
      obtain ⟨v, st1⟩ := r
      have e1 := evalIn_ext (fun _ => False) he
      simp only
      split
      · exact walk_safe X params (fun ctx' st' hi' ho' hk' => body_safe body env ctx' st' hb hi' ho' hk')
          (hi.of_ext e1 hok (fun _ _ h => h)) (scopeOk_ext hok e1)
      · exact conds_safe rest env ctx st1 hr (hi.of_ext e1 hok (fun _ _ h => h)) (hown.ext e1) (scopeOk_ext hok e1)
theorem cases_safe : (cs : CaseList) → ∀ (env : Env) (sd : Option (Scope → St → Prop)) (sv : Value) (ctx : Scope) (st : St),
    OkCases (Registry.toCheck g.reg) params env cs →
    (∀ s, sd = some s → ∀ st', Inv X params env ctx st' → Own ctx st' → ScopeOk ctx st' → s ctx st') →
    Inv X params env ctx st → Own ctx st → ScopeOk ctx st → SafeCases g esc call scall X cs sd sv ctx st
  | .nil, env, sd, sv, ctx, st, _, hsd, hi, hown, hok => by
    cases sd with
    | none => rw [SafeCases]; trivial
    | some s => rw [SafeCases]; exact hsd s rfl st hi hown hok
  | .cons _ vs b rest, env, sd, sv, ctx, st, h, hsd, hi, hown, hok => by
    rw [SafeCases]; rw [OkCases] at h
    obtain ⟨⟨hb, hv⟩, hr⟩ := h
    refine ⟨hit_of_bound hv hi, ?_⟩
    have hwalk : ∀ st', Inv X params env ctx st' → Own ctx st' → ScopeOk ctx st' →
        SafeWalk (SafeBody g esc call scall X b) ctx st' :=
      fun st' hi' _ hk' => walk_safe X params (fun ctx' st'' hi'' ho'' hk'' => body_safe b env ctx' st'' hb hi'' ho'' hk'') hi' hk'
    cases hm : matchCase g ctx sv vs st with
    | none => simp
    | some r =>
      obtain ⟨hit, st1⟩ := r
      have e1 := matchCase_ext (fun _ => False) _ _ _ _ hm
      cases hit with
      | true => simp only; exact hwalk st1 (hi.of_ext e1 hok (fun _ _ h => h)) (hown.ext e1) (scopeOk_ext hok e1)
      | false =>
        simp only
        refine cases_safe rest env _ sv ctx st1 hr ?_ (hi.of_ext e1 hok (fun _ _ h => h)) (hown.ext e1) (scopeOk_ext hok e1)
        intro s hs
        unfold pickSafe at hs
        split at hs
        · simp only [Option.some.injEq] at hs; subst hs; exact hwalk
        · exact hsd s hs
theorem params_safe : (ps : ParamList) → ∀ (env : Env) (cd ctx : Scope) (st : St),
    OkParams (Registry.toCheck g.reg) params env ps → Inv X params env ctx st → Own ctx st → ScopeOk ctx st →
    Own cd st → (∀ f ∈ ctx, f.ref ≠ top cd) → SafeParams g esc call scall X ps cd ctx st
  | .nil, _, _, _, _, _, _, _, _, _, _ => by rw [SafeParams]; trivial
  | .value _ key e rest, env, cd, ctx, st, h, hi, hown, hok, owncd, hne => by
    rw [SafeParams]; rw [OkParams] at h
    refine ⟨hit_of_bound h.1 hi, ?_⟩
    cases he : evalIn g e ctx st with
    | none => simp
    | some r =>
      obtain ⟨v, st1⟩ := r
      have e1 := evalIn_ext (fun _ => False) he
      simp only
      cases hs : Eval.set cd st1 key v with
      | none => simp
      | some st2 =>
        simp only
        have e2 := set_ext (owncd.ext e1) hs
        exact params_safe rest env cd ctx st2 h.2
          ((hi.of_ext e1 hok (fun _ _ h => h)).of_ext e2 (scopeOk_ext hok e1) hne)
          ((hown.ext e1).ext e2) (scopeOk_ext (scopeOk_ext hok e1) e2) ((owncd.ext e1).ext e2) hne
  | .content _ key body rest, env, cd, ctx, st, h, hi, hown, hok, owncd, hne => by
    rw [SafeParams]; rw [OkParams] at h
    refine ⟨render_safe X params (fun ctx' st' hi' ho' hk' => body_safe body env ctx' st' h.1 hi' ho' hk') hi hok,
      fun hcls => ?_⟩
    have hgr := (renderBlockOf_good' (execBody_good g esc call hcall body) ctx st).1
    have hctx := hgr.ctx_eq hcls
    generalize hR : (renderBlockOf (execBody g esc call body) ctx st) = R at *
    cases hs : Eval.set cd R.1.st key (.str R.2) with
    | none => simp
    | some st2 =>
      simp only
      have e2 := set_ext (owncd.ext hgr.ext) hs
      rw [hctx]
      exact params_safe rest env cd ctx st2 h.2
        ((hi.of_ext hgr.ext hok (fun _ _ h => h)).of_ext e2 (scopeOk_ext hok hgr.ext) hne)
        ((hown.ext hgr.ext).ext e2) (scopeOk_ext (scopeOk_ext hok hgr.ext) e2) ((owncd.ext hgr.ext).ext e2) hne
theorem parts_safe : (ps : MsgParts) → ∀ (env : Env) (ctx : Scope) (st : St), OkParts (Registry.toCheck g.reg) params env ps →
    Inv X params env ctx st → Own ctx st → ScopeOk ctx st →
    SafeParts g esc call scall X ps ctx st ∧
      ((walkMsgBody g esc call ps ctx st).cls = .ok → Inv X params env ctx (walkMsgBody g esc call ps ctx st).st)
  | .nil, _, _, _, _, hi, _, _ => by rw [SafeParts, walkMsgBody]; exact ⟨trivial, fun _ => hi⟩
  | .text p t rest, env, ctx, st, h, hi, hown, hok => by
    rw [SafeParts, walkMsgBody]; rw [OkParts] at h
    exact parts_safe rest env ctx _ h (hi.of_heap rfl) (own_heap hown rfl) hok
  | .ph _ _ (.htmlTag p t) rest, env, ctx, st, h, hi, hown, hok => by
    rw [SafeParts, walkMsgBody]; rw [OkParts] at h
    have ih := parts_safe rest env ctx (write (atNode st p) t) h.2 (hi.of_heap rfl) (own_heap hown rfl) hok
    simp only [SafePh, execPh]
    exact ⟨⟨trivial, fun _ => ih.1⟩, ih.2⟩
  | .ph _ _ (.cmd c) rest, env, ctx, st, h, hi, hown, hok => by
    rw [SafeParts, walkMsgBody]; rw [OkParts] at h
    obtain ⟨⟨hc, hd⟩, hr⟩ := h
    have hi0 : Inv X params env ctx (atNode st (cmdPos c)) := hi.of_heap rfl
    have hown0 : Own ctx (atNode st (cmdPos c)) := own_heap hown rfl
    have hok0 : ScopeOk ctx (atNode st (cmdPos c)) := hok
    simp only [SafePh, execPh]
    have hcs := cmd_safe c env ctx _ hc hi0 hown0 hok0
    cases hcls : (execCmd g esc call c ctx (atNode st (cmdPos c))).cls with
    | ok =>
      obtain ⟨hctx, hi1, hown1, hok1⟩ := inv_after g esc call hcall X params c env ctx _ hi0 hown0 hok0 hcls
      rw [hd, List.append_nil] at hi1
      have ih := parts_safe rest env ctx _ hr hi1 hown1 hok1
      simp only [hctx]
      exact ⟨⟨hcs, fun _ => ih.1⟩, ih.2⟩
    | err => exact ⟨⟨hcs, fun h' => by cases h'⟩, fun h' => by rw [hcls] at h'; cases h'⟩
    | panic => exact ⟨⟨hcs, fun h' => by cases h'⟩, fun h' => by rw [hcls] at h'; cases h'⟩
    | fuelOut => exact ⟨⟨hcs, fun h' => by cases h'⟩, fun h' => by rw [hcls] at h'; cases h'⟩
  | .plural _ _ value cases _ dflt rest, env, ctx, st, h, hi, hown, hok => by
    rw [SafeParts, walkMsgBody]; rw [OkParts] at h
    obtain ⟨⟨hv, hcs, hd⟩, hr⟩ := h
    cases he : evalIn g value ctx st with
    | none => exact ⟨⟨hit_of_bound hv hi, by simp⟩, fun h' => by simp at h'⟩
    | some r =>
      obtain ⟨v, st1⟩ := r
      have e1 := evalIn_ext (fun _ => False) he
      have hi1 := hi.of_ext e1 hok (fun _ _ h => h)
      have hown1 := hown.ext e1
      have hok1 := scopeOk_ext hok e1
      cases v with
      | int i =>
        simp only
        have hp := pl_safe cases env (SafeParts g esc call scall X dflt) (walkMsgBody g esc call dflt) i.toInt ctx st1 hcs
          (fun ctx' st' hi' ho' hk' => parts_safe dflt env ctx' st' hd hi' ho' hk') hi1 hown1 hok1
        have hg := walkPluralCases_good g esc call hcall cases (walkMsgBody g esc call dflt)
          (walkMsgBody_good g esc call hcall dflt) i.toInt ctx st1 hown1
        cases hcls : (walkPluralCases g esc call cases (walkMsgBody g esc call dflt) i.toInt ctx st1).cls with
        | ok =>
          have hi2 := hp.2 hcls
          have ih := parts_safe rest env ctx _ hr hi2 (hown1.ext hg.ext) (scopeOk_ext hok1 hg.ext)
          simp only [hg.ctx_eq hcls]
          exact ⟨⟨hit_of_bound hv hi, hp.1, fun _ => ih.1⟩, ih.2⟩
        | err => exact ⟨⟨hit_of_bound hv hi, hp.1, fun h' => by cases h'⟩, fun h' => by rw [hcls] at h'; cases h'⟩
        | panic => exact ⟨⟨hit_of_bound hv hi, hp.1, fun h' => by cases h'⟩, fun h' => by rw [hcls] at h'; cases h'⟩
        | fuelOut => exact ⟨⟨hit_of_bound hv hi, hp.1, fun h' => by cases h'⟩, fun h' => by rw [hcls] at h'; cases h'⟩
      | _ => exact ⟨⟨hit_of_bound hv hi, by simp⟩, fun h' => by simp at h'⟩
theorem pl_safe : (cs : PluralCases) → ∀ (env : Env) (sd : Scope → St → Prop) (dflt : Run) (i : Int) (ctx : Scope) (st : St),
    OkPlCases (Registry.toCheck g.reg) params env cs →
    (∀ ctx' st', Inv X params env ctx' st' → Own ctx' st' → ScopeOk ctx' st' →
      sd ctx' st' ∧ ((dflt ctx' st').cls = .ok → Inv X params env ctx' (dflt ctx' st').st)) →
    Inv X params env ctx st → Own ctx st → ScopeOk ctx st →
    SafePl g esc call scall X cs sd i ctx st ∧
      ((walkPluralCases g esc call cs dflt i ctx st).cls = .ok →
        Inv X params env ctx (walkPluralCases g esc call cs dflt i ctx st).st)
  | .nil, env, sd, dflt, i, ctx, st, _, hd, hi, hown, hok => by
    rw [SafePl, walkPluralCases]; exact hd ctx st hi hown hok
  | .cons _ v _ body rest, env, sd, dflt, i, ctx, st, h, hd, hi, hown, hok => by
    rw [SafePl, walkPluralCases]; rw [OkPlCases] at h
    split
    · exact parts_safe body env ctx st h.1 hi hown hok
    · exact pl_safe rest env sd dflt i ctx st h.2 hd hi hown hok
/-- the placeholders of an accepted message: each run is safe and keeps the invariant -/
theorem safePhAll_rel : (ps : MsgParts) → ∀ (env : Env), OkParts (Registry.toCheck g.reg) params env ps → ∀ (d : Nat),
    PhSafe X params env (phAll g esc call ps d) (SafePhAll g esc call scall X ps d)
  | .nil, _, _, d => by rw [phAll, SafePhAll]; exact .nil
  | .text _ _ rest, env, h, d => by rw [phAll, SafePhAll]; rw [OkParts] at h; exact safePhAll_rel rest env h d
  | .ph _ name (.htmlTag p t) rest, env, h, d => by
    rw [phAll, SafePhAll]; rw [OkParts] at h
    refine .cons (execPh_good g esc call hcall _) (fun ctx st hi _ _ => ?_) (safePhAll_rel rest env h.2 d)
    rw [SafePh, execPh]
    exact ⟨trivial, fun _ => hi.of_heap rfl⟩
  | .ph _ name (.cmd c) rest, env, h, d => by
    rw [phAll, SafePhAll]; rw [OkParts] at h
    obtain ⟨⟨hc, hd⟩, hr⟩ := h
    refine .cons (execPh_good g esc call hcall _) (fun ctx st hi hown hok => ?_) (safePhAll_rel rest env hr d)
    rw [SafePh, execPh]
    have hi0 : Inv X params env ctx (atNode st (cmdPos c)) := hi.of_heap rfl
    have hown0 : Own ctx (atNode st (cmdPos c)) := own_heap hown rfl
    refine ⟨cmd_safe c env ctx _ hc hi0 hown0 hok, fun hcls => ?_⟩
    have := (inv_after g esc call hcall X params c env ctx _ hi0 hown0 hok hcls).2.1
    rw [hd, List.append_nil] at this
    exact this
  | .plural _ _ v cases _ dflt rest, env, h, d => by
    rw [phAll, SafePhAll]; rw [OkParts] at h
    exact ((safePhAllCases_rel cases env h.1.2.1 (d + 3)).append X params (safePhAll_rel dflt env h.1.2.2 (d + 2))).append X params
      (safePhAll_rel rest env h.2 d)
theorem safePhAllCases_rel : (cs : PluralCases) → ∀ (env : Env), OkPlCases (Registry.toCheck g.reg) params env cs → ∀ (d : Nat),
    PhSafe X params env (phAllCases g esc call cs d) (SafePhAllCases g esc call scall X cs d)
  | .nil, _, _, d => by rw [phAllCases, SafePhAllCases]; exact .nil
  | .cons _ _ _ body rest, env, h, d => by
    rw [phAllCases, SafePhAllCases]; rw [OkPlCases] at h
    exact (safePhAll_rel body env h.1 d).append X params (safePhAllCases_rel rest env h.2 d)
end

end

/-! ### the closed statements -/

/-- An accepted bundle never looks up a name that nothing binds — outside the stated exemptions:
    for every template `t` of a registry the checker accepts, entered (by `execute`, or by a {call} at any
    depth) on a scope that binds every declared param of `t` outside `exemptOf t viaData`, every expression
    the walk of `t` evaluates — in `t`'s own body, and in every callee at every depth the fuel allows — has
    all its variable references bound, except

      * an OPTIONAL param of a template that its entry scope does not bind (the caller did not pass it), and
      * the declared params of a callee entered with data="all" / data="$e".

    {let} and loop variables are never exempt.  A {msg} is followed through the message bundle, if one is
    installed. -/
theorem render_never_misses (g : GEnv) (hc : Check.check (Registry.toCheck g.reg) = true) :
    ∀ (fuel : Nat) (t : Registry.Tmpl), t ∈ g.reg → ∀ (viaData : Bool) (cctx : Scope) (st : St),
      Own cctx st → ScopeOk cctx st →
      (∀ p ∈ t.params, exemptOf t viaData cctx st p.name = false → misses st.heap cctx p.name = false) →
      SafeTmpl g fuel t viaData cctx st := by
  have hvalid := C07.check_sound _ hc
  intro fuel
  induction fuel with
  | zero => intro t _ vd cctx st _ _ _; rw [SafeTmpl]; trivial
  | succ n ih =>
    intro t ht vd cctx st hown hok hp
    rw [SafeTmpl]
    have hvt := hvalid _ (mem_toCheck ht)
    refine body_safe g (escapeOf t) (runTmpl g n) (runTmpl_good g n) (SafeTmpl g n) (exemptOf t vd cctx st)
      (t.params.map (·.name)) (fun callee vd' cctx' st2 hm ho hk hp' => ih callee hm vd' cctx' st2 ho hk hp')
      t.body [] cctx (atNode st t.pos) hvt.1 ⟨fun b hb => (by simp at hb), ?_, fun b hb => (by simp at hb)⟩ (own_heap hown rfl) hok
    intro p hp' hx
    obtain ⟨q, hq, rfl⟩ := List.mem_map.mp hp'
    exact hp q hq hx

/-- `execute` with data that binds every declared param of the entry template (optional ones too): no
    name is exempt in the entry template, and `SafeTmpl` holds for it -/
theorem execute_never_misses (g : GEnv) (hc : Check.check (Registry.toCheck g.reg) = true)
    (name : Bytes) (t : Registry.Tmpl) (hl : Registry.lookup g.reg name = some t) (data : Frame)
    (hdata : ∀ p ∈ t.params, (Frame.find data p.name).isSome = true) (fuel : Nat) :
    (∀ k, exemptOf t false [⟨1, false⟩, ⟨0, true⟩]
        { heap := [⟨data, true⟩, ⟨[], false⟩], out := [], next := freshBase g data, foreign := 0 } k = false) ∧
    SafeTmpl g fuel t false [⟨1, false⟩, ⟨0, true⟩]
      { heap := [⟨data, true⟩, ⟨[], false⟩], out := [], next := freshBase g data, foreign := 0 } := by
  have hm : ∀ p ∈ t.params, misses [⟨data, true⟩, ⟨[], false⟩] [⟨1, false⟩, ⟨0, true⟩] p.name = false := by
    intro p hp
    have := hdata p hp
    cases hf : Frame.find data p.name with
    | none => rw [hf] at this; cases this
    | some v => simp [misses, heapGet, Frame.find, hf]
  refine ⟨fun k => ?_, ?_⟩
  · simp only [exemptOf, Bool.false_eq_true, if_false]
    cases ha : (t.params.any fun p => p.optional && p.name == k) with
    | false => rfl
    | true =>
      obtain ⟨p, hp, hpk⟩ := List.any_eq_true.mp ha
      simp only [Bool.and_eq_true, beq_iff_eq] at hpk
      rw [← hpk.2, hm p hp]; rfl
  · exact render_never_misses g hc fuel t (List.mem_of_find?_eq_some hl) false _ _
      ⟨⟨1, false⟩, [⟨0, true⟩], ⟨[], false⟩, rfl, rfl, rfl⟩
      (by intro f hf; simp at hf; rcases hf with rfl | rfl <;> simp)
      (fun p hp _ => hm p hp)

/-- the earlier names (before the message-bundle path was followed) -/
theorem render_never_misses_partial (g : GEnv) (hc : Check.check (Registry.toCheck g.reg) = true) :
    ∀ (fuel : Nat) (t : Registry.Tmpl), t ∈ g.reg → ∀ (viaData : Bool) (cctx : Scope) (st : St),
      Own cctx st → ScopeOk cctx st →
      (∀ p ∈ t.params, exemptOf t viaData cctx st p.name = false → misses st.heap cctx p.name = false) →
      SafeTmpl g fuel t viaData cctx st := render_never_misses g hc

/-! ### examples

    {template a}  @param x          {let $v: $x /}{$v}{call b}{param w: $v /}{/call}
    {template b}  @param w  @param? y   {$w}{if $y}Y{/if}

  The bundle is accepted; `a` rendered on {x: 'X'} satisfies the hypotheses (`SafeTmpl` holds with an empty
  exemption set for `a`); `b`, entered by the call of `a`, does NOT get `y`: the lookup of `$y` in `{if $y}`
  misses — the exemption of un-passed optional params is needed. -/
namespace Examples

def kx : Bytes := [120]
def ky : Bytes := [121]
def kw : Bytes := [119]
def kv : Bytes := [118]

def tA : Registry.Tmpl :=
  { name := [97], params := [⟨kx, false⟩],
    body := .mk 1 (.cons (.letValue 2 kv (.dataRef 2 kx .nil)) (.cons (.print 3 (.dataRef 3 kv .nil) [])
      (.cons (.call 4 [98] false none (.value 5 kw (.dataRef 5 kv .nil) .nil)) .nil))),
    autoescape := .unspecified, nsName := [110], nsAutoescape := .unspecified, pos := 0, file := [102], text := [] }

def tB : Registry.Tmpl :=
  { name := [98], params := [⟨kw, false⟩, ⟨ky, true⟩],
    body := .mk 11 (.cons (.print 12 (.dataRef 12 kw .nil) [])
      (.cons (.ifc 13 (.cons 13 (some (.dataRef 13 ky .nil)) (.mk 14 (.cons (.rawText 14 [89]) .nil)) .nil)) .nil)),
    autoescape := .unspecified, nsName := [110], nsAutoescape := .unspecified, pos := 10, file := [102], text := [] }

def gEx : GEnv := { reg := [tA, tB], globals := [], ij := none, msgs := none, tbl := [], oblig := [] }

/-- the checker accepts the bundle -/
theorem accepted : Check.check (Registry.toCheck gEx.reg) = true := by decide +kernel

def dataX : Frame := [(kx, .str [88])]

/-- the hypotheses are satisfiable: `a` on {x: 'X'} — nothing is exempt in `a`, every lookup of the walk hits
    (in `a`, and in `b` except for its un-passed optional `y`) -/
example : (∀ k, exemptOf tA false [⟨1, false⟩, ⟨0, true⟩]
      { heap := [⟨dataX, true⟩, ⟨[], false⟩], out := [], next := freshBase gEx dataX, foreign := 0 } k = false) ∧
    SafeTmpl gEx 3 tA false [⟨1, false⟩, ⟨0, true⟩]
      { heap := [⟨dataX, true⟩, ⟨[], false⟩], out := [], next := freshBase gEx dataX, foreign := 0 } :=
  execute_never_misses gEx accepted [97] tA rfl dataX (by decide) 3

/-- … and the render succeeds: "XX" -/
example : (execute gEx [97] dataX 3).cls = .ok ∧ (execute gEx [97] dataX 3).chunks.flatten = [88, 88] := by
  decide +kernel

/-- the scope and state `b` is entered on by `{call b}{param w: 'X' /}{/call}` from the entry scope of `a` -/
def calleeEntry : Option (Scope × St) :=
  let ctxA : Scope := [⟨1, false⟩, ⟨0, true⟩]
  let stA : St := { heap := [⟨dataX, true⟩, ⟨[], false⟩], out := [], next := 2, foreign := 0 }
  match callData gEx false none ctxA stA with
  | none => none
  | some (cd, s1) =>
    enter cd (execParams gEx true (runTmpl gEx 0) (.value 5 kw (.str 5 [] [88]) .nil) cd ctxA s1).st

/-- an optional param the caller did not pass DOES miss: on `b`'s entry scope `$w` is bound, `$y` (read by
    `{if $y}`) is not — it is exempt by `exemptOf`, and the exemption is needed -/
theorem unpassed_optional_param_misses :
    calleeEntry.map (fun p => (misses p.2.heap p.1 kw, misses p.2.heap p.1 ky, exemptOf tB false p.1 p.2 ky)) =
      some (false, true, true) := by
  decide +kernel

/-- `SafeTmpl` is not vacuous: a template the checker REJECTS, `{$q}` with no such param, is not safe (and its
    lookup of `$q` does miss) -/
def tBad : Registry.Tmpl :=
  { name := [99], params := [], body := .mk 1 (.cons (.print 2 (.dataRef 2 [113] .nil) []) .nil),
    autoescape := .unspecified, nsName := [110], nsAutoescape := .unspecified, pos := 0, file := [102], text := [] }

def gBad : GEnv := { reg := [tBad], globals := [], ij := none, msgs := none, tbl := [], oblig := [] }

example : Check.check (Registry.toCheck gBad.reg) = false := by decide +kernel

example : ¬ SafeTmpl gBad 1 tBad false [⟨1, false⟩, ⟨0, true⟩]
    { heap := [⟨[], true⟩, ⟨[], false⟩], out := [], next := 2, foreign := 0 } := by
  intro h
  rw [SafeTmpl] at h
  simp only [tBad] at h
  rw [SafeBody, SafeCmds, SafeCmd] at h
  have := h.1.1 [113] (by simp [exprKeys, accessKeys, dirsKeys]) (by decide) (by simp [exemptOf])
  simp [misses, heapGet, atNode, Frame.find] at this

/-! the loop functions: `{foreach $i in $x}{index($i)}{isLast($i)}{/foreach}` is accepted, renders, and is safe
    (the lookups of `i.index` / `i.lastIndex` hit: `Inv.helpers`); `{isFirst($x)}` on the param `x` is what
    the checker now rejects (R_loopfn, /repo e0343b6) — its lookup of `x.index` misses. -/

/-- the checker's loop functions are the interpreter's -/
example : Check.loopFn = isLoopFunc := rfl

def ki : Bytes := [105]
def tLoop : Registry.Tmpl :=
  { name := [108], params := [⟨kx, false⟩],
    body := .mk 1 (.cons (.forc 2 ki (.dataRef 2 kx .nil) (.mk 3 (.cons
      (.print 4 (.func 4 fIndex (.cons (.dataRef 4 ki .nil) .nil)) []) (.cons
      (.print 5 (.func 5 fIsLast (.cons (.dataRef 5 ki .nil) .nil)) []) .nil))) none) .nil),
    autoescape := .unspecified, nsName := [110], nsAutoescape := .unspecified, pos := 0, file := [102],
    text := List.replicate 8 32 }
def gLoop : GEnv := { reg := [tLoop], globals := [], ij := none, msgs := none, tbl := [], oblig := [] }
def dataL : Frame := [(kx, .list 7 [.str [97], .str [98]])]

example : Check.check (Registry.toCheck gLoop.reg) = true := by decide +kernel
example : (execute gLoop [108] dataL 3).cls = .ok ∧
    (execute gLoop [108] dataL 3).chunks.flatten = [48, 102, 97, 108, 115, 101, 49, 116, 114, 117, 101] := by
  decide +kernel
example : SafeTmpl gLoop 3 tLoop false [⟨1, false⟩, ⟨0, true⟩]
    { heap := [⟨dataL, true⟩, ⟨[], false⟩], out := [], next := freshBase gLoop dataL, foreign := 0 } :=
  (execute_never_misses gLoop (by decide +kernel) [108] tLoop rfl dataL (by decide) 3).2

def tLoopBad : Registry.Tmpl :=
  { name := [99], params := [⟨kx, false⟩],
    body := .mk 1 (.cons (.print 2 (.func 2 fIsFirst (.cons (.dataRef 2 kx .nil) .nil)) []) .nil),
    autoescape := .unspecified, nsName := [110], nsAutoescape := .unspecified, pos := 0, file := [102], text := [] }
def gLoopBad : GEnv := { reg := [tLoopBad], globals := [], ij := none, msgs := none, tbl := [], oblig := [] }

example : Check.check (Registry.toCheck gLoopBad.reg) = false := by decide +kernel
example : ¬ SafeTmpl gLoopBad 1 tLoopBad false [⟨1, false⟩, ⟨0, true⟩]
    { heap := [⟨dataX, true⟩, ⟨[], false⟩], out := [], next := 2, foreign := 0 } := by
  intro h
  rw [SafeTmpl] at h
  simp only [tLoopBad] at h
  rw [SafeBody, SafeCmds, SafeCmd] at h
  have := h.1.2 (kx ++ sIndexSuffix) (by
    simp [helperKeys, exprLoops, exprsLoops, accessLoops, dirsLoops, Check.loopFn, fIsFirst, loopKeyOf, fIsLast])
  revert this
  decide

/-! a {msg} through a bundle: `{msg}H{$x} and {$n}{/msg}` with the translation `[{N}|{X}]` (placeholders
    reordered), and `{msg}{plural $n}{case 1}one{default}{$n}s{/plural}{/msg}` with a plural translation; a
    second bundle whose translation names a placeholder `Q` the message does not have: the render FAILS
    (an error), `SafeTmpl` still holds (no lookup missed). -/

def kn : Bytes := [110]

def tM : Registry.Tmpl :=
  { name := [109], params := [⟨kx, false⟩, ⟨kn, false⟩],
    body := .mk 1 (.cons (.msg 2 77 [] [] 3
        (.text 3 [72] (.ph 4 [88] (.cmd (.print 4 (.dataRef 4 kx .nil) []))
          (.text 5 [32] (.ph 6 [78] (.cmd (.print 6 (.dataRef 6 kn .nil) [])) .nil)))))
      (.cons (.msg 7 78 [] [] 8
        (.plural 8 [86] (.dataRef 8 kn .nil)
          (.cons 9 1 10 (.text 10 [111, 110, 101] .nil) .nil) 11
          (.ph 11 [78] (.cmd (.print 11 (.dataRef 11 kn .nil) [])) (.text 12 [115] .nil)) .nil)) .nil)),
    autoescape := .unspecified, nsName := [110], nsAutoescape := .unspecified, pos := 0, file := [102],
    text := [32, 32, 32, 32, 32, 32, 32, 32, 32, 32, 32, 32, 32, 32, 32, 32, 32, 32, 32, 32] }

def bundleOk : MsgBundle :=
  { message := fun id =>
      if id == 77 then some (.cons (.raw [91]) (.cons (.ph [78]) (.cons (.raw [124]) (.cons (.ph [88]) (.cons (.raw [93]) .nil)))))
      else if id == 78 then some (.cons (.plural [86]
        (.cons (.cons (.raw [101, 105, 110, 115]) .nil)
          (.cons (.cons (.ph [78]) (.cons (.raw [32, 118, 105, 101, 108, 101]) .nil)) .nil))) .nil)
      else none
    pluralCase := fun n => if n == 1 then 0 else 1 }

def bundleBad : MsgBundle :=
  { message := fun id => if id == 77 then some (.cons (.ph [81]) .nil) else none, pluralCase := fun _ => 0 }

def gM (b : MsgBundle) : GEnv := { reg := [tM], globals := [], ij := none, msgs := some b, tbl := [], oblig := [] }

def dataM : Frame := [(kx, .str [111, 117, 116]), (kn, .int 3)]

theorem acceptedM (b : MsgBundle) : Check.check (Registry.toCheck (gM b).reg) = true := by
  show Check.check (Registry.toCheck [tM]) = true
  decide +kernel

/-- through the translations: "[3|out]3 viele" -/
example : (execute (gM bundleOk) [109] dataM 3).cls = .ok ∧
    (execute (gM bundleOk) [109] dataM 3).chunks.flatten = [91, 51, 124, 111, 117, 116, 93, 51, 32, 118, 105, 101, 108, 101] := by
  decide +kernel

example : SafeTmpl (gM bundleOk) 3 tM false [⟨1, false⟩, ⟨0, true⟩]
    { heap := [⟨dataM, true⟩, ⟨[], false⟩], out := [], next := freshBase (gM bundleOk) dataM, foreign := 0 } :=
  (execute_never_misses (gM bundleOk) (acceptedM _) [109] tM rfl dataM (by decide) 3).2

/-- a translation naming a placeholder the message does not have: an error of the render — and no miss -/
example : (execute (gM bundleBad) [109] dataM 3).cls = .err := by decide +kernel

example : SafeTmpl (gM bundleBad) 3 tM false [⟨1, false⟩, ⟨0, true⟩]
    { heap := [⟨dataM, true⟩, ⟨[], false⟩], out := [], next := freshBase (gM bundleBad) dataM, foreign := 0 } :=
  (execute_never_misses (gM bundleBad) (acceptedM _) [109] tM rfl dataM (by decide) 3).2

end Examples

end SoyVerif.Props.C07b
