/-
  C14 — Generated JavaScript is well-formed and preserves every literal.

  Theorems about `Model/JsGen.lean` (the model of soyjs.Write, tied to the code by the
  correspondence sub-check C14gen: token-stream equality on generated bundles; the independent
  oracle C14lit parses every emitted file in otto and reads every literal back).

  The model writes PIECES (Model/JsGen.Piece): text of the generator itself, `escaped` payloads
  (everything that originates in the template as a string: raw text, string literals, map keys,
  css names, message text, global values — printed through the escaper `jsEscapeFixed`),
  identifier and dotted-name splices, numbers, one header per template, the file name in the
  first comment.  The theorems say what each splice can contain, for EVERY file whose names have
  the shapes the lexer guarantees (`FileWN`, stated explicitly below), every formatter, message
  bundle, globals and iteration order.
-/
import SoyVerif.Lemmas.JsGenTop
import SoyVerif.Props.C16

namespace SoyVerif.Props.C14
open SoyVerif SoyVerif.Model SoyVerif.Model.JsGen SoyVerif.Spec
open SoyVerif.Lemmas.JsGenSpec SoyVerif.Lemmas.JsGenSafe SoyVerif.Lemmas.JsGenTop

/-! ## the hypothesis: what the lexer and parser guarantee about a file (`WellNamed`)

  * `IsIdent b`  (variable names, let / loop / param names, keys after `.`): non-empty, bytes of
    identifier characters only (ASCII letters, digits, `_`, `$`, bytes ≥ 0x80 of non-ASCII letters),
    not starting with an ASCII digit  — lexIdent / lexInsideTag after commit 52e7a88;
  * `QChars b`   (namespace, template and callee names): identifier characters and dots;
  * (the file name: nothing — visitSoyFile replaces its line terminators, soyjs 086971f; `commentName_safe` proves
    the piece `CommentSafe` for every name);
  * file-level nodes (namespace, soydoc, template) occur at file level only, and only they do.
  `FileWN` = `Lemmas.JsGenTop.FileWN` is the conjunction over the whole tree. -/
abbrev WellNamed (f : SoyFile) : Prop := FileWN f

/-- what each kind of splice may contain -/
def SpliceSafe : Piece → Prop
  | .fixed _ => True
  | .int _ => True
  | .float _ => True
  | .escaped s =>
      (∀ b ∈ jsEscapeFixed s, jsByteSafe b = true) ∧ jsQuotesEscaped (jsEscapeFixed s) = true ∧
        noLineSep (jsEscapeFixed s) = true
  | .ident b => IsIdent b
  | .qname b => QChars b
  | .es6name b => QChars b
  | .header _ n => QChars n
  | .comment b => CommentSafe b

/-- the safety half of the escaper, for EVERY payload (valid UTF-8 or not): no control byte, none
    of `< > & =`, every quote escaped and no dangling backslash, no raw U+2028 / U+2029
    (Props/C16.jsEscapeFixed_roundtrip_safe) -/
theorem escaped_payload_safe (s : Bytes) :
    (∀ b ∈ jsEscapeFixed s, jsByteSafe b = true) ∧ jsQuotesEscaped (jsEscapeFixed s) = true ∧
      noLineSep (jsEscapeFixed s) = true := by
  have h := SoyVerif.Props.C16.jsEscapeFixed_roundtrip_safe Model.isPrint s
  exact ⟨h.1, h.2.1, h.2.2.1⟩

/-- … and the value half: a well-formed UTF-8 payload denotes exactly itself in JavaScript -/
theorem escaped_payload_roundtrip (s : Bytes) (h : ValidUtf8 s) : jsUnescape (Piece.escaped s).print = some s :=
  SoyVerif.Props.C16.jsEscapeFixed_roundtrip s h

theorem initState_inv : SoyVerif.Lemmas.JsGenSafe.Inv initState := by
  constructor
  · intro f hf
    simp only [initState, List.mem_singleton] at hf
    subst hf
    exact frameOk_nil
  · intro kv hkv
    cases hkv

theorem assocGet_called {fc : List (Bytes × List Piece)} (h : CalledOk fc) (k : Bytes) :
    AllP POk (match assocGet? fc k with | some v => v | none => []) := by
  cases hg : assocGet? fc k with
  | none => exact AllP.nil POk
  | some v =>
    obtain ⟨k', hk'⟩ := assocGet_mem fc k v hg
    exact h (k', v) hk'

theorem importPieces_ok (ord : List Bytes → List Bytes) (s : St) (h : CalledOk s.funcsCalled) :
    AllP POk (importPieces ord s) := by
  unfold importPieces
  split
  · exact AllP.nil POk
  · refine AllP.append POk ?_ (AllP.single POk trivial)
    intro p hp
    obtain ⟨k, _, hk⟩ := List.mem_flatMap.mp hp
    rcases List.mem_append.mp hk with hk | hk
    · exact assocGet_called h k p hk
    · simp only [List.mem_singleton] at hk
      subst hk
      trivial

/-- the pieces of a whole file: all well-shaped, and the headers are exactly the templates -/
theorem genPieces_top (ord : List Bytes → List Bytes) (f : SoyFile) (o : Options) (hf : WellNamed f)
    (ps : List Piece) (h : genPieces ord f o = .ok ps) :
    AllP POkTop ps ∧ hdrs ps = expectedHdrs o f.body := by
  unfold genPieces at h
  cases hv : visitSoyFile (fun l => Value.sortStrings (ord l)) o f initState with
  | error e => simp [hv] at h
  | ok r =>
    obtain ⟨u, body, s⟩ := r
    simp only [hv, Except.ok.injEq] at h
    subst h
    have ⟨hb, hh, hi⟩ := top_visitSoyFile _ o f hf _ _ _ _ initState_inv hv
    have himp := importPieces_ok ord s hi.2
    constructor
    · exact AllP.append POkTop (fun p hp => pok_top (himp p hp)) hb
    · rw [hdrs_append, hdrs_of_pok _ himp, hh]
      rfl

/-! ## 2. splices_safe -/

/-- FULL: in the output of the generator for a well-named file, every identifier splice is an
    identifier (non-empty, identifier bytes, no leading ASCII digit), every dotted-name splice
    consists of identifier bytes and dots, the file name stays inside its comment, and every
    string that originates in the template is an `escaped` payload whose printed form contains no
    control byte, no `< > & =`, no unescaped quote, no dangling backslash and no raw U+2028/9. -/
theorem splices_safe (ord : List Bytes → List Bytes) (f : SoyFile) (o : Options) (hf : WellNamed f)
    (ps : List Piece) (h : genPieces ord f o = .ok ps) : ∀ p ∈ ps, SpliceSafe p := by
  intro p hp
  have hp' := (genPieces_top ord f o hf ps h).1 p hp
  cases p with
  | escaped s => exact escaped_payload_safe s
  | fixed _ => trivial
  | int _ => trivial
  | float _ => trivial
  | ident b => exact hp'
  | qname b => exact hp'
  | es6name b => exact hp'
  | header e n => exact hp'
  | comment b => exact hp'

/-- the bytes are the printed pieces -/
theorem gen_eq_print (ord : List Bytes → List Bytes) (f : SoyFile) (o : Options) (out : Bytes)
    (h : gen ord f o = .ok out) : ∃ ps, genPieces ord f o = .ok ps ∧ out = printPieces ps := by
  unfold gen at h
  cases hp : genPieces ord f o with
  | error e => simp [hp, Except.map] at h
  | ok ps =>
    simp only [hp, Except.map, Except.ok.injEq] at h
    exact ⟨ps, rfl, h.symm⟩

/-! ## 3. one_function_per_template -/

/-- FULL (pieces): the function headers in the output are, in order, exactly the template nodes
    of the file — one header per template, under its qualified name, in the formatter's form;
    nothing else in the output is a header. -/
theorem one_function_per_template (ord : List Bytes → List Bytes) (f : SoyFile) (o : Options) (hf : WellNamed f)
    (ps : List Piece) (h : genPieces ord f o = .ok ps) :
    hdrs ps = (templateNames f.body).map fun n => (isEs6 o, n) :=
  (genPieces_top ord f o hf ps h).2

/-- the definition line a header prints (ES5 formatter) -/
theorem header_line_es5 (n : Bytes) :
    (Piece.header false n).print = n ++ b!" = function(opt_data, opt_sb, opt_ijData) {" := by
  simp [Piece.print, sigTail]

theorem mem_hdrs : ∀ (ps : List Piece) (e : Bool) (n : Bytes), (e, n) ∈ hdrs ps → Piece.header e n ∈ ps
  | [], _, _, h => by cases h
  | p :: r, e, n, h => by
    cases p with
    | header e' n' =>
      simp only [hdrs, List.mem_cons, Prod.mk.injEq] at h
      rcases h with ⟨rfl, rfl⟩ | h
      · simp
      · exact List.mem_cons_of_mem _ (mem_hdrs r e n h)
    | _ => exact List.mem_cons_of_mem _ (mem_hdrs r e n (by simpa [hdrs] using h))

theorem print_infix : ∀ (ps : List Piece) (p : Piece), p ∈ ps → p.print <:+: printPieces ps
  | [], _, h => by cases h
  | q :: r, p, h => by
    unfold printPieces
    simp only [List.map_cons, List.flatten_cons]
    rcases List.mem_cons.mp h with rfl | h
    · exact ⟨[], (r.map Piece.print).flatten, by simp⟩
    · obtain ⟨a, b, hab⟩ := print_infix r p h
      refine ⟨q.print ++ a, b, ?_⟩
      unfold printPieces at hab
      rw [← hab]
      simp

/-- FULL (bytes, ES5): the generated text contains, for every template node of the file, the line
    `<qualified name> = function(opt_data, opt_sb, opt_ijData) {`. -/
theorem definition_lines_present (ord : List Bytes → List Bytes) (f : SoyFile) (o : Options) (hf : WellNamed f)
    (h5 : o.formatter = .es5) (out : Bytes) (h : gen ord f o = .ok out) :
    ∀ n ∈ templateNames f.body, (n ++ b!" = function(opt_data, opt_sb, opt_ijData) {") <:+: out := by
  obtain ⟨ps, hps, rfl⟩ := gen_eq_print ord f o out h
  intro n hn
  have hh := one_function_per_template ord f o hf ps hps
  have he : isEs6 o = false := by simp [isEs6, h5]
  have hm : (false, n) ∈ hdrs ps := by
    rw [hh, he]
    exact List.mem_map.mpr ⟨n, hn, rfl⟩
  rw [← header_line_es5]
  exact print_infix ps _ (mem_hdrs ps false n hm)

/-! ## non-vacuity -/

/-- `{namespace a.b}{template .t}hi{$x}{/template}` as the parser delivers it -/
def sampleFile : SoyFile :=
  { name := b!"f.soy", text := [],
    body := [.namespace 0 b!"a.b" .unspecified,
             .template 15 b!"a.b.t" (.mk 15 (.cons (.rawText 28 b!"hi") (.cons (.print 30 (.dataRef 31 b!"x" .nil) []) .nil)))
               .unspecified false] }

theorem sample_wellNamed : WellNamed sampleFile := by
  intro c hc
  simp only [sampleFile, List.mem_cons, List.mem_nil_iff, or_false] at hc
  rcases hc with rfl | rfl
  · show QChars b!"a.b"
    unfold QChars
    decide
  · refine ⟨by show QChars b!"a.b.t"; unfold QChars; decide, ?_⟩
    show CmdsWN _
    refine ⟨trivial, ⟨⟨⟨120, [], rfl, by decide, by decide⟩, trivial⟩, ?_⟩, trivial⟩
    intro d hd
    cases hd

example : templateNames sampleFile.body = [b!"a.b.t"] := rfl

/-- the generator succeeds on the sample (kernel evaluation of the model) … -/
example : ∃ ps, genPieces id sampleFile {} = .ok ps := ⟨_, rfl⟩

/-- … so the theorems speak about something: its pieces contain exactly the one header, -/
example : ∀ ps, genPieces id sampleFile {} = .ok ps → hdrs ps = [(false, b!"a.b.t")] :=
  fun ps h => one_function_per_template id sampleFile {} sample_wellNamed ps h

/-- … and its text the definition line of `a.b.t`. -/
example : ∀ out, gen id sampleFile {} = .ok out →
    (b!"a.b.t" ++ b!" = function(opt_data, opt_sb, opt_ijData) {") <:+: out :=
  fun out h => definition_lines_present id sampleFile {} sample_wellNamed rfl out h b!"a.b.t" (by decide)

/-- the hypothesis is needed: a key that begins with a digit is spliced as it is (the shape the
    lexer accepted before 52e7a88, and still accepts for a key that begins with a NON-ASCII digit) -/
example : ¬ IsIdent b!"1z" := by
  rintro ⟨c, r, h, hs, _⟩
  simp only [List.cons.injEq] at h
  obtain ⟨rfl, _⟩ := h
  revert hs
  decide

/-- quotes, `</script>` and U+2028 in a payload: escaped, and read back exactly -/
example : (Piece.escaped [60, 47, 39, 226, 128, 168]).print ≠ [60, 47, 39, 226, 128, 168] := by
  intro h
  have := (escaped_payload_safe [60, 47, 39, 226, 128, 168]).1
  rw [show jsEscapeFixed [60, 47, 39, 226, 128, 168] = (Piece.escaped [60, 47, 39, 226, 128, 168]).print from rfl, h] at this
  exact absurd (this 60 (by simp)) (by decide)

end SoyVerif.Props.C14
