/-
  C02 — the interpreter refines the LEXICAL semantics (Spec/Eval.lean `renderCmd` / `renderBlock`).

  `exec_refines_lexical_partial`: for the command fragment

      raw text, {print e} with directives (|d₁:a₁,…|d₂ …, arguments in the expression fragment), {css},
      {debugger}, {log}, {if}/{elseif}/{else},
      {switch}/{case}/{default} (the matching case wherever it stands, else the first {default}),
      {foreach $x in L}…{ifempty}… / {for $i in L} with L any expression of the fragment (a list literal, a
        range, a variable, an access chain `$x.items`, …),
      {let $x: e /}, {let $x}…{/let},
      {call} without a data attribute, with data="all", with data="e" for any expression of the fragment (a
        variable, an access chain, a map literal, …), with value params and content params ({param k}…{/param}),
      {msg} (text, placeholders — commands of the fragment or HTML tags —, {plural}), without a message bundle
        and THROUGH one (a message without a translation: its source; a translation: raw text, placeholder
        parts = the source placeholder of that name, plural parts = the form the bundle's plural function
        selects; `mparts_agree`, given `BundleOk g hasBundle dsem`: the specification's bundle content is the
        interpreter's — `modelMsgSem`),
      header params
      — nested arbitrarily, templates calling templates to any depth (`render_refines_lexical_partial`),
      with expressions of the fragment of Props/C01.lean,

  over ANY data (scalars, lists, maps, nested): whenever the lexical specification yields text, the model's
  walk (dynamic scope stack over a heap of frames, Model/Eval.lean) ends ok having written exactly that
  text, and the bindings visible afterwards are exactly those of the specification's environment — in
  particular a `let` is visible to the end of its block and not after it, and shadows an outer name only
  there; whenever the specification yields an error the model yields an error.  Expressions are those of
  Props/C01's fragment at full width (`C01.fragO true`): `$ij`, access chains, list / map literals, the builtins
  isNonnull / length / strContains / hasData / range / min / max / keys / augmentMap / floor / ceiling, all operators — the
  ordering comparisons `< > <= >=` included.

  data="all": `Rel` carries, next to the bindings, `EntRel`: the frames `alldata` passes from the running
  scope bind exactly the specification's `entry` bindings, and the top (let) frame is not among them — so
  what a data="all" call passes is the template's ENTRY data whatever was {let}-bound since.
  data="$m" / a map literal: the callee's data scope is the map's frame (read-only) under a fresh param
  frame; it binds the map's entries (`MapSim`; a repeated key of a literal: the first item on both sides).

  Print directives: the specification takes a directive semantics `Spec.Eval.DirSem` as a parameter (which
  names exist, their arities, which cancel autoescaping, what an implementation computes) and fixes the
  loop itself (left to right, unknown name / wrong number of arguments = error, arguments evaluated left
  to right, escape last iff not cancelled).  The theorems hold for every `dsem` with `DirOk g dsem`: the
  same table as the interpreter's and implementations that `applyDirective` agrees with on scalars;
  `modelDirSem` (the interpreter's own library read as a `DirSem`) is one (`modelDirSem_ok`).  Without a
  `DirSem` a print with directives is `unspec` as before.

  `foreach_over_value_refines` / `list_variable_agrees` are the {foreach}-over-a-value statements of the
  earlier rounds (now instances of the fragment: `forc_core` with `ValSim.of_var`).

  A {template} tag inside a body is outside both the fragment (`cfrag`) and the model (Model/Eval.lean header:
  `error`; checked on the real code by the C02exec family `nested-template-tag(impl-only)`); a /** */ comment
  inside a body renders nothing on both sides (/repo 79017f3) and is part of the fragment.

  `$ij` (the injected data, the same in every template of the render) is inside: `render_refines_lexical_partial`
  takes the specification's injected bindings to be the interpreter's (`hij`).

  Still outside (exactly): index / isFirst / isLast (Props/C01 has them under `LoopRel` — `eval_refines_spec_loops`;
  supplying `LoopRel` here needs "every list a {foreach} of the execution ranges over is shorter than 2^63" threaded
  through this induction: not done), round, randomInt.  (A map literal whose tree repeats a key
  is outside too, but no parser produces one: `C01.mapFragO_of_sorted`.)

  `loop_hides_only_its_variable`: a loop over `$x` changes the lookup of no variable name other than `x` (the
  bookkeeping names `x.index` / `x.lastIndex` contain a '.').  Those are covered by the
  scoping theorems of Props/C02.lean and by the Spec.render oracle of the C02exec correspondence.
-/
import SoyVerif.Lemmas.ExecRefine
import SoyVerif.Lemmas.RangeRefine

namespace SoyVerif.Props.C02Spec
open SoyVerif SoyVerif.Model SoyVerif.Model.Eval SoyVerif.Refine
open SoyVerif.Spec.Eval (Val Out)
open SoyVerif.Props.C01 (EnvRel)

/-- the expression fragment of Props/C01.lean at full width: `C01.fragO true false`, the ordering comparisons
    `< > <= >=` included (`C01.eval_refines_spec_ordering`; `C01.ordExact` is a theorem).  The refinement
    below uses nothing about expressions but that theorem: whatever Props/C01 proves for its fragment is
    inherited here. -/
abbrev frag (e : Expr) : Bool := C01.fragO true false e

open SoyVerif.Props.C02 (ScopeOk)

def optFrag : Option Expr → Bool
  | none => true
  | some e => frag e

/-- the items of a list literal -/
def fragList : ExprList → Bool
  | .nil => true
  | .cons e r => frag e && fragList r

/-- the directives of a print: their arguments in the expression fragment -/
def dirsFrag (ds : List Directive) : Bool := ds.all fun d => d.args.all (frag)

/-- the items of a map literal -/
def mapFrag : MapItems → Bool
  | .nil => true
  | .cons _ e r => frag e && mapFrag r

/-- what a {call} passes as data="…": any expression of the fragment (a variable, an access chain, a map
    literal, …); a map literal may also repeat a key (the first item wins on both sides) -/
def dataFrag (d : Expr) : Bool :=
  frag d || (match d with
    | .map _ items => mapFrag items
    | _ => false)

/-- what a {foreach} / {for} ranges over: any expression of the fragment (a list literal, a range, a
    variable, an access chain, …) -/
def listFrag (e : Expr) : Bool := frag e

mutual
def cfrag : Cmd → Bool
  | .rawText _ _ => true
  | .print _ a dirs => frag a && dirsFrag dirs
  | .css _ e _ => optFrag e
  | .debugger _ => true
  | .log _ b => bfrag b
  | .ifc _ conds => condsFrag conds
  | .switch _ v cases => frag v && casesFrag cases
  | .forc _ _ e body none => listFrag e && bfrag body
  | .forc _ _ e body (some b) => listFrag e && bfrag body && bfrag b
  | .msg _ _ _ _ _ body => partsFrag body
  | .call _ _ false none ps => paramsFrag ps
  | .call _ _ true none ps => paramsFrag ps
  | .call _ _ false (some d) ps => dataFrag d && paramsFrag ps
  | .letValue _ _ e => frag e
  | .letContent _ _ b => bfrag b
  | .headerParam _ _ _ _ _ _ => true
  | .soyDoc _ _ => true
  | _ => false
def bfrag : Block → Bool
  | .mk _ cs => csFrag cs
def csFrag : CmdList → Bool
  | .nil => true
  | .cons c r => cfrag c && csFrag r
def condsFrag : CondList → Bool
  | .nil => true
  | .cons _ c b r => optFrag c && bfrag b && condsFrag r
def casesFrag : CaseList → Bool
  | .nil => true
  | .cons _ vs b r => vs.all (frag) && bfrag b && casesFrag r
/-- the parts of a {msg}: text, placeholders (commands of the fragment, HTML tags), plurals -/
def partsFrag : MsgParts → Bool
  | .nil => true
  | .text _ _ r => partsFrag r
  | .ph _ _ b r => phFrag b && partsFrag r
  | .plural _ _ v cases _ d r => frag v && plFrag cases && partsFrag d && partsFrag r
def phFrag : MsgPhBody → Bool
  | .htmlTag _ _ => true
  | .cmd c => cfrag c
def plFrag : PluralCases → Bool
  | .nil => true
  | .cons _ _ _ b r => partsFrag b && plFrag r
/-- the params of a call: values of the expression fragment, content blocks of the command fragment -/
def paramsFrag : ParamList → Bool
  | .nil => true
  | .value _ _ e r => frag e && paramsFrag r
  | .content _ _ b r => bfrag b && paramsFrag r
end

/-- the frames of `cd` bind exactly `B` -/
def FrameRel (heap : List Cell) (cd : Scope) (B : Spec.Eval.Binds) : Prop :=
  ∀ k, absV (lookup heap cd k) = (Spec.Eval.find B k).getD .undefined

/-- the running template's ENTRY data — what a data="all" call passes — against the specification's `entry`
    bindings: the scope is an unmarked top frame above frames whose `alldata` part binds exactly `entry`,
    and the top frame is not one of the passed frames (so a {let} cannot change what is passed) -/
def EntRel (entry : Spec.Eval.Binds) (ctx : Scope) (st : St) : Prop :=
  ∃ f r sc, ctx = f :: r ∧ f.entered = false ∧ alldata r = some sc ∧ (∀ x ∈ sc, x.ref ≠ f.ref) ∧
    (∀ x ∈ sc, x.ref < st.heap.length) ∧ FrameRel st.heap sc entry

/-- the model's scope (through the heap) and the lexical environment bind the same scalars, and the frames
    a data="all" call would pass bind the template's entry data -/
structure Rel (g : GEnv) (entry : Spec.Eval.Binds) (ctx : Scope) (st : St) (env : Spec.Eval.Env) : Prop where
  base : EnvRel (eenv g ctx st) env
  ent : EntRel entry ctx st

theorem alldata_sub : ∀ (r sc : Scope), alldata r = some sc → ∀ x ∈ sc, x ∈ r := by
  intro r sc h x hx
  obtain ⟨pre, f, rest, h1, h2, _, _⟩ := C02.alldata_spec r sc h
  rw [h1]; rw [h2] at hx
  exact List.mem_append_right _ hx

/-- fresh cells at the end of the heap -/
theorem Ext.append (st : St) (cells : List Cell) : Ext (fun _ => False) st { st with heap := st.heap ++ cells } :=
  ⟨by simp, fun i c hc => ⟨c, by
    have hi : i < st.heap.length := (List.getElem?_eq_some_iff.mp hc).1
    simp [List.getElem?_append_left hi, hc], rfl, fun _ => rfl⟩, rfl⟩

theorem FrameRel.of_lookup {heap heap' : List Cell} {cd : Scope} {B : Spec.Eval.Binds} (h : FrameRel heap cd B)
    (hl : ∀ k, lookup heap' cd k = lookup heap cd k) : FrameRel heap' cd B :=
  fun k => by rw [hl k]; exact h k

/-- a state change that leaves the frames of the scope — other than writable ones it does not contain —
    alone keeps the relation -/
theorem Rel.of_ext {g : GEnv} {entry : Spec.Eval.Binds} {ctx : Scope} {st st' : St} {env : Spec.Eval.Env} {W : Nat → Prop}
    (h : Rel g entry ctx st env) (e : Ext W st st') (hok : ScopeOk ctx st) (hW : ∀ f ∈ ctx, ¬ W f.ref) :
    Rel g entry ctx st' env := by
  have hl := lookup_ext_W e ctx hok hW
  refine ⟨⟨fun k hk => ?_, h.base.globals, h.base.ij⟩, ?_⟩
  · show absV (lookup st'.heap ctx k) = _
    rw [hl k]; exact h.base.vars k hk
  · obtain ⟨f, r, sc, hc, hf, ha, hne, hlt, hfr⟩ := h.ent
    refine ⟨f, r, sc, hc, hf, ha, hne, fun x hx => Nat.lt_of_lt_of_le (hlt x hx) e.len, ?_⟩
    have hsub : ∀ x ∈ sc, x ∈ ctx := fun x hx => by rw [hc]; exact List.mem_cons_of_mem _ (alldata_sub r sc ha x hx)
    exact hfr.of_lookup (lookup_ext_W e sc (fun x hx => hlt x hx) (fun x hx => hW x (hsub x hx)))

theorem Rel.of_heap {g : GEnv} {entry : Spec.Eval.Binds} {ctx : Scope} {st st' : St} {env : Spec.Eval.Env}
    (h : Rel g entry ctx st env) (hh : st'.heap = st.heap) : Rel g entry ctx st' env := by
  refine ⟨⟨fun k hk => ?_, h.base.globals, h.base.ij⟩, ?_⟩
  · show absV (lookup st'.heap ctx k) = _
    rw [hh]; exact h.base.vars k hk
  · obtain ⟨f, r, sc, hc, hf, ha, hne, hlt, hfr⟩ := h.ent
    exact ⟨f, r, sc, hc, hf, ha, hne, by rw [hh]; exact hlt, by rw [hh]; exact hfr⟩

/-- writes to the top frame do not reach the entry data -/
theorem EntRel.of_ext_top {entry : Spec.Eval.Binds} {ctx : Scope} {st st' : St} (h : EntRel entry ctx st)
    (e : Ext (fun i => i = top ctx) st st') : EntRel entry ctx st' := by
  obtain ⟨f, r, sc, hc, hf, ha, hne, hlt, hfr⟩ := h
  refine ⟨f, r, sc, hc, hf, ha, hne, fun x hx => Nat.lt_of_lt_of_le (hlt x hx) e.len, ?_⟩
  exact hfr.of_lookup (lookup_ext_W e sc (fun x hx => hlt x hx) (fun x hx hw => hne x hx (by rw [hc] at hw; exact hw)))

/-- a pushed (unmarked, empty) frame: same bindings, same entry data -/
theorem Rel.pushed {g : GEnv} {entry : Spec.Eval.Binds} {ctx : Scope} {st : St} {env : Spec.Eval.Env}
    (h : Rel g entry ctx st env) (hok : ScopeOk ctx st) : Rel g entry (push ctx st).1 (push ctx st).2 env := by
  obtain ⟨hctx1, _, hext1, _⟩ := push_spec ctx st
  refine ⟨⟨fun k hk => ?_, h.base.globals, h.base.ij⟩, ?_⟩
  · show absV (lookup (push ctx st).2.heap (push ctx st).1 k) = _
    rw [lookup_push ctx st hok k]; exact h.base.vars k hk
  · obtain ⟨f, r, sc, hc, hf, ha, hne, hlt, hfr⟩ := h.ent
    refine ⟨⟨st.heap.length, false⟩, ctx, sc, hctx1, rfl, by rw [hc, alldata, hf]; simpa using ha, ?_, ?_, ?_⟩
    · intro x hx e; have := hlt x hx; simp at e; omega
    · intro x hx; exact Nat.lt_of_lt_of_le (hlt x hx) (hext1 (fun _ => False)).len
    · exact hfr.of_lookup (lookup_ext_W (hext1 (fun _ => False)) sc (fun x hx => hlt x hx) (fun _ _ h => h))

/-- what the model did agrees with what the specification says for a command -/
def Agree (g : GEnv) (entry : Spec.Eval.Binds) (ctx : Scope) (st : St) (r : R) : Spec.Eval.ROut → Prop
  | .val (out, env') => r.cls = .ok ∧ bufBytes r.st.out = bufBytes st.out ++ out ∧ Rel g entry ctx r.st env'
  | .error => r.cls = .err
  | .unspec => True

/-- … and for a block (the environment afterwards is the one before) -/
def AgreeB (g : GEnv) (entry : Spec.Eval.Binds) (ctx : Scope) (st : St) (env : Spec.Eval.Env) (r : R) : Out Bytes → Prop
  | .val out => r.cls = .ok ∧ bufBytes r.st.out = bufBytes st.out ++ out ∧ Rel g entry ctx r.st env
  | .error => r.cls = .err
  | .unspec => True

/-- the specification's agreement does not look at `s.node` -/
theorem Agree.of_atNode {g : GEnv} {ctx : Scope} {st : St} {p : Nat} {r : R} {o : Spec.Eval.ROut}
    (h : Agree g entry ctx (atNode st p) r o) : Agree g entry ctx st r o := by
  cases o with
  | unspec => trivial
  | error => exact h
  | val q => exact h

theorem AgreeB.of_atNode {g : GEnv} {ctx : Scope} {st : St} {env : Spec.Eval.Env} {p : Nat} {r : R} {o : Out Bytes}
    (h : AgreeB g entry ctx (atNode st p) env r o) : AgreeB g entry ctx st env r o := by
  cases o with
  | unspec => trivial
  | error => exact h
  | val q => exact h

/-- a callee's run against the specification's: text or error (the callee's bindings are its own) -/
def AgreeT (st : St) (r : R) : Out Bytes → Prop
  | .val out => r.cls = .ok ∧ bufBytes r.st.out = bufBytes st.out ++ out
  | .error => r.cls = .err
  | .unspec => True

/-- the rest of a {switch} after its cases were tried: the matching case's text, else the remembered
    {default} (`sd`), else `tail` (the first default among the cases not yet passed) -/
def specRest (sd : Option (Spec.Eval.Env → Out Bytes)) (tail : Out Bytes) (env : Spec.Eval.Env) : Option Bytes → Out Bytes
  | some out => .val out
  | none => match sd with
    | some s => s env
    | none => tail

/-- the {default} the interpreter remembered against the one the specification will fall back to -/
def DfltRel (g : GEnv) (entry : Spec.Eval.Binds) (dflt : Option Run) (sd : Option (Spec.Eval.Env → Out Bytes)) : Prop :=
  (dflt = none ∧ sd = none) ∨
  ∃ d s, dflt = some d ∧ sd = some s ∧ ∀ ctx st env, Rel g entry ctx st env → Own ctx st → ScopeOk ctx st →
    AgreeB g entry ctx st env (d ctx st) (s env)

theorem absV_undefined (mv : Value) (h : absV mv = .undefined) : mv = .undefined := by
  cases mv <;> simp [absV] at h ⊢

/-- expressions in a context: eval_refines_spec_partial through `evalIn` -/
theorem evalIn_sim {g : GEnv} {ctx : Scope} {st : St} {env : Spec.Eval.Env} (hr : Rel g entry ctx st env) (e : Expr)
    (hf : frag e = true) :
    (∀ v, Spec.Eval.eval env e = .val v → ∃ mv st1, evalIn g e ctx st = some (mv, st1) ∧ absV mv = v ∧ st1.heap = st.heap ∧ st1.out = st.out) ∧
    (Spec.Eval.eval env e = .error → evalIn g e ctx st = none) := by
  have h := C01.eval_refines_spec_ordering hr.base e hf st.next
  refine ⟨fun v hv => ?_, fun herr => ?_⟩
  · obtain ⟨mv, n', h1, h2⟩ := h.1 v hv
    exact ⟨mv, { st with next := n' }, by simp [evalIn, h1], h2, rfl, rfl⟩
  · simp [evalIn, h.2 herr]

theorem helper_index (v : Bytes) : C01.isHelper (v ++ sIndexSuffix) = true := by
  simp [C01.isHelper, List.isSuffixOf_iff_suffix]
theorem helper_last (v : Bytes) : C01.isHelper (v ++ sLastIndexSuffix) = true := by
  simp [C01.isHelper, List.isSuffixOf_iff_suffix]

/-- the items of a list literal, left to right -/
theorem evalArgs_sim {m : EEnv} {env : Spec.Eval.Env} (hr : EnvRel m env) :
    (items : ExprList) → fragList items = true → ∀ n,
      (∀ vs, Spec.Eval.evalList env items = .val vs →
        ∃ mvs n', evalArgs m items n = some (mvs, n') ∧ absL mvs = vs) ∧
      (Spec.Eval.evalList env items = .error → evalArgs m items n = none)
  | .nil, _, n => by
    rw [Spec.Eval.evalList, evalArgs]
    exact ⟨fun vs h => by simp only [Out.val.injEq] at h; exact ⟨[], n, rfl, by rw [← h]; rfl⟩, fun h => by simp at h⟩
  | .cons e r, hf, n => by
    simp only [fragList, Bool.and_eq_true] at hf
    have he := C01.eval_refines_spec_ordering hr e hf.1 n
    rw [Spec.Eval.evalList, evalArgs]
    refine ⟨fun vs hv => ?_, fun herr => ?_⟩
    · obtain ⟨v, hv1, hv⟩ := C01.bind_val hv
      obtain ⟨vr, hv2, hv⟩ := C01.bind_val hv
      obtain ⟨mv, n1, h1, h2⟩ := he.1 v hv1
      obtain ⟨mvs, n2, h4, h5⟩ := (evalArgs_sim hr r hf.2 n1).1 vr hv2
      simp only [Out.val.injEq] at hv
      rw [h1]; simp only [h4]
      exact ⟨mv :: mvs, n2, rfl, by rw [← hv, absL, h2, h5]⟩
    · rcases C01.bind_err herr with h | ⟨v, hv1, herr⟩
      · rw [he.2 h]
      · obtain ⟨mv, n1, h1, _⟩ := he.1 v hv1
        rw [h1]
        rcases C01.bind_err herr with h | ⟨vr, _, h⟩
        · simp only [(evalArgs_sim hr r hf.2 n1).2 h]
        · simp at h

/-- `{foreach $x in [e₁, …]}`: the list literal through `evalIn` -/
theorem evalIn_list_sim {g : GEnv} {ctx : Scope} {st : St} {env : Spec.Eval.Env} (hr : Rel g entry ctx st env) (p : Nat)
    (items : ExprList) (hf : fragList items = true) :
    (∀ v, Spec.Eval.eval env (.list p items) = .val v → ∃ id mvs st1, evalIn g (.list p items) ctx st = some (.list id mvs, st1) ∧
        v = .list (absL mvs) ∧ st1.heap = st.heap ∧ st1.out = st.out) ∧
    (Spec.Eval.eval env (.list p items) = .error → evalIn g (.list p items) ctx st = none) := by
  have h := evalArgs_sim hr.base items hf st.next
  rw [Spec.Eval.eval]
  refine ⟨fun v hv => ?_, fun herr => ?_⟩
  · obtain ⟨vs, hv1, hv⟩ := C01.bind_val hv
    obtain ⟨mvs, n', h1, h2⟩ := h.1 vs hv1
    simp only [Out.val.injEq] at hv
    refine ⟨(listId mvs.length n').1, mvs, { st with next := (listId mvs.length n').2 }, ?_, by rw [← hv, h2], rfl, rfl⟩
    simp [evalIn, evalE, h1]
  · rcases C01.bind_err herr with h' | ⟨vs, _, h'⟩
    · simp [evalIn, evalE, h.2 h']
    · simp at h'

theorem find_absK : ∀ (kvs : Frame) (k : Bytes), Spec.Eval.find (absK kvs) k = (Frame.find kvs k).map absV
  | [], _ => rfl
  | (k', v) :: r, k => by
    simp only [absK, Spec.Eval.find, Frame.find]
    split
    · rfl
    · exact find_absK r k

theorem frame_find_mem : ∀ (kvs : Frame) (k : Bytes) (v : Value), Frame.find kvs k = some v → ∃ k', (k', v) ∈ kvs
  | [], _, _, h => by simp [Frame.find] at h
  | (k', v') :: r, k, v, h => by
    simp only [Frame.find] at h
    split at h
    · simp only [Option.some.injEq] at h; subst h; exact ⟨k', List.mem_cons_self⟩
    · obtain ⟨k'', hm⟩ := frame_find_mem r k v h; exact ⟨k'', List.mem_cons_of_mem _ hm⟩

theorem find_filter (B : Spec.Eval.Binds) (key k : Bytes) (h : (key == k) = false) :
    Spec.Eval.find (B.filter fun kv => kv.1 != key) k = Spec.Eval.find B k := by
  induction B with
  | nil => rfl
  | cons p r ih =>
    obtain ⟨k', v⟩ := p
    by_cases hk : k' = key
    · subst hk
      simp only [List.filter, bne_self_eq_false, Spec.Eval.find, h, Bool.false_eq_true, if_false]
      exact ih
    · have : (k' != key) = true := by simpa using hk
      simp only [List.filter, this, Spec.Eval.find]
      rw [ih]

/-- the items of a map literal: the same bindings (a repeated key: the first item on both sides) -/
theorem evalMapItems_sim {m : EEnv} {env : Spec.Eval.Env} (hr : EnvRel m env) :
    (items : MapItems) → mapFrag items = true → ∀ n,
      (∀ B, Spec.Eval.evalMap env items = .val B →
        ∃ kvs n', evalMapItems m items n = some (kvs, n') ∧
          (∀ k, Spec.Eval.find B k = (Frame.find kvs k).map absV)) ∧
      (Spec.Eval.evalMap env items = .error → evalMapItems m items n = none)
  | .nil, _, n => by
    rw [Spec.Eval.evalMap, evalMapItems]
    exact ⟨fun B h => by simp only [Out.val.injEq] at h; exact ⟨[], n, rfl, by rw [← h]; intro k; rfl⟩, fun h => by simp at h⟩
  | .cons key e r, hf, n => by
    simp only [mapFrag, Bool.and_eq_true] at hf
    have he := C01.eval_refines_spec_ordering hr e hf.1 n
    rw [Spec.Eval.evalMap, evalMapItems]
    refine ⟨fun B hv => ?_, fun herr => ?_⟩
    · obtain ⟨v, hv1, hv⟩ := C01.bind_val hv
      obtain ⟨Br, hv2, hv⟩ := C01.bind_val hv
      obtain ⟨mv, n1, h1, h2⟩ := he.1 v hv1
      obtain ⟨kvs, n2, h4, h5⟩ := (evalMapItems_sim hr r hf.2 n1).1 Br hv2
      simp only [Out.val.injEq] at hv
      rw [h1]; simp only [h4]
      refine ⟨(key, mv) :: kvs, n2, rfl, fun k => ?_⟩
      rw [← hv]
      simp only [Spec.Eval.find, Frame.find]
      split
      · simp [h2]
      · rename_i hk
        rw [find_filter Br key k (by simpa using hk)]; exact h5 k
    · rcases C01.bind_err herr with h | ⟨v, hv1, herr⟩
      · rw [he.2 h]
      · obtain ⟨mv, n1, h1, _⟩ := he.1 v hv1
        rw [h1]
        rcases C01.bind_err herr with h | ⟨vr, _, h⟩
        · simp only [(evalMapItems_sim hr r hf.2 n1).2 h]
        · simp at h

theorem absL_length : ∀ (l : List Value), (absL l).length = l.length
  | [] => rfl
  | _ :: r => by simp [absL, absL_length r]

theorem evalArgs_length {m : EEnv} : ∀ (args : ExprList) (n : Nat) (mvs : List Value) (n' : Nat),
    evalArgs m args n = some (mvs, n') → mvs.length = args.length
  | .nil, n, mvs, n', h => by rw [evalArgs] at h; simp at h; rw [h.1]; rfl
  | .cons e r, n, mvs, n', h => by
    rw [evalArgs] at h
    split at h
    · split at h
      · rename_i vs n2 hr
        simp only [Option.some.injEq, Prod.mk.injEq] at h
        rw [← h.1, List.length_cons, evalArgs_length r _ vs n2 hr, ExprList.length]
      · simp at h
    · simp at h

theorem applyFn_range_arity (vs : List Val) (h : ¬ ([1, 2, 3].contains vs.length = true)) :
    Spec.Eval.applyFn Spec.Eval.nRange vs = .error := by
  rcases vs with _ | ⟨a, _ | ⟨b, _ | ⟨c, _ | ⟨d, r⟩⟩⟩⟩
  · simp [Spec.Eval.applyFn, Spec.Eval.nRange, Spec.Eval.nIsNonnull, Spec.Eval.nLength, Spec.Eval.nKeys, Spec.Eval.nAugmentMap, Spec.Eval.nRound,
      Spec.Eval.nFloor, Spec.Eval.nCeiling, Spec.Eval.nMin, Spec.Eval.nMax, Spec.Eval.nStrContains]
  · simp at h
  · simp at h
  · simp at h
  · simp [Spec.Eval.applyFn, Spec.Eval.nRange, Spec.Eval.nIsNonnull, Spec.Eval.nLength, Spec.Eval.nKeys, Spec.Eval.nAugmentMap, Spec.Eval.nRound,
      Spec.Eval.nFloor, Spec.Eval.nCeiling, Spec.Eval.nMin, Spec.Eval.nMax, Spec.Eval.nStrContains]

/-- `{for $i in range(…)}`: the range call through `evalIn` -/
theorem evalIn_range_sim {g : GEnv} {ctx : Scope} {st : St} {env : Spec.Eval.Env} (hr : Rel g entry ctx st env) (p : Nat)
    (args : ExprList) (hf : fragList args = true) :
    (∀ v, Spec.Eval.eval env (.func p fRange args) = .val v → ∃ id mvs st1, evalIn g (.func p fRange args) ctx st = some (.list id mvs, st1) ∧
        v = .list (absL mvs) ∧ st1.heap = st.heap ∧ st1.out = st.out) ∧
    (Spec.Eval.eval env (.func p fRange args) = .error → evalIn g (.func p fRange args) ctx st = none) := by
  have h := evalArgs_sim hr.base args hf st.next
  have hloopS : Spec.Eval.isLoopFn fRange = false := by decide
  have hloopM : isLoopFunc fRange = false := by decide
  have har : funcArities fRange = some [1, 2, 3] := by decide
  have hname : fRange = Spec.Eval.nRange := rfl
  have hS : Spec.Eval.eval env (.func p fRange args) = (Spec.Eval.evalList env args).bind fun vs => Spec.Eval.applyFn fRange vs := by
    unfold Spec.Eval.eval
    simp only [hloopS, Bool.false_eq_true, if_false]
  rw [hS]
  refine ⟨fun v hv => ?_, fun herr => ?_⟩
  · obtain ⟨vs, hv1, hv⟩ := C01.bind_val hv
    obtain ⟨mvs, n', h1, h2⟩ := h.1 vs hv1
    rw [hname, ← h2] at hv
    obtain ⟨id, xs, n'', ha, hveq, _⟩ := (range_apply mvs n').1 v hv
    have hlen : [1, 2, 3].contains args.length = true := by
      apply Classical.byContradiction
      intro hc
      have : ¬ ([1, 2, 3].contains (absL mvs).length = true) := by
        rw [absL_length, evalArgs_length args _ mvs n' h1]; exact hc
      rw [applyFn_range_arity _ this] at hv
      simp at hv
    refine ⟨id, xs, { st with next := n'' }, ?_, hveq, rfl, rfl⟩
    have hlen' : ¬(¬args.length = 1 ∧ ¬args.length = 2 ∧ ¬args.length = 3) := by
      intro hc; have : ¬ ([1, 2, 3].contains args.length = true) := by simpa using hc
      exact this hlen
    simp [evalIn, evalE, hloopM, har, hlen', h1, ha]
  · by_cases hlen : [1, 2, 3].contains args.length = true
    · rcases C01.bind_err herr with h' | ⟨vs, hv1, h'⟩
      · simp [evalIn, evalE, hloopM, har, h.2 h']
      · obtain ⟨mvs, n', h1, h2⟩ := h.1 vs hv1
        rw [hname, ← h2] at h'
        simp [evalIn, evalE, hloopM, har, h1, (range_apply mvs n').2 h']
    · have hlen' : ¬args.length = 1 ∧ ¬args.length = 2 ∧ ¬args.length = 3 := by simpa using hlen
      simp [evalIn, evalE, hloopM, har, hlen']

mutual
/-- the interpreter's translation parts as the specification's -/
def toT : MParts → Spec.Eval.TParts
  | .nil => .nil
  | .cons (.raw t) rest => .cons (.raw t) (toT rest)
  | .cons (.ph n) rest => .cons (.ph n) (toT rest)
  | .cons (.plural vn cases) rest => .cons (.plural vn (toTC cases)) (toT rest)
def toTC : MCases → Spec.Eval.TCases
  | .nil => .nil
  | .cons parts rest => .cons (toT parts) (toTC rest)
end

/-- the specification's bundle (if its content is given) is the interpreter's: no bundle flag without a
    bundle, the same translations, the same plural function -/
def BundleOk (g : GEnv) (hasBundle : Bool) (dsem : Option Spec.Eval.LibSem) : Prop :=
  (hasBundle = false → g.msgs = none) ∧
  ∀ B, Spec.Eval.msgsOf dsem = some B →
    ∃ b, g.msgs = some b ∧ (∀ n, B.pluralCase n = b.pluralCase n) ∧ ∀ id, B.message id = (b.message id).map toT

/-- the interpreter's directive implementations compute what the specification's parameter `F` says (where
    `F` says something) -/
def DirAgree (F : Bytes → Val → List Val → Out Val) : Prop :=
  ∀ impl mv margs,
    (∀ v', F impl (absV mv) (absL margs) = .val v' →
      ∃ mv', applyDirective impl mv margs = some mv' ∧ absV mv' = v') ∧
    (F impl (absV mv) (absL margs) = .error → applyDirective impl mv margs = none)

/-- the specification's directive semantics (if one is supplied) is the interpreter's: the same table, and
    implementations that agree -/
def DirOk (g : GEnv) (dsem : Option Spec.Eval.DirSem) : Prop :=
  ∀ D, dsem = some D →
    (∀ name, D.lookup name = (Directives.lookup g.tbl name).map fun e => (e.arities, e.impl, e.cancel)) ∧
    DirAgree D.apply

theorem evalPrintAt_undef {g : GEnv} {esc : Bool} {pos : Nat} {arg : Expr} {dirs : List Directive} {ctx : Scope} {st st1 : St}
    (he : evalIn g arg ctx st = some (.undefined, st1)) : (evalPrintAt g esc pos arg dirs ctx st).cls = .err := by
  unfold evalPrintAt; rw [he]

theorem evalPrintAt_dirs_none {g : GEnv} {esc : Bool} {pos : Nat} {arg : Expr} {dirs : List Directive} {ctx : Scope} {st st1 : St}
    {mv : Value} (he : evalIn g arg ctx st = some (mv, st1))
    (hrun : runDirectives g ctx (dirs ++ obligDirs pos g.oblig) mv esc st1 = none) :
    (evalPrintAt g esc pos arg dirs ctx st).cls = .err := by
  unfold evalPrintAt; rw [he]
  cases mv <;> simp [hrun]

theorem evalPrintAt_str_none {g : GEnv} {esc e' : Bool} {pos : Nat} {arg : Expr} {dirs : List Directive} {ctx : Scope} {st st1 st2 : St}
    {mv r : Value} (he : evalIn g arg ctx st = some (mv, st1))
    (hrun : runDirectives g ctx (dirs ++ obligDirs pos g.oblig) mv esc st1 = some (r, e', st2)) (hs : str r = none) :
    (evalPrintAt g esc pos arg dirs ctx st).cls = .err := by
  unfold evalPrintAt; rw [he]
  cases mv <;> simp [hrun, hs]

theorem evalPrintAt_ok {g : GEnv} {esc e' : Bool} {pos : Nat} {arg : Expr} {dirs : List Directive} {ctx : Scope} {st st1 st2 : St}
    {mv r : Value} {s : Bytes} (he : evalIn g arg ctx st = some (mv, st1)) (hne : mv ≠ .undefined)
    (hrun : runDirectives g ctx (dirs ++ obligDirs pos g.oblig) mv esc st1 = some (r, e', st2)) (hs : str r = some s) :
    evalPrintAt g esc pos arg dirs ctx st = ⟨.ok, ctx, if e' then writeAll st2 (escChunks s) else write st2 s⟩ := by
  unfold evalPrintAt; rw [he]
  cases mv <;> simp_all

section
variable (g : GEnv) (hob : g.oblig = []) (esc : Bool) (call : Registry.Tmpl → Run) (hcall : ∀ t, GoodRun (call t))
  (reg : Registry.Reg) (hasBundle : Bool) (entry : Spec.Eval.Binds) (scall : Registry.Tmpl → Spec.Eval.CallEnv → Out Bytes)
  (dsem : Option Spec.Eval.LibSem)
  (hreg : g.reg = reg) (hmsg : BundleOk g hasBundle dsem) (hdir : DirOk g (Spec.Eval.dirsOf dsem))
  (hcs : ∀ (t : Registry.Tmpl), t ∈ reg → ∀ (cctx : Scope) (s2 : St) (ce : Spec.Eval.CallEnv),
    Rel g ce.entry cctx s2 { vars := ce.entry, loops := [], ij := ce.ij, globals := ce.globals } → Own cctx s2 → ScopeOk cctx s2 →
    AgreeT s2 (call t cctx s2) (scall t ce))

/-- a block whose body agrees command by command agrees as a block -/
theorem block_agree (body : Run) (sbody : Spec.Eval.Env → Out Bytes) (hgood : GoodRun body)
    (hb : ∀ ctx st env, Rel g entry ctx st env → Own ctx st → ScopeOk ctx st →
      ∃ o : Spec.Eval.ROut, (Agree g entry ctx st (body ctx st) o) ∧ sbody env = o.bind fun p => .val p.1)
    (ctx : Scope) (st : St) (env : Spec.Eval.Env) (hr : Rel g entry ctx st env) (hok : ScopeOk ctx st) :
    AgreeB g entry ctx st env (walkBlockOf body ctx st) (sbody env) := by
  obtain ⟨hctx1, hown1, hext1, hout1⟩ := push_spec ctx st
  have hr1 : Rel g entry (push ctx st).1 (push ctx st).2 env := hr.pushed hok
  have hok1 : ScopeOk (push ctx st).1 (push ctx st).2 := by
    intro f hf
    rw [hctx1] at hf
    have hl : (push ctx st).2.heap.length = st.heap.length + 1 := by simp [push]
    rcases List.mem_cons.mp hf with rfl | hf
    · simp [hl]
    · have := hok f hf; omega
  obtain ⟨o, hag, hs⟩ := hb _ _ env hr1 hown1 hok1
  have hg := hgood _ _ hown1
  have hwb := walkBlockOf_good' hgood ctx st
  rw [hs]
  cases o with
  | unspec => simp [Spec.Eval.Out.bind, AgreeB]
  | error =>
    simp only [Spec.Eval.Out.bind, AgreeB]
    simp only [Agree] at hag
    exact walkBlockOf_err hag
  | val p =>
    obtain ⟨out, env'⟩ := p
    simp only [Agree] at hag
    obtain ⟨hcls, hbytes, _⟩ := hag
    have heq := walkBlockOf_ok hcls (hg.ctx_eq hcls)
    simp only [Spec.Eval.Out.bind, AgreeB]
    rw [heq]
    refine ⟨rfl, by rw [hbytes, hout1], ?_⟩
    -- the block's bindings are gone: every lookup through `ctx` reads what it read before
    rw [heq] at hwb
    exact hr.of_ext hwb.ext hok (fun _ _ h => h)

omit hob in
/-- the case values of a {switch}: `matchCase` against the specification's `matchAny` -/
theorem matchCase_sim {ctx : Scope} {env : Spec.Eval.Env} (sv : Value) :
    ∀ (vs : List Expr) (st : St), Rel g entry ctx st env → vs.all (frag) = true →
      (∀ b, Spec.Eval.matchAny env (absV sv) vs = .val b →
        ∃ st1, matchCase g ctx sv vs st = some (b, st1) ∧ st1.heap = st.heap ∧ st1.out = st.out) ∧
      (Spec.Eval.matchAny env (absV sv) vs = .error → matchCase g ctx sv vs st = none) := by
  intro vs
  induction vs with
  | nil =>
    intro st _ _
    refine ⟨fun b hb => ?_, fun h => ?_⟩
    · simp only [Spec.Eval.matchAny, Out.val.injEq] at hb
      exact ⟨st, by simp [matchCase, hb], rfl, rfl⟩
    · simp [Spec.Eval.matchAny] at h
  | cons e r ih =>
    intro st hr hf
    simp only [List.all_cons, Bool.and_eq_true] at hf
    obtain ⟨h1, h2⟩ := evalIn_sim hr e hf.1
    unfold matchCase Spec.Eval.matchAny
    cases hv : Spec.Eval.eval env e with
    | unspec => simp [Spec.Eval.Out.bind]
    | error => simp [Spec.Eval.Out.bind, h2 hv]
    | val v =>
      obtain ⟨mv, st1, he, habs, hheap, hout⟩ := h1 v hv
      obtain ⟨q1, q2⟩ := equals_refines sv mv
      rw [habs] at q1 q2
      simp only [Spec.Eval.Out.bind, he]
      cases hq : Spec.Eval.equalsV (absV sv) v with
      | unspec => simp
      | error => exact absurd hq q2
      | val b =>
        rw [q1 b hq]
        cases b with
        | true =>
          simp only [if_true]
          refine ⟨fun b hb => ?_, fun h => by simp at h⟩
          simp only [Out.val.injEq] at hb
          exact ⟨st1, by rw [hb], hheap, hout⟩
        | false =>
          simp only [Bool.false_eq_true, if_false]
          obtain ⟨i1, i2⟩ := ih st1 (hr.of_heap hheap) hf.2
          refine ⟨fun b hb => ?_, i2⟩
          obtain ⟨st2, hm, hh, ho⟩ := i1 b hb
          exact ⟨st2, hm, by rw [hh, hheap], by rw [ho, hout]⟩

/-- the specification's command list with the environment it ends in -/
def cmdsE : CmdList → Spec.Eval.Env → Spec.Eval.ROut
  | .nil, env => .val ([], env)
  | .cons c rest, env =>
    (Spec.Eval.renderCmd reg hasBundle esc entry scall dsem c env).bind fun r =>
      (cmdsE rest r.2).bind fun r2 => .val (r.1 ++ r2.1, r2.2)

theorem renderCmds_eq : ∀ (cs : CmdList) (env : Spec.Eval.Env),
    Spec.Eval.renderCmds reg hasBundle esc entry scall dsem cs env =
      (cmdsE esc reg hasBundle entry scall dsem cs env).bind fun p => .val p.1
  | .nil, env => by rw [Spec.Eval.renderCmds, cmdsE]; rfl
  | .cons c rest, env => by
    rw [Spec.Eval.renderCmds, cmdsE]
    cases h : Spec.Eval.renderCmd reg hasBundle esc entry scall dsem c env with
    | unspec => rfl
    | error => rfl
    | val r =>
      simp only [Spec.Eval.Out.bind]
      rw [renderCmds_eq rest r.2]
      cases cmdsE esc reg hasBundle entry scall dsem rest r.2 <;> rfl

theorem find_bind (env : Spec.Eval.Env) (name : Bytes) (v : Val) (k : Bytes) :
    (env.bind name v).lookup k = if k == name then v else env.lookup k := by
  simp only [Spec.Eval.Env.bind, Spec.Eval.Env.lookup, Spec.Eval.find]
  by_cases h : name = k
  · subst h; simp
  · have h1 : (name == k) = false := by simpa using h
    have h2 : (k == name) = false := by simpa using fun e => h e.symm
    simp [h1, h2]

/-- binding a value in the top frame corresponds to extending the lexical environment -/
theorem Rel.set {ctx : Scope} {st st2 : St} {env : Spec.Eval.Env} {name : Bytes} {mv : Value}
    (hr : Rel g entry ctx st env) (hown : Own ctx st) (hs : Eval.set ctx st name mv = some st2) :
    Rel g entry ctx st2 (env.bind name (absV mv)) := by
  refine ⟨⟨fun k hk => ?_, hr.base.globals, hr.base.ij⟩, hr.ent.of_ext_top (set_ext hown hs)⟩
  show absV (lookup st2.heap ctx k) = _
  rw [lookup_set hown hs k, find_bind]
  split
  · rfl
  · exact hr.base.vars k hk

omit hob hcall hreg hmsg hdir hcs in
/-- A loop over `$x` changes the lookup of NO variable name other than `x`: in the frame an iteration runs in
    (pushed, then `x.lastIndex`, `x`, `x.index` bound — the three `set`s of the {foreach} walk) every name
    without a '.' other than `x` reads what it read before the loop.  (The bookkeeping names contain a '.',
    which no variable name can: the loop hides no variable of the template.) -/
theorem loop_hides_only_its_variable (var : Bytes) (x : Value) (last i : Int64) (ctx : Scope) (st st2 st3 st4 : St)
    (hok : ScopeOk ctx st)
    (h2 : Eval.set (push ctx st).1 (push ctx st).2 (var ++ sLastIndexSuffix) (.int last) = some st2)
    (h3 : Eval.set (push ctx st).1 st2 var x = some st3)
    (h4 : Eval.set (push ctx st).1 st3 (var ++ sIndexSuffix) (.int i) = some st4) :
    ∀ k, k ≠ var → (46 : UInt8) ∉ k → lookup st4.heap (push ctx st).1 k = lookup st.heap ctx k := by
  intro k hk hdot
  obtain ⟨_, hown1, _, _⟩ := push_spec ctx st
  have own2 := hown1.ext (set_ext hown1 h2)
  have own3 := own2.ext (set_ext own2 h3)
  rw [lookup_set own3 h4 k, lookup_set own2 h3 k, lookup_set hown1 h2 k, lookup_push ctx st hok k]
  have n1 : (k == var ++ sIndexSuffix) = false := by
    apply beq_false_of_ne; intro e; apply hdot; rw [e]; simp [sIndexSuffix]
  have n2 : (k == var ++ sLastIndexSuffix) = false := by
    apply beq_false_of_ne; intro e; apply hdot; rw [e]; simp [sLastIndexSuffix]
  have n3 : (k == var) = false := by simpa using hk
  simp [n1, n2, n3]

omit hob in
/-- the iterations of a {foreach}: each runs in a frame of its own that binds the loop variable (and the
    helpers, which the fragment cannot read); afterwards every binding is what it was -/
theorem loop_agree (body : Run) (sbody : Spec.Eval.Env → Out Bytes) (hgood : GoodRun body)
    (hb : ∀ ctx st env, Rel g entry ctx st env → Own ctx st → ScopeOk ctx st →
      ∃ o : Spec.Eval.ROut, (Agree g entry ctx st (body ctx st) o) ∧ sbody env = o.bind fun p => .val p.1)
    (var : Bytes) (last : Int) (lastN : Nat) :
    ∀ (xs : List Value) (i : Nat) (ctx : Scope) (st : St) (env : Spec.Eval.Env),
      Rel g entry ctx st env → ScopeOk ctx st →
      AgreeB g entry ctx st env (forLoop body var last xs i ctx st) (Spec.Eval.loopSpec sbody env var lastN (absL xs) i) := by
  intro xs
  induction xs with
  | nil => intro i ctx st env hr _; unfold forLoop; rw [absL, Spec.Eval.loopSpec]; exact ⟨rfl, by simp, hr⟩
  | cons x rest ih =>
    intro i ctx st env hr hok
    obtain ⟨hctx1, hown1, hext1, hout1⟩ := push_spec ctx st
    have htop : top (push ctx st).1 = st.heap.length := by rw [hctx1]; rfl
    have fresh : ∀ {s' : St}, Ext (fun i => i = top (push ctx st).1) (push ctx st).2 s' → Ext (fun _ => False) st s' :=
      fun e => (hext1 (fun _ => False)).trans e (fun i hi hw => by rw [htop] at hw; omega)
    unfold forLoop
    rw [absL, Spec.Eval.loopSpec]
    simp only
    cases h2 : Eval.set (push ctx st).1 (push ctx st).2 (var ++ sLastIndexSuffix) (.int (Int64.ofInt last)) with
    | none => exact absurd h2 (set_ne_none hown1)
    | some st2 =>
      have e2 := set_ext hown1 h2
      have own2 := hown1.ext e2
      simp only
      cases h3 : Eval.set (push ctx st).1 st2 var x with
      | none => exact absurd h3 (set_ne_none own2)
      | some st3 =>
        have e3 := e2.trans (set_ext own2 h3) (fun _ _ h => h)
        have own3 := hown1.ext e3
        simp only
        cases h4 : Eval.set (push ctx st).1 st3 (var ++ sIndexSuffix) (.int (Int64.ofInt i)) with
        | none => exact absurd h4 (set_ne_none own3)
        | some st4 =>
          have e4 := e3.trans (set_ext own3 h4) (fun _ _ h => h)
          have own4 := hown1.ext e4
          simp only
          -- the iteration's environment
          have hlk : ∀ k, lookup st4.heap (push ctx st).1 k =
              if k == var ++ sIndexSuffix then .int (Int64.ofInt i)
              else if k == var then x
              else if k == var ++ sLastIndexSuffix then .int (Int64.ofInt last)
              else lookup st.heap ctx k := by
            intro k
            rw [lookup_set own3 h4 k, lookup_set own2 h3 k, lookup_set hown1 h2 k, lookup_push ctx st hok k]
          have hr4 : Rel g entry (push ctx st).1 st4 { (env.bind var (absV x)) with loops := (var, i, lastN) :: env.loops } := by
            refine ⟨⟨fun k hk => ?_, hr.base.globals, hr.base.ij⟩, (hr.pushed hok).ent.of_ext_top e4⟩
            show absV (lookup st4.heap (push ctx st).1 k) = (env.bind var (absV x)).lookup k
            rw [hlk k, find_bind]
            have n1 : (k == var ++ sIndexSuffix) = false := by
              apply beq_false_of_ne; intro e; rw [e, helper_index] at hk; cases hk
            have n2 : (k == var ++ sLastIndexSuffix) = false := by
              apply beq_false_of_ne; intro e; rw [e, helper_last] at hk; cases hk
            simp only [n1, n2, Bool.false_eq_true, if_false]
            split
            · rfl
            · exact hr.base.vars k hk
          have hok4 : ScopeOk (push ctx st).1 st4 := by
            intro f hf
            rw [hctx1] at hf
            have hl : st.heap.length + 1 ≤ st4.heap.length := by
              have := e4.len; simp [push] at this; omega
            rcases List.mem_cons.mp hf with rfl | hf
            · simp only; omega
            · have := hok f hf; omega
          obtain ⟨o, hag, hs⟩ := hb _ st4 _ hr4 own4 hok4
          have hg := hgood _ st4 own4
          have e5 := e4.trans hg.ext (fun _ _ h => h)
          have hout4 : st4.out = st.out := by
            rw [Refine.set_out h4, Refine.set_out h3, Refine.set_out h2]; exact hout1
          rw [hs]
          cases o with
          | unspec => simp [Spec.Eval.Out.bind, AgreeB]
          | error =>
            simp only [Agree] at hag
            simp [Spec.Eval.Out.bind, AgreeB, hag]
          | val q =>
            obtain ⟨out, env'⟩ := q
            simp only [Agree] at hag
            obtain ⟨hcls, hbytes, _⟩ := hag
            simp only [Spec.Eval.Out.bind, hcls]
            rw [hg.ctx_eq hcls, hctx1]
            simp only [pop_cons]
            have hext : Ext (fun _ => False) st (body (push ctx st).1 st4).st := fresh e5
            have hr5 : Rel g entry ctx (body (push ctx st).1 st4).st env := hr.of_ext hext hok (fun _ _ h => h)
            have hok5 : ScopeOk ctx (body (push ctx st).1 st4).st := fun f hf' => Nat.lt_of_lt_of_le (hok f hf') hext.len
            have hi := ih (i + 1) ctx _ env hr5 hok5
            rw [hctx1] at hi hbytes
            cases hl : Spec.Eval.loopSpec sbody env var lastN (absL rest) (i + 1) with
            | unspec => simp [AgreeB]
            | error => rw [hl] at hi; simpa [AgreeB] using hi
            | val more =>
              rw [hl] at hi
              simp only [AgreeB] at hi ⊢
              exact ⟨hi.1, by rw [hi.2.1, hbytes, hout4]; simp, hi.2.2⟩

omit hob hcall hreg hcs in
theorem find_cons (B : Spec.Eval.Binds) (key : Bytes) (v : Val) (k : Bytes) :
    Spec.Eval.find ((key, v) :: B) k = if k == key then some v else Spec.Eval.find B k := by
  simp only [Spec.Eval.find]
  by_cases h : key = k
  · subst h; simp
  · have h1 : (key == k) = false := by simpa using h
    have h2 : (k == key) = false := by simpa using fun e => h e.symm
    simp [h1, h2]

/-- the params of a call against the specification's: the callee's data scope `cd` binds them over `B` -/
def AgreeP (cd : Scope) (st : St) (B : Spec.Eval.Binds) (r : R) : Out Spec.Eval.Binds → Prop
  | .val R => r.cls = .ok ∧ FrameRel r.st.heap cd (R ++ B) ∧ r.st.out = st.out
  | .error => r.cls = .err
  | .unspec => True

/-- the evaluation of `E` agrees with the specification's: the same value (up to identities), no change of
    the heap or of the output -/
def ValSim (g : GEnv) (E : Expr) (ctx : Scope) (st : St) (env : Spec.Eval.Env) : Prop :=
  (∀ v, Spec.Eval.eval env E = .val v → ∃ mv st1, evalIn g E ctx st = some (mv, st1) ∧ absV mv = v ∧
      st1.heap = st.heap ∧ st1.out = st.out) ∧
  (Spec.Eval.eval env E = .error → evalIn g E ctx st = none)

/-- a list-valued evaluation (a list literal, a range) in the `ValSim` form -/
theorem ValSim.of_list {E : Expr} {ctx : Scope} {st : St} {env : Spec.Eval.Env}
    (h : (∀ v, Spec.Eval.eval env E = .val v → ∃ id mvs st1, evalIn g E ctx st = some (.list id mvs, st1) ∧
          v = .list (absL mvs) ∧ st1.heap = st.heap ∧ st1.out = st.out) ∧
        (Spec.Eval.eval env E = .error → evalIn g E ctx st = none)) : ValSim g E ctx st env := by
  refine ⟨fun v hv => ?_, h.2⟩
  obtain ⟨id, mvs, st1, he, hveq, hh, ho⟩ := h.1 v hv
  exact ⟨.list id mvs, st1, he, by rw [hveq]; rfl, hh, ho⟩

/-- a variable (not `$ij`, not a loop helper): whatever it holds -/
theorem ValSim.of_var {ctx : Scope} {st : St} {env : Spec.Eval.Env} (hr : Rel g entry ctx st env) (p : Nat) (key : Bytes)
    (hk : (key == sIj) = false) (hh : C01.isHelper key = false) : ValSim g (.dataRef p key .nil) ctx st env := by
  have hk2 : (key == Spec.Eval.sIj) = false := hk
  have hS : Spec.Eval.eval env (.dataRef p key .nil) = .val (env.lookup key) := by
    rw [Spec.Eval.eval]; simp only [hk2, Bool.false_eq_true, if_false, Spec.Eval.evalAcc]
  have hM : evalIn g (.dataRef p key .nil) ctx st = some (lookup st.heap ctx key, st) := by
    simp [evalIn, evalE, hk, evalAccesses, eenv]
  rw [ValSim, hS]
  refine ⟨fun v hv => ?_, fun h => by simp at h⟩
  simp only [Out.val.injEq] at hv
  exact ⟨_, st, hM, by rw [← hv]; exact hr.base.vars key hh, rfl, rfl⟩

/-- what a loop ranges over, in the `ValSim` form -/
theorem listFrag_sim {ctx : Scope} {st : St} {env : Spec.Eval.Env} (hr : Rel g entry ctx st env) (E : Expr)
    (hf : listFrag E = true) : ValSim g E ctx st env := evalIn_sim hr E hf

/-- a map-valued evaluation against the specification's: the same bindings -/
def MapSim (v : Val) : Value → Prop
  | .map _ kvs => ∃ B, v = .map B ∧ (∀ k, Spec.Eval.find B k = (Frame.find kvs k).map absV)
  | _ => ∀ B, v ≠ .map B

/-- the evaluation of a {call}'s data expression agrees with the specification's -/
def DataSim (g : GEnv) (d : Expr) (ctx : Scope) (st : St) (env : Spec.Eval.Env) : Prop :=
  (∀ v, Spec.Eval.eval env d = .val v → ∃ mv st1, evalIn g d ctx st = some (mv, st1) ∧ MapSim v mv ∧
      st1.heap = st.heap ∧ st1.out = st.out) ∧
  (Spec.Eval.eval env d = .error → evalIn g d ctx st = none)

theorem DataSim.of_valSim {d : Expr} {ctx : Scope} {st : St} {env : Spec.Eval.Env}
    (h : ValSim g d ctx st env) : DataSim g d ctx st env := by
  refine ⟨fun v hv => ?_, h.2⟩
  obtain ⟨mv, st1, he, habs, hh, ho⟩ := h.1 v hv
  refine ⟨mv, st1, he, ?_, hh, ho⟩
  cases mv with
  | map id kvs =>
    exact ⟨absK kvs, by rw [← habs]; rfl, find_absK kvs⟩
  | _ => intro B hB; rw [← habs] at hB; simp [absV] at hB

/-- what a {call} passes as data, in the `DataSim` form -/
theorem dataFrag_sim {ctx : Scope} {st : St} {env : Spec.Eval.Env} (hr : Rel g entry ctx st env) (d : Expr)
    (hf : dataFrag d = true) : DataSim g d ctx st env := by
  by_cases hfr : frag d = true
  · exact DataSim.of_valSim g (evalIn_sim hr d hfr)
  · have hfr' : frag d = false := by simpa using hfr
    simp only [dataFrag, hfr', Bool.false_or] at hf
    cases d with
    | map p items =>
      have h := evalMapItems_sim hr.base items hf st.next
      rw [DataSim, Spec.Eval.eval]
      refine ⟨fun v hv => ?_, fun herr => ?_⟩
      · obtain ⟨B, hv1, hv⟩ := C01.bind_val hv
        obtain ⟨kvs, n', h1, h2⟩ := h.1 B hv1
        simp only [Out.val.injEq] at hv
        refine ⟨.map n' kvs, { st with next := n' + 1 }, by simp [evalIn, evalE, h1], ⟨B, hv.symm, h2⟩, rfl, rfl⟩
      · rcases C01.bind_err herr with h' | ⟨vs, _, h'⟩
        · simp [evalIn, evalE, h.2 h']
        · simp at h'
    | _ => simp at hf

/-- a list of expressions (the arguments of a directive), left to right -/
theorem evalList_sim {ctx : Scope} {env : Spec.Eval.Env} : ∀ (es : List Expr), es.all (frag) = true → ∀ (st : St),
    Rel g entry ctx st env →
    (∀ vs, Spec.Eval.evalAll env es = .val vs → ∃ mvs st1, evalList g ctx es st = some (mvs, st1) ∧ absL mvs = vs ∧ st1.heap = st.heap ∧ st1.out = st.out) ∧
    (Spec.Eval.evalAll env es = .error → evalList g ctx es st = none)
  | [], _, st, _ => by
    rw [Spec.Eval.evalAll, evalList]
    exact ⟨fun vs h => by simp only [Out.val.injEq] at h; exact ⟨[], st, rfl, by rw [← h]; rfl, rfl, rfl⟩, fun h => by simp at h⟩
  | e :: r, hf, st, hr => by
    simp only [List.all_cons, Bool.and_eq_true] at hf
    obtain ⟨h1, h2⟩ := evalIn_sim hr e hf.1
    rw [Spec.Eval.evalAll, evalList]
    refine ⟨fun vs hv => ?_, fun herr => ?_⟩
    · obtain ⟨v, hv1, hv⟩ := C01.bind_val hv
      obtain ⟨vr, hv2, hv⟩ := C01.bind_val hv
      obtain ⟨mv, st1, he, habs, hh, ho⟩ := h1 v hv1
      obtain ⟨mvs, st2, hes, habs2, hh2, ho2⟩ := (evalList_sim r hf.2 st1 (hr.of_heap hh)).1 vr hv2
      simp only [Out.val.injEq] at hv
      rw [he]; simp only [hes]
      exact ⟨mv :: mvs, st2, rfl, by rw [← hv, absL, habs, habs2], by rw [hh2, hh], by rw [ho2, ho]⟩
    · rcases C01.bind_err herr with h | ⟨v, hv1, herr⟩
      · rw [h2 h]
      · obtain ⟨mv, st1, he, _, hh, _⟩ := h1 v hv1
        rw [he]
        rcases C01.bind_err herr with h | ⟨vr, _, h⟩
        · simp only [(evalList_sim r hf.2 st1 (hr.of_heap hh)).2 h]
        · simp at h

include hdir in
/-- the directive loop of a print: left to right, an unknown name or a wrong number of arguments fails,
    a cancelling directive clears the escape flag -/
theorem runDirectives_sim {ctx : Scope} {env : Spec.Eval.Env} : ∀ (ds : List Directive), dirsFrag ds = true →
    ∀ (mv : Value) (esc : Bool) (st : St), Rel g entry ctx st env →
    (∀ r, Spec.Eval.runDirs (Spec.Eval.dirsOf dsem) env ds (absV mv) esc = .val r → ∃ mv' st2,
        runDirectives g ctx ds mv esc st = some (mv', r.2, st2) ∧ absV mv' = r.1 ∧
        st2.heap = st.heap ∧ st2.out = st.out) ∧
    (Spec.Eval.runDirs (Spec.Eval.dirsOf dsem) env ds (absV mv) esc = .error → runDirectives g ctx ds mv esc st = none)
  | [], _, mv, esc, st, _ => by
    rw [Spec.Eval.runDirs, runDirectives]
    exact ⟨fun r h => by simp only [Out.val.injEq] at h; subst h; exact ⟨mv, st, rfl, rfl, rfl, rfl⟩, fun h => by simp at h⟩
  | d :: ds, hf, mv, esc, st, hr => by
    simp only [dirsFrag, List.all_cons, Bool.and_eq_true] at hf
    have ihds := runDirectives_sim (ctx := ctx) (env := env) ds hf.2
    cases hD : Spec.Eval.dirsOf dsem with
    | none => rw [Spec.Eval.runDirs]; exact ⟨fun r h => by simp at h, fun h => by simp at h⟩
    | some D =>
      rw [hD] at ihds
      rw [Spec.Eval.runDirs, runDirectives]
      obtain ⟨hlk, hF⟩ := hdir D hD
      simp only [hlk d.name]
      cases hL : Directives.lookup g.tbl d.name with
      | none => exact ⟨fun r h => by simp at h, fun _ => rfl⟩
      | some e =>
        simp only [Option.map_some, Directives.checkNumArgs]
        by_cases har : (!e.arities.any (· == d.args.length)) = true
        · simp only [har, if_true]
          exact ⟨fun r h => by simp at h, fun _ => trivial⟩
        · simp only [har, Bool.false_eq_true, if_false]
          obtain ⟨ha1, ha2⟩ := evalList_sim g entry d.args hf.1 st hr
          refine ⟨fun r hv => ?_, fun herr => ?_⟩
          · obtain ⟨args, hv1, hv⟩ := C01.bind_val hv
            obtain ⟨v', hv2, hv⟩ := C01.bind_val hv
            obtain ⟨margs, st1, hes, habs, hh, ho⟩ := ha1 args hv1
            subst habs
            obtain ⟨mv', hap, habs'⟩ := (hF e.impl mv margs).1 v' hv2
            subst habs'
            obtain ⟨mv2, st2, hrun, h3, h5, h6⟩ :=
              (ihds mv' (if e.cancel then false else esc) st1 (hr.of_heap hh)).1 r hv
            simp only [hes, hap]
            exact ⟨mv2, st2, hrun, h3, by rw [h5, hh], by rw [h6, ho]⟩
          · rcases C01.bind_err herr with h | ⟨args, hv1, herr⟩
            · simp only [ha2 h]
            · obtain ⟨margs, st1, hes, habs, hh, ho⟩ := ha1 args hv1
              subst habs
              simp only [hes]
              rcases C01.bind_err herr with h | ⟨v', hv2, herr⟩
              · simp only [(hF e.impl mv margs).2 h]
              · obtain ⟨mv', hap, habs'⟩ := (hF e.impl mv margs).1 v' hv2
                subst habs'
                simp only [hap]
                exact (ihds mv' (if e.cancel then false else esc) st1 (hr.of_heap hh)).2 herr

/-! ### a {msg} rendered through a translation -/

/-- the placeholder runs of a message against the specification's: same depths, same names, runs that agree -/
inductive PhRel (g : GEnv) (entry : Spec.Eval.Binds) :
    List (Nat × Bytes × Run) → List (Nat × Bytes × (Spec.Eval.Env → Spec.Eval.ROut)) → Prop where
  | nil : PhRel g entry [] []
  | cons {d : Nat} {n : Bytes} {run : Run} {f : Spec.Eval.Env → Spec.Eval.ROut} {l l'} :
      GoodRun run →
      (∀ ctx st env, Rel g entry ctx st env → Own ctx st → ScopeOk ctx st → Agree g entry ctx st (run ctx st) (f env)) →
      PhRel g entry l l' → PhRel g entry ((d, n, run) :: l) ((d, n, f) :: l')

omit hob hcall hreg hmsg hdir hcs in
theorem PhRel.append {l1 l2 : List (Nat × Bytes × Run)} {m1 m2} (h1 : PhRel g entry l1 m1) (h2 : PhRel g entry l2 m2) :
    PhRel g entry (l1 ++ l2) (m1 ++ m2) := by
  induction h1 with
  | nil => exact h2
  | cons hg ha _ ih => exact .cons hg ha ih

omit hob hcall hreg hmsg hdir hcs in
theorem PhRel.good {l : List (Nat × Bytes × Run)} {m} (h : PhRel g entry l m) : ∀ e ∈ l, GoodRun e.2.2 := by
  induction h with
  | nil => intro e he; cases he
  | cons hg _ _ ih =>
    intro e he
    rcases List.mem_cons.mp he with rfl | he
    · exact hg
    · exact ih e he

/-- what `pickPh` and the specification's `pickPhS` hold: nothing on both sides, or runs that agree -/
def PickRel (g : GEnv) (entry : Spec.Eval.Binds) :
    Option (Nat × Run) → Option (Nat × (Spec.Eval.Env → Spec.Eval.ROut)) → Prop
  | none, none => True
  | some (d, run), some (d', f) => d = d' ∧ GoodRun run ∧
      ∀ ctx st env, Rel g entry ctx st env → Own ctx st → ScopeOk ctx st → Agree g entry ctx st (run ctx st) (f env)
  | _, _ => False

omit hob hcall hreg hmsg hdir hcs in
/-- the same placeholder is found on both sides -/
theorem pick_rel (name : Bytes) {l : List (Nat × Bytes × Run)} {m} (h : PhRel g entry l m) :
    ∀ best sbest, PickRel g entry best sbest →
      match pickPh name l best, Spec.Eval.pickPhS name m sbest with
      | none, none => True
      | some run, some f => GoodRun run ∧
          ∀ ctx st env, Rel g entry ctx st env → Own ctx st → ScopeOk ctx st → Agree g entry ctx st (run ctx st) (f env)
      | _, _ => False := by
  induction h with
  | nil =>
    intro best sbest hb
    simp only [pickPh, Spec.Eval.pickPhS]
    cases best with
    | none => cases sbest with
      | none => trivial
      | some _ => exact hb.elim
    | some b => cases sbest with
      | none => obtain ⟨_, _⟩ := b; exact hb.elim
      | some sb => obtain ⟨d, run⟩ := b; obtain ⟨d', f⟩ := sb; exact ⟨hb.2.1, hb.2.2⟩
  | @cons d n run f l l' hg ha _ ih =>
    intro best sbest hb
    simp only [pickPh, Spec.Eval.pickPhS]
    by_cases hn : (n == name) = true
    · simp only [hn, if_true]
      cases best with
      | none => cases sbest with
        | none => exact ih (some (d, run)) (some (d, f)) ⟨rfl, hg, ha⟩
        | some _ => exact hb.elim
      | some b => cases sbest with
        | none => obtain ⟨_, _⟩ := b; exact hb.elim
        | some sb =>
          obtain ⟨bd, brun⟩ := b; obtain ⟨bd', bf⟩ := sb
          obtain ⟨hd, h2, h3⟩ := hb
          subst hd
          simp only
          by_cases hlt : d < bd
          · simp only [hlt, if_true]; exact ih (some (d, run)) (some (d, f)) ⟨rfl, hg, ha⟩
          · simp only [hlt, if_false]; exact ih (some (bd, brun)) (some (bd, bf)) ⟨rfl, h2, h3⟩
    · simp only [hn, Bool.false_eq_true, if_false]
      exact ih _ _ hb

omit hob hcall hreg hmsg hdir hcs in
theorem findPlural_eq : ∀ (body : MsgParts) (n : Bytes), findPlural body n = Spec.Eval.findPluralS body n
  | .nil, _ => rfl
  | .text _ _ r, n => by rw [findPlural, Spec.Eval.findPluralS]; exact findPlural_eq r n
  | .ph _ _ _ r, n => by rw [findPlural, Spec.Eval.findPluralS]; exact findPlural_eq r n
  | .plural _ vn v _ _ _ r, n => by
    rw [findPlural, Spec.Eval.findPluralS]
    split
    · rfl
    · exact findPlural_eq r n

omit hob hcall hreg hmsg hdir hcs in
/-- the value of a plural variable is an expression of the fragment -/
theorem findPlural_frag : ∀ (body : MsgParts), partsFrag body = true → ∀ n ve, findPlural body n = some ve → frag ve = true
  | .nil, _, _, _, h => by simp [findPlural] at h
  | .text _ _ r, hf, n, ve, h => by
    rw [findPlural] at h; simp only [partsFrag] at hf; exact findPlural_frag r hf n ve h
  | .ph _ _ _ r, hf, n, ve, h => by
    rw [findPlural] at h; simp only [partsFrag, Bool.and_eq_true] at hf; exact findPlural_frag r hf.2 n ve h
  | .plural _ vn v _ _ _ r, hf, n, ve, h => by
    rw [findPlural] at h
    simp only [partsFrag, Bool.and_eq_true] at hf
    split at h
    · simp only [Option.some.injEq] at h; rw [← h]; exact hf.1.1.1
    · exact findPlural_frag r hf.2 n ve h

section
variable (b : MsgBundle) (hgb : g.msgs = some b) (B : Spec.Eval.MsgSem) (hpl : ∀ n, B.pluralCase n = b.pluralCase n)
  (body : MsgParts) (hbf : partsFrag body = true)
  (phs : List (Nat × Bytes × Run)) (sphs : List (Nat × Bytes × (Spec.Eval.Env → Spec.Eval.ROut)))
  (hrel : PhRel g entry phs sphs)
include hgb hpl hbf hrel
omit hob hcall hreg hmsg hdir hcs

mutual
/-- `evalMsgParts` against the specification's `renderT`: raw text, the placeholder of that name, the plural
    form the bundle selects -/
theorem mparts_agree : (ps : MParts) → ∀ (ctx : Scope) (st : St) (env : Spec.Eval.Env),
    Rel g entry ctx st env → Own ctx st → ScopeOk ctx st →
    Agree g entry ctx st (evalMParts g phs body ps ctx st) (Spec.Eval.renderT B sphs body (toT ps) env)
  | .nil, ctx, st, env, hr, _, _ => by
    rw [evalMParts, toT, Spec.Eval.renderT]; exact ⟨rfl, by simp, hr⟩
  | .cons (.raw t) rest, ctx, st, env, hr, hown, hok => by
    rw [evalMParts, toT, Spec.Eval.renderT]
    have ih := mparts_agree rest ctx (write st t) env (hr.of_heap rfl) (hown.ext (write_ext (fun _ => False) _ t)) hok
    cases hv : Spec.Eval.renderT B sphs body (toT rest) env with
    | unspec => simp [Spec.Eval.Out.bind, Agree]
    | error => rw [hv] at ih; simpa [Spec.Eval.Out.bind, Agree] using ih
    | val q =>
      obtain ⟨o, env'⟩ := q
      rw [hv] at ih
      simp only [Agree] at ih
      simp only [Spec.Eval.Out.bind, Agree]
      refine ⟨ih.1, ?_, ih.2.2⟩
      rw [ih.2.1, bufBytes_write]
      simp
  | .cons (.ph name) rest, ctx, st, env, hr, hown, hok => by
    rw [evalMParts, toT, Spec.Eval.renderT]
    have hp := pick_rel g entry name hrel none none trivial
    cases hm : pickPh name phs none with
    | none =>
      rw [hm] at hp
      cases hs : Spec.Eval.pickPhS name sphs none with
      | none => simp [Agree]
      | some f => rw [hs] at hp; exact hp.elim
    | some run =>
      rw [hm] at hp
      cases hs : Spec.Eval.pickPhS name sphs none with
      | none => rw [hs] at hp; exact hp.elim
      | some f =>
        rw [hs] at hp
        obtain ⟨hgr, hag⟩ := hp
        simp only
        have h1 := hag ctx st env hr hown hok
        have hg := hgr ctx st hown
        cases hv : f env with
        | unspec => simp [Spec.Eval.Out.bind, Agree]
        | error => rw [hv] at h1; simp only [Agree] at h1; simp [Spec.Eval.Out.bind, Agree, h1]
        | val q =>
          obtain ⟨o1, env1⟩ := q
          rw [hv] at h1
          simp only [Agree] at h1
          obtain ⟨hcls, hbytes, hrel1⟩ := h1
          simp only [Spec.Eval.Out.bind, hcls, hg.ctx_eq hcls]
          have hok1 : ScopeOk ctx (run ctx st).st := fun f' hf' => Nat.lt_of_lt_of_le (hok f' hf') hg.ext.len
          have h2 := mparts_agree rest ctx _ env1 hrel1 (hown.ext hg.ext) hok1
          cases hv2 : Spec.Eval.renderT B sphs body (toT rest) env1 with
          | unspec => simp [Agree]
          | error => rw [hv2] at h2; simpa [Agree] using h2
          | val q2 =>
            rw [hv2] at h2
            simp only [Agree] at h2 ⊢
            exact ⟨h2.1, by rw [h2.2.1, hbytes]; simp, h2.2.2⟩
  | .cons (.plural vn cases) rest, ctx, st, env, hr, hown, hok => by
    rw [evalMParts, toT, Spec.Eval.renderT, ← findPlural_eq]
    cases hfp : findPlural body vn with
    | none => simp [Agree]
    | some ve =>
      simp only
      obtain ⟨h1, h2⟩ := evalIn_sim hr ve (findPlural_frag body hbf vn ve hfp)
      cases hv : Spec.Eval.eval env ve with
      | unspec => simp [Spec.Eval.Out.bind, Agree]
      | error => simp [Spec.Eval.Out.bind, Agree, h2 hv]
      | val v =>
        obtain ⟨mv, st1, he, habs, hheap, hout⟩ := h1 v hv
        subst habs
        have hr1 : Rel g entry ctx st1 env := hr.of_heap hheap
        have hok1 : ScopeOk ctx st1 := fun f hf' => by rw [hheap]; exact hok f hf'
        have hown1 : Own ctx st1 := hown.ext (evalIn_ext (fun _ => False) he)
        simp only [Spec.Eval.Out.bind, he]
        cases mv with
        | int i =>
          simp only [absV, hgb, hpl]
          by_cases hneg : b.pluralCase i.toInt < 0
          · simp [hneg, Agree]
          · simp only [hneg, if_false]
            have hc := mcases_agree cases (b.pluralCase i.toInt).toNat ctx st1 env hr1 hown1 hok1
            have hg := evalMCases_good g phs body (PhRel.good g entry hrel) cases (b.pluralCase i.toInt).toNat ctx st1 hown1
            cases hv1 : Spec.Eval.renderTCases B sphs body (toTC cases) (b.pluralCase i.toInt).toNat env with
            | unspec => simp [Agree]
            | error => rw [hv1] at hc; simp only [Agree] at hc; simp [Agree, hc]
            | val q =>
              obtain ⟨o1, env1⟩ := q
              rw [hv1] at hc
              simp only [Agree] at hc
              obtain ⟨hcls, hbytes, hrel1⟩ := hc
              simp only [hcls, hg.ctx_eq hcls]
              have hok2 : ScopeOk ctx (evalMCases g phs body cases (b.pluralCase i.toInt).toNat ctx st1).st :=
                fun f hf' => Nat.lt_of_lt_of_le (hok1 f hf') hg.ext.len
              have h3 := mparts_agree rest ctx _ env1 hrel1 (hown1.ext hg.ext) hok2
              cases hv2 : Spec.Eval.renderT B sphs body (toT rest) env1 with
              | unspec => simp [Agree]
              | error => rw [hv2] at h3; simpa [Agree] using h3
              | val q2 =>
                rw [hv2] at h3
                simp only [Agree] at h3 ⊢
                exact ⟨h3.1, by rw [h3.2.1, hbytes, hout]; simp, h3.2.2⟩
        | undefined => simp [absV, Agree]
        | null => simp [absV, Agree]
        | bool _ => simp [absV, Agree]
        | float _ => simp [absV, Agree]
        | str _ => simp [absV, Agree]
        | list _ _ => simp [absV, Agree]
        | map _ _ => simp [absV, Agree]
theorem mcases_agree : (cs : MCases) → ∀ (n : Nat) (ctx : Scope) (st : St) (env : Spec.Eval.Env),
    Rel g entry ctx st env → Own ctx st → ScopeOk ctx st →
    Agree g entry ctx st (evalMCases g phs body cs n ctx st) (Spec.Eval.renderTCases B sphs body (toTC cs) n env)
  | .nil, n, ctx, st, env, _, _, _ => by rw [evalMCases, toTC, Spec.Eval.renderTCases]; simp [Agree]
  | .cons parts _, 0, ctx, st, env, hr, hown, hok => by
    rw [evalMCases, toTC, Spec.Eval.renderTCases]; exact mparts_agree parts ctx st env hr hown hok
  | .cons _ rest, n + 1, ctx, st, env, hr, hown, hok => by
    rw [evalMCases, toTC, Spec.Eval.renderTCases]; exact mcases_agree rest n ctx st env hr hown hok
end
end

include hcall in
/-- {foreach} / {for}, given the evaluation of its list (`hE`), its body (`hb`) and its {ifempty} block -/
theorem forc_core (p0 : Nat) (var : Bytes) (E : Expr) (body : Block) (ifE : Option Block)
    (ctx : Scope) (st : St) (env : Spec.Eval.Env) (hr : Rel g entry ctx st env) (hok : ScopeOk ctx st)
    (hb : ∀ ctx' st' env', Rel g entry ctx' st' env' → Own ctx' st' → ScopeOk ctx' st' →
        ∃ o : Spec.Eval.ROut, Agree g entry ctx' st' (execBody g esc call body ctx' st') o ∧
          Spec.Eval.renderBlock reg hasBundle esc entry scall dsem body env' = o.bind fun q => .val q.1)
    (hemp : ∀ bE, ifE = some bE → ∀ st1, Rel g entry ctx st1 env → ScopeOk ctx st1 →
        AgreeB g entry ctx st1 env (walkBlockOf (execBody g esc call bE) ctx st1)
          (Spec.Eval.renderBlock reg hasBundle esc entry scall dsem bE env))
    (hE : ValSim g E ctx st env) :
    Agree g entry ctx st (execCmd g esc call (.forc p0 var E body ifE) ctx st)
      (Spec.Eval.renderCmd reg hasBundle esc entry scall dsem (.forc p0 var E body ifE) env) := by
  obtain ⟨h1, h2⟩ := hE
  rw [execCmd, Spec.Eval.renderCmd.eq_def]
  simp only
  cases hv : Spec.Eval.eval env E with
  | unspec => simp [Spec.Eval.Out.bind, Agree]
  | error => simp [Spec.Eval.Out.bind, Agree, h2 hv]
  | val v =>
    obtain ⟨mv, st1, he, hveq, hheap, hout⟩ := h1 v hv
    subst hveq
    have hr1 : Rel g entry ctx st1 env := hr.of_heap hheap
    have hok1 : ScopeOk ctx st1 := fun f hf' => by rw [hheap]; exact hok f hf'
    simp only [Spec.Eval.Out.bind, he]
    cases mv with
    | list id mvs =>
      simp only [absV]
      cases mvs with
      | nil =>
        simp only [List.isEmpty_nil, if_true, absL]
        cases ifE with
        | none => exact ⟨rfl, by rw [hout]; simp, hr1⟩
        | some bE =>
          have hbe := hemp bE rfl st1 hr1 hok1
          simp only
          cases hve : Spec.Eval.renderBlock reg hasBundle esc entry scall dsem bE env with
          | unspec => simp [Spec.Eval.Out.bind, Agree]
          | error => rw [hve] at hbe; simpa [Spec.Eval.Out.bind, Agree, AgreeB] using hbe
          | val out =>
            rw [hve] at hbe
            simp only [AgreeB] at hbe
            exact ⟨hbe.1, by rw [hbe.2.1, hout], hbe.2.2⟩
      | cons x rest =>
        simp only [List.isEmpty_cons, Bool.false_eq_true, if_false, absL]
        have hl := loop_agree g entry (execBody g esc call body) _ (execBody_good g esc call hcall _) hb var
          (((x :: rest).length : Int) - 1) ((absV x :: absL rest).length - 1) (x :: rest) 0 ctx st1 env hr1 hok1
        rw [absL] at hl
        cases hlv : Spec.Eval.loopSpec (Spec.Eval.renderBlock reg hasBundle esc entry scall dsem body) env var
            ((absV x :: absL rest).length - 1) (absV x :: absL rest) 0 with
        | unspec => simp [Agree]
        | error => rw [hlv] at hl; simpa [Agree, AgreeB] using hl
        | val out =>
          rw [hlv] at hl
          simp only [AgreeB] at hl
          exact ⟨hl.1, by rw [hl.2.1, hout], hl.2.2⟩
    | undefined => simp [absV, Agree]
    | null => simp [absV, Agree]
    | bool _ => simp [absV, Agree]
    | int _ => simp [absV, Agree]
    | float _ => simp [absV, Agree]
    | str _ => simp [absV, Agree]
    | map _ _ => simp [absV, Agree]

/-- what `evalCall` does once the callee's data scope `cd` is made: the params into `cd`, enter, the callee -/
def callRest (g : GEnv) (esc : Bool) (call : Registry.Tmpl → Run) (callee : Registry.Tmpl) (ps : ParamList)
    (cd ctx : Scope) (st1 : St) : R :=
  let r := execParams g esc call ps cd ctx st1
  match r.cls with
  | .ok =>
    match enter cd r.st with
    | none => ⟨.err, r.ctx, r.st⟩
    | some (cctx, st2) => ⟨(call callee cctx st2).cls, r.ctx, atNode (call callee cctx st2).st r.st.node⟩
  | _ => r

omit hob hcall hreg hcs in
theorem Agree.of_out {ctx : Scope} {st st0 : St} {r : R} {o : Spec.Eval.ROut} (h : st0.out = st.out)
    (ha : Agree g entry ctx st0 r o) : Agree g entry ctx st r o := by
  cases o with
  | unspec => trivial
  | error => exact ha
  | val q => obtain ⟨out, env'⟩ := q; simp only [Agree] at ha ⊢; rw [← h]; exact ha

include hcall hcs in
omit hob hreg in
/-- a {call} from the point where the callee's data scope `cd = ⟨n, false⟩ :: sc` (a fresh param frame over
    the passed frames `sc`, binding `B`) is made: the params overlay `B`, the callee runs on exactly that -/
theorem call_core (callee : Registry.Tmpl) (hmem : callee ∈ reg) (ps : ParamList)
    (ctx : Scope) (st0 : St) (env : Spec.Eval.Env) (n : Nat) (sc : Scope) (B : Spec.Eval.Binds)
    (own0 : Own (⟨n, false⟩ :: sc) st0)
    (hn : n < st0.heap.length) (hsc0 : ∀ x ∈ sc, x.ref < st0.heap.length)
    (hp : AgreeP (⟨n, false⟩ :: sc) st0 B (execParams g esc call ps (⟨n, false⟩ :: sc) ctx st0)
      (Spec.Eval.renderParams reg hasBundle esc entry scall dsem ps env))
    (hglob : ∀ k, match Frame.find g.globals k with
      | some v => Spec.Eval.find env.globals k = some (absV v)
      | none => Spec.Eval.find env.globals k = none)
    (hrel : Rel g entry ctx (callRest g esc call callee ps (⟨n, false⟩ :: sc) ctx st0).st env) :
    Agree g entry ctx st0 (callRest g esc call callee ps (⟨n, false⟩ :: sc) ctx st0)
      ((Spec.Eval.renderParams reg hasBundle esc entry scall dsem ps env).bind fun R =>
        (scall callee { entry := R ++ B, ij := env.ij, globals := env.globals }).bind fun out => .val (out, env)) := by
  have hpg := execParams_good g esc call hcall ps (⟨n, false⟩ :: sc) ctx st0 own0
  unfold callRest at hrel ⊢
  simp only at hrel ⊢
  cases hpv : Spec.Eval.renderParams reg hasBundle esc entry scall dsem ps env with
  | unspec => simp [Agree, Spec.Eval.Out.bind]
  | error => rw [hpv] at hp; simp only [AgreeP] at hp; simp [Agree, Spec.Eval.Out.bind, hp]
  | val R =>
    rw [hpv] at hp
    simp only [AgreeP] at hp
    obtain ⟨hpc, hpf, hpo⟩ := hp
    simp only [hpc, hpg.ctx_eq hpc, Spec.Eval.Out.bind] at hrel ⊢
    obtain ⟨cctx, s2, hent, ownc, e3, htopc, hcctx⟩ := enter_cons ⟨n, false⟩ sc
      (execParams g esc call ps (⟨n, false⟩ :: sc) ctx st0).st
    rw [hent] at hrel ⊢
    simp only at hrel ⊢
    generalize hP : (execParams g esc call ps (⟨n, false⟩ :: sc) ctx st0).st = P at *
    have hlen : st0.heap.length ≤ P.heap.length := by rw [← hP]; exact hpg.ext.len
    have hcell : n < P.heap.length := Nat.lt_of_lt_of_le hn hlen
    have hsc : ∀ x ∈ (⟨n, true⟩ :: sc : Scope), x.ref < P.heap.length := by
      intro x hx
      simp only [List.mem_cons] at hx
      rcases hx with rfl | hx
      · exact hcell
      · exact Nat.lt_of_lt_of_le (hsc0 x hx) hlen
    have hs2len : P.heap.length ≤ s2.heap.length := (e3 (fun _ => False)).len
    have hs2 : s2.heap.length = P.heap.length + 1 := by
      simp only [enter, push, Option.some.injEq, Prod.mk.injEq] at hent; rw [← hent.2]; simp
    have hokc : ScopeOk cctx s2 := by
      intro f hf'
      rw [hcctx] at hf'
      simp only [List.mem_cons] at hf'
      rcases hf' with rfl | hf'
      · simp only; omega
      · exact Nat.lt_of_lt_of_le (hsc f (by simpa using hf')) hs2len
    have hlk : ∀ k, lookup s2.heap cctx k = lookup P.heap (⟨n, false⟩ :: sc) k := by
      intro k
      have hpe := hent
      simp only [enter, Option.some.injEq] at hpe
      have hc1 : cctx = (push (⟨n, true⟩ :: sc) P).1 := by rw [hpe]
      have hs2' : s2 = (push (⟨n, true⟩ :: sc) P).2 := by rw [hpe]
      rw [hc1, hs2', lookup_push (⟨n, true⟩ :: sc) P hsc k]
      simp [lookup]
    have hrc : Rel g (R ++ B) cctx s2 { vars := R ++ B, loops := [], ij := env.ij, globals := env.globals } := by
      refine ⟨⟨fun k _ => ?_, hglob, hrel.base.ij⟩, ?_⟩
      · show absV (lookup s2.heap cctx k) = _
        rw [hlk k]; exact hpf k
      · -- the callee's entry data: its param frame over the passed frames
        refine ⟨⟨_, false⟩, (⟨n, true⟩ :: sc), (⟨n, true⟩ :: sc), hcctx, rfl, by simp [alldata], ?_, ?_, ?_⟩
        · intro x hx e
          have := hsc x hx; simp only at e; omega
        · intro x hx
          exact Nat.lt_of_lt_of_le (hsc x hx) hs2len
        · intro k
          have hl2 : lookup s2.heap (⟨n, true⟩ :: sc) k = lookup P.heap (⟨n, false⟩ :: sc) k := by
            rw [lookup_ext_W (e3 (fun _ => False)) (⟨n, true⟩ :: sc) hsc (fun _ _ h => h) k]
            simp [lookup]
          rw [hl2]; exact hpf k
    have hct := hcs callee hmem cctx s2 { entry := R ++ B, ij := env.ij, globals := env.globals } hrc ownc hokc
    have hout2 : s2.out = st0.out := by
      simp only [enter, push, Option.some.injEq, Prod.mk.injEq] at hent
      rw [← hent.2]; exact hpo
    cases hsv : scall callee { entry := R ++ B, ij := env.ij, globals := env.globals } with
    | unspec => simp [Agree]
    | error => rw [hsv] at hct; simpa [Agree, AgreeT] using hct
    | val out =>
      rw [hsv] at hct
      simp only [AgreeT] at hct
      simp only [Agree]
      exact ⟨hct.1, by show bufBytes (call callee cctx s2).st.out = _; rw [hct.2, hout2], hrel⟩

include hob hcall hreg hmsg hdir hcs in
mutual
theorem cmd_agree : (c : Cmd) → cfrag c = true → ∀ (ctx : Scope) (st : St) (env : Spec.Eval.Env),
    Rel g entry ctx st env → Own ctx st → ScopeOk ctx st →
    Agree g entry ctx st (execCmd g esc call c ctx st) (Spec.Eval.renderCmd reg hasBundle esc entry scall dsem c env)
  | .rawText _ t, _, ctx, st, env, hr, _, _ => by
    rw [execCmd, Spec.Eval.renderCmd]
    exact ⟨rfl, bufBytes_write st t, hr.of_heap rfl⟩
  | .debugger _, _, ctx, st, env, hr, _, _ => by
    rw [execCmd, Spec.Eval.renderCmd]
    exact ⟨rfl, by simp, hr⟩
  | .headerParam _ _ _ _ _ _, _, ctx, st, env, hr, _, _ => by
    rw [execCmd, Spec.Eval.renderCmd]
    exact ⟨rfl, by simp, hr⟩
  | .soyDoc _ _, _, ctx, st, env, hr, _, _ => by
    rw [execCmd, Spec.Eval.renderCmd]
    exact ⟨rfl, by simp, hr⟩
  | .print pos arg dirs, hf, ctx, st, env, hr, _, _ => by
    simp only [cfrag, Bool.and_eq_true] at hf
    obtain ⟨hfa, hfd⟩ := hf
    rw [execCmd]
    unfold evalPrint
    refine Agree.of_atNode (p := Expr.pos arg) ?_
    have hr0 : Rel g entry ctx (atNode st (Expr.pos arg)) env := hr.of_heap rfl
    clear hr
    generalize atNode st (Expr.pos arg) = st at hr0 ⊢
    have hr := hr0
    obtain ⟨h1, h2⟩ := evalIn_sim hr arg hfa
    rw [Spec.Eval.renderCmd]
    by_cases hU : (!dirs.isEmpty && (Spec.Eval.dirsOf dsem).isNone) = true
    · simp [hU, Agree]
    · simp only [hU, Bool.false_eq_true, if_false]
      cases hv : Spec.Eval.eval env arg with
      | unspec => simp [Spec.Eval.Out.bind, Agree]
      | error =>
        simp only [Spec.Eval.Out.bind, Agree]
        unfold evalPrintAt; simp [h2 hv]
      | val v =>
        obtain ⟨mv, st1, he, habs, hheap, hout⟩ := h1 v hv
        subst habs
        simp only [Spec.Eval.Out.bind]
        by_cases hund : mv = .undefined
        · subst hund
          simp only [absV, Spec.Eval.isUndef, if_true, Agree]
          exact evalPrintAt_undef he
        · have hnu : Spec.Eval.isUndef (absV mv) = false := by cases mv <;> simp_all [absV, Spec.Eval.isUndef]
          simp only [hnu, Bool.false_eq_true, if_false]
          have hd := runDirectives_sim g entry dsem hdir dirs hfd mv esc st1 (hr.of_heap hheap)
          have hdl : dirs ++ obligDirs pos g.oblig = dirs := by rw [hob]; simp [obligDirs]
          cases hrd : Spec.Eval.runDirs (Spec.Eval.dirsOf dsem) env dirs (absV mv) esc with
          | unspec => simp [Agree]
          | error =>
            simp only [Agree]
            exact evalPrintAt_dirs_none he (by rw [hdl]; exact hd.2 hrd)
          | val r =>
            obtain ⟨mv', st2, hrun, habs', hh2, ho2⟩ := hd.1 r hrd
            obtain ⟨s1, s2⟩ := show_val mv'
            rw [habs'] at s1 s2
            simp only
            cases hs : Spec.Eval.showVal r.1 with
            | unspec => simp [Agree]
            | error =>
              simp only [Agree]
              exact evalPrintAt_str_none he (by rw [hdl]; exact hrun) (s2 hs)
            | val s =>
              rw [evalPrintAt_ok he hund (by rw [hdl]; exact hrun) (s1 s hs)]
              simp only [Agree]
              refine ⟨trivial, ?_, ?_⟩
              · cases r.2 <;> simp [bufBytes_write, bufBytes_writeAll, escChunks_flatten, ho2, hout]
              · cases r.2 <;> exact hr.of_heap (by simp [writeAll_heap, write, hh2, hheap])
  | .css _ none suffix, _, ctx, st, env, hr, _, _ => by
    rw [execCmd, Spec.Eval.renderCmd]
    exact ⟨rfl, bufBytes_write st suffix, hr.of_heap rfl⟩
  | .css _ (some e) suffix, hf, ctx, st, env, hr, _, _ => by
    simp only [cfrag, optFrag] at hf
    obtain ⟨h1, h2⟩ := evalIn_sim hr e hf
    rw [execCmd, Spec.Eval.renderCmd]
    cases hv : Spec.Eval.eval env e with
    | unspec => simp [Spec.Eval.Out.bind, Agree]
    | error => simp [Spec.Eval.Out.bind, Agree, h2 hv]
    | val v =>
      obtain ⟨mv, st1, he, habs, hheap, hout⟩ := h1 v hv
      obtain ⟨s1, s2⟩ := show_val mv
      rw [habs] at s1 s2
      simp only [Spec.Eval.Out.bind, he]
      cases hs : Spec.Eval.showVal v with
      | unspec => simp [Agree]
      | error => simp [Agree, s2 hs]
      | val s =>
        simp only [Agree, s1 s hs]
        exact ⟨trivial, by rw [bufBytes_write, hout], hr.of_heap (by simp [write, hheap])⟩
  | .log _ body, hf, ctx, st, env, hr, hown, hok => by
    simp only [cfrag] at hf
    rw [execCmd, Spec.Eval.renderCmd]
    have hb := body_agree body hf ctx { st with out := [] } env (hr.of_heap rfl) hok
    obtain ⟨fc, _, fh, fo, _⟩ := renderBlockOf_facts (execBody g esc call body) ctx st
    cases hv : Spec.Eval.renderBlock reg hasBundle esc entry scall dsem body env with
    | unspec => simp [Spec.Eval.Out.bind, Agree]
    | error => rw [hv] at hb; simp only [AgreeB] at hb; simp [Spec.Eval.Out.bind, Agree, fc, hb]
    | val out =>
      rw [hv] at hb
      simp only [AgreeB] at hb
      simp only [Spec.Eval.Out.bind, Agree]
      exact ⟨by rw [fc]; exact hb.1, by rw [fo]; simp, hb.2.2.of_heap fh⟩
  | .ifc _ conds, hf, ctx, st, env, hr, hown, hok => by
    simp only [cfrag] at hf
    rw [execCmd, Spec.Eval.renderCmd]
    have hc := conds_agree conds hf ctx st env hr hown hok
    cases hv : Spec.Eval.renderConds reg hasBundle esc entry scall dsem conds env with
    | unspec => simp [Spec.Eval.Out.bind, Agree]
    | error => rw [hv] at hc; simpa [Spec.Eval.Out.bind, Agree, AgreeB] using hc
    | val out => rw [hv] at hc; simpa [Spec.Eval.Out.bind, Agree, AgreeB] using hc
  | .letValue _ name e, hf, ctx, st, env, hr, hown, _ => by
    simp only [cfrag] at hf
    obtain ⟨h1, h2⟩ := evalIn_sim hr e hf
    rw [execCmd, Spec.Eval.renderCmd]
    cases hv : Spec.Eval.eval env e with
    | unspec => simp [Spec.Eval.Out.bind, Agree]
    | error => simp [Spec.Eval.Out.bind, Agree, h2 hv]
    | val v =>
      obtain ⟨mv, st1, he, habs, hheap, hout⟩ := h1 v hv
      have hr1 : Rel g entry ctx st1 env := hr.of_heap hheap
      have hown1 : Own ctx st1 := hown.ext (Ext.of_heap_eq (W := fun _ => False) hheap (by
        have := evalIn_ext (fun _ => False) he; exact this.foreign))
      simp only [Spec.Eval.Out.bind, he]
      cases hs : Eval.set ctx st1 name mv with
      | none => exact absurd hs (set_ne_none hown1)
      | some st2 =>
        simp only [Agree]
        refine ⟨trivial, ?_, by rw [← habs]; exact Rel.set g entry hr1 hown1 hs⟩
        have : st2.out = st1.out := by
          obtain ⟨f, r, c, hctx, _, _⟩ := hown1
          subst hctx
          simp only [Eval.set] at hs
          cases hh : heapSet st1.heap f.ref name mv with
          | mk h' ro => rw [hh] at hs; simp only [Option.some.injEq] at hs; rw [← hs]
        simp [this, hout]
  | .letContent _ name body, hf, ctx, st, env, hr, hown, hok => by
    simp only [cfrag] at hf
    rw [execCmd, Spec.Eval.renderCmd]
    have hb := body_agree body hf ctx { st with out := [] } env (hr.of_heap rfl) hok
    have hgood := (renderBlockOf_good' (execBody_good g esc call hcall body) ctx st).1
    obtain ⟨fc, _, fh, fo, fb⟩ := renderBlockOf_facts (execBody g esc call body) ctx st
    generalize renderBlockOf (execBody g esc call body) ctx st = RB at hgood fc fh fo fb ⊢
    cases hv : Spec.Eval.renderBlock reg hasBundle esc entry scall dsem body env with
    | unspec => simp [Spec.Eval.Out.bind, Agree]
    | error => rw [hv] at hb; simp only [AgreeB] at hb; simp [Spec.Eval.Out.bind, Agree, fc, hb]
    | val out =>
      rw [hv] at hb
      simp only [AgreeB] at hb
      obtain ⟨hcls, hbytes, hrel⟩ := hb
      have hcls' : RB.1.cls = .ok := by rw [fc]; exact hcls
      simp only [Spec.Eval.Out.bind, hcls']
      rw [hgood.ctx_eq hcls']
      have hbuf : RB.2 = out := by rw [fb]; simpa [bufBytes] using hbytes
      rw [hbuf]
      have hown2 : Own ctx RB.1.st := hown.ext hgood.ext
      have hrel2 : Rel g entry ctx RB.1.st env := hrel.of_heap fh
      cases hs : Eval.set ctx RB.1.st name (.str out) with
      | none => exact absurd hs (set_ne_none hown2)
      | some st2 =>
        simp only [Agree]
        refine ⟨trivial, ?_, Rel.set g entry hrel2 hown2 hs⟩
        rw [Refine.set_out hs, fo]; simp
  | .msg _ id _ _ _ body, hf, ctx, st, env, hr, hown, hok => by
    simp only [cfrag] at hf
    rw [execCmd, Spec.Eval.renderCmd]
    -- the source path: the message is one block, a fresh frame around its parts
    have hsrc : Agree g entry ctx st (walkBlockOf (walkMsgBody g esc call body) ctx st)
        ((Spec.Eval.renderParts reg hasBundle esc entry scall dsem body env).bind fun r => .val (r.1, env)) := by
      have hb := block_agree g entry (walkMsgBody g esc call body)
        (fun env' => (Spec.Eval.renderParts reg hasBundle esc entry scall dsem body env').bind fun r => .val r.1)
        (walkMsgBody_good g esc call hcall body)
        (fun ctx' st' env' hr' hown' hok' =>
          ⟨Spec.Eval.renderParts reg hasBundle esc entry scall dsem body env', parts_agree body hf ctx' st' env' hr' hown' hok', rfl⟩)
        ctx st env hr hok
      cases hv : Spec.Eval.renderParts reg hasBundle esc entry scall dsem body env with
      | unspec => simp [Spec.Eval.Out.bind, Agree]
      | error => rw [hv] at hb; simpa [Spec.Eval.Out.bind, Agree, AgreeB] using hb
      | val q => rw [hv] at hb; simpa [Spec.Eval.Out.bind, Agree, AgreeB] using hb
    cases hB : hasBundle with
    | false =>
      rw [hB] at hsrc
      simp only [hmsg.1 hB, Bool.not_false, if_true]
      exact hsrc
    | true =>
      rw [hB] at hsrc
      simp only [Bool.not_true, Bool.false_eq_true, if_false]
      cases hM : Spec.Eval.msgsOf dsem with
      | none => simp [Agree]
      | some B =>
        obtain ⟨b, hgb, hpl, hmm⟩ := hmsg.2 B hM
        simp only [hgb, hmm id]
        cases hbm : b.message id with
        | none => simp only [Option.map_none]; exact hsrc
        | some parts =>
          simp only [Option.map_some]
          -- the translation: its parts, the placeholders those of the source
          have hrelp := phAll_rel body hf 0
          have hb := block_agree g entry (evalMParts g (phAll g esc call body 0) body parts)
            (fun env' => (Spec.Eval.renderT B (Spec.Eval.sphAll reg hasBundle esc entry scall dsem body 0) body (toT parts) env').bind
              fun r => .val r.1)
            (evalMParts_good g _ body (phAll_good g esc call hcall body 0) parts)
            (fun ctx' st' env' hr' hown' hok' =>
              ⟨_, mparts_agree g entry b hgb B hpl body hf _ _ hrelp parts ctx' st' env' hr' hown' hok', rfl⟩)
            ctx st env hr hok
          rw [hB] at hb
          cases hv : Spec.Eval.renderT B (Spec.Eval.sphAll reg true esc entry scall dsem body 0) body (toT parts) env with
          | unspec => simp [Spec.Eval.Out.bind, Agree]
          | error => rw [hv] at hb; simpa [Spec.Eval.Out.bind, Agree, AgreeB] using hb
          | val q => rw [hv] at hb; simpa [Spec.Eval.Out.bind, Agree, AgreeB] using hb
  | .forc p0 var E (.mk bp cs) none, hf, ctx, st, env, hr, hown, hok => by
    simp only [cfrag, bfrag, Bool.and_eq_true] at hf
    refine forc_core g esc call hcall reg hasBundle entry scall dsem p0 var E (.mk bp cs) none ctx st env hr hok ?_
      (fun bE h => by cases h) (listFrag_sim g entry hr E hf.1)
    intro ctx' st' env' hr' hown' hok'
    refine ⟨cmdsE esc reg hasBundle entry scall dsem cs env', ?_, ?_⟩
    · rw [execBody]; exact Agree.of_atNode (cmds_agree cs hf.2 ctx' _ env' (hr'.of_heap rfl) (hown'.atNode _) hok')
    · rw [Spec.Eval.renderBlock]; exact renderCmds_eq esc reg hasBundle entry scall dsem cs env'
  | .forc p0 var E (.mk bp cs) (some bE), hf, ctx, st, env, hr, hown, hok => by
    simp only [cfrag, bfrag, Bool.and_eq_true] at hf
    refine forc_core g esc call hcall reg hasBundle entry scall dsem p0 var E (.mk bp cs) (some bE) ctx st env hr hok ?_
      (fun bE' h st1 hr1 hok1 => by
        simp only [Option.some.injEq] at h; subst h
        exact body_agree bE hf.2 ctx st1 env hr1 hok1) (listFrag_sim g entry hr E hf.1.1)
    intro ctx' st' env' hr' hown' hok'
    refine ⟨cmdsE esc reg hasBundle entry scall dsem cs env', ?_, ?_⟩
    · rw [execBody]; exact Agree.of_atNode (cmds_agree cs hf.1.2 ctx' _ env' (hr'.of_heap rfl) (hown'.atNode _) hok')
    · rw [Spec.Eval.renderBlock]; exact renderCmds_eq esc reg hasBundle entry scall dsem cs env'
  | .switch _ value cases, hf, ctx, st, env, hr, hown, hok => by
    simp only [cfrag, Bool.and_eq_true] at hf
    obtain ⟨h1, h2⟩ := evalIn_sim hr value hf.1
    rw [execCmd, Spec.Eval.renderCmd]
    cases hv : Spec.Eval.eval env value with
    | unspec => simp [Spec.Eval.Out.bind, Agree]
    | error => simp [Spec.Eval.Out.bind, Agree, h2 hv]
    | val v =>
      obtain ⟨mv, st1, he, habs, hheap, hout⟩ := h1 v hv
      have hr1 : Rel g entry ctx st1 env := hr.of_heap hheap
      have hok1 : ScopeOk ctx st1 := fun f hf' => by rw [hheap]; exact hok f hf'
      have hown1 : Own ctx st1 := hown.ext (evalIn_ext (fun _ => False) he)
      have hc := cases_agree cases mv hf.2 none none (Or.inl ⟨rfl, rfl⟩) ctx st1 env hr1 hown1 hok1
      rw [habs] at hc
      have hrc : Spec.Eval.renderCases reg hasBundle esc entry scall dsem cases v env =
          (Spec.Eval.renderMatch reg hasBundle esc entry scall dsem cases v env).bind
            (specRest none (Spec.Eval.renderDefault reg hasBundle esc entry scall dsem cases env) env) := by
        rw [Spec.Eval.renderCases]; congr 1
      rw [← hrc] at hc
      have hsw : ((Spec.Eval.renderMatch reg hasBundle esc entry scall dsem cases v env).bind
          (Spec.Eval.orDefault fun _ => Spec.Eval.renderDefault reg hasBundle esc entry scall dsem cases env)) =
          Spec.Eval.renderCases reg hasBundle esc entry scall dsem cases v env := rfl
      simp only [he]
      rw [Spec.Eval.Out.bind]
      simp only [hsw]
      cases hcv : Spec.Eval.renderCases reg hasBundle esc entry scall dsem cases v env with
      | unspec => simp [Agree, Spec.Eval.Out.bind]
      | error => rw [hcv] at hc; simpa [Agree, AgreeB, Spec.Eval.Out.bind] using hc
      | val out =>
        rw [hcv] at hc
        simp only [AgreeB] at hc
        simp only [Spec.Eval.Out.bind, Agree]
        exact ⟨hc.1, by rw [hc.2.1, hout], hc.2.2⟩
  | .call p name true (some d) ps, hf, _, _, _, _, _, _ => by simp [cfrag] at hf
  | .call p name false (some d) ps, hf, ctx, st, env, hr, hown, hok => by
    simp only [cfrag, Bool.and_eq_true] at hf
    obtain ⟨hD1, hD2⟩ := dataFrag_sim g entry hr d hf.1
    have hgood := C02.block_cmd_scoped g esc call hcall (.call p name false (some d) ps) (by intros; simp) (by intros; simp) ctx st hown
    have hrel : Rel g entry ctx (execCmd g esc call (.call p name false (some d) ps) ctx st).st env :=
      hr.of_ext hgood.ext hok (fun _ _ h => h)
    rw [execCmd] at hrel ⊢
    rw [Spec.Eval.renderCmd, hreg]
    rw [hreg] at hrel
    cases hl : Registry.lookup reg name with
    | none => simp [Agree]
    | some callee =>
      rw [hl] at hrel
      simp only [Bool.false_eq_true, if_false] at hrel ⊢
      cases hv : Spec.Eval.eval env d with
      | unspec => simp [Spec.Eval.Out.bind, Agree]
      | error => simp [Spec.Eval.Out.bind, Agree, callData, hD2 hv]
      | val v =>
        obtain ⟨mv, st1, he, hms, hheap, hout⟩ := hD1 v hv
        cases mv with
        | map id kvs =>
          obtain ⟨B, rfl, hfind⟩ := hms
          have hcd : callData g false (some d) ctx st = some (⟨st1.heap.length + 1, false⟩ :: [⟨st1.heap.length, false⟩],
              { st1 with heap := st1.heap ++ [⟨kvs, true⟩, ⟨[], false⟩] }) := by
            simp [callData, he, newScope, push]
          rw [hcd] at hrel ⊢
          simp only [Spec.Eval.Out.bind] at hrel ⊢
          have own0 : Own (⟨st1.heap.length + 1, false⟩ :: [⟨st1.heap.length, false⟩])
              { st1 with heap := st1.heap ++ [⟨kvs, true⟩, ⟨[], false⟩] } :=
            ⟨⟨st1.heap.length + 1, false⟩, [⟨st1.heap.length, false⟩], ⟨[], false⟩, rfl, by simp, rfl⟩
          have hfr0 : FrameRel ({ st1 with heap := st1.heap ++ [⟨kvs, true⟩, ⟨[], false⟩] } : St).heap
              (⟨st1.heap.length + 1, false⟩ :: [⟨st1.heap.length, false⟩]) B := by
            intro k
            have hl1 : lookup (st1.heap ++ [⟨kvs, true⟩, ⟨[], false⟩]) (⟨st1.heap.length + 1, false⟩ :: [⟨st1.heap.length, false⟩]) k =
                (Frame.find kvs k).getD .undefined := by
              simp [lookup, heapGet, Frame.find]
              cases Frame.find kvs k <;> rfl
            show absV (lookup (st1.heap ++ [⟨kvs, true⟩, ⟨[], false⟩]) _ k) = _
            rw [hl1, hfind k]
            cases hfk : Frame.find kvs k <;> simp [absV]
          have hok1 : ScopeOk ctx st1 := fun f hf' => by rw [hheap]; exact hok f hf'
          have hne : ∀ f ∈ ctx, f.ref ≠ top (⟨st1.heap.length + 1, false⟩ :: [⟨st1.heap.length, false⟩]) := by
            intro f hf' e; have := hok1 f hf'; simp [top] at e; omega
          have hr0 : Rel g entry ctx { st1 with heap := st1.heap ++ [⟨kvs, true⟩, ⟨[], false⟩] } env :=
            (hr.of_heap hheap).of_ext (Ext.append st1 _) hok1 (fun _ _ h => h)
          have hok0 : ScopeOk ctx { st1 with heap := st1.heap ++ [⟨kvs, true⟩, ⟨[], false⟩] } := fun f hf' => by
            have := hok1 f hf'; simp; omega
          have hp := params_agree ps hf.2 _ ctx _ env B hr0 ((show Own ctx st1 from by
              obtain ⟨f, r, c, h1, h2, h3⟩ := hown
              exact ⟨f, r, c, h1, by rw [hheap]; exact h2, h3⟩).ext (Ext.append st1 _)) own0 (by intro f hf'; simp at hf'; rcases hf' with rfl | rfl <;> simp) hfr0 hne hok0
          exact Agree.of_out g entry (st0 := { st1 with heap := st1.heap ++ [⟨kvs, true⟩, ⟨[], false⟩] }) hout
            (call_core g esc call hcall reg hasBundle entry scall dsem hcs callee (List.mem_of_find?_eq_some hl) ps ctx _ env
              (st1.heap.length + 1) [⟨st1.heap.length, false⟩] B own0 (by simp) (by simp) hp hr.base.globals hrel)
        | undefined => cases v <;> first | exact absurd rfl (hms _) | simp [Spec.Eval.Out.bind, Agree, callData, he]
        | null => cases v <;> first | exact absurd rfl (hms _) | simp [Spec.Eval.Out.bind, Agree, callData, he]
        | bool _ => cases v <;> first | exact absurd rfl (hms _) | simp [Spec.Eval.Out.bind, Agree, callData, he]
        | int _ => cases v <;> first | exact absurd rfl (hms _) | simp [Spec.Eval.Out.bind, Agree, callData, he]
        | float _ => cases v <;> first | exact absurd rfl (hms _) | simp [Spec.Eval.Out.bind, Agree, callData, he]
        | str _ => cases v <;> first | exact absurd rfl (hms _) | simp [Spec.Eval.Out.bind, Agree, callData, he]
        | list _ _ => cases v <;> first | exact absurd rfl (hms _) | simp [Spec.Eval.Out.bind, Agree, callData, he]
  | .call p name false none ps, hf, ctx, st, env, hr, hown, hok => by
    simp only [cfrag] at hf
    -- after the call the caller's bindings are what they were (Props/C02 block_cmd_scoped)
    have hgood := C02.block_cmd_scoped g esc call hcall (.call p name false none ps) (by intros; simp) (by intros; simp) ctx st hown
    have hrel : Rel g entry ctx (execCmd g esc call (.call p name false none ps) ctx st).st env :=
      hr.of_ext hgood.ext hok (fun _ _ h => h)
    rw [execCmd] at hrel ⊢
    rw [Spec.Eval.renderCmd, hreg]
    rw [hreg] at hrel
    cases hl : Registry.lookup reg name with
    | none => simp [Agree]
    | some callee =>
      rw [hl] at hrel
      simp only [Bool.false_eq_true, if_false, Spec.Eval.Out.bind] at hrel ⊢
      rw [C02.callee_env_none] at hrel ⊢
      simp only at hrel ⊢
      -- the callee's param frame: a fresh empty map
      have own0 : Own [⟨st.heap.length, false⟩] { st with heap := st.heap ++ [⟨[], false⟩] } :=
        ⟨⟨st.heap.length, false⟩, [], ⟨[], false⟩, rfl, by simp, rfl⟩
      have hfr0 : FrameRel ({ st with heap := st.heap ++ [⟨[], false⟩] } : St).heap [⟨st.heap.length, false⟩] [] := by
        intro k
        simp [lookup, heapGet, Frame.find, Spec.Eval.find, absV]
      have hne : ∀ f ∈ ctx, f.ref ≠ top [⟨st.heap.length, false⟩] := by
        intro f hf' e; have := hok f hf'; simp [top] at e; omega
      have hr0 : Rel g entry ctx { st with heap := st.heap ++ [⟨[], false⟩] } env :=
        hr.of_ext (Ext.append st [⟨[], false⟩]) hok (fun _ _ h => h)
      have hok0 : ScopeOk ctx { st with heap := st.heap ++ [⟨[], false⟩] } := fun f hf' => by
        have := hok f hf'; simp; omega
      have hp := params_agree ps hf [⟨st.heap.length, false⟩] ctx _ env [] hr0 (hown.ext (Ext.append st _)) own0 (by intro f hf'; simp at hf'; subst hf'; simp) hfr0 hne hok0
      exact Agree.of_out g entry (st0 := { st with heap := st.heap ++ [⟨[], false⟩] }) rfl
        (call_core g esc call hcall reg hasBundle entry scall dsem hcs callee (List.mem_of_find?_eq_some hl) ps ctx _ env
          st.heap.length [] [] own0 (by simp) (by simp) hp hr.base.globals hrel)
  | .call p name true none ps, hf, ctx, st, env, hr, hown, hok => by
    simp only [cfrag] at hf
    obtain ⟨f0, r0, sc, hc0, hf0, ha0, hne0, hlt0, hfr0e⟩ := hr.ent
    have halld : alldata ctx = some sc := by rw [hc0, alldata, hf0]; simpa using ha0
    have hgood := C02.block_cmd_scoped g esc call hcall (.call p name true none ps) (by intros; simp) (by intros; simp) ctx st hown
    have hrel : Rel g entry ctx (execCmd g esc call (.call p name true none ps) ctx st).st env :=
      hr.of_ext hgood.ext hok (fun _ _ h => h)
    rw [execCmd] at hrel ⊢
    rw [Spec.Eval.renderCmd, hreg]
    rw [hreg] at hrel
    cases hl : Registry.lookup reg name with
    | none => simp [Agree]
    | some callee =>
      rw [hl] at hrel
      simp only [if_true, Spec.Eval.Out.bind] at hrel ⊢
      have hcd : callData g true none ctx st = some (⟨st.heap.length, false⟩ :: sc, { st with heap := st.heap ++ [⟨[], false⟩] }) := by
        simp [callData, halld, push]
      rw [hcd] at hrel ⊢
      simp only at hrel ⊢
      -- the callee's param frame: a fresh empty map over the frames `alldata` passes
      have own0 : Own (⟨st.heap.length, false⟩ :: sc) { st with heap := st.heap ++ [⟨[], false⟩] } :=
        ⟨⟨st.heap.length, false⟩, sc, ⟨[], false⟩, rfl, by simp, rfl⟩
      have hfr0 : FrameRel ({ st with heap := st.heap ++ [⟨[], false⟩] } : St).heap (⟨st.heap.length, false⟩ :: sc) entry :=
        fun k => by
          have hl' : lookup (st.heap ++ [⟨[], false⟩]) (⟨st.heap.length, false⟩ :: sc) k = lookup st.heap sc k :=
            lookup_push sc st (fun x hx => hlt0 x hx) k
          show absV (lookup (st.heap ++ [⟨[], false⟩]) (⟨st.heap.length, false⟩ :: sc) k) = _
          rw [hl']; exact hfr0e k
      have hne : ∀ f ∈ ctx, f.ref ≠ top (⟨st.heap.length, false⟩ :: sc) := by
        intro f hf' e; have := hok f hf'; simp [top] at e; omega
      have hr0 : Rel g entry ctx { st with heap := st.heap ++ [⟨[], false⟩] } env :=
        hr.of_ext (Ext.append st [⟨[], false⟩]) hok (fun _ _ h => h)
      have hok0 : ScopeOk ctx { st with heap := st.heap ++ [⟨[], false⟩] } := fun f hf' => by
        have := hok f hf'; simp; omega
      have hp := params_agree ps hf (⟨st.heap.length, false⟩ :: sc) ctx _ env entry hr0 (hown.ext (Ext.append st _)) own0 (fun f hf' => by
          simp only [List.mem_cons] at hf'
          rcases hf' with rfl | hf'
          · simp
          · have := hlt0 f hf'; simp; omega) hfr0 hne hok0
      exact Agree.of_out g entry (st0 := { st with heap := st.heap ++ [⟨[], false⟩] }) rfl
        (call_core g esc call hcall reg hasBundle entry scall dsem hcs callee (List.mem_of_find?_eq_some hl) ps ctx _ env
          st.heap.length sc entry own0 (by simp) (fun x hx => by have := hlt0 x hx; simp; omega) hp hr.base.globals hrel)
  | .namespace .., hf, _, _, _, _, _, _ => by simp [cfrag] at hf
  | .template .., hf, _, _, _, _, _, _ => by simp [cfrag] at hf
/-- a block: `walkBlock` against the specification's `renderBlock` -/
theorem body_agree : (b : Block) → bfrag b = true → ∀ (ctx : Scope) (st : St) (env : Spec.Eval.Env),
    Rel g entry ctx st env → ScopeOk ctx st →
    AgreeB g entry ctx st env (walkBlockOf (execBody g esc call b) ctx st) (Spec.Eval.renderBlock reg hasBundle esc entry scall dsem b env)
  | .mk _ cs, hf, ctx, st, env, hr, hok => by
    simp only [bfrag] at hf
    refine block_agree g entry (execBody g esc call (.mk _ cs)) _ (execBody_good g esc call hcall _) ?_ ctx st env hr hok
    intro ctx' st' env' hr' hown' hok'
    refine ⟨cmdsE esc reg hasBundle entry scall dsem cs env', ?_, ?_⟩
    · rw [execBody]; exact Agree.of_atNode (cmds_agree cs hf ctx' _ env' (hr'.of_heap rfl) (hown'.atNode _) hok')
    · rw [Spec.Eval.renderBlock]; exact renderCmds_eq esc reg hasBundle entry scall dsem cs env'
theorem cmds_agree : (cs : CmdList) → csFrag cs = true → ∀ (ctx : Scope) (st : St) (env : Spec.Eval.Env),
    Rel g entry ctx st env → Own ctx st → ScopeOk ctx st →
    Agree g entry ctx st (execCmds g esc call cs ctx st) (cmdsE esc reg hasBundle entry scall dsem cs env)
  | .nil, _, ctx, st, env, hr, _, _ => by
    rw [execCmds, cmdsE]; exact ⟨rfl, by simp, hr⟩
  | .cons c rest, hf, ctx, st, env, hr, hown, hok => by
    simp only [csFrag, Bool.and_eq_true] at hf
    rw [execCmds]
    refine Agree.of_atNode (p := cmdPos c) ?_
    have hr0 : Rel g entry ctx (atNode st (cmdPos c)) env := hr.of_heap rfl
    have hown0 : Own ctx (atNode st (cmdPos c)) := hown.atNode _
    have hok0 : ScopeOk ctx (atNode st (cmdPos c)) := hok
    clear hr hown hok
    generalize atNode st (cmdPos c) = st at hr0 hown0 hok0 ⊢
    have hr := hr0; have hown := hown0; have hok := hok0
    have h1 := cmd_agree c hf.1 ctx st env hr hown hok
    have hg := execCmd_good g esc call hcall c ctx st hown
    rw [cmdsE]
    cases hv : Spec.Eval.renderCmd reg hasBundle esc entry scall dsem c env with
    | unspec => simp [Spec.Eval.Out.bind, Agree]
    | error => rw [hv] at h1; simp only [Agree] at h1; simp [Spec.Eval.Out.bind, Agree, h1]
    | val p =>
      obtain ⟨o1, env1⟩ := p
      rw [hv] at h1
      simp only [Agree] at h1
      obtain ⟨hcls, hbytes, hrel⟩ := h1
      simp only [Spec.Eval.Out.bind, hcls, hg.ctx_eq hcls]
      have hok1 : ScopeOk ctx (execCmd g esc call c ctx st).st := fun f hf' => Nat.lt_of_lt_of_le (hok f hf') hg.ext.len
      have h2 := cmds_agree rest hf.2 ctx _ env1 hrel (hown.ext hg.ext) hok1
      cases hv2 : cmdsE esc reg hasBundle entry scall dsem rest env1 with
      | unspec => simp [Agree]
      | error => rw [hv2] at h2; simpa [Agree] using h2
      | val p2 =>
        rw [hv2] at h2
        simp only [Agree] at h2 ⊢
        exact ⟨h2.1, by rw [h2.2.1, hbytes]; simp, h2.2.2⟩
theorem cases_agree : (cs : CaseList) → (sv : Value) → casesFrag cs = true →
    ∀ (dflt : Option Run) (sd : Option (Spec.Eval.Env → Out Bytes)), DfltRel g entry dflt sd →
    ∀ (ctx : Scope) (st : St) (env : Spec.Eval.Env), Rel g entry ctx st env → Own ctx st → ScopeOk ctx st →
    AgreeB g entry ctx st env (execCases g esc call cs dflt sv ctx st)
      ((Spec.Eval.renderMatch reg hasBundle esc entry scall dsem cs (absV sv) env).bind
        (specRest sd (Spec.Eval.renderDefault reg hasBundle esc entry scall dsem cs env) env))
  | .nil, _, _, dflt, sd, hd, ctx, st, env, hr, hown, hok => by
    rw [execCases, Spec.Eval.renderMatch, Spec.Eval.renderDefault]
    simp only [Spec.Eval.Out.bind]
    rcases hd with ⟨rfl, rfl⟩ | ⟨d, s, rfl, rfl, hds⟩
    · exact ⟨rfl, by simp [runDefault], hr⟩
    · exact hds ctx st env hr hown hok
  | .cons cp values body rest, sv, hf, dflt, sd, hd, ctx, st, env, hr, hown, hok => by
    simp only [casesFrag, Bool.and_eq_true] at hf
    obtain ⟨m1, m2⟩ := matchCase_sim g entry sv values st hr hf.1.1
    rw [execCases, Spec.Eval.renderMatch]
    have conv : ∀ {st1 : St} {r : R} {o : Out Bytes}, st1.out = st.out → AgreeB g entry ctx st1 env r o → AgreeB g entry ctx st env r o := by
      intro st1 r o ho h
      cases o with
      | unspec => trivial
      | error => exact h
      | val out => exact ⟨h.1, by rw [h.2.1, ho], h.2.2⟩
    cases hm : Spec.Eval.matchAny env (absV sv) values with
    | unspec => simp [Spec.Eval.Out.bind, AgreeB]
    | error => simp [Spec.Eval.Out.bind, AgreeB, m2 hm]
    | val b =>
      obtain ⟨st1, hmc, hh, ho⟩ := m1 b hm
      have hr1 : Rel g entry ctx st1 env := hr.of_heap hh
      have hok1 : ScopeOk ctx st1 := fun f hf' => by rw [hh]; exact hok f hf'
      have hown1 : Own ctx st1 := hown.ext (Ext.of_heap_eq (W := fun _ => False) hh (matchCase_ext (fun _ => False) _ _ _ _ hmc).foreign)
      simp only [Spec.Eval.Out.bind, hmc]
      cases b with
      | true =>
        simp only [if_true]
        have hb := conv ho (body_agree body hf.1.2 ctx st1 env hr1 hok1)
        cases hv : Spec.Eval.renderBlock reg hasBundle esc entry scall dsem body env with
        | unspec => simp [AgreeB]
        | error => rw [hv] at hb; simpa [AgreeB] using hb
        | val out => rw [hv] at hb; simpa [AgreeB, specRest] using hb
      | false =>
        simp only [Bool.false_eq_true, if_false]
        have hbody : ∀ ctx' st' env', Rel g entry ctx' st' env' → Own ctx' st' → ScopeOk ctx' st' →
            AgreeB g entry ctx' st' env' (walkBlockOf (execBody g esc call body) ctx' st')
              (Spec.Eval.renderBlock reg hasBundle esc entry scall dsem body env') :=
          fun ctx' st' env' hr' _ hok' => body_agree body hf.1.2 ctx' st' env' hr' hok'
        rcases hd with ⟨rfl, rfl⟩ | ⟨d, s, rfl, rfl, hds⟩
        · cases values with
          | nil =>
            -- the first {default}: remembered on both sides
            have ih := cases_agree rest sv hf.2 (some (walkBlockOf (execBody g esc call body)))
              (some (Spec.Eval.renderBlock reg hasBundle esc entry scall dsem body))
              (Or.inr ⟨_, _, rfl, rfl, hbody⟩) ctx st1 env hr1 hown1 hok1
            have e : specRest (some (Spec.Eval.renderBlock reg hasBundle esc entry scall dsem body))
                (Spec.Eval.renderDefault reg hasBundle esc entry scall dsem rest env) env =
                specRest none (Spec.Eval.renderDefault reg hasBundle esc entry scall dsem (.cons cp [] body rest) env) env := by
              funext m; cases m <;> simp [specRest, Spec.Eval.renderDefault]
            rw [← e]
            exact conv ho ih
          | cons e0 es =>
            have ih := cases_agree rest sv hf.2 none none (Or.inl ⟨rfl, rfl⟩) ctx st1 env hr1 hown1 hok1
            have e : Spec.Eval.renderDefault reg hasBundle esc entry scall dsem (.cons cp (e0 :: es) body rest) env =
                Spec.Eval.renderDefault reg hasBundle esc entry scall dsem rest env := by
              rw [Spec.Eval.renderDefault]; simp
            rw [e]
            exact conv ho ih
        · have ih := cases_agree rest sv hf.2 (some d) (some s) (Or.inr ⟨d, s, rfl, rfl, hds⟩) ctx st1 env hr1 hown1 hok1
          have e : specRest (some s) (Spec.Eval.renderDefault reg hasBundle esc entry scall dsem rest env) env =
              specRest (some s) (Spec.Eval.renderDefault reg hasBundle esc entry scall dsem (.cons cp values body rest) env) env := by
            funext m; cases m <;> rfl
          rw [← e]
          have hp : pickDefault values (walkBlockOf (execBody g esc call body)) (some d) = some d := by
            simp [pickDefault]
          rw [hp]
          exact conv ho ih
theorem conds_agree : (cs : CondList) → condsFrag cs = true → ∀ (ctx : Scope) (st : St) (env : Spec.Eval.Env),
    Rel g entry ctx st env → Own ctx st → ScopeOk ctx st →
    AgreeB g entry ctx st env (execConds g esc call cs ctx st) (Spec.Eval.renderConds reg hasBundle esc entry scall dsem cs env)
  | .nil, _, ctx, st, env, hr, _, _ => by
    rw [execConds, Spec.Eval.renderConds]; exact ⟨rfl, by simp, hr⟩
  | .cons _ none body _, hf, ctx, st, env, hr, _, hok => by
    simp only [condsFrag, Bool.and_eq_true] at hf
    rw [execConds, Spec.Eval.renderConds]
    exact body_agree body hf.1.2 ctx st env hr hok
  | .cons _ (some c) body rest, hf, ctx, st, env, hr, hown, hok => by
    simp only [condsFrag, Bool.and_eq_true, optFrag] at hf
    obtain ⟨h1, h2⟩ := evalIn_sim hr c hf.1.1
    rw [execConds, Spec.Eval.renderConds]
    cases hv : Spec.Eval.eval env c with
    | unspec => simp [Spec.Eval.Out.bind, AgreeB]
    | error => simp [Spec.Eval.Out.bind, AgreeB, h2 hv]
    | val v =>
      obtain ⟨mv, st1, he, habs, hheap, hout⟩ := h1 v hv
      have hr1 : Rel g entry ctx st1 env := hr.of_heap hheap
      have hok1 : ScopeOk ctx st1 := fun f hf' => by rw [hheap]; exact hok f hf'
      have hown1 : Own ctx st1 := hown.ext (evalIn_ext (fun _ => False) he)
      simp only [Spec.Eval.Out.bind, he, ← habs, truthy_abs mv]
      have conv : ∀ {r : R} {o : Out Bytes}, AgreeB g entry ctx st1 env r o → AgreeB g entry ctx st env r o := by
        intro r o h
        cases o with
        | unspec => trivial
        | error => exact h
        | val out => exact ⟨h.1, by rw [h.2.1, hout], h.2.2⟩
      cases mv.truthy
      · simp only [Bool.false_eq_true, if_false]
        exact conv (conds_agree rest hf.2 ctx st1 env hr1 hown1 hok1)
      · simp only [if_true]
        exact conv (body_agree body hf.1.2 ctx st1 env hr1 hok1)
/-- the params of a call: evaluated / rendered in the caller's environment, bound in the callee's param frame -/
theorem params_agree : (ps : ParamList) → paramsFrag ps = true →
    ∀ (cd ctx : Scope) (st : St) (env : Spec.Eval.Env) (B0 : Spec.Eval.Binds),
    Rel g entry ctx st env → Own ctx st → Own cd st → ScopeOk cd st → FrameRel st.heap cd B0 → (∀ f ∈ ctx, f.ref ≠ top cd) → ScopeOk ctx st →
    AgreeP cd st B0 (execParams g esc call ps cd ctx st) (Spec.Eval.renderParams reg hasBundle esc entry scall dsem ps env)
  | .nil, _, cd, ctx, st, env, B0, _, _, _, _, hfr, _, _ => by
    rw [Spec.Eval.renderParams, execParams]
    exact ⟨rfl, by simpa using hfr, rfl⟩
  | .value _ key e rest, hf, cd, ctx, st, env, B0, hr, hown, owncd, hcd, hfr, hne, hok => by
    simp only [paramsFrag, Bool.and_eq_true] at hf
    obtain ⟨h1, h2⟩ := evalIn_sim hr e hf.1
    rw [Spec.Eval.renderParams, execParams]
    cases hv : Spec.Eval.eval env e with
    | unspec => simp [Spec.Eval.Out.bind, AgreeP]
    | error => simp [Spec.Eval.Out.bind, AgreeP, h2 hv]
    | val v =>
      obtain ⟨mv, st1, he, habs, hheap, hout⟩ := h1 v hv
      have e1 : Ext (fun _ => False) st st1 := evalIn_ext _ he
      have own1 := owncd.ext e1
      simp only [Spec.Eval.Out.bind, he]
      cases hs : Eval.set cd st1 key mv with
      | none => exact absurd hs (set_ne_none own1)
      | some st2 =>
        simp only
        have e2 := set_ext own1 hs
        have hok1 : ScopeOk ctx st1 := fun f hf' => by rw [hheap]; exact hok f hf'
        have hr2 : Rel g entry ctx st2 env :=
          (hr.of_heap hheap).of_ext e2 hok1 (fun f hf' h => hne f hf' h)
        have hfr2 : FrameRel st2.heap cd ((key, v) :: B0) := by
          intro k
          rw [lookup_set own1 hs k, find_cons]
          have := hfr k
          rw [← hheap] at this
          split
          · rw [habs]; rfl
          · exact this
        have hok2 : ScopeOk ctx st2 := fun f hf' => Nat.lt_of_lt_of_le (hok1 f hf') e2.len
        have hcd2 : ScopeOk cd st2 := fun f hf' => Nat.lt_of_lt_of_le (by rw [hheap]; exact hcd f hf') e2.len
        have ih := params_agree rest hf.2 cd ctx st2 env ((key, v) :: B0) hr2 ((hown.ext e1).ext e2) (own1.ext e2) hcd2 hfr2 hne hok2
        cases hrr : Spec.Eval.renderParams reg hasBundle esc entry scall dsem rest env with
        | unspec => simp [AgreeP]
        | error => rw [hrr] at ih; simpa [AgreeP] using ih
        | val R =>
          rw [hrr] at ih
          simp only [AgreeP] at ih ⊢
          refine ⟨ih.1, ?_, by rw [ih.2.2, Refine.set_out hs, hout]⟩
          have : (R ++ [(key, v)]) ++ B0 = R ++ (key, v) :: B0 := by simp
          rw [this]; exact ih.2.1
  | .content _ key body rest, hf, cd, ctx, st, env, B0, hr, hown, owncd, hcd, hfr, hne, hok => by
    simp only [paramsFrag, Bool.and_eq_true] at hf
    rw [Spec.Eval.renderParams, execParams]
    have hb := body_agree body hf.1 ctx { st with out := [] } env (hr.of_heap rfl) hok
    have hgood := (renderBlockOf_good' (execBody_good g esc call hcall body) ctx st).1
    obtain ⟨fc, _, fh, fo, fb⟩ := renderBlockOf_facts (execBody g esc call body) ctx st
    generalize renderBlockOf (execBody g esc call body) ctx st = RB at hgood fc fh fo fb ⊢
    cases hv : Spec.Eval.renderBlock reg hasBundle esc entry scall dsem body env with
    | unspec => simp [Spec.Eval.Out.bind, AgreeP]
    | error => rw [hv] at hb; simp only [AgreeB] at hb; simp [Spec.Eval.Out.bind, AgreeP, fc, hb]
    | val out =>
      rw [hv] at hb
      simp only [AgreeB] at hb
      obtain ⟨hcls, hbytes, hrel⟩ := hb
      have hcls' : RB.1.cls = .ok := by rw [fc]; exact hcls
      simp only [Spec.Eval.Out.bind, hcls']
      rw [hgood.ctx_eq hcls']
      have hbuf : RB.2 = out := by rw [fb]; simpa [bufBytes] using hbytes
      rw [hbuf]
      have e1 : Ext (fun _ => False) st RB.1.st := hgood.ext
      generalize hS1 : RB.1.st = st1 at *
      have hout1 : st1.out = st.out := fo
      have hr1 : Rel g entry ctx st1 env := hrel.of_heap fh
      have own1 : Own cd st1 := owncd.ext e1
      have hown1 : Own ctx st1 := hown.ext e1
      cases hs : Eval.set cd st1 key (.str out) with
      | none => exact absurd hs (set_ne_none own1)
      | some st2 =>
        simp only
        have e2 := set_ext own1 hs
        have hok1 : ScopeOk ctx st1 := fun f hf' => Nat.lt_of_lt_of_le (hok f hf') e1.len
        have hcd1 : ScopeOk cd st1 := fun f hf' => Nat.lt_of_lt_of_le (hcd f hf') e1.len
        have hr2 : Rel g entry ctx st2 env := hr1.of_ext e2 hok1 (fun f hf' h => hne f hf' h)
        have hfr1 : FrameRel st1.heap cd B0 := hfr.of_lookup (lookup_ext_W e1 cd hcd (fun _ _ h => h))
        have hfr2 : FrameRel st2.heap cd ((key, .str out) :: B0) := by
          intro k
          rw [lookup_set own1 hs k, find_cons]
          split
          · rfl
          · exact hfr1 k
        have hok2 : ScopeOk ctx st2 := fun f hf' => Nat.lt_of_lt_of_le (hok1 f hf') e2.len
        have hcd2 : ScopeOk cd st2 := fun f hf' => Nat.lt_of_lt_of_le (hcd1 f hf') e2.len
        have ih := params_agree rest hf.2 cd ctx st2 env ((key, .str out) :: B0) hr2 (hown1.ext e2) (own1.ext e2) hcd2 hfr2 hne hok2
        cases hrr : Spec.Eval.renderParams reg hasBundle esc entry scall dsem rest env with
        | unspec => simp [AgreeP]
        | error => rw [hrr] at ih; simpa [AgreeP] using ih
        | val R =>
          rw [hrr] at ih
          simp only [AgreeP] at ih ⊢
          refine ⟨ih.1, ?_, by rw [ih.2.2, Refine.set_out hs, hout1]⟩
          have : (R ++ [(key, .str out)]) ++ B0 = R ++ (key, .str out) :: B0 := by simp
          rw [this]; exact ih.2.1
/-- the parts of a {msg} without a bundle: walked in order -/
theorem parts_agree : (ps : MsgParts) → partsFrag ps = true → ∀ (ctx : Scope) (st : St) (env : Spec.Eval.Env),
    Rel g entry ctx st env → Own ctx st → ScopeOk ctx st →
    Agree g entry ctx st (walkMsgBody g esc call ps ctx st) (Spec.Eval.renderParts reg hasBundle esc entry scall dsem ps env)
  | .nil, _, ctx, st, env, hr, _, _ => by
    rw [walkMsgBody, Spec.Eval.renderParts]; exact ⟨rfl, by simp, hr⟩
  | .text p t rest, hf, ctx, st, env, hr, hown, hok => by
    simp only [partsFrag] at hf
    rw [walkMsgBody, Spec.Eval.renderParts]
    have ih := parts_agree rest hf ctx (write (atNode st p) t) env (hr.of_heap rfl)
      ((hown.atNode p).ext (write_ext (fun _ => False) _ t)) hok
    cases hv : Spec.Eval.renderParts reg hasBundle esc entry scall dsem rest env with
    | unspec => simp [Spec.Eval.Out.bind, Agree]
    | error => rw [hv] at ih; simpa [Spec.Eval.Out.bind, Agree] using ih
    | val q =>
      obtain ⟨o, env'⟩ := q
      rw [hv] at ih
      simp only [Agree] at ih
      simp only [Spec.Eval.Out.bind, Agree]
      refine ⟨ih.1, ?_, ih.2.2⟩
      rw [ih.2.1, bufBytes_write]
      show (bufBytes st.out ++ t) ++ o = bufBytes st.out ++ (t ++ o)
      simp
  | .ph _ _ b rest, hf, ctx, st, env, hr, hown, hok => by
    simp only [partsFrag, Bool.and_eq_true] at hf
    rw [walkMsgBody, Spec.Eval.renderParts]
    have h1 := ph_agree b hf.1 ctx st env hr hown hok
    have hg := execPh_good g esc call hcall b ctx st hown
    cases hv : Spec.Eval.renderPh reg hasBundle esc entry scall dsem b env with
    | unspec => simp [Spec.Eval.Out.bind, Agree]
    | error => rw [hv] at h1; simp only [Agree] at h1; simp [Spec.Eval.Out.bind, Agree, h1]
    | val q =>
      obtain ⟨o1, env1⟩ := q
      rw [hv] at h1
      simp only [Agree] at h1
      obtain ⟨hcls, hbytes, hrel⟩ := h1
      simp only [Spec.Eval.Out.bind, hcls, hg.ctx_eq hcls]
      have hok1 : ScopeOk ctx (execPh g esc call b ctx st).st := fun f hf' => Nat.lt_of_lt_of_le (hok f hf') hg.ext.len
      have h2 := parts_agree rest hf.2 ctx _ env1 hrel (hown.ext hg.ext) hok1
      cases hv2 : Spec.Eval.renderParts reg hasBundle esc entry scall dsem rest env1 with
      | unspec => simp [Agree]
      | error => rw [hv2] at h2; simpa [Agree] using h2
      | val q2 =>
        rw [hv2] at h2
        simp only [Agree] at h2 ⊢
        exact ⟨h2.1, by rw [h2.2.1, hbytes]; simp, h2.2.2⟩
  | .plural _ _ value cases _ dflt rest, hf, ctx, st, env, hr, hown, hok => by
    simp only [partsFrag, Bool.and_eq_true] at hf
    obtain ⟨⟨⟨hfv, hfc⟩, hfd⟩, hfr⟩ := hf
    obtain ⟨h1, h2⟩ := evalIn_sim hr value hfv
    rw [walkMsgBody, Spec.Eval.renderParts]
    cases hv : Spec.Eval.eval env value with
    | unspec => simp [Spec.Eval.Out.bind, Agree]
    | error => simp [Spec.Eval.Out.bind, Agree, h2 hv]
    | val v =>
      obtain ⟨mv, st1, he, habs, hheap, hout⟩ := h1 v hv
      subst habs
      have hr1 : Rel g entry ctx st1 env := hr.of_heap hheap
      have hok1 : ScopeOk ctx st1 := fun f hf' => by rw [hheap]; exact hok f hf'
      have hown1 : Own ctx st1 := hown.ext (evalIn_ext (fun _ => False) he)
      simp only [Spec.Eval.Out.bind, he]
      cases mv with
      | int i =>
        simp only [absV]
        have hd : ∀ ctx' st' env', Rel g entry ctx' st' env' → Own ctx' st' → ScopeOk ctx' st' →
            Agree g entry ctx' st' (walkMsgBody g esc call dflt ctx' st')
              (Spec.Eval.renderParts reg hasBundle esc entry scall dsem dflt env') :=
          fun ctx' st' env' hr' hown' hok' => parts_agree dflt hfd ctx' st' env' hr' hown' hok'
        have hp1 := plural_agree cases hfc (walkMsgBody g esc call dflt)
          (Spec.Eval.renderParts reg hasBundle esc entry scall dsem dflt) hd i.toInt ctx st1 env hr1 hown1 hok1
        have hg := walkPluralCases_good g esc call hcall cases (walkMsgBody g esc call dflt)
          (walkMsgBody_good g esc call hcall dflt) i.toInt ctx st1 hown1
        cases hv1 : Spec.Eval.renderPlural reg hasBundle esc entry scall dsem cases
            (Spec.Eval.renderParts reg hasBundle esc entry scall dsem dflt) i.toInt env with
        | unspec => simp [Agree]
        | error => rw [hv1] at hp1; simp only [Agree] at hp1; simp [Agree, hp1]
        | val q =>
          obtain ⟨o1, env1⟩ := q
          rw [hv1] at hp1
          simp only [Agree] at hp1
          obtain ⟨hcls, hbytes, hrel⟩ := hp1
          simp only [hcls, hg.ctx_eq hcls]
          have hok2 : ScopeOk ctx (walkPluralCases g esc call cases (walkMsgBody g esc call dflt) i.toInt ctx st1).st :=
            fun f hf' => Nat.lt_of_lt_of_le (hok1 f hf') hg.ext.len
          have h3 := parts_agree rest hfr ctx _ env1 hrel (hown1.ext hg.ext) hok2
          cases hv2 : Spec.Eval.renderParts reg hasBundle esc entry scall dsem rest env1 with
          | unspec => simp [Agree]
          | error => rw [hv2] at h3; simpa [Agree] using h3
          | val q2 =>
            rw [hv2] at h3
            simp only [Agree] at h3 ⊢
            exact ⟨h3.1, by rw [h3.2.1, hbytes, hout]; simp, h3.2.2⟩
      | undefined => simp [absV, Agree]
      | null => simp [absV, Agree]
      | bool _ => simp [absV, Agree]
      | float _ => simp [absV, Agree]
      | str _ => simp [absV, Agree]
      | list _ _ => simp [absV, Agree]
      | map _ _ => simp [absV, Agree]
/-- a placeholder: an HTML tag (its text) or a command -/
theorem ph_agree : (b : MsgPhBody) → phFrag b = true → ∀ (ctx : Scope) (st : St) (env : Spec.Eval.Env),
    Rel g entry ctx st env → Own ctx st → ScopeOk ctx st →
    Agree g entry ctx st (execPh g esc call b ctx st) (Spec.Eval.renderPh reg hasBundle esc entry scall dsem b env)
  | .htmlTag p text, _, ctx, st, env, hr, _, _ => by
    rw [execPh, Spec.Eval.renderPh]
    exact ⟨rfl, bufBytes_write _ text, hr.of_heap rfl⟩
  | .cmd c, hf, ctx, st, env, hr, hown, hok => by
    simp only [phFrag] at hf
    rw [execPh, Spec.Eval.renderPh]
    exact Agree.of_atNode (cmd_agree c hf ctx _ env (hr.of_heap rfl) (hown.atNode _) hok)
/-- the cases of a {plural}: the first whose number equals the value, else the default -/
theorem plural_agree : (cs : PluralCases) → plFrag cs = true → ∀ (dflt : Run) (sd : Spec.Eval.Env → Spec.Eval.ROut),
    (∀ ctx st env, Rel g entry ctx st env → Own ctx st → ScopeOk ctx st → Agree g entry ctx st (dflt ctx st) (sd env)) →
    ∀ (i : Int) (ctx : Scope) (st : St) (env : Spec.Eval.Env),
    Rel g entry ctx st env → Own ctx st → ScopeOk ctx st →
    Agree g entry ctx st (walkPluralCases g esc call cs dflt i ctx st) (Spec.Eval.renderPlural reg hasBundle esc entry scall dsem cs sd i env)
  | .nil, _, dflt, sd, hd, i, ctx, st, env, hr, hown, hok => by
    rw [walkPluralCases, Spec.Eval.renderPlural]; exact hd ctx st env hr hown hok
  | .cons _ v _ body rest, hf, dflt, sd, hd, i, ctx, st, env, hr, hown, hok => by
    simp only [plFrag, Bool.and_eq_true] at hf
    rw [walkPluralCases, Spec.Eval.renderPlural]
    split
    · exact parts_agree body hf.1 ctx st env hr hown hok
    · exact plural_agree rest hf.2 dflt sd hd i ctx st env hr hown hok
/-- the placeholders of a message: the interpreter's runs against the specification's renderings -/
theorem phAll_rel : (ps : MsgParts) → partsFrag ps = true → ∀ (d : Nat),
    PhRel g entry (phAll g esc call ps d) (Spec.Eval.sphAll reg hasBundle esc entry scall dsem ps d)
  | .nil, _, d => by rw [phAll, Spec.Eval.sphAll]; exact .nil
  | .text _ _ rest, hf, d => by
    rw [phAll, Spec.Eval.sphAll]; simp only [partsFrag] at hf; exact phAll_rel rest hf d
  | .ph _ name b rest, hf, d => by
    rw [phAll, Spec.Eval.sphAll]
    simp only [partsFrag, Bool.and_eq_true] at hf
    exact .cons (execPh_good g esc call hcall b) (fun ctx st env hr ho hk => ph_agree b hf.1 ctx st env hr ho hk)
      (phAll_rel rest hf.2 d)
  | .plural _ _ v cases _ dflt rest, hf, d => by
    rw [phAll, Spec.Eval.sphAll]
    simp only [partsFrag, Bool.and_eq_true] at hf
    exact ((phAllCases_rel cases hf.1.1.2 (d + 3)).append g entry (phAll_rel dflt hf.1.2 (d + 2))).append g entry
      (phAll_rel rest hf.2 d)
theorem phAllCases_rel : (cs : PluralCases) → plFrag cs = true → ∀ (d : Nat),
    PhRel g entry (phAllCases g esc call cs d) (Spec.Eval.sphAllCases reg hasBundle esc entry scall dsem cs d)
  | .nil, _, d => by rw [phAllCases, Spec.Eval.sphAllCases]; exact .nil
  | .cons _ _ _ body rest, hf, d => by
    rw [phAllCases, Spec.Eval.sphAllCases]
    simp only [plFrag, Bool.and_eq_true] at hf
    exact (phAll_rel body hf.1 d).append g entry (phAllCases_rel rest hf.2 d)
end


include hob hcall hreg hmsg hdir hcs in
/-- The walk of a template body refines the lexical semantics: on the fragment, whenever `Spec.renderBlock`
    yields text the model ends ok and has written exactly that text after what was written before;
    whenever it yields an error the model yields an error. -/
theorem exec_refines_lexical_partial (b : Block) (hf : bfrag b = true) (ctx : Scope) (st : St) (env : Spec.Eval.Env)
    (hr : Rel g entry ctx st env) (hown : Own ctx st) (hok : ScopeOk ctx st) :
    match Spec.Eval.renderBlock reg hasBundle esc entry scall dsem b env with
    | .val out => (execBody g esc call b ctx st).cls = .ok ∧
        bufBytes (execBody g esc call b ctx st).st.out = bufBytes st.out ++ out
    | .error => (execBody g esc call b ctx st).cls = .err
    | .unspec => True := by
  obtain ⟨p, cs⟩ := b
  simp only [bfrag] at hf
  have h := Agree.of_atNode (cmds_agree g hob esc call hcall reg hasBundle entry scall dsem hreg hmsg hdir hcs cs hf ctx (atNode st p) env (hr.of_heap rfl) (hown.atNode p) hok)
  rw [Spec.Eval.renderBlock, renderCmds_eq, execBody]
  cases hv : cmdsE esc reg hasBundle entry scall dsem cs env with
  | unspec => simp [Spec.Eval.Out.bind]
  | error => rw [hv] at h; simpa [Spec.Eval.Out.bind, Agree] using h
  | val q => rw [hv] at h; simp only [Agree] at h; simpa [Spec.Eval.Out.bind] using ⟨h.1, h.2.1⟩

include hob hcall hreg hmsg hdir hcs in
/-- {foreach $x in E} over a list VALUE: for ANY list expression `E` whose evaluation agrees with the
    specification's in the current state (`hE` — e.g. a variable bound to a list of scalars,
    `list_variable_agrees`), the loop refines the lexical semantics: the body runs once per element in a
    frame of its own, the loop variable is gone afterwards. -/
theorem foreach_over_value_refines (p0 : Nat) (var : Bytes) (E : Expr) (bp : Nat) (cs : CmdList) (hfb : csFrag cs = true)
    (ctx : Scope) (st : St) (env : Spec.Eval.Env) (hr : Rel g entry ctx st env) (hown : Own ctx st) (hok : ScopeOk ctx st)
    (hE : (∀ v, Spec.Eval.eval env E = .val v → ∃ id mvs st1, evalIn g E ctx st = some (.list id mvs, st1) ∧
          v = .list (absL mvs) ∧ st1.heap = st.heap ∧ st1.out = st.out) ∧
        (Spec.Eval.eval env E = .error → evalIn g E ctx st = none)) :
    Agree g entry ctx st (execCmd g esc call (.forc p0 var E (.mk bp cs) none) ctx st)
      (Spec.Eval.renderCmd reg hasBundle esc entry scall dsem (.forc p0 var E (.mk bp cs) none) env) := by
    obtain ⟨h1, h2⟩ := hE
    have hb : ∀ ctx' st' env', Rel g entry ctx' st' env' → Own ctx' st' → ScopeOk ctx' st' →
        ∃ o : Spec.Eval.ROut, Agree g entry ctx' st' (execBody g esc call (.mk bp cs) ctx' st') o ∧
          Spec.Eval.renderBlock reg hasBundle esc entry scall dsem (.mk bp cs) env' = o.bind fun q => .val q.1 := by
      intro ctx' st' env' hr' hown' hok'
      refine ⟨cmdsE esc reg hasBundle entry scall dsem cs env', ?_, ?_⟩
      · rw [execBody]; exact Agree.of_atNode (cmds_agree g hob esc call hcall reg hasBundle entry scall dsem hreg hmsg hdir hcs cs hfb ctx' _ env' (hr'.of_heap rfl) (hown'.atNode _) hok')
      · rw [Spec.Eval.renderBlock]; exact renderCmds_eq esc reg hasBundle entry scall dsem cs env'
    rw [execCmd, Spec.Eval.renderCmd]
    cases hv : Spec.Eval.eval env E with
    | unspec => simp [Spec.Eval.Out.bind, Agree]
    | error => simp [Spec.Eval.Out.bind, Agree, h2 hv]
    | val v =>
      obtain ⟨id, mvs, st1, he, hveq, hheap, hout⟩ := h1 v hv
      subst hveq
      have hr1 : Rel g entry ctx st1 env := hr.of_heap hheap
      have hok1 : ScopeOk ctx st1 := fun f hf' => by rw [hheap]; exact hok f hf'
      simp only [Spec.Eval.Out.bind, he]
      cases mvs with
      | nil =>
        simp only [List.isEmpty_nil, if_true, absL]
        exact ⟨rfl, by rw [hout]; simp, hr1⟩
      | cons x rest =>
        simp only [List.isEmpty_cons, Bool.false_eq_true, if_false, absL]
        have hl := loop_agree g entry (execBody g esc call (.mk bp cs)) _ (execBody_good g esc call hcall _) hb var
          (((x :: rest).length : Int) - 1) ((absV x :: absL rest).length - 1) (x :: rest) 0 ctx st1 env hr1 hok1
        rw [absL] at hl
        cases hlv : Spec.Eval.loopSpec (Spec.Eval.renderBlock reg hasBundle esc entry scall dsem (.mk bp cs)) env var
            ((absV x :: absL rest).length - 1) (absV x :: absL rest) 0 with
        | unspec => simp [Agree]
        | error => rw [hlv] at hl; simpa [Agree, AgreeB] using hl
        | val out =>
          rw [hlv] at hl
          simp only [AgreeB] at hl
          exact ⟨hl.1, by rw [hl.2.1, hout], hl.2.2⟩

omit hob hcall hreg hcs in
/-- a variable bound to a list (in both environments) is such an `E` -/
theorem list_variable_agrees (p : Nat) (key : Bytes) (hk : (key == sIj) = false) (ctx : Scope) (st : St) (env : Spec.Eval.Env)
    (id : Nat) (xs : List Value)
    (hm : lookup st.heap ctx key = .list id xs) (hs : env.lookup key = .list (absL xs)) :
    (∀ v, Spec.Eval.eval env (.dataRef p key .nil) = .val v → ∃ id mvs st1, evalIn g (.dataRef p key .nil) ctx st = some (.list id mvs, st1) ∧
        v = .list (absL mvs) ∧ st1.heap = st.heap ∧ st1.out = st.out) ∧
    (Spec.Eval.eval env (.dataRef p key .nil) = .error → evalIn g (.dataRef p key .nil) ctx st = none) := by
  have hk2 : (key == Spec.Eval.sIj) = false := hk
  have hS : Spec.Eval.eval env (.dataRef p key .nil) = .val (.list (absL xs)) := by
    rw [Spec.Eval.eval]; simp only [hk2, Bool.false_eq_true, if_false, Spec.Eval.evalAcc, hs]
  have hM : evalIn g (.dataRef p key .nil) ctx st = some (.list id xs, st) := by
    simp [evalIn, evalE, hk, evalAccesses, eenv, hm]
  rw [hS]
  exact ⟨fun v hv => by simp only [Out.val.injEq] at hv; exact ⟨id, xs, st, hM, hv.symm, rfl, rfl⟩, fun h => by simp at h⟩

end

/-! ### the closed statement: templates calling templates, `execute` against `Spec.render` -/

/-- every template of the registry is in the fragment -/
def regFrag (reg : Registry.Reg) : Prop := ∀ t ∈ reg, bfrag t.body = true

/-- a template invocation refines the specification's, at every call depth -/
theorem tmpl_refines (g : GEnv) (hob : g.oblig = []) (hasBundle : Bool) (dsem : Option Spec.Eval.LibSem)
    (hmsg : BundleOk g hasBundle dsem) (hdir : DirOk g (Spec.Eval.dirsOf dsem)) (hfr : regFrag g.reg) :
    ∀ (fuel : Nat) (t : Registry.Tmpl), t ∈ g.reg → ∀ (cctx : Scope) (s2 : St) (ce : Spec.Eval.CallEnv),
      Rel g ce.entry cctx s2 { vars := ce.entry, loops := [], ij := ce.ij, globals := ce.globals } → Own cctx s2 → ScopeOk cctx s2 →
      AgreeT s2 (runTmpl g fuel t cctx s2) (Spec.Eval.renderTmpl g.reg hasBundle dsem fuel t ce) := by
  intro fuel
  induction fuel with
  | zero => intro t _ cctx s2 ce _ _ _; rw [Spec.Eval.renderTmpl]; trivial
  | succ n ih =>
    intro t ht cctx s2 ce hr hown hok
    rw [runTmpl, Spec.Eval.renderTmpl]
    have h := exec_refines_lexical_partial g hob (escapeOf t) (runTmpl g n) (runTmpl_good g n) g.reg hasBundle ce.entry
      (Spec.Eval.renderTmpl g.reg hasBundle dsem n) dsem rfl hmsg hdir ih t.body (hfr t ht) cctx (atNode s2 t.pos)
      { vars := ce.entry, loops := [], ij := ce.ij, globals := ce.globals } (hr.of_heap rfl) (hown.atNode _) hok
    have hesc : Spec.Eval.escapeOn t = escapeOf t := rfl
    rw [hesc]
    cases hv : Spec.Eval.renderBlock g.reg hasBundle (escapeOf t) ce.entry (Spec.Eval.renderTmpl g.reg hasBundle dsem n) dsem t.body
        { vars := ce.entry, loops := [], ij := ce.ij, globals := ce.globals } with
    | unspec => trivial
    | error => rw [hv] at h; exact h
    | val out => rw [hv] at h; exact h

/-- `Execute` once the entry template is found: the walk starts on the scope [fresh frame, data (entered)] -/
theorem execute_some (g : GEnv) (name : Bytes) (data : Frame) (fuel : Nat) (t : Registry.Tmpl)
    (hl : Registry.lookup g.reg name = some t) :
    execute g name data fuel =
      (let r := runTmpl g fuel t [⟨1, false⟩, ⟨0, true⟩]
        { heap := [⟨data, true⟩, ⟨[], false⟩], out := [], next := freshBase g data, foreign := 0 }
       { cls := (match r.cls with
          | .err => if posOk t then Cls.err else Cls.panic
          | c => c), chunks := r.st.out.reverse, data := heapGet r.st.heap 0, foreign := r.st.foreign, next := r.st.next,
         file := t.file, pos := r.st.node, line := lineNumber t.text r.st.node, impossible := r.st.impossible }) := by
  unfold execute
  rw [hl]
  rfl

/-- `exec_refines_lexical` on the fragment, closed: for a registry whose templates are all in the fragment
    (raw text, print with directives (given `DirOk g dsem`), css, debugger, log, if/elseif/else, switch, foreach over a list
    literal, a range or a variable, let value / content, calls without a data attribute, with data="all",
    with data="$m" or a map literal, with value and content params, msg without a bundle), data of scalars and — under the names `coll` —
    lists / maps of scalars, scalar globals, no obligatory directive: whenever `Spec.render` yields text, `execute` ends ok having written
    exactly that text; whenever it yields an error, `execute` fails. -/
theorem render_refines_lexical_partial (g : GEnv) (hob : g.oblig = []) (hfr : regFrag g.reg)
    (name : Bytes) (data : Frame)
    (fuel : Nat) (ij : Option Spec.Eval.Binds) (hij : (g.ij.map fun p => absK p.2) = ij)
    (hasBundle : Bool) (dsem : Option Spec.Eval.LibSem)
    (hmsg : BundleOk g hasBundle dsem) (hdir : DirOk g (Spec.Eval.dirsOf dsem)) :
    match Spec.Eval.render g.reg (absK g.globals) ij hasBundle name (absK data) fuel dsem with
    | .val out => (execute g name data fuel).cls = .ok ∧ (execute g name data fuel).chunks.flatten = out
    | .error => (execute g name data fuel).cls = .err ∨ (execute g name data fuel).cls = .panic
    | .unspec => True := by
  unfold Spec.Eval.render
  cases hl : Registry.lookup g.reg name with
  | none => simp [execute, hl]
  | some t =>
    have ht : t ∈ g.reg := List.mem_of_find?_eq_some hl
    rw [execute_some g name data fuel t hl]
    simp only
    have hfr0 : FrameRel [⟨data, true⟩, ⟨[], false⟩] [⟨1, false⟩, ⟨0, true⟩] (absK data) := by
      intro k
      simp only [lookup, heapGet, find_absK]
      cases hf : Frame.find data k <;> simp [Frame.find, absV, hf]
    have hrel : Rel g (absK data) [⟨1, false⟩, ⟨0, true⟩]
        { heap := [⟨data, true⟩, ⟨[], false⟩], out := [], next := freshBase g data, foreign := 0 }
        { vars := absK data, loops := [], ij := ij, globals := absK g.globals } := by
      refine ⟨⟨fun k _ => hfr0 k, fun k => ?_, hij⟩, ?_⟩
      · show match Frame.find g.globals k with
          | some v => Spec.Eval.find (absK g.globals) k = some (absV v)
          | none => Spec.Eval.find (absK g.globals) k = none
        rw [find_absK]
        cases hf : Frame.find g.globals k <;> simp
      · refine ⟨⟨1, false⟩, [⟨0, true⟩], [⟨0, true⟩], rfl, rfl, by simp [alldata], by simp, by simp, ?_⟩
        intro k
        have : lookup [⟨data, true⟩, ⟨[], false⟩] [⟨0, true⟩] k = lookup [⟨data, true⟩, ⟨[], false⟩] [⟨1, false⟩, ⟨0, true⟩] k := by
          simp [lookup, heapGet, Frame.find]
        rw [this]; exact hfr0 k
    have hown : Own [⟨1, false⟩, ⟨0, true⟩]
        { heap := [⟨data, true⟩, ⟨[], false⟩], out := [], next := freshBase g data, foreign := 0 } :=
      ⟨⟨1, false⟩, [⟨0, true⟩], ⟨[], false⟩, rfl, rfl, rfl⟩
    have hok : ScopeOk [⟨1, false⟩, ⟨0, true⟩]
        { heap := [⟨data, true⟩, ⟨[], false⟩], out := [], next := freshBase g data, foreign := 0 } := by
      intro f hf; simp at hf; rcases hf with rfl | rfl <;> simp
    have h := tmpl_refines g hob hasBundle dsem hmsg hdir hfr fuel t ht _ _ { entry := absK data, ij := ij, globals := absK g.globals } hrel hown hok
    cases hv : Spec.Eval.renderTmpl g.reg hasBundle dsem fuel t { entry := absK data, ij := ij, globals := absK g.globals } with
    | unspec => trivial
    | error =>
      rw [hv] at h
      simp only [AgreeT] at h
      simp only [h]
      split <;> simp
    | val out =>
      rw [hv] at h
      simp only [AgreeT] at h
      simp only [h.1]
      refine ⟨trivial, ?_⟩
      have := h.2
      simpa [bufBytes] using this

/-! ### non-vacuity: `{if true}{let $x: 'in' /}{$x}{/if}{$x}` on x = 'out' -/

def body0 : Block :=
  .mk 0 (.cons (.ifc 1 (.cons 1 (some (.bool 1 true))
      (.mk 2 (.cons (.letValue 2 [120] (.str 2 [] [105, 110])) (.cons (.print 3 (.dataRef 3 [120] .nil) []) .nil))) .nil))
    (.cons (.print 4 (.dataRef 4 [120] .nil) []) .nil))

def g0 : GEnv := { reg := [], globals := [], ij := none, msgs := none, tbl := [], oblig := [] }
def st0 : St := { heap := [⟨[([120], .str [111, 117, 116])], true⟩, ⟨[], false⟩], out := [], next := 2, foreign := 0 }
def ctx0 : Scope := [⟨1, false⟩, ⟨0, true⟩]
def env0 : Spec.Eval.Env := { vars := [([120], .str [111, 117, 116])], loops := [], ij := none, globals := [] }

theorem rel0 : Rel g0 env0.vars ctx0 st0 env0 := by
  have hfr : FrameRel st0.heap ctx0 env0.vars := by
    intro k
    by_cases h : k = [120]
    · subst h; rfl
    · have h' : ([120] == k) = false := by simpa using fun e => h e.symm
      simp [lookup, st0, ctx0, heapGet, Frame.find, h', env0, Spec.Eval.find, absV]
  refine ⟨⟨fun k _ => hfr k, fun k => by simp [eenv, g0, Frame.find, env0, Spec.Eval.find], rfl⟩, ?_⟩
  refine ⟨⟨1, false⟩, [⟨0, true⟩], [⟨0, true⟩], rfl, rfl, by simp [alldata], by simp, by simp [st0], ?_⟩
  intro k
  have : lookup st0.heap [⟨0, true⟩] k = lookup st0.heap ctx0 k := by simp [lookup, heapGet, Frame.find, st0, ctx0]
  rw [this]; exact hfr k

/-- the specification says "inout" (the inner `x` does not leak); by the theorem the model writes "inout" -/
example : bufBytes (execBody g0 true (fun _ ctx st => ⟨.fuelOut, ctx, st⟩) body0 ctx0 st0).st.out = [105, 110, 111, 117, 116] := by
  have hcall : ∀ t, GoodRun ((fun _ ctx st => ⟨.fuelOut, ctx, st⟩ : Registry.Tmpl → Run) t) :=
    fun _ ctx st _ => ⟨by simp, fun h => by simp at h, Ext.refl _ _⟩
  have h := exec_refines_lexical_partial g0 rfl true _ hcall [] false env0.vars (fun _ _ => .unspec) none rfl ⟨fun _ => rfl, fun _ h => by cases h⟩ (fun _ h => by cases h) (fun _ _ _ _ _ _ _ _ => trivial) body0 (by decide) ctx0 st0 env0 rel0
    ⟨⟨1, false⟩, [⟨0, true⟩], ⟨[], false⟩, rfl, rfl, rfl⟩ (by intro f hf; simp [ctx0] at hf; rcases hf with rfl | rfl <;> simp [st0])
  have hs : Spec.Eval.renderBlock [] false true env0.vars (fun _ _ => .unspec) none body0 env0 = .val [105, 110, 111, 117, 116] := by rfl
  rw [hs] at h
  simpa [bufBytes, st0] using h.2

/-- `{foreach $y in ['a', 'b']}{$y}{switch $y}{case 'b'}!{/switch}{/foreach}{$x}`: "ab!out" — the loop variable is
    gone after the loop, `x` is what it was -/
def body1 : Block :=
  .mk 0 (.cons (.forc 1 [121] (.list 1 (.cons (.str 1 [] [97]) (.cons (.str 1 [] [98]) .nil)))
      (.mk 2 (.cons (.print 2 (.dataRef 2 [121] .nil) [])
        (.cons (.switch 3 (.dataRef 3 [121] .nil) (.cons 3 [.str 3 [] [98]] (.mk 3 (.cons (.rawText 3 [33]) .nil)) .nil)) .nil))) none)
    (.cons (.print 4 (.dataRef 4 [120] .nil) []) .nil))

example : bufBytes (execBody g0 true (fun _ ctx st => ⟨.fuelOut, ctx, st⟩) body1 ctx0 st0).st.out = [97, 98, 33, 111, 117, 116] := by
  have hcall : ∀ t, GoodRun ((fun _ ctx st => ⟨.fuelOut, ctx, st⟩ : Registry.Tmpl → Run) t) :=
    fun _ ctx st _ => ⟨by simp, fun h => by simp at h, Ext.refl _ _⟩
  have h := exec_refines_lexical_partial g0 rfl true _ hcall [] false env0.vars (fun _ _ => .unspec) none rfl ⟨fun _ => rfl, fun _ h => by cases h⟩ (fun _ h => by cases h) (fun _ _ _ _ _ _ _ _ => trivial) body1 (by decide) ctx0 st0 env0 rel0
    ⟨⟨1, false⟩, [⟨0, true⟩], ⟨[], false⟩, rfl, rfl, rfl⟩ (by intro f hf; simp [ctx0] at hf; rcases hf with rfl | rfl <;> simp [st0])
  have hs : Spec.Eval.renderBlock [] false true env0.vars (fun _ _ => .unspec) none body1 env0 = .val [97, 98, 33, 111, 117, 116] := by rfl
  rw [hs] at h
  simpa [bufBytes, st0] using h.2

/-! ### non-vacuity of the closed theorem: `{let $x: 'L' /}{call .c}{param p: $x /}{/call}{$x}` with
    .c = `[{$p}{$x}` — wait, `$x` is NOT visible in the callee: .c = `[{$p}]` gives "[L]L" -/

def tCallee : Registry.Tmpl :=
  { name := [99], params := [], body := .mk 10 (.cons (.rawText 11 [91]) (.cons (.print 12 (.dataRef 13 [112] .nil) []) (.cons (.rawText 14 [93]) .nil))),
    autoescape := .unspecified, nsName := [110], nsAutoescape := .unspecified, pos := 9, file := [102], text := [] }

def tCaller : Registry.Tmpl :=
  { name := [116], params := [],
    body := .mk 1 (.cons (.letValue 2 [120] (.str 2 [] [76]))
      (.cons (.call 3 [99] false none (.value 4 [112] (.dataRef 4 [120] .nil) .nil))
      (.cons (.print 5 (.dataRef 5 [120] .nil) []) .nil))),
    autoescape := .unspecified, nsName := [110], nsAutoescape := .unspecified, pos := 0, file := [102], text := [] }

def gCall : GEnv := { reg := [tCaller, tCallee], globals := [], ij := none, msgs := none, tbl := [], oblig := [] }

example : (execute gCall [116] [] 4).cls = .ok ∧ (execute gCall [116] [] 4).chunks.flatten = [91, 76, 93, 76] := by
  have hfr : regFrag gCall.reg := by
    intro t ht
    simp only [gCall, List.mem_cons, List.mem_nil_iff, or_false] at ht
    rcases ht with rfl | rfl <;> decide
  have h := render_refines_lexical_partial gCall rfl hfr [116] [] 4 none rfl false none ⟨fun _ => rfl, fun _ h => by cases h⟩ (fun _ h => by cases h)
  have hs : Spec.Eval.render gCall.reg (absK gCall.globals) none false [116] (absK []) 4 = .val [91, 76, 93, 76] := by rfl
  rw [hs] at h
  exact h

/-! ### `$ij`: the same bundle with injected data {u: 'J'}: the caller `{$ij.u}{call .c}{param p: $ij.u /}{/call}`, the
    callee (`[{$p}]`, extended by `{$ij.u}`) sees the same injected data: "J[J]J" … and without injected data
    the specification says error and the render fails -/

def ijRef (p : Nat) : Expr := .dataRef p [105, 106] (.cons (.key p false [117]) .nil)

def tCalleeIj : Registry.Tmpl :=
  { name := [99], params := [], body := .mk 10 (.cons (.rawText 11 [91]) (.cons (.print 12 (.dataRef 13 [112] .nil) [])
      (.cons (.rawText 14 [93]) (.cons (.print 15 (ijRef 15) []) .nil)))),
    autoescape := .unspecified, nsName := [110], nsAutoescape := .unspecified, pos := 9, file := [102], text := [] }

def tCallerIj : Registry.Tmpl :=
  { name := [116], params := [],
    body := .mk 1 (.cons (.print 2 (ijRef 2) []) (.cons (.call 3 [99] false none (.value 4 [112] (ijRef 4) .nil)) .nil)),
    autoescape := .unspecified, nsName := [110], nsAutoescape := .unspecified, pos := 0, file := [102], text := [] }

def gIj (ij : Option (Nat × Frame)) : GEnv :=
  { reg := [tCallerIj, tCalleeIj], globals := [], ij := ij, msgs := none, tbl := [], oblig := [] }

theorem gIj_frag (ij : Option (Nat × Frame)) : regFrag (gIj ij).reg := by
  intro t ht
  simp only [gIj, List.mem_cons, List.mem_nil_iff, or_false] at ht
  rcases ht with rfl | rfl <;> decide

example : (execute (gIj (some (1, [([117], .str [74])]))) [116] [] 4).cls = .ok ∧
    (execute (gIj (some (1, [([117], .str [74])]))) [116] [] 4).chunks.flatten = [74, 91, 74, 93, 74] := by
  have h := render_refines_lexical_partial (gIj (some (1, [([117], .str [74])]))) rfl (gIj_frag _) [116] [] 4
    (some [([117], .str [74])]) rfl false none ⟨fun _ => rfl, fun _ h => by cases h⟩ (fun _ h => by cases h)
  have hs : Spec.Eval.render (gIj (some (1, [([117], .str [74])]))).reg (absK (gIj (some (1, [([117], .str [74])]))).globals)
      (some [([117], .str [74])]) false [116] (absK []) 4 = .val [74, 91, 74, 93, 74] := by rfl
  rw [hs] at h
  exact h

example : (execute (gIj none) [116] [] 4).cls = .err ∨ (execute (gIj none) [116] [] 4).cls = .panic := by
  have h := render_refines_lexical_partial (gIj none) rfl (gIj_frag _) [116] [] 4 none rfl false none
    ⟨fun _ => rfl, fun _ h => by cases h⟩ (fun _ h => by cases h)
  have hs : Spec.Eval.render (gIj none).reg (absK (gIj none).globals) none false [116] (absK []) 4 = .error := by rfl
  rw [hs] at h
  exact h

/-! ### ordering comparisons are inside: `{if $n < 3}a{elseif $n >= 2.5}b{else}c{/if}` with n = 3: "b" -/

def tOrd : Registry.Tmpl :=
  { name := [116], params := [],
    body := .mk 1 (.cons (.ifc 2
      (.cons 3 (some (.bin .lt 3 (.dataRef 3 [110] .nil) (.int 3 3))) (.mk 4 (.cons (.rawText 4 [97]) .nil))
      (.cons 5 (some (.bin .ge 5 (.dataRef 5 [110] .nil) (.float 5 0x4004000000000000))) (.mk 6 (.cons (.rawText 6 [98]) .nil))
      (.cons 7 none (.mk 8 (.cons (.rawText 8 [99]) .nil)) .nil)))) .nil),
    autoescape := .unspecified, nsName := [110], nsAutoescape := .unspecified, pos := 0, file := [102], text := [] }
def gOrd : GEnv := { reg := [tOrd], globals := [], ij := none, msgs := none, tbl := [], oblig := [] }

example : (execute gOrd [116] [([110], .int 3)] 4).cls = .ok ∧ (execute gOrd [116] [([110], .int 3)] 4).chunks.flatten = [98] := by
  have hfr : regFrag gOrd.reg := by
    intro t ht
    simp only [gOrd, List.mem_cons, List.mem_nil_iff, or_false] at ht
    subst ht; decide
  have h := render_refines_lexical_partial gOrd rfl hfr [116] [([110], .int 3)] 4 none rfl false none
    ⟨fun _ => rfl, fun _ h => by cases h⟩ (fun _ h => by cases h)
  have hs : Spec.Eval.render gOrd.reg (absK gOrd.globals) none false [116] (absK [([110], .int 3)]) 4 = .val [98] := by rfl
  rw [hs] at h
  exact h

/-! ### data="all": `{let $x: 'L' /}{call .d data="all"}{param p: $x /}{/call}` on data {x: 'D'} with
    .d = `[{$p}{$x}]`: "[LD]" — the callee gets the ENTRY `x`, not the caller's {let} -/

def tCalleeAll : Registry.Tmpl :=
  { name := [100], params := [], body := .mk 10 (.cons (.rawText 11 [91]) (.cons (.print 12 (.dataRef 13 [112] .nil) [])
      (.cons (.print 13 (.dataRef 13 [120] .nil) []) (.cons (.rawText 14 [93]) .nil)))),
    autoescape := .unspecified, nsName := [110], nsAutoescape := .unspecified, pos := 9, file := [102], text := [] }

def tCallerAll : Registry.Tmpl :=
  { name := [116], params := [],
    body := .mk 1 (.cons (.letValue 2 [120] (.str 2 [] [76]))
      (.cons (.call 3 [100] true none (.value 4 [112] (.dataRef 4 [120] .nil) .nil)) .nil)),
    autoescape := .unspecified, nsName := [110], nsAutoescape := .unspecified, pos := 0, file := [102], text := [] }

def gAll : GEnv := { reg := [tCallerAll, tCalleeAll], globals := [], ij := none, msgs := none, tbl := [], oblig := [] }

example : (execute gAll [116] [([120], .str [68])] 4).cls = .ok ∧
    (execute gAll [116] [([120], .str [68])] 4).chunks.flatten = [91, 76, 68, 93] := by
  have hfr : regFrag gAll.reg := by
    intro t ht
    simp only [gAll, List.mem_cons, List.mem_nil_iff, or_false] at ht
    rcases ht with rfl | rfl <;> decide
  have h := render_refines_lexical_partial gAll rfl hfr [116] [([120], .str [68])] 4 none rfl false none ⟨fun _ => rfl, fun _ h => by cases h⟩ (fun _ h => by cases h)
  have hs : Spec.Eval.render gAll.reg (absK gAll.globals) none false [116] (absK [([120], .str [68])]) 4 = .val [91, 76, 68, 93] := by rfl
  rw [hs] at h
  exact h

/-! ### collections in the data: on {l: ['a', 'b'], m: {x: 'M'}} (the names `l` and `m` may hold collections)

      {foreach $y in $l}{$y}{/foreach}{call .d data="$m"}{param p: 'P' /}{/call}{call .d data="['x': 'Q', 'p': 'R']" /}

    with .d = `[{$p}{$x}]`: "ab[PM][RQ]" -/

def tCallerData : Registry.Tmpl :=
  { name := [116], params := [],
    body := .mk 1 (.cons (.forc 1 [121] (.dataRef 1 [108] .nil) (.mk 2 (.cons (.print 2 (.dataRef 2 [121] .nil) []) .nil)) none)
      (.cons (.call 3 [100] false (some (.dataRef 3 [109] .nil)) (.value 4 [112] (.str 4 [] [80]) .nil))
      (.cons (.call 5 [100] false (some (.map 5 (.cons [120] (.str 5 [] [81]) (.cons [112] (.str 5 [] [82]) .nil)))) .nil) .nil))),
    autoescape := .unspecified, nsName := [110], nsAutoescape := .unspecified, pos := 0, file := [102], text := [] }

def gData : GEnv := { reg := [tCallerData, tCalleeAll], globals := [], ij := none, msgs := none, tbl := [], oblig := [] }

def dataLM : Frame := [([108], .list 7 [.str [97], .str [98]]), ([109], .map 8 [([120], .str [77])])]

set_option maxHeartbeats 2000000 in
example : (execute gData [116] dataLM 4).cls = .ok ∧
    (execute gData [116] dataLM 4).chunks.flatten = [97, 98, 91, 80, 77, 93, 91, 82, 81, 93] := by
  have hfr : regFrag gData.reg := by
    intro t ht
    simp only [gData, List.mem_cons, List.mem_nil_iff, or_false] at ht
    rcases ht with rfl | rfl <;> decide
  have h := render_refines_lexical_partial gData rfl hfr [116] dataLM 4 none rfl false none ⟨fun _ => rfl, fun _ h => by cases h⟩ (fun _ h => by cases h)
  have hs : Spec.Eval.render gData.reg (absK gData.globals) none false [116] (absK dataLM) 4 =
      .val [97, 98, 91, 80, 77, 93, 91, 82, 81, 93] := by rfl
  rw [hs] at h
  exact h

/-! ### `foreach_over_value_refines` with `list_variable_agrees`: `{foreach $y in $l}{$y}{/foreach}` on l = ['a', 'b'] -/

def stL : St := { heap := [⟨[([108], .list 7 [.str [97], .str [98]])], true⟩, ⟨[], false⟩], out := [], next := 9, foreign := 0 }
def envL : Spec.Eval.Env := { vars := [([108], .list [.str [97], .str [98]])], loops := [], ij := none, globals := [] }

theorem relL : Rel g0 envL.vars ctx0 stL envL := by
  have hfr : FrameRel stL.heap ctx0 envL.vars := by
    intro k
    by_cases h : k = [108]
    · subst h; rfl
    · have h' : ([108] == k) = false := by simpa using fun e => h e.symm
      simp [lookup, stL, ctx0, heapGet, Frame.find, h', envL, Spec.Eval.find, absV]
  refine ⟨⟨fun k _ => hfr k, fun k => by simp [eenv, g0, Frame.find, envL, Spec.Eval.find], rfl⟩, ?_⟩
  refine ⟨⟨1, false⟩, [⟨0, true⟩], [⟨0, true⟩], rfl, rfl, by simp [alldata], by simp, by simp [stL], ?_⟩
  intro k
  have : lookup stL.heap [⟨0, true⟩] k = lookup stL.heap ctx0 k := by simp [lookup, heapGet, Frame.find, stL, ctx0]
  rw [this]; exact hfr k

example : bufBytes (execCmd g0 true (fun _ ctx st => ⟨.fuelOut, ctx, st⟩)
    (.forc 1 [121] (.dataRef 1 [108] .nil) (.mk 2 (.cons (.print 2 (.dataRef 2 [121] .nil) []) .nil)) none) ctx0 stL).st.out = [97, 98] := by
  have hcall : ∀ t, GoodRun ((fun _ ctx st => ⟨.fuelOut, ctx, st⟩ : Registry.Tmpl → Run) t) :=
    fun _ ctx st _ => ⟨by simp, fun h => by simp at h, Ext.refl _ _⟩
  have h := foreach_over_value_refines g0 rfl true _ hcall [] false envL.vars (fun _ _ => .unspec) none rfl ⟨fun _ => rfl, fun _ h => by cases h⟩ (fun _ h => by cases h) (fun _ _ _ _ _ _ _ _ => trivial)
    1 [121] (.dataRef 1 [108] .nil) 2 (.cons (.print 2 (.dataRef 2 [121] .nil) []) .nil) (by decide) ctx0 stL envL relL
    ⟨⟨1, false⟩, [⟨0, true⟩], ⟨[], false⟩, rfl, rfl, rfl⟩ (by intro f hf; simp [ctx0] at hf; rcases hf with rfl | rfl <;> simp [stL])
    (list_variable_agrees g0 1 [108] rfl ctx0 stL envL 7 [.str [97], .str [98]] rfl rfl)
  have hs : Spec.Eval.renderCmd [] false true envL.vars (fun _ _ => .unspec) none
      (.forc 1 [121] (.dataRef 1 [108] .nil) (.mk 2 (.cons (.print 2 (.dataRef 2 [121] .nil) []) .nil)) none) envL = .val ([97, 98], envL) := by rfl
  rw [hs] at h
  simpa [bufBytes, stL] using h.2.1

/-! ### a content param: `{call .c}{param p}{let $x: 'L' /}({$x}){/param}{/call}` with .c = `[{$p}]`: "[(L)]" -/

def tCallerContent : Registry.Tmpl :=
  { name := [116], params := [],
    body := .mk 1 (.cons (.call 3 [99] false none (.content 4 [112]
        (.mk 5 (.cons (.letValue 5 [120] (.str 5 [] [76])) (.cons (.rawText 6 [40])
          (.cons (.print 6 (.dataRef 6 [120] .nil) []) (.cons (.rawText 7 [41]) .nil))))) .nil)) .nil),
    autoescape := .unspecified, nsName := [110], nsAutoescape := .unspecified, pos := 0, file := [102], text := [] }

def gContent : GEnv := { reg := [tCallerContent, tCallee], globals := [], ij := none, msgs := none, tbl := [], oblig := [] }

example : (execute gContent [116] [] 4).cls = .ok ∧ (execute gContent [116] [] 4).chunks.flatten = [91, 40, 76, 41, 93] := by
  have hfr : regFrag gContent.reg := by
    intro t ht
    simp only [gContent, List.mem_cons, List.mem_nil_iff, or_false] at ht
    rcases ht with rfl | rfl <;> decide
  have h := render_refines_lexical_partial gContent rfl hfr [116] [] 4 none rfl false none ⟨fun _ => rfl, fun _ h => by cases h⟩ (fun _ h => by cases h)
  have hs : Spec.Eval.render gContent.reg (absK gContent.globals) none false [116] (absK []) 4 = .val [91, 40, 76, 41, 93] := by rfl
  rw [hs] at h
  exact h

/-! ### {msg} without a bundle: `{msg desc=""}H{$x}{plural $n}{case 1}one{default}{$n}s{/plural}{/msg}` on
    x = 'out', n = 3: "Hout3s" -/

def tMsg : Registry.Tmpl :=
  { name := [116], params := [],
    body := .mk 1 (.cons (.msg 2 77 [] [] 3
        (.text 3 [72] (.ph 4 [88] (.cmd (.print 4 (.dataRef 4 [120] .nil) []))
          (.plural 5 [78] (.dataRef 5 [110] .nil)
            (.cons 6 1 7 (.text 7 [111, 110, 101] .nil) .nil) 8
            (.ph 8 [78] (.cmd (.print 8 (.dataRef 8 [110] .nil) [])) (.text 9 [115] .nil)) .nil)))) .nil),
    autoescape := .unspecified, nsName := [110], nsAutoescape := .unspecified, pos := 0, file := [102], text := [] }

def gMsg : GEnv := { reg := [tMsg], globals := [], ij := none, msgs := none, tbl := [], oblig := [] }

def dataMsg : Frame := [([120], .str [111, 117, 116]), ([110], .int 3)]

example : (execute gMsg [116] dataMsg 4).cls = .ok ∧ (execute gMsg [116] dataMsg 4).chunks.flatten = [72, 111, 117, 116, 51, 115] := by
  have hfr : regFrag gMsg.reg := by
    intro t ht
    simp only [gMsg, List.mem_cons, List.mem_nil_iff, or_false] at ht
    subst ht; decide
  have h := render_refines_lexical_partial gMsg rfl hfr [116] dataMsg 4 none rfl false none ⟨fun _ => rfl, fun _ h => by cases h⟩ (fun _ h => by cases h)
  have hs : Spec.Eval.render gMsg.reg (absK gMsg.globals) none false [116] (absK dataMsg) 4 = .val [72, 111, 117, 116, 51, 115] := by rfl
  rw [hs] at h
  exact h

/-! ### print directives: the interpreter's own library as the specification's `DirSem` -/

/-- scalars back into the interpreter's values -/
def concV : Val → Value
  | .undefined => .undefined
  | .null => .null
  | .bool b => .bool b
  | .int i => .int (Int64.ofInt i)
  | .float f => .float f
  | .str s => .str s
  | .list _ => .undefined
  | .map _ => .undefined

theorem concV_absV (mv : Value) (h : Scalar mv = true) : concV (absV mv) = mv := by
  cases mv <;> simp_all [absV, concV, Scalar]

theorem concL_absL : ∀ (l : List Value), (∀ x ∈ l, Scalar x = true) → (absL l).map concV = l
  | [], _ => rfl
  | x :: r, h => by
    simp only [absL, List.map_cons]
    rw [concV_absV x (h x List.mem_cons_self), concL_absL r (fun y hy => h y (List.mem_cons_of_mem _ hy))]

theorem applyDirective_scalar (impl : Bytes) (mv : Value) (args : List Value) (r : Value) (h : Scalar mv = true)
    (ha : applyDirective impl mv args = some r) : Scalar r = true := by
  unfold applyDirective at ha
  have key : r = mv ∨ ∃ s, r = .str s := by
    repeat' split at ha
    all_goals (try simp at ha)
    all_goals (try split at ha)
    all_goals (try simp at ha)
    all_goals first
      | exact Or.inl ha.symm
      | exact Or.inl ha.2.symm
      | exact Or.inr ⟨_, ha.symm⟩
      | (obtain ⟨j, _, hj⟩ := ha; exact Or.inr ⟨_, hj.symm⟩)
  rcases key with rfl | ⟨s, rfl⟩
  · exact h
  · rfl

def scalarV : Val → Bool
  | .list _ => false
  | .map _ => false
  | _ => true

theorem scalarV_abs (mv : Value) : scalarV (absV mv) = Scalar mv := by cases mv <;> rfl

theorem scalarV_absL : ∀ (l : List Value), (absL l).all scalarV = true → ∀ x ∈ l, Scalar x = true
  | [], _ => by simp
  | x :: r, h => by
    simp only [absL, List.all_cons, Bool.and_eq_true] at h
    intro y hy
    rcases List.mem_cons.mp hy with rfl | hy
    · rw [← scalarV_abs]; exact h.1
    · exact scalarV_absL r h.2 y hy

/-- the directive semantics of the interpreter's library: its table, its implementations — on scalar values
    and arguments; on collections this instance leaves the result open -/
def modelDirSem (tbl : Directives.Table) : Spec.Eval.DirSem :=
  { lookup := fun name => (Directives.lookup tbl name).map fun e => (e.arities, e.impl, e.cancel)
    apply := fun impl v args =>
      if scalarV v && args.all scalarV then
        match applyDirective impl (concV v) (args.map concV) with
        | some r => .val (absV r)
        | none => .error
      else .unspec }

theorem modelDirSem_ok (g : GEnv) : DirOk g (some (modelDirSem g.tbl)) := by
  intro D hD
  simp only [Option.some.injEq] at hD
  subst hD
  refine ⟨fun _ => rfl, ?_⟩
  intro impl mv margs
  simp only [modelDirSem]
  by_cases hs : (scalarV (absV mv) && (absL margs).all scalarV) = true
  · simp only [hs, if_true]
    simp only [Bool.and_eq_true] at hs
    have hsc : Scalar mv = true := by rw [← scalarV_abs]; exact hs.1
    have hscs := scalarV_absL margs hs.2
    simp only [concV_absV mv hsc, concL_absL margs hscs]
    cases ha : applyDirective impl mv margs with
    | none => exact ⟨fun v' h => by simp at h, fun _ => rfl⟩
    | some r =>
      refine ⟨fun v' h => ?_, fun h => by simp at h⟩
      simp only [Out.val.injEq] at h
      exact ⟨r, rfl, h⟩
  · simp only [hs, Bool.false_eq_true, if_false]
    exact ⟨fun v' h => by simp at h, fun h => by simp at h⟩

/-! `{$x}{$x|noAutoescape}{$x|truncate:2|noAutoescape}` on x = '<b>c': "&lt;b&gt;c" "<b>c" "<b" -/

def sNoAutoescape : Bytes := [110, 111, 65, 117, 116, 111, 101, 115, 99, 97, 112, 101]
def sTruncate : Bytes := [116, 114, 117, 110, 99, 97, 116, 101]

def tDir : Registry.Tmpl :=
  { name := [116], params := [],
    body := .mk 1 (.cons (.print 2 (.dataRef 2 [120] .nil) [])
      (.cons (.print 3 (.dataRef 3 [120] .nil) [⟨3, sNoAutoescape, []⟩])
      (.cons (.print 4 (.dataRef 4 [120] .nil) [⟨4, sTruncate, [.int 4 2]⟩, ⟨4, sNoAutoescape, []⟩]) .nil))),
    autoescape := .unspecified, nsName := [110], nsAutoescape := .unspecified, pos := 0, file := [102], text := [] }

def gDir : GEnv := { reg := [tDir], globals := [], ij := none, msgs := none, tbl := Gen.directiveTable, oblig := [] }

example : (execute gDir [116] [([120], .str [60, 98, 62, 99])] 4).cls = .ok ∧
    (execute gDir [116] [([120], .str [60, 98, 62, 99])] 4).chunks.flatten =
      [38, 108, 116, 59, 98, 38, 103, 116, 59, 99, 60, 98, 62, 99, 60, 98] := by
  have hfr : regFrag gDir.reg := by
    intro t ht
    simp only [gDir, List.mem_cons, List.mem_nil_iff, or_false] at ht
    subst ht; decide
  have h := render_refines_lexical_partial gDir rfl hfr [116] [([120], .str [60, 98, 62, 99])] 4 none rfl false (some { dirs := some (modelDirSem gDir.tbl) }) ⟨fun _ => rfl, fun _ h => by cases h⟩ (modelDirSem_ok gDir)
  have hs : Spec.Eval.render gDir.reg (absK gDir.globals) none false [116] (absK [([120], .str [60, 98, 62, 99])]) 4
      (some { dirs := some (modelDirSem gDir.tbl) }) = .val [38, 108, 116, 59, 98, 38, 103, 116, 59, 99, 60, 98, 62, 99, 60, 98] := by rfl
  rw [hs] at h
  exact h

/-- a {default} written BEFORE a {case}: `{switch $x}{default}D{case 'out'}C{case 'zz'}Z{/switch}{switch $x}{default}E{case 'q'}Q{/switch}`
    on x = 'out': "CE" — the case after the default is found; the default runs when nothing matches -/
def body3 : Block :=
  .mk 0 (.cons (.switch 1 (.dataRef 1 [120] .nil)
      (.cons 2 [] (.mk 2 (.cons (.rawText 2 [68]) .nil))
        (.cons 3 [.str 3 [] [111, 117, 116]] (.mk 3 (.cons (.rawText 3 [67]) .nil))
          (.cons 4 [.str 4 [] [122, 122]] (.mk 4 (.cons (.rawText 4 [90]) .nil)) .nil))))
    (.cons (.switch 5 (.dataRef 5 [120] .nil)
      (.cons 6 [] (.mk 6 (.cons (.rawText 6 [69]) .nil))
        (.cons 7 [.str 7 [] [113]] (.mk 7 (.cons (.rawText 7 [81]) .nil)) .nil))) .nil))

example : bufBytes (execBody g0 true (fun _ ctx st => ⟨.fuelOut, ctx, st⟩) body3 ctx0 st0).st.out = [67, 69] := by
  have hcall : ∀ t, GoodRun ((fun _ ctx st => ⟨.fuelOut, ctx, st⟩ : Registry.Tmpl → Run) t) :=
    fun _ ctx st _ => ⟨by simp, fun h => by simp at h, Ext.refl _ _⟩
  have h := exec_refines_lexical_partial g0 rfl true _ hcall [] false env0.vars (fun _ _ => .unspec) none rfl ⟨fun _ => rfl, fun _ h => by cases h⟩ (fun _ h => by cases h) (fun _ _ _ _ _ _ _ _ => trivial) body3 (by decide) ctx0 st0 env0 rel0
    ⟨⟨1, false⟩, [⟨0, true⟩], ⟨[], false⟩, rfl, rfl, rfl⟩ (by intro f hf; simp [ctx0] at hf; rcases hf with rfl | rfl <;> simp [st0])
  have hs : Spec.Eval.renderBlock [] false true env0.vars (fun _ _ => .unspec) none body3 env0 = .val [67, 69] := by rfl
  rw [hs] at h
  simpa [bufBytes, st0] using h.2

/-! ### {msg} through a message bundle: the interpreter's bundle read as the specification's `MsgSem` -/

/-- the interpreter's bundle as the specification's -/
def modelMsgSem (b : MsgBundle) : Spec.Eval.MsgSem :=
  { message := fun id => (b.message id).map toT, pluralCase := b.pluralCase }

theorem modelMsgSem_ok (g : GEnv) (b : MsgBundle) (hb : g.msgs = some b) (dirs : Option Spec.Eval.DirSem) :
    BundleOk g true (some { dirs := dirs, msgs := some (modelMsgSem b) }) := by
  refine ⟨fun h => (by cases h), fun B hB => ?_⟩
  simp only [Spec.Eval.msgsOf, Option.bind_some, Option.some.injEq] at hB
  subst hB
  exact ⟨b, hb, fun _ => rfl, fun _ => rfl⟩

/-! `{msg}H{$x} and {$n}{/msg}{msg}{plural $n}{case 1}one{default}{$n}s{/plural}{/msg}` on x = 'out', n = 3, with

      message 77 ↦ `[{N}|{X}]`                       (the placeholders REORDERED)
      message 78 ↦ plural V: form 0 `eins`, form 1 `{N} viele`;   pluralCase n = 0 if n = 1, else 1

    renders "[3|out]3 viele" — through the translations, not the source text. -/

def tMsgB : Registry.Tmpl :=
  { name := [116], params := [],
    body := .mk 1 (.cons (.msg 2 77 [] [] 3
        (.text 3 [72] (.ph 4 [88] (.cmd (.print 4 (.dataRef 4 [120] .nil) []))
          (.text 5 [32, 97, 110, 100, 32] (.ph 6 [78] (.cmd (.print 6 (.dataRef 6 [110] .nil) [])) .nil)))))
      (.cons (.msg 7 78 [] [] 8
        (.plural 8 [86] (.dataRef 8 [110] .nil)
          (.cons 9 1 10 (.text 10 [111, 110, 101] .nil) .nil) 11
          (.ph 11 [78] (.cmd (.print 11 (.dataRef 11 [110] .nil) [])) (.text 12 [115] .nil)) .nil)) .nil)),
    autoescape := .unspecified, nsName := [110], nsAutoescape := .unspecified, pos := 0, file := [102], text := [] }

def bundleB : MsgBundle :=
  { message := fun id =>
      if id == 77 then some (.cons (.raw [91]) (.cons (.ph [78]) (.cons (.raw [124]) (.cons (.ph [88]) (.cons (.raw [93]) .nil)))))
      else if id == 78 then some (.cons (.plural [86]
        (.cons (.cons (.raw [101, 105, 110, 115]) .nil)
          (.cons (.cons (.ph [78]) (.cons (.raw [32, 118, 105, 101, 108, 101]) .nil)) .nil))) .nil)
      else none
    pluralCase := fun n => if n == 1 then 0 else 1 }

def gMsgB : GEnv := { reg := [tMsgB], globals := [], ij := none, msgs := some bundleB, tbl := [], oblig := [] }

set_option maxHeartbeats 2000000 in
example : (execute gMsgB [116] dataMsg 4).cls = .ok ∧
    (execute gMsgB [116] dataMsg 4).chunks.flatten = [91, 51, 124, 111, 117, 116, 93, 51, 32, 118, 105, 101, 108, 101] := by
  have hfr : regFrag gMsgB.reg := by
    intro t ht
    simp only [gMsgB, List.mem_cons, List.mem_nil_iff, or_false] at ht
    subst ht; decide
  have h := render_refines_lexical_partial gMsgB rfl hfr [116] dataMsg 4 none rfl true (some { dirs := none, msgs := some (modelMsgSem bundleB) })
    (modelMsgSem_ok gMsgB bundleB rfl none) (fun _ h => by cases h)
  have hs : Spec.Eval.render gMsgB.reg (absK gMsgB.globals) none true [116] (absK dataMsg) 4
      (some { dirs := none, msgs := some (modelMsgSem bundleB) }) =
      .val [91, 51, 124, 111, 117, 116, 93, 51, 32, 118, 105, 101, 108, 101] := by rfl
  rw [hs] at h
  exact h

/-! ### accesses, collection literals and builtins in a program: on x = {items: [{name: 'a', tag: null}, {name: 'b', tag: 'T'}]}

      {foreach $it in $x.items}{$it.name}{if isNonnull($it.tag)}:{$it.tag}{/if}{/foreach}{length($x.items)}
      {call .d data="['x': $x.items[0].name, 'p': min(1, 2)]" /}

    with .d = `[{$p}{$x}]`: "ab:T2[1a]" -/

def kItems : Bytes := [105, 116, 101, 109, 115]
def kName : Bytes := [110, 97, 109, 101]
def kTag : Bytes := [116, 97, 103]
def kIt : Bytes := [105, 116]

def tAcc : Registry.Tmpl :=
  { name := [116], params := [],
    body := .mk 1 (.cons (.forc 1 kIt (.dataRef 1 [120] (.cons (.key 1 false kItems) .nil))
        (.mk 2 (.cons (.print 2 (.dataRef 2 kIt (.cons (.key 2 false kName) .nil)) [])
          (.cons (.ifc 3 (.cons 3 (some (.func 3 fIsNonnull (.cons (.dataRef 3 kIt (.cons (.key 3 false kTag) .nil)) .nil)))
            (.mk 4 (.cons (.rawText 4 [58]) (.cons (.print 4 (.dataRef 4 kIt (.cons (.key 4 false kTag) .nil)) []) .nil))) .nil)) .nil))) none)
      (.cons (.print 5 (.func 5 fLength (.cons (.dataRef 5 [120] (.cons (.key 5 false kItems) .nil)) .nil)) [])
      (.cons (.call 6 [100] false (some (.map 6 (.cons [120]
          (.dataRef 6 [120] (.cons (.key 6 false kItems) (.cons (.index 6 false 0) (.cons (.key 6 false kName) .nil))))
          (.cons [112] (.func 6 fMin (.cons (.int 6 1) (.cons (.int 6 2) .nil))) .nil)))) .nil) .nil))),
    autoescape := .unspecified, nsName := [110], nsAutoescape := .unspecified, pos := 0, file := [102], text := [] }

def gAcc : GEnv := { reg := [tAcc, tCalleeAll], globals := [], ij := none, msgs := none, tbl := [], oblig := [] }

def dataAcc : Frame := [([120], .map 3 [(kItems, .list 4
  [.map 5 [(kName, .str [97]), (kTag, .null)], .map 6 [(kName, .str [98]), (kTag, .str [84])]])])]

set_option maxHeartbeats 4000000 in
example : (execute gAcc [116] dataAcc 4).cls = .ok ∧
    (execute gAcc [116] dataAcc 4).chunks.flatten = [97, 98, 58, 84, 50, 91, 49, 97, 93] := by
  have hfr : regFrag gAcc.reg := by
    intro t ht
    simp only [gAcc, List.mem_cons, List.mem_nil_iff, or_false] at ht
    rcases ht with rfl | rfl <;> decide
  have h := render_refines_lexical_partial gAcc rfl hfr [116] dataAcc 4 none rfl false none ⟨fun _ => rfl, fun _ h => by cases h⟩ (fun _ h => by cases h)
  have hs : Spec.Eval.render gAcc.reg (absK gAcc.globals) none false [116] (absK dataAcc) 4 =
      .val [97, 98, 58, 84, 50, 91, 49, 97, 93] := by rfl
  rw [hs] at h
  exact h

/-- a loop over `$y` leaves `$x` (and every other name) as it was: the frame of an iteration of
    `{foreach $y in …}` over the example scope -/
example : ∃ st2 st3 st4,
    Eval.set (push ctx0 st0).1 (push ctx0 st0).2 ([121] ++ sLastIndexSuffix) (.int 1) = some st2 ∧
    Eval.set (push ctx0 st0).1 st2 [121] (.str [97]) = some st3 ∧
    Eval.set (push ctx0 st0).1 st3 ([121] ++ sIndexSuffix) (.int 0) = some st4 ∧
    lookup st4.heap (push ctx0 st0).1 [120] = lookup st0.heap ctx0 [120] :=
  ⟨_, _, _, rfl, rfl, rfl, loop_hides_only_its_variable [121] (.str [97]) 1 0 ctx0 st0 _ _ _
    (by intro f hf; simp [ctx0] at hf; rcases hf with rfl | rfl <;> simp [st0]) rfl rfl rfl [120] (by decide) (by decide)⟩

/-- `{for $i in range(1, 4)}{$i}{/for}{$x}`: "123out" -/
def body2 : Block :=
  .mk 0 (.cons (.forc 1 [105] (.func 1 fRange (.cons (.int 1 1) (.cons (.int 1 4) .nil)))
      (.mk 2 (.cons (.print 2 (.dataRef 2 [105] .nil) []) .nil)) none)
    (.cons (.print 4 (.dataRef 4 [120] .nil) []) .nil))

example : bufBytes (execBody g0 true (fun _ ctx st => ⟨.fuelOut, ctx, st⟩) body2 ctx0 st0).st.out = [49, 50, 51, 111, 117, 116] := by
  have hcall : ∀ t, GoodRun ((fun _ ctx st => ⟨.fuelOut, ctx, st⟩ : Registry.Tmpl → Run) t) :=
    fun _ ctx st _ => ⟨by simp, fun h => by simp at h, Ext.refl _ _⟩
  have h := exec_refines_lexical_partial g0 rfl true _ hcall [] false env0.vars (fun _ _ => .unspec) none rfl ⟨fun _ => rfl, fun _ h => by cases h⟩ (fun _ h => by cases h) (fun _ _ _ _ _ _ _ _ => trivial) body2 (by decide) ctx0 st0 env0 rel0
    ⟨⟨1, false⟩, [⟨0, true⟩], ⟨[], false⟩, rfl, rfl, rfl⟩ (by intro f hf; simp [ctx0] at hf; rcases hf with rfl | rfl <;> simp [st0])
  have hs : Spec.Eval.renderBlock [] false true env0.vars (fun _ _ => .unspec) none body2 env0 = .val [49, 50, 51, 111, 117, 116] := by rfl
  rw [hs] at h
  simpa [bufBytes, st0] using h.2

end SoyVerif.Props.C02Spec
