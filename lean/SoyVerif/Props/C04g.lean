/-
  C04 — prints WITH directives against Spec/Eval.render: the hypothesis `PrintLe` of Props/C04f
  (`gen_correct_registry_dirs_partial`, `gen_correct_file_dirs_partial`) derived from one NAMED hypothesis per
  soyutils function the generator's table names.

  The two sides.  Go: Spec/Eval.render with the library semantics `goLib` = Props/C02Spec `modelDirSem` of the live
  directive table — the Lean models of the Go directives (Model/Directives `applyImpl`, Model/Eval `applyDirective`:
  Escape, JsEscape2, JsonMarshal, …), which C02Spec proves the interpreter model refines.  JavaScript: the reference
  semantics of the generated print expression (Props/C04d `refPrint`: the order of the calls and the escape decision
  are those of the Go renderer — Props/C04b `print_directives_agree`), the library functions being the symbols
  `F name args`.

  `DirIs F name` — LIBRARY OBLIGATION, not proved here: WHENEVER the soyutils function of the directive `name`
  returns a value (on the JSON image of a defined scalar Soy value and literal arguments; for insertWordBreaks /
  changeNewlineToBr on the HTML-escaped text of it, as the generator writes the call), the Go directive returns the
  same value.  It is implied by the equation `soy.$$name(x, args) = <Go directive>(x, args)`; it is weaker where the
  Go directive fails (ill-typed arguments).  `SoyutilsIs F` collects them, one field per function.  The sub-check
  C16js ties the escapers to the real soyutils.js by execution.  The DOCUMENTED differences of the backends are
  exactly fields that are FALSE of the real library: `escapeUri` (Go `+` and `%XX` of url.QueryEscape against
  encodeURIComponent), `escapeJsString` (`\'` against `\x27`, …), `truncate` on text outside ASCII (bytes against
  UTF-16 units; and on a number that fits Go hands the NUMBER on where soy.$$truncate returns its string); and
  `escapeHtml` at a NUL character.  On templates that use none of these the corresponding fields can be dropped:
  `printLe_dirsIn` / `gen_correct_registry_goLib_in_partial` ask `DirIs` only for the names admitted (`dirsOkIn names`).

  THEN (`gen_correct_registry_goLib_partial`, `gen_correct_file_goLib_partial`): what a generated function returns
  is what Spec/Eval.render renders with the Go library, for templates with arbitrary lists of these directives.
  The directive-free theorems of C04f are the corollaries with no name admitted (they need `EscapeHtmlIs` only).

  The converse WITH directives (`gen_complete_…_goLib_partial`) is Props/C04h, under the equational obligations `DirEq`.
-/
import SoyVerif.Props.C04f
import SoyVerif.Props.C02Spec

namespace SoyVerif.Props.C04g
open SoyVerif SoyVerif.Model SoyVerif.Model.JsGen SoyVerif.Spec.JsSemRef SoyVerif.Spec.JsStmt
open SoyVerif.Props.C04c (toJsV Globals GlobalsAre IjRel GlobRel)
open SoyVerif.Props.C04d SoyVerif.Props.C04e SoyVerif.Props.C04f
open SoyVerif.Spec.Eval (Val Out)
open SoyVerif.Refine (absV absL Scalar)
open SoyVerif.Model.Eval (applyDirective)
open SoyVerif.Props.C02Spec (modelDirSem concV scalarV scalarV_abs applyDirective_scalar)

/-! ## the two libraries -/

/-- the Go library as Spec/Eval's library semantics: the live directive table and the Lean models of the Go
    directives (Props/C02Spec `modelDirSem`); no message bundle -/
def goLib : Spec.Eval.LibSem := { dirs := some (modelDirSem Gen.directiveTable) }

/-- a literal argument of a directive and its value -/
def litVal : Expr → Option Val
  | .null _ => some .null
  | .bool _ b => some (.bool b)
  | .int _ i => some (.int i)
  | .str _ _ s => some (.str s)
  | _ => none

def litVals : List Expr → Option (List Val)
  | [] => some []
  | e :: r => match litVal e, litVals r with
    | some v, some vs => some (v :: vs)
    | _, _ => none

/-- what the generated code passes to the function of a directive: the value, or — for the two functions whose Go
    twins escape their input themselves — the HTML-escaped text of it (soy.$$escapeHtml, `EscapeHtmlIs`) -/
def dirInput (e : Gen.DirectiveEntry) (jv : JVal) : Option JVal :=
  if e.impl == Directives.sDirectiveInsertWordBreaks || e.impl == Directives.sDirectiveChangeNewlineToBr then
    (toStr? jv).map fun s => .str (htmlEscape s)
  else some jv

/-- LIBRARY OBLIGATION (not proved here) for the soyutils function of the directive `name`: whenever it returns a
    value — on the JSON image `jv` of a Soy value `v` (through `dirInput`), with literal arguments — the value `v` is a
    defined scalar (the library is read on these only, as `EscapeHtmlIs` reads soy.$$escapeHtml) and the Go directive
    (Model/Eval `applyDirective` on the table's implementation) returns the same value -/
def DirIs (F : Bytes → List Expr → JVal → JOut) (name : Bytes) : Prop :=
  ∀ (e : Gen.DirectiveEntry), Directives.lookup Gen.directiveTable name = some e →
  ∀ (args : List Expr) (lits : List Val) (v : Val) (jv x r : JVal),
    litVals args = some lits → toJsV v = some jv → dirInput e jv = some x →
    F name args x = .val r →
    scalarV v = true ∧ Spec.Eval.isUndef v = false ∧
      ∃ gv, applyDirective e.impl (concV v) (lits.map concV) = some gv ∧ toJsV (absV gv) = some r

/-- the names of the directives with a soyutils function behind them that both backends implement -/
def libNames : List Bytes :=
  [b!"changeNewlineToBr", b!"escapeHtml", b!"escapeJsString", b!"escapeUri", b!"insertWordBreaks", b!"json", b!"truncate"]

/-- the hypotheses about soyutils.js, one per function the generator's table names (`id` and `noAutoescape` have no
    function: the generator drops them).  See the header for which of them the real library falsifies. -/
structure SoyutilsIs (F : Bytes → List Expr → JVal → JOut) : Prop where
  /-- soy.$$escapeHtml where the generator writes it for autoescaping -/
  escapeHtml : EscapeHtmlIs F
  /-- … and as the directive `|escapeHtml` -/
  escapeHtmlDir : DirIs F b!"escapeHtml"
  changeNewlineToBr : DirIs F b!"changeNewlineToBr"
  escapeJsString : DirIs F b!"escapeJsString"
  escapeUri : DirIs F b!"escapeUri"
  insertWordBreaks : DirIs F b!"insertWordBreaks"
  /-- JSON.stringify -/
  json : DirIs F b!"json"
  truncate : DirIs F b!"truncate"

theorem SoyutilsIs.all {F : Bytes → List Expr → JVal → JOut} (h : SoyutilsIs F) : ∀ name ∈ libNames, DirIs F name := by
  intro name hn
  simp only [libNames, List.mem_cons, List.mem_nil_iff, or_false] at hn
  rcases hn with rfl | rfl | rfl | rfl | rfl | rfl | rfl
  · exact h.changeNewlineToBr
  · exact h.escapeHtmlDir
  · exact h.escapeJsString
  · exact h.escapeUri
  · exact h.insertWordBreaks
  · exact h.json
  · exact h.truncate

/-- a directive the theorem covers: known to the table, a permitted number of arguments, literal arguments; one
    the generator drops (`id`, `noAutoescape`: the Go implementation is the identity) or one of `names` -/
def dirOkIn (names : List Bytes) (d : Directive) : Bool :=
  match Directives.lookup Gen.directiveTable d.name with
  | none => false
  | some e => e.arities.any (· == d.args.length) && (litVals d.args).isSome &&
      (e.impl == Directives.sDirectiveNoAutoescape || names.contains d.name)

def dirsOkIn (names : List Bytes) (ds : List Directive) : Bool := ds.all (dirOkIn names)

/-- every list of the directives both backends implement -/
def dirsOk : List Directive → Bool := dirsOkIn libNames

/-! ## the simulation -/

theorem evalAll_lits (env : SEnv) : ∀ (args : List Expr) (lits : List Val), litVals args = some lits →
    Spec.Eval.evalAll env args = .val lits
  | [], lits, h => by
    simp only [litVals, Option.some.injEq] at h
    subst h; rfl
  | e :: r, lits, h => by
    simp only [litVals] at h
    cases hv : litVal e with
    | none => simp [hv] at h
    | some v =>
      cases hr : litVals r with
      | none => simp [hv, hr] at h
      | some vs =>
        simp only [hv, hr, Option.some.injEq] at h
        subst h
        have he : Spec.Eval.eval env e = .val v := by
          cases e <;> simp_all [litVal, Spec.Eval.eval]
        simp [Spec.Eval.evalAll, he, evalAll_lits env r vs hr, Spec.Eval.Out.bind]

theorem lits_scalar : ∀ (args : List Expr) (lits : List Val), litVals args = some lits → lits.all scalarV = true
  | [], lits, h => by
    simp only [litVals, Option.some.injEq] at h
    subst h; rfl
  | e :: r, lits, h => by
    simp only [litVals] at h
    cases hv : litVal e with
    | none => simp [hv] at h
    | some v =>
      cases hr : litVals r with
      | none => simp [hv, hr] at h
      | some vs =>
        simp only [hv, hr, Option.some.injEq] at h
        subst h
        have : scalarV v = true := by
          cases e <;> simp only [litVal, Option.some.injEq] at hv <;> first | (subst hv; rfl) | cases hv
        simp [this, lits_scalar r vs hr]

theorem scalar_concV (v : Val) (h : scalarV v = true) : Scalar (concV v) = true := by
  cases v <;> simp_all [scalarV, concV, Scalar]

theorem int64_roundtrip (i : Int) (h : SoyVerif.Spec.JsSem.exact i = true) : (Int64.ofInt i).toInt = i := by
  have h : -9007199254740992 ≤ i ∧ i ≤ 9007199254740992 := by
    unfold SoyVerif.Spec.JsSem.exact SoyVerif.Spec.JsSem.two53 at h
    exact of_decide_eq_true h
  rw [Int64.toInt_ofInt]
  exact Int.bmod_eq_of_le (by simp [Int64.size]; omega) (by simp [Int64.size]; omega)

/-- a scalar value with a JSON image goes through the interpreter's values unchanged -/
theorem absV_concV (v : Val) (jv : JVal) (hs : scalarV v = true) (hj : toJsV v = some jv) : absV (concV v) = v := by
  cases v with
  | int i =>
    simp only [toJsV] at hj
    split at hj
    · rename_i he
      simp [concV, absV, int64_roundtrip i he]
    · cases hj
  | float f => simp [toJsV] at hj
  | list xs => simp [scalarV] at hs
  | map kvs => simp [scalarV] at hs
  | undefined => rfl
  | null => rfl
  | bool b => rfl
  | str s => rfl

section
variable [Globals]
variable (F : Bytes → List Expr → JVal → JOut) (hesc : EscapeHtmlIs F)

/-- on a value that is not there (`error`, `unspec`) the directive loop of the reference changes nothing -/
theorem goRun_stuck (x : JOut) (hx : ∀ jv, x ≠ .val jv) : ∀ (ds : List Directive) (esc : Bool) (y : JOut) (esc' : Bool),
    C04b.goRun (liftF F) Gen.directiveTable ds x esc = some (y, esc') → y = x
  | [], esc, y, esc', h => by
    simp only [C04b.goRun, Option.some.injEq, Prod.mk.injEq] at h
    exact h.1.symm
  | d :: ds, esc, y, esc', h => by
    simp only [C04b.goRun] at h
    cases hl : Directives.lookup Gen.directiveTable d.name with
    | none => simp [hl] at h
    | some e =>
      simp only [hl] at h
      have hsame : C04b.goApply (liftF F) e d x = x := by
        cases x with
        | val jv => exact absurd rfl (hx jv)
        | error =>
          unfold C04b.goApply
          split
          · rfl
          · split <;> rfl
        | unspec =>
          unfold C04b.goApply
          split
          · rfl
          · split <;> rfl
      rw [hsame] at h
      exact goRun_stuck x hx ds _ y esc' h

include hesc

/-- one step and the rest: where the reference's loop ends on a value that prints, Spec/Eval's loop over the Go
    library ends on a value with that JSON image, with the same flag; and the value printed was defined -/
theorem goRun_sim (names : List Bytes) (hdir : ∀ name ∈ names, DirIs F name) (env : SEnv) :
    ∀ (ds : List Directive) (v : Val) (jv : JVal) (esc : Bool) (jr : JVal) (esc' : Bool) (s : Bytes),
      dirsOkIn names ds = true → toJsV v = some jv →
      C04b.goRun (liftF F) Gen.directiveTable ds (.val jv) esc = some (.val jr, esc') → toStr? jr = some s →
      scalarV v = true ∧ Spec.Eval.isUndef v = false ∧
        ∃ vr, Spec.Eval.runDirs (some (modelDirSem Gen.directiveTable)) env ds v esc = .val (vr, esc') ∧ toJsV vr = some jr
  | [], v, jv, esc, jr, esc', s, _, hj, h, hs => by
    simp only [C04b.goRun, Option.some.injEq, Prod.mk.injEq, JOut.val.injEq] at h
    obtain ⟨rfl, rfl⟩ := h
    refine ⟨?_, ?_, v, rfl, hj⟩
    · cases v with
      | list xs =>
        simp only [toJsV] at hj
        cases hxs : C04c.toJsList xs with
        | none => simp [hxs] at hj
        | some l =>
          simp only [hxs, Option.map_some, Option.some.injEq] at hj
          subst hj
          simp [toStr?] at hs
      | map kvs =>
        simp only [toJsV] at hj
        cases hxs : C04c.toJsKvs kvs with
        | none => simp [hxs] at hj
        | some l =>
          simp only [hxs, Option.map_some, Option.some.injEq] at hj
          subst hj
          simp [toStr?] at hs
      | _ => rfl
    · cases v with
      | undefined =>
        simp only [toJsV, Option.some.injEq] at hj
        subst hj
        simp [toStr?] at hs
      | _ => rfl
  | d :: ds, v, jv, esc, jr, esc', s, hok, hj, h, hs => by
    simp only [dirsOkIn, List.all_cons, Bool.and_eq_true] at hok
    obtain ⟨hd, hrest⟩ := hok
    simp only [C04b.goRun] at h
    unfold dirOkIn at hd
    cases hl : Directives.lookup Gen.directiveTable d.name with
    | none => simp [hl] at hd
    | some e =>
      simp only [hl, Bool.and_eq_true, Bool.or_eq_true] at hd h
      obtain ⟨⟨har, hlit⟩, hname⟩ := hd
      obtain ⟨lits, hlits⟩ := Option.isSome_iff_exists.mp hlit
      have hD : (modelDirSem Gen.directiveTable).lookup d.name = some (e.arities, e.impl, e.cancel) := by
        simp [modelDirSem, hl]
      have hargs := evalAll_lits env d.args lits hlits
      have hlsc := lits_scalar d.args lits hlits
      -- the step of the specification, given what the Go directive returns
      have hstep : scalarV v = true → ∀ gv, applyDirective e.impl (concV v) (lits.map concV) = some gv →
          Spec.Eval.runDirs (some (modelDirSem Gen.directiveTable)) env (d :: ds) v esc =
            Spec.Eval.runDirs (some (modelDirSem Gen.directiveTable)) env ds (absV gv) (if e.cancel then false else esc) := by
        intro hsc gv hgv
        have happ : (modelDirSem Gen.directiveTable).apply e.impl v lits = .val (absV gv) := by
          simp only [modelDirSem, hsc, hlsc, Bool.and_self, if_true, hgv]
        rw [Spec.Eval.runDirs]
        simp only [hD, har, Bool.not_true, Bool.false_eq_true, if_false, hargs, happ, Spec.Eval.Out.bind]
      by_cases hno : (e.impl == Directives.sDirectiveNoAutoescape) = true
      · -- `id`, `noAutoescape`: nothing is called; the Go implementation is the identity
        have hap : C04b.goApply (liftF F) e d (.val jv) = .val jv := by simp [C04b.goApply, hno]
        rw [hap] at h
        have hgv : applyDirective e.impl (concV v) (lits.map concV) = some (concV v) := by
          simp [applyDirective, hno]
        obtain ⟨hsc, hu, vr, hvr, hjr⟩ := goRun_sim names hdir env ds v jv _ jr esc' s hrest hj h hs
        have hsame := absV_concV v jv hsc hj
        refine ⟨hsc, hu, vr, ?_, hjr⟩
        rw [hstep hsc _ hgv, hsame]
        exact hvr
      · have hin : names.contains d.name = true := by
          rcases hname with h1 | h1
          · exact absurd h1 hno
          · exact h1
        have hdis := hdir d.name (by simpa using hin) e hl
        -- the value the function is applied to
        cases hx : dirInput e jv with
        | none =>
          -- a self-escaping function on a value soy.$$escapeHtml is not read on: the loop is stuck
          exfalso
          unfold dirInput at hx
          split at hx
          · rename_i hself
            have hts : toStr? jv = none := by simpa using hx
            have hap : C04b.goApply (liftF F) e d (.val jv) = .unspec := by
              simp only [C04b.goApply, hno, Bool.false_eq_true, if_false, hself, if_true, liftF, JOut.bind, hesc jv, hts]
            rw [hap] at h
            have := goRun_stuck F .unspec (fun _ h => by cases h) ds _ _ _ h
            cases this
          · cases hx
        | some x =>
          have hap : C04b.goApply (liftF F) e d (.val jv) = F d.name d.args x := by
            unfold dirInput at hx
            split at hx
            · rename_i hself
              cases hts : toStr? jv with
              | none => simp [hts] at hx
              | some s0 =>
                simp only [hts, Option.map_some, Option.some.injEq] at hx
                subst hx
                simp only [C04b.goApply, hno, Bool.false_eq_true, if_false, hself, if_true, liftF, JOut.bind, hesc jv, hts]
            · rename_i hself
              simp only [Option.some.injEq] at hx
              subst hx
              simp only [C04b.goApply, hno, Bool.false_eq_true, if_false, hself, liftF, JOut.bind]
          rw [hap] at h
          cases hF : F d.name d.args x with
          | error =>
            rw [hF] at h
            have := goRun_stuck F .error (fun _ h => by cases h) ds _ _ _ h
            cases this
          | unspec =>
            rw [hF] at h
            have := goRun_stuck F .unspec (fun _ h => by cases h) ds _ _ _ h
            cases this
          | val r =>
            rw [hF] at h
            obtain ⟨hsc, hu, gv, hgv, hjr'⟩ := hdis d.args lits v jv x r hlits hj hx hF
            obtain ⟨_, _, vr, hvr, hjr⟩ := goRun_sim names hdir env ds (absV gv) r _ jr esc' s hrest hjr' h hs
            refine ⟨hsc, hu, vr, ?_, hjr⟩
            rw [hstep hsc _ hgv]
            exact hvr

omit hesc in
/-- the literal arguments of the admitted directives look nothing up: the loop does not depend on the environment -/
theorem runDirs_env (D : Spec.Eval.DirSem) (names : List Bytes) (env env' : SEnv) :
    ∀ (ds : List Directive) (v : Val) (esc : Bool), dirsOkIn names ds = true →
      Spec.Eval.runDirs (some D) env ds v esc = Spec.Eval.runDirs (some D) env' ds v esc
  | [], _, _, _ => rfl
  | d :: ds, v, esc, hok => by
    simp only [dirsOkIn, List.all_cons, Bool.and_eq_true] at hok
    obtain ⟨hd, hrest⟩ := hok
    unfold dirOkIn at hd
    cases hl : Directives.lookup Gen.directiveTable d.name with
    | none => simp [hl] at hd
    | some e =>
      simp only [hl, Bool.and_eq_true] at hd
      obtain ⟨lits, hlits⟩ := Option.isSome_iff_exists.mp hd.1.2
      rw [Spec.Eval.runDirs, Spec.Eval.runDirs]
      cases D.lookup d.name with
      | none => rfl
      | some x =>
        obtain ⟨ar, impl, cancel⟩ := x
        simp only [evalAll_lits env d.args lits hlits, evalAll_lits env' d.args lits hlits]
        split
        · rfl
        · simp only [Spec.Eval.Out.bind]
          cases D.apply impl v lits with
          | val v' => exact runDirs_env D names env env' ds v' _ hrest
          | error => rfl
          | unspec => rfl

omit hesc in
theorem specPrint_env (names : List Bytes) (env env' : SEnv) (esc : Bool) (dirs : List Directive) (v : Val)
    (hok : dirsOkIn names dirs = true) :
    specPrint (some goLib) esc env dirs v = specPrint (some goLib) esc env' dirs v := by
  have hD : Spec.Eval.dirsOf (some goLib) = some (modelDirSem Gen.directiveTable) := rfl
  unfold specPrint
  rw [hD, runDirs_env (modelDirSem Gen.directiveTable) names env env' dirs v esc hok]

/-- `PrintLe` for the directive lists over `names`, from `DirIs` for these names (and `EscapeHtmlIs`) -/
theorem printLe_dirsIn (names : List Bytes) (hdir : ∀ name ∈ names, DirIs F name) :
    PrintLe F (dirsOkIn names) (some goLib) := by
  intro ae dirs env v s hok h
  by_cases hnil : dirs = []
  · subst hnil
    exact print_le_noDirs F ae hesc (some goLib) [] env v s rfl h
  · have hne : dirs.isEmpty = false := by cases dirs <;> simp_all
    -- where the JSON reading is silent the reference's print IS Spec/Eval's (the arguments are literals)
    cases hjs0 : refPrintJs F ae dirs v with
    | unspec =>
      simp only [refPrint, hjs0, hne, Bool.false_eq_true, if_false] at h
      rw [specPrint_env names env env0 (ae != .off) dirs v hok]
      exact h
    | error => simp [refPrint, hjs0] at h
    | val s' =>
    have hjs : refPrintJs F ae dirs v = .val s := by
      simp only [refPrint, hjs0, Out.val.injEq] at h
      rw [← h]; exact hjs0
    clear hjs0
    unfold refPrintJs at hjs
    cases hv : toJsV v with
    | none => simp [hv] at hjs
    | some jv =>
      simp only [hv] at hjs
      cases hgo : C04b.goPrint (liftF F) Gen.directiveTable ae dirs (.val jv) with
      | none => simp [hgo] at hjs
      | some o =>
        cases o with
        | error => simp [hgo] at hjs
        | unspec => simp [hgo] at hjs
        | val r =>
          simp only [hgo] at hjs
          cases hr : toStr? r with
          | none => simp [hr] at hjs
          | some s' =>
            simp only [hr, Out.val.injEq] at hjs
            subst hjs
            -- the loop, then the escape decision
            simp only [C04b.goPrint, Option.map_eq_some_iff] at hgo
            obtain ⟨⟨y, esc'⟩, hrun, hfin⟩ := hgo
            -- the loop ends on a value: the final call (if any) is applied to one
            cases y with
            | error => cases esc' <;> simp [liftF, JOut.bind] at hfin
            | unspec => cases esc' <;> simp [liftF, JOut.bind] at hfin
            | val jr =>
              have hD : Spec.Eval.dirsOf (some goLib) = some (modelDirSem Gen.directiveTable) := rfl
              cases esc' with
              | false =>
                simp only [Bool.false_eq_true, if_false, JOut.val.injEq] at hfin
                subst hfin
                obtain ⟨_, hu, vr, hvr, hjr⟩ := goRun_sim F hesc names hdir env dirs v jv _ jr false s' hok hv hrun hr
                have hshow := C04c.showVal_toStr vr jr s' hjr hr
                simp [specPrint, hD, hu, hvr, hshow, Spec.Eval.Out.bind]
              | true =>
                simp only [if_true, liftF, JOut.bind, hesc jr] at hfin
                cases hs0 : toStr? jr with
                | none => simp [hs0] at hfin
                | some s0 =>
                  simp only [hs0, JOut.val.injEq] at hfin
                  subst hfin
                  simp only [toStr?, Option.some.injEq] at hr
                  subst hr
                  obtain ⟨_, hu, vr, hvr, hjr⟩ := goRun_sim F hesc names hdir env dirs v jv _ jr true s0 hok hv hrun hs0
                  have hshow := C04c.showVal_toStr vr jr s0 hjr hs0
                  simp [specPrint, hD, hu, hvr, hshow, Spec.Eval.Out.bind]

omit hesc

/-- `PrintLe` for every list of the directives both backends implement, from the hypotheses about soyutils.js -/
theorem printLe_dirs (h : SoyutilsIs F) : PrintLe F dirsOk (some goLib) :=
  printLe_dirsIn F h.escapeHtml libNames h.all

/-! ## the theorems -/

/-- PARTIAL (C04, a whole registry, prints with ARBITRARY lists of the directives both backends implement).  IF each
    soyutils function computes what the Go directive computes (`SoyutilsIs F`: `EscapeHtmlIs` and one `DirIs` per
    function) THEN what the generated function `name` — its calls served by the table of the generated functions,
    `TableOk` — returns on the JSON image of `data` is what Spec/Eval.render renders for the template `name` on `data`
    WITH THE GO LIBRARY (`goLib`: the Lean models of the Go directives). -/
theorem gen_correct_registry_goLib_partial (hlib : SoyutilsIs F) (reg : Registry.Reg) (table : List JsFunc) (fuel : Nat)
    (msgs : Bool) (hdirs : ∀ t ∈ reg, dirBlock dirsOk msgs t.body = true)
    (htab : TableOk reg table) (globals : Spec.Eval.Binds) (ij : Option Spec.Eval.Binds) (name : Bytes)
    (data : Spec.Eval.Binds) (jd : List (Bytes × JVal)) (hj : C04c.toJsKvs data = some jd)
    (jij : Option (List (Bytes × JVal))) (hij : IjRel ij jij) (hgl : GlobRel globals) (d : Nat) (r : JVal)
    (hx : callFn F table fuel d name (.obj jd) jij = .val r) :
    ∃ text, Spec.Eval.render reg globals ij msgs name data d (some goLib) = .val text ∧ r = .str text :=
  gen_correct_registry_dirs_partial F reg table fuel hlib.escapeHtml dirsOk (some goLib) (printLe_dirs F hlib) msgs hdirs htab
    globals ij name data jd hj jij hij hgl d r hx

/-- … asking `DirIs` only for the directives the templates use (`names`): a registry that uses no directive the real
    soyutils.js is known to compute differently needs no hypothesis the real library falsifies; with `names = []`
    (`|id`, `|noAutoescape` only) `EscapeHtmlIs` alone is left -/
theorem gen_correct_registry_goLib_in_partial (hesc : EscapeHtmlIs F) (names : List Bytes) (hdir : ∀ name ∈ names, DirIs F name)
    (reg : Registry.Reg) (table : List JsFunc) (fuel : Nat)
    (msgs : Bool) (hdirs : ∀ t ∈ reg, dirBlock (dirsOkIn names) msgs t.body = true)
    (htab : TableOk reg table) (globals : Spec.Eval.Binds) (ij : Option Spec.Eval.Binds) (name : Bytes)
    (data : Spec.Eval.Binds) (jd : List (Bytes × JVal)) (hj : C04c.toJsKvs data = some jd)
    (jij : Option (List (Bytes × JVal))) (hij : IjRel ij jij) (hgl : GlobRel globals) (d : Nat) (r : JVal)
    (hx : callFn F table fuel d name (.obj jd) jij = .val r) :
    ∃ text, Spec.Eval.render reg globals ij msgs name data d (some goLib) = .val text ∧ r = .str text :=
  gen_correct_registry_dirs_partial F reg table fuel hesc (dirsOkIn names) (some goLib) (printLe_dirsIn F hesc names hdir) msgs hdirs
    htab globals ij name data jd hj jij hij hgl d r hx

/-- PARTIAL (C04, a file): the functions the generator writes for a file of the fragment (`toFile`; by
    `visitSoyFile_renders` the end of the generated text), prints with arbitrary lists of the directives both backends
    implement, under `SoyutilsIs F`: what the function `name` returns is what Spec/Eval.render renders with the Go library -/
theorem gen_correct_file_goLib_partial (hlib : SoyutilsIs F) (fuel : Nat) (f : SoyFile)
    (rr : List JsFunc × Scope) (hfile : toFile f = some rr) (msgs : Bool)
    (hdirs : ∀ t ∈ regOfFile f, dirBlock dirsOk msgs t.body = true)
    (globals : Spec.Eval.Binds) (ij : Option Spec.Eval.Binds) (name : Bytes)
    (data : Spec.Eval.Binds) (jd : List (Bytes × JVal)) (hj : C04c.toJsKvs data = some jd)
    (jij : Option (List (Bytes × JVal))) (hij : IjRel ij jij) (hgl : GlobRel globals) (d : Nat) (r : JVal)
    (hx : callFn F rr.1 fuel d name (.obj jd) jij = .val r) :
    ∃ text, Spec.Eval.render (regOfFile f) globals ij msgs name data d (some goLib) = .val text ∧ r = .str text :=
  gen_correct_file_dirs_partial F fuel hlib.escapeHtml dirsOk (some goLib) (printLe_dirs F hlib) f rr hfile msgs hdirs globals ij name
    data jd hj jij hij hgl d r hx

/-- STATEMENT LEVEL: a list of commands met inside a template of the registry (generator scope `sc`, output variable
    `buf`), prints with directives, under `SoyutilsIs F`: running the generated statements appends to `buf` exactly the
    text Spec/Eval.renderCmds renders with the Go library -/
theorem gen_correct_cmds_goLib_partial (hlib : SoyutilsIs F) (reg : Registry.Reg) (table : List JsFunc) (fuel : Nat) (hasBundle : Bool)
    (hdirs : ∀ t ∈ reg, dirBlock dirsOk hasBundle t.body = true) (htab : TableOk reg table) (d : Nat) (ae : Autoescape) (buf : Bytes)
    (entry : Spec.Eval.Binds) (cmds : CmdList) (hpl : dirCmds dirsOk hasBundle cmds = true) (sc : Scope) (r : JsStmts × Scope)
    (h : toCmds ae buf cmds sc = some r) (env : SEnv) (jenv jenv' : JEnv) (out : Bytes) (hs : ScOk sc) (hg : GoodBuf sc buf)
    (hrel : C04c.EnvRel entry sc env jenv) (hb : BufIs buf jenv out) (fuel' : Nat)
    (hx : execStmts F (callFn F table fuel d) fuel' r.1 jenv = .ok jenv') :
    ∃ text, Spec.Eval.renderCmds reg hasBundle (ae != .off) entry (Spec.Eval.renderTmpl reg hasBundle (some goLib) d) (some goLib)
        cmds env = .val text ∧ BufIs buf jenv' (out ++ text) :=
  gen_correct_registry_cmds_dirs_partial F reg table fuel hlib.escapeHtml dirsOk (some goLib) (printLe_dirs F hlib) hasBundle hdirs htab d
    ae buf entry cmds hpl sc r h env jenv jenv' out hs hg hrel hb fuel' hx

end

/-! ## non-vacuity -/

section Examples

-- the directive lists the theorems admit …
example : dirsOk [⟨0, b!"truncate", [.int 0 5]⟩, ⟨0, b!"escapeUri", []⟩, ⟨0, b!"noAutoescape", []⟩] = true := by decide
example : dirsOk [⟨0, b!"insertWordBreaks", [.int 0 8]⟩, ⟨0, b!"json", []⟩, ⟨0, b!"id", []⟩] = true := by decide
-- … and those they do not: no Go implementation, a wrong number of arguments, an argument that is no literal, unknown
example : dirsOk [⟨0, b!"bidiSpanWrap", []⟩] = false := by decide
example : dirsOk [⟨0, b!"truncate", []⟩] = false := by decide
example : dirsOk [⟨0, b!"truncate", [.dataRef 0 b!"n" .nil]⟩] = false := by decide
example : dirsOk [⟨0, b!"nope", []⟩] = false := by decide
-- with no name admitted: `|id`, `|noAutoescape` and nothing else — no `DirIs` is asked (`EscapeHtmlIs` alone)
example : dirsOkIn [] [⟨0, b!"noAutoescape", []⟩, ⟨0, b!"id", []⟩] = true := by decide
example : dirsOkIn [] [⟨0, b!"escapeUri", []⟩] = false := by decide

/-- a library that is read at soy.$$escapeHtml only (Ops/JsSem `libF`, the library of the sub-check C04sem) -/
def escF (name : Bytes) (args : List Expr) (jv : JVal) : JOut :=
  if name == escapeHtmlName && args.isEmpty then
    match toStr? jv with
    | some s => .val (.str (htmlEscape s))
    | none => .unspec
  else .unspec

theorem escF_escape : EscapeHtmlIs escF := by
  intro jv
  simp only [escF, escapeHtmlName, List.isEmpty_nil]
  cases toStr? jv <;> simp

/-- a function that is not read satisfies its obligation (it never returns a value) -/
theorem escF_other (name : Bytes) (h : (name == escapeHtmlName) = false) : DirIs escF name := by
  intro e _ args lits v jv x r _ _ _ hF
  simp [escF, h] at hF

/-- the ToString of a JSON image is the Go renderer's text of the value -/
theorem str_concV (v : Val) (jv : JVal) (s : Bytes) (hj : toJsV v = some jv) (hs : toStr? jv = some s) :
    Model.Eval.str (concV v) = some s ∧ scalarV v = true ∧ Spec.Eval.isUndef v = false := by
  cases v with
  | int i =>
    simp only [toJsV] at hj
    split at hj
    · rename_i he
      simp only [Option.some.injEq] at hj
      subst hj
      simp only [toStr?, Option.some.injEq] at hs
      subst hs
      refine ⟨?_, rfl, rfl⟩
      show Value.toString id (.int (Int64.ofInt i)) = _
      simp only [Value.toString, int64_roundtrip i he]
    · cases hj
  | float f => simp [toJsV] at hj
  | list xs =>
    simp only [toJsV] at hj
    cases hx : C04c.toJsList xs with
    | none => simp [hx] at hj
    | some l =>
      simp only [hx, Option.map_some, Option.some.injEq] at hj
      subst hj
      simp [toStr?] at hs
  | map kvs =>
    simp only [toJsV] at hj
    cases hx : C04c.toJsKvs kvs with
    | none => simp [hx] at hj
    | some l =>
      simp only [hx, Option.map_some, Option.some.injEq] at hj
      subst hj
      simp [toStr?] at hs
  | undefined =>
    simp only [toJsV, Option.some.injEq] at hj
    subst hj
    simp [toStr?] at hs
  | null =>
    simp only [toJsV, Option.some.injEq] at hj
    subst hj
    simp only [toStr?, Option.some.injEq] at hs
    subst hs
    exact ⟨rfl, rfl, rfl⟩
  | bool b =>
    simp only [toJsV, Option.some.injEq] at hj
    subst hj
    simp only [toStr?, Option.some.injEq] at hs
    subst hs
    refine ⟨?_, rfl, rfl⟩
    cases b <;> rfl
  | str t =>
    simp only [toJsV, Option.some.injEq] at hj
    subst hj
    simp only [toStr?, Option.some.injEq] at hs
    subst hs
    exact ⟨rfl, rfl, rfl⟩

/-- … and soy.$$escapeHtml read as `htmlEscape ∘ ToString` satisfies the obligation of the directive `|escapeHtml`:
    the Go directive is `htmlEscape` of the value's text -/
theorem escF_escapeHtmlDir : DirIs escF b!"escapeHtml" := by
  intro e hl args lits v jv x r hlits hj hx hF
  have he : e = ⟨b!"escapeHtml", [0], true, Directives.sDirectiveEscapeHtml⟩ := by
    have : Directives.lookup Gen.directiveTable b!"escapeHtml" = some ⟨b!"escapeHtml", [0], true, Directives.sDirectiveEscapeHtml⟩ := by
      decide
    rw [this] at hl
    exact (Option.some.inj hl).symm
  subst he
  have hx' : x = jv := by
    have : dirInput ⟨b!"escapeHtml", [0], true, Directives.sDirectiveEscapeHtml⟩ jv = some jv := by
      unfold dirInput
      rw [if_neg (by decide)]
    rw [this] at hx
    exact (Option.some.inj hx).symm
  subst hx'
  unfold escF at hF
  split at hF
  · rename_i hc
    simp only [Bool.and_eq_true] at hc
    have hargs : args = [] := by simpa using hc.2
    subst hargs
    simp only [litVals, Option.some.injEq] at hlits
    subst hlits
    cases hs : toStr? x with
    | none => simp [hs] at hF
    | some s =>
      simp only [hs, JOut.val.injEq] at hF
      subst hF
      obtain ⟨hstr, hsc, hu⟩ := str_concV v x s hj hs
      refine ⟨hsc, hu, .str (htmlEscape s), ?_, rfl⟩
      simp [applyDirective, hstr, Directives.applyImpl, Directives.sDirectiveEscapeHtml, Directives.sDirectiveNoAutoescape,
        Directives.sDirectiveJson, Directives.sDirectiveTruncate, Directives.sDirectiveInsertWordBreaks,
        Directives.sDirectiveChangeNewlineToBr]
  · cases hF

/-- the hypotheses are satisfiable together -/
theorem escF_soyutils : SoyutilsIs escF :=
  { escapeHtml := escF_escape
    escapeHtmlDir := escF_escapeHtmlDir
    changeNewlineToBr := escF_other _ (by decide)
    escapeJsString := escF_other _ (by decide)
    escapeUri := escF_other _ (by decide)
    insertWordBreaks := escF_other _ (by decide)
    json := escF_other _ (by decide)
    truncate := escF_other _ (by decide) }

end Examples

end SoyVerif.Props.C04g
