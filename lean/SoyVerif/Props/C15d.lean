/-
  C15 / C17 — bodies whose pieces are text runs, ARBITRARY print commands and block comments, at byte level:
  the LEXER half of the combination of C17d's `body_source_spec_cmds` (text runs + `BPiece.cmd`: any print
  command that is `CmdOk`) and C15c's `body_source_spec_comments` (text runs + `{$ident}` + `/*c*/`).

  * `XPiece` / `XBody`: `text t` (C15c's `textOK`), `cmd arg dirs` (C17d's print commands, written as
    `PrintNode.String()` writes them), `cmt c` (the block comment `/*c*/`, C15c's `cmtOK`).
  * `lex_xbody`, `lexAll_xbody`: for every well-formed body (`WFX`: no two text pieces adjacent; a text piece
    directly before a comment does not end with `/`), `lex` sends EXACTLY `itemsOfX 0 b`: one Text item per text
    piece the lexer does not drop, LeftDelim + the printed tokens + RightDelim per command, one Comment item per
    comment, EOF — every item at its exact END offset.  The steps are C17d's `seg_run_cmd` (a text run and a print
    command behind it, from ANY lexer record in `lexText`) and C15c's `cmt_run` (a text run and a comment behind
    it), bridged by `holds_of_inpAt`.

  NOT in this file: the parser half as a whole (the RawText nodes with the trim flags of `joinLines` next to a comment,
  the print nodes modulo positions).  Its three comment steps over C17d's position-free token view `At st.p tks` are
  proved in the last section (`skip_run`, `textOrTag_skip`, `textOrTag_textG`); the list induction over the pieces (with
  the pending run of comment tokens as an accumulator) and `body_source_spec_cmds_comments` are not.
-/
import SoyVerif.Props.C17d

set_option linter.unusedVariables false
set_option linter.unusedSectionVars false
set_option linter.unusedSimpArgs false

namespace SoyVerif.Props.C15d
open SoyVerif SoyVerif.Model SoyVerif.Model.Lex SoyVerif.Model.Parser SoyVerif.Model.PrintTokens
open SoyVerif.Model.Printer SoyVerif.Lemmas.LexPrint SoyVerif.Lemmas.ParserBasic
open SoyVerif.Props.C17c SoyVerif.Props.C17d
open SoyVerif.Props.C15c (Holds textOK textItem TextByte dropped cmtOK)

/-- a piece of a body: a stretch of text, a print command, or the block comment `/*c*/` -/
inductive XPiece where
  | text (t : Bytes)
  | cmd (arg : Expr) (dirs : List Directive)
  | cmt (c : Bytes)

abbrev XBody := List XPiece

def XPiece.isText : XPiece → Bool
  | .text _ => true
  | _ => false

def XPiece.isCmt : XPiece → Bool
  | .cmt _ => true
  | _ => false

/-- the source text of the comment `/*c*/` -/
def cmtSrc (c : Bytes) : Bytes := 47 :: 42 :: (c ++ [42, 47])

theorem cmtSrc_length (c : Bytes) : (cmtSrc c).length = c.length + 4 := by simp [cmtSrc]

section
variable (ff : UInt64 → Bytes)

/-- the source text of a body -/
def srcOfX : XBody → Bytes
  | [] => []
  | .text t :: r => t ++ srcOfX r
  | .cmd a d :: r => printPrint ff a d ++ srcOfX r
  | .cmt c :: r => cmtSrc c ++ srcOfX r

/-- well-formed: text pieces are `textOK` and never adjacent, a text piece directly before a comment does not end
    with `/`; print commands are `CmdOk`; comments are `cmtOK` (non-empty, ASCII, no `*` inside) -/
def WFX : XBody → Prop
  | [] => True
  | .text t :: r =>
    textOK t ∧ (∀ p ∈ r.head?, p.isText = false ∧ (p.isCmt = true → (t.getD (t.length - 1) 0).toNat ≠ 47)) ∧ WFX r
  | .cmd a d :: r => CmdOk ff a d ∧ WFX r
  | .cmt c :: r => cmtOK c ∧ WFX r

/-- the items `lex` sends for a body that begins at byte `q` (exact END offsets) -/
def itemsOfX : Nat → XBody → List Item
  | q, [] => [⟨.tEOF, q, []⟩]
  | q, .text t :: r => textItem t (q + t.length) ++ itemsOfX (q + t.length) r
  | q, .cmd a d :: r => tagItems ff q a d ++ itemsOfX (q + 1 + (spell (piecesBody ff a d)).length + 1) r
  | q, .cmt c :: r => ⟨.tComment, q + 4 + c.length, cmtSrc c⟩ :: itemsOfX (q + 4 + c.length) r

variable (LT : LexTableOK)
include LT

/-- **lexer.**  The machine on a well-formed body that stands at `q`, from any lexer record in `lexText` -/
theorem lex_xbody : ∀ (b : XBody), WFX ff b → ∀ (inp : Array UInt8) (q : Nat) (w : Int) (dd : Bool) (ts : Int) (le : Item)
    (its : Array Item) (fuel : Nat), InpAt inp q (srcOfX ff b) → 7 * (srcOfX ff b).length + 1 ≤ fuel →
    run fuel .text (Lexer.mk inp q q w dd ts le its) = .items (its.toList ++ itemsOfX ff q b)
  | [], _, inp, q, w, dd, ts, le, its, fuel, hin, hf => by
    obtain ⟨f, rfl⟩ : ∃ f, fuel = f + 1 := ⟨fuel - 1, by omega⟩
    have hsz := inpAt_len hin
    simp only [srcOfX, List.length_nil] at hsz
    obtain ⟨lf, h1, h2⟩ := C15c.lexText_text_eof inp q 0 w dd ts le its hsz (fun i hi => absurd hi (by omega))
    rw [C15c.run_end (show step .text _ = _ from h1), h2, C15c.textItems_nat]
    simp [itemsOfX]
  | .cmd a d :: r, hwf, inp, q, w, dd, ts, le, its, fuel, hin, hf => by
    have hin' : InpAt inp q ([] ++ (printPrint ff a d ++ srcOfX ff r)) := hin
    obtain ⟨m, hm, hrun⟩ := seg_run_cmd ff LT [] (Or.inl rfl) a d hwf.1 (srcOfX ff r) hin' w dd ts le its
    have hlenP := printPrint_length ff a d
    simp only [srcOfX, List.length_append] at hf
    obtain ⟨f, rfl⟩ : ∃ f, fuel = f + m := ⟨fuel - m, by omega⟩
    obtain ⟨w', le', its', hr, hits⟩ := hrun f
    simp only [List.length_nil, Nat.add_zero] at hr hits
    have hnext : InpAt inp (q + 1 + (spell (piecesBody ff a d)).length + 1) (srcOfX ff r) := by
      have := inpAt_append (a := printPrint ff a d) hin; rw [hlenP] at this; simpa [Nat.add_assoc] using this
    rw [hr, lex_xbody r hwf.2 inp _ w' false _ le' its' f hnext (by omega), hits]
    simp [itemsOfX, textItem]
  | .cmt c :: r, hwf, inp, q, w, dd, ts, le, its, fuel, hin, hf => by
    have hin' : InpAt inp q (([] ++ (cmtSrc c ++ srcOfX ff r)) ++ []) := by simpa [srcOfX] using hin
    have hH : Holds inp q ([] ++ (47 :: 42 :: (c ++ [42, 47]) ++ srcOfX ff r)) := holds_of_inpAt hin'
    simp only [srcOfX, List.length_append, cmtSrc_length] at hf
    obtain ⟨f, rfl⟩ : ∃ f, fuel = f + 1 := ⟨fuel - 1, by omega⟩
    obtain ⟨w', dd', ts', le', its', hr, hits⟩ := C15c.cmt_run (t := []) (Or.inl rfl) hwf.1 (by simp) hH f w dd ts le its
    simp only [List.length_nil, Nat.add_zero] at hr hits
    have hnext : InpAt inp (q + 4 + c.length) (srcOfX ff r) := by
      have := inpAt_append (a := cmtSrc c) hin; rw [cmtSrc_length] at this
      rw [show q + 4 + c.length = q + (c.length + 4) by omega]; exact this
    rw [hr, lex_xbody r hwf.2 inp _ w' dd' ts' le' its' f hnext (by omega), hits]
    simp [itemsOfX, textItem, cmtSrc]
  | [.text t], hwf, inp, q, w, dd, ts, le, its, fuel, hin, hf => by
    obtain ⟨f, rfl⟩ : ∃ f, fuel = f + 1 := ⟨fuel - 1, by omega⟩
    have hin' : InpAt inp q (t ++ []) := by simpa [srcOfX] using hin
    have hsz : q + t.length = inp.size := by have := inpAt_len hin'; simpa using this
    have hH : Holds inp q t := holds_of_inpAt hin'
    have hb0 := C15c.byteAt_beyond (inp := inp) (i := q + t.length) (by omega)
    obtain ⟨lf, h1, h2⟩ := C15c.lexText_text_eof inp q t.length w dd ts le its hsz
      (C15c.text_bytes hH (Or.inr hwf.1) (Or.inr (by rw [hb0]; decide)))
    rw [C15c.run_end (show step .text _ = _ from h1), h2, C15c.textItems_holds hH]
    simp [itemsOfX]
  | .text t :: .cmd a d :: r, hwf, inp, q, w, dd, ts, le, its, fuel, hin, hf => by
    have hin' : InpAt inp q (t ++ (printPrint ff a d ++ srcOfX ff r)) := hin
    obtain ⟨m, hm, hrun⟩ := seg_run_cmd ff LT t (Or.inr hwf.1) a d hwf.2.2.1 (srcOfX ff r) hin' w dd ts le its
    have hlenP := printPrint_length ff a d
    simp only [srcOfX, List.length_append] at hf
    obtain ⟨f, rfl⟩ : ∃ f, fuel = f + m := ⟨fuel - m, by omega⟩
    obtain ⟨w', le', its', hr, hits⟩ := hrun f
    have hnext : InpAt inp (q + t.length + 1 + (spell (piecesBody ff a d)).length + 1) (srcOfX ff r) := by
      have := inpAt_append (a := printPrint ff a d) (inpAt_append hin'); rw [hlenP] at this; simpa [Nat.add_assoc] using this
    rw [hr, lex_xbody r hwf.2.2.2 inp _ w' false _ le' its' f hnext (by omega), hits]
    simp [itemsOfX]
  | .text t :: .cmt c :: r, hwf, inp, q, w, dd, ts, le, its, fuel, hin, hf => by
    have hin' : InpAt inp q ((t ++ (cmtSrc c ++ srcOfX ff r)) ++ []) := by simpa [srcOfX] using hin
    have hH : Holds inp q (t ++ (47 :: 42 :: (c ++ [42, 47]) ++ srcOfX ff r)) := holds_of_inpAt hin'
    have hlast : (t.getD (t.length - 1) 0).toNat ≠ 47 := (hwf.2.1 (.cmt c) (by simp)).2 rfl
    simp only [srcOfX, List.length_append, cmtSrc_length] at hf
    obtain ⟨f, rfl⟩ : ∃ f, fuel = f + 1 := ⟨fuel - 1, by omega⟩
    obtain ⟨w', dd', ts', le', its', hr, hits⟩ := C15c.cmt_run (Or.inr hwf.1) hwf.2.2.1 hlast hH f w dd ts le its
    have hnext : InpAt inp (q + t.length + 4 + c.length) (srcOfX ff r) := by
      have h1 : InpAt inp (q + t.length) (cmtSrc c ++ srcOfX ff r) := inpAt_append (a := t) (by simpa [srcOfX] using hin)
      have := inpAt_append (a := cmtSrc c) h1; rw [cmtSrc_length] at this
      rw [show q + t.length + 4 + c.length = q + t.length + (c.length + 4) by omega]; exact this
    rw [hr, lex_xbody r hwf.2.2.2 inp _ w' dd' ts' le' its' f hnext (by omega), hits]
    simp [itemsOfX, cmtSrc, Nat.add_assoc]
  | .text _ :: .text t2 :: _, hwf, _, _, _, _, _, _, _, _, _, _ => by
    have := (hwf.2.1 (.text t2) (by simp)).1
    simp [XPiece.isText] at this

/-- **lexer.**  The items `lex` sends for the source of a well-formed body of text runs, arbitrary print commands and
    block comments -/
theorem lexAll_xbody (b : XBody) (h : WFX ff b) : lexAll (srcOfX ff b) false = .items (itemsOfX ff 0 b) := by
  unfold lexAll Lex.fuelFor
  simp only [Bool.false_eq_true, if_false]
  have := lex_xbody ff LT b h (srcOfX ff b).toArray 0 0 false 0 Item.zero #[] (7 * (srcOfX ff b).length + 8)
    (inpAt_zero _) (by omega)
  simpa [initLexer] using this

end
/-! ## parser steps for comments over the position-free view `At st.p tks` (C17d's view)

  The three steps the parser half needs, proved; the list induction (`tksOfX`, `NodesMatchX`,
  `body_source_spec_cmds_comments`) is NOT done.  `textOrTag` computes `seenComment` from the token it is handed
  and then calls `skipComments`; everything behind that depends on the token `skipComments` returns, and on
  `seenComment` only in the Text branch.  So:
  * `skip_run`: `skipComments` over a run of Comment tokens;
  * `textOrTag_skip`: a comment run in front of a token that is neither Comment nor Text (a `{`, EOF) — `textOrTag` goes
    on exactly as if handed that token, so C17c's `textOrTag_print` and the EOF round apply unchanged;
  * `textOrTag_textG`: the Text branch with trimBefore = "the token handed in is a comment" and trimAfter = "the next
    token is a comment" (`joinLines t tb ta`). -/

open SoyVerif.Model.FileParser (FState FP Node NodeList textOrTag itemListLoop skipComments collectText rawtextP parseFile parseSource)
open SoyVerif.Spec (joinLines)

section
variable (pf : Bytes → Option UInt64)

/-- `skipComments` over a run of Comment tokens (the first one, `c0`, already read) -/
theorem skip_run : ∀ (cs : List Tk), (∀ c ∈ cs, c.typ = .tComment) → ∀ (c0 : Item), c0.typ = .tComment →
    ∀ (nx : Tk) (s : List Tk), nx.typ ≠ .tComment → ∀ (f : Nat) (st : FState), Just st.p c0 (cs ++ nx :: s) →
    ∃ n p', skipComments (f + cs.length + 2) c0 st = .ok (n, { st with p := p' }) ∧ n.typ = nx.typ ∧ n.val = nx.val ∧
      Just p' n s
  | [], _, c0, hc0, nx, s, hnx, f, st, hj => by
    obtain ⟨n, p1, hn, hty, hv, hj1⟩ := fnext_at (st := st) hj.at
    refine ⟨n, p1, ?_, hty, hv, hj1⟩
    show skipComments ((f + 1) + 1) c0 st = _
    unfold skipComments
    simp only [hc0, beq_self_eq_true, if_true]
    rw [fbind_ok hn]
    exact skipComments_id f n _ (by rw [hty]; exact hnx)
  | c :: cs, hcs, c0, hc0, nx, s, hnx, f, st, hj => by
    obtain ⟨n, p1, hn, hty, hv, hj1⟩ := fnext_at (st := st) hj.at
    have hnc : n.typ = .tComment := by rw [hty]; exact hcs c (by simp)
    obtain ⟨m, p2, hs, a, b, d⟩ := skip_run cs (fun x hx => hcs x (by simp [hx])) n hnc nx s hnx f { st with p := p1 } hj1
    refine ⟨m, p2, ?_, a, b, d⟩
    show skipComments ((f + cs.length + 2) + 1) c0 st = _
    unfold skipComments
    simp only [hc0, beq_self_eq_true, if_true]
    rw [fbind_ok hn]
    exact hs

/-- a run of comments in front of a token that is neither Comment nor Text: `textOrTag` goes on as if handed that token -/
theorem textOrTag_skip (ef fuel : Nat) (untl : List ItemType) (c0 n : Item) (st st1 : FState)
    (hc0 : c0.typ = .tComment) (hsk : skipComments (fuel + 1) c0 st = .ok (n, st1)) (hn : n.typ ≠ .tComment)
    (hnt : n.typ ≠ .tText) :
    textOrTag pf ef (fuel + 2) c0 untl st = textOrTag pf ef (fuel + 2) n untl st1 := by
  have hnt' : (n.typ == ItemType.tText) = false := by simpa using hnt
  conv => lhs; unfold textOrTag
  conv => rhs; unfold textOrTag
  simp only
  rw [fbind_ok hsk, fbind_ok (skipComments_id fuel n st1 hn)]
  simp only [hnt', Bool.false_eq_true, if_false]

/-- `textOrTag` handed a token `tok0` behind which `skipComments` finds the Text token `t`, followed by a token `nx` of
    another type: the RawText node of the text normalised with trimBefore = "`tok0` is a comment" and trimAfter = "`nx` is
    a comment" (none if that is empty); `nx` stays unread -/
theorem textOrTag_textG (ef fuel : Nat) (untl : List ItemType) (hu : untl.contains .tText = false) (tok0 t : Item)
    (ht : t.typ = .tText) (st0 st : FState) (hsk : skipComments (fuel + 1) tok0 st0 = .ok (t, st))
    (nx : Tk) (hnx : nx.typ ≠ .tText) (s : List Tk) (hst : At st.p (nx :: s)) :
    ∃ p', textOrTag pf ef (fuel + 2) tok0 untl st0 =
        .ok ((if (joinLines t.val (tok0.typ == .tComment) (nx.typ == .tComment)).isEmpty then none
              else some (.rawText t.pos (joinLines t.val (tok0.typ == .tComment) (nx.typ == .tComment))), false), { st with p := p' }) ∧
      At p' (nx :: s) := by
  obtain ⟨n1, p1, hn1, hty1, hv1, hj1⟩ := fnext_at hst
  obtain ⟨p2, hb2, ha2⟩ := fbackup_just (st := { st with p := p1 }) hj1
  rw [tk_eq hty1 hv1] at ha2
  obtain ⟨n3, p3, hn3, hty3, hv3, hj3⟩ := fnext_at (st := { st with p := p2 }) ha2.at
  obtain ⟨p4, hb4, ha4⟩ := fbackup_just (st := { st with p := p3 }) hj3
  rw [tk_eq hty3 hv3] at ha4
  refine ⟨p4, ?_, ha4.at⟩
  have hct : collectText (fuel + 1) t.val { st with p := p2 } = .ok ((t.val, n3), { st with p := p3 }) := by
    unfold collectText
    rw [fbind_ok hn3]
    have : (n3.typ != ItemType.tText) = true := by rw [hty3]; simpa using hnx
    simp only [this, if_true]
    rfl
  unfold textOrTag
  simp only
  rw [fbind_ok hsk]
  simp only [ht, hu, Bool.false_eq_true, if_false]
  rw [fbind_ok hn1]
  simp only [show (ItemType.tText == ItemType.tLeftDelim) = false by decide, Bool.false_and, Bool.false_eq_true, if_false]
  rw [fbind_ok hb2]
  simp only [beq_self_eq_true, if_true]
  rw [fbind_ok hct]
  simp only
  rw [fbind_ok hb4]
  simp only
  unfold rawtextP
  rw [SoyVerif.Props.C15.rawtext_spec]
  simp only [hty3]
  rw [fbind_ok (show (pure (joinLines t.val (tok0.typ == ItemType.tComment) (nx.typ == ItemType.tComment)) : FP Bytes) { st with p := p4 } =
    .ok (_, { st with p := p4 }) from rfl)]
  by_cases hj : (joinLines t.val (tok0.typ == ItemType.tComment) (nx.typ == ItemType.tComment)).isEmpty = true
  · rw [if_pos hj, if_pos hj]; rfl
  · rw [if_neg hj, if_neg hj]; rfl

end
end SoyVerif.Props.C15d
