/-
  C15 / C17 — bodies whose pieces are text runs, ARBITRARY print commands and block comments, at byte level:
  the combination (lexer AND parser) of C17d's `body_source_spec_cmds` (text runs + `BPiece.cmd`: any print
  command that is `CmdOk`) and C15c's `body_source_spec_comments` (text runs + `{$ident}` + `/*c*/`).

  * `XPiece` / `XBody`: `text t` (C15c's `textOK`), `cmd arg dirs` (C17d's print commands, written as
    `PrintNode.String()` writes them), `cmt c` (the block comment `/*c*/`, C15c's `cmtOK`).
  * `lex_xbody`, `lexAll_xbody`: for every well-formed body (`WFX`: no two text pieces adjacent; a text piece
    directly before a comment does not end with `/`), `lex` sends EXACTLY `itemsOfX 0 b`: one Text item per text
    piece the lexer does not drop, LeftDelim + the printed tokens + RightDelim per command, one Comment item per
    comment, EOF — every item at its exact END offset.  The steps are C17d's `seg_run_cmd` (a text run and a print
    command behind it, from ANY lexer record in `lexText`) and C15c's `cmt_run` (a text run and a comment behind
    it), bridged by `holds_of_inpAt`.

  * the PARSER half: `tksOfX` (the position-free tokens, `itemsOfX_tk`), `NodesMatchX tb nl b` (the node list modulo
    positions: per text piece `t` that the lexer does not drop and that does not normalise to nothing
    `RawText (joinLines t tb ta)` with `tb` = the piece directly before is a comment and `ta` = the piece directly after is
    one — the trim flags of `joinLines` next to a comment; per command its print node with expression, directive names
    and arguments modulo positions; nothing per comment).  `parse_xbody` is the list induction over the pieces with the
    pending run of Comment tokens `cs` as an accumulator (flag of `NodesMatchX` = `!cs.isEmpty`); each round is
    `head_run` (`next` + `skipComments` over `cs`, from `skip_run`) followed by `textOrTag_until` (EOF),
    `textOrTag_skip'` + C17c's `textOrTag_print` (a command) or `textOrTag_textG` (a text token).
  * **`body_source_spec_cmds_comments`** (proved, full statement): for every `WFX` body whose commands are `CmdCanon`,
    `lexAll (srcOfX ff b) false = .items (itemsOfX ff 0 b)` and `parseSource pf (srcOfX ff b) = .ok nl` with
    `NodesMatchX false nl b`.  Example `xexBody_spec`.

  Still modulo positions (as in C17d): `NodesMatchX` does not state the `pos` fields of the RawText / print nodes.
-/
import SoyVerif.Props.C17d

set_option linter.unusedVariables false
set_option linter.unusedSectionVars false
set_option linter.unusedSimpArgs false

namespace SoyVerif.Props.C15d
open SoyVerif SoyVerif.Model SoyVerif.Model.Lex SoyVerif.Model.Parser SoyVerif.Model.PrintTokens
open SoyVerif.Model.Printer SoyVerif.Lemmas.LexPrint SoyVerif.Lemmas.ParserBasic
open SoyVerif.Props.C17c SoyVerif.Props.C17d
open SoyVerif.Props.C15c (Holds textOK textItem TextByte dropped cmtOK)

/-- a piece of a body: a stretch of text, a print command, or the block comment `/*c*/` -/
inductive XPiece where
  | text (t : Bytes)
  | cmd (arg : Expr) (dirs : List Directive)
  | cmt (c : Bytes)

abbrev XBody := List XPiece

def XPiece.isText : XPiece → Bool
  | .text _ => true
  | _ => false

def XPiece.isCmt : XPiece → Bool
  | .cmt _ => true
  | _ => false

/-- the source text of the comment `/*c*/` -/
def cmtSrc (c : Bytes) : Bytes := 47 :: 42 :: (c ++ [42, 47])

theorem cmtSrc_length (c : Bytes) : (cmtSrc c).length = c.length + 4 := by simp [cmtSrc]

section
variable (ff : UInt64 → Bytes)

/-- the source text of a body -/
def srcOfX : XBody → Bytes
  | [] => []
  | .text t :: r => t ++ srcOfX r
  | .cmd a d :: r => printPrint ff a d ++ srcOfX r
  | .cmt c :: r => cmtSrc c ++ srcOfX r

/-- well-formed: text pieces are `textOK` and never adjacent, a text piece directly before a comment does not end
    with `/`; print commands are `CmdOk`; comments are `cmtOK` (non-empty, ASCII, no `*` inside) -/
def WFX : XBody → Prop
  | [] => True
  | .text t :: r =>
    textOK t ∧ (∀ p ∈ r.head?, p.isText = false ∧ (p.isCmt = true → (t.getD (t.length - 1) 0).toNat ≠ 47)) ∧ WFX r
  | .cmd a d :: r => CmdOk ff a d ∧ WFX r
  | .cmt c :: r => cmtOK c ∧ WFX r

/-- the items `lex` sends for a body that begins at byte `q` (exact END offsets) -/
def itemsOfX : Nat → XBody → List Item
  | q, [] => [⟨.tEOF, q, []⟩]
  | q, .text t :: r => textItem t (q + t.length) ++ itemsOfX (q + t.length) r
  | q, .cmd a d :: r => tagItems ff q a d ++ itemsOfX (q + 1 + (spell (piecesBody ff a d)).length + 1) r
  | q, .cmt c :: r => ⟨.tComment, q + 4 + c.length, cmtSrc c⟩ :: itemsOfX (q + 4 + c.length) r

variable (LT : LexTableOK)
include LT

/-- **lexer.**  The machine on a well-formed body that stands at `q`, from any lexer record in `lexText` -/
theorem lex_xbody : ∀ (b : XBody), WFX ff b → ∀ (inp : Array UInt8) (q : Nat) (w : Int) (dd : Bool) (ts : Int) (le : Item)
    (its : Array Item) (fuel : Nat), InpAt inp q (srcOfX ff b) → 7 * (srcOfX ff b).length + 1 ≤ fuel →
    run fuel .text (Lexer.mk inp q q w dd ts le its) = .items (its.toList ++ itemsOfX ff q b)
  | [], _, inp, q, w, dd, ts, le, its, fuel, hin, hf => by
    obtain ⟨f, rfl⟩ : ∃ f, fuel = f + 1 := ⟨fuel - 1, by omega⟩
    have hsz := inpAt_len hin
    simp only [srcOfX, List.length_nil] at hsz
    obtain ⟨lf, h1, h2⟩ := C15c.lexText_text_eof inp q 0 w dd ts le its hsz (fun i hi => absurd hi (by omega))
    rw [C15c.run_end (show step .text _ = _ from h1), h2, C15c.textItems_nat]
    simp [itemsOfX]
  | .cmd a d :: r, hwf, inp, q, w, dd, ts, le, its, fuel, hin, hf => by
    have hin' : InpAt inp q ([] ++ (printPrint ff a d ++ srcOfX ff r)) := hin
    obtain ⟨m, hm, hrun⟩ := seg_run_cmd ff LT [] (Or.inl rfl) a d hwf.1 (srcOfX ff r) hin' w dd ts le its
    have hlenP := printPrint_length ff a d
    simp only [srcOfX, List.length_append] at hf
    obtain ⟨f, rfl⟩ : ∃ f, fuel = f + m := ⟨fuel - m, by omega⟩
    obtain ⟨w', le', its', hr, hits⟩ := hrun f
    simp only [List.length_nil, Nat.add_zero] at hr hits
    have hnext : InpAt inp (q + 1 + (spell (piecesBody ff a d)).length + 1) (srcOfX ff r) := by
      have := inpAt_append (a := printPrint ff a d) hin; rw [hlenP] at this; simpa [Nat.add_assoc] using this
    rw [hr, lex_xbody r hwf.2 inp _ w' false _ le' its' f hnext (by omega), hits]
    simp [itemsOfX, textItem]
  | .cmt c :: r, hwf, inp, q, w, dd, ts, le, its, fuel, hin, hf => by
    have hin' : InpAt inp q (([] ++ (cmtSrc c ++ srcOfX ff r)) ++ []) := by simpa [srcOfX] using hin
    have hH : Holds inp q ([] ++ (47 :: 42 :: (c ++ [42, 47]) ++ srcOfX ff r)) := holds_of_inpAt hin'
    simp only [srcOfX, List.length_append, cmtSrc_length] at hf
    obtain ⟨f, rfl⟩ : ∃ f, fuel = f + 1 := ⟨fuel - 1, by omega⟩
    obtain ⟨w', dd', ts', le', its', hr, hits⟩ := C15c.cmt_run (t := []) (Or.inl rfl) hwf.1 (by simp) hH f w dd ts le its
    simp only [List.length_nil, Nat.add_zero] at hr hits
    have hnext : InpAt inp (q + 4 + c.length) (srcOfX ff r) := by
      have := inpAt_append (a := cmtSrc c) hin; rw [cmtSrc_length] at this
      rw [show q + 4 + c.length = q + (c.length + 4) by omega]; exact this
    rw [hr, lex_xbody r hwf.2 inp _ w' dd' ts' le' its' f hnext (by omega), hits]
    simp [itemsOfX, textItem, cmtSrc]
  | [.text t], hwf, inp, q, w, dd, ts, le, its, fuel, hin, hf => by
    obtain ⟨f, rfl⟩ : ∃ f, fuel = f + 1 := ⟨fuel - 1, by omega⟩
    have hin' : InpAt inp q (t ++ []) := by simpa [srcOfX] using hin
    have hsz : q + t.length = inp.size := by have := inpAt_len hin'; simpa using this
    have hH : Holds inp q t := holds_of_inpAt hin'
    have hb0 := C15c.byteAt_beyond (inp := inp) (i := q + t.length) (by omega)
    obtain ⟨lf, h1, h2⟩ := C15c.lexText_text_eof inp q t.length w dd ts le its hsz
      (C15c.text_bytes hH (Or.inr hwf.1) (Or.inr (by rw [hb0]; decide)))
    rw [C15c.run_end (show step .text _ = _ from h1), h2, C15c.textItems_holds hH]
    simp [itemsOfX]
  | .text t :: .cmd a d :: r, hwf, inp, q, w, dd, ts, le, its, fuel, hin, hf => by
    have hin' : InpAt inp q (t ++ (printPrint ff a d ++ srcOfX ff r)) := hin
    obtain ⟨m, hm, hrun⟩ := seg_run_cmd ff LT t (Or.inr hwf.1) a d hwf.2.2.1 (srcOfX ff r) hin' w dd ts le its
    have hlenP := printPrint_length ff a d
    simp only [srcOfX, List.length_append] at hf
    obtain ⟨f, rfl⟩ : ∃ f, fuel = f + m := ⟨fuel - m, by omega⟩
    obtain ⟨w', le', its', hr, hits⟩ := hrun f
    have hnext : InpAt inp (q + t.length + 1 + (spell (piecesBody ff a d)).length + 1) (srcOfX ff r) := by
      have := inpAt_append (a := printPrint ff a d) (inpAt_append hin'); rw [hlenP] at this; simpa [Nat.add_assoc] using this
    rw [hr, lex_xbody r hwf.2.2.2 inp _ w' false _ le' its' f hnext (by omega), hits]
    simp [itemsOfX]
  | .text t :: .cmt c :: r, hwf, inp, q, w, dd, ts, le, its, fuel, hin, hf => by
    have hin' : InpAt inp q ((t ++ (cmtSrc c ++ srcOfX ff r)) ++ []) := by simpa [srcOfX] using hin
    have hH : Holds inp q (t ++ (47 :: 42 :: (c ++ [42, 47]) ++ srcOfX ff r)) := holds_of_inpAt hin'
    have hlast : (t.getD (t.length - 1) 0).toNat ≠ 47 := (hwf.2.1 (.cmt c) (by simp)).2 rfl
    simp only [srcOfX, List.length_append, cmtSrc_length] at hf
    obtain ⟨f, rfl⟩ : ∃ f, fuel = f + 1 := ⟨fuel - 1, by omega⟩
    obtain ⟨w', dd', ts', le', its', hr, hits⟩ := C15c.cmt_run (Or.inr hwf.1) hwf.2.2.1 hlast hH f w dd ts le its
    have hnext : InpAt inp (q + t.length + 4 + c.length) (srcOfX ff r) := by
      have h1 : InpAt inp (q + t.length) (cmtSrc c ++ srcOfX ff r) := inpAt_append (a := t) (by simpa [srcOfX] using hin)
      have := inpAt_append (a := cmtSrc c) h1; rw [cmtSrc_length] at this
      rw [show q + t.length + 4 + c.length = q + t.length + (c.length + 4) by omega]; exact this
    rw [hr, lex_xbody r hwf.2.2.2 inp _ w' dd' ts' le' its' f hnext (by omega), hits]
    simp [itemsOfX, cmtSrc, Nat.add_assoc]
  | .text _ :: .text t2 :: _, hwf, _, _, _, _, _, _, _, _, _, _ => by
    have := (hwf.2.1 (.text t2) (by simp)).1
    simp [XPiece.isText] at this

/-- **lexer.**  The items `lex` sends for the source of a well-formed body of text runs, arbitrary print commands and
    block comments -/
theorem lexAll_xbody (b : XBody) (h : WFX ff b) : lexAll (srcOfX ff b) false = .items (itemsOfX ff 0 b) := by
  unfold lexAll Lex.fuelFor
  simp only [Bool.false_eq_true, if_false]
  have := lex_xbody ff LT b h (srcOfX ff b).toArray 0 0 false 0 Item.zero #[] (7 * (srcOfX ff b).length + 8)
    (inpAt_zero _) (by omega)
  simpa [initLexer] using this

end
/-! ## parser steps for comments over the position-free view `At st.p tks` (C17d's view)

  The three steps the parser half needs; the list induction (`parse_xbody`) is in the next section.  `textOrTag`
  computes `seenComment` from the token it is handed
  and then calls `skipComments`; everything behind that depends on the token `skipComments` returns, and on
  `seenComment` only in the Text branch.  So:
  * `skip_run`: `skipComments` over a run of Comment tokens;
  * `textOrTag_skip`: a comment run in front of a token that is neither Comment nor Text (a `{`, EOF) — `textOrTag` goes
    on exactly as if handed that token, so C17c's `textOrTag_print` and the EOF round apply unchanged;
  * `textOrTag_textG`: the Text branch with trimBefore = "the token handed in is a comment" and trimAfter = "the next
    token is a comment" (`joinLines t tb ta`). -/

open SoyVerif.Model.FileParser (FState FP Node NodeList textOrTag itemListLoop skipComments collectText rawtextP parseFile parseSource)
open SoyVerif.Spec (joinLines)

section
variable (pf : Bytes → Option UInt64)

/-- `skipComments` over a run of Comment tokens (the first one, `c0`, already read) -/
theorem skip_run : ∀ (cs : List Tk), (∀ c ∈ cs, c.typ = .tComment) → ∀ (c0 : Item), c0.typ = .tComment →
    ∀ (nx : Tk) (s : List Tk), nx.typ ≠ .tComment → ∀ (f : Nat) (st : FState), Just st.p c0 (cs ++ nx :: s) →
    ∃ n p', skipComments (f + cs.length + 2) c0 st = .ok (n, { st with p := p' }) ∧ n.typ = nx.typ ∧ n.val = nx.val ∧
      Just p' n s
  | [], _, c0, hc0, nx, s, hnx, f, st, hj => by
    obtain ⟨n, p1, hn, hty, hv, hj1⟩ := fnext_at (st := st) hj.at
    refine ⟨n, p1, ?_, hty, hv, hj1⟩
    show skipComments ((f + 1) + 1) c0 st = _
    unfold skipComments
    simp only [hc0, beq_self_eq_true, if_true]
    rw [fbind_ok hn]
    exact skipComments_id f n _ (by rw [hty]; exact hnx)
  | c :: cs, hcs, c0, hc0, nx, s, hnx, f, st, hj => by
    obtain ⟨n, p1, hn, hty, hv, hj1⟩ := fnext_at (st := st) hj.at
    have hnc : n.typ = .tComment := by rw [hty]; exact hcs c (by simp)
    obtain ⟨m, p2, hs, a, b, d⟩ := skip_run cs (fun x hx => hcs x (by simp [hx])) n hnc nx s hnx f { st with p := p1 } hj1
    refine ⟨m, p2, ?_, a, b, d⟩
    show skipComments ((f + cs.length + 2) + 1) c0 st = _
    unfold skipComments
    simp only [hc0, beq_self_eq_true, if_true]
    rw [fbind_ok hn]
    exact hs

/-- a run of comments in front of a token that is neither Comment nor Text: `textOrTag` goes on as if handed that token -/
theorem textOrTag_skip (ef fuel : Nat) (untl : List ItemType) (c0 n : Item) (st st1 : FState)
    (hc0 : c0.typ = .tComment) (hsk : skipComments (fuel + 1) c0 st = .ok (n, st1)) (hn : n.typ ≠ .tComment)
    (hnt : n.typ ≠ .tText) :
    textOrTag pf ef (fuel + 2) c0 untl st = textOrTag pf ef (fuel + 2) n untl st1 := by
  have hnt' : (n.typ == ItemType.tText) = false := by simpa using hnt
  conv => lhs; unfold textOrTag
  conv => rhs; unfold textOrTag
  simp only
  rw [fbind_ok hsk, fbind_ok (skipComments_id fuel n st1 hn)]
  simp only [hnt', Bool.false_eq_true, if_false]

/-- `textOrTag` handed a token `tok0` behind which `skipComments` finds the Text token `t`, followed by a token `nx` of
    another type: the RawText node of the text normalised with trimBefore = "`tok0` is a comment" and trimAfter = "`nx` is
    a comment" (none if that is empty); `nx` stays unread -/
theorem textOrTag_textG (ef fuel : Nat) (untl : List ItemType) (hu : untl.contains .tText = false) (tok0 t : Item)
    (ht : t.typ = .tText) (st0 st : FState) (hsk : skipComments (fuel + 1) tok0 st0 = .ok (t, st))
    (nx : Tk) (hnx : nx.typ ≠ .tText) (s : List Tk) (hst : At st.p (nx :: s)) :
    ∃ p', textOrTag pf ef (fuel + 2) tok0 untl st0 =
        .ok ((if (joinLines t.val (tok0.typ == .tComment) (nx.typ == .tComment)).isEmpty then none
              else some (.rawText t.pos (joinLines t.val (tok0.typ == .tComment) (nx.typ == .tComment))), false), { st with p := p' }) ∧
      At p' (nx :: s) := by
  obtain ⟨n1, p1, hn1, hty1, hv1, hj1⟩ := fnext_at hst
  obtain ⟨p2, hb2, ha2⟩ := fbackup_just (st := { st with p := p1 }) hj1
  rw [tk_eq hty1 hv1] at ha2
  obtain ⟨n3, p3, hn3, hty3, hv3, hj3⟩ := fnext_at (st := { st with p := p2 }) ha2.at
  obtain ⟨p4, hb4, ha4⟩ := fbackup_just (st := { st with p := p3 }) hj3
  rw [tk_eq hty3 hv3] at ha4
  refine ⟨p4, ?_, ha4.at⟩
  have hct : collectText (fuel + 1) t.val { st with p := p2 } = .ok ((t.val, n3), { st with p := p3 }) := by
    unfold collectText
    rw [fbind_ok hn3]
    have : (n3.typ != ItemType.tText) = true := by rw [hty3]; simpa using hnx
    simp only [this, if_true]
    rfl
  unfold textOrTag
  simp only
  rw [fbind_ok hsk]
  simp only [ht, hu, Bool.false_eq_true, if_false]
  rw [fbind_ok hn1]
  simp only [show (ItemType.tText == ItemType.tLeftDelim) = false by decide, Bool.false_and, Bool.false_eq_true, if_false]
  rw [fbind_ok hb2]
  simp only [beq_self_eq_true, if_true]
  rw [fbind_ok hct]
  simp only
  rw [fbind_ok hb4]
  simp only
  unfold rawtextP
  rw [SoyVerif.Props.C15.rawtext_spec]
  simp only [hty3]
  rw [fbind_ok (show (pure (joinLines t.val (tok0.typ == ItemType.tComment) (nx.typ == ItemType.tComment)) : FP Bytes) { st with p := p4 } =
    .ok (_, { st with p := p4 }) from rfl)]
  by_cases hj : (joinLines t.val (tok0.typ == ItemType.tComment) (nx.typ == ItemType.tComment)).isEmpty = true
  · rw [if_pos hj, if_pos hj]; rfl
  · rw [if_neg hj, if_neg hj]; rfl


/-- `textOrTag_skip` without the hypothesis on the token handed in (it is not used): whatever `skipComments` returns, if
    it is neither Comment nor Text, `textOrTag` goes on as if handed that token -/
theorem textOrTag_skip' (ef fuel : Nat) (untl : List ItemType) (c0 n : Item) (st st1 : FState)
    (hsk : skipComments (fuel + 1) c0 st = .ok (n, st1)) (hn : n.typ ≠ .tComment) (hnt : n.typ ≠ .tText) :
    textOrTag pf ef (fuel + 2) c0 untl st = textOrTag pf ef (fuel + 2) n untl st1 := by
  have hnt' : (n.typ == ItemType.tText) = false := by simpa using hnt
  conv => lhs; unfold textOrTag
  conv => rhs; unfold textOrTag
  simp only
  rw [fbind_ok hsk, fbind_ok (skipComments_id fuel n st1 hn)]
  simp only [hnt', Bool.false_eq_true, if_false]

/-- `skipComments` returns an until token: `textOrTag` halts -/
theorem textOrTag_until (ef fuel : Nat) (untl : List ItemType) (tok0 n : Item) (st0 st1 : FState)
    (hsk : skipComments (fuel + 1) tok0 st0 = .ok (n, st1)) (hu : untl.contains n.typ = true) :
    textOrTag pf ef (fuel + 2) tok0 untl st0 = .ok ((none, true), st1) := by
  unfold textOrTag
  simp only
  rw [fbind_ok hsk]
  simp only [hu, if_true]
  rfl

/-- the head of a round of `itemList`: `next` reads `tok0` — the first of the pending comment tokens `cs`, or `nx` itself
    if there is none — and `skipComments` returns `nx` -/
theorem head_run (cs : List Tk) (hcs : ∀ c ∈ cs, c.typ = .tComment) (nx : Tk) (hnx : nx.typ ≠ .tComment) (s : List Tk)
    (f : Nat) (st : FState) (hst : At st.p (cs ++ nx :: s)) :
    ∃ tok0 p0 n p', FileParser.next st = .ok (tok0, { st with p := p0 }) ∧
      skipComments (f + cs.length + 2) tok0 { st with p := p0 } = .ok (n, { st with p := p' }) ∧
      (tok0.typ == .tComment) = !cs.isEmpty ∧ n.typ = nx.typ ∧ n.val = nx.val ∧ Just p' n s := by
  cases cs with
  | nil =>
    obtain ⟨n, p1, hn, hty, hv, hj1⟩ := fnext_at (st := st) hst
    refine ⟨n, p1, n, p1, hn, skipComments_id (f + 0 + 1) n _ (by rw [hty]; exact hnx), ?_, hty, hv, hj1⟩
    have : (n.typ == ItemType.tComment) = false := by rw [hty]; simpa using hnx
    rw [this]; rfl
  | cons c cs' =>
    obtain ⟨c0, p1, hn, hty, hv, hj1⟩ := fnext_at (st := st) hst
    have hc0 : c0.typ = .tComment := by rw [hty]; exact hcs c (by simp)
    obtain ⟨m, p2, hs, a, b, d⟩ := skip_run cs' (fun x hx => hcs x (by simp [hx])) c0 hc0 nx s hnx (f + 1) { st with p := p1 } hj1
    refine ⟨c0, p1, m, p2, hn, ?_, by simp [hc0], a, b, d⟩
    have e : f + (c :: cs').length + 2 = f + 1 + cs'.length + 2 := by simp; omega
    rw [e]; exact hs

end

/-! ## the list induction: `itemList(itemEOF)` on the tokens of a body with comments -/

section
open SoyVerif.Model.FileParser (FState FP Node NodeList textOrTag itemListLoop skipComments parseFile parseSource)
open SoyVerif.Spec (joinLines)
open SoyVerif.Props.C15c (ctextNodes toList_append)
variable (ff : UInt64 → Bytes) (pf : Bytes → Option UInt64)

/-- the tokens of a body, position-free -/
def tksOfX : XBody → List Tk
  | [] => [⟨.tEOF, []⟩]
  | .text t :: r => textTk t ++ tksOfX r
  | .cmd a d :: r => ⟨.tLeftDelim, [123]⟩ :: (unsp (piecesBody ff a d) ++ tRD :: tksOfX r)
  | .cmt c :: r => ⟨.tComment, cmtSrc c⟩ :: tksOfX r

theorem itemsOfX_tk : ∀ (b : XBody) (q : Nat), (itemsOfX ff q b).map Item.tk = tksOfX ff b
  | [], _ => rfl
  | .text t :: r, q => by simp [itemsOfX, tksOfX, textItem_tk, itemsOfX_tk r]
  | .cmd a d :: r, q => by simp [itemsOfX, tksOfX, tagItems, emitT_tk, itemsOfX_tk r, Item.tk, tRD]
  | .cmt c :: r, q => by simp [itemsOfX, tksOfX, itemsOfX_tk r, Item.tk]

/-- the piece at the head of `r` is a comment -/
def nextIsCmt (r : XBody) : Bool :=
  match r.head? with
  | some p => p.isCmt
  | none => false

/-- every print command of the body is canonical (what the expression parser returns) -/
def CanonX : XBody → Prop
  | [] => True
  | .text _ :: r => CanonX r
  | .cmd a d :: r => CmdCanon ff pf a d ∧ CanonX r
  | .cmt _ :: r => CanonX r

/-- the node list of a body, MODULO POSITIONS; the flag = the piece directly before is a comment.  Per text piece `t` the
    RawText node of `joinLines t tb ta` (`tb` = the piece directly before is a comment, `ta` = the piece directly after is
    one; no node if the lexer drops the piece or the text normalises to nothing), per print command its print node,
    nothing per comment -/
def NodesMatchX : Bool → List Node → XBody → Prop
  | _, nl, [] => nl = []
  | tb, nl, .text t :: r => ∃ p rest, nl = ctextNodes t p tb (nextIsCmt r) ++ rest ∧ NodesMatchX false rest r
  | _, nl, .cmd a d :: r => ∃ pos e' ds' rest, nl = Node.print pos e' ds' :: rest ∧ erase e' = erase a ∧
      ds'.map eraseDir = d.map eraseDir ∧ NodesMatchX false rest r
  | _, nl, .cmt _ :: r => NodesMatchX true nl r

/-- the fuel side conditions of every print command of the body -/
def FuelX (ef G : Nat) : XBody → Prop
  | [] => True
  | .text _ :: r => FuelX ef G r
  | .cmd a d :: r => (ExprFuel ff ef a d ∧ (∀ x ∈ d, x.args.length + d.length + 1 < G) ∧ d.length < G) ∧ FuelX ef G r
  | .cmt _ :: r => FuelX ef G r

theorem tksX_head (r : XBody) (h : ∀ p ∈ r.head?, p.isText = false) :
    ∃ nx s, tksOfX ff r = nx :: s ∧ nx.typ ≠ .tText ∧ (nx.typ == .tComment) = nextIsCmt r := by
  match r, h with
  | [], _ => exact ⟨_, _, rfl, by simp, by simp [nextIsCmt]⟩
  | .cmd a d :: r, _ => exact ⟨_, _, rfl, by simp, by simp [nextIsCmt, XPiece.isCmt]⟩
  | .cmt c :: r, _ => exact ⟨_, _, rfl, by simp, by simp [nextIsCmt, XPiece.isCmt]⟩
  | .text t :: r, h => have := h (.text t) (by simp); simp [XPiece.isText] at this

theorem nodesMatchX_flag (tb : Bool) (nl : List Node) (r : XBody) (h : ∀ p ∈ r.head?, p.isText = false)
    (hm : NodesMatchX tb nl r) : NodesMatchX false nl r := by
  match r, h, hm with
  | [], _, hm => exact hm
  | .cmd a d :: r, _, hm => exact hm
  | .cmt c :: r, _, hm => exact hm
  | .text t :: r, h, _ => have := h (.text t) (by simp); simp [XPiece.isText] at this

theorem fuelX_of_len : ∀ (b : XBody) (n : Nat), (tksOfX ff b).length ≤ n → FuelX ff (8 * n + 64) (2 * n + 2) b
  | [], _, _ => trivial
  | .text t :: r, n, h => fuelX_of_len r n (by simp [tksOfX] at h; omega)
  | .cmt c :: r, n, h => fuelX_of_len r n (by simp [tksOfX] at h; omega)
  | .cmd a d :: r, n, h => by
    simp only [tksOfX, List.length_cons, List.length_append] at h
    obtain ⟨f1, f2, f3⟩ := fuel_ok ff a d n (by omega)
    exact ⟨⟨⟨by have := f1.1; omega, fun x hx y hy => by have := f1.2 x hx y hy; omega⟩, f2, f3⟩,
      fuelX_of_len r n (by omega)⟩

variable (T : TableOK)
include T

/-- **parser.**  `itemList(itemEOF)` on the tokens of a well-formed body, `cs` = the Comment tokens pending in front -/
theorem parse_xbody (ef G : Nat) : ∀ (b : XBody), WFX ff b → CanonX ff pf b → FuelX ff ef G b →
    ∀ (cs : List Tk), (∀ c ∈ cs, c.typ = .tComment) →
    ∀ (F : Nat) (lpos : Option Nat) (nodes : NodeList) (st : FState), At st.p (cs ++ tksOfX ff b) →
    G + (cs.length + (tksOfX ff b).length) + 3 ≤ F →
    ∃ lp nl st' tail, itemListLoop pf ef F [.tEOF] lpos nodes st = .ok (.list lp nl, st') ∧
      nl.toList = nodes.toList ++ tail ∧ NodesMatchX (!cs.isEmpty) tail b
  | [], _, _, _, cs, hcs, F, lpos, nodes, st, hst, hF => by
    simp only [tksOfX, List.length_cons, List.length_nil] at hF
    obtain ⟨f, rfl⟩ : ∃ f, F = f + cs.length + 1 + 3 := ⟨F - cs.length - 4, by omega⟩
    obtain ⟨tok0, p0, n, p', hn0, hsk, hsc, hty, hv, hj⟩ := head_run cs hcs ⟨.tEOF, []⟩ (by simp) [] f st hst
    have hun := textOrTag_until pf ef (f + cs.length + 1) [.tEOF] tok0 n _ _ hsk (by rw [hty]; rfl)
    refine ⟨lpos.getD tok0.pos, nodes, { st with p := p' }, [], ?_, by simp, rfl⟩
    unfold itemListLoop
    rw [fbind_ok hn0]
    simp only
    rw [fbind_ok hun]
    rfl
  | .cmt c :: r, hwf, hcan, hfu, cs, hcs, F, lpos, nodes, st, hst, hF => by
    have e : cs ++ tksOfX ff (.cmt c :: r) = (cs ++ [⟨.tComment, cmtSrc c⟩]) ++ tksOfX ff r := by simp [tksOfX]
    rw [e] at hst
    obtain ⟨lp, nl, st', tail, hr, hnl, hm⟩ := parse_xbody ef G r hwf.2 hcan hfu (cs ++ [⟨.tComment, cmtSrc c⟩])
      (by intro x hx
          rcases List.mem_append.mp hx with hx | hx
          · exact hcs x hx
          · simp at hx; rw [hx]) F lpos nodes st hst (by simp [tksOfX] at hF ⊢; omega)
    refine ⟨lp, nl, st', tail, hr, hnl, ?_⟩
    have : (!(cs ++ [(⟨.tComment, cmtSrc c⟩ : Tk)]).isEmpty) = true := by cases cs <;> rfl
    rw [this] at hm
    exact hm
  | .cmd a d :: r, hwf, hcan, hfu, cs, hcs, F, lpos, nodes, st, hst, hF => by
    simp only [tksOfX, List.length_cons, List.length_append] at hF
    obtain ⟨f, rfl⟩ : ∃ f, F = f + cs.length + 1 + 3 := ⟨F - cs.length - 4, by omega⟩
    obtain ⟨tok0, p0, n, p', hn0, hsk, hsc, hty, hv, hj⟩ := head_run cs hcs ⟨.tLeftDelim, [123]⟩ (by simp) _ f st hst
    have hty' : n.typ = .tLeftDelim := hty
    have hsw := textOrTag_skip' pf ef (f + cs.length + 1) [.tEOF] tok0 n _ _ hsk (by rw [hty']; decide) (by rw [hty']; decide)
    obtain ⟨pos, e', ds', p2, hto, he, hd, ha⟩ := textOrTag_print ff pf T a d hcan.1 ef (f + cs.length + 1) hfu.1.1
      (fun x hx => by have := hfu.1.2.1 x hx; omega) (by have := hfu.1.2.2; omega) [.tEOF] (by decide) (by decide)
      n hty' (tksOfX ff r) { st with p := p' } hj.at
    have hto' := hsw.trans hto
    obtain ⟨lp, nl, st', tail, hr, hnl, hm⟩ := parse_xbody ef G r hwf.2 hcan.2 hfu.2 [] (by simp) (f + cs.length + 1 + 2)
      (some (lpos.getD tok0.pos)) (nodes.append (.cons (Node.print pos e' ds') .nil)) { st with p := p2 } ha (by simp; omega)
    refine ⟨lp, nl, st', Node.print pos e' ds' :: tail, ?_, ?_, pos, e', ds', tail, rfl, he, hd, hm⟩
    · unfold itemListLoop
      rw [fbind_ok hn0]
      simp only
      rw [fbind_ok hto']
      simp only [Bool.false_eq_true, if_false]
      exact hr
    · rw [hnl, toList_append]
      simp [NodeList.toList]
  | .text t :: r, hwf, hcan, hfu, cs, hcs, F, lpos, nodes, st, hst, hF => by
    have hhead : ∀ p ∈ r.head?, p.isText = false := fun p hp => (hwf.2.1 p hp).1
    obtain ⟨nx, s, hnx, h1, h2⟩ := tksX_head ff r hhead
    by_cases hd : 0 < t.length ∧ dropped t = false
    · have htk : textTk t = [⟨.tText, t⟩] := by simp [textTk, hd]
      simp only [tksOfX, htk, hnx, List.length_cons, List.length_append, List.cons_append, List.nil_append] at hst hF
      obtain ⟨f, rfl⟩ : ∃ f, F = f + cs.length + 1 + 3 := ⟨F - cs.length - 4, by omega⟩
      obtain ⟨tok0, p0, n, p', hn0, hsk, hsc, hty, hv, hj⟩ := head_run cs hcs ⟨.tText, t⟩ (by simp) (nx :: s) f st hst
      have hty' : n.typ = .tText := hty
      have hv' : n.val = t := hv
      obtain ⟨p2, hto, ha2⟩ := textOrTag_textG pf ef (f + cs.length + 1) [.tEOF] (by decide) tok0 n hty' _ _ hsk nx h1 s hj.at
      rw [hsc, h2, hv'] at hto
      rw [← hnx] at ha2
      by_cases hjl : (joinLines t (!cs.isEmpty) (nextIsCmt r)).isEmpty = true
      · rw [if_pos hjl] at hto
        obtain ⟨lp, nl, st', tail, hr, hnl, hm⟩ := parse_xbody ef G r hwf.2.2 hcan hfu [] (by simp) (f + cs.length + 1 + 2)
          (some (lpos.getD tok0.pos)) nodes { st with p := p2 } ha2 (by rw [hnx]; simp; omega)
        refine ⟨lp, nl, st', tail, ?_, hnl, 0, tail, ?_, hm⟩
        · unfold itemListLoop
          rw [fbind_ok hn0]
          simp only
          rw [fbind_ok hto]
          simp only [Bool.false_eq_true, if_false]
          exact hr
        · simp [ctextNodes, hjl]
      · rw [if_neg hjl] at hto
        obtain ⟨lp, nl, st', tail, hr, hnl, hm⟩ := parse_xbody ef G r hwf.2.2 hcan hfu [] (by simp) (f + cs.length + 1 + 2)
          (some (lpos.getD tok0.pos)) (nodes.append (.cons (.rawText n.pos (joinLines t (!cs.isEmpty) (nextIsCmt r))) .nil))
          { st with p := p2 } ha2 (by rw [hnx]; simp; omega)
        refine ⟨lp, nl, st', Node.rawText n.pos (joinLines t (!cs.isEmpty) (nextIsCmt r)) :: tail, ?_, ?_, n.pos, tail, ?_, hm⟩
        · unfold itemListLoop
          rw [fbind_ok hn0]
          simp only
          rw [fbind_ok hto]
          simp only [Bool.false_eq_true, if_false]
          exact hr
        · rw [hnl, toList_append]
          simp [NodeList.toList]
        · have hjl' : (joinLines t (!cs.isEmpty) (nextIsCmt r)).isEmpty = false := by simpa using hjl
          simp [ctextNodes, hjl', hd.2]
    · have htk : textTk t = [] := by simp [textTk, hd]
      have hdr : dropped t = true := by
        have := hwf.1.1
        simpa [this] using hd
      simp only [tksOfX, htk, List.nil_append] at hst hF
      obtain ⟨lp, nl, st', tail, hr, hnl, hm⟩ := parse_xbody ef G r hwf.2.2 hcan hfu cs hcs F lpos nodes st hst hF
      refine ⟨lp, nl, st', tail, hr, hnl, 0, tail, ?_, nodesMatchX_flag _ _ r hhead hm⟩
      simp [ctextNodes, hdr]

end

section
open SoyVerif.Model.FileParser (Node NodeList parseFile parseSource)
variable (ff : UInt64 → Bytes) (pf : Bytes → Option UInt64) (LT : LexTableOK) (T : TableOK)
include LT T

/-- **`body_source_spec_cmds_comments`** — C17d's `body_source_spec_cmds` and C15c's `body_source_spec_comments` combined.
    For every well-formed body `b` (`WFX`: text pieces that are `textOK`, never adjacent, not ending with `/` directly before
    a comment; print commands that are `CmdOk` and `CmdCanon`; block comments `/*c*/` that are `cmtOK`), `parse.SoyFile` on
    the source text `srcOfX ff b`:

    * the lexer sends exactly `itemsOfX ff 0 b`, every item at its exact END offset;
    * the parser returns, in source order and modulo positions (`NodesMatchX`): for every text piece `t` that is not dropped
      and does not normalise to nothing `RawText (joinLines t tb ta)` with `tb` = the piece directly before is a comment,
      `ta` = the piece directly after is a comment; for every command its print node (expression, directive names and
      arguments modulo positions); nothing for a comment. -/
theorem body_source_spec_cmds_comments (b : XBody) (hw : WFX ff b) (hc : CanonX ff pf b) :
    lexAll (srcOfX ff b) false = .items (itemsOfX ff 0 b) ∧
      ∃ nl, parseSource pf (srcOfX ff b) = .ok nl ∧ NodesMatchX false nl b := by
  have hl := lexAll_xbody ff LT b hw
  refine ⟨hl, ?_⟩
  have hlen : (tksOfX ff b).length = (itemsOfX ff 0 b).length := by rw [← itemsOfX_tk ff b 0]; simp
  have hfu := fuelX_of_len ff b (itemsOfX ff 0 b).length (by omega)
  have hst0 := at_init (itemsOfX ff 0 b)
  rw [itemsOfX_tk] at hst0
  obtain ⟨lp, nl, st', tail, hr, hnl, hm⟩ := parse_xbody ff pf T (8 * (itemsOfX ff 0 b).length + 64)
    (2 * (itemsOfX ff 0 b).length + 2) b hw hc hfu [] (by simp) (8 * (itemsOfX ff 0 b).length + 64) none .nil
    { p := initState (itemsOfX ff 0 b) } hst0 (by simp; omega)
  refine ⟨tail, ?_, hm⟩
  unfold parseSource
  rw [hl]
  simp only
  unfold parseFile
  simp only [StateT.run, FileParser.fuelFor, FileParser.exprFuel, Parser.fuelFor]
  rw [hr]
  simp only [hnl, NodeList.toList, List.nil_append]

end

/-! ### Non-vacuity (text and comments; the print commands of C17d's examples fit in the same way) -/

section
open SoyVerif.Props.C15c (ctextNodes)
open SoyVerif.Model.FileParser (Node parseSource)
open SoyVerif.Spec (joinLines)

/-- non-vacuity: `t /* x */ b⏎ c /*y*/` — the text between the two comments is trimmed on both sides -/
def xexBody : XBody := [.text [116, 32], .cmt [32, 120, 32], .text [32, 98, 10, 32, 99, 32], .cmt [121]]

theorem xexBody_wf (ff : UInt64 → Bytes) : WFX ff xexBody := by
  simp only [xexBody, WFX, List.head?_cons, Option.mem_def, Option.some.injEq, forall_eq', XPiece.isText, XPiece.isCmt,
    and_true, true_and, forall_const]
  refine ⟨?_, ?_, ?_, ?_, ?_, ?_⟩ <;> decide

theorem xexBody_spec (ff : UInt64 → Bytes) (pf : Bytes → Option UInt64) (LT : LexTableOK) (T : TableOK) :
    ∃ p1 p2, parseSource pf [116, 32, 47, 42, 32, 120, 32, 42, 47, 32, 98, 10, 32, 99, 32, 47, 42, 121, 42, 47] =
      .ok [.rawText p1 [116], .rawText p2 [98, 32, 99]] := by
  obtain ⟨_, nl, hp, hm⟩ := body_source_spec_cmds_comments ff pf LT T xexBody (xexBody_wf ff) (by simp [xexBody, CanonX])
  have hsrc : srcOfX ff xexBody =
      [116, 32, 47, 42, 32, 120, 32, 42, 47, 32, 98, 10, 32, 99, 32, 47, 42, 121, 42, 47] := by rfl
  have hd := C15c.cexBody_dropped
  have j1 : joinLines [116, 32] false true = [116] := by rfl
  have j2 : joinLines [32, 98, 10, 32, 99, 32] true true = [98, 32, 99] := by rfl
  rw [hsrc] at hp
  simp only [xexBody, NodesMatchX, nextIsCmt, List.head?_cons, XPiece.isCmt, ctextNodes, hd.1, hd.2, j1, j2] at hm
  obtain ⟨p1, r1, h1, p2, r2, h2, h3⟩ := hm
  refine ⟨p1, p2, ?_⟩
  rw [hp, h1, h2, h3]
  simp

end
end SoyVerif.Props.C15d
