/-
  C20 / C01 / C16 / C17 — the OUTPUT SHAPE of the soft-float formatters, for every double:

  * `format_finite_decimal`, `formatJS_finite_decimal`: for a finite double, `F64.format` (Go 'g', -1:
    `FloatNode.String`, the Soy literal) and `F64.formatJS` (ECMAScript Number::toString: `data.Float.String`,
    encoding/json) write  `[-] int [. digits] [e (+|-) digits]`  with a non-empty integer part without
    leading zero (`DecShape`); `format_nonfinite`, `formatJS_nonfinite` enumerate the other outputs
    (NaN, +Inf / -Inf, Infinity / -Infinity) and `formatJS_zero` the unsigned zero.
  * Consequences: `jsonFloat_finite_jnum` (the hypothesis `FloatsOk` of C16b holds of every finite float,
    negative zero included — it is written "-0"), `floatLiteral_finite` (the hypothesis `floatSpelling` of
    C17b holds of every finite float literal printed with `F64.format`).
  These are statements about the digit lists produced by `shortest` / `natDigits` / `fmtE` / `fmtEJS` / `fmtF`
  (digits are ASCII digits, the shortest digit string of a non-zero double is not 0, the exponent has a sign
  and at least one digit, a '.' is followed by a digit) — not about numeric correctness, which the bit-for-bit
  correspondence C20f64 decides.
-/
import SoyVerif.Lemmas.F64Shape

namespace SoyVerif.Props.C20b
open SoyVerif SoyVerif.Lemmas.LexPrint SoyVerif.Lemmas.F64Shape

/-- Go's `strconv.FormatFloat(x, 'g', -1, 64)` of a finite double is a decimal text -/
theorem format_finite_decimal (x : F64) (hn : x.isNaN = false) (hi : x.isInf = false) : DecShape x.format :=
  format_shape x hn hi

/-- ECMAScript's Number::toString of a finite double is a decimal text -/
theorem formatJS_finite_decimal (x : F64) (hn : x.isNaN = false) (hi : x.isInf = false) : DecShape x.formatJS :=
  formatJS_shape x hn hi

/-- the other outputs of `format`: NaN, +Inf, -Inf -/
theorem format_nonfinite (x : F64) :
    (x.isNaN = true → x.format = [78, 97, 78]) ∧
    (x.isNaN = false → x.isInf = true → x.format = if x.sign then [45, 73, 110, 102] else [43, 73, 110, 102]) := by
  constructor
  · intro h; simp [F64.format, h]
  · intro h1 h2; simp [F64.format, h1, h2]

/-- the other outputs of `formatJS`: NaN, Infinity, -Infinity -/
theorem formatJS_nonfinite (x : F64) :
    (x.isNaN = true → x.formatJS = [78, 97, 78]) ∧
    (x.isNaN = false → x.isInf = true →
      x.formatJS = if x.sign then [45, 73, 110, 102, 105, 110, 105, 116, 121] else [73, 110, 102, 105, 110, 105, 116, 121]) := by
  constructor
  · intro h; simp [F64.formatJS, h]
  · intro h1 h2; simp [F64.formatJS, h1, h2]

/-- both zeros print "0" in JavaScript layout, "0" / "-0" in Go's -/
theorem format_zero (x : F64) (hn : x.isNaN = false) (hi : x.isInf = false) (hz : x.isZero = true) :
    x.formatJS = [48] ∧ x.format = (if x.sign then [45, 48] else [48]) := by
  simp [F64.formatJS, F64.format, hn, hi, hz]

/-- C16b's float hypothesis, discharged: encoding/json writes every finite double as a JSON number -/
theorem jsonFloat_finite_jnum (x : F64) (hn : x.isNaN = false) (hi : x.isInf = false) :
    ∃ lit, SoyVerif.Model.JsonMarshal.jsonFloat x = some lit ∧ SoyVerif.Lemmas.JsonValue.JNum lit :=
  jsonFloat_finite x hn hi

/-- C17b's float hypothesis, discharged: `FloatNode.String()` of a finite double is a Soy float literal
    (what `scanNumber` accepts as a Float) -/
theorem floatLiteral_finite (bits : UInt64) (hn : (F64.mk bits).isNaN = false) (hi : (F64.mk bits).isInf = false) :
    floatSpelling (SoyVerif.Model.Printer.fmtFloatLit (fun b => F64.format ⟨b⟩) bits) = true :=
  floatSpelling_finite bits hn hi

/-! ### non-vacuity: the formatters evaluated -/

-- 1.5, 1e21, 1e-7, 123456.789, 5e-324, -0, 100
example : (F64.mk 0x3ff8000000000000).format = [49, 46, 53] ∧ (F64.mk 0x3ff8000000000000).formatJS = [49, 46, 53] := by decide +kernel
example : (F64.mk 0x444b1ae4d6e2ef50).format = [49, 101, 43, 50, 49] ∧ (F64.mk 0x444b1ae4d6e2ef50).formatJS = [49, 101, 43, 50, 49] := by
  decide +kernel
example : (F64.mk 0x3e7ad7f29abcaf48).format = [49, 101, 45, 48, 55] ∧ (F64.mk 0x3e7ad7f29abcaf48).formatJS = [49, 101, 45, 55] := by
  decide +kernel
example : (F64.mk 0x0000000000000001).formatJS = [53, 101, 45, 51, 50, 52] := by decide +kernel
example : (F64.mk 0x8000000000000000).format = [45, 48] ∧ (F64.mk 0x8000000000000000).formatJS = [48] := by decide +kernel
example : (F64.mk 0x4059000000000000).format = [49, 48, 48] ∧
    SoyVerif.Model.Printer.fmtFloatLit (fun b => F64.format ⟨b⟩) 0x4059000000000000 = [49, 48, 48, 46, 48] := by decide +kernel
example : floatSpelling (SoyVerif.Model.Printer.fmtFloatLit (fun b => F64.format ⟨b⟩) 0x4059000000000000) = true :=
  floatLiteral_finite _ (by decide +kernel) (by decide +kernel)
example : floatSpelling (SoyVerif.Model.Printer.fmtFloatLit (fun b => F64.format ⟨b⟩) 0x7ff8000000000001) = false := by decide +kernel

end SoyVerif.Props.C20b
