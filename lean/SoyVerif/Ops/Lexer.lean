/-
  Protocol operations of the lexer model.

    lex <mode: file|expr> <hex input>
      -> `OK Typ:pos:hexval;Typ:pos:hexval;…`   every item sent on the channel, in order
                                                 (Error items: `Error:pos:<class>` — `-` or the one-byte class of Model/Lexer.lean `clsTag`…; the text is not modelled)
       | `PANIC`    the lexer goroutine dies with a runtime panic
       | `FUELOUT`  the model's budget of state transitions ran out (never observed; see Props/C05)
-/
import SoyVerif.Ops.Common
import SoyVerif.Model.Lexer

namespace SoyVerif.Ops.Lexer
open SoyVerif SoyVerif.Ops SoyVerif.Model

def showItem (it : Item) : String :=
  it.typ.name ++ ":" ++ toString it.pos ++ ":" ++
    Bytes.toHexWire it.val  -- for Error items: the class byte (`-` = no class), not the message

def showResult : Lex.LexResult → String
  | .items is => "OK " ++ ";".intercalate (is.map showItem)
  | .panic => "PANIC"
  | .fuelOut => "FUELOUT"

def ops : List Op := [
  ("lex", fun f => match f with
    | [mode, s] =>
      if mode != "file" && mode != "expr" then "BADREQ"
      else match Bytes.ofHex s with
        | some b => showResult (Lex.lexAll b (mode == "expr"))
        | none => "BADREQ"
    | _ => "BADREQ")
]

end SoyVerif.Ops.Lexer
