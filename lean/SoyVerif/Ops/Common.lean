/- Shared helpers of the driver's operation tables (core-only). -/
import SoyVerif.Base.Bytes

namespace SoyVerif.Ops

/-- one protocol operation: name and handler from the (hex) fields to the answer line -/
abbrev Op := String × (List String → String)

def flag (s : String) : Bool := s == "1"

def okBytes (b : Bytes) : String := "OK " ++ Bytes.toHexWire b

def optBytes : Option Bytes → String
  | some b => okBytes b
  | none => "PANIC"

/-- run `f` on the decoded first field -/
def with1 (f : Bytes → String) : List String → String
  | [s] => match Bytes.ofHex s with
    | some b => f b
    | none => "BADREQ"
  | _ => "BADREQ"

end SoyVerif.Ops
