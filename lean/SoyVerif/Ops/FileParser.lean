/-
  Protocol operations of the file-level parser model.

    parsefile2 <name> <hex source> <tokens of the REAL lexer>   model parser on the real token stream
    parsesrc   <name> <hex source>                              lexer model ∘ parser model
      -> `OK <sexpr of the file>` (same wire as harness/astwire.go `sxFile`)
       | `ERR <line> <col>` | `PANIC` | `HANG`
    gounquote  <hex>            strconv.Unquote as the parser uses it on attribute values
      -> `OK <hex>` | `ERR`
    leak file <hex source> <tokens>   does parse.SoyFile leave its lexer goroutine behind?
      -> `OK` | `LEAK` | `PANIC` | `HANG`      (mode `expr` is answered by Ops/Parser.lean)
-/
import SoyVerif.Ops.Parser
import SoyVerif.Model.FileParserAst

namespace SoyVerif.Ops.FileParser
open SoyVerif SoyVerif.Ops SoyVerif.Model SoyVerif.Model.FileParser SExp

def bad (kind goType : String) : SExp := list [atom kind, atom goType]

/-- the Go type name `%T` prints for a node -/
def goType : Node → String
  | .rawText .. => "*ast.RawTextNode" | .print .. => "*ast.PrintNode" | .msg .. => "*ast.MsgNode"
  | .css .. => "*ast.CssNode" | .debugger .. => "*ast.DebuggerNode" | .log .. => "*ast.LogNode"
  | .ifc .. => "*ast.IfNode" | .ifCond .. => "*ast.IfCondNode" | .forc .. => "*ast.ForNode"
  | .switch .. => "*ast.SwitchNode" | .switchCase .. => "*ast.SwitchCaseNode" | .call .. => "*ast.CallNode"
  | .paramValue .. => "*ast.CallParamValueNode" | .paramContent .. => "*ast.CallParamContentNode"
  | .letValue .. => "*ast.LetValueNode" | .letContent .. => "*ast.LetContentNode"
  | .headerParam .. => "*ast.HeaderParamNode" | .nspace .. => "*ast.NamespaceNode"
  | .template .. => "*ast.TemplateNode" | .soyDoc .. => "*ast.SoyDocNode" | .list .. => "*ast.ListNode"
  | .plural .. => "*ast.MsgPluralNode" | .pluralCase .. => "*ast.MsgPluralCaseNode"
  | .placeholder .. => "*ast.MsgPlaceholderNode" | .htmlTag .. => "*ast.MsgHtmlTagNode"

mutual
  partial def encCmd : Node → SExp
    | .rawText p t => list [atom "raw", nat p, hex t]
    | .print p a dirs => list ([atom "print", nat p, AstWire.encExpr a] ++
        dirs.map fun d => list ([atom "dir", nat d.pos, hex d.name] ++ d.args.map AstWire.encExpr))
    | .msg p m d body =>
      let (bp, parts) := match body with
        | .list bp ns => (bp, ns.toList)
        | n => (n.pos, [])
      list ([atom "msg", nat p, nat 0, hex m, hex d, nat bp] ++ encParts parts)
    | .css p e s => list [atom "css", nat p, AstWire.encOptExpr e, hex s]
    | .debugger p => list [atom "debugger", nat p]
    | .log p b => list [atom "log", nat p, encBlock b]
    | .ifc p conds => list ([atom "if", nat p] ++ conds.toList.map fun c => match c with
        | .ifCond cp ce b => list [atom "cond", nat cp, AstWire.encOptExpr ce, encBlock b]
        | n => bad "badcond" (goType n))
    | .forc p v l b ie => list [atom "for", nat p, hex v, AstWire.encExpr l, encBlock b,
        (match ie with | .cons b' _ => encBlock b' | .nil => list [atom "none"])]
    | .switch p v cases => list ([atom "switch", nat p, AstWire.encExpr v] ++ cases.toList.map fun c => match c with
        | .switchCase cp vs b => list [atom "case", nat cp, list (atom "vals" :: vs.map AstWire.encExpr), encBlock b]
        | n => bad "badcase" (goType n))
    | .call p n all d params => list ([atom "call", nat p, hex n, boolA all, AstWire.encOptExpr d] ++
        params.toList.map fun q => match q with
          | .paramValue pp k e => list [atom "pv", nat pp, hex k, AstWire.encExpr e]
          | .paramContent pp k b => list [atom "pc", nat pp, hex k, encBlock b]
          | n => bad "badparam" (goType n))
    | .letValue p n e => list [atom "let", nat p, hex n, AstWire.encExpr e]
    | .letContent p n b => list [atom "letc", nat p, hex n, encBlock b]
    | .headerParam p o n tp t d => list [atom "hparam", nat p, boolA o, hex n, nat tp, hex t, AstWire.encOptExpr d]
    | .nspace p n ae => list [atom "namespace", nat p, hex n, atom (AstWire.aeTag ae)]
    | .template p n b ae pr => list [atom "template", nat p, hex n, encBlock b, atom (AstWire.aeTag ae), boolA pr]
    | .soyDoc p ps => list ([atom "soydoc", nat p] ++ ps.map fun q => list [atom "p", nat q.pos, hex q.name, boolA q.optional])
    | n => bad "badcmd" (goType n)
  partial def encBlock : Node → SExp
    | .list p ns => list ([atom "block", nat p] ++ ns.toList.map encCmd)
    | n => bad "badblock" (goType n)
  partial def encParts : List Node → List SExp
    | [] => []
    | c :: r =>
      (match c with
        | .rawText p t => list [atom "raw", nat p, hex t]
        | .placeholder p body =>
          list [atom "ph", nat p, hex [], (match body with
            | .htmlTag tp t => list [atom "tag", nat tp, hex t]
            | b => encCmd b)]
        | .plural p v cases dflt =>
          let cs := cases.toList.map fun pc => match pc with
            | .pluralCase cp cv body =>
              let (bp, parts) := match body with
                | .list bp ns => (bp, ns.toList)
                | n => (n.pos, [])
              list ([atom "case", nat cp, int cv, nat bp] ++ encParts parts)
            | n => bad "badpcase" (goType n)
          let (dp, dparts) := match dflt with
            | .list dp ns => (dp, ns.toList)
            | n => (n.pos, [])
          list ([atom "plural", nat p, hex [], AstWire.encExpr v] ++ cs ++ [list ([atom "default", nat dp] ++ encParts dparts)])
        | n => bad "badpart" (goType n)) :: encParts r
end

def encFile (name : Bytes) (body : List Node) : SExp := list ([atom "file", hex name] ++ body.map encCmd)

def ferr (input : Bytes) : FErr → String
  | .err pos => s!"ERR {Parser.lineNumber input pos} {Parser.columnNumber input pos}"
  | .panic => "PANIC"
  | .fuelOut => "HANG"

def answerOf (name input : Bytes) (r : Except FErr (List Node)) : String :=
  match r with
  | .ok body =>
    -- trees with a static counterpart travel through `Node.toCmd?` and the shared encoder of
    -- Model/AstWire.lean (which validates the conversion); the others through `encFile`
    match toSoyFile? name input body with
    | some f => "OK " ++ (AstWire.encFile f).toStr
    | none => "OK " ++ (encFile name body).toStr
  | .error e => ferr input e

/-- the float parser of the ops is the model's (and the same function as `Ops.Parser.parseFloatStub`) -/
example : parseFloat64 = Parser.parseFloatStub := rfl

def ops : List Op := [
  ("parsefile2", fun f => match f with
    | [name, src, toks] =>
      match Bytes.ofHex name, Bytes.ofHex src, Parser.decItems toks with
      | some nm, some input, some items =>
        answerOf nm input (parseFile parseFloat64 (exprFuel items) items)
      | _, _, _ => "BADREQ"
    | _ => "BADREQ"),
  ("parsesrc", fun f => match f with
    | [name, src] =>
      match Bytes.ofHex name, Bytes.ofHex src with
      | some nm, some input => answerOf nm input (soyFile input)
      | _, _ => "BADREQ"
    | _ => "BADREQ"),
  ("gounquote", fun f => match f with
    | [s] => match Bytes.ofHex s with
      | some b => match goUnquote b with
        | some v => okBytes v
        | none => "ERR"
      | none => "BADREQ"
    | _ => "BADREQ"),
  -- leak prediction; file mode here, expression mode delegated to Ops/Parser.lean
  ("leak", fun f => match f with
    | ["file", _, toks] =>
      match Parser.decItems toks with
      | some items =>
        let o := fileEntry parseFloat64 (exprFuel items) items
        match o.result with
        | .error .panic => "PANIC"
        | .error .fuelOut => "HANG"
        | _ => if o.drained then "OK" else "LEAK"
      | none => "BADREQ"
    | _ => match Parser.ops.find? (·.1 == "leak") with
      | some (_, h) => h f
      | none => "BADOP")
]

end SoyVerif.Ops.FileParser
