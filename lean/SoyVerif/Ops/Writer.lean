import SoyVerif.Ops.Common
import SoyVerif.Model.Writer

namespace SoyVerif.Ops.Writer
open SoyVerif SoyVerif.Ops SoyVerif.Model.Writer

def decChunks (s : String) : Option (List Bytes) :=
  -- "." = no Write call at all; "-" = one Write call with no bytes (e.g. a lone {nil})
  if s == "." then some [] else (s.splitOn ",").mapM Bytes.ofHex

def ops : List Op := [
  -- fields: sources, template, data (ignored by the model); chunks of the fault-free run; room; failAt (-1 = none)
  ("execw", fun f => match f with
    | _ :: _ :: _ :: chunks :: room :: failAt :: _ =>
      match decChunks chunks, room.toNat?, failAt.toInt? with
      | some cs, some r, some fa =>
        let st : FaultState := { room := r, calls := 0, failAt := if fa < 0 then none else some fa.toNat }
        let o := render faultWriter cs st []
        (if o.ok then "ok " else "err ") ++ Bytes.toHexWire o.accepted
      | _, _, _ => "BADREQ"
    | _ => "BADREQ")
]

end SoyVerif.Ops.Writer
