/-
  The specification side of C01 / C02 as protocol operations (search oracle):
    spec-exec      same fields as `exec`      -> OK <hex output> | ERR | UNSPEC
    spec-evalexpr  same fields as `evalexpr`  -> OK <value tokens, identities 0> | ERR | UNSPEC
  Answers come from Spec/Eval.lean (Appendix A of DESIGN.md), not from the interpreter model.
-/
import SoyVerif.Ops.Eval
import SoyVerif.Spec.Eval

namespace SoyVerif.Ops.EvalSpec
open SoyVerif SoyVerif.Ops SoyVerif.Model SoyVerif.Spec.Eval

mutual
def ofValue : Value → Val
  | .undefined => .undefined
  | .null => .null
  | .bool b => .bool b
  | .int i => .int i.toInt
  | .float f => .float f
  | .str s => .str s
  | .list _ xs => .list (ofValues xs)
  | .map _ kvs => .map (ofKvs kvs)
def ofValues : List Value → List Val
  | [] => []
  | x :: xs => ofValue x :: ofValues xs
def ofKvs : List (Bytes × Value) → List (Bytes × Val)
  | [] => []
  | (k, v) :: r => (k, ofValue v) :: ofKvs r
end

mutual
partial def encVal : Val → List String
  | .undefined => ["U"]
  | .null => ["N"]
  | .bool b => [if b then "T" else "F"]
  | .int i => ["I" ++ Ops.Value.i64Hex (Int64.ofInt i)]
  | .float f => ["D" ++ Ops.Value.f64Hex f]
  | .str s => ["S" ++ Bytes.toHexWire s]
  | .list xs => ("L0." ++ toString xs.length) :: (xs.map encVal).flatten
  | .map kvs => ("M0." ++ toString kvs.length) ::
      ((sortByKey kvs).map fun kv => ("K" ++ Bytes.toHexWire kv.1) :: encVal kv.2).flatten
end

def ops : List Op := [
  ("spec-exec", fun f => match f with
    | [sources, files, globals, tmpl, data, ij, opts] =>
      match Ops.Eval.decFilesWithText sources files, Ops.Eval.decFrame globals, Bytes.ofHex tmpl, Ops.Eval.decFrame data, Ops.Eval.decIj ij, Ops.Eval.decOpts opts with
      | some fs, some gl, some name, some d, some ijv, some o =>
        match Registry.addAll [] fs with
        | none => "UNSPEC"
        | some reg =>
          if !Check.check (Registry.toCheck reg) then "UNSPEC"
          else if !Model.Eval.setGlobals reg gl then "UNSPEC"
          else
            match render reg (ofKvs gl) (ijv.map fun p => ofKvs p.2) o.msgs.isSome name (ofKvs d) Ops.Eval.callFuel with
            | .val out => "OK " ++ Ops.Eval.showOut o out
            | .error => "ERR"
            | .unspec => "UNSPEC"
      | _, _, _, _, _, _ => "BADREQ"
    | _ => "BADREQ"),
  ("spec-evalexpr", fun f => match f with
    | [_, tree, globals, so] =>
      match Ops.Eval.decFrame globals with
      | some gl => Ops.Ast.withExpr tree fun e =>
        match eval { vars := [], loops := [], ij := none, globals := ofKvs gl } e with
        | .val v =>
          let toks := encVal v
          let toks := if so == "sorttokens" then (toks.toArray.qsort (· < ·)).toList else toks
          "OK " ++ Ops.Value.untokens toks
        | .error => "ERR"
        | .unspec => "UNSPEC"
      | none => "BADREQ"
    | _ => "BADREQ")
]

end SoyVerif.Ops.EvalSpec
