/-
  Protocol operation tying the READER of JavaScript text (Spec/JsParse: tokenizer, parser, reading as the ASTs of
  Spec/JsSemRef / Spec/JsStmt) to a JavaScript engine's parser and to the generator.

  jsparse  fields: JavaScript text (hex), compiled files `(files (file NAME cmds…) …)` or `(files)`, file name (hex),
           [globals `(m (KEY value)…)` as in jsgen: the table the bundle was compiled with]
           The text (REAL soyjs.Write output, or a corrupted variant) is read with `jsParseFile`.  When the compiled
           file is given and every template of it is in the fragment (Props/C04f `toFile`), the functions read are
           compared with the model's translation (in the canonical form of Props/C14c).
           answer:  `ACCEPT <n> SAME`            read as n functions, equal to the translation
                    `ACCEPT <n> DIFF <read> <translation>`   (S-expressions)
                    `ACCEPT <n> NOAST`           read as n functions; no translation to compare with
                    `REJECT LEX|PARSE|READ  AST|NOAST`   not a text of the fragment (no tokens / no parse / a program
                        the fragment's ASTs do not describe); `AST`: the model HAS a translation of the file
                    `BADREQ` / `BADTREE`
-/
import SoyVerif.Ops.Common
import SoyVerif.Ops.Check
import SoyVerif.Ops.JsGen
import SoyVerif.Props.C14c

namespace SoyVerif.Ops.JsParse
open SoyVerif SoyVerif.Ops SoyVerif.Model SoyVerif.Spec.JsParse
open SoyVerif.Spec.JsSemRef (JsExpr Fn1 Fn2)
open SoyVerif.Spec.JsSem (JsOp)
open SoyVerif.Spec.JsStmt
open SoyVerif.Props.C04f (toFile)
open SoyVerif.Props.C14c (canonF)

def hx (b : Bytes) : String := Bytes.toHexWire b

def showOp : JsOp → String
  | .mul => "mul" | .mod => "mod" | .add => "add" | .sub => "sub" | .eq => "eq" | .ne => "ne"
  | .lt => "lt" | .le => "le" | .gt => "gt" | .ge => "ge" | .and => "and" | .or => "or"

def showE : JsExpr → String
  | .null => "null"
  | .bool b => if b then "true" else "false"
  | .num i => s!"(num {i})"
  | .str s => s!"(str {hx s})"
  | .neg a => s!"(neg {showE a})"
  | .not a => s!"(not {showE a})"
  | .bin op a b => s!"(bin {showOp op} {showE a} {showE b})"
  | .cond c a b => s!"(cond {showE c} {showE a} {showE b})"
  | .nonNullElse a a' b => s!"(elvis {showE a} {showE a'} {showE b})"
  | .local g => s!"(local {hx g})"
  | .optData k => s!"(optData {hx k})"
  | .ijData => "ijData"
  | .member x k => s!"(member {showE x} {hx k})"
  | .index x i => s!"(index {showE x} {i})"
  | .guard g r => s!"(guard {showE g} {showE r})"
  | .paren x => s!"(paren {showE x})"
  | .call1 .floor a => s!"(floor {showE a})"
  | .call1 .ceil a => s!"(ceil {showE a})"
  | .call1 .round a => s!"(round {showE a})"
  | .call1 .length a => s!"(length {showE a})"
  | .call1 .nonNull a => s!"(nonNull {showE a})"
  | .call2 .min a b => s!"(min {showE a} {showE b})"
  | .call2 .max a b => s!"(max {showE a} {showE b})"
  | .loopFirst i => s!"(loopFirst {hx i})"
  | .loopLastEach i l => s!"(loopLastEach {hx i} {hx l})"
  | .loopLastRange v s l => s!"(loopLastRange {hx v} {hx s} {hx l})"

/-- a literal directive argument (anything else: its constructor) -/
def showArg : Expr → String
  | .null p => s!"(null@{p})"
  | .bool p b => s!"(bool@{p} {b})"
  | .int p v => s!"(int@{p} {v})"
  | .str p q v => s!"(str@{p} {hx q} {hx v})"
  | _ => "(other)"

def showDir (d : Directive) : String := s!"(dir@{d.pos} {hx d.name} {" ".intercalate (d.args.map showArg)})"

def showBase : DataBase → String
  | .empty => "empty"
  | .all => "all"
  | .expr e => s!"(expr {showE e})"

mutual
  def showS : JsStmt → String
    | .appendLit b t => s!"(appendLit {hx b} {hx t})"
    | .append b e ds => s!"(append {hx b} {showE e} [{" ".intercalate (ds.map showDir)}])"
    | .var x e => s!"(var {hx x} {showE e})"
    | .varEmpty x => s!"(varEmpty {hx x})"
    | .ifs conds => s!"(ifs {showConds conds})"
    | .varLength x l => s!"(varLength {hx x} {hx l})"
    | .varIndex x l i => s!"(varIndex {hx x} {hx l} {hx i})"
    | .forUp i lim body => s!"(forUp {hx i} {hx lim} {showSs body})"
    | .ifPos lim body els => s!"(ifPos {hx lim} {showSs body} {showSs els})"
    | .forStep i lim step idx init body => s!"(forStep {hx i} {hx lim} {hx step} {hx idx} {showE init} {showSs body})"
    | .switchS e cases => s!"(switch {showE e} {showCases cases})"
    | .call b callee base params =>
      s!"(call {hx b} {hx callee} {showBase base} [{" ".intercalate (params.map fun kv => s!"({hx kv.1} {showE kv.2})")}])"
    | .ifZero idx body => s!"(ifZero {hx idx} {showSs body})"
    | .pluralS e cases dflt => s!"(plural {showE e} {showPlural cases} {showSs dflt})"
    | .appendCss b e => s!"(appendCss {hx b} {showE e})"
    | .debuggerS => "debugger"
  def showSs : JsStmts → String
    | .nil => "()"
    | .cons s r => s!"({showS s} . {showSs r})"
  def showConds : JsConds → String
    | .nil => "()"
    | .els body => s!"(else {showSs body})"
    | .cons c body rest => s!"(if {showE c} {showSs body} {showConds rest})"
  def showCases : JsCases → String
    | .nil => "()"
    | .dflt body => s!"(default {showSs body})"
    | .cons labels body rest => s!"(case [{" ".intercalate (labels.map showE)}] {showSs body} {showCases rest})"
  def showPlural : JsPlural → String
    | .nil => "()"
    | .cons v body rest => s!"(case {v} {showSs body} {showPlural rest})"
end

def showF (f : JsFunc) : String := s!"(func {hx f.name} {f.optional} {showSs f.body})"

def showFs (fs : List JsFunc) : String := "[" ++ " ".intercalate (fs.map showF) ++ "]"

/-- the translation of the file, if the model has one -/
def translation [SoyVerif.Props.C04c.Globals] (files fname : String) : Option (Option (List JsFunc)) :=
  match Check.decFiles files, Bytes.ofHex fname with
  | some fs, some fnm =>
    (match fs.find? (·.name == fnm) with
      | some file => some ((toFile file).map fun r => r.1.map canonF)
      | none => some none)
  | _, _ => none

/-- the answer for a decoded request -/
def run (text : Bytes) (files fname : String) (gs : List (Bytes × Value)) : String :=
  letI : SoyVerif.Props.C04c.Globals := ⟨gs⟩
  match translation files fname with
  | none => "BADTREE"
  | some tr =>
    let tag := if tr.isSome then "AST" else "NOAST"
    match jsLex text with
    | none => "REJECT LEX " ++ tag
    | some ts =>
      match parseProgram ts with
      | none => "REJECT PARSE " ++ tag
      | some p =>
        match readProgram p with
        | none => "REJECT READ " ++ tag
        | some fs =>
          match tr with
          | none => s!"ACCEPT {fs.length} NOAST"
          | some want =>
            if showFs fs == showFs want then s!"ACCEPT {fs.length} SAME"
            else s!"ACCEPT {fs.length} DIFF {showFs fs} {showFs want}"

def ops : List Op := [
  ("jsparse", fun f => match f with
    | [textH, files, fname] =>
      (match Bytes.ofHex textH with
        | some text => run text files fname []
        | none => "BADTREE")
    | [textH, files, fname, globalsS] =>
      (match Bytes.ofHex textH, Ops.JsGen.decGlobals globalsS with
        | some text, some gs => run text files fname gs
        | _, _ => "BADTREE")
    | _ => "BADREQ")
]

end SoyVerif.Ops.JsParse
